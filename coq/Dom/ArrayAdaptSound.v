(* ArrayAdaptSound.v — property C14 on the mirror model of
   array_adaptive_domain<interval_domain> (Dom/ArrayAdapt.v).  See the end of the file for
   the theorems and their hypotheses. *)
From Coq Require Import ZArith NArith List Bool Lia.
From CrabV Require Import Base.ZInf Scalar.Itv Scalar.ItvSound Ir.Syntax Dom.ItvEnv Dom.ItvEnvSound
     Dom.ItvSolver Dom.ItvSolverSound Dom.ItvDomain Dom.ItvDomainSound Dom.History Dom.HistorySound
     Fix.Thresholds Fix.ThresholdsSound Dom.ArraySmash Dom.ArraySmashSound
     Dom.ArrayAdaptCore Dom.ArrayAdaptCoreSound Dom.ArrayAdapt Dom.ArrayAdaptFrame.
Import ListNotations.
Local Open Scope Z_scope.

Arguments d_add : simpl never.
Arguments d_assign : simpl never.
Arguments d_weak_assign : simpl never.
Arguments d_expand : simpl never.
Arguments d_forget : simpl never.
Arguments e_project : simpl never.
Arguments d_eval : simpl never.

(* ---- names ---- *)
Definition is_pv (x : var) : Prop := (x mod 6 = 0)%N.

Lemma pv_is_pv i : is_pv (pv i).
Proof.
  unfold is_pv, pv, sv. replace (3 * (2 * i))%N with (i * 6)%N by lia. apply N.mod_mul. discriminate.
Qed.
Lemma pv_prog x : is_pv x -> is_prog x.
Proof.
  unfold is_pv, is_prog. intros H.
  rewrite (N.div_mod x 6) by discriminate. rewrite H.
  replace (6 * (x / 6) + 0)%N with ((2 * (x / 6)) * 3)%N by lia. apply N.mod_mul. discriminate.
Qed.
Lemma cgv_mod a o sz : (cgv a o sz mod 6 = 3)%N.
Proof.
  unfold cgv, sv. set (n := npair a _).
  replace (3 * (2 * n + 1))%N with (3 + n * 6)%N by lia. rewrite N.mod_add by discriminate. reflexivity.
Qed.
Lemma cgv_prog a o sz : is_prog (cgv a o sz).
Proof. unfold cgv. apply sv_prog. Qed.
Lemma cgv_not_pv a o sz : ~ is_pv (cgv a o sz).
Proof. unfold is_pv. rewrite cgv_mod. discriminate. Qed.
Lemma pv_not_cgv x a o sz : is_pv x -> x <> cgv a o sz.
Proof. intros P E. subst. eapply cgv_not_pv; eauto. Qed.

Lemma npair_inj x y x' y' : npair x y = npair x' y' -> x = x' /\ y = y'.
Proof.
  unfold npair. intros H.
  assert (S : (x + y = x' + y')%N).
  { destruct (N.lt_trichotomy (x + y) (x' + y')) as [L|[E|L]]; auto; exfalso; nia. }
  rewrite S in H. assert (y = y') by lia. subst. split; lia.
Qed.

Lemma cgv_inj a o sz a' o' sz' : 0 <= o -> 0 <= sz -> 0 <= o' -> 0 <= sz' ->
  cgv a o sz = cgv a' o' sz' -> a = a' /\ o = o' /\ sz = sz'.
Proof.
  unfold cgv, sv. intros H1 H2 H3 H4 E.
  assert (E' : npair a (npair (Z.to_N o) (Z.to_N sz)) = npair a' (npair (Z.to_N o') (Z.to_N sz'))) by lia.
  apply npair_inj in E'. destruct E' as [-> E']. apply npair_inj in E'. destruct E' as [E1 E2].
  split; auto. split; lia.
Qed.

Lemma div2_sa a : N.div2 (sa a) = a.
Proof. unfold sa. apply N.div2_double. Qed.
Lemma div2_ta a : N.div2 (ta a) = a.
Proof.
  unfold ta. rewrite N.div2_div. replace (2 * a + 1)%N with (1 + a * 2)%N by lia.
  rewrite N.div_add by discriminate. reflexivity.
Qed.
Lemma even_sa a : N.even (sa a) = true.
Proof. unfold sa. rewrite N.even_mul. reflexivity. Qed.
Lemma even_ta a : N.even (ta a) = false.
Proof. unfold ta. rewrite N.add_comm. rewrite N.even_add_mul_2. reflexivity. Qed.
Lemma sa_inj a b : sa a = sa b -> a = b.
Proof. unfold sa. lia. Qed.
Lemma sa_not_ta a b : sa a <> ta b.
Proof. unfold sa, ta. lia. Qed.

(* expressions over program scalars *)
Definition le_pv (e : linexp) : Prop := forall c v, In (c, v) (le_terms e) -> is_pv v.
Definition lc_pv (c : lincst) : Prop := le_pv (lc_exp c).
Definition agree_pv (s' s : store) : Prop := forall x, is_pv x -> s' x = s x.
Lemma le_pv_prog e : le_pv e -> le_prog e.
Proof. intros H c v I. apply pv_prog. eapply H; eauto. Qed.
Lemma eval_le_agree_pv e s' s : le_pv e -> agree_pv s' s -> eval_le e s' = eval_le e s.
Proof.
  intros P A. unfold eval_le. f_equal. revert P. unfold le_pv.
  induction (le_terms e) as [|[c v] r IH]; simpl; intros P; auto.
  rewrite IH by (intros; eapply P; right; eauto). rewrite (A v) by (eapply P; left; eauto). auto.
Qed.

Section Adapt.

Variable esz : arr -> Z.
Variable onecell : arr -> option Z.
Hypothesis esz_pos : forall a, 0 < esz a.
Variable p : params.

(* the concrete semantics of the base domain: its arrays are [sa a] (the array itself) and
   [ta a] (the temporary array of a symbolic load) *)
Definition esz' (b : arr) : Z := esz (N.div2 b).
Definition one' (b : arr) : option Z := if N.even b then onecell (N.div2 b) else None.
Definition alignedb (k o : Z) : bool := (0 <=? o) && (o mod k =? 0).
Lemma alignedb_spec k o : alignedb k o = true <-> aligned k o.
Proof. unfold alignedb, aligned. rewrite andb_true_iff, Z.leb_le, Z.eqb_eq. tauto. Qed.
(* only the cells at aligned offsets are ever read *)
Definition lift (mu : amem) : amem :=
  fun b i => if N.even b then (if alignedb (esz (N.div2 b)) i then mu (N.div2 b) i else None) else None.
Notation G' := (G esz' one').

Lemma esz'_sa a : esz' (sa a) = esz a.
Proof. unfold esz'. rewrite div2_sa. auto. Qed.
Lemma esz'_ta a : esz' (ta a) = esz a.
Proof. unfold esz'. rewrite div2_ta. auto. Qed.
Lemma lift_sa mu a i : lift mu (sa a) i = if alignedb (esz a) i then mu a i else None.
Proof. unfold lift. rewrite even_sa, div2_sa. auto. Qed.
Lemma even_is_sa b : N.even b = true -> b = sa (N.div2 b).
Proof.
  intros H. unfold sa. destruct b as [|q]; [reflexivity|]. destruct q; simpl in *; try discriminate; reflexivity.
Qed.
Lemma lift_some mu b i v : lift mu b i = Some v ->
  b = sa (N.div2 b) /\ aligned (esz (N.div2 b)) i /\ mu (N.div2 b) i = Some v.
Proof.
  unfold lift. destruct (N.even b) eqn:E; [|discriminate].
  destruct (alignedb _ i) eqn:A; [|discriminate]. intros H. split; [apply even_is_sa; auto|].
  split; auto. apply alignedb_spec; auto.
Qed.
Lemma lift_change mu mu1 a : same_mem_but a mu1 mu -> forall b i v, lift mu1 b i = Some v ->
  lift mu b i = Some v \/ (b = sa a /\ aligned (esz a) i /\ mu1 a i = Some v).
Proof.
  intros HM b i v H. destruct (lift_some _ _ _ _ H) as (E & AL & M).
  destruct (N.eq_dec (N.div2 b) a) as [Q|NQ].
  - right. rewrite Q in *. auto.
  - left. rewrite E, lift_sa. apply alignedb_spec in AL. rewrite AL. rewrite <- HM; auto.
Qed.
Lemma lift_ta mu a i : lift mu (ta a) i = None.
Proof. unfold lift. rewrite even_ta. auto. Qed.
Lemma cell_ok_sa a i : cell_ok one' (sa a) i <-> cell_ok onecell a i.
Proof. unfold cell_ok, one'. rewrite even_sa, div2_sa. tauto. Qed.
Lemma cell_ok_ta a i : cell_ok one' (ta a) i.
Proof. unfold cell_ok, one'. rewrite even_ta. auto. Qed.

(* ---- concretisation ---- *)
Definition cells_in (s' : store) (mu : amem) : Prop :=
  forall a o v, aligned (esz a) o -> cell_ok onecell a o -> mu a o = Some v -> s' (cgv a o (esz a)) = v.

Definition Ga (d : adom) (c : cst) : Prop :=
  exists s', G' (d_base d) (s', lift (snd c)) /\ agree_pv s' (fst c) /\ cells_in s' (snd c).

(* ---- invariants of the abstract state ---- *)
Definition tracked_cell (d : adom) (a : arr) (o sz : Z) : Prop :=
  exists st, am_find (d_arrs d) a = Some st /\ as_smashed st = false /\
             (exists c, In c (as_map st) /\ c_off c = o /\ c_size c = sz) /\
             gh_has (d_gh d) a o sz = true.
Definition live (m : omap) : Prop := forall c, In c m -> c_rem c = false.
Definition Wf (d : adom) : Prop :=
  forall a st, am_find (d_arrs d) a = Some st -> wl (esz a) (as_map st) /\ live (as_map st).
Definition Tidy (d : adom) : Prop :=
  forall a o sz, 0 <= o -> 0 < sz -> nt (a_base (d_base d)) (cgv a o sz) -> tracked_cell d a o sz.
Definition Usum (d : adom) : Prop :=
  forall a k, la_at (a_la (d_base d)) (sa a) = BConst k ->
    (exists st, am_find (d_arrs d) a = Some st /\ as_smashed st = true) \/
    is_top (e_at (a_base (d_base d)) (ghost (sa a))) = true.
Definition inv (d : adom) : Prop := a_is_bottom d = true \/ (Wf d /\ Tidy d /\ Usum d).

Lemma Ga_not_bottom d c : Ga d c -> a_is_bottom d = false.
Proof. intros (s' & HG & _). unfold a_is_bottom. eapply G_not_bottom; eauto. Qed.

Lemma inv_of_Ga d c : inv d -> Ga d c -> Wf d /\ Tidy d /\ Usum d.
Proof. intros [B|H] HG; auto. rewrite (Ga_not_bottom _ _ HG) in B. discriminate. Qed.

Lemma Ga_at d s mu x : Ga d (s, mu) -> is_pv x -> gamma (a_at d x) (s x).
Proof.
  intros (s' & HG & A & _) P. unfold a_at. cbn [fst] in A. rewrite <- (A x P).
  apply (G_at esz' one' _ _ x HG). apply pv_prog; auto.
Qed.

(* ---- tools on the concretisation of the base domain ---- *)
(* variables that are top in the base value can take any value *)
Lemma G_upd_tops st s s1 mu : G' st (s, mu) ->
  (forall x, s1 x <> s x -> is_prog x /\ is_top (e_at (a_base st) x) = true) ->
  G' st (s1, mu).
Proof.
  intros (L & S & (w & Gw & A) & C) H. split; auto. split; auto. split; auto.
  exists (fun x => if Z.eq_dec (s1 x) (s x) then w x else s1 x). split.
  - destruct (a_base st) as [|m] eqn:E; [exact Gw|]. intros k. simpl in Gw.
    destruct (Z.eq_dec (s1 k) (s k)) as [Q|Q]; [apply Gw|].
    destruct (H k Q) as [_ T]. simpl in T. eapply is_top_gamma_all; eauto.
  - intros x P. cbn [fst] in *. destruct (Z.eq_dec (s1 x) (s x)) as [Q|Q]; auto.
    rewrite Q. apply A; auto.
Qed.

(* the contents of an array can change where the base value claims nothing about it *)
Lemma G_mem_change st s mu mu1 : G' st (s, mu) ->
  (forall b i v, mu1 b i = Some v -> mu b i = Some v \/ (forall k, la_at (a_la st) b <> BConst k) \/
                                     is_top (e_at (a_base st) (ghost b)) = true) ->
  G' st (s, mu1).
Proof.
  intros (L & S & W & C) H. split; auto. split; auto. split; auto.
  intros b k i v Lb O M. cbn [snd] in *. destruct (H b i v M) as [E|[E|E]].
  - eapply C; eauto.
  - exfalso. eapply E; eauto.
  - destruct W as (w & Gw & _). eapply is_top_gamma_all; eauto. apply e_at_sound; eauto.
Qed.

Lemma G_la st c : G' st c -> a_la st <> LBot.
Proof. intros (L & _). auto. Qed.
Lemma G_base_not_bot st c : G' st c -> a_base st <> EBot.
Proof. intros (_ & _ & (w & Gw & _) & _) E. rewrite E in Gw. exact Gw. Qed.

(* the value of an expression over program scalars *)
Lemma G_eval st s' mu s e : G' st (s', mu) -> agree_pv s' s -> le_pv e ->
  gamma (d_eval e (a_base st)) (eval_le e s).
Proof.
  intros (_ & _ & (w & Gw & A) & _) AP P.
  rewrite <- (eval_le_agree_pv e s' s P AP).
  rewrite <- (eval_le_agree e w s') by (auto using le_pv_prog).
  apply d_eval_sound; auto.
Qed.

Lemma G_singleton st s' mu s e n : G' st (s', mu) -> agree_pv s' s -> le_pv e ->
  isingleton (d_eval e (a_base st)) = Some n -> eval_le e s = n.
Proof.
  intros HG AP P H. apply (isingleton_spec _ _ H). eapply G_eval; eauto.
Qed.

Lemma G_check st s' mu s e k : G' st (s', mu) -> agree_pv s' s -> le_pv e ->
  check_elem_size e (a_base st) = Some k -> eval_le e s = k.
Proof.
  intros HG AP P H. unfold check_elem_size in H.
  destruct (isingleton (d_eval e (a_base st))) as [n|] eqn:E; [|discriminate].
  destruct (_ && _); inversion H; subst. eapply G_singleton; eauto.
Qed.

(* a store of the base value in which the index has its concrete value *)
Lemma G_witness_eval st s' mu s e : G' st (s', mu) -> agree_pv s' s -> le_pv e ->
  exists w, genv (a_base st) w /\ eval_le e w = eval_le e s.
Proof.
  intros (_ & _ & (w & Gw & A) & _) AP P. exists w. split; auto.
  rewrite (eval_le_agree e w s') by (auto using le_pv_prog). apply eval_le_agree_pv; auto.
Qed.

(* ---- the array map and the ghost map ---- *)
Lemma am_find_remove_same m a : am_find (am_remove m a) a = None.
Proof.
  induction m as [|[b st] r IH]; simpl; auto. destruct (N.eqb_spec b a); simpl; auto.
  destruct (N.eqb_spec b a); try congruence; auto.
Qed.
Lemma am_find_remove_other m a b : b <> a -> am_find (am_remove m a) b = am_find m b.
Proof.
  intros N. induction m as [|[c st] r IH]; simpl; auto. destruct (N.eqb_spec c a); simpl.
  - subst. destruct (N.eqb_spec a b); try congruence; auto.
  - rewrite IH; auto.
Qed.
Lemma am_find_set_same m a st :
  am_find (am_set m a st) a = Some (match am_find m a with Some old => as_set old st | None => st end).
Proof. unfold am_set. destruct (am_find m a); simpl; rewrite N.eqb_refl; auto. Qed.
Lemma am_find_set_other m a st b : b <> a -> am_find (am_set m a st) b = am_find m b.
Proof.
  intros N. unfold am_set. destruct (am_find m a); simpl; destruct (N.eqb_spec a b); try congruence; auto.
  apply am_find_remove_other; auto.
Qed.

Lemma gh_find_erase_all_same g a : gh_find (gh_erase_all g a) a = None.
Proof.
  induction g as [|[b l] r IH]; simpl; auto. destruct (N.eqb_spec b a); simpl; auto.
  destruct (N.eqb_spec b a); try congruence; auto.
Qed.
Lemma gh_find_erase_all_other g a b : b <> a -> gh_find (gh_erase_all g a) b = gh_find g b.
Proof.
  intros N. induction g as [|[c l] r IH]; simpl; auto. destruct (N.eqb_spec c a); simpl.
  - subst. destruct (N.eqb_spec a b); try congruence; auto.
  - rewrite IH; auto.
Qed.
Lemma gh_find_put_same g a l : gh_find (gh_put g a l) a = Some l.
Proof. unfold gh_put. simpl. rewrite N.eqb_refl. auto. Qed.
Lemma gh_find_put_other g a l b : b <> a -> gh_find (gh_put g a l) b = gh_find g b.
Proof.
  intros N. unfold gh_put. simpl. destruct (N.eqb_spec a b); try congruence.
  apply gh_find_erase_all_other; auto.
Qed.

Lemma ck_eqb_spec x y : ck_eqb x y = true <-> x = y.
Proof.
  unfold ck_eqb. rewrite andb_true_iff, !Z.eqb_eq. destruct x, y; simpl. split; [intros []; subst; auto|].
  intros H; inversion H; auto.
Qed.

Lemma gh_has_in g a o sz : gh_has g a o sz = true <-> In (o, sz) (gh_cells g a).
Proof.
  unfold gh_has. rewrite existsb_exists. split.
  - intros (x & I & E). apply ck_eqb_spec in E. subst. auto.
  - intros I. exists (o, sz). split; auto. apply ck_eqb_spec. auto.
Qed.

Lemma gh_has_insert g a o sz b o' sz' :
  gh_has (gh_insert g a o sz) b o' sz' = true <-> (b = a /\ o' = o /\ sz' = sz) \/ gh_has g b o' sz' = true.
Proof.
  unfold gh_insert. destruct (gh_has g a o sz) eqn:H.
  - split; auto. intros [(-> & -> & ->)|X]; auto.
  - rewrite !gh_has_in. unfold gh_cells. destruct (N.eq_dec b a) as [->|N].
    + rewrite gh_find_put_same. fold (gh_cells g a). rewrite in_app_iff. simpl. split.
      * intros [I|[E|[]]]; auto. inversion E; subst. auto.
      * intros [(_ & -> & ->)|I]; auto.
    + rewrite gh_find_put_other by auto. split; auto. intros [(E & _)|I]; [congruence|auto].
Qed.

Lemma gh_has_erase g a o sz b o' sz' :
  gh_has (gh_erase g a o sz) b o' sz' = true <->
  gh_has g b o' sz' = true /\ ~ (b = a /\ o' = o /\ sz' = sz).
Proof.
  unfold gh_erase. destruct (gh_find g a) as [l|] eqn:F.
  - rewrite !gh_has_in. unfold gh_cells. destruct (N.eq_dec b a) as [->|N].
    + rewrite gh_find_put_same, F. rewrite filter_In. rewrite negb_true_iff. split.
      * intros [I E]. split; auto. intros (_ & -> & ->).
        assert (X : ck_eqb (o, sz) (o, sz) = true) by (apply ck_eqb_spec; auto). congruence.
      * intros [I NE]. split; auto. destruct (ck_eqb (o, sz) (o', sz')) eqn:E; auto.
        apply ck_eqb_spec in E. inversion E; subst. exfalso. apply NE. auto.
    + rewrite gh_find_put_other by auto. split; [intros I; split; auto; intros (E & _); congruence|tauto].
  - split; [|tauto]. intros H. split; auto. intros (-> & -> & ->).
    rewrite gh_has_in in H. unfold gh_cells in H. rewrite F in H. destruct H.
Qed.

Lemma gh_has_erase_all g a b o sz :
  gh_has (gh_erase_all g a) b o sz = true <-> gh_has g b o sz = true /\ b <> a.
Proof.
  rewrite !gh_has_in. unfold gh_cells. destruct (N.eq_dec b a) as [->|N].
  - rewrite gh_find_erase_all_same. simpl. tauto.
  - rewrite gh_find_erase_all_other by auto. tauto.
Qed.

Lemma gh_has_erase_ghosts a cells : forall g b o sz,
  gh_has (erase_ghosts a cells g) b o sz = true <->
  gh_has g b o sz = true /\ ~ (b = a /\ exists c, In c cells /\ c_off c = o /\ c_size c = sz).
Proof.
  unfold erase_ghosts. induction cells as [|c r IH]; simpl; intros g b o sz.
  - split; [intros H; split; auto; intros (_ & c & [] & _)|tauto].
  - rewrite IH, gh_has_erase. split.
    + intros ((H & N1) & N2). split; auto. intros (E & c' & [<-|I] & E1 & E2).
      * apply N1. auto.
      * apply N2. split; auto. exists c'. auto.
    + intros (H & N). split; [split; auto|].
      * intros (E & E1 & E2). apply N. split; auto. exists c. auto.
      * intros (E & c' & I & E1 & E2). apply N. split; auto. exists c'. auto.
Qed.

(* as_set keeps one of the two states; when it keeps the old one the keys are the same *)
Lemma om_leq_in m1 m2 c : om_leq m1 m2 = true -> In c m1 ->
  exists c', In c' m2 /\ c_off c' = c_off c /\ c_size c' = c_size c.
Proof.
  unfold om_leq. rewrite forallb_forall. intros H I. specialize (H c I).
  destruct (om_get m2 (c_off c) (c_size c)) as [c'|] eqn:E; [|discriminate].
  apply om_get_some in E. exists c'. tauto.
Qed.

Lemma as_set_nonsmashed old new : as_smashed old = false -> as_smashed new = false ->
  as_smashed (as_set old new) = false /\
  (forall c, In c (as_map (as_set old new)) -> In c (as_map old) \/ In c (as_map new)) /\
  (forall c, In c (as_map new) ->
     exists c', In c' (as_map (as_set old new)) /\ c_off c' = c_off c /\ c_size c' = c_size c).
Proof.
  intros O N. unfold as_set. destruct (as_eqb old new) eqn:E.
  - split; auto. split; auto. intros c I. unfold as_eqb in E. rewrite O in E.
    apply andb_true_iff in E. destruct E as [_ E]. apply andb_true_iff in E. destruct E as [_ E].
    eapply om_leq_in; eauto.
  - split; auto. split; auto. intros c I. exists c. auto.
Qed.

Lemma as_set_smashed old new : as_smashed old <> as_smashed new -> as_set old new = new.
Proof.
  intros H. unfold as_set, as_eqb. destruct (as_smashed old), (as_smashed new); simpl; auto; congruence.
Qed.

(* lookup_array_state *)
Lemma lookup_spec d a st d1 : lookup d a = (st, d1) ->
  d_base d1 = d_base d /\ d_gh d1 = d_gh d /\ am_find (d_arrs d1) a = Some st /\
  (forall b, b <> a -> am_find (d_arrs d1) b = am_find (d_arrs d) b) /\
  (am_find (d_arrs d) a = Some st \/ (am_find (d_arrs d) a = None /\ st = new_state)).
Proof.
  unfold lookup. destruct (am_find (d_arrs d) a) as [st0|] eqn:E; intros H; inversion H; subst; clear H.
  - repeat split; auto.
  - cbn [d_base d_gh d_arrs]. split; auto. split; auto. split; [simpl; rewrite N.eqb_refl; auto|].
    split; [|auto]. intros b N. simpl. destruct (N.eqb_spec a b); congruence.
Qed.

Lemma tracked_lookup d a st d1 b o sz : lookup d a = (st, d1) ->
  (tracked_cell d1 b o sz <-> tracked_cell d b o sz).
Proof.
  intros H. destruct (lookup_spec _ _ _ _ H) as (B & Gh & F & O & C).
  unfold tracked_cell. rewrite Gh. destruct (N.eq_dec b a) as [->|N].
  - destruct C as [C|[C ->]].
    + rewrite F, C. tauto.
    + rewrite F, C. split.
      * intros (st0 & E & _ & (c & I & _) & _). inversion E; subst. destruct I.
      * intros (st0 & E & _). discriminate.
  - rewrite O by auto. tauto.
Qed.

Lemma lookup_inv d a st d1 : lookup d a = (st, d1) -> inv d -> inv d1.
Proof.
  intros H [B|(W & T & U)]; [left|right].
  - destruct (lookup_spec _ _ _ _ H) as (E & _). unfold a_is_bottom. rewrite E. auto.
  - destruct (lookup_spec _ _ _ _ H) as (B & Gh & F & O & C). split; [|split].
    + intros b st0 Fb. destruct (N.eq_dec b a) as [->|N].
      * rewrite F in Fb. inversion Fb; subst. destruct C as [C|[C ->]]; [eauto|].
        split; intros c [].
      * rewrite O in Fb by auto. eauto.
    + intros b o sz H1 H2 N. rewrite B in N. apply (tracked_lookup _ _ _ _ b o sz H). auto.
    + intros b k L. rewrite B in *. destruct (U b k L) as [(st0 & E & S)|X]; auto.
      left. destruct (N.eq_dec b a) as [->|N].
      * destruct C as [C|[C _]]; [|congruence]. exists st. rewrite C in E. inversion E; subst. auto.
      * exists st0. rewrite O by auto. auto.
Qed.

Lemma lookup_Ga d a st d1 c : lookup d a = (st, d1) -> Ga d c -> Ga d1 c.
Proof.
  intros H (s' & HG & R). destruct (lookup_spec _ _ _ _ H) as (B & _).
  exists s'. rewrite B. auto.
Qed.

Lemma lookup_nonsmashed_new d a st d1 : lookup d a = (st, d1) ->
  am_find (d_arrs d) a = None -> st = new_state.
Proof.
  intros H N. destruct (lookup_spec _ _ _ _ H) as (_ & _ & _ & _ & [C|[_ C]]); auto. congruence.
Qed.

(* ---- forgetting the ghost variables of cells ---- *)
Definition forgotten (a : arr) (g : gmap_t) (cells : list cell) (y : var) : Prop :=
  exists c, In c cells /\ gh_hasc g a c = true /\ y = cgc a c.

Lemma forget_ghosts_la a g cells : forall b, a_la (forget_ghosts a g cells b) = a_la b.
Proof.
  unfold forget_ghosts. induction cells as [|c r IH]; simpl; intros b; auto.
  rewrite IH. destruct (gh_hasc g a c); auto.
Qed.

Lemma forget_ghosts_bot a g cells : forall b,
  a_base (forget_ghosts a g cells b) = EBot <-> a_base b = EBot.
Proof.
  unfold forget_ghosts. induction cells as [|c r IH]; simpl; intros b; [tauto|].
  rewrite IH. destruct (gh_hasc g a c); [|tauto]. simpl. apply e_forget_bot_iff.
Qed.

Lemma forget_ghosts_nt a g cells : forall b y,
  a_base (forget_ghosts a g cells b) <> EBot -> nt (a_base (forget_ghosts a g cells b)) y ->
  nt (a_base b) y /\ ~ forgotten a g cells y.
Proof.
  unfold forget_ghosts. induction cells as [|c r IH]; simpl; intros b y NB H.
  - split; auto. intros (c & [] & _).
  - destruct (IH _ _ NB H) as [N NF]. destruct (gh_hasc g a c) eqn:GH.
    + simpl in N. apply nt_e_forget in N.
      * destruct N as [N1 N2]. split; auto. intros (c' & [<-|I] & G1 & E); [congruence|].
        apply NF. exists c'. auto.
      * intros E. apply NB. fold (forget_ghosts a g r (mkA (a_la b) (e_forget (a_base b) (cgc a c)))).
        apply forget_ghosts_bot. exact E.
    + split; auto. intros (c' & [<-|I] & G1 & E); [congruence|]. apply NF. exists c'. auto.
Qed.

Lemma forget_ghosts_top a g cells b y :
  a_base b <> EBot -> forgotten a g cells y -> is_top (e_at (a_base (forget_ghosts a g cells b)) y) = true.
Proof.
  intros NB F. destruct (is_top _) eqn:T; auto. exfalso.
  assert (NB' : a_base (forget_ghosts a g cells b) <> EBot) by (rewrite forget_ghosts_bot; auto).
  destruct (forget_ghosts_nt a g cells b y NB' T) as [_ NF]. auto.
Qed.

(* the forgotten ghosts can take any value *)
Lemma forget_ghosts_sound a g cells : forall b s s1 mu, G' b (s, mu) ->
  (forall x, s1 x <> s x -> forgotten a g cells x) ->
  G' (forget_ghosts a g cells b) (s1, mu).
Proof.
  unfold forget_ghosts. induction cells as [|c r IH]; simpl; intros b s s1 mu HG H.
  - assert (E : forall x, s1 x = s x).
    { intros x. destruct (Z.eq_dec (s1 x) (s x)); auto. destruct (H x n) as (c & [] & _). }
    eapply G_upd_tops; eauto. intros x N. elim N. auto.
  - destruct (gh_hasc g a c) eqn:GH.
    + apply (IH _ (upd s (cgc a c) (s1 (cgc a c)))).
      * apply (s_forget1_sound _ _ (VS (cgc a c)) b s mu); auto.
        -- simpl. apply cgv_prog.
        -- intros x N. apply upd_other. congruence.
      * intros x N. destruct (N.eq_dec x (cgc a c)) as [->|NE]; [rewrite upd_same in N; congruence|].
        rewrite upd_other in N by auto. destruct (H x N) as (c' & [<-|I] & G1 & E); [congruence|].
        exists c'. auto.
    + apply (IH _ s); auto. intros x N. destruct (H x N) as (c' & [<-|I] & G1 & E); [congruence|].
      exists c'. auto.
Qed.

Lemma kill_eq a cells om b g :
  kill p a cells om b g = (kill_cells p cells om, forget_ghosts a g cells b,
                           if p_smashable p then g else erase_ghosts a cells g).
Proof.
  unfold kill. destruct cells; auto. unfold kill_cells, forget_ghosts, erase_ghosts. simpl.
  destruct (p_smashable p); auto.
Qed.

(* ---- the offset map after kill_cells ---- *)
Lemma om_get_in m c : In c m -> exists c', om_get m (c_off c) (c_size c) = Some c'.
Proof.
  induction m as [|h t IH]; simpl; [tauto|]. intros [->|I].
  - rewrite !Z.eqb_refl. simpl. eauto.
  - destruct (_ && _); eauto.
Qed.

Lemma om_leq_intro m1 m2 :
  (forall c, In c m1 -> exists c', In c' m2 /\ c_off c' = c_off c /\ c_size c' = c_size c) ->
  om_leq m1 m2 = true.
Proof.
  intros H. unfold om_leq. apply forallb_forall. intros c I.
  destruct (H c I) as (c' & I' & E1 & E2). destruct (om_get_in _ _ I') as (c'' & E).
  rewrite E1, E2 in E. rewrite E. auto.
Qed.

Lemma om_remove_keys c m x : In x (om_remove c m) ->
  exists y, In y m /\ c_off y = c_off x /\ c_size y = c_size x.
Proof.
  unfold om_remove. intros H. apply in_map_iff in H. destruct H as (z & E & I).
  exists z. split; auto. destruct (cell_eqb z c); subst; auto.
Qed.
Lemma om_remove_keys_rev c m y : In y m ->
  exists x, In x (om_remove c m) /\ c_off x = c_off y /\ c_size x = c_size y.
Proof.
  intros I. unfold om_remove.
  exists (if cell_eqb y c then mkC (c_off y) (c_size y) true else y). split.
  - apply in_map_iff. exists y. auto.
  - destruct (cell_eqb y c); auto.
Qed.

Lemma fold_remove_keys_rev cells : forall m y, In y m ->
  exists x, In x (fold_left (fun acc c => om_remove c acc) cells m) /\ c_off x = c_off y /\ c_size x = c_size y.
Proof.
  induction cells as [|c r IH]; simpl; intros m y I; [eauto|].
  destruct (om_remove_keys_rev c m y I) as (x & Ix & E1 & E2).
  destruct (IH _ _ Ix) as (z & Iz & F1 & F2). exists z. split; auto. split; congruence.
Qed.

(* smashable: the cells are only marked, and the array map keeps the old binding *)
Lemma kill_smashable_keeps st cells : p_smashable p = true -> as_smashed st = false ->
  as_set st (mkS false (as_esz st) (kill_cells p cells (as_map st))) = st.
Proof.
  intros S N. unfold as_set. replace (as_eqb st _) with true; auto. symmetry.
  unfold as_eqb. cbn [as_smashed as_map]. rewrite N. simpl.
  apply andb_true_iff. split; apply om_leq_intro.
  - intros c I. unfold kill_cells. rewrite S. apply fold_remove_keys_rev. auto.
  - intros c I. apply in_kill_cells in I. destruct I as (y & Iy & E1 & E2). eauto.
Qed.

(* not smashable: the cells with the keys of the killed ones are erased *)
Lemma in_fold_erase cells : forall m x, In x (fold_left (fun acc c => om_erase c acc) cells m) <->
  In x m /\ forall c, In c cells -> cell_eqb x c = false.
Proof.
  induction cells as [|c r IH]; simpl; intros m x; [split; [intros H; split; auto; intros c []|tauto]|].
  rewrite IH. unfold om_erase. rewrite filter_In, negb_true_iff. split.
  - intros ((I & E) & H). split; auto. intros c' [<-|I']; auto.
  - intros (I & H). split; [split; auto|]; auto.
Qed.

Lemma kill_cells_sub cells m x : p_smashable p = false -> In x (kill_cells p cells m) ->
  In x m /\ forall c, In c cells -> cell_eqb x c = false.
Proof. intros S. unfold kill_cells. rewrite S. apply in_fold_erase. Qed.
Lemma kill_cells_keep cells m x : p_smashable p = false -> In x m ->
  (forall c, In c cells -> cell_eqb x c = false) -> In x (kill_cells p cells m).
Proof. intros S I H. unfold kill_cells. rewrite S. apply in_fold_erase. auto. Qed.

(* ---- word-level maps: an aligned access overlaps no other cell ---- *)
Lemma wl_no_overlap k m n : 0 < k -> wl k m -> aligned k n -> om_get_overlap m n k = [].
Proof.
  intros K W A. destruct (om_get_overlap m n k) as [|x r] eqn:E; auto. exfalso.
  assert (I : In x (om_get_overlap m n k)) by (rewrite E; simpl; auto).
  apply om_get_overlap_sound in I. destruct I as (I & O & NK).
  destruct (W x I) as [S AL]. apply NK. split; auto.
  eapply aligned_overlap_same; eauto.
Qed.

Lemma om_insert_has c m : exists c', In c' (om_insert c m) /\ c_off c' = c_off c /\ c_size c' = c_size c.
Proof.
  induction m as [|h t IH]; simpl; [exists c; auto|].
  destruct (cell_eqb h c) eqn:Q.
  - apply cell_eqb_spec in Q. exists h. simpl. tauto.
  - destruct (cell_ltb c h); [exists c; simpl; auto|].
    destruct IH as (c' & I & E). exists c'. simpl. auto.
Qed.

Lemma in_om_mk_new m o sz : exists c, In c (snd (om_mk m o sz)) /\ c_off c = o /\ c_size c = sz.
Proof.
  unfold om_mk. destruct (om_get m o sz) as [c|] eqn:E; simpl.
  - apply om_get_some in E. exists c. tauto.
  - apply (om_insert_has (mkC o sz false) m).
Qed.

Lemma in_om_mk_old m o sz c : In c m -> In c (snd (om_mk m o sz)).
Proof.
  unfold om_mk. destruct (om_get m o sz); simpl; auto. apply om_insert_in.
Qed.

(* ---- support of the operations of the base domain (array_smashing) ---- *)
Lemma la_at_set_other l t k t' : t' <> t -> la_at (la_set l t k) t' = la_at l t'.
Proof.
  intros N. destruct l as [|m]; simpl; auto. destruct (N.eqb_spec t t'); [congruence|].
  rewrite lget_lremove_other by auto. auto.
Qed.
Lemma la_at_forget_other l t t' : t' <> t -> la_at (la_forget l t) t' = la_at l t'.
Proof.
  intros N. destruct l as [|m]; simpl; auto. rewrite lget_lremove_other by auto. auto.
Qed.
Lemma la_at_forget_same l t k : la_at (la_forget l t) t <> BConst k.
Proof. destruct l as [|m]; simpl; [discriminate|]. rewrite lget_lremove_same. discriminate. Qed.

Lemma ghost_neq_cgv t a o sz : ghost t <> cgv a o sz.
Proof. intros E. pose proof (cgv_prog a o sz) as P. rewrite <- E in P. eapply ghost_not_prog; eauto. Qed.
Lemma gcopy_neq_cgv t a o sz : gcopy t <> cgv a o sz.
Proof.
  intros E. pose proof (cgv_prog a o sz) as P. rewrite <- E in P. red in P. rewrite gcopy_mod in P. discriminate.
Qed.
Lemma ghost_neq_pv t x : is_pv x -> x <> ghost t.
Proof. intros P. apply prog_not_ghost. apply pv_prog; auto. Qed.

Lemma s_forget1_VS_supp x b y : a_base (s_forget1 (VS x) b) <> EBot ->
  nt (a_base (s_forget1 (VS x) b)) y -> y <> x /\ nt (a_base b) y.
Proof. simpl. apply nt_e_forget. Qed.

Lemma s_forget1_VA_supp t b y : a_base (s_forget1 (VA t) b) <> EBot ->
  nt (a_base (s_forget1 (VA t) b)) y -> nt (a_base b) y.
Proof.
  simpl. destruct (la_at (a_la b) t); simpl; auto. intros NB H. apply nt_e_forget in H; tauto.
Qed.
Lemma s_forget1_VA_la t b t' : t' <> t -> la_at (a_la (s_forget1 (VA t) b)) t' = la_at (a_la b) t'.
Proof. intros N. simpl. destruct (la_at (a_la b) t); simpl; auto. apply la_at_forget_other; auto. Qed.
Lemma s_forget1_VA_la_same t b k : la_at (a_la (s_forget1 (VA t) b)) t <> BConst k.
Proof.
  simpl. destruct (la_at (a_la b) t) eqn:E; simpl; try congruence. apply la_at_forget_same.
Qed.
Lemma s_forget1_bot v b : a_base b = EBot -> a_base (s_forget1 v b) = EBot.
Proof.
  intros E. destruct v as [x|t]; simpl; [rewrite E; auto|].
  destruct (la_at (a_la b) t); simpl; auto. rewrite E. auto.
Qed.

Lemma s_array_store_supp t ez val strong b b' : s_array_store t ez val strong b = Some b' ->
  (forall y, a_base b' <> EBot -> nt (a_base b') y -> y = ghost t \/ nt (a_base b) y) /\
  (forall t', t' <> t -> la_at (a_la b') t' = la_at (a_la b) t').
Proof.
  unfold s_array_store. destruct (check_elem_size ez (a_base b)) as [k|]; [|discriminate].
  destruct (equal_size _ t k); intros H; inversion H; subst; clear H; cbn [a_base a_la]; split; auto.
  - intros y NB N. destruct strong; [apply nt_d_assign in N; auto|apply nt_d_weak_assign in N; auto].
  - intros t' N. destruct strong; auto. apply la_at_set_other; auto.
  - intros t' N. destruct strong; auto. apply la_at_set_other; auto.
Qed.

Lemma s_array_load_supp lhs t ez b b' : s_array_load lhs t ez b = Some b' ->
  a_la b' = a_la b /\ (forall y, a_base b' <> EBot -> nt (a_base b') y -> y = lhs \/ nt (a_base b) y).
Proof.
  unfold s_array_load. destruct (check_elem_size ez (a_base b)) as [k|]; [|discriminate].
  destruct (equal_size _ t k); intros H; inversion H; subst; clear H; cbn [a_base a_la]; split; auto.
  - intros y NB N. apply nt_e_forget in N; auto. destruct N as [N1 N].
    assert (NB1 : d_assign lhs (le_var (gcopy t)) (d_expand (ghost t) (gcopy t) (a_base b)) <> EBot).
    { intros E. apply NB. rewrite E. reflexivity. }
    apply nt_d_assign in N; auto. destruct N as [N|N]; auto.
    apply nt_d_expand in N.
    + destruct N; [congruence|auto].
    + intros E. apply NB1. rewrite E. unfold d_assign. destruct (le_get_variable _); reflexivity.
  - intros y NB N. apply nt_e_forget in N; auto. tauto.
Qed.

Lemma s_assign_supp x ex b y : a_base (s_assign x ex b) <> EBot ->
  nt (a_base (s_assign x ex b)) y -> y = x \/ nt (a_base b) y.
Proof. simpl. apply nt_d_assign. Qed.

(* ---- tracked cells under an update of one array ---- *)
Lemma tracked_other_arr b1 m g b2 a st' g' a0 o sz : a0 <> a ->
  (forall o sz, gh_has g' a0 o sz = true <-> gh_has g a0 o sz = true) ->
  (tracked_cell (mkD b2 (am_set m a st') g') a0 o sz <-> tracked_cell (mkD b1 m g) a0 o sz).
Proof.
  intros N H. unfold tracked_cell. cbn [d_arrs d_gh]. rewrite am_find_set_other by auto.
  split; intros (st0 & F & S & C & GH); exists st0; (split; [auto|split; [auto|split; [auto|apply H; auto]]]).
Qed.

(* ---- a generic step of the invariant: one array changes its state ---- *)
Lemma is_top_nt e y : is_top (e_at e y) = true \/ nt e y.
Proof. unfold nt. destruct (is_top (e_at e y)); auto. Qed.

Lemma inv_update d1 a st st' b' g' :
  Wf d1 -> Tidy d1 -> Usum d1 ->
  am_find (d_arrs d1) a = Some st ->
  (wl (esz a) (as_map (as_set st st')) /\ live (as_map (as_set st st'))) ->
  (forall a0, a0 <> a -> forall o sz, gh_has g' a0 o sz = true <-> gh_has (d_gh d1) a0 o sz = true) ->
  (a_base b' <> EBot -> forall a0 o sz, 0 <= o -> 0 < sz -> nt (a_base b') (cgv a0 o sz) ->
     (a0 <> a /\ nt (a_base (d_base d1)) (cgv a0 o sz)) \/
     tracked_cell (mkD b' (am_set (d_arrs d1) a st') g') a0 o sz) ->
  (a_base b' <> EBot -> forall a0 k, la_at (a_la b') (sa a0) = BConst k ->
     (a0 = a /\ (as_smashed (as_set st st') = true \/ is_top (e_at (a_base b') (ghost (sa a0))) = true)) \/
     (a0 <> a /\ la_at (a_la (d_base d1)) (sa a0) = BConst k /\
      (nt (a_base b') (ghost (sa a0)) -> nt (a_base (d_base d1)) (ghost (sa a0))))) ->
  inv (mkD b' (am_set (d_arrs d1) a st') g').
Proof.
  intros W T U F WS GH TS US.
  destruct (a_base b') as [|m'] eqn:EB; [left; unfold a_is_bottom, s_is_bottom; cbn [d_base]; rewrite EB; auto|].
  right. assert (NB : EMap m' <> EBot) by discriminate. split; [|split].
  - intros a0 st0 F0. cbn [d_arrs] in F0. destruct (N.eq_dec a0 a) as [->|N].
    + rewrite am_find_set_same, F in F0. inversion F0; subst. auto.
    + rewrite am_find_set_other in F0 by auto. eauto.
  - intros a0 o sz H1 H2 N. cbn [d_base] in N. rewrite EB in N.
    destruct (TS NB a0 o sz H1 H2 N) as [[NA N0]|X]; auto.
    apply (tracked_other_arr (d_base d1) (d_arrs d1) (d_gh d1) b' a st' g' a0 o sz NA (GH a0 NA)).
    specialize (T a0 o sz H1 H2 N0). destruct d1; exact T.
  - intros a0 k L. cbn [d_base d_arrs] in *. rewrite EB.
    destruct (US NB a0 k L) as [[-> [S|X]]|(NA & L0 & NT)].
    + left. exists (as_set st st'). rewrite am_find_set_same, F. auto.
    + right. auto.
    + destruct (U a0 k L0) as [(st0 & F0 & S0)|X].
      * left. exists st0. rewrite am_find_set_other by auto. auto.
      * right. destruct (is_top_nt (EMap m') (ghost (sa a0))) as [Y|Y]; auto.
        apply NT in Y. unfold nt in Y. congruence.
Qed.

(* the same when only the base value changes *)
Lemma inv_base d1 b' :
  Wf d1 -> Tidy d1 -> Usum d1 ->
  (a_base b' <> EBot -> forall a0 o sz, nt (a_base b') (cgv a0 o sz) -> nt (a_base (d_base d1)) (cgv a0 o sz)) ->
  (a_base b' <> EBot -> forall a0 k, la_at (a_la b') (sa a0) = BConst k ->
     (exists st, am_find (d_arrs d1) a0 = Some st /\ as_smashed st = true) \/
     is_top (e_at (a_base b') (ghost (sa a0))) = true \/
     (la_at (a_la (d_base d1)) (sa a0) = BConst k /\
      (nt (a_base b') (ghost (sa a0)) -> nt (a_base (d_base d1)) (ghost (sa a0))))) ->
  inv (with_base d1 b').
Proof.
  intros W T U TS US.
  destruct (a_base b') as [|m'] eqn:EB; [left; unfold a_is_bottom, s_is_bottom; cbn [with_base d_base]; rewrite EB; auto|].
  right. assert (NB : EMap m' <> EBot) by discriminate. split; [|split].
  - exact W.
  - intros a0 o sz H1 H2 N. cbn [with_base d_base] in N. rewrite EB in N.
    specialize (T a0 o sz H1 H2 (TS NB a0 o sz N)). exact T.
  - intros a0 k L. cbn [with_base d_base d_arrs] in *. rewrite EB.
    destruct (US NB a0 k L) as [X|[X|(L0 & NT)]]; auto.
    destruct (U a0 k L0) as [X|X]; auto.
    right. destruct (is_top_nt (EMap m') (ghost (sa a0))) as [Y|Y]; auto.
    apply NT in Y. unfold nt in Y. congruence.
Qed.

(* ---- static side conditions of the array operations (word-level assumption) ---- *)
Definition szok (d : adom) (a : arr) (e : linexp) : Prop :=
  forall k, check_elem_size e (a_base (d_base d)) = Some k -> k = esz a.
Definition idxok (d : adom) (a : arr) (idx : linexp) : Prop :=
  forall n, isingleton (d_eval idx (a_base (d_base d))) = Some n -> aligned (esz a) n.

Lemma aligned_nonneg k o : aligned k o -> 0 <= o.
Proof. intros [H _]. auto. Qed.

(* tracked cells of the updated array *)
Lemma tracked_same_arr b' m g' a st st' o sz : am_find m a = Some st ->
  as_smashed st = false -> as_smashed st' = false ->
  (exists c, In c (as_map st') /\ c_off c = o /\ c_size c = sz) ->
  gh_has g' a o sz = true ->
  tracked_cell (mkD b' (am_set m a st') g') a o sz.
Proof.
  intros F S S' (c & I & E1 & E2) GH. exists (as_set st st'). cbn [d_arrs d_gh].
  rewrite am_find_set_same, F. destruct (as_set_nonsmashed st st' S S') as (X1 & X2 & X3).
  split; auto. split; auto. split; auto.
  destruct (X3 c I) as (c' & I' & F1 & F2). exists c'. split; auto. split; congruence.
Qed.

(* ---- array_store, constant index: strong update of the cell ---- *)
Lemma const_store_inv d1 a st n val :
  Wf d1 -> Tidy d1 -> Usum d1 -> am_find (d_arrs d1) a = Some st -> as_smashed st = false ->
  aligned (esz a) n ->
  inv (set_arr d1 a (mkS false (as_esz st) (snd (om_mk (as_map st) n (esz a))))
               (s_assign (cgv a n (esz a)) val (d_base d1)) (gh_insert (d_gh d1) a n (esz a))).
Proof.
  intros W T U F S AL. unfold set_arr.
  set (st' := mkS false (as_esz st) (snd (om_mk (as_map st) n (esz a)))).
  destruct (W a st F) as [WL LV].
  destruct (as_set_nonsmashed st st' S eq_refl) as (X1 & X2 & X3).
  apply (inv_update d1 a st st'); auto.
  - split.
    + intros c I. destruct (X2 c I) as [J|J]; [apply WL; auto|].
      unfold st' in J. cbn [as_map] in J. apply in_om_mk in J. destruct J as [J| ->]; [apply WL; auto|].
      simpl. auto.
    + intros c I. destruct (X2 c I) as [J|J]; [apply LV; auto|].
      unfold st' in J. cbn [as_map] in J. apply in_om_mk in J. destruct J as [J| ->]; [apply LV; auto|]. auto.
  - intros a0 N o sz. rewrite gh_has_insert. split; auto. intros [(E & _)|H]; [congruence|auto].
  - intros NB a0 o sz H1 H2 N. apply s_assign_supp in N; auto.
    destruct N as [E|N].
    + apply cgv_inj in E; [|lia|lia|apply (aligned_nonneg _ _ AL)|pose proof (esz_pos a); lia].
      destruct E as (-> & -> & ->). right. apply (tracked_same_arr _ _ _ a st st'); auto.
      * apply in_om_mk_new.
      * apply gh_has_insert. auto.
    + destruct (N.eq_dec a0 a) as [->|NA]; auto. right.
      destruct (T a o sz H1 H2 N) as (st0 & F0 & S0 & (c & I & E1 & E2) & GH).
      rewrite F in F0. inversion F0; subst st0. apply (tracked_same_arr _ _ _ a st st'); auto.
      * exists c. split; auto. unfold st'. cbn [as_map]. apply in_om_mk_old. auto.
      * apply gh_has_insert. auto.
  - intros NB a0 k L. cbn [s_assign a_la] in L. destruct (N.eq_dec a0 a) as [->|NA].
    + left. split; auto. right. destruct (U a k L) as [(st0 & F0 & S0)|X]; [congruence|].
      destruct (is_top_nt (a_base (s_assign (cgv a n (esz a)) val (d_base d1))) (ghost (sa a))) as [Y|Y]; auto.
      apply s_assign_supp in Y; auto. destruct Y as [Y|Y]; [elim (ghost_neq_cgv _ _ _ _ Y)|].
      unfold nt in Y. congruence.
    + right. split; auto. split; auto. intros Y. apply s_assign_supp in Y; auto.
      destruct Y as [Y|Y]; [elim (ghost_neq_cgv _ _ _ _ Y)|auto].
Qed.

Lemma cgv_cell_neq a o a' o' : aligned (esz a) o -> aligned (esz a') o' -> (a <> a' \/ o <> o') ->
  cgv a o (esz a) <> cgv a' o' (esz a').
Proof.
  intros [H1 _] [H2 _] N E. pose proof (esz_pos a). pose proof (esz_pos a').
  apply cgv_inj in E; [destruct E as (E1 & E2 & _); tauto|lia|lia|lia|lia].
Qed.

Lemma cells_in_other s' mu g v : cells_in s' mu ->
  (forall a o, aligned (esz a) o -> g <> cgv a o (esz a)) -> cells_in (upd s' g v) mu.
Proof. intros C H a o w AL O M. rewrite upd_other by (apply not_eq_sym; apply H; auto). eapply C; eauto. Qed.

Lemma const_store_Ga d1 a st n val s mu mu1 :
  Usum d1 -> am_find (d_arrs d1) a = Some st -> as_smashed st = false ->
  aligned (esz a) n -> le_pv val ->
  Ga d1 (s, mu) ->
  same_mem_but a mu1 mu ->
  (forall i, mu1 a i = if i =? n then Some (eval_le val s) else mu a i) ->
  forall m' g',
  Ga (mkD (s_assign (cgv a n (esz a)) val (d_base d1)) m' g') (s, mu1).
Proof.
  intros U F S AL PV (s' & HG & AP & C) HM HA m' g'. cbn [fst snd] in *.
  set (g := cgv a n (esz a)). set (v := eval_le val s).
  assert (EV : eval_le val s' = v) by (apply eval_le_agree_pv; auto).
  exists (upd s' g v). cbn [d_base fst snd]. split; [|split].
  - assert (G1 : G' (s_assign g val (d_base d1)) (upd s' g v, lift mu)).
    { rewrite <- EV. apply s_assign_sound; auto. apply cgv_prog. apply le_pv_prog; auto. }
    apply (G_mem_change _ _ (lift mu)); auto.
    intros b i w M. destruct (lift_change _ _ _ HM b i w M) as [E|(-> & ALi & M1)]; auto.
    rewrite HA in M1. destruct (Z.eqb_spec i n) as [->|NI].
    2:{ left. rewrite lift_sa. apply alignedb_spec in ALi. rewrite ALi. auto. }
    (* the written cell: nothing is claimed about the summarised variable of an array that is not smashed *)
    right. cbn [s_assign a_la a_base].
    destruct (la_at (a_la (d_base d1)) (sa a)) as [|k|] eqn:L; try (left; intros k0; congruence).
    destruct (U a k L) as [(st0 & F0 & S0)|X]; [congruence|]. right.
    destruct (is_top_nt (d_assign g val (a_base (d_base d1))) (ghost (sa a))) as [Y|Y]; auto.
    apply nt_d_assign in Y.
    + destruct Y as [Y|Y]; [elim (ghost_neq_cgv _ _ _ _ Y)|]. unfold nt in Y. congruence.
    + apply (G_base_not_bot _ _ G1).
  - intros x P. rewrite upd_other by (apply pv_not_cgv; auto). auto.
  - intros a0 o w AL0 O M. destruct (N.eq_dec a0 a) as [->|NA].
    + rewrite HA in M. destruct (Z.eqb_spec o n) as [->|NO].
      * inversion M; subst. apply upd_same.
      * rewrite upd_other; [eapply C; eauto|]. apply cgv_cell_neq; auto.
    + rewrite HM in M by auto. rewrite upd_other; [eapply C; eauto|]. apply cgv_cell_neq; auto.
Qed.

(* ---- smashing: the cells are stored one after the other into a summarised variable ---- *)
Lemma eval_le_upd_notin e w x z : (forall c v, In (c, v) (le_terms e) -> v <> x) ->
  eval_le e (upd w x z) = eval_le e w.
Proof.
  intros H. unfold eval_le. f_equal. revert H. induction (le_terms e) as [|[c v] r IH]; simpl; intros H; auto.
  rewrite IH by (intros; eapply H; right; eauto). rewrite upd_other by (eapply H; left; eauto). auto.
Qed.

Lemma check_elem_size_genv e b w k : check_elem_size e b = Some k -> genv b w -> eval_le e w = k.
Proof.
  unfold check_elem_size. destruct (isingleton (d_eval e b)) as [n|] eqn:E; [|discriminate].
  destruct (_ && _); intros H; inversion H; subst. intros G0.
  apply (isingleton_spec _ _ E). apply d_eval_sound; auto.
Qed.

Lemma upd_upd_same (w : store) x z z' : forall y, upd (upd w x z) x z' y = upd w x z' y.
Proof. intros y. unfold upd. destruct (N.eqb y x); auto. Qed.
Lemma upd_id (w : store) x : forall y, upd w x (w x) y = w y.
Proof. intros y. unfold upd. destruct (N.eqb_spec y x); subst; auto. Qed.

Section SmashLoop.
Variable t : arr.
Variable ez : linexp.
Variable a : arr.
Variable g : gmap_t.
Variable k : Z.
Hypothesis ez_noghost : forall c v, In (c, v) (le_terms ez) -> v <> ghost t.

Lemma smash_loop_spec : forall cells first b nog b1 w0,
  genv (a_base b) w0 -> eval_le ez w0 = k -> a_la b <> LBot ->
  (first = false -> la_at (a_la b) t = BConst k) ->
  smash_loop t ez a g first cells b = Some (nog, b1) ->
  (forall w, genv (a_base b) w -> exists z, genv (a_base b1) (upd w (ghost t) z)) /\
  (nog = false -> forall c, In c cells -> gh_hasc g a c = true /\
       forall w, genv (a_base b) w -> genv (a_base b1) (upd w (ghost t) (w (cgc a c)))) /\
  (first = false -> forall w, genv (a_base b) w -> genv (a_base b1) w) /\
  (forall t', t' <> t -> la_at (a_la b1) t' = la_at (a_la b) t') /\
  (nog = false -> (cells <> [] \/ first = false) -> la_at (a_la b1) t = BConst k) /\
  a_la b1 <> LBot /\
  (forall y, a_base b1 <> EBot -> nt (a_base b1) y -> y = ghost t \/ nt (a_base b) y) /\
  (forall k0, la_at (a_la b1) t = BConst k0 -> k0 = k \/ la_at (a_la b) t = BConst k0).
Proof.
  induction cells as [|c r IH]; intros first b nog b1 w0 G0 E0 NL FL H.
  - simpl in H. inversion H; subst. split; [|split; [|split; [|split; [|split; [|split; [|split]]]]]]; auto.
    + intros w Gw. exists (w (ghost t)). eapply genv_ext; [|exact Gw]. intros y. symmetry. apply upd_id.
    + intros _ c0 [].
    + intros _ [X|X]; [congruence|auto].
  - cbn [smash_loop] in H. destruct (gh_hasc g a c) eqn:GH.
    2:{ inversion H; subst. split; [|split; [|split; [|split; [|split; [|split; [|split]]]]]]; auto; try discriminate.
        intros w Gw. exists (w (ghost t)). eapply genv_ext; [|exact Gw]. intros y. symmetry. apply upd_id. }
    destruct (s_array_store t ez (le_var (cgc a c)) first b) as [b'|] eqn:ST; [|discriminate].
    cbn [obind] in H.
    (* one store *)
    unfold s_array_store in ST. destruct (check_elem_size ez (a_base b)) as [k'|] eqn:CK; [|discriminate].
    assert (k' = k) by (rewrite <- E0; symmetry; eapply check_elem_size_genv; eauto). subst k'.
    assert (EQ : equal_size (if first then la_set (a_la b) t k else a_la b) t k = true).
    { apply equal_size_spec. destruct first; [|auto]. rewrite la_at_set by auto. rewrite N.eqb_refl. auto. }
    rewrite EQ in ST. inversion ST; subst b'; clear ST.
    set (l' := if first then la_set (a_la b) t k else a_la b) in *.
    set (e' := if first then d_assign (ghost t) (le_var (cgc a c)) (a_base b)
               else d_weak_assign (ghost t) (le_var (cgc a c)) (a_base b)) in *.
    assert (NG : cgc a c <> ghost t) by (apply not_eq_sym; apply ghost_neq_cgv).
    assert (STEP : forall w, genv (a_base b) w -> genv e' (upd w (ghost t) (w (cgc a c)))).
    { intros w Gw. unfold e'. destruct first.
      - pose proof (d_assign_sound (ghost t) (le_var (cgc a c)) _ _ Gw) as X. rewrite eval_le_var in X. exact X.
      - pose proof (proj2 (d_weak_assign_sound (ghost t) (le_var (cgc a c)) _ _ Gw)) as X.
        rewrite eval_le_var in X. exact X. }
    assert (KEEP : first = false -> forall w, genv (a_base b) w -> genv e' w).
    { intros -> w Gw. unfold e'. apply (proj1 (d_weak_assign_sound (ghost t) (le_var (cgc a c)) _ _ Gw)). }
    assert (NL' : l' <> LBot) by (unfold l'; destruct first; auto; apply la_set_not_bot; auto).
    assert (LT : la_at l' t = BConst k).
    { unfold l'. destruct first; auto. rewrite la_at_set by auto. rewrite N.eqb_refl. auto. }
    specialize (IH false (mkA l' e') nog b1 (upd w0 (ghost t) (w0 (cgc a c)))).
    cbn [a_base a_la] in IH.
    destruct IH as (A1 & B1 & K1 & C1 & C2 & C3 & D1 & C4); auto.
    { rewrite eval_le_upd_notin; auto. }
    split; [|split; [|split; [|split; [|split; [|split; [|split]]]]]].
    8:{ intros k0 L0. destruct (C4 k0 L0) as [X|X]; auto. rewrite LT in X. inversion X. auto. }
    + intros w Gw. destruct (A1 _ (STEP w Gw)) as (z & Gz). exists z.
      eapply genv_ext; [|exact Gz]. intros y. apply upd_upd_same.
    + intros NOG c0 I0. split.
      * destruct I0 as [<-|I0]; auto. apply (B1 NOG c0 I0).
      * intros w Gw. destruct I0 as [<-|I0].
        -- apply K1; auto.
        -- destruct (B1 NOG c0 I0) as [_ X]. specialize (X _ (STEP w Gw)).
           rewrite upd_other in X by (apply not_eq_sym; apply ghost_neq_cgv).
           eapply genv_ext; [|exact X]. intros y. apply upd_upd_same.
    + intros F w Gw. apply K1; auto.
    + intros t' N. rewrite C1 by auto. unfold l'. destruct first; auto. apply la_at_set_other; auto.
    + intros N _. apply C2; auto.
    + auto.
    + intros y NB N. destruct (D1 y NB N) as [X|X]; auto.
      assert (NB' : e' <> EBot).
      { intros E. apply NB. clear - H E.
        assert (X : forall cells first b nog b1, smash_loop t ez a g first cells b = Some (nog, b1) ->
                      a_base b = EBot -> a_base b1 = EBot).
        { induction cells as [|c' r' IH']; intros f0 b0 n0 b10 H0 E0; simpl in H0.
          - inversion H0; subst; auto.
          - destruct (gh_hasc g a c'); [|inversion H0; subst; auto].
            destruct (s_array_store t ez (le_var (cgc a c')) f0 b0) as [bb|] eqn:ST; [|discriminate].
            simpl in H0. eapply IH'; eauto. unfold s_array_store in ST. rewrite E0 in ST.
            destruct (check_elem_size ez EBot); [|discriminate].
            destruct (equal_size _ _ _); inversion ST; subst; cbn [a_base]; auto.
            destruct f0; reflexivity. }
        eapply X; eauto. }
      unfold e' in X, NB'. destruct first; [apply nt_d_assign in X|apply nt_d_weak_assign in X]; auto.
Qed.

End SmashLoop.

(* ---- symbolic index: the cells that may be written are all returned ---- *)
Lemma largest_in : forall cs acc r, largest cs acc = Some r -> In r cs \/ acc = Some r.
Proof.
  induction cs as [|c t IH]; simpl; intros acc r H; auto.
  apply IH in H. destruct H as [H|H]; auto.
  destruct acc as [l|]; [destruct (cell_ltb l c)|]; inversion H; subst; auto.
Qed.
Lemma largest_some : forall cs acc, cs <> [] \/ acc <> None -> largest cs acc <> None.
Proof.
  induction cs as [|c t IH]; simpl; intros acc H.
  - destruct H as [H|H]; [congruence|auto].
  - apply IH. right. destruct acc as [l|]; [destruct (cell_ltb l c)|]; discriminate.
Qed.

Lemma sym_kill_complete m slb sub dom k c w :
  (forall d, In d m -> c_size d = k /\ c_rem d = false) -> 0 < k -> wf_le slb -> wf_le sub ->
  In c m -> genv dom w -> eval_le sub w = eval_le slb w + k - 1 ->
  ranges_meet (c_off c) k (eval_le slb w) k ->
  In c (om_get_overlap_sym m slb sub dom).
Proof.
  intros SZ K W1 W2 I Gw E M. unfold om_get_overlap_sym. apply in_flat_map.
  exists (c_off c). split.
  - unfold om_offsets. apply in_dedup. apply in_map. auto.
  - assert (IG : In c (om_group m (c_off c))).
    { unfold om_group. apply filter_In. split; auto. apply Z.eqb_refl. }
    destruct (largest (om_group m (c_off c)) None) as [l|] eqn:L.
    + apply largest_in in L. destruct L as [L|L]; [|discriminate].
      unfold om_group in L. apply filter_In in L. destruct L as [Il El]. apply Z.eqb_eq in El.
      destruct (SZ l Il) as [S1 R1].
      rewrite (c_sym_overlap_complete slb sub dom l w k); auto. rewrite El. auto.
    + exfalso. revert L. apply largest_some. left. intros X. rewrite X in IG. destruct IG.
Qed.

(* ---- array_store, index not constant (or too many cells), no smashing ---- *)
Definition sym_cells (st : astate) (idx : linexp) (k : Z) (b : ast) : list cell :=
  om_get_overlap_sym (as_map st) idx (le_addc idx (k - 1)) (a_base b).

Lemma kill_store_inv d1 a st cells :
  Wf d1 -> Tidy d1 -> Usum d1 -> am_find (d_arrs d1) a = Some st -> as_smashed st = false ->
  (forall c, In c cells -> In c (as_map st)) ->
  inv (set_arr d1 a (mkS false (as_esz st) (kill_cells p cells (as_map st)))
               (forget_ghosts a (d_gh d1) cells (d_base d1))
               (if p_smashable p then d_gh d1 else erase_ghosts a cells (d_gh d1))).
Proof.
  intros W T U F S SUB. unfold set_arr.
  set (st' := mkS false (as_esz st) (kill_cells p cells (as_map st))).
  destruct (W a st F) as [WL LV].
  apply (inv_update d1 a st st'); auto.
  - destruct (p_smashable p) eqn:SM.
    + unfold st'. rewrite kill_smashable_keeps; auto.
    + destruct (as_set_nonsmashed st st' S eq_refl) as (X1 & X2 & X3). split.
      * intros c I. destruct (X2 c I) as [J|J]; [apply WL; auto|].
        apply kill_cells_sub in J; auto. apply WL. tauto.
      * intros c I. destruct (X2 c I) as [J|J]; [apply LV; auto|].
        apply kill_cells_sub in J; auto. apply LV. tauto.
  - intros a0 N o sz. destruct (p_smashable p); [tauto|]. rewrite gh_has_erase_ghosts.
    split; [tauto|]. intros H. split; auto. intros (E & _). congruence.
  - intros NB a0 o sz H1 H2 N. apply forget_ghosts_nt in N; auto. destruct N as [N NF].
    destruct (N.eq_dec a0 a) as [->|NA]; auto. right.
    destruct (T a o sz H1 H2 N) as (st0 & F0 & S0 & (c & I & E1 & E2) & GH).
    rewrite F in F0. inversion F0; subst st0.
    assert (NK : forall c', In c' cells -> cell_eqb c c' = false).
    { intros c' I'. destruct (cell_eqb c c') eqn:Q; auto. exfalso. apply cell_eqb_spec in Q.
      apply NF. exists c'. split; auto. unfold gh_hasc, cgc. destruct Q as [Q1 Q2].
      rewrite <- Q1, <- Q2, E1, E2. auto. }
    apply (tracked_same_arr _ _ _ a st st'); auto.
    + unfold st'. cbn [as_map]. destruct (p_smashable p) eqn:SM.
      * unfold kill_cells. rewrite SM. destruct (fold_remove_keys_rev cells _ c I) as (x & Ix & X1 & X2).
        exists x. split; auto. split; congruence.
      * exists c. split; auto. apply kill_cells_keep; auto.
    + destruct (p_smashable p); auto. apply gh_has_erase_ghosts. split; auto.
      intros (_ & c' & I' & Q1 & Q2). specialize (NK c' I').
      assert (X : cell_eqb c c' = true) by (apply cell_eqb_spec; split; congruence). congruence.
  - intros NB a0 k L. rewrite forget_ghosts_la in L. destruct (N.eq_dec a0 a) as [->|NA].
    + left. split; auto. right. destruct (U a k L) as [(st0 & F0 & S0)|X]; [congruence|].
      destruct (is_top_nt (a_base (forget_ghosts a (d_gh d1) cells (d_base d1))) (ghost (sa a))) as [Y|Y]; auto.
      apply forget_ghosts_nt in Y; auto. destruct Y as [Y _]. unfold nt in Y. congruence.
    + right. split; auto. split; auto. intros Y. apply forget_ghosts_nt in Y; auto. tauto.
Qed.

(* after the kill the ghost of every cell that the store may write is unconstrained *)
Lemma kill_store_top d1 a st idx w :
  Wf d1 -> Tidy d1 -> am_find (d_arrs d1) a = Some st -> as_smashed st = false ->
  wf_le idx -> genv (a_base (d_base d1)) w -> aligned (esz a) (eval_le idx w) ->
  is_top (e_at (a_base (forget_ghosts a (d_gh d1) (sym_cells st idx (esz a) (d_base d1)) (d_base d1)))
               (cgv a (eval_le idx w) (esz a))) = true.
Proof.
  intros W T F S WI Gw AL. set (i := eval_le idx w). set (k := esz a).
  set (cells := sym_cells st idx k (d_base d1)).
  destruct (is_top_nt (a_base (forget_ghosts a (d_gh d1) cells (d_base d1))) (cgv a i k)) as [Y|Y]; auto.
  exfalso. assert (K : 0 < k) by apply esz_pos.
  apply forget_ghosts_nt in Y.
  2:{ rewrite forget_ghosts_bot. intros E. rewrite E in Gw. exact Gw. }
  destruct Y as [N NF].
  destruct (T a i k (aligned_nonneg _ _ AL) K N) as (st0 & F0 & S0 & (c & I & E1 & E2) & GH).
  rewrite F in F0. inversion F0; subst st0. destruct (W a st F) as [WL LV].
  apply NF. exists c. split; [|split].
  - unfold cells, sym_cells.
    apply (sym_kill_complete (as_map st) idx (le_addc idx (k - 1)) (a_base (d_base d1)) k c w);
      [intros d0 I0; split; [apply (WL d0 I0)|apply (LV d0 I0)] | exact K | exact WI
      | apply wf_le_addc; exact WI | exact I | exact Gw | rewrite eval_le_addc; lia
      | rewrite E1; exists i; unfold i; lia].
  - unfold gh_hasc. rewrite E1, E2. auto.
  - unfold cgc. rewrite E1, E2. auto.
Qed.

Lemma kill_store_Ga d1 a st idx val s mu mu1 m' g' :
  Wf d1 -> Tidy d1 -> Usum d1 -> am_find (d_arrs d1) a = Some st -> as_smashed st = false ->
  wf_le idx -> le_pv idx -> le_pv val -> aligned (esz a) (eval_le idx s) ->
  Ga d1 (s, mu) -> same_mem_but a mu1 mu ->
  (forall i, mu1 a i = if i =? eval_le idx s then Some (eval_le val s) else mu a i) ->
  Ga (mkD (forget_ghosts a (d_gh d1) (sym_cells st idx (esz a) (d_base d1)) (d_base d1)) m' g') (s, mu1).
Proof.
  intros W T U F S WI PI PV AL (s' & HG & AP & C) HM HA. cbn [fst snd] in *.
  set (i := eval_le idx s) in *. set (v := eval_le val s) in *. set (k := esz a) in *.
  set (cells := sym_cells st idx k (d_base d1)).
  set (b1 := forget_ghosts a (d_gh d1) cells (d_base d1)).
  destruct (G_witness_eval _ _ _ _ idx HG AP PI) as (w & Gw & EW).
  assert (TOP : is_top (e_at (a_base b1) (cgv a i k)) = true).
  { unfold b1, cells, i. rewrite <- EW. apply kill_store_top; auto. rewrite EW. auto. }
  exists (upd s' (cgv a i k) v). cbn [d_base fst snd]. split; [|split].
  - assert (G1 : G' b1 (s', lift mu)).
    { apply (forget_ghosts_sound _ _ _ _ s'); auto. intros x N. elim N. auto. }
    assert (G2 : G' b1 (upd s' (cgv a i k) v, lift mu)).
    { apply (G_upd_tops _ s'); auto. intros x N. destruct (N.eq_dec x (cgv a i k)) as [->|NE].
      - split; auto. apply cgv_prog.
      - rewrite upd_other in N by auto. congruence. }
    apply (G_mem_change _ _ (lift mu)); auto.
    intros b i0 w0 M. destruct (lift_change _ _ _ HM b i0 w0 M) as [E|(-> & ALi & M1)]; auto.
    rewrite HA in M1. destruct (Z.eqb_spec i0 i) as [->|NI].
    2:{ left. rewrite lift_sa. apply alignedb_spec in ALi. rewrite ALi. auto. }
    right. unfold b1. rewrite forget_ghosts_la.
    destruct (la_at (a_la (d_base d1)) (sa a)) as [|k0|] eqn:L; try (left; intros k1; congruence).
    destruct (U a k0 L) as [(st0 & F0 & S0)|X]; [congruence|]. right.
    destruct (is_top_nt (a_base (forget_ghosts a (d_gh d1) cells (d_base d1))) (ghost (sa a))) as [Y|Y]; auto.
    apply forget_ghosts_nt in Y.
    + destruct Y as [Y _]. unfold nt in Y. congruence.
    + apply (G_base_not_bot _ _ G1).
  - intros x P. rewrite upd_other by (apply pv_not_cgv; auto). auto.
  - intros a0 o w0 AL0 O M. destruct (N.eq_dec a0 a) as [->|NA].
    + rewrite HA in M. destruct (Z.eqb_spec o i) as [->|NO].
      * inversion M; subst. apply upd_same.
      * rewrite upd_other; [eapply C; eauto|]. apply cgv_cell_neq; auto.
    + rewrite HM in M by auto. rewrite upd_other; [eapply C; eauto|]. apply cgv_cell_neq; auto.
Qed.

(* ---- the base value after operations that only touch one summarised variable ---- *)
Lemma G_transfer st st2 s' mu mu2 t : G' st (s', mu) -> a_la st2 <> LBot ->
  (forall w, genv (a_base st) w -> exists z, genv (a_base st2) (upd w (ghost t) z)) ->
  (forall t', t' <> t -> la_at (a_la st2) t' = la_at (a_la st) t') ->
  (forall t', t' <> t -> forall i, mu2 t' i = mu t' i) ->
  (forall k, la_at (a_la st2) t = BConst k ->
     k = esz' t /\ forall i v, cell_ok one' t i -> mu2 t i = Some v -> gamma (e_at (a_base st2) (ghost t)) v) ->
  G' st2 (s', mu2).
Proof.
  intros (L & S & (w & Gw & A) & C) L2 TR LA MU SUM. split; auto. split; [|split].
  - intros t' k H. destruct (N.eq_dec t' t) as [->|N]; [apply (proj1 (SUM k H))|]. rewrite LA in H by auto. eauto.
  - destruct (TR w Gw) as (z & Gz). exists (upd w (ghost t) z). split; auto.
    apply agree_upd_nonprog; auto. apply ghost_not_prog.
  - intros t' k i v H O M. cbn [snd] in *. destruct (N.eq_dec t' t) as [->|N]; [apply (proj2 (SUM k H) i v O M)|].
    rewrite LA in H by auto. rewrite MU in M by auto.
    assert (G1 : genv (a_base st) (upd w (ghost t') v)) by (apply genv_upd; auto; eapply C; eauto).
    destruct (TR _ G1) as (z & Gz). pose proof (e_at_sound _ _ (ghost t') Gz) as X.
    rewrite upd_other in X by (intros E; apply ghost_inj in E; congruence). rewrite upd_same in X. exact X.
Qed.

Lemma d_assign_bot x ex : d_assign x ex EBot = EBot.
Proof. unfold d_assign. destruct (le_get_variable ex); reflexivity. Qed.
Lemma d_weak_assign_bot x ex : d_weak_assign x ex EBot = EBot.
Proof. unfold d_weak_assign. destruct (le_get_variable ex); reflexivity. Qed.

Lemma d_assign_bot_gen x ex e : e = EBot -> d_assign x ex e = EBot.
Proof. intros ->. apply d_assign_bot. Qed.

Lemma s_array_store_bot t ez val strong b b' : s_array_store t ez val strong b = Some b' ->
  a_base b = EBot -> a_base b' = EBot.
Proof.
  unfold s_array_store. intros H E. rewrite E in H. destruct (check_elem_size ez EBot); [|discriminate].
  destruct (equal_size _ _ _); inversion H; subst; cbn [a_base]; auto.
  destruct strong; [apply d_assign_bot|apply d_weak_assign_bot].
Qed.

Lemma smash_loop_supp t ez a g : forall cells first b nog b1,
  smash_loop t ez a g first cells b = Some (nog, b1) ->
  (forall t', t' <> t -> la_at (a_la b1) t' = la_at (a_la b) t') /\
  (forall y, a_base b1 <> EBot -> nt (a_base b1) y -> y = ghost t \/ nt (a_base b) y) /\
  (a_base b = EBot -> a_base b1 = EBot).
Proof.
  induction cells as [|c r IH]; intros first b nog b1 H; simpl in H.
  - inversion H; subst. auto.
  - destruct (gh_hasc g a c); [|inversion H; subst; auto].
    destruct (s_array_store t ez (le_var (cgc a c)) first b) as [b'|] eqn:ST; [|discriminate].
    cbn [obind] in H. destruct (IH _ _ _ _ H) as (I1 & I2 & I3).
    destruct (s_array_store_supp _ _ _ _ _ _ ST) as [S1 S2].
    pose proof (s_array_store_bot _ _ _ _ _ _ ST) as S3.
    split; [|split].
    + intros t' N. rewrite I1 by auto. apply S2; auto.
    + intros y NB N. destruct (I2 y NB N) as [X|X]; auto.
    + intros E. apply I3. apply S3. exact E.
Qed.

(* ---- array_store that smashes the array ---- *)
Definition all_tracked (d : adom) (a : arr) (mu : amem) : Prop :=
  forall o v, aligned (esz a) o -> cell_ok onecell a o -> mu a o = Some v -> tracked_cell d a o (esz a).

Lemma smash_store_inv d1 a st ez val strong nb b2 :
  Wf d1 -> Tidy d1 -> Usum d1 -> am_find (d_arrs d1) a = Some st -> as_smashed st = false ->
  smash_loop (sa a) ez a (d_gh d1) true (as_map st) (d_base d1) = Some nb ->
  (if fst nb then Some (s_forget1 (VA (sa a)) (snd nb)) else s_array_store (sa a) ez val strong (snd nb)) = Some b2 ->
  inv (set_arr d1 a (mkS true (Some (esz a)) []) (forget_ghosts a (d_gh d1) (as_map st) b2)
               (erase_ghosts a (as_map st) (d_gh d1))).
Proof.
  intros W T U F S LOOP B2. destruct nb as [nog b1]. cbn [fst snd] in B2. unfold set_arr.
  set (cells := as_map st) in *. set (st' := mkS true (Some (esz a)) []).
  assert (AS : as_set st st' = st') by (apply as_set_smashed; rewrite S; discriminate).
  destruct (smash_loop_supp _ _ _ _ _ _ _ _ _ LOOP) as (L1 & L2 & L3).
  assert (B2S : (forall t', t' <> sa a -> la_at (a_la b2) t' = la_at (a_la b1) t') /\
                (forall y, a_base b2 <> EBot -> nt (a_base b2) y -> y = ghost (sa a) \/ nt (a_base b1) y) /\
                (a_base b1 = EBot -> a_base b2 = EBot)).
  { destruct nog.
    - assert (EB2 : b2 = s_forget1 (VA (sa a)) b1) by congruence. subst b2. split; [|split].
      + intros t' N. apply s_forget1_VA_la; auto.
      + intros y NB N. right. eapply s_forget1_VA_supp; eauto.
      + apply s_forget1_bot.
    - destruct (s_array_store_supp _ _ _ _ _ _ B2) as [X1 X2]. split; [|split]; auto.
      eapply s_array_store_bot; eauto. }
  destruct B2S as (M1 & M2 & M3).
  assert (SUPP : forall y, a_base (forget_ghosts a (d_gh d1) cells b2) <> EBot ->
            nt (a_base (forget_ghosts a (d_gh d1) cells b2)) y ->
            ~ forgotten a (d_gh d1) cells y /\ (y = ghost (sa a) \/ nt (a_base (d_base d1)) y)).
  { intros y NB N. apply forget_ghosts_nt in N; auto. destruct N as [N NF]. split; auto.
    assert (NB2 : a_base b2 <> EBot) by (intros E; apply NB; apply forget_ghosts_bot; auto).
    destruct (M2 y NB2 N) as [X|X]; auto. }
  apply (inv_update d1 a st st'); auto.
  - rewrite AS. split; intros c [].
  - intros a0 N o sz. rewrite gh_has_erase_ghosts. split; [tauto|]. intros H. split; auto. intros (E & _). congruence.
  - intros NB a0 o sz H1 H2 N. destruct (SUPP _ NB N) as [NF [X|X]]; [elim (ghost_neq_cgv _ _ _ _ (eq_sym X))|].
    destruct (N.eq_dec a0 a) as [->|NA]; auto. exfalso.
    destruct (T a o sz H1 H2 X) as (st0 & F0 & S0 & (c & I & E1 & E2) & GH).
    rewrite F in F0. inversion F0; subst st0. apply NF. exists c. split; auto.
    unfold gh_hasc, cgc. rewrite E1, E2. auto.
  - intros NB a0 k L. rewrite forget_ghosts_la in L. destruct (N.eq_dec a0 a) as [->|NA].
    + left. split; auto. left. rewrite AS. reflexivity.
    + right. split; auto. assert (NS : sa a0 <> sa a) by (intros E; apply sa_inj in E; auto).
      rewrite M1, L1 in L by auto. split; auto.
      intros Y. destruct (SUPP _ NB Y) as [_ [X|X]]; auto. apply ghost_inj in X. congruence.
Qed.

Lemma cells_nonempty_of_smash st k : smash_cond p st k = true -> as_map st <> [].
Proof.
  unfold smash_cond. intros H. apply andb_true_iff in H. destruct H as [H _].
  apply andb_true_iff in H. destruct H as [_ H]. apply can_be_smashed_spec in H. tauto.
Qed.

Lemma le_pv_noghost e t : le_pv e -> forall c v, In (c, v) (le_terms e) -> v <> ghost t.
Proof. intros P c v I. apply ghost_neq_pv. eapply P; eauto. Qed.

Lemma smash_store_Ga d1 a st ez idx val strong nb b2 s mu mu1 :
  Wf d1 -> Tidy d1 -> Usum d1 -> am_find (d_arrs d1) a = Some st -> as_smashed st = false ->
  as_map st <> [] ->
  le_pv ez -> le_pv val -> eval_le ez s = esz a -> aligned (esz a) (eval_le idx s) ->
  (strong = true -> onecell a = Some (eval_le idx s)) ->
  Ga d1 (s, mu) -> all_tracked d1 a mu -> same_mem_but a mu1 mu ->
  (forall i, mu1 a i = if i =? eval_le idx s then Some (eval_le val s) else mu a i) ->
  smash_loop (sa a) ez a (d_gh d1) true (as_map st) (d_base d1) = Some nb ->
  (if fst nb then Some (s_forget1 (VA (sa a)) (snd nb)) else s_array_store (sa a) ez val strong (snd nb)) = Some b2 ->
  Ga (set_arr d1 a (mkS true (Some (esz a)) []) (forget_ghosts a (d_gh d1) (as_map st) b2)
              (erase_ghosts a (as_map st) (d_gh d1))) (s, mu1).
Proof.
  intros W T U F S NE PE PV SZ AL ST HGa TR HM HA LOOP B2.
  pose proof (smash_store_inv _ _ _ _ _ _ _ _ W T U F S LOOP B2) as INV.
  destruct HGa as (s' & HG & AP & C). cbn [fst snd] in *.
  destruct nb as [nog b1]. cbn [fst snd] in *.
  set (i := eval_le idx s) in *. set (v := eval_le val s) in *. set (k := esz a) in *.
  set (cells := as_map st) in *.
  pose proof HG as (L0 & S0 & (w & Gw & Aw) & C0). cbn [fst snd] in *.
  assert (EW : eval_le ez w = k).
  { rewrite (eval_le_agree ez w s') by (auto using le_pv_prog). rewrite (eval_le_agree_pv ez s' s); auto. }
  destruct (smash_loop_spec (sa a) ez a (d_gh d1) k (le_pv_noghost ez (sa a) PE) cells true (d_base d1) nog b1 w
              Gw EW L0 ltac:(discriminate) LOOP) as (A1 & B1 & _ & C1 & C2 & C3 & _ & _).
  destruct (W a st F) as [WL LV].
  (* the base value after the final store / the removal of the summary *)
  assert (G2 : G' b2 (s', lift mu1)).
  { destruct nog.
    - assert (EB2 : b2 = s_forget1 (VA (sa a)) b1) by congruence. subst b2. clear B2.
      apply (G_transfer (d_base d1) _ s' (lift mu) _ (sa a)); auto.
      + simpl. destruct (la_at (a_la b1) (sa a)); simpl; auto. apply la_forget_not_bot; auto.
      + intros w1 G1. destruct (A1 _ G1) as (z & Gz). exists z. simpl.
        destruct (la_at (a_la b1) (sa a)); simpl; auto.
        eapply genv_ext; [|apply (e_forget_sound _ _ (ghost (sa a)) z Gz)].
        intros y. apply upd_upd_same.
      + intros t' N. rewrite s_forget1_VA_la by auto. auto.
      + intros t' N i0. unfold lift. destruct (N.even t') eqn:EV; auto.
        rewrite HM; auto. intros E. apply N. rewrite (even_is_sa _ EV), E. auto.
      + intros k0 L. elim (s_forget1_VA_la_same _ _ _ L).
    - assert (G1 : G' b1 (s', lift mu)).
      { apply (G_transfer (d_base d1) _ s' (lift mu) _ (sa a)); auto.
        intros k0 L. rewrite C2 in L by auto. inversion L; subst k0. split; [rewrite esz'_sa; auto|].
        intros i0 v0 O M. rewrite lift_sa in M. fold k in M. destruct (alignedb k i0) eqn:AB; [|discriminate].
        apply alignedb_spec in AB. apply cell_ok_sa in O.
        destruct (TR i0 v0 AB O M) as (st0 & F0 & S1 & (c & I & E1 & E2) & GH).
        rewrite F in F0. inversion F0; subst st0.
        destruct (B1 eq_refl c I) as [_ X]. specialize (X w Gw).
        pose proof (e_at_sound _ _ (ghost (sa a)) X) as Y. rewrite upd_same in Y.
        rewrite (Aw (cgc a c)) in Y by apply cgv_prog. unfold cgc in Y. rewrite E1, E2 in Y.
        rewrite (C a i0 v0 AB O M) in Y. exact Y. }
      apply (s_array_store_sound esz' one' (sa a) ez i val strong b1 b2 s' (lift mu) (lift mu1)); auto.
      + apply le_pv_prog; auto.
      + apply le_pv_prog; auto.
      + rewrite esz'_sa. rewrite (eval_le_agree_pv ez s' s); auto.
      + intros X. unfold one'. rewrite even_sa, div2_sa. auto.
      + intros t' i0 N. unfold lift. destruct (N.even t') eqn:EV; auto.
        rewrite HM; auto. intros E. apply N. rewrite (even_is_sa _ EV), E. auto.
      + intros i0. rewrite !lift_sa, HA. rewrite (eval_le_agree_pv val s' s) by auto.
        destruct (Z.eqb_spec i0 i) as [->|NI]; auto.
        apply alignedb_spec in AL. fold k. rewrite AL. auto. }
  set (d' := set_arr d1 a (mkS true (Some k) []) (forget_ghosts a (d_gh d1) cells b2)
                     (erase_ghosts a cells (d_gh d1))) in *.
  assert (G3 : G' (d_base d') (s', lift mu1)).
  { unfold d', set_arr. cbn [d_base]. apply (forget_ghosts_sound _ _ _ _ s'); auto. intros x N. elim N. auto. }
  (* every ghost of the smashed array is unconstrained *)
  assert (TOP : is_top (e_at (a_base (d_base d')) (cgv a i k)) = true).
  { destruct INV as [B|(_ & T' & _)].
    - unfold a_is_bottom in B. rewrite (G_not_bottom _ _ _ _ G3) in B. discriminate.
    - destruct (is_top_nt (a_base (d_base d')) (cgv a i k)) as [Y|Y]; auto. exfalso.
      destruct (T' a i k (aligned_nonneg _ _ AL) (esz_pos a) Y) as (st0 & F0 & S1 & _).
      unfold d', set_arr in F0. cbn [d_arrs] in F0. rewrite am_find_set_same, F in F0.
      rewrite as_set_smashed in F0 by (rewrite S; discriminate). inversion F0; subst st0. discriminate. }
  exists (upd s' (cgv a i k) v). split; [|split].
  - apply (G_upd_tops _ s'); auto. intros x N. destruct (N.eq_dec x (cgv a i k)) as [->|NE'].
    + split; auto. apply cgv_prog.
    + rewrite upd_other in N by auto. congruence.
  - intros x P. rewrite upd_other by (apply pv_not_cgv; auto). auto.
  - intros a0 o w0 AL0 O M. cbn [snd] in M. destruct (N.eq_dec a0 a) as [->|NA].
    + rewrite HA in M. destruct (Z.eqb_spec o i) as [->|NO].
      * inversion M; subst. apply upd_same.
      * rewrite upd_other; [eapply C; eauto|]. apply cgv_cell_neq; auto.
    + rewrite HM in M by auto. rewrite upd_other; [eapply C; eauto|]. apply cgv_cell_neq; auto.
Qed.

(* ---- array_store ---- *)
Lemma inv_nonbottom d : inv d -> a_is_bottom d = false -> Wf d /\ Tidy d /\ Usum d.
Proof. intros [B|H] NB; auto. congruence. Qed.

Lemma with_base_same d : with_base d (d_base d) = d.
Proof. destruct d; reflexivity. Qed.

Lemma store_nonconst_inv d1 a st ez idx val strong d' :
  Wf d1 -> Tidy d1 -> Usum d1 -> am_find (d_arrs d1) a = Some st -> as_smashed st = false ->
  store_nonconst p a ez idx val strong (esz a) st d1 = Some d' -> inv d'.
Proof.
  intros W T U F S H. unfold store_nonconst in H. destruct (smash_cond p st (esz a)) eqn:SC.
  - destruct (smash_loop (sa a) ez a (d_gh d1) true (as_map st) (d_base d1)) as [nb|] eqn:LOOP; [|discriminate].
    cbn [obind] in H.
    destruct (if fst nb then Some (s_forget1 (VA (sa a)) (snd nb)) else s_array_store (sa a) ez val strong (snd nb))
      as [b2|] eqn:B2; [|discriminate].
    cbn [obind] in H. inversion H; subst d'. eapply smash_store_inv; eauto.
  - rewrite kill_eq in H. inversion H; subst d'. apply kill_store_inv; auto.
    intros c I. eapply in_sym_in; eauto.
Qed.

Lemma store_inv a ez idx val strong d d' : inv d -> szok d a ez -> idxok d a idx ->
  a_array_store p a ez idx val strong d = Some d' -> inv d'.
Proof.
  intros I SZ IX H. unfold a_array_store in H. destruct (a_is_bottom d) eqn:B; [inversion H; subst; auto|].
  destruct (check_elem_size ez (a_base (d_base d))) as [k|] eqn:CK; [|discriminate]. cbn [obind] in H.
  rewrite (SZ k CK) in *. clear k CK.
  destruct (lookup d a) as [st d1] eqn:LK.
  pose proof (lookup_inv _ _ _ _ LK I) as I1.
  destruct (lookup_spec _ _ _ _ LK) as (EB & EG & F & _).
  assert (B1 : a_is_bottom d1 = false) by (unfold a_is_bottom; rewrite EB; exact B).
  destruct (inv_nonbottom _ I1 B1) as (W & T & U).
  destruct (as_smashed st) eqn:S.
  - destruct (size_consistent st (esz a)).
    + destruct (s_array_store (sa a) ez val strong (d_base d1)) as [b'|] eqn:ST; [|discriminate].
      cbn [obind] in H. inversion H; subst d'.
      destruct (s_array_store_supp _ _ _ _ _ _ ST) as [S1 S2].
      apply inv_base; auto.
      * intros NB a0 o sz N. destruct (S1 _ NB N) as [X|X]; auto. elim (ghost_neq_cgv _ _ _ _ (eq_sym X)).
      * intros NB a0 k L. destruct (N.eq_dec a0 a) as [->|NA]; [left; eauto|].
        right. right. assert (NS : sa a0 <> sa a) by (intros E; apply sa_inj in E; auto).
        rewrite S2 in L by auto. split; auto. intros Y. destruct (S1 _ NB Y) as [X|X]; auto.
        apply ghost_inj in X. congruence.
    + assert (ED : d' = with_base d1 (s_forget1 (VA (sa a)) (d_base d1))) by congruence. subst d'. clear H.
      apply inv_base; auto.
      * intros NB a0 o sz N. eapply s_forget1_VA_supp; eauto.
      * intros NB a0 k L. destruct (N.eq_dec a0 a) as [->|NA]; [left; eauto|].
        right. right. assert (NS : sa a0 <> sa a) by (intros E; apply sa_inj in E; auto).
        rewrite s_forget1_VA_la in L by auto. split; auto. intros Y. eapply s_forget1_VA_supp; eauto.
  - unfold idxok in IX. rewrite <- EB in IX.
    destruct (isingleton (d_eval idx (a_base (d_base d1)))) as [n|] eqn:SG.
    + destruct (Z.of_nat (length (as_map st)) <? p_max_size p).
      * specialize (IX n eq_refl).
        rewrite (wl_no_overlap (esz a) (as_map st) n (esz_pos a) (proj1 (W a st F)) IX) in H.
        cbn [kill] in H. inversion H; subst d'. apply const_store_inv; auto.
      * eapply store_nonconst_inv; eauto.
    + eapply store_nonconst_inv; eauto.
Qed.

Lemma all_tracked_lookup d a st d1 a0 mu : lookup d a = (st, d1) ->
  all_tracked d a0 mu -> all_tracked d1 a0 mu.
Proof. intros LK H o v AL O M. apply (tracked_lookup _ _ _ _ a0 o (esz a0) LK). eauto. Qed.

Lemma store_nonconst_Ga d1 a st ez idx val strong d' s mu mu1 :
  Wf d1 -> Tidy d1 -> Usum d1 -> am_find (d_arrs d1) a = Some st -> as_smashed st = false ->
  le_pv ez -> le_pv idx -> wf_le idx -> le_pv val -> eval_le ez s = esz a -> aligned (esz a) (eval_le idx s) ->
  (strong = true -> onecell a = Some (eval_le idx s)) ->
  Ga d1 (s, mu) -> (smash_cond p st (esz a) = true -> all_tracked d1 a mu) -> same_mem_but a mu1 mu ->
  (forall i, mu1 a i = if i =? eval_le idx s then Some (eval_le val s) else mu a i) ->
  store_nonconst p a ez idx val strong (esz a) st d1 = Some d' -> Ga d' (s, mu1).
Proof.
  intros W T U F S PE PI WI PV SZ AL STR HG TR HM HA H.
  unfold store_nonconst in H. destruct (smash_cond p st (esz a)) eqn:SC.
  - destruct (smash_loop (sa a) ez a (d_gh d1) true (as_map st) (d_base d1)) as [nb|] eqn:LOOP; [|discriminate].
    cbn [obind] in H.
    destruct (if fst nb then Some (s_forget1 (VA (sa a)) (snd nb)) else s_array_store (sa a) ez val strong (snd nb))
      as [b2|] eqn:B2; [|discriminate].
    cbn [obind] in H. inversion H; subst d'.
    assert (TR' : all_tracked d1 a mu) by (apply TR; auto).
    exact (smash_store_Ga d1 a st ez idx val strong nb b2 s mu mu1 W T U F S
             (cells_nonempty_of_smash _ _ SC) PE PV SZ AL STR HG TR' HM HA LOOP B2).
  - rewrite kill_eq in H. inversion H; subst d'. unfold set_arr.
    apply (kill_store_Ga d1 a st idx val s mu mu1); auto.
Qed.

Lemma store_Ga a ez idx val strong d d' s mu mu1 : inv d ->
  le_pv ez -> le_pv idx -> wf_le idx -> le_pv val -> eval_le ez s = esz a -> aligned (esz a) (eval_le idx s) ->
  (strong = true -> onecell a = Some (eval_le idx s)) ->
  Ga d (s, mu) ->
  (forall st, am_find (d_arrs d) a = Some st -> as_smashed st = false ->
     (forall n, isingleton (d_eval idx (a_base (d_base d))) = Some n ->
                p_max_size p <= Z.of_nat (length (as_map st))) ->
     p_smashable p = true -> all_tracked d a mu) ->
  same_mem_but a mu1 mu ->
  (forall i, mu1 a i = if i =? eval_le idx s then Some (eval_le val s) else mu a i) ->
  a_array_store p a ez idx val strong d = Some d' -> Ga d' (s, mu1).
Proof.
  intros I PE PI WI PV SZ AL STR HG TR HM HA H.
  unfold a_array_store in H. rewrite (Ga_not_bottom _ _ HG) in H.
  destruct (check_elem_size ez (a_base (d_base d))) as [k|] eqn:CK; [|discriminate]. cbn [obind] in H.
  assert (k = esz a).
  { destruct HG as (s' & G0 & AP & _). rewrite <- SZ. symmetry. eapply G_check; eauto. }
  subst k. clear CK.
  destruct (lookup d a) as [st d1] eqn:LK.
  pose proof (lookup_inv _ _ _ _ LK I) as I1. pose proof (lookup_Ga _ _ _ _ _ LK HG) as HG1.
  destruct (lookup_spec _ _ _ _ LK) as (EB & EG & F & _ & FD).
  destruct (inv_of_Ga _ _ I1 HG1) as (W & T & U).
  assert (TR1 : as_smashed st = false ->
            (forall n, isingleton (d_eval idx (a_base (d_base d1))) = Some n ->
                       p_max_size p <= Z.of_nat (length (as_map st))) ->
            smash_cond p st (esz a) = true -> all_tracked d1 a mu).
  { intros S0 NC SC. destruct FD as [FD|[FD ->]].
    - eapply all_tracked_lookup; eauto. apply (TR st); auto.
      + rewrite <- EB. auto.
      + unfold smash_cond in SC. destruct (p_smashable p); auto.
    - apply cells_nonempty_of_smash in SC. simpl in SC. congruence. }
  destruct (as_smashed st) eqn:S.
  - (* smashed: every ghost of the array is unconstrained *)
    assert (TOPS : forall b', (forall y, a_base b' <> EBot -> nt (a_base b') y -> nt (a_base (d_base d1)) y \/ y = ghost (sa a)) ->
               a_base b' <> EBot -> forall o, 0 <= o -> is_top (e_at (a_base b') (cgv a o (esz a))) = true).
    { intros b' SUP NB o PO. destruct (is_top_nt (a_base b') (cgv a o (esz a))) as [Y|Y]; auto. exfalso.
      destruct (SUP _ NB Y) as [X|X]; [|elim (ghost_neq_cgv _ _ _ _ (eq_sym X))].
      destruct (T a o (esz a) PO (esz_pos a) X) as (st0 & F0 & S0 & _). congruence. }
    destruct HG1 as (s' & G0 & AP & C). cbn [fst snd] in *.
    set (i := eval_le idx s) in *. set (v := eval_le val s) in *.
    assert (FIN : forall b', G' b' (s', lift mu1) ->
              (forall y, a_base b' <> EBot -> nt (a_base b') y -> nt (a_base (d_base d1)) y \/ y = ghost (sa a)) ->
              Ga (with_base d1 b') (s, mu1)).
    { intros b' G1 SUP. exists (upd s' (cgv a i (esz a)) v). cbn [with_base d_base fst snd]. split; [|split].
      - apply (G_upd_tops _ s'); auto. intros x N. destruct (N.eq_dec x (cgv a i (esz a))) as [->|NE'].
        + split; [apply cgv_prog|]. apply TOPS; auto. apply (G_base_not_bot _ _ G1). apply (aligned_nonneg _ _ AL).
        + rewrite upd_other in N by auto. congruence.
      - intros x P. rewrite upd_other by (apply pv_not_cgv; auto). auto.
      - intros a0 o w0 AL0 O M. destruct (N.eq_dec a0 a) as [->|NA].
        + rewrite HA in M. destruct (Z.eqb_spec o i) as [->|NO].
          * inversion M; subst. apply upd_same.
          * rewrite upd_other; [eapply C; eauto|]. apply cgv_cell_neq; auto.
        + rewrite HM in M by auto. rewrite upd_other; [eapply C; eauto|]. apply cgv_cell_neq; auto. }
    assert (SMB : same_mem_but (sa a) (lift mu1) (lift mu)).
    { intros t' i0 N. unfold lift. destruct (N.even t') eqn:EV; auto.
      rewrite HM; auto. intros E. apply N. rewrite (even_is_sa _ EV), E. auto. }
    destruct (size_consistent st (esz a)).
    + destruct (s_array_store (sa a) ez val strong (d_base d1)) as [b'|] eqn:ST; [|discriminate].
      cbn [obind] in H. inversion H; subst d'.
      destruct (s_array_store_supp _ _ _ _ _ _ ST) as [S1 S2].
      apply FIN.
      * apply (s_array_store_sound esz' one' (sa a) ez i val strong (d_base d1) b' s' (lift mu) (lift mu1)); auto.
        -- apply le_pv_prog; auto.
        -- apply le_pv_prog; auto.
        -- rewrite esz'_sa. rewrite (eval_le_agree_pv ez s' s); auto.
        -- intros X. unfold one'. rewrite even_sa, div2_sa. auto.
        -- intros i0. rewrite !lift_sa, HA. rewrite (eval_le_agree_pv val s' s) by auto.
           destruct (Z.eqb_spec i0 i) as [->|NI]; auto.
           apply alignedb_spec in AL. rewrite AL. auto.
      * intros y NB N. destruct (S1 _ NB N); auto.
    + assert (ED : d' = with_base d1 (s_forget1 (VA (sa a)) (d_base d1))) by congruence. subst d'. clear H.
      apply FIN.
      * apply (s_forget1_sound esz' one' (VA (sa a)) (d_base d1) s' (lift mu)); simpl; auto.
        intros t' i0 N. apply SMB. congruence.
      * intros y NB N. left. eapply s_forget1_VA_supp; eauto.
  - destruct (isingleton (d_eval idx (a_base (d_base d1)))) as [n|] eqn:SG.
    + destruct (Z.of_nat (length (as_map st)) <? p_max_size p) eqn:LT.
      * assert (EN : eval_le idx s = n).
        { destruct HG1 as (s' & G0 & AP & _). eapply G_singleton; eauto. }
        rewrite <- EN in H.
        rewrite (wl_no_overlap (esz a) (as_map st) _ (esz_pos a) (proj1 (W a st F)) AL) in H.
        cbn [kill] in H. inversion H; subst d'. unfold set_arr.
        apply (const_store_Ga d1 a st (eval_le idx s) val s mu mu1); auto.
      * refine (store_nonconst_Ga d1 a st ez idx val strong d' s mu mu1 W T U F S PE PI WI PV SZ AL STR HG1 _ HM HA H).
        apply TR1; auto. intros n0 E0. apply Z.ltb_ge. auto.
    + refine (store_nonconst_Ga d1 a st ez idx val strong d' s mu mu1 W T U F S PE PI WI PV SZ AL STR HG1 _ HM HA H).
      apply TR1; auto. intros n0 E0. discriminate.
Qed.

(* ---- array_load ---- *)
Lemma pv_neq_ghost x t : is_pv x -> ghost t <> x.
Proof. intros P E. apply (ghost_neq_pv t x P). auto. Qed.
Lemma cgv_neq_pv x a o sz : is_pv x -> cgv a o sz <> x.
Proof. intros P E. apply (pv_not_cgv x a o sz P). auto. Qed.

Lemma forget_lhs_inv d1 lhs : Wf d1 -> Tidy d1 -> Usum d1 ->
  inv (with_base d1 (s_forget1 (VS lhs) (d_base d1))).
Proof.
  intros W T U. apply inv_base; auto.
  - intros NB a0 o sz N. eapply s_forget1_VS_supp; eauto.
  - intros NB a0 k L. right. right. split; auto. intros Y. eapply s_forget1_VS_supp; eauto.
Qed.

Lemma load_inv lhs a ez idx d d' : inv d -> is_pv lhs -> szok d a ez -> idxok d a idx ->
  a_array_load p lhs a ez idx d = Some d' -> inv d'.
Proof.
  intros I PL SZ IX H. unfold a_array_load in H. destruct (a_is_bottom d) eqn:B; [inversion H; subst; auto|].
  destruct (check_elem_size ez (a_base (d_base d))) as [k|] eqn:CK; [|discriminate]. cbn [obind] in H.
  rewrite (SZ k CK) in *. clear k CK.
  destruct (lookup d a) as [st d1] eqn:LK.
  pose proof (lookup_inv _ _ _ _ LK I) as I1.
  destruct (lookup_spec _ _ _ _ LK) as (EB & EG & F & _).
  assert (B1 : a_is_bottom d1 = false) by (unfold a_is_bottom; rewrite EB; exact B).
  destruct (inv_nonbottom _ I1 B1) as (W & T & U).
  pose proof (forget_lhs_inv d1 lhs W T U) as FL.
  destruct (as_smashed st) eqn:S.
  - destruct (size_consistent st (esz a)); [|inversion H; subst; auto].
    destruct (s_array_load lhs (sa a) ez (d_base d1)) as [b'|] eqn:LD; [|discriminate].
    cbn [obind] in H. inversion H; subst d'.
    destruct (s_array_load_supp _ _ _ _ _ LD) as [S1 S2].
    apply inv_base; auto.
    + intros NB a0 o sz N. destruct (S2 _ NB N) as [X|X]; auto. elim (cgv_neq_pv _ _ _ _ PL X).
    + intros NB a0 k L. right. right. rewrite S1 in L. split; auto.
      intros Y. destruct (S2 _ NB Y) as [X|X]; auto. elim (pv_neq_ghost _ _ PL X).
  - unfold idxok in IX. rewrite <- EB in IX.
    destruct (isingleton (d_eval idx (a_base (d_base d1)))) as [n|] eqn:SG.
    + specialize (IX n eq_refl).
      rewrite (wl_no_overlap (esz a) (as_map st) n (esz_pos a) (proj1 (W a st F)) IX) in H.
      inversion H; subst d'. unfold set_arr.
      set (st' := mkS false (as_esz st) (snd (om_mk (as_map st) n (esz a)))).
      destruct (W a st F) as [WL LV].
      destruct (as_set_nonsmashed st st' S eq_refl) as (X1 & X2 & X3).
      apply (inv_update d1 a st st'); auto.
      * split.
        -- intros c J. destruct (X2 c J) as [J'|J']; [apply WL; auto|].
           unfold st' in J'. cbn [as_map] in J'. apply in_om_mk in J'. destruct J' as [J'| ->]; [apply WL; auto|].
           simpl. auto.
        -- intros c J. destruct (X2 c J) as [J'|J']; [apply LV; auto|].
           unfold st' in J'. cbn [as_map] in J'. apply in_om_mk in J'. destruct J' as [J'| ->]; [apply LV; auto|]. auto.
      * intros a0 N o sz. rewrite gh_has_insert. split; auto. intros [(E & _)|X]; [congruence|auto].
      * intros NB a0 o sz H1 H2 N. apply s_assign_supp in N; auto.
        destruct N as [E|N]; [elim (cgv_neq_pv _ _ _ _ PL E)|].
        destruct (N.eq_dec a0 a) as [->|NA]; auto. right.
        destruct (T a o sz H1 H2 N) as (st0 & F0 & S0 & (c & J & E1 & E2) & GH).
        rewrite F in F0. inversion F0; subst st0. apply (tracked_same_arr _ _ _ a st st'); auto.
        -- exists c. split; auto. unfold st'. cbn [as_map]. apply in_om_mk_old. auto.
        -- apply gh_has_insert. auto.
      * intros NB a0 k L. cbn [s_assign a_la] in L. destruct (N.eq_dec a0 a) as [->|NA].
        -- left. split; auto. right. destruct (U a k L) as [(st0 & F0 & S0)|X]; [congruence|].
           destruct (is_top_nt (a_base (s_assign lhs (le_var (cgv a n (esz a))) (d_base d1))) (ghost (sa a))) as [Y|Y]; auto.
           apply s_assign_supp in Y; auto. destruct Y as [Y|Y]; [elim (pv_neq_ghost _ _ PL Y)|].
           unfold nt in Y. congruence.
        -- right. split; auto. split; auto. intros Y. apply s_assign_supp in Y; auto.
           destruct Y as [Y|Y]; [elim (pv_neq_ghost _ _ PL Y)|auto].
    + destruct (_ && _); [|inversion H; subst; auto].
      set (cells := om_get_overlap_sym (as_map st) idx (le_addc idx (esz a - 1)) (a_base (d_base d1))) in *.
      destruct (smash_loop (ta a) ez a (d_gh d1) true cells (d_base d1)) as [nb|] eqn:LOOP; [|discriminate].
      cbn [obind] in H. destruct nb as [nog b1]. cbn [fst snd] in H.
      destruct (if nog then Some (s_forget1 (VS lhs) b1) else s_array_load lhs (ta a) ez b1) as [b2|] eqn:B2;
        [|discriminate].
      cbn [obind] in H.
      assert (ED : d' = with_base d1 (s_forget1 (VA (ta a)) b2)) by congruence. subst d'. clear H.
      destruct (smash_loop_supp _ _ _ _ _ _ _ _ _ LOOP) as (L1 & L2 & L3).
      assert (B2S : a_la b2 = a_la b1 /\
                (forall y, a_base b2 <> EBot -> nt (a_base b2) y -> y = lhs \/ nt (a_base b1) y) /\
                (a_base b1 = EBot -> a_base b2 = EBot)).
      { destruct nog.
        - assert (EB2 : b2 = s_forget1 (VS lhs) b1) by congruence. subst b2. split; [reflexivity|]. split.
          + intros y NB N. right. eapply s_forget1_VS_supp; eauto.
          + apply s_forget1_bot.
        - destruct (s_array_load_supp _ _ _ _ _ B2) as [X1 X2]. split; auto. split; auto.
          intros E. unfold s_array_load in B2. rewrite E in B2.
          destruct (check_elem_size ez EBot); [|discriminate].
          destruct (equal_size _ _ _); inversion B2; subst; cbn [a_base]; reflexivity. }
      destruct B2S as (M1 & M2 & M3).
      assert (SUPP : forall y, a_base (s_forget1 (VA (ta a)) b2) <> EBot ->
                nt (a_base (s_forget1 (VA (ta a)) b2)) y -> y = lhs \/ y = ghost (ta a) \/ nt (a_base (d_base d1)) y).
      { intros y NB N. apply s_forget1_VA_supp in N; auto.
        assert (NB2 : a_base b2 <> EBot) by (intros E; apply NB; apply s_forget1_bot; auto).
        destruct (M2 y NB2 N) as [X|X]; auto.
        assert (NB1 : a_base b1 <> EBot) by (intros E; apply NB2; apply M3; auto).
        destruct (L2 y NB1 X) as [Y|Y]; auto. }
      apply inv_base; auto.
      * intros NB a0 o sz N. destruct (SUPP _ NB N) as [X|[X|X]]; auto.
        -- elim (cgv_neq_pv _ _ _ _ PL X).
        -- elim (ghost_neq_cgv _ _ _ _ (eq_sym X)).
      * intros NB a0 k L. right. right.
        rewrite s_forget1_VA_la in L by (apply sa_not_ta). rewrite M1, L1 in L by (apply sa_not_ta).
        split; auto. intros Y. destruct (SUPP _ NB Y) as [X|[X|X]]; auto.
        -- elim (pv_neq_ghost _ _ PL X).
        -- apply ghost_inj in X. elim (sa_not_ta _ _ X).
Qed.

Definition cell_okb (a : arr) (o : Z) : bool := match onecell a with Some j => o =? j | None => true end.
Lemma cell_okb_spec a o : cell_okb a o = true <-> cell_ok onecell a o.
Proof. unfold cell_okb, cell_ok. destruct (onecell a); [apply Z.eqb_eq|tauto]. Qed.

Lemma load_Ga lhs a ez idx d d' s mu v : inv d -> is_pv lhs ->
  le_pv ez -> le_pv idx -> wf_le idx -> eval_le ez s = esz a ->
  aligned (esz a) (eval_le idx s) -> cell_ok onecell a (eval_le idx s) -> mu a (eval_le idx s) = Some v ->
  Ga d (s, mu) -> a_array_load p lhs a ez idx d = Some d' -> Ga d' (upd s lhs v, mu).
Proof.
  intros I PL PE PI WI SZ AL OK MV HG H.
  unfold a_array_load in H. rewrite (Ga_not_bottom _ _ HG) in H.
  destruct (check_elem_size ez (a_base (d_base d))) as [k|] eqn:CK; [|discriminate]. cbn [obind] in H.
  assert (k = esz a).
  { destruct HG as (s' & G0 & AP & _). rewrite <- SZ. symmetry. eapply G_check; eauto. }
  subst k. clear CK.
  destruct (lookup d a) as [st d1] eqn:LK.
  pose proof (lookup_inv _ _ _ _ LK I) as I1. pose proof (lookup_Ga _ _ _ _ _ LK HG) as HG1.
  destruct (lookup_spec _ _ _ _ LK) as (EB & EG & F & _).
  destruct (inv_of_Ga _ _ I1 HG1) as (W & T & U).
  destruct HG1 as (s' & G0 & AP & C). cbn [fst snd] in *.
  set (i := eval_le idx s) in *.
  assert (FIN : forall b' m' g', G' b' (upd s' lhs v, lift mu) -> Ga (mkD b' m' g') (upd s lhs v, mu)).
  { intros b' m' g' G1. exists (upd s' lhs v). cbn [d_base fst snd]. split; auto. split.
    - intros x P. destruct (N.eq_dec x lhs) as [->|NE]; [rewrite !upd_same; auto|].
      rewrite !upd_other by auto. auto.
    - intros a0 o w0 AL0 O M. rewrite upd_other by (apply cgv_neq_pv; auto). eapply C; eauto. }
  assert (FORGET : Ga (with_base d1 (s_forget1 (VS lhs) (d_base d1))) (upd s lhs v, mu)).
  { apply FIN. apply (s_forget1_sound esz' one' (VS lhs) (d_base d1) s' (lift mu)); simpl; auto.
    - apply pv_prog; auto.
    - intros x N. apply upd_other. congruence. }
  assert (EZ : eval_le ez s' = esz a) by (rewrite (eval_le_agree_pv ez s' s); auto).
  destruct (as_smashed st) eqn:S.
  - destruct (size_consistent st (esz a)); [|inversion H; subst; auto].
    destruct (s_array_load lhs (sa a) ez (d_base d1)) as [b'|] eqn:LD; [|discriminate].
    cbn [obind] in H. inversion H; subst d'. apply FIN.
    apply (s_array_load_sound esz' one' lhs (sa a) ez (d_base d1) b' s' (lift mu) i v); auto.
    + apply pv_prog; auto.
    + apply le_pv_prog; auto.
    + rewrite esz'_sa. auto.
    + apply cell_ok_sa. auto.
    + rewrite lift_sa. apply alignedb_spec in AL. rewrite AL. auto.
  - destruct (isingleton (d_eval idx (a_base (d_base d1)))) as [n|] eqn:SG.
    + assert (EN : i = n) by (eapply G_singleton; eauto). subst n.
      rewrite (wl_no_overlap (esz a) (as_map st) _ (esz_pos a) (proj1 (W a st F)) AL) in H.
      inversion H; subst d'. unfold set_arr. apply FIN.
      pose proof (s_assign_sound esz' one' lhs (le_var (cgv a i (esz a))) (d_base d1) s' (lift mu) G0
                    (pv_prog _ PL)) as X.
      rewrite eval_le_var in X. rewrite (C a i v AL OK MV) in X. apply X.
      intros c0 v0 [E|[]]. inversion E; subst. apply cgv_prog.
    + destruct (_ && _) eqn:COND; [|inversion H; subst; auto].
      apply andb_true_iff in COND. destruct COND as [COND COV].
      set (cells := om_get_overlap_sym (as_map st) idx (le_addc idx (esz a - 1)) (a_base (d_base d1))) in *.
      destruct (smash_loop (ta a) ez a (d_gh d1) true cells (d_base d1)) as [nb|] eqn:LOOP; [|discriminate].
      cbn [obind] in H. destruct nb as [nog b1]. cbn [fst snd] in H.
      destruct (if nog then Some (s_forget1 (VS lhs) b1) else s_array_load lhs (ta a) ez b1) as [b2|] eqn:B2;
        [|discriminate].
      cbn [obind] in H.
      assert (ED : d' = with_base d1 (s_forget1 (VA (ta a)) b2)) by congruence. subst d'. clear H.
      pose proof G0 as (L0 & S0 & (w & Gw & Aw) & C0). cbn [fst snd] in *.
      assert (EW : eval_le ez w = esz a).
      { rewrite (eval_le_agree ez w s') by (auto using le_pv_prog). auto. }
      destruct (smash_loop_spec (ta a) ez a (d_gh d1) (esz a) (le_pv_noghost ez (ta a) PE) cells true (d_base d1) nog b1 w
                  Gw EW L0 ltac:(discriminate) LOOP) as (A1 & B1 & _ & C1 & C2 & C3 & _ & C4).
      destruct (W a st F) as [WL LV].
      assert (CSUB : forall c, In c cells -> In c (as_map st)) by (intros c J; eapply in_sym_in; eauto).
      (* the memory of the temporary array: the cells that were smashed into it *)
      set (mux := fun (t' : arr) (o : Z) =>
                    if N.eqb t' (ta a)
                    then (if existsb (fun c => c_off c =? o) cells && cell_okb a o && negb nog then mu a o else None)
                    else lift mu t' o).
      assert (G1 : G' b1 (s', mux)).
      { apply (G_transfer (d_base d1) _ s' (lift mu) _ (ta a)); auto.
        - intros t' N i0. unfold mux. destruct (N.eqb_spec t' (ta a)); [congruence|auto].
        - intros k0 L. split.
          + rewrite esz'_ta. destruct (C4 k0 L) as [X|X]; auto.
            rewrite <- (esz'_ta a). eapply S0; eauto.
          + intros i0 v0 _ M. unfold mux in M. rewrite N.eqb_refl in M.
            destruct (existsb _ cells) eqn:EX; [|discriminate]. destruct (cell_okb a i0) eqn:OB; [|discriminate].
            destruct nog; [discriminate|]. cbn [negb andb] in M.
            apply existsb_exists in EX. destruct EX as (c & J & E). apply Z.eqb_eq in E.
            apply cell_okb_spec in OB. destruct (WL c (CSUB c J)) as [SZc ALc].
            destruct (B1 eq_refl c J) as [_ X]. specialize (X w Gw).
            pose proof (e_at_sound _ _ (ghost (ta a)) X) as Y. rewrite upd_same in Y.
            rewrite (Aw (cgc a c)) in Y by apply cgv_prog. unfold cgc in Y. rewrite SZc, E in Y.
            rewrite E in ALc. rewrite (C a i0 v0 ALc OB M) in Y. exact Y. }
      assert (G2 : G' b2 (upd s' lhs v, mux)).
      { destruct nog.
        - assert (EB2 : b2 = s_forget1 (VS lhs) b1) by congruence. subst b2.
          apply (s_forget1_sound esz' one' (VS lhs) b1 s' mux); simpl; auto.
          + apply pv_prog; auto.
          + intros x N. apply upd_other. congruence.
        - apply (s_array_load_sound esz' one' lhs (ta a) ez b1 b2 s' mux i v); auto.
          + apply pv_prog; auto.
          + apply le_pv_prog; auto.
          + rewrite esz'_ta. auto.
          + apply cell_ok_ta.
          + unfold mux. rewrite N.eqb_refl.
            apply andb_true_iff in COND. destruct COND as [_ CBS].
            assert (GI : gamma (d_eval idx (a_base (d_base d1))) i) by (eapply G_eval; eauto).
            destruct (covers_all_offsets_sound cells _ (esz a) i (esz_pos a) COV GI AL) as (c & J & E).
            replace (existsb (fun c0 => c_off c0 =? i) cells) with true.
            * apply cell_okb_spec in OK. rewrite OK. simpl. auto.
            * symmetry. apply existsb_exists. exists c. split; auto. apply Z.eqb_eq. auto. }
      apply FIN.
      apply (s_forget1_sound esz' one' (VA (ta a)) b2 (upd s' lhs v) mux); simpl; auto.
      intros t' i0 N. unfold mux. destruct (N.eqb_spec t' (ta a)); [congruence|auto].
Qed.

(* ---- a store that holds the value of every defined cell in its ghost variable ---- *)
Definition nrange (x : N) : list N := map N.of_nat (seq 0 (S (N.to_nat x))).
Lemma in_nrange y x : (y <= x)%N -> In y (nrange x).
Proof.
  intros H. unfold nrange. apply in_map_iff. exists (N.to_nat y). split; [apply N2Nat.id|].
  apply in_seq. lia.
Qed.
Lemma npair_ge x y : (x <= npair x y /\ y <= npair x y)%N.
Proof. unfold npair. split; nia. Qed.

Definition decode (x : var) : option (arr * N) :=
  find (fun q => N.eqb (cgv (fst q) (Z.of_N (snd q)) (esz (fst q))) x) (list_prod (nrange x) (nrange x)).

Lemma decode_some x a n : decode x = Some (a, n) -> x = cgv a (Z.of_N n) (esz a).
Proof. unfold decode. intros H. apply find_some in H. destruct H as [_ H]. apply N.eqb_eq in H. auto. Qed.

Lemma decode_cgv a o : 0 <= o -> decode (cgv a o (esz a)) = Some (a, Z.to_N o).
Proof.
  intros PO. unfold decode. set (x := cgv a o (esz a)).
  destruct (find _ _) as [[a' n']|] eqn:F.
  - apply find_some in F. destruct F as [_ F]. apply N.eqb_eq in F. cbn [fst snd] in F.
    pose proof (esz_pos a). pose proof (esz_pos a').
    apply cgv_inj in F; try lia. destruct F as (-> & E & _). f_equal. f_equal. lia.
  - exfalso. assert (IN : In (a, Z.to_N o) (list_prod (nrange x) (nrange x))).
    { apply in_prod; apply in_nrange.
      - unfold x, cgv, sv. pose proof (npair_ge a (npair (Z.to_N o) (Z.to_N (esz a)))). lia.
      - unfold x, cgv, sv. pose proof (npair_ge a (npair (Z.to_N o) (Z.to_N (esz a)))).
        pose proof (npair_ge (Z.to_N o) (Z.to_N (esz a))). lia. }
    pose proof (find_none _ _ F _ IN) as X. cbn [fst snd] in X. rewrite Z2N.id in X by auto.
    unfold x in X. rewrite N.eqb_refl in X. discriminate.
Qed.

Definition cstore (s : store) (mu : amem) : store :=
  fun x => match decode x with
           | Some (a, n) =>
             if alignedb (esz a) (Z.of_N n) && cell_okb a (Z.of_N n)
             then match mu a (Z.of_N n) with Some v => v | None => s x end
             else s x
           | None => s x
           end.

Lemma cstore_cells s mu : cells_in (cstore s mu) mu.
Proof.
  intros a o v AL O M. unfold cstore. rewrite decode_cgv by (eapply aligned_nonneg; eauto).
  rewrite Z2N.id by (eapply aligned_nonneg; eauto).
  apply alignedb_spec in AL. apply cell_okb_spec in O. rewrite AL, O, M. reflexivity.
Qed.

Lemma cstore_diff s mu x : cstore s mu x <> s x ->
  exists a o v, x = cgv a o (esz a) /\ aligned (esz a) o /\ cell_ok onecell a o /\ mu a o = Some v /\
                cstore s mu x = v.
Proof.
  unfold cstore. destruct (decode x) as [[a n]|] eqn:D; [|congruence].
  destruct (alignedb _ _) eqn:AL; [|simpl; congruence]. destruct (cell_okb _ _) eqn:O; [|simpl; congruence].
  simpl. destruct (mu a (Z.of_N n)) as [v|] eqn:M; [|congruence]. intros _.
  exists a, (Z.of_N n), v. split; [apply decode_some; auto|]. split; [apply alignedb_spec; auto|].
  split; [apply cell_okb_spec; auto|]. auto.
Qed.

Lemma cstore_pv s mu : agree_pv (cstore s mu) s.
Proof.
  intros x P. destruct (Z.eq_dec (cstore s mu x) (s x)) as [E|NE]; auto.
  destruct (cstore_diff _ _ _ NE) as (a & o & v & -> & _). elim (cgv_not_pv _ _ _ P).
Qed.

(* the ghost variables of the cells that the state does not track are unconstrained: a
   described state stays described when the contents of untracked cells change *)
Lemma Ga_intro_tops d' s s' mu1 : inv d' -> G' (d_base d') (s', lift mu1) -> agree_pv s' s ->
  (forall a o v, aligned (esz a) o -> cell_ok onecell a o -> mu1 a o = Some v ->
     s' (cgv a o (esz a)) = v \/ ~ tracked_cell d' a o (esz a)) ->
  Ga d' (s, mu1).
Proof.
  intros I G1 AP H. exists (cstore s' mu1). cbn [fst snd]. split; [|split].
  - apply (G_upd_tops _ s'); auto. intros x N.
    destruct (cstore_diff _ _ _ N) as (a & o & v & -> & AL & O & M & E).
    split; [apply cgv_prog|]. destruct (H a o v AL O M) as [X|X]; [congruence|].
    destruct I as [B|(_ & T & _)].
    + unfold a_is_bottom in B. rewrite (G_not_bottom _ _ _ _ G1) in B. discriminate.
    + destruct (is_top_nt (a_base (d_base d')) (cgv a o (esz a))) as [Y|Y]; auto.
      elim X. apply T; auto. eapply aligned_nonneg; eauto.
  - intros x P. rewrite cstore_pv by auto. auto.
  - apply cstore_cells.
Qed.

Lemma inv_top : inv a_top.
Proof.
  right. split; [|split].
  - intros a st F. discriminate.
  - intros a o sz _ _ N. unfold nt in N. simpl in N. discriminate.
  - intros a k L. simpl in L. discriminate.
Qed.

Lemma Ga_top c : Ga a_top c.
Proof.
  destruct c as [s mu]. apply (Ga_intro_tops a_top s s mu inv_top).
  - apply G_top.
  - intros x _. auto.
  - intros a o v _ _ _. right. intros (st & F & _). discriminate.
Qed.

(* ---- forget_array ---- *)
Lemma forget_scan_gen vs l acc l' rm : forget_scan vs l acc = (l', rm) ->
  (forall b k, la_at l' b = BConst k -> la_at l b = BConst k /\ ~ In (VA b) vs) /\
  (forall x, In x acc \/ In (VS x) vs -> In x rm).
Proof.
  destruct l as [|m].
  - revert acc. induction vs as [|v r IH]; simpl; intros acc H.
    + inversion H; subst. split; [simpl; discriminate|]. intros x [I|[]]; auto.
    + destruct v as [x|a]; simpl in H.
      * destruct (IH _ H) as [A B].
        split; [intros b k Hb; destruct (A b k Hb) as [X _]; simpl in X; discriminate|].
        intros y [I|[E|I]]; apply B; auto.
        -- left. apply in_or_app. auto.
        -- inversion E; subst. left. apply in_or_app. simpl. auto.
      * destruct (IH _ H) as [A B].
        split; [intros b k Hb; destruct (A b k Hb) as [X _]; simpl in X; discriminate|].
        intros y [I|[E|I]]; try discriminate; apply B; auto.
  - intros H. destruct (forget_scan_spec vs (LMap m) acc l' rm ltac:(discriminate) H) as (_ & A & B). auto.
Qed.

Lemma ghosts_of_in g a cells c : In c cells -> gh_hasc g a c = true -> In (cgc a c) (ghosts_of g a cells).
Proof.
  intros I H. unfold ghosts_of. apply in_flat_map. exists c. split; auto. rewrite H. simpl. auto.
Qed.
Lemma in_ghosts_of g a cells x : In x (ghosts_of g a cells) -> exists c, In c cells /\ x = cgc a c.
Proof.
  unfold ghosts_of. intros H. apply in_flat_map in H. destruct H as (c & I & H).
  destruct (gh_hasc g a c); [|destruct H]. destruct H as [<-|[]]. eauto.
Qed.

Definition fa_vars (a : arr) (st : astate) (g : gmap_t) : list avar :=
  if as_smashed st then [VA (sa a)] else map VS (ghosts_of g a (as_map st)).

Lemma tracked_removed b' m g a a0 o sz : a0 <> a ->
  (tracked_cell (mkD b' (am_remove m a) (gh_erase_all g a)) a0 o sz <-> tracked_cell (mkD b' m g) a0 o sz).
Proof.
  intros N. unfold tracked_cell. cbn [d_arrs d_gh]. rewrite am_find_remove_other by auto.
  split; intros (st0 & F & S & C & GH); exists st0; (split; [auto|split; [auto|split; [auto|]]]).
  - apply gh_has_erase_all in GH. tauto.
  - apply gh_has_erase_all. auto.
Qed.

Lemma forget_array_inv a d : inv d -> inv (forget_array a d).
Proof.
  intros I. unfold forget_array. destruct (lookup d a) as [st d1] eqn:LK.
  pose proof (lookup_inv _ _ _ _ LK I) as I1.
  destruct (lookup_spec _ _ _ _ LK) as (EB & EG & F & _).
  fold (fa_vars a st (d_gh d1)). set (vars := fa_vars a st (d_gh d1)).
  unfold s_forget. destruct (forget_scan vars (a_la (d_base d1)) []) as [l' rm] eqn:FS.
  destruct (forget_scan_gen _ _ _ _ _ FS) as [FA FB].
  destruct (d_forget rm (a_base (d_base d1))) as [|m'] eqn:EB'.
  { left. reflexivity. }
  assert (NB : d_forget rm (a_base (d_base d1)) <> EBot) by (rewrite EB'; discriminate).
  assert (B1 : a_is_bottom d1 = false).
  { unfold a_is_bottom, s_is_bottom. destruct (a_base (d_base d1)) eqn:E; auto.
    unfold d_forget in EB'. simpl in EB'. discriminate. }
  destruct (inv_nonbottom _ I1 B1) as (W & T & U).
  right. split; [|split].
  - intros a0 st0 F0. cbn [d_arrs] in F0. destruct (N.eq_dec a0 a) as [->|NA].
    + rewrite am_find_remove_same in F0. discriminate.
    + rewrite am_find_remove_other in F0 by auto. eauto.
  - intros a0 o sz H1 H2 N. cbn [d_base a_base] in N. rewrite <- EB' in N.
    apply nt_d_forget in N; auto. destruct N as [NI N].
    pose proof (T a0 o sz H1 H2 N) as TC.
    destruct (N.eq_dec a0 a) as [->|NA].
    + exfalso. destruct TC as (st0 & F0 & S0 & (c & J & E1 & E2) & GH).
      rewrite F in F0. inversion F0; subst st0. apply NI. apply FB. right.
      unfold vars, fa_vars. rewrite S0. apply in_map.
      replace (cgv a o sz) with (cgc a c) by (unfold cgc; rewrite E1, E2; auto).
      apply ghosts_of_in; auto. unfold gh_hasc. rewrite E1, E2. auto.
    + apply tracked_removed; auto.
  - intros a0 k L. cbn [d_base a_la a_base d_arrs] in *. rewrite <- EB'.
    destruct (FA _ _ L) as [L0 NV].
    assert (TOPP : is_top (e_at (a_base (d_base d1)) (ghost (sa a0))) = true ->
                   is_top (e_at (d_forget rm (a_base (d_base d1))) (ghost (sa a0))) = true).
    { intros X. destruct (is_top_nt (d_forget rm (a_base (d_base d1))) (ghost (sa a0))) as [Y|Y]; auto.
      apply nt_d_forget in Y; auto. destruct Y as [_ Y]. unfold nt in Y. congruence. }
    destruct (U a0 k L0) as [(st0 & F0 & S0)|X]; auto.
    destruct (N.eq_dec a0 a) as [->|NA].
    + exfalso. rewrite F in F0. inversion F0; subst st0. apply NV. unfold vars, fa_vars. rewrite S0. simpl. auto.
    + left. exists st0. rewrite am_find_remove_other by auto. auto.
Qed.

Lemma untracked_removed b' m g a o sz : ~ tracked_cell (mkD b' (am_remove m a) (gh_erase_all g a)) a o sz.
Proof. intros (st0 & F & _). cbn [d_arrs] in F. rewrite am_find_remove_same in F. discriminate. Qed.

Lemma forget_array_Ga a d s mu mu1 : inv d -> Ga d (s, mu) -> same_mem_but a mu1 mu ->
  Ga (forget_array a d) (s, mu1).
Proof.
  intros I HG HM. pose proof (forget_array_inv a d I) as I'.
  unfold forget_array in *. destruct (lookup d a) as [st d1] eqn:LK.
  pose proof (lookup_inv _ _ _ _ LK I) as I1. pose proof (lookup_Ga _ _ _ _ _ LK HG) as HG1.
  destruct (lookup_spec _ _ _ _ LK) as (EB & EG & F & _).
  destruct (inv_of_Ga _ _ I1 HG1) as (W & T & U).
  fold (fa_vars a st (d_gh d1)) in *. set (vars := fa_vars a st (d_gh d1)) in *.
  destruct HG1 as (s' & G0 & AP & C). cbn [fst snd] in *.
  apply (Ga_intro_tops _ s s' mu1 I'); auto.
  - cbn [d_base].
    (* the summary of a smashed array is forgotten; otherwise nothing is claimed about it *)
    destruct (as_smashed st) eqn:S.
    + apply (s_forget_sound esz' one' vars (d_base d1) s' (lift mu)); auto.
      intros t' i0 N. unfold lift. destruct (N.even t') eqn:EV; auto.
      rewrite HM; auto. intros E. apply N. unfold vars, fa_vars. rewrite S. simpl. left.
      rewrite (even_is_sa _ EV), E. auto.
    + assert (G1 : G' (s_forget vars (d_base d1)) (s', lift mu)).
      { apply (s_forget_sound esz' one' vars (d_base d1) s' (lift mu)); auto. }
      apply (G_mem_change _ _ (lift mu)); auto.
      intros b i w M. destruct (lift_change _ _ _ HM b i w M) as [E|(-> & ALi & M1)]; auto.
      right. unfold s_forget in *. destruct (forget_scan vars (a_la (d_base d1)) []) as [l' rm] eqn:FS.
      destruct (forget_scan_gen _ _ _ _ _ FS) as [FA FB]. cbn [a_la a_base].
      destruct (la_at l' (sa a)) as [|k|] eqn:L; try (left; intros k0; congruence).
      destruct (FA _ _ L) as [L0 _].
      destruct (U a k L0) as [(st0 & F0 & S0)|X]; [congruence|]. right.
      destruct (is_top_nt (d_forget rm (a_base (d_base d1))) (ghost (sa a))) as [Y|Y]; auto.
      apply nt_d_forget in Y.
      * destruct Y as [_ Y]. unfold nt in Y. congruence.
      * apply (G_base_not_bot _ _ G1).
  - intros a0 o v AL O M. destruct (N.eq_dec a0 a) as [->|NA].
    + right. apply untracked_removed.
    + left. rewrite HM in M by auto. eapply C; eauto.
Qed.

(* ---- numerical operations on program scalars ---- *)
Definition is_pvb (x : var) : bool := (x mod 6 =? 0)%N.
Lemma is_pvb_spec x : is_pvb x = true <-> is_pv x.
Proof. unfold is_pvb, is_pv. apply N.eqb_eq. Qed.
Definition pmix (s1 s' : store) : store := fun x => if is_pvb x then s1 x else s' x.
Lemma pmix_pv s1 s' : agree_pv (pmix s1 s') s1.
Proof. intros x P. unfold pmix. apply is_pvb_spec in P. rewrite P. auto. Qed.
Lemma pmix_other s1 s' x : ~ is_pv x -> pmix s1 s' x = s' x.
Proof. intros P. unfold pmix. destruct (is_pvb x) eqn:E; auto. apply is_pvb_spec in E. tauto. Qed.
Lemma pmix_cells s1 s' mu : cells_in s' mu -> cells_in (pmix s1 s') mu.
Proof. intros C a o v AL O M. rewrite pmix_other by apply cgv_not_pv. eapply C; eauto. Qed.

(* an operation of the base domain whose support is within the program scalars *)
Lemma scalar_op_inv d b' : inv d ->
  (a_base (d_base d) = EBot -> a_base b' = EBot) ->
  a_la b' = a_la (d_base d) ->
  (forall y, a_base b' <> EBot -> nt (a_base b') y -> is_pv y \/ nt (a_base (d_base d)) y) ->
  inv (with_base d b').
Proof.
  intros I BOT LA SUP. destruct (a_base b') as [|m'] eqn:EB'; [left; unfold a_is_bottom, s_is_bottom; cbn [with_base d_base]; rewrite EB'; auto|].
  assert (B : a_is_bottom d = false).
  { unfold a_is_bottom, s_is_bottom. destruct (a_base (d_base d)) eqn:E; auto. specialize (BOT eq_refl). discriminate. }
  destruct (inv_nonbottom _ I B) as (W & T & U). rewrite <- EB' in *.
  apply inv_base; auto.
  - intros NB a0 o sz N. destruct (SUP _ NB N) as [X|X]; auto. elim (cgv_not_pv _ _ _ X).
  - intros NB a0 k L. right. right. rewrite LA in L. split; auto. intros Y.
    destruct (SUP _ NB Y) as [X|X]; auto. exfalso. apply pv_prog in X. eapply ghost_not_prog; eauto.
Qed.

Lemma scalar_op_Ga d b' s s1 mu : Ga d (s, mu) ->
  (forall s', G' (d_base d) (s', lift mu) -> agree_pv s' s ->
     exists s1', G' b' (s1', lift mu) /\ agree_pv s1' s1 /\ (forall x, ~ is_pv x -> s1' x = s' x)) ->
  Ga (with_base d b') (s1, mu).
Proof.
  intros (s' & G0 & AP & C) H. destruct (H s' G0 AP) as (s1' & G1 & AP1 & K).
  exists s1'. cbn [with_base d_base fst snd]. split; auto. split; auto.
  intros a o v AL O M. rewrite K by apply cgv_not_pv. eapply C; eauto.
Qed.

Lemma assign_inv x e d : inv d -> is_pv x -> inv (with_base d (s_assign x e (d_base d))).
Proof.
  intros I P. apply scalar_op_inv; auto.
  - intros E. simpl. rewrite E. apply d_assign_bot.
  - intros y NB N. apply s_assign_supp in N; auto. destruct N as [->|N]; auto.
Qed.
Lemma assign_Ga x e d s mu : is_pv x -> le_pv e -> Ga d (s, mu) ->
  Ga (with_base d (s_assign x e (d_base d))) (upd s x (eval_le e s), mu).
Proof.
  intros P PE HG. apply (scalar_op_Ga d _ s); auto. intros s' G0 AP.
  exists (upd s' x (eval_le e s')). split; [|split].
  - apply s_assign_sound; auto. apply pv_prog; auto. apply le_pv_prog; auto.
  - rewrite (eval_le_agree_pv e s' s) by auto. intros y Py.
    destruct (N.eq_dec y x) as [->|NE]; [rewrite !upd_same; auto|rewrite !upd_other by auto; auto].
  - intros y NP. apply upd_other. intros ->. auto.
Qed.

Definition operand_pv (z : operand) : Prop := match z with OVar v => is_pv v | OCst _ => True end.
Lemma arith_inv op x y z d : inv d -> is_pv x -> inv (with_base d (s_arith op x y z (d_base d))).
Proof.
  intros I P. apply scalar_op_inv; auto.
  - intros E. simpl. rewrite E. reflexivity.
  - intros w NB N. simpl in N, NB. apply nt_d_apply_arith in N; auto. destruct N as [->|N]; auto.
Qed.
Lemma arith_Ga op x y z d s mu v : is_pv x -> is_pv y -> operand_pv z -> Ga d (s, mu) ->
  arith_sem op (s y) (operand_val z s) = Some v ->
  Ga (with_base d (s_arith op x y z (d_base d))) (upd s x v, mu).
Proof.
  intros Px Py Pz HG AS. apply (scalar_op_Ga d _ s); auto. intros s' G0 AP.
  exists (upd s' x v). split; [|split].
  - apply s_arith_sound; auto; try (apply pv_prog; auto).
    + destruct z; simpl in *; auto. apply pv_prog; auto.
    + rewrite (AP y Py). replace (operand_val z s') with (operand_val z s); auto.
      destruct z; simpl in *; auto. symmetry. auto.
  - intros w Pw. destruct (N.eq_dec w x) as [->|NE]; [rewrite !upd_same; auto|rewrite !upd_other by auto; auto].
  - intros w NP. apply upd_other. intros ->. auto.
Qed.

Lemma assume_inv cs d : inv d -> (forall c, In c cs -> lc_pv c) ->
  inv (with_base d (s_assume cs (d_base d))).
Proof.
  intros I P. apply scalar_op_inv; auto.
  - intros E. simpl. rewrite E. reflexivity.
  - intros y NB N. simpl in N, NB. apply nt_d_add in N; auto. destruct N as [N|(c & Ic & Iy)]; auto.
    left. unfold lc_vars in Iy. apply in_map_iff in Iy. destruct Iy as ([k v] & E & J). simpl in E. subst v.
    eapply (P c Ic); eauto.
Qed.
Lemma assume_Ga cs d s mu : (forall c, In c cs -> wf_lc c /\ lc_pv c) -> Ga d (s, mu) ->
  (forall c, In c cs -> sat c s) -> Ga (with_base d (s_assume cs (d_base d))) (s, mu).
Proof.
  intros P HG SAT. apply (scalar_op_Ga d _ s); auto. intros s' G0 AP.
  exists s'. split; [|split]; auto.
  apply s_assume_sound; auto.
  - intros c I. destruct (P c I). split; auto. unfold lc_prog. apply le_pv_prog; auto.
  - intros c I. destruct (P c I) as [_ PV]. unfold sat. rewrite (eval_le_agree_pv (lc_exp c) s' s); auto.
    apply SAT; auto.
Qed.

Lemma forget1_scalar_inv x d : inv d -> inv (with_base d (s_forget1 (VS x) (d_base d))).
Proof.
  intros I. apply scalar_op_inv; auto.
  - apply s_forget1_bot.
  - intros y NB N. right. eapply s_forget1_VS_supp; eauto.
Qed.
Lemma forget1_scalar_Ga x d s s1 mu : is_pv x -> Ga d (s, mu) -> (forall y, y <> x -> s1 y = s y) ->
  Ga (with_base d (s_forget1 (VS x) (d_base d))) (s1, mu).
Proof.
  intros P HG H. apply (scalar_op_Ga d _ s); auto. intros s' G0 AP.
  exists (upd s' x (s1 x)). split; [|split].
  - apply (s_forget1_sound esz' one' (VS x) (d_base d) s' (lift mu)); simpl; auto.
    + apply pv_prog; auto.
    + intros y N. apply upd_other. congruence.
  - intros y Py. destruct (N.eq_dec y x) as [->|NE]; [apply upd_same|].
    rewrite upd_other by auto. rewrite H by auto. auto.
  - intros y NP. apply upd_other. intros ->. auto.
Qed.

Lemma expand_scalar_inv x y d : inv d -> is_pv y -> inv (with_base d (s_expand (VS x) (VS y) (d_base d))).
Proof.
  intros I P. apply scalar_op_inv; auto.
  - intros E. simpl. rewrite E. reflexivity.
  - intros w NB N. simpl in N, NB. apply nt_d_expand in N; auto. destruct N as [->|N]; auto.
Qed.
Lemma expand_scalar_Ga x y d s mu : is_pv x -> is_pv y -> Ga d (s, mu) ->
  Ga (with_base d (s_expand (VS x) (VS y) (d_base d))) (upd s y (s x), mu).
Proof.
  intros Px Py HG. apply (scalar_op_Ga d _ s); auto. intros s' G0 AP.
  exists (upd s' y (s' x)). split; [|split].
  - apply s_expand_scalar_sound; auto; apply pv_prog; auto.
  - rewrite (AP x Px). intros w Pw.
    destruct (N.eq_dec w y) as [->|NE]; [rewrite !upd_same; auto|rewrite !upd_other by auto; auto].
  - intros w NP. apply upd_other. intros ->. auto.
Qed.

(* a value whose base is top describes every state *)
Lemma Ga_of_top d c c1 : a_is_top d = true -> Ga d c -> Ga d c1.
Proof.
  intros TOP (s' & G0 & _). destruct c1 as [s1 mu1].
  assert (AT : forall x, is_top (e_at (a_base (d_base d)) x) = true).
  { intros x. apply e_is_top_at. exact TOP. }
  set (s1' := fun x => if is_progb x then cstore s1 mu1 x else s' x).
  exists s1'. cbn [fst snd]. split; [|split].
  - apply (G_mem_change _ _ (lift (snd c))).
    + apply (G_upd_tops _ s'); [destruct c; exact G0|]. intros x N. split; auto.
      unfold s1' in N. destruct (is_progb x) eqn:E; [apply is_progb_spec; auto|congruence].
    + intros b i v _. right. right. apply AT.
  - intros x P. unfold s1'. pose proof (pv_prog x P) as Q. apply is_progb_spec in Q. rewrite Q.
    apply cstore_pv; auto.
  - intros a o v AL O M. unfold s1'. pose proof (cgv_prog a o (esz a)) as Q. apply is_progb_spec in Q.
    rewrite Q. eapply cstore_cells; eauto.
Qed.

(* ---- forget / project of lists of variables ---- *)
Definition avar_pv (v : avar) : Prop := match v with VS x => is_pv x | VA _ => True end.

Definition fa_fold (vs : list avar) (d : adom) : adom :=
  fold_left (fun acc v => match v with VA a => forget_array a acc | VS _ => acc end) vs d.

Lemma fa_fold_inv vs : forall d, inv d -> inv (fa_fold vs d).
Proof.
  unfold fa_fold. induction vs as [|v r IH]; simpl; intros d I; auto.
  apply IH. destruct v; auto. apply forget_array_inv; auto.
Qed.

Lemma fa_fold_Ga vs s mu1 : forall d mu, inv d -> Ga d (s, mu) ->
  (forall a i, ~ In (VA a) vs -> mu1 a i = mu a i) -> Ga (fa_fold vs d) (s, mu1).
Proof.
  unfold fa_fold. induction vs as [|v r IH]; simpl; intros d mu I HG H.
  - destruct HG as (s' & G0 & AP & C). exists s'. cbn [fst snd] in *. split; [|split]; auto.
    + apply (G_mem_change _ _ (lift mu)); auto. intros b i v M. left. unfold lift in *.
      destruct (N.even b); auto. destruct (alignedb _ _); auto. rewrite <- (H (N.div2 b) i) by tauto. exact M.
    + intros a o v AL O M. rewrite H in M by tauto. eapply C; eauto.
  - destruct v as [x|a].
    + apply (IH d mu); auto. intros a i N. apply H. intros [E|J]; [discriminate|auto].
    + set (mu2 := fun b i => if N.eqb b a then mu1 b i else mu b i).
      apply (IH (forget_array a d) mu2).
      * apply forget_array_inv; auto.
      * apply (forget_array_Ga a d s mu mu2); auto. intros b i N. unfold mu2.
        destruct (N.eqb_spec b a); [congruence|auto].
      * intros b i N. unfold mu2. destruct (N.eqb_spec b a) as [->|NE]; auto.
        apply H. intros [E|J]; [inversion E; congruence|auto].
Qed.

Lemma forget_scalars_la vs b : (forall v, In v vs -> is_vs v = true) ->
  forall t k, la_at (a_la (s_forget vs b)) t = BConst k -> la_at (a_la b) t = BConst k.
Proof.
  intros H t k L. unfold s_forget in L. destruct (forget_scan vs (a_la b) []) as [l' rm] eqn:FS.
  destruct (forget_scan_gen _ _ _ _ _ FS) as [FA _]. apply (FA t k L).
Qed.

Lemma s_forget_supp vs b y : a_base (s_forget vs b) <> EBot -> nt (a_base (s_forget vs b)) y -> nt (a_base b) y.
Proof.
  unfold s_forget. destruct (forget_scan vs (a_la b) []) as [l' rm]. cbn [a_base].
  intros NB N. apply nt_d_forget in N; tauto.
Qed.
Lemma s_forget_bot vs b : a_base b = EBot -> a_base (s_forget vs b) = EBot.
Proof.
  unfold s_forget. destruct (forget_scan vs (a_la b) []) as [l' rm]. cbn [a_base]. intros ->. reflexivity.
Qed.

Lemma forget_inv vs d : inv d -> inv (a_forget vs d).
Proof.
  intros I. unfold a_forget. destruct (a_is_bottom d || a_is_top d); auto.
  pose proof (fa_fold_inv vs d I) as I1. fold (fa_fold vs d). set (d1 := fa_fold vs d) in *.
  destruct (a_base (s_forget (filter is_vs vs) (d_base d1))) as [|m'] eqn:EB'.
  { left. unfold a_is_bottom, s_is_bottom. cbn [with_base d_base]. rewrite EB'. auto. }
  assert (B : a_is_bottom d1 = false).
  { unfold a_is_bottom, s_is_bottom. destruct (a_base (d_base d1)) eqn:E; auto.
    rewrite s_forget_bot in EB' by auto. discriminate. }
  destruct (inv_nonbottom _ I1 B) as (W & T & U).
  apply inv_base; auto.
  - intros NB a0 o sz N. eapply s_forget_supp; eauto.
  - intros NB a0 k L. right. right. split.
    + eapply forget_scalars_la; eauto. intros v J. apply filter_In in J. tauto.
    + intros Y. eapply s_forget_supp; eauto.
Qed.

Lemma forget_Ga vs d s mu s1 mu1 : inv d -> (forall v, In v vs -> avar_pv v) -> Ga d (s, mu) ->
  (forall x, ~ In (VS x) vs -> s1 x = s x) -> (forall a i, ~ In (VA a) vs -> mu1 a i = mu a i) ->
  Ga (a_forget vs d) (s1, mu1).
Proof.
  intros I PV HG HS HM. unfold a_forget. destruct (a_is_top d) eqn:TOP.
  { rewrite orb_true_r. eapply Ga_of_top; eauto. }
  rewrite (Ga_not_bottom _ _ HG). cbn [orb]. fold (fa_fold vs d).
  pose proof (fa_fold_Ga vs s mu1 d mu I HG HM) as (s' & G0 & AP & C). cbn [fst snd] in *.
  exists (pmix s1 s'). cbn [with_base d_base fst snd]. split; [|split].
  - apply (s_forget_sound esz' one' _ _ s' (lift mu1)); auto. intros x N.
    destruct (is_pvb x) eqn:P.
    + unfold pmix. rewrite P. apply is_pvb_spec in P. rewrite (AP x P). apply HS.
      intros J. apply N. apply filter_In. split; auto.
    + apply pmix_other. intros Q. apply is_pvb_spec in Q. congruence.
  - apply pmix_pv.
  - apply pmix_cells; auto.
Qed.

Lemma forget1_inv v d : inv d -> inv (a_forget1 v d).
Proof.
  intros I. unfold a_forget1. destruct (a_is_bottom d); auto. destruct v as [x|a].
  - apply forget1_scalar_inv; auto.
  - apply forget_array_inv; auto.
Qed.

Lemma forget1_Ga v d s mu s1 mu1 : inv d -> avar_pv v -> Ga d (s, mu) ->
  (forall x, VS x <> v -> s1 x = s x) -> (forall a i, VA a <> v -> mu1 a i = mu a i) ->
  Ga (a_forget1 v d) (s1, mu1).
Proof.
  intros I PV HG HS HM. unfold a_forget1. rewrite (Ga_not_bottom _ _ HG). destruct v as [x|a].
  - assert (E : Ga (with_base d (s_forget1 (VS x) (d_base d))) (s1, mu)).
    { apply (forget1_scalar_Ga x d s s1 mu); auto. intros y N. apply HS. congruence. }
    destruct E as (s' & G0 & AP & C). exists s'. cbn [fst snd] in *. split; [|split]; auto.
    + apply (G_mem_change _ _ (lift mu)); auto. intros b i w M. left. unfold lift in *.
      destruct (N.even b); auto. destruct (alignedb _ _); auto. rewrite <- (HM (N.div2 b) i) by discriminate. exact M.
    + intros a o w AL O M. rewrite HM in M by discriminate. eapply C; eauto.
  - assert (E : Ga (forget_array a d) (s, mu1)).
    { apply (forget_array_Ga a d s mu mu1); auto. intros b i N. apply HM. congruence. }
    destruct E as (s' & G0 & AP & C). exists s'. cbn [fst snd] in *. split; [|split]; auto.
    intros x P. rewrite AP by auto. symmetry. apply HS. discriminate.
Qed.

(* ---- array_store_range / array_init ---- *)
Lemma d_eval_k i e : d_eval (le_k i) e = iconst i.
Proof. reflexivity. Qed.
Lemma isingleton_iconst i : isingleton (iconst i) = Some i.
Proof.
  unfold isingleton, iconst, is_bot, bgt. simpl. rewrite Z.leb_refl. simpl. rewrite Z.eqb_refl. reflexivity.
Qed.
Lemma szok_k d a : szok d a (le_k (esz a)).
Proof.
  intros k H. unfold check_elem_size in H. rewrite d_eval_k, isingleton_iconst in H.
  destruct (_ && _); inversion H; auto.
Qed.
Lemma idxok_k d a i : aligned (esz a) i -> idxok d a (le_k i).
Proof. intros AL n H. rewrite d_eval_k, isingleton_iconst in H. inversion H; subst; auto. Qed.
Lemma le_pv_k i : le_pv (le_k i).
Proof. intros c v []. Qed.
Lemma wf_le_k i : wf_le (le_k i).
Proof. split; [constructor|intros c v []]. Qed.
Lemma eval_le_k i s : eval_le (le_k i) s = i.
Proof. reflexivity. Qed.
Lemma aligned_step k i : 0 < k -> aligned k i -> aligned k (i + k).
Proof.
  intros K [P M]. split; [lia|]. rewrite <- Z.add_mod_idemp_r by lia. rewrite Z.mod_same by lia.
  rewrite Z.add_0_r. auto.
Qed.

(* the concrete range store: n cells i, i+step, ... get the value v *)
Fixpoint cwrite (mu : amem) (a : arr) (i step v : Z) (n : nat) : amem :=
  match n with
  | O => mu
  | S n' => cwrite (fun b o => if N.eqb b a && (o =? i) then Some v else mu b o) a (i + step) step v n'
  end.
Definition rcount (l u k : Z) : nat := if u <? l then O else Z.to_nat (Z.quot (u - l) k + 1).

Lemma cwrite_other mu a i step v n b o : b <> a -> cwrite mu a i step v n b o = mu b o.
Proof.
  revert mu i. induction n as [|n IH]; simpl; intros mu i N; auto.
  rewrite IH by auto. destruct (N.eqb_spec b a); [congruence|auto].
Qed.

Definition cells_len (d : adom) (a : arr) : Z :=
  match am_find (d_arrs d) a with Some st => Z.of_nat (length (as_map st)) | None => 0 end.
Definition arr_smashed (d : adom) (a : arr) : Prop :=
  exists st, am_find (d_arrs d) a = Some st /\ as_smashed st = true.
(* the cells of the range find room in the array *)
Definition room (d : adom) (a : arr) (n : Z) : Prop := arr_smashed d a \/ cells_len d a + n <= p_max_size p.

Lemma om_insert_length c m : (length (om_insert c m) <= S (length m))%nat.
Proof.
  induction m as [|h t IH]; simpl; auto. destruct (cell_eqb h c); simpl; [lia|].
  destruct (cell_ltb c h); simpl; lia.
Qed.
Lemma om_mk_length m o sz : (length (snd (om_mk m o sz)) <= S (length m))%nat.
Proof. unfold om_mk. destruct (om_get m o sz); simpl; [lia|apply om_insert_length]. Qed.

Lemma as_set_length old new : (length (as_map (as_set old new)) <= Nat.max (length (as_map old)) (length (as_map new)))%nat.
Proof. unfold as_set. destruct (as_eqb old new); lia. Qed.

(* a store at a constant aligned index into an array with room: the array keeps room *)
Lemma store_room a val i d d' n : inv d -> aligned (esz a) i -> room d a (n + 1) -> 0 <= n ->
  a_array_store p a (le_k (esz a)) (le_k i) val false d = Some d' -> room d' a n.
Proof.
  intros I AL R PN H. unfold a_array_store in H. destruct (a_is_bottom d) eqn:B.
  { inversion H; subst. destruct R as [R|R]; [left; auto|right; lia]. }
  destruct (check_elem_size _ _) as [k|] eqn:CK; [|discriminate]. cbn [obind] in H.
  rewrite (szok_k d a k CK) in *. clear k CK.
  destruct (lookup d a) as [st d1] eqn:LK.
  pose proof (lookup_inv _ _ _ _ LK I) as I1.
  destruct (lookup_spec _ _ _ _ LK) as (EB & EG & F & _ & FD).
  assert (B1 : a_is_bottom d1 = false) by (unfold a_is_bottom; rewrite EB; exact B).
  destruct (inv_nonbottom _ I1 B1) as (W & T & U).
  destruct (as_smashed st) eqn:S.
  - left. assert (X : am_find (d_arrs d') a = Some st).
    { destruct (size_consistent st (esz a)).
      - destruct (s_array_store _ _ _ _ _); [|discriminate]. inversion H; subst. exact F.
      - inversion H; subst. exact F. }
    exists st. auto.
  - assert (LEN : Z.of_nat (length (as_map st)) + (n + 1) <= p_max_size p).
    { destruct R as [(st0 & F0 & S0)|R].
      - destruct FD as [FD|[FD _]]; congruence.
      - unfold cells_len in R. destruct FD as [FD|[FD ->]]; rewrite FD in R; simpl in *; lia. }
    rewrite d_eval_k, isingleton_iconst in H.
    replace (Z.of_nat (length (as_map st)) <? p_max_size p) with true in H by (symmetry; apply Z.ltb_lt; lia).
    rewrite (wl_no_overlap (esz a) (as_map st) i (esz_pos a) (proj1 (W a st F)) AL) in H.
    cbn [kill] in H. inversion H; subst d'. right. unfold cells_len, set_arr. cbn [d_arrs].
    rewrite am_find_set_same, F.
    pose proof (as_set_length st (mkS false (as_esz st) (snd (om_mk (as_map st) i (esz a))))) as X.
    cbn [as_map] in X. pose proof (om_mk_length (as_map st) i (esz a)). lia.
Qed.

Lemma range_loop_inv a val : forall n i d d', inv d -> aligned (esz a) i ->
  range_loop p a (le_k (esz a)) val i (esz a) n d = Some d' -> inv d'.
Proof.
  induction n as [|n IH]; simpl; intros i d d' I AL H; [inversion H; subst; auto|].
  destruct (a_array_store p a (le_k (esz a)) (le_k i) val false d) as [d1|] eqn:ST; [|discriminate].
  cbn [obind] in H. apply (IH (i + esz a) d1 d'); auto.
  - eapply store_inv; eauto; [apply szok_k|apply idxok_k; auto].
  - apply aligned_step; auto.
Qed.

Lemma range_loop_Ga a val s : le_pv val -> forall n i d d' mu, inv d -> aligned (esz a) i ->
  room d a (Z.of_nat n) -> Ga d (s, mu) ->
  range_loop p a (le_k (esz a)) val i (esz a) n d = Some d' ->
  Ga d' (s, cwrite mu a i (esz a) (eval_le val s) n).
Proof.
  intros PV. induction n as [|n IH]; cbn [range_loop cwrite]; intros i d d' mu I AL R HG H;
    [inversion H; subst; auto|].
  destruct (a_array_store p a (le_k (esz a)) (le_k i) val false d) as [d1|] eqn:ST; [|discriminate].
  cbn [obind] in H.
  assert (R1 : room d a (Z.of_nat n + 1)) by (rewrite Nat2Z.inj_succ in R; replace (Z.of_nat n + 1) with (Z.succ (Z.of_nat n)) by lia; exact R).
  apply (IH (i + esz a) d1 d'); auto.
  - eapply store_inv; eauto; [apply szok_k|apply idxok_k; auto].
  - apply aligned_step; auto.
  - eapply store_room; eauto. lia.
  - apply (store_Ga a (le_k (esz a)) (le_k i) val false d d1 s mu); auto.
    + apply le_pv_k.
    + apply le_pv_k.
    + apply wf_le_k.
    + discriminate.
    + (* with room the store never takes the smashing path *)
      intros st F S NC _. exfalso. specialize (NC i). rewrite d_eval_k, isingleton_iconst in NC.
      specialize (NC eq_refl). destruct R1 as [(st0 & F0 & S0)|R1]; [congruence|].
      unfold cells_len in R1. rewrite F in R1. lia.
    + intros b o N. destruct (N.eqb_spec b a); [congruence|auto].
    + intros o. rewrite N.eqb_refl. rewrite eval_le_k. simpl. auto.
Qed.

(* static side condition of a range store / initialisation: constant element size; when the
   bounds are constants the lower one is aligned and the cells find room in the array *)
Definition range_ok (d : adom) (a : arr) (ez lb ub : linexp) : Prop :=
  ez = le_k (esz a) /\
  forall l u, isingleton (d_eval lb (a_base (d_base d))) = Some l ->
              isingleton (d_eval ub (a_base (d_base d))) = Some u -> l <= u ->
              aligned (esz a) l /\ Z.quot (u - l) (esz a) <= p_max_size p /\
              (a_is_bottom d = false -> room d a (Z.quot (u - l) (esz a) + 1)).

Lemma room_quot d a n : a_is_bottom d = false -> room d a (n + 1) -> 0 <= n ->
  arr_smashed d a \/ n < p_max_size p.
Proof.
  intros B [R|R] P; auto. right. unfold cells_len in R. destruct (am_find (d_arrs d) a); lia.
Qed.

Lemma store_range_reduce a lb ub val d d' l u :
  a_is_bottom d = false ->
  isingleton (d_eval lb (a_base (d_base d))) = Some l ->
  isingleton (d_eval ub (a_base (d_base d))) = Some u -> l <= u ->
  Z.quot (u - l) (esz a) <= p_max_size p ->
  a_array_store_range p a (le_k (esz a)) lb ub val d = Some d' ->
  range_loop p a (le_k (esz a)) val l (esz a) (rcount l u (esz a)) d = Some d'.
Proof.
  intros B SL SU LU Q H. unfold a_array_store_range in H. rewrite B in H.
  destruct (check_elem_size _ _) as [k|] eqn:CK; [|discriminate]. cbn [obind] in H.
  rewrite (szok_k d a k CK) in *. rewrite SL, SU in H.
  replace (u <? l) with false in H by (symmetry; apply Z.ltb_ge; lia).
  replace (p_max_size p <? Z.quot (u - l) (esz a)) with false in H by (symmetry; apply Z.ltb_ge; lia).
  replace (u <? l) with false in H by (symmetry; apply Z.ltb_ge; lia).
  unfold rcount. replace (u <? l) with false by (symmetry; apply Z.ltb_ge; lia).
  destruct (range_loop _ _ _ _ _ _ _ _) as [d1|]; [|discriminate]. cbn [obind] in H.
  rewrite Z.ltb_irrefl in H. exact H.
Qed.

Lemma store_range_inv a ez lb ub val d d' : inv d -> range_ok d a ez lb ub ->
  a_array_store_range p a ez lb ub val d = Some d' -> inv d'.
Proof.
  intros I [-> R] H. destruct (a_is_bottom d) eqn:B.
  { unfold a_array_store_range in H. rewrite B in H. inversion H; subst; auto. }
  destruct (isingleton (d_eval lb (a_base (d_base d)))) as [l|] eqn:SL.
  2:{ unfold a_array_store_range in H. rewrite B, SL in H. destruct (check_elem_size _ _); [|discriminate].
      cbn [obind] in H. inversion H; subst. apply forget_array_inv; auto. }
  destruct (isingleton (d_eval ub (a_base (d_base d)))) as [u|] eqn:SU.
  2:{ unfold a_array_store_range in H. rewrite B, SL, SU in H. destruct (check_elem_size _ _); [|discriminate].
      cbn [obind] in H. inversion H; subst. apply forget_array_inv; auto. }
  destruct (Z.ltb_spec u l) as [LT|GE].
  { unfold a_array_store_range in H. rewrite B, SL, SU in H. destruct (check_elem_size _ _); [|discriminate].
    cbn [obind] in H. replace (u <? l) with true in H by (symmetry; apply Z.ltb_lt; auto).
    inversion H; subst; auto. }
  destruct (R l u eq_refl eq_refl GE) as (AL & Q & RM).
  apply store_range_reduce with (l := l) (u := u) in H; auto.
  eapply range_loop_inv; eauto.
Qed.

Lemma store_range_Ga a ez lb ub val d d' s mu mu1 : inv d -> range_ok d a ez lb ub ->
  le_pv lb -> le_pv ub -> le_pv val -> Ga d (s, mu) ->
  (forall b o, mu1 b o = cwrite mu a (eval_le lb s) (esz a) (eval_le val s)
                                (rcount (eval_le lb s) (eval_le ub s) (esz a)) b o) ->
  a_array_store_range p a ez lb ub val d = Some d' -> Ga d' (s, mu1).
Proof.
  intros I [-> R] PL PU PV HG HM H. pose proof (Ga_not_bottom _ _ HG) as B.
  assert (SMB : same_mem_but a mu1 mu) by (intros b o N; rewrite HM; apply cwrite_other; auto).
  destruct (isingleton (d_eval lb (a_base (d_base d)))) as [l|] eqn:SL.
  2:{ unfold a_array_store_range in H. rewrite B, SL in H. destruct (check_elem_size _ _); [|discriminate].
      cbn [obind] in H. inversion H; subst. apply forget_array_Ga with (mu := mu); auto. }
  destruct (isingleton (d_eval ub (a_base (d_base d)))) as [u|] eqn:SU.
  2:{ unfold a_array_store_range in H. rewrite B, SL, SU in H. destruct (check_elem_size _ _); [|discriminate].
      cbn [obind] in H. inversion H; subst. apply forget_array_Ga with (mu := mu); auto. }
  assert (EL : eval_le lb s = l) by (destruct HG as (s' & G0 & AP & _); eapply G_singleton; eauto).
  assert (EU : eval_le ub s = u) by (destruct HG as (s' & G0 & AP & _); eapply G_singleton; eauto).
  rewrite EL, EU in HM.
  assert (EXT : forall mu2, (forall b o, mu1 b o = mu2 b o) -> Ga d' (s, mu2) -> Ga d' (s, mu1)).
  { intros mu2 E (s' & G0 & AP & C). exists s'. cbn [fst snd] in *. split; [|split]; auto.
    - apply (G_mem_change _ _ (lift mu2)); auto. intros b i v M. left. unfold lift in *.
      destruct (N.even b); auto. destruct (alignedb _ _); auto. rewrite <- E. auto.
    - intros a0 o v AL O M. rewrite E in M. eapply C; eauto. }
  destruct (Z.ltb_spec u l) as [LT|GE].
  { unfold a_array_store_range in H. rewrite B, SL, SU in H. destruct (check_elem_size _ _); [|discriminate].
    cbn [obind] in H. replace (u <? l) with true in H by (symmetry; apply Z.ltb_lt; auto).
    inversion H; subst d'. apply (EXT mu); auto. intros b o. rewrite HM. unfold rcount.
    replace (u <? l) with true by (symmetry; apply Z.ltb_lt; auto). reflexivity. }
  destruct (R l u eq_refl eq_refl GE) as (AL & Q & RM).
  apply store_range_reduce with (l := l) (u := u) in H; auto.
  apply (EXT _ HM). apply (range_loop_Ga a val s PV _ l d d' mu); auto.
  unfold rcount. replace (u <? l) with false by (symmetry; apply Z.ltb_ge; lia).
  rewrite Z2Nat.id; [apply RM; auto|]. pose proof (Z.quot_pos (u - l) (esz a)). pose proof (esz_pos a). lia.
Qed.

(* array_init: the old cells are killed, then the range is stored *)
Definition init_ok (d : adom) (a : arr) (ez lb ub : linexp) : Prop :=
  exists l u, lb = le_k l /\ ub = le_k u /\ range_ok d a ez lb ub.

Lemma filter_len {A} (f : A -> bool) l : (length (filter f l) <= length l)%nat.
Proof. induction l as [|h t IH]; simpl; auto. destruct (f h); simpl; lia. Qed.

Lemma kill_cells_length cells m : (length (kill_cells p cells m) <= length m)%nat.
Proof.
  unfold kill_cells. destruct (p_smashable p).
  - revert m. induction cells as [|c r IH]; simpl; intros m; auto.
    etransitivity; [apply IH|]. unfold om_remove. rewrite map_length. auto.
  - revert m. induction cells as [|c r IH]; simpl; intros m; auto.
    etransitivity; [apply IH|]. unfold om_erase. apply filter_len.
Qed.

Definition init_kill (a : arr) (st : astate) (d1 : adom) : adom :=
  if as_smashed st then d1 else
  match as_map st with
  | [] => d1
  | cells => let '(om1, b1, g1) := kill p a cells cells (d_base d1) (d_gh d1) in
             set_arr d1 a (mkS false (as_esz st) om1) b1 g1
  end.

Lemma init_kill_eq a st d1 : am_find (d_arrs d1) a = Some st ->
  init_kill a st d1 = d1 \/
  (as_smashed st = false /\
   init_kill a st d1 = set_arr d1 a (mkS false (as_esz st) (kill_cells p (as_map st) (as_map st)))
                               (forget_ghosts a (d_gh d1) (as_map st) (d_base d1))
                               (if p_smashable p then d_gh d1 else erase_ghosts a (as_map st) (d_gh d1))).
Proof.
  intros F. unfold init_kill. destruct (as_smashed st); auto. destruct (as_map st) as [|c r] eqn:E; auto.
Qed.

Lemma init_kill_inv a st d1 : inv d1 -> a_is_bottom d1 = false -> am_find (d_arrs d1) a = Some st ->
  inv (init_kill a st d1).
Proof.
  intros I B F. destruct (init_kill_eq a st d1 F) as [E|[S E]]; rewrite E; auto.
  destruct (inv_nonbottom _ I B) as (W & T & U). apply kill_store_inv; auto.
Qed.

Lemma init_kill_room a st d1 n : am_find (d_arrs d1) a = Some st -> room d1 a n -> room (init_kill a st d1) a n.
Proof.
  intros F R. destruct (init_kill_eq a st d1 F) as [E|[S E]]; rewrite E; auto.
  destruct R as [(st0 & F0 & S0)|R]; [congruence|]. right.
  unfold cells_len in *. rewrite F in R. unfold set_arr. cbn [d_arrs]. rewrite am_find_set_same, F.
  pose proof (as_set_length st (mkS false (as_esz st) (kill_cells p (as_map st) (as_map st)))) as X.
  cbn [as_map] in X. pose proof (kill_cells_length (as_map st) (as_map st)). lia.
Qed.

Lemma Ga_shrink d s mu mu0 : Ga d (s, mu) -> (forall b o v, mu0 b o = Some v -> mu b o = Some v) ->
  Ga d (s, mu0).
Proof.
  intros (s' & G0 & AP & C) H. exists s'. cbn [fst snd] in *. split; [|split]; auto.
  - apply (G_mem_change _ _ (lift mu)); auto. intros b i v M. left. unfold lift in *.
    destruct (N.even b); auto. destruct (alignedb _ _); auto.
  - intros a o v AL O M. eapply C; eauto.
Qed.

Lemma init_kill_Ga a st d1 s mu : inv d1 -> am_find (d_arrs d1) a = Some st -> Ga d1 (s, mu) ->
  Ga (init_kill a st d1) (s, mu).
Proof.
  intros I F HG. destruct (init_kill_eq a st d1 F) as [E|[S E]]; rewrite E; auto.
  destruct HG as (s' & G0 & AP & C). exists s'. unfold set_arr. cbn [d_base fst snd] in *.
  split; [|split]; auto. apply (forget_ghosts_sound _ _ _ _ s'); auto. intros x N. elim N. auto.
Qed.

Lemma array_init_unfold a ez lb ub val d : a_is_bottom d = false ->
  a_array_init p a ez lb ub val d =
  let '(st, d1) := lookup d a in a_array_store_range p a ez lb ub val (init_kill a st d1).
Proof.
  intros B. unfold a_array_init, init_kill. rewrite B. destruct (lookup d a) as [st d1]. reflexivity.
Qed.

Lemma range_ok_const d d2 a ez l u : range_ok d a ez (le_k l) (le_k u) ->
  (a_is_bottom d2 = false -> a_is_bottom d = false) ->
  (forall n, room d a n -> room d2 a n) -> range_ok d2 a ez (le_k l) (le_k u).
Proof.
  intros [E R] B RM. split; auto. intros l0 u0 H1 H2 LU. rewrite d_eval_k, isingleton_iconst in H1, H2.
  assert (X1 : isingleton (d_eval (le_k l) (a_base (d_base d))) = Some l0)
    by (rewrite d_eval_k, isingleton_iconst; auto).
  assert (X2 : isingleton (d_eval (le_k u) (a_base (d_base d))) = Some u0)
    by (rewrite d_eval_k, isingleton_iconst; auto).
  destruct (R l0 u0 X1 X2 LU) as (AL & Q & RR). split; auto.
Qed.

Lemma init_inv a ez lb ub val d d' : inv d -> init_ok d a ez lb ub ->
  a_array_init p a ez lb ub val d = Some d' -> inv d'.
Proof.
  intros I (l & u & -> & -> & R) H. destruct (a_is_bottom d) eqn:B.
  { unfold a_array_init in H. rewrite B in H. inversion H; subst; auto. }
  rewrite array_init_unfold in H by auto. destruct (lookup d a) as [st d1] eqn:LK.
  pose proof (lookup_inv _ _ _ _ LK I) as I1.
  destruct (lookup_spec _ _ _ _ LK) as (EB & EG & F & FO & FD).
  assert (B1 : a_is_bottom d1 = false) by (unfold a_is_bottom; rewrite EB; exact B).
  eapply store_range_inv; [| |exact H].
  - apply init_kill_inv; auto.
  - apply (range_ok_const d); auto. intros n RM. apply init_kill_room; auto.
    destruct RM as [(st0 & F0 & S0)|RM].
    + left. exists st0. destruct FD as [FD|[FD _]]; [|congruence]. rewrite FD in F0. inversion F0; subst. auto.
    + right. unfold cells_len in *. rewrite F. destruct FD as [FD|[FD ->]]; rewrite FD in RM; simpl; auto.
Qed.

Lemma init_Ga a ez lb ub val d d' s mu mu1 : inv d -> init_ok d a ez lb ub -> le_pv val -> Ga d (s, mu) ->
  (forall b o, mu1 b o = cwrite (fun b' o' => if N.eqb b' a then None else mu b' o') a (eval_le lb s) (esz a)
                                (eval_le val s) (rcount (eval_le lb s) (eval_le ub s) (esz a)) b o) ->
  a_array_init p a ez lb ub val d = Some d' -> Ga d' (s, mu1).
Proof.
  intros I (l & u & -> & -> & R) PV HG HM H. pose proof (Ga_not_bottom _ _ HG) as B.
  rewrite array_init_unfold in H by auto. destruct (lookup d a) as [st d1] eqn:LK.
  pose proof (lookup_inv _ _ _ _ LK I) as I1. pose proof (lookup_Ga _ _ _ _ _ LK HG) as HG1.
  destruct (lookup_spec _ _ _ _ LK) as (EB & EG & F & FO & FD).
  assert (B1 : a_is_bottom d1 = false) by (unfold a_is_bottom; rewrite EB; exact B).
  set (mu0 := fun b' o' => if N.eqb b' a then None else mu b' o') in *.
  apply (store_range_Ga a ez (le_k l) (le_k u) val (init_kill a st d1) d' s mu0 mu1); auto.
  - apply init_kill_inv; auto.
  - apply (range_ok_const d); auto. intros n RM. apply init_kill_room; auto.
    destruct RM as [(st0 & F0 & S0)|RM].
    + left. exists st0. destruct FD as [FD|[FD _]]; [|congruence]. rewrite FD in F0. inversion F0; subst. auto.
    + right. unfold cells_len in *. rewrite F. destruct FD as [FD|[FD ->]]; rewrite FD in RM; simpl; auto.
  - apply le_pv_k.
  - apply le_pv_k.
  - apply (Ga_shrink _ s mu); [apply init_kill_Ga; auto|].
    intros b o v M. unfold mu0 in M. destruct (N.eqb b a); [discriminate|auto].
Qed.

(* ---- array_assign ---- *)
Lemma am_set_absent m a st : am_find m a = None -> am_set m a st = (a, st) :: m.
Proof. intros H. unfold am_set. rewrite H. auto. Qed.

(* a new array enters the array map *)
Lemma inv_add d2 a st' b' g' :
  Wf d2 -> Tidy d2 -> Usum d2 -> am_find (d_arrs d2) a = None ->
  (wl (esz a) (as_map st') /\ live (as_map st')) ->
  (forall a0, a0 <> a -> forall o sz, gh_has g' a0 o sz = true <-> gh_has (d_gh d2) a0 o sz = true) ->
  (a_base b' <> EBot -> forall a0 o sz, 0 <= o -> 0 < sz -> nt (a_base b') (cgv a0 o sz) ->
     (a0 <> a /\ nt (a_base (d_base d2)) (cgv a0 o sz)) \/
     tracked_cell (mkD b' (am_set (d_arrs d2) a st') g') a0 o sz) ->
  (a_base b' <> EBot -> forall a0 k, la_at (a_la b') (sa a0) = BConst k ->
     (a0 = a /\ (as_smashed st' = true \/ is_top (e_at (a_base b') (ghost (sa a0))) = true)) \/
     (a0 <> a /\ la_at (a_la (d_base d2)) (sa a0) = BConst k /\
      (nt (a_base b') (ghost (sa a0)) -> nt (a_base (d_base d2)) (ghost (sa a0))))) ->
  inv (mkD b' (am_set (d_arrs d2) a st') g').
Proof.
  intros W T U F WS GH TS US. rewrite (am_set_absent _ _ _ F) in *.
  destruct (a_base b') as [|m'] eqn:EB; [left; unfold a_is_bottom, s_is_bottom; cbn [d_base]; rewrite EB; auto|].
  right. assert (NB : EMap m' <> EBot) by discriminate. split; [|split].
  - intros a0 st0 F0. cbn [d_arrs am_find] in F0. destruct (N.eqb_spec a a0) as [->|N].
    + inversion F0; subst. auto.
    + eauto.
  - intros a0 o sz H1 H2 N. cbn [d_base] in N. rewrite EB in N.
    destruct (TS NB a0 o sz H1 H2 N) as [[NA N0]|X]; auto.
    destruct (T a0 o sz H1 H2 N0) as (st0 & F0 & S0 & C0 & G0).
    exists st0. cbn [d_arrs d_gh am_find]. destruct (N.eqb_spec a a0); [congruence|].
    split; auto. split; auto. split; auto. apply GH; auto.
  - intros a0 k L. cbn [d_base d_arrs] in *. rewrite EB.
    destruct (US NB a0 k L) as [[-> [S|X]]|(NA & L0 & NT)].
    + left. exists st'. simpl. rewrite N.eqb_refl. auto.
    + right. auto.
    + destruct (U a0 k L0) as [(st0 & F0 & S0)|X].
      * left. exists st0. simpl. destruct (N.eqb_spec a a0); [congruence|auto].
      * right. destruct (is_top_nt (EMap m') (ghost (sa a0))) as [Y|Y]; auto.
        apply NT in Y. unfold nt in Y. congruence.
Qed.

Section Assign.
Variables lhs rhs : arr.
Hypothesis NE : lhs <> rhs.

Definition asg_base (cells : list cell) (b : ast) : ast :=
  fold_left (fun acc c => s_assign (cgc lhs c) (le_var (cgc rhs c)) acc) cells b.
Definition asg_gh (cells : list cell) (g : gmap_t) : gmap_t :=
  fold_left (fun acc c => gh_insert acc lhs (c_off c) (c_size c)) cells g.
Definition asg_om (cells : list cell) (m : omap) : omap :=
  fold_left (fun acc c => snd (om_mk acc (c_off c) (c_size c))) cells m.
Definition asg_store (cells : list cell) (s' : store) : store :=
  fold_left (fun acc c => upd acc (cgc lhs c) (acc (cgc rhs c))) cells s'.

Lemma asg_base_la cells : forall b, a_la (asg_base cells b) = a_la b.
Proof. unfold asg_base. induction cells as [|c r IH]; simpl; intros b; auto. rewrite IH. auto. Qed.
Lemma asg_base_bot cells : forall b, a_base b = EBot -> a_base (asg_base cells b) = EBot.
Proof.
  unfold asg_base. induction cells as [|c r IH]; simpl; intros b E; auto. apply IH. simpl. rewrite E.
  apply d_assign_bot.
Qed.
Lemma asg_base_supp cells : forall b y, a_base (asg_base cells b) <> EBot -> nt (a_base (asg_base cells b)) y ->
  (exists c, In c cells /\ y = cgc lhs c) \/ nt (a_base b) y.
Proof.
  unfold asg_base. induction cells as [|c r IH]; simpl; intros b y NB N; auto.
  destruct (IH _ _ NB N) as [(c' & I & E)|X]; [left; eauto|].
  apply s_assign_supp in X.
  - destruct X as [->|X]; [left; eauto|auto].
  - intros E. apply NB. apply (asg_base_bot r). exact E.
Qed.

Lemma asg_gh_has cells : forall g b o sz, gh_has (asg_gh cells g) b o sz = true <->
  (b = lhs /\ exists c, In c cells /\ c_off c = o /\ c_size c = sz) \/ gh_has g b o sz = true.
Proof.
  unfold asg_gh. induction cells as [|c r IH]; simpl; intros g b o sz.
  - split; auto. intros [(_ & c & [] & _)|H]; auto.
  - rewrite IH, gh_has_insert. split.
    + intros [(E & c' & I & E1 & E2)|[(E & E1 & E2)|H]]; auto.
      * left. split; auto. exists c'. auto.
      * left. split; auto. exists c. auto.
    + intros [(E & c' & [<-|I] & E1 & E2)|H].
      * right. left. auto.
      * left. split; auto. exists c'. auto.
      * auto.
Qed.

Lemma asg_om_in cells : forall m x, In x (asg_om cells m) ->
  In x m \/ exists c, In c cells /\ x = mkC (c_off c) (c_size c) false.
Proof.
  unfold asg_om. induction cells as [|c r IH]; simpl; intros m x H; auto.
  destruct (IH _ _ H) as [J|(c' & I & E)]; [|right; eauto].
  apply in_om_mk in J. destruct J as [J| ->]; auto. right. exists c. auto.
Qed.
Lemma asg_om_has cells : forall m c, In c cells ->
  exists x, In x (asg_om cells m) /\ c_off x = c_off c /\ c_size x = c_size c.
Proof.
  unfold asg_om.
  assert (K : forall l m0 y, In y m0 -> In y (fold_left (fun acc c => snd (om_mk acc (c_off c) (c_size c))) l m0)).
  { induction l as [|h t IHl]; simpl; intros m0 y J; auto. apply IHl. apply in_om_mk_old. auto. }
  induction cells as [|c0 r IH]; intros m c I; [destruct I|]. simpl. destruct I as [<-|I].
  - destruct (in_om_mk_new m (c_off c0) (c_size c0)) as (x & Ix & E1 & E2). exists x. split; auto.
  - apply IH. auto.
Qed.

Lemma asg_sound cells : forall b s' mu', G' b (s', mu') -> G' (asg_base cells b) (asg_store cells s', mu').
Proof.
  unfold asg_base, asg_store. induction cells as [|c r IH]; simpl; intros b s' mu' HG; auto.
  apply IH. pose proof (s_assign_sound esz' one' (cgc lhs c) (le_var (cgc rhs c)) b s' mu' HG (cgv_prog _ _ _)) as X.
  rewrite eval_le_var in X. apply X. intros c0 v0 [E|[]]. inversion E; subst. apply cgv_prog.
Qed.

Lemma asg_store_spec cells : (forall c, In c cells -> 0 <= c_off c /\ 0 < c_size c) ->
  forall s', (forall x, (forall c, In c cells -> x <> cgc lhs c) -> asg_store cells s' x = s' x) /\
             (forall c, In c cells -> asg_store cells s' (cgc lhs c) = s' (cgc rhs c)).
Proof.
  intros POS.
  assert (DIFF : forall c c', In c cells -> In c' cells -> cgc rhs c' <> cgc lhs c).
  { intros c c' I I' E. unfold cgc in E. destruct (POS c I), (POS c' I').
    apply cgv_inj in E; [destruct E as (E & _); congruence|lia|lia|lia|lia]. }
  unfold asg_store. revert POS DIFF. induction cells as [|c r IH]; intros POS DIFF s'; simpl.
  - split; auto. intros c [].
  - assert (POS' : forall c0, In c0 r -> 0 <= c_off c0 /\ 0 < c_size c0) by (intros; apply POS; simpl; auto).
    assert (DIFF' : forall c0 c', In c0 r -> In c' r -> cgc rhs c' <> cgc lhs c0) by (intros; apply DIFF; simpl; auto).
    destruct (IH POS' DIFF' (upd s' (cgc lhs c) (s' (cgc rhs c)))) as [A B]. split.
    + intros x H. rewrite A by (intros c0 I0; apply H; auto). apply upd_other. apply H. auto.
    + intros c0 [<-|I0].
      * destruct (in_dec N.eq_dec (cgc lhs c) (map (cgc lhs) r)) as [J|NJ].
        -- apply in_map_iff in J. destruct J as (c1 & E1 & I1). pose proof (B c1 I1) as X.
           rewrite E1 in X. rewrite X. rewrite upd_other by (apply DIFF; simpl; auto).
           (* the same ghost of lhs: the same cell key, hence the same ghost of rhs *)
           unfold cgc in E1. destruct (POS c (or_introl eq_refl)), (POS c1 (or_intror I1)).
           apply cgv_inj in E1; [|lia|lia|lia|lia]. destruct E1 as (_ & E2 & E3). unfold cgc. rewrite E2, E3. auto.
        -- rewrite A; [apply upd_same|]. intros c1 I1 E. apply NJ. rewrite E. apply in_map. auto.
      * rewrite B by auto. apply upd_other. apply DIFF; simpl; auto.
Qed.

End Assign.

Definition layout_ok (lhs rhs : arr) : Prop :=
  esz lhs = esz rhs /\ forall i, cell_ok onecell lhs i -> cell_ok onecell rhs i.

Lemma assign_unfold lhs rhs d : a_is_bottom d = false -> lhs <> rhs ->
  a_array_assign p lhs rhs d =
  let d1 := forget_array lhs d in
  let '(st, d2) := lookup d1 rhs in
  if negb (as_smashed st) then
    let cells := filter (gh_hasc (d_gh d2) rhs) (as_map st) in
    mkD (asg_base lhs rhs cells (d_base d2)) (am_set (d_arrs d2) lhs (mkS false (as_esz st) (asg_om cells [])))
        (asg_gh lhs cells (d_gh d2))
  else if p_smashable p then
    mkD (s_array_assign (sa lhs) (sa rhs) (d_base d2)) (am_set (d_arrs d2) lhs st) (d_gh d2)
  else d2.
Proof.
  intros B N. unfold a_array_assign. rewrite B. destruct (N.eqb_spec lhs rhs); [congruence|]. reflexivity.
Qed.

Lemma s_array_assign_bot l r b : a_base b = EBot -> a_base (s_array_assign l r b) = EBot.
Proof.
  intros E. unfold s_array_assign. destruct (la_at (a_la b) r); try (apply s_forget1_bot; auto).
  cbn [a_base]. rewrite E. apply d_assign_bot.
Qed.

Lemma forget_array_absent a d : am_find (d_arrs (forget_array a d)) a = None /\
  (forall o sz, gh_has (d_gh (forget_array a d)) a o sz = false).
Proof.
  unfold forget_array. destruct (lookup d a) as [st d1]. cbn [d_arrs d_gh]. split.
  - apply am_find_remove_same.
  - intros o sz. destruct (gh_has _ a o sz) eqn:E; auto. apply gh_has_erase_all in E. tauto.
Qed.

Lemma arr_assign_inv lhs rhs d : inv d -> layout_ok lhs rhs -> inv (a_array_assign p lhs rhs d).
Proof.
  intros I [SZ LO]. destruct (a_is_bottom d) eqn:B; [unfold a_array_assign; rewrite B; auto|].
  destruct (N.eq_dec lhs rhs) as [E|NE]; [unfold a_array_assign; rewrite B; subst; rewrite N.eqb_refl; auto|].
  rewrite assign_unfold by auto. cbv zeta.
  pose proof (forget_array_inv lhs d I) as I1. destruct (forget_array_absent lhs d) as [AB GB].
  set (d1 := forget_array lhs d) in *.
  destruct (lookup d1 rhs) as [st d2] eqn:LK.
  pose proof (lookup_inv _ _ _ _ LK I1) as I2.
  destruct (lookup_spec _ _ _ _ LK) as (EB & EG & F & FO & FD).
  assert (AB2 : am_find (d_arrs d2) lhs = None) by (rewrite FO by auto; exact AB).
  destruct (a_is_bottom d2) eqn:B2.
  { (* the base value is bottom: so is the result *)
    assert (E2 : a_base (d_base d2) = EBot).
    { unfold a_is_bottom, s_is_bottom in B2. destruct (a_base (d_base d2)); [auto|discriminate]. }
    destruct (negb (as_smashed st)); [|destruct (p_smashable p); auto]; left;
      unfold a_is_bottom, s_is_bottom; cbn [d_base].
    - rewrite asg_base_bot; auto.
    - rewrite s_array_assign_bot; auto. }
  destruct (inv_nonbottom _ I2 B2) as (W & T & U).
  destruct (as_smashed st) eqn:S; cbn [negb].
  - destruct (p_smashable p); auto.
    apply (inv_add d2 lhs st); auto.
    + destruct (W rhs st F) as [WL LV]. rewrite SZ. auto.
    + tauto.
    + intros NB a0 o sz H1 H2 N. destruct (N.eq_dec a0 lhs) as [->|NA].
      * exfalso. assert (X : nt (a_base (d_base d2)) (cgv lhs o sz)).
        { unfold s_array_assign in N, NB. destruct (la_at (a_la (d_base d2)) (sa rhs)); cbn [a_base] in N, NB.
          - eapply s_forget1_VA_supp; eauto.
          - apply nt_d_assign in N; auto. destruct N as [N|N]; auto. elim (ghost_neq_cgv _ _ _ _ (eq_sym N)).
          - eapply s_forget1_VA_supp; eauto. }
        destruct (T lhs o sz H1 H2 X) as (st0 & F0 & _). congruence.
      * left. split; auto. unfold s_array_assign in N, NB.
        destruct (la_at (a_la (d_base d2)) (sa rhs)); cbn [a_base] in N, NB.
        -- eapply s_forget1_VA_supp; eauto.
        -- apply nt_d_assign in N; auto. destruct N as [N|N]; auto. elim (ghost_neq_cgv _ _ _ _ (eq_sym N)).
        -- eapply s_forget1_VA_supp; eauto.
    + intros NB a0 k L. destruct (N.eq_dec a0 lhs) as [->|NA]; [left; auto|].
      right. split; auto. assert (NS : sa a0 <> sa lhs) by (intros E; apply sa_inj in E; auto).
      unfold s_array_assign in *. destruct (la_at (a_la (d_base d2)) (sa rhs)) eqn:LR; cbn [a_base a_la] in *.
      * rewrite s_forget1_VA_la in L by auto. split; auto. intros Y. eapply s_forget1_VA_supp; eauto.
      * rewrite la_at_set_other in L by auto. split; auto. intros Y. apply nt_d_assign in Y; auto.
        destruct Y as [Y|Y]; auto. apply ghost_inj in Y. congruence.
      * rewrite s_forget1_VA_la in L by auto. split; auto. intros Y. eapply s_forget1_VA_supp; eauto.
  - set (cells := filter (gh_hasc (d_gh d2) rhs) (as_map st)).
    destruct (W rhs st F) as [WL LV].
    assert (CS : forall c, In c cells -> In c (as_map st) /\ gh_hasc (d_gh d2) rhs c = true).
    { intros c J. apply filter_In in J. auto. }
    apply (inv_add d2 lhs (mkS false (as_esz st) (asg_om cells []))); auto.
    + cbn [as_map]. split.
      * intros x J. apply asg_om_in in J. destruct J as [[]|(c & Ic & ->)]. simpl. rewrite SZ. apply WL. apply CS; auto.
      * intros x J. apply asg_om_in in J. destruct J as [[]|(c & Ic & ->)]. reflexivity.
    + intros a0 NA o sz. rewrite asg_gh_has. split; auto. intros [(E & _)|H]; [congruence|auto].
    + intros NB a0 o sz H1 H2 N. apply asg_base_supp in N; auto.
      destruct N as [(c & Ic & E)|N].
      * right. unfold cgc in E. destruct (CS c Ic) as [Jc Gc]. destruct (WL c Jc) as [S1 [P1 _]].
        apply cgv_inj in E; [|lia|lia|lia|pose proof (esz_pos rhs); lia]. destruct E as (-> & -> & ->).
        exists (mkS false (as_esz st) (asg_om cells [])). cbn [d_arrs d_gh].
        rewrite am_find_set_same, AB2. split; auto. split; auto. split.
        -- cbn [as_map]. apply asg_om_has; auto.
        -- apply asg_gh_has. left. split; auto. exists c. auto.
      * destruct (N.eq_dec a0 lhs) as [->|NA]; auto.
        exfalso. destruct (T lhs o sz H1 H2 N) as (st0 & F0 & _). congruence.
    + intros NB a0 k L. rewrite asg_base_la in L. destruct (N.eq_dec a0 lhs) as [->|NA].
      * left. split; auto. right. destruct (U lhs k L) as [(st0 & F0 & _)|X]; [congruence|].
        destruct (is_top_nt (a_base (asg_base lhs rhs cells (d_base d2))) (ghost (sa lhs))) as [Y|Y]; auto.
        apply asg_base_supp in Y; auto. destruct Y as [(c & _ & E)|Y]; [elim (ghost_neq_cgv _ _ _ _ E)|].
        unfold nt in Y. congruence.
      * right. split; auto. split; auto. intros Y. apply asg_base_supp in Y; auto.
        destruct Y as [(c & _ & E)|Y]; [elim (ghost_neq_cgv _ _ _ _ E)|auto].
Qed.

Lemma arr_assign_Ga lhs rhs d s mu mu1 : inv d -> layout_ok lhs rhs -> Ga d (s, mu) ->
  same_mem_but lhs mu1 mu -> (forall i, mu1 lhs i = mu rhs i) ->
  Ga (a_array_assign p lhs rhs d) (s, mu1).
Proof.
  intros I [SZ LO] HG HM HL. pose proof (Ga_not_bottom _ _ HG) as B.
  destruct (N.eq_dec lhs rhs) as [E|NE].
  { unfold a_array_assign. rewrite B. subst. rewrite N.eqb_refl.
    destruct HG as (s' & G0 & AP & C). exists s'. cbn [fst snd] in *. split; [|split]; auto.
    - apply (G_mem_change _ _ (lift mu)); auto. intros b i v M. left. unfold lift in *.
      destruct (N.even b); auto. destruct (alignedb _ _); auto.
      destruct (N.eq_dec (N.div2 b) rhs) as [Q|N]; [rewrite Q in *; rewrite <- HL; auto|rewrite <- HM; auto].
    - intros a o v AL O M. destruct (N.eq_dec a rhs) as [->|N]; [rewrite HL in M|rewrite HM in M by auto]; eapply C; eauto. }
  rewrite assign_unfold by auto. cbv zeta.
  pose proof (forget_array_inv lhs d I) as I1.
  pose proof (forget_array_Ga lhs d s mu mu1 I HG HM) as HG1.
  destruct (forget_array_absent lhs d) as [AB GB].
  set (d1 := forget_array lhs d) in *.
  destruct (lookup d1 rhs) as [st d2] eqn:LK.
  pose proof (lookup_inv _ _ _ _ LK I1) as I2. pose proof (lookup_Ga _ _ _ _ _ LK HG1) as HG2.
  destruct (lookup_spec _ _ _ _ LK) as (EB & EG & F & FO & FD).
  destruct (inv_of_Ga _ _ I2 HG2) as (W & T & U).
  destruct HG2 as (s' & G0 & AP & C). cbn [fst snd] in *.
  destruct (as_smashed st) eqn:S; cbn [negb].
  - destruct (p_smashable p); [|exists s'; auto].
    exists s'. cbn [d_base fst snd]. split; [|split]; auto.
    apply (s_array_assign_sound esz' one' (sa lhs) (sa rhs) (d_base d2) s' (lift mu1) (lift mu1)); auto.
    + split; [rewrite !esz'_sa; auto|]. intros i O. apply cell_ok_sa. apply LO. apply cell_ok_sa. auto.
    + intros t' i N. auto.
    + intros i. rewrite !lift_sa, SZ, HL. destruct (alignedb (esz rhs) i); auto.
      symmetry. apply HM. auto.
  - set (cells := filter (gh_hasc (d_gh d2) rhs) (as_map st)).
    destruct (W rhs st F) as [WL LV].
    assert (CS : forall c, In c cells -> In c (as_map st)) by (intros c J; apply filter_In in J; tauto).
    assert (POS : forall c, In c cells -> 0 <= c_off c /\ 0 < c_size c).
    { intros c J. destruct (WL c (CS c J)) as [S1 [P1 _]]. pose proof (esz_pos rhs). lia. }
    destruct (asg_store_spec lhs rhs NE cells POS s') as [SA SB].
    exists (asg_store lhs rhs cells s'). cbn [d_base fst snd]. split; [|split].
    + apply asg_sound. auto.
    + intros x P. rewrite SA; auto. intros c _ E. unfold cgc in E. subst x. eapply cgv_not_pv; eauto.
    + intros a o v AL O M.
      destruct (in_dec N.eq_dec (cgv a o (esz a)) (map (cgc lhs) cells)) as [J|NJ].
      * apply in_map_iff in J. destruct J as (c & E & Ic). rewrite <- E. rewrite SB by auto.
        unfold cgc in E. destruct (POS c Ic). pose proof (esz_pos a).
        apply cgv_inj in E; [|lia|lia|eapply aligned_nonneg; eauto|lia]. destruct E as (<- & E1 & E2).
        (* the cell of lhs holds what the same cell of rhs holds *)
        rewrite HL in M. unfold cgc. rewrite E1. destruct (WL c (CS c Ic)) as [S1 _].
        rewrite S1. rewrite SZ in AL. apply (C rhs o v AL (LO o O)). rewrite HM by auto. exact M.
      * rewrite SA; [eapply C; eauto|]. intros c Ic E. apply NJ. rewrite E. apply in_map. auto.
Qed.

(* ---- lattice operations: smashing one side (array_state::smash_array) ---- *)
Lemma smash_finish_inv d1 a st eo b2 :
  Wf d1 -> Tidy d1 -> Usum d1 -> am_find (d_arrs d1) a = Some st -> as_smashed st = false ->
  (forall t', t' <> sa a -> la_at (a_la b2) t' = la_at (a_la (d_base d1)) t') ->
  (forall y, a_base b2 <> EBot -> nt (a_base b2) y -> y = ghost (sa a) \/ nt (a_base (d_base d1)) y) ->
  inv (mkD (forget_ghosts a (d_gh d1) (as_map st) b2) (am_set (d_arrs d1) a (mkS true eo []))
           (erase_ghosts a (as_map st) (d_gh d1))).
Proof.
  intros W T U F S M1 M2.
  set (cells := as_map st) in *. set (st' := mkS true eo []).
  assert (AS : as_set st st' = st') by (apply as_set_smashed; rewrite S; discriminate).
  assert (SUPP : forall y, a_base (forget_ghosts a (d_gh d1) cells b2) <> EBot ->
            nt (a_base (forget_ghosts a (d_gh d1) cells b2)) y ->
            ~ forgotten a (d_gh d1) cells y /\ (y = ghost (sa a) \/ nt (a_base (d_base d1)) y)).
  { intros y NB N. apply forget_ghosts_nt in N; auto. destruct N as [N NF]. split; auto.
    assert (NB2 : a_base b2 <> EBot) by (intros E; apply NB; apply forget_ghosts_bot; auto).
    apply M2; auto. }
  apply (inv_update d1 a st st'); auto.
  - rewrite AS. split; intros c [].
  - intros a0 N o sz. rewrite gh_has_erase_ghosts. split; [tauto|]. intros H. split; auto. intros (E & _). congruence.
  - intros NB a0 o sz H1 H2 N. destruct (SUPP _ NB N) as [NF [X|X]]; [elim (ghost_neq_cgv _ _ _ _ (eq_sym X))|].
    destruct (N.eq_dec a0 a) as [->|NA]; auto. exfalso.
    destruct (T a o sz H1 H2 X) as (st0 & F0 & S0 & (c & I & E1 & E2) & GH).
    rewrite F in F0. inversion F0; subst st0. apply NF. exists c. split; auto.
    unfold gh_hasc, cgc. rewrite E1, E2. auto.
  - intros NB a0 k L. rewrite forget_ghosts_la in L. destruct (N.eq_dec a0 a) as [->|NA].
    + left. split; auto. left. rewrite AS. reflexivity.
    + right. split; auto. assert (NS : sa a0 <> sa a) by (intros E; apply sa_inj in E; auto).
      rewrite M1 in L by auto. split; auto.
      intros Y. destruct (SUPP _ NB Y) as [_ [X|X]]; auto. apply ghost_inj in X. congruence.
Qed.

(* smash_other_loop is smash_loop on the cells before the first one that cannot be smashed *)
Lemma smash_other_loop_prefix a k g : forall cells first b ok b1,
  (forall c, In c cells -> c_size c = esz a) ->
  smash_other_loop a k g first cells b = Some (ok, b1) ->
  exists pre, (ok = true -> pre = cells) /\ (forall c, In c pre -> In c cells) /\
              smash_loop (sa a) (le_k (esz a)) a g first pre b = Some (false, b1).
Proof.
  assert (NIL : forall cells first b, exists pre : list cell, (false = true -> pre = cells) /\
            (forall c, In c pre -> In c cells) /\
            smash_loop (sa a) (le_k (esz a)) a g first pre b = Some (false, b)).
  { intros cells first b. exists nil. split; [discriminate|]. split; [intros c F; destruct F|reflexivity]. }
  induction cells as [|c r IH]; intros first b ok b1 SZ H; cbn [smash_other_loop] in H.
  - inversion H; subst. exists nil. split; auto.
  - destruct (negb ((0 <=? c_off c) && (c_off c mod k =? 0))).
    { inversion H; subst. apply NIL. }
    destruct (gh_hasc g a c) eqn:GH.
    2:{ inversion H; subst. apply NIL. }
    rewrite (SZ c (or_introl eq_refl)) in H.
    destruct (s_array_store (sa a) (le_k (esz a)) (le_var (cgc a c)) first b) as [b'|] eqn:ST; [|discriminate].
    cbn [obind] in H. destruct (IH false b' ok b1) as (pre & P1 & P2 & P3); auto.
    { intros c0 I0. apply SZ. simpl. auto. }
    exists (c :: pre). split; [intros X; rewrite P1; auto|]. split.
    + intros c0 [<-|I0]; simpl; auto.
    + simpl. rewrite GH, ST. cbn [obind]. exact P3.
Qed.

(* one side of array_state::join: the state is smashed with the element size of the other
   side, or left alone *)
Definition side_step (a : arr) (st : astate) (other : astate) (g : gmap_t) (b : ast)
  : option (astate * gmap_t * ast) :=
  if negb (as_smashed st) && as_smashed other then smash_array p a (as_esz other) st g b
  else Some (st, g, b).

Lemma sides_steps a x y gl bl gr br x' y' gl1 bl1 gr1 br1 :
  sides p a x y gl bl gr br = Some (x', y', (gl1, bl1), (gr1, br1)) ->
  side_step a x y gl bl = Some (x', gl1, bl1) /\ side_step a y x gr br = Some (y', gr1, br1).
Proof.
  unfold sides, side_step. destruct (as_smashed x), (as_smashed y); simpl; intros H.
  - inversion H; subst; auto.
  - destruct (smash_array p a (as_esz x) y gr br) as [[[y0 g0] b0]|]; [|discriminate].
    simpl in H. inversion H; subst; auto.
  - destruct (smash_array p a (as_esz y) x gl bl) as [[[x0 g0] b0]|]; [|discriminate].
    simpl in H. inversion H; subst; auto.
  - inversion H; subst; auto.
Qed.

Lemma side_step_spec dv a st other st' g1 b1 :
  inv dv -> a_is_bottom dv = false -> am_find (d_arrs dv) a = Some st ->
  side_step a st other (d_gh dv) (d_base dv) = Some (st', g1, b1) ->
  inv (mkD b1 (am_set (d_arrs dv) a st') g1) /\
  (st' = st \/ (as_smashed st = false /\ as_smashed other = true /\ as_smashed st' = true /\ as_map st' = [])) /\
  (forall s' mu, G' (d_base dv) (s', lift mu) -> cells_in s' mu ->
     (as_smashed st = false -> as_smashed other = true -> all_tracked dv a mu) ->
     G' b1 (s', lift mu)).
Proof.
  intros I B F H. destruct (inv_nonbottom _ I B) as (W & T & U).
  assert (SAME : inv (mkD (d_base dv) (am_set (d_arrs dv) a st) (d_gh dv))).
  { destruct (W a st F) as [WL LV].
    apply (inv_update dv a st st); auto.
    - unfold as_set. destruct (as_eqb st st); auto.
    - tauto.
    - intros NB a0 o sz H1 H2 N. destruct (N.eq_dec a0 a) as [->|NA]; auto. right.
      destruct (T a o sz H1 H2 N) as (st0 & F0 & S0 & C0 & GH). rewrite F in F0. inversion F0; subst st0.
      apply (tracked_same_arr _ _ _ a st st); auto.
    - intros NB a0 k L. destruct (N.eq_dec a0 a) as [->|NA].
      + left. split; auto. destruct (U a k L) as [(st0 & F0 & S0)|X]; auto.
        left. rewrite F in F0. inversion F0; subst. unfold as_set. destruct (as_eqb st0 st0); auto.
      + right. auto. }
  unfold side_step in H. destruct (negb (as_smashed st) && as_smashed other) eqn:COND.
  2:{ inversion H; subst. split; auto. }
  apply andb_true_iff in COND. destruct COND as [S SO]. apply negb_true_iff in S.
  unfold smash_array in H. destruct (W a st F) as [WL LV].
  destruct (as_map st) as [|c0 r] eqn:EM; [inversion H; subst; split; auto|]. rewrite <- EM in *.
  destruct (p_max_smash p <? _); [inversion H; subst; split; auto|].
  destruct (negb (p_nonzero p) && _); [inversion H; subst; split; auto|].
  destruct (as_esz other) as [k|] eqn:EO; [|inversion H; subst; split; auto].
  destruct (0 <? k); [|inversion H; subst; split; auto].
  destruct (smash_other_loop a k (d_gh dv) true (as_map st) (d_base dv)) as [[ok bb]|] eqn:LOOP; [|discriminate].
  cbn [obind fst snd] in H.
  destruct (smash_other_loop_prefix a k (d_gh dv) _ _ _ _ _ (fun c I0 => proj1 (WL c I0)) LOOP)
    as (pre & P1 & P2 & P3).
  destruct (smash_loop_supp _ _ _ _ _ _ _ _ _ P3) as (L1 & L2 & L3).
  destruct ok.
  - (* smashed *)
    specialize (P1 eq_refl). subst pre.
    inversion H; subst st' g1 b1. clear H. split; [|split].
    + apply (smash_finish_inv dv a st (Some k) bb); auto.
    + right. auto.
    + intros s' mu G0 C TR. specialize (TR S SO).
      pose proof G0 as (L0 & S0 & (w & Gw & Aw) & C0). cbn [fst snd] in *.
      assert (NEQ : as_map st <> []) by (rewrite EM; discriminate).
      destruct (smash_loop_spec (sa a) (le_k (esz a)) a (d_gh dv) (esz a) (le_pv_noghost _ (sa a) (le_pv_k _))
                  (as_map st) true (d_base dv) false bb w Gw (eval_le_k _ _) L0 ltac:(discriminate) P3)
        as (A1 & B1 & _ & C1 & C2 & C3 & _ & _).
      apply (forget_ghosts_sound _ _ _ _ s'); [|intros x N; elim N; auto].
      apply (G_transfer (d_base dv) _ s' (lift mu) _ (sa a)); auto.
      intros k0 L. rewrite C2 in L by auto. inversion L; subst k0. split; [rewrite esz'_sa; auto|].
      intros i0 v0 O M. rewrite lift_sa in M. destruct (alignedb (esz a) i0) eqn:AB; [|discriminate].
      apply alignedb_spec in AB. apply cell_ok_sa in O.
      destruct (TR i0 v0 AB O M) as (st0 & F0 & S1 & (c & J & E1 & E2) & GH).
      rewrite F in F0. inversion F0; subst st0.
      destruct (B1 eq_refl c J) as [_ X]. specialize (X w Gw).
      pose proof (e_at_sound _ _ (ghost (sa a)) X) as Y. rewrite upd_same in Y.
      rewrite (Aw (cgc a c)) in Y by apply cgv_prog. unfold cgc in Y. rewrite E1, E2 in Y.
      rewrite (C a i0 v0 AB O M) in Y. exact Y.
  - (* not smashed: the partial summary is forgotten *)
    assert (E1 : st' = st) by congruence. assert (E2 : g1 = d_gh dv) by congruence.
    assert (E3 : b1 = s_forget1 (VA (sa a)) bb) by congruence. subst st' g1 b1. clear H.
    split; [|split]; auto.
    + assert (X : inv (with_base (mkD (d_base dv) (am_set (d_arrs dv) a st) (d_gh dv)) (s_forget1 (VA (sa a)) bb))).
      { destruct SAME as [BB|(W' & T' & U')].
        - unfold a_is_bottom in BB. cbn [d_base] in BB. unfold a_is_bottom in B. congruence.
        - apply inv_base; auto.
          + intros NB a0 o sz N. cbn [d_base]. apply s_forget1_VA_supp in N; auto.
            assert (NBB : a_base bb <> EBot) by (intros E; apply NB; apply s_forget1_bot; auto).
            destruct (L2 _ NBB N) as [X|X]; auto. elim (ghost_neq_cgv _ _ _ _ (eq_sym X)).
          + intros NB a0 k0 L. cbn [d_base d_arrs]. destruct (N.eq_dec a0 a) as [->|NA].
            * elim (s_forget1_VA_la_same _ _ _ L).
            * right. right. assert (NS : sa a0 <> sa a) by (intros E; apply sa_inj in E; auto).
              rewrite s_forget1_VA_la, L1 in L by auto. split; auto. intros Y.
              apply s_forget1_VA_supp in Y; auto.
              assert (NBB : a_base bb <> EBot) by (intros E; apply NB; apply s_forget1_bot; auto).
              destruct (L2 _ NBB Y) as [X|X]; auto. apply ghost_inj in X. congruence. }
      exact X.
    + intros s' mu G0 C _. pose proof G0 as (L0 & S0 & (w & Gw & Aw) & C0). cbn [fst snd] in *.
      destruct (smash_loop_spec (sa a) (le_k (esz a)) a (d_gh dv) (esz a) (le_pv_noghost _ (sa a) (le_pv_k _))
                  pre true (d_base dv) false bb w Gw (eval_le_k _ _) L0 ltac:(discriminate) P3)
        as (A1 & _ & _ & C1 & _ & C3 & _ & _).
      apply (G_transfer (d_base dv) _ s' (lift mu) _ (sa a)); auto.
      * simpl. destruct (la_at (a_la bb) (sa a)); simpl; auto. apply la_forget_not_bot; auto.
      * intros w1 G1. destruct (A1 _ G1) as (z & Gz). exists z. simpl.
        destruct (la_at (a_la bb) (sa a)); simpl; auto.
        eapply genv_ext; [|apply (e_forget_sound _ _ (ghost (sa a)) z Gz)].
        intros y. apply upd_upd_same.
      * intros t' N. rewrite s_forget1_VA_la by auto. auto.
      * intros k0 L. elim (s_forget1_VA_la_same _ _ _ L).
Qed.

(* ---- join of offset maps ---- *)
Lemma in_cs_union x y c : In c (cs_union x y) -> In c x \/ In c y.
Proof.
  unfold cs_union. revert x. induction y as [|h t IH]; simpl; intros x H; auto.
  apply IH in H. destruct H as [H|H]; auto. apply in_om_insert in H. destruct H as [->|H]; auto.
Qed.
Lemma cs_union_l x y c : In c x -> In c (cs_union x y).
Proof.
  unfold cs_union. revert x. induction y as [|h t IH]; simpl; intros x H; auto.
  apply IH. apply om_insert_in. auto.
Qed.
Lemma cs_union_r x y c : In c y -> exists c', In c' (cs_union x y) /\ c_off c' = c_off c /\ c_size c' = c_size c.
Proof.
  unfold cs_union. revert x. induction y as [|h t IH]; simpl; intros x H; [destruct H|].
  destruct H as [->|H]; [|apply IH; auto].
  destruct (om_insert_has c x) as (c' & I & E). exists c'. split; auto.
  fold (cs_union (om_insert c x) t). apply cs_union_l. auto.
Qed.
Lemma in_om_offsets m c : In c m -> In (c_off c) (om_offsets m).
Proof. intros I. unfold om_offsets. apply in_dedup. apply in_map. auto. Qed.
Lemma in_om_group m o c : In c (om_group m o) <-> In c m /\ c_off c = o.
Proof. unfold om_group. rewrite filter_In, Z.eqb_eq. tauto. Qed.

Definition jbranch (pref : bool) (X Y : list cell) : list cell :=
  match X, Y with
  | [], Y => Y
  | X, [] => X
  | X, Y => if pref && keys_sub X Y then Y else cs_union X Y
  end.
Lemma jbranch_in pref X Y c : In c (jbranch pref X Y) -> In c X \/ In c Y.
Proof.
  unfold jbranch. destruct X as [|hx tx]; auto. destruct Y as [|hy ty]; auto.
  destruct (pref && _); auto. apply in_cs_union.
Qed.
Lemma keys_sub_in X Y c : keys_sub X Y = true -> In c X ->
  exists c', In c' Y /\ c_off c' = c_off c /\ c_size c' = c_size c.
Proof.
  unfold keys_sub. rewrite forallb_forall. intros H I. specialize (H c I).
  apply existsb_exists in H. destruct H as (c' & I' & E). apply cell_eqb_spec in E.
  exists c'. split; auto. split; symmetry; tauto.
Qed.
Lemma jbranch_l pref X Y c : In c X -> exists c', In c' (jbranch pref X Y) /\ c_off c' = c_off c /\ c_size c' = c_size c.
Proof.
  intros I. unfold jbranch. destruct X as [|hx tx]; [destruct I|]. destruct Y as [|hy ty]; [exists c; auto|].
  destruct (pref && keys_sub _ _) eqn:E.
  - apply andb_true_iff in E. destruct E as [_ E]. eapply keys_sub_in; eauto.
  - exists c. split; auto. apply cs_union_l. auto.
Qed.
Lemma jbranch_r pref X Y c : In c Y -> exists c', In c' (jbranch pref X Y) /\ c_off c' = c_off c /\ c_size c' = c_size c.
Proof.
  intros I. unfold jbranch. destruct X as [|hx tx]; [exists c; auto|]. destruct Y as [|hy ty]; [destruct I|].
  destruct (pref && keys_sub _ _); [exists c; auto|]. apply cs_union_r. auto.
Qed.

Lemma om_join_p_eq a b : om_join_p a b =
  flat_map (fun o => jbranch (left_leaf_first (om_offsets a) (om_offsets b) o) (om_group a o) (om_group b o))
           (om_offsets (cs_union a b)).
Proof.
  unfold om_join_p. apply flat_map_ext. intros o. unfold jbranch.
  destruct (om_group a o), (om_group b o); reflexivity.
Qed.

Lemma in_om_join_p a b c : In c (om_join_p a b) -> In c a \/ In c b.
Proof.
  rewrite om_join_p_eq. intros H. apply in_flat_map in H. destruct H as (o & _ & H).
  apply jbranch_in in H. destruct H as [H|H]; apply in_om_group in H; tauto.
Qed.
Lemma om_join_p_l a b c : In c a -> exists c', In c' (om_join_p a b) /\ c_off c' = c_off c /\ c_size c' = c_size c.
Proof.
  intros I. rewrite om_join_p_eq.
  destruct (jbranch_l (left_leaf_first (om_offsets a) (om_offsets b) (c_off c)) (om_group a (c_off c)) (om_group b (c_off c)) c)
    as (c' & I' & E); [apply in_om_group; auto|].
  exists c'. split; auto. apply in_flat_map. exists (c_off c). split; auto.
  apply in_om_offsets. apply cs_union_l. auto.
Qed.
Lemma om_join_p_r a b c : In c b -> exists c', In c' (om_join_p a b) /\ c_off c' = c_off c /\ c_size c' = c_size c.
Proof.
  intros I. rewrite om_join_p_eq.
  destruct (jbranch_r (left_leaf_first (om_offsets a) (om_offsets b) (c_off c)) (om_group a (c_off c)) (om_group b (c_off c)) c)
    as (c' & I' & E); [apply in_om_group; auto|].
  exists c'. split; auto. apply in_flat_map. exists (c_off c). split; auto.
  destruct (cs_union_r a b c I) as (c2 & I2 & E1 & E2). rewrite <- E1. apply in_om_offsets. auto.
Qed.

(* what the result state of one array has to do with the (possibly smashed) operands *)
Definition jres (x' y' res : astate) : Prop :=
  as_smashed res = (as_smashed x' || as_smashed y') /\
  (forall c, In c (as_map res) -> In c (as_map x') \/ In c (as_map y')) /\
  (as_smashed res = false -> forall c, In c (as_map x') \/ In c (as_map y') ->
     exists c', In c' (as_map res) /\ c_off c' = c_off c /\ c_size c' = c_size c).

Lemma jres_join x' y' : jres x' y' (st_join x' y').
Proof.
  unfold st_join. split; [reflexivity|]. cbn [as_map as_smashed]. split.
  - apply in_om_join_p.
  - intros _ c [I|I]; [apply om_join_p_l|apply om_join_p_r]; auto.
Qed.

Lemma as_eqb_keys z x : as_eqb z x = true -> as_smashed z = as_smashed x /\
  (as_smashed z = false -> forall c, In c (as_map z) ->
     exists c', In c' (as_map x) /\ c_off c' = c_off c /\ c_size c' = c_size c).
Proof.
  unfold as_eqb. intros H. apply andb_true_iff in H. destruct H as [H1 H2].
  assert (E : as_smashed z = as_smashed x) by (destruct (as_smashed z), (as_smashed x); simpl in H1; congruence).
  split; auto. intros S c I. rewrite S in H2. apply andb_true_iff in H2. destruct H2 as [H2 _].
  eapply om_leq_in; eauto.
Qed.

Lemma jres_left x y' : as_eqb (st_join x y') x = true -> jres x y' x.
Proof.
  intros E. destruct (as_eqb_keys _ _ E) as [F K]. destruct (jres_join x y') as (J1 & J2 & J3).
  split; [congruence|]. split; auto.
  intros S c I. rewrite <- F in S. destruct (J3 S c I) as (c' & I' & E1 & E2).
  destruct (K S c' I') as (c2 & I2 & F1 & F2). exists c2. split; auto. split; congruence.
Qed.
Lemma jres_right x' y : as_eqb (st_join x' y) y = true -> jres x' y y.
Proof.
  intros E. destruct (as_eqb_keys _ _ E) as [F K]. destruct (jres_join x' y) as (J1 & J2 & J3).
  split; [congruence|]. split; auto.
  intros S c I. rewrite <- F in S. destruct (J3 S c I) as (c' & I' & E1 & E2).
  destruct (K S c' I') as (c2 & I2 & F1 & F2). exists c2. split; auto. split; congruence.
Qed.

(* ---- the loop over the arrays of a join ---- *)
Lemma smash_other_loop_bot a k g : forall cells first b ok b1,
  smash_other_loop a k g first cells b = Some (ok, b1) -> a_base b = EBot -> a_base b1 = EBot.
Proof.
  induction cells as [|c r IH]; intros first b ok b1 H E; cbn [smash_other_loop] in H.
  - inversion H; subst; auto.
  - destruct (negb _); [inversion H; subst; auto|]. destruct (gh_hasc g a c); [|inversion H; subst; auto].
    destruct (s_array_store _ _ _ _ _) as [b'|] eqn:ST; [|discriminate]. cbn [obind] in H.
    eapply IH; eauto. eapply s_array_store_bot; eauto.
Qed.

Lemma side_step_bot a st other g b st' g1 b1 : side_step a st other g b = Some (st', g1, b1) ->
  a_base b = EBot -> a_base b1 = EBot.
Proof.
  unfold side_step. destruct (_ && _); [|intros H; inversion H; subst; auto].
  unfold smash_array. destruct (as_map st) as [|c0 r] eqn:EM; [intros H; inversion H; subst; auto|].
  destruct (_ <? _); [intros H; inversion H; subst; auto|].
  destruct (_ && _); [intros H; inversion H; subst; auto|].
  destruct (as_esz other) as [k|]; [|intros H; inversion H; subst; auto].
  destruct (0 <? k); [|intros H; inversion H; subst; auto].
  destruct (smash_other_loop a k g true (c0 :: r) b) as [[ok bb]|] eqn:LOOP; [|discriminate].
  cbn [obind fst snd]. intros H E. pose proof (smash_other_loop_bot _ _ _ _ _ _ _ _ LOOP E) as EB.
  destruct ok.
  - assert (X : b1 = forget_ghosts a g (c0 :: r) bb) by congruence. subst b1. apply forget_ghosts_bot. auto.
  - assert (X : b1 = s_forget1 (VA (sa a)) bb) by congruence. subst b1. apply s_forget1_bot. auto.
Qed.

Lemma side_step_gh a st other g b st' g1 b1 : side_step a st other g b = Some (st', g1, b1) ->
  forall a0, a0 <> a -> forall o sz, gh_has g1 a0 o sz = true <-> gh_has g a0 o sz = true.
Proof.
  unfold side_step. destruct (_ && _); [|intros H; inversion H; subst; tauto].
  unfold smash_array. destruct (as_map st) as [|c0 r] eqn:EM; [intros H; inversion H; subst; tauto|].
  destruct (_ <? _); [intros H; inversion H; subst; tauto|].
  destruct (_ && _); [intros H; inversion H; subst; tauto|].
  destruct (as_esz other) as [k|]; [|intros H; inversion H; subst; tauto].
  destruct (0 <? k); [|intros H; inversion H; subst; tauto].
  destruct (smash_other_loop a k g true (c0 :: r) b) as [[ok bb]|]; [|discriminate].
  cbn [obind fst snd]. intros H a0 NA o sz. destruct ok.
  - assert (X : g1 = erase_ghosts a (c0 :: r) g) by congruence. subst g1.
    rewrite gh_has_erase_ghosts. split; [tauto|]. intros Y. split; auto. intros (E & _). congruence.
  - assert (X : g1 = g) by congruence. subst g1. tauto.
Qed.

Lemma side_step_unsmashed a st other g b st' g1 b1 : side_step a st other g b = Some (st', g1, b1) ->
  as_smashed st' = false -> st' = st /\ g1 = g.
Proof.
  unfold side_step. destruct (_ && _); [|intros H; inversion H; subst; auto].
  unfold smash_array. destruct (as_map st) as [|c0 r] eqn:EM; [intros H; inversion H; subst; auto|].
  destruct (_ <? _); [intros H; inversion H; subst; auto|].
  destruct (_ && _); [intros H; inversion H; subst; auto|].
  destruct (as_esz other) as [k|]; [|intros H; inversion H; subst; auto].
  destruct (0 <? k); [|intros H; inversion H; subst; auto].
  destruct (smash_other_loop a k g true (c0 :: r) b) as [[ok bb]|]; [|discriminate].
  cbn [obind fst snd]. intros H S. destruct ok.
  - assert (X : st' = mkS true (Some k) []) by congruence. subst st'. discriminate.
  - split; congruence.
Qed.

Section JoinLoop.
Variables kx ky : list Z.

Lemma am_join_loop_bot : forall xs ym gl bl gr br m gl' bl' gr' br',
  am_join_loop p kx ky xs ym gl bl gr br = Some (m, (gl', bl'), (gr', br')) ->
  (a_base bl = EBot -> a_base bl' = EBot) /\ (a_base br = EBot -> a_base br' = EBot).
Proof.
  induction xs as [|[a x] r IH]; intros ym gl bl gr br m gl' bl' gr' br' H; cbn [am_join_loop] in H.
  - inversion H; subst; auto.
  - destruct (am_find ym a) as [y|]; [|eapply IH; eauto].
    destruct (sides p a x y gl bl gr br) as [[[[x' y'] [gl1 bl1]] [gr1 br1]]|] eqn:SD; [|discriminate].
    cbn [obind] in H.
    destruct (am_join_loop p kx ky r ym gl1 bl1 gr1 br1) as [[[m0 [gl2 bl2]] [gr2 br2]]|] eqn:LP; [|discriminate].
    cbn [obind] in H. inversion H; subst. destruct (IH _ _ _ _ _ _ _ _ _ _ LP) as [A B].
    destruct (sides_steps _ _ _ _ _ _ _ _ _ _ _ _ _ SD) as [S1 S2].
    split; intros E; [apply A|apply B]; eapply side_step_bot; eauto.
Qed.

Lemma all_tracked_frame b1 A1 g1 b2 A2 g2 a mu :
  am_find A2 a = am_find A1 a -> (forall o sz, gh_has g2 a o sz = true <-> gh_has g1 a o sz = true) ->
  all_tracked (mkD b1 A1 g1) a mu -> all_tracked (mkD b2 A2 g2) a mu.
Proof.
  intros EA EG H o v AL O M. destruct (H o v AL O M) as (st & F & S & C & GH).
  exists st. cbn [d_arrs d_gh] in *. rewrite EA. split; auto. split; auto. split; auto. apply EG. auto.
Qed.

(* the result, relative to the operands after the smashing of their sides *)
Lemma am_join_loop_spec : forall xs ym gl bl gr br m gl' bl' gr' br' AL AR,
  am_join_loop p kx ky xs ym gl bl gr br = Some (m, (gl', bl'), (gr', br')) ->
  NoDup (map fst xs) -> a_base bl' <> EBot -> a_base br' <> EBot ->
  inv (mkD bl AL gl) -> inv (mkD br AR gr) ->
  (forall a x, In (a, x) xs -> am_find AL a = Some x /\ am_find AR a = am_find ym a) ->
  exists AL' AR',
    inv (mkD bl' AL' gl') /\ inv (mkD br' AR' gr') /\
    (forall a, am_find AL' a = None <-> am_find AL a = None) /\
    (forall a, am_find AR' a = None <-> am_find AR a = None) /\
    (forall a, ~ In a (map fst xs) -> am_find AL' a = am_find AL a /\ am_find AR' a = am_find AR a) /\
    (forall a res, am_find m a = Some res ->
       exists x' y', am_find AL' a = Some x' /\ am_find AR' a = Some y' /\ jres x' y' res) /\
    (forall a x y, In (a, x) xs -> am_find ym a = Some y -> am_find m a <> None) /\
    (forall s' mu, G' bl (s', lift mu) -> cells_in s' mu ->
       (forall a x y, In (a, x) xs -> am_find ym a = Some y -> as_smashed x = false -> as_smashed y = true ->
                      all_tracked (mkD bl AL gl) a mu) ->
       G' bl' (s', lift mu)) /\
    (forall s' mu, G' br (s', lift mu) -> cells_in s' mu ->
       (forall a x y, In (a, x) xs -> am_find ym a = Some y -> as_smashed y = false -> as_smashed x = true ->
                      all_tracked (mkD br AR gr) a mu) ->
       G' br' (s', lift mu)) /\
    (forall a x', am_find AL' a = Some x' -> as_smashed x' = false ->
       am_find AL a = Some x' /\ forall o sz, gh_has gl a o sz = true -> gh_has gl' a o sz = true) /\
    (forall a y', am_find AR' a = Some y' -> as_smashed y' = false ->
       am_find AR a = Some y' /\ forall o sz, gh_has gr a o sz = true -> gh_has gr' a o sz = true).
Proof.
  induction xs as [|[a x] r IH]; intros ym gl bl gr br m gl' bl' gr' br' AL AR H ND NBL NBR IL IR ORIG;
    cbn [am_join_loop] in H.
  - inversion H; subst. exists AL, AR.
    split; [auto|]. split; [auto|]. split; [tauto|]. split; [tauto|]. split; [auto|].
    split; [intros a res F; discriminate|]. split; [intros a x y F; destruct F|]. split; auto.
  - inversion ND as [|? ? NI ND']; subst.
    assert (ORIG' : forall a0 x0, In (a0, x0) r -> am_find AL a0 = Some x0 /\ am_find AR a0 = am_find ym a0).
    { intros a0 x0 I0. apply ORIG. right. auto. }
    destruct (am_find ym a) as [y|] eqn:FY.
    2:{ destruct (IH _ _ _ _ _ _ _ _ _ _ AL AR H ND' NBL NBR IL IR ORIG')
          as (AL' & AR' & I1 & I2 & K1 & K2 & FR & M1 & M2 & T1 & T2 & X1 & X2).
        exists AL', AR'. split; auto. split; auto. split; auto. split; auto.
        split; [intros a0 N0; apply FR; intros J; apply N0; simpl; auto|]. split; auto. split; [|split; [|split; [|split]]]; auto.
        - intros a0 x0 y0 [E|I0] F0; [inversion E; subst; congruence|eapply M2; eauto].
        - intros s' mu G0 C TR. apply T1; auto. intros a0 x0 y0 I0. apply TR. right. auto.
        - intros s' mu G0 C TR. apply T2; auto. intros a0 x0 y0 I0. apply TR. right. auto. }
    destruct (sides p a x y gl bl gr br) as [[[[x' y'] [gl1 bl1]] [gr1 br1]]|] eqn:SD; [|discriminate].
    cbn [obind] in H.
    destruct (am_join_loop p kx ky r ym gl1 bl1 gr1 br1) as [[[m0 [gl2 bl2]] [gr2 br2]]|] eqn:LP; [|discriminate].
    cbn [obind] in H. inversion H; subst m gl2 bl2 gr2 br2. clear H.
    destruct (sides_steps _ _ _ _ _ _ _ _ _ _ _ _ _ SD) as [S1 S2].
    destruct (am_join_loop_bot _ _ _ _ _ _ _ _ _ _ _ LP) as [BB1 BB2].
    assert (NB1 : a_base bl1 <> EBot) by (intros E; apply NBL; auto).
    assert (NB2 : a_base br1 <> EBot) by (intros E; apply NBR; auto).
    assert (NBl : a_is_bottom (mkD bl AL gl) = false).
    { unfold a_is_bottom, s_is_bottom. cbn [d_base]. destruct (a_base bl) eqn:E; auto.
      elim NB1. eapply side_step_bot; eauto. }
    assert (NBr : a_is_bottom (mkD br AR gr) = false).
    { unfold a_is_bottom, s_is_bottom. cbn [d_base]. destruct (a_base br) eqn:E; auto.
      elim NB2. eapply side_step_bot; eauto. }
    destruct (ORIG a x (or_introl eq_refl)) as [FL FR]. rewrite FY in FR.
    destruct (side_step_spec (mkD bl AL gl) a x y x' gl1 bl1 IL NBl FL S1) as (IL1 & XC & TL).
    destruct (side_step_spec (mkD br AR gr) a y x y' gr1 br1 IR NBr FR S2) as (IR1 & YC & TRR).
    pose proof (side_step_gh _ _ _ _ _ _ _ _ S1) as GL. pose proof (side_step_gh _ _ _ _ _ _ _ _ S2) as GR.
    cbn [d_arrs d_gh d_base] in *.
    set (AL1 := am_set AL a x') in *. set (AR1 := am_set AR a y') in *.
    assert (ORIG1 : forall a0 x0, In (a0, x0) r -> am_find AL1 a0 = Some x0 /\ am_find AR1 a0 = am_find ym a0).
    { intros a0 x0 I0. assert (NA : a0 <> a).
      { intros ->. apply NI. change a with (fst (a, x0)). apply in_map. auto. }
      unfold AL1, AR1. rewrite !am_find_set_other by auto. auto. }
    destruct (IH _ _ _ _ _ _ _ _ _ _ AL1 AR1 LP ND' NBL NBR IL1 IR1 ORIG1)
      as (AL' & AR' & I1 & I2 & K1 & K2 & FRM & M1 & M2 & T1 & T2 & X1 & X2).
    exists AL', AR'. split; auto. split; auto.
    assert (SETL : forall a0, am_find AL1 a0 = None <-> am_find AL a0 = None).
    { intros a0. unfold AL1. destruct (N.eq_dec a0 a) as [->|NA].
      - rewrite am_find_set_same, FL. split; discriminate.
      - rewrite am_find_set_other by auto. tauto. }
    assert (SETR : forall a0, am_find AR1 a0 = None <-> am_find AR a0 = None).
    { intros a0. unfold AR1. destruct (N.eq_dec a0 a) as [->|NA].
      - rewrite am_find_set_same, FR. split; discriminate.
      - rewrite am_find_set_other by auto. tauto. }
    split; [intros a0; rewrite K1; apply SETL|]. split; [intros a0; rewrite K2; apply SETR|].
    split; [|split; [|split; [|split; [|split; [|split]]]]].
    7:{ (* right operand: a state that is not smashed at the end is the original one *)
        intros a0 y0' F0 S0. destruct (X2 a0 y0' F0 S0) as [F1 G1]. destruct (N.eq_dec a0 a) as [->|NA].
        - unfold AR1 in F1. rewrite am_find_set_same, FR in F1.
          assert (EY : as_set y y' = y').
          { destruct YC as [->|(SY & _ & SY' & _)]; [unfold as_set; destruct (as_eqb y y); auto|].
            apply as_set_smashed. congruence. }
          rewrite EY in F1. inversion F1; subst y0'.
          destruct (side_step_unsmashed _ _ _ _ _ _ _ _ S2 S0) as [-> ->]. split; auto.
        - unfold AR1 in F1. rewrite am_find_set_other in F1 by auto. split; auto.
          intros o sz GH. apply G1. apply (GR a0 NA). auto. }
    6:{ intros a0 x0' F0 S0. destruct (X1 a0 x0' F0 S0) as [F1 G1]. destruct (N.eq_dec a0 a) as [->|NA].
        - unfold AL1 in F1. rewrite am_find_set_same, FL in F1.
          assert (EX : as_set x x' = x').
          { destruct XC as [->|(SX & _ & SX' & _)]; [unfold as_set; destruct (as_eqb x x); auto|].
            apply as_set_smashed. congruence. }
          rewrite EX in F1. inversion F1; subst x0'.
          destruct (side_step_unsmashed _ _ _ _ _ _ _ _ S1 S0) as [-> ->]. split; auto.
        - unfold AL1 in F1. rewrite am_find_set_other in F1 by auto. split; auto.
          intros o sz GH. apply G1. apply (GL a0 NA). auto. }
    + intros a0 N0. assert (NA : a0 <> a) by (intros ->; apply N0; simpl; auto).
      destruct (FRM a0) as [E1 E2]; [intros J; apply N0; simpl; auto|].
      rewrite E1, E2. unfold AL1, AR1. rewrite !am_find_set_other by auto. auto.
    + (* the result states *)
      intros a0 res F0. cbn [am_find] in F0. destruct (N.eqb_spec a a0) as [<-|NA]; [|apply M1; auto].
      destruct (FRM a NI) as [E1 E2].
      assert (EX : as_set x x' = x').
      { destruct XC as [->|(SX & _ & SX' & _)]; [unfold as_set; destruct (as_eqb x x); auto|].
        apply as_set_smashed. congruence. }
      assert (EY : as_set y y' = y').
      { destruct YC as [->|(SY & _ & SY' & _)]; [unfold as_set; destruct (as_eqb y y); auto|].
        apply as_set_smashed. congruence. }
      exists x', y'. split; [rewrite E1; unfold AL1; rewrite am_find_set_same, FL, EX; auto|].
      split; [rewrite E2; unfold AR1; rewrite am_find_set_same, FR, EY; auto|].
      inversion F0; subst res. clear F0.
      destruct (left_leaf_first kx ky (Z.of_N a)).
      * destruct (as_eqb (st_join x' y') x) eqn:Q; [|apply jres_join].
        destruct XC as [->|(SX & _ & SX' & _)]; [apply jres_left; auto|].
        exfalso. destruct (as_eqb_keys _ _ Q) as [F _]. unfold st_join in F. cbn [as_smashed] in F.
        rewrite SX', SX in F. discriminate.
      * destruct (as_eqb (st_join x' y') y) eqn:Q; [|apply jres_join].
        destruct YC as [->|(SY & _ & SY' & _)]; [apply jres_right; auto|].
        exfalso. destruct (as_eqb_keys _ _ Q) as [F _]. unfold st_join in F. cbn [as_smashed] in F.
        rewrite SY', SY, orb_true_r in F. discriminate.
    + intros a0 x0 y0 [E|I0] F0.
      * inversion E; subst. simpl. rewrite N.eqb_refl. discriminate.
      * simpl. destruct (N.eqb_spec a a0); [discriminate|]. eapply M2; eauto.
    + intros s' mu G0 C TR. apply T1; auto.
      * apply TL; auto. intros SX SY. apply (TR a x y); auto. left. auto.
      * intros a0 x0 y0 I0 F0 SX SY. assert (NA : a0 <> a).
        { intros ->. apply NI. change a with (fst (a, x0)). apply in_map. auto. }
        apply (all_tracked_frame bl AL gl); [unfold AL1; apply am_find_set_other; auto|apply GL; auto|].
        apply (TR a0 x0 y0); auto. right. auto.
    + intros s' mu G0 C TR. apply T2; auto.
      * apply TRR; auto. intros SY SX. apply (TR a x y); auto. left. auto.
      * intros a0 x0 y0 I0 F0 SY SX. assert (NA : a0 <> a).
        { intros ->. apply NI. change a with (fst (a, x0)). apply in_map. auto. }
        apply (all_tracked_frame br AR gr); [unfold AR1; apply am_find_set_other; auto|apply GR; auto|].
        apply (TR a0 x0 y0); auto. right. auto.
Qed.

End JoinLoop.

(* ---- join / widening ---- *)
Lemma gh_join_has gl gr a o sz : gh_has gl a o sz = true -> gh_has gr a o sz = true ->
  gh_has (gh_join gl gr) a o sz = true.
Proof.
  intros HL HR. unfold gh_join. rewrite gh_has_in in HL. apply gh_has_in. unfold gh_cells in *.
  induction gl as [|[b l] r IH]; simpl in *; [destruct HL|].
  destruct (N.eqb_spec b a) as [->|N].
  - set (l' := filter (fun k => gh_has gr a (fst k) (snd k)) l).
    assert (I : In (o, sz) l') by (apply filter_In; auto).
    destruct l' as [|h t] eqn:E; [destruct I|]. simpl. rewrite N.eqb_refl. exact I.
  - destruct (filter (fun k : Z * Z => gh_has gr b (fst k) (snd k)) l) as [|h t]; simpl; [apply IH; auto|].
    destruct (N.eqb_spec b a); [congruence|apply IH; auto].
Qed.

Definition jreg (x y : adom) : Prop :=
  forall m gl bl gr br,
    am_join_loop p (zkeys (d_arrs x)) (zkeys (d_arrs y)) (d_arrs x) (d_arrs y)
                 (d_gh x) (d_base x) (d_gh y) (d_base y) = Some (m, (gl, bl), (gr, br)) ->
    a_base bl <> EBot /\ a_base br <> EBot /\ a_la bl <> LBot /\ a_la br <> LBot.

Lemma am_find_in m a st : am_find m a = Some st -> In a (map fst m).
Proof.
  induction m as [|[b s0] r IH]; simpl; [discriminate|]. destruct (N.eqb_spec b a); auto.
Qed.
Lemma am_find_in_pair m a st : NoDup (map fst m) -> In (a, st) m -> am_find m a = Some st.
Proof.
  induction m as [|[b s0] r IH]; simpl; intros ND I; [destruct I|]. inversion ND; subst.
  destruct I as [E|I].
  - inversion E; subst. rewrite N.eqb_refl. auto.
  - destruct (N.eqb_spec b a) as [->|N]; auto. exfalso. apply H1. change a with (fst (a, st)). apply in_map. auto.
Qed.

Section JoinLike.
Variable eop : env -> env -> env.
Hypothesis eop_nt : forall a b y, eop a b <> EBot -> nt (eop a b) y -> nt a y /\ nt b y.
Hypothesis eop_sound : forall a b s, genv a s \/ genv b s -> genv (eop a b) s.
Definition jop (a b : ast) : ast := mkA (la_join (a_la a) (a_la b)) (eop (a_base a) (a_base b)).

Lemma join_like_inv x y d' : inv x -> inv y -> NoDup (map fst (d_arrs x)) -> jreg x y ->
  join_like p jop gh_join x y = Some d' -> inv d'.
Proof.
  intros IX IY ND REG H. unfold join_like in H.
  destruct (am_join_loop _ _ _ _ _ _ _ _ _) as [[[m [gl bl]] [gr br]]|] eqn:LP; [|discriminate].
  cbn [obind] in H. inversion H; subst d'. clear H.
  destruct (REG _ _ _ _ _ LP) as (NBL & NBR & NLL & NLR).
  assert (DX : mkD (d_base x) (d_arrs x) (d_gh x) = x) by (destruct x; auto).
  assert (DY : mkD (d_base y) (d_arrs y) (d_gh y) = y) by (destruct y; auto).
  destruct (am_join_loop_spec _ _ _ _ _ _ _ _ _ _ _ _ _ (d_arrs x) (d_arrs y) LP ND NBL NBR)
    as (AL' & AR' & I1 & I2 & K1 & K2 & FRM & M1 & M2 & _ & _).
  { rewrite DX. auto. } { rewrite DY. auto. }
  { intros a st I. split; [apply am_find_in_pair; auto|auto]. }
  destruct (eop (a_base bl) (a_base br)) as [|m'] eqn:EB.
  { left. unfold a_is_bottom, s_is_bottom, jop. cbn [d_base a_base]. rewrite EB. auto. }
  assert (NBE : eop (a_base bl) (a_base br) <> EBot) by (rewrite EB; discriminate).
  assert (B1 : a_is_bottom (mkD bl AL' gl) = false).
  { unfold a_is_bottom, s_is_bottom. cbn [d_base]. destruct (a_base bl); [congruence|auto]. }
  assert (B2 : a_is_bottom (mkD br AR' gr) = false).
  { unfold a_is_bottom, s_is_bottom. cbn [d_base]. destruct (a_base br); [congruence|auto]. }
  destruct (inv_nonbottom _ I1 B1) as (W1 & T1 & U1). destruct (inv_nonbottom _ I2 B2) as (W2 & T2 & U2).
  right. split; [|split].
  - intros a res F. cbn [d_arrs] in F. destruct (M1 a res F) as (x' & y' & FX & FY & J1 & J2 & J3).
    destruct (W1 a x' FX) as [WL1 LV1]. destruct (W2 a y' FY) as [WL2 LV2]. split.
    + intros c I. destruct (J2 c I); [apply WL1|apply WL2]; auto.
    + intros c I. destruct (J2 c I); [apply LV1|apply LV2]; auto.
  - intros a o sz H1 H2 N. unfold jop in N. cbn [d_base a_base] in N.
    destruct (eop_nt _ _ _ NBE N) as [N1 N2].
    destruct (T1 a o sz H1 H2 N1) as (x' & FX & SX & (c1 & IC1 & E1 & E2) & GX).
    destruct (T2 a o sz H1 H2 N2) as (y' & FY & SY & (c2 & IC2 & F1 & F2) & GY).
    cbn [d_arrs d_gh] in *.
    assert (INX : am_find (d_arrs x) a <> None) by (intros E; apply K1 in E; congruence).
    assert (INY : am_find (d_arrs y) a <> None) by (intros E; apply K2 in E; congruence).
    destruct (am_find (d_arrs x) a) as [x0|] eqn:FX0; [|congruence].
    destruct (am_find (d_arrs y) a) as [y0|] eqn:FY0; [|congruence].
    assert (IM : am_find m a <> None).
    { apply (M2 a x0 y0); auto. clear - FX0. induction (d_arrs x) as [|[b s0] r IH]; simpl in *; [discriminate|].
      destruct (N.eqb_spec b a) as [->|N]; [inversion FX0; subst; auto|auto]. }
    destruct (am_find m a) as [res|] eqn:FM; [|congruence].
    destruct (M1 a res FM) as (x2 & y2 & FX2 & FY2 & J1 & J2 & J3).
    rewrite FX in FX2. rewrite FY in FY2. inversion FX2; inversion FY2; subst x2 y2.
    assert (SR : as_smashed res = false) by (rewrite J1, SX, SY; auto).
    destruct (J3 SR c1 (or_introl IC1)) as (c' & I' & G1 & G2).
    exists res. cbn [d_arrs d_gh]. split; auto. split; auto. split.
    + exists c'. split; auto. split; congruence.
    + apply gh_join_has; auto.
  - intros a k L. unfold jop in L. unfold jop. cbn [d_base a_la a_base d_arrs] in *.
    assert (LL : la_at (a_la bl) (sa a) = BConst k).
    { apply (la_join_const_l _ (a_la br)); auto. }
    assert (LR : la_at (a_la br) (sa a) = BConst k).
    { apply (la_join_const_r (a_la bl)); auto. }
    assert (TOPJ : is_top (e_at (a_base bl) (ghost (sa a))) = true \/ is_top (e_at (a_base br) (ghost (sa a))) = true ->
                   is_top (e_at (eop (a_base bl) (a_base br)) (ghost (sa a))) = true).
    { intros X. destruct (is_top_nt (eop (a_base bl) (a_base br)) (ghost (sa a))) as [Y|Y]; auto.
      destruct (eop_nt _ _ _ NBE Y) as [Y1 Y2]. unfold nt in *. destruct X; congruence. }
    destruct (U1 a k LL) as [(x' & FX & SX)|X]; [|right; apply TOPJ; auto].
    destruct (U2 a k LR) as [(y' & FY & SY)|X]; [|right; apply TOPJ; auto].
    cbn [d_arrs] in *.
    assert (INX : am_find (d_arrs x) a <> None) by (intros E; apply K1 in E; congruence).
    assert (INY : am_find (d_arrs y) a <> None) by (intros E; apply K2 in E; congruence).
    destruct (am_find (d_arrs x) a) as [x0|] eqn:FX0; [|congruence].
    destruct (am_find (d_arrs y) a) as [y0|] eqn:FY0; [|congruence].
    assert (IM : am_find m a <> None).
    { apply (M2 a x0 y0); auto. clear - FX0. induction (d_arrs x) as [|[b s0] r IH]; simpl in *; [discriminate|].
      destruct (N.eqb_spec b a) as [->|N]; [inversion FX0; subst; auto|auto]. }
    destruct (am_find m a) as [res|] eqn:FM; [|congruence].
    destruct (M1 a res FM) as (x2 & y2 & FX2 & FY2 & J1 & J2 & J3).
    rewrite FX in FX2. inversion FX2; subst x2.
    left. exists res. split; auto. rewrite J1, SX. auto.
Qed.

Lemma join_like_Ga_l x y d' s mu : inv x -> inv y -> NoDup (map fst (d_arrs x)) -> jreg x y ->
  Ga x (s, mu) ->
  (forall a st sy, am_find (d_arrs x) a = Some st -> am_find (d_arrs y) a = Some sy ->
                   as_smashed st = false -> as_smashed sy = true -> all_tracked x a mu) ->
  join_like p jop gh_join x y = Some d' -> Ga d' (s, mu).
Proof.
  intros IX IY ND REG (s' & G0 & AP & C) TR H. unfold join_like in H.
  destruct (am_join_loop _ _ _ _ _ _ _ _ _) as [[[m [gl bl]] [gr br]]|] eqn:LP; [|discriminate].
  cbn [obind] in H. inversion H; subst d'. clear H.
  destruct (REG _ _ _ _ _ LP) as (NBL & NBR & NLL & NLR).
  assert (DX : mkD (d_base x) (d_arrs x) (d_gh x) = x) by (destruct x; auto).
  assert (DY : mkD (d_base y) (d_arrs y) (d_gh y) = y) by (destruct y; auto).
  destruct (am_join_loop_spec _ _ _ _ _ _ _ _ _ _ _ _ _ (d_arrs x) (d_arrs y) LP ND NBL NBR)
    as (AL' & AR' & I1 & I2 & K1 & K2 & FRM & M1 & M2 & TL & _).
  { rewrite DX. auto. } { rewrite DY. auto. }
  { intros a st I. split; [apply am_find_in_pair; auto|auto]. }
  cbn [fst snd] in *. exists s'. cbn [d_base fst snd]. split; [|split]; auto.
  apply (G_union esz' one' eop (mkA (a_la bl) (a_base bl)) (mkA (a_la br) (a_base br))); auto.
  left. replace (mkA (a_la bl) (a_base bl)) with bl by (destruct bl; auto).
  apply TL; auto. intros a x0 y0 I F SX SY. rewrite DX. apply (TR a x0 y0); auto.
  apply am_find_in_pair; auto.
Qed.

Lemma join_like_Ga_r x y d' s mu : inv x -> inv y -> NoDup (map fst (d_arrs x)) -> jreg x y ->
  Ga y (s, mu) ->
  (forall a st sy, am_find (d_arrs x) a = Some st -> am_find (d_arrs y) a = Some sy ->
                   as_smashed sy = false -> as_smashed st = true -> all_tracked y a mu) ->
  join_like p jop gh_join x y = Some d' -> Ga d' (s, mu).
Proof.
  intros IX IY ND REG (s' & G0 & AP & C) TR H. unfold join_like in H.
  destruct (am_join_loop _ _ _ _ _ _ _ _ _) as [[[m [gl bl]] [gr br]]|] eqn:LP; [|discriminate].
  cbn [obind] in H. inversion H; subst d'. clear H.
  destruct (REG _ _ _ _ _ LP) as (NBL & NBR & NLL & NLR).
  assert (DX : mkD (d_base x) (d_arrs x) (d_gh x) = x) by (destruct x; auto).
  assert (DY : mkD (d_base y) (d_arrs y) (d_gh y) = y) by (destruct y; auto).
  destruct (am_join_loop_spec _ _ _ _ _ _ _ _ _ _ _ _ _ (d_arrs x) (d_arrs y) LP ND NBL NBR)
    as (AL' & AR' & I1 & I2 & K1 & K2 & FRM & M1 & M2 & _ & TRR).
  { rewrite DX. auto. } { rewrite DY. auto. }
  { intros a st I. split; [apply am_find_in_pair; auto|auto]. }
  cbn [fst snd] in *. exists s'. cbn [d_base fst snd]. split; [|split]; auto.
  apply (G_union esz' one' eop (mkA (a_la bl) (a_base bl)) (mkA (a_la br) (a_base br))); auto.
  right. replace (mkA (a_la br) (a_base br)) with br by (destruct br; auto).
  apply TRR; auto. intros a x0 y0 I F SY SX. rewrite DY. apply (TR a x0 y0); auto.
  apply am_find_in_pair; auto.
Qed.

End JoinLike.

(* the three joins of the domain *)
Lemma thr_sound ths a b s : genv a s \/ genv b s ->
  genv (e_widen_thr (thr_prev (mk_thresholds ths)) (thr_next (mk_thresholds ths)) a b) s.
Proof.
  apply e_widen_thr_sound.
  - intros v. apply thr_prev_le. apply mk_thresholds_wf.
  - intros v. apply thr_next_ge. apply mk_thresholds_wf.
Qed.

Inductive jkind := JJoin | JWiden | JThr (ths : list Z).
Definition jk_eop (k : jkind) : env -> env -> env :=
  match k with
  | JJoin => e_join | JWiden => e_widen
  | JThr ths => e_widen_thr (thr_prev (mk_thresholds ths)) (thr_next (mk_thresholds ths))
  end.
Definition jk_run (k : jkind) (x y : adom) : option adom :=
  match k with JJoin => a_join p x y | JWiden => a_widen p x y | JThr ths => a_widen_thr p ths x y end.

Lemma jk_nt k a b y : jk_eop k a b <> EBot -> nt (jk_eop k a b) y -> nt a y /\ nt b y.
Proof. destruct k; simpl; [apply nt_e_join|apply nt_e_widen|apply nt_e_widen_thr]. Qed.
Lemma jk_sound k a b s : genv a s \/ genv b s -> genv (jk_eop k a b) s.
Proof. destruct k; simpl; [apply e_join_sound|apply e_widen_sound|apply thr_sound]. Qed.

Lemma jk_cases k x y : jk_run k x y = Some x \/ jk_run k x y = Some y \/
  (a_is_bottom x = false /\ a_is_bottom y = false /\
   jk_run k x y = join_like p (jop (jk_eop k)) gh_join x y).
Proof.
  destruct k; simpl; unfold a_join, a_widen, a_widen_thr.
  - destruct (a_is_bottom y) eqn:BY; simpl; auto. destruct (a_is_top x); simpl; auto.
    destruct (a_is_bottom x) eqn:BX; simpl; auto. destruct (a_is_top y); simpl; auto.
  - destruct (a_is_bottom y) eqn:BY; simpl; auto. destruct (a_is_bottom x) eqn:BX; simpl; auto.
  - destruct (a_is_bottom y) eqn:BY; simpl; auto. destruct (a_is_bottom x) eqn:BX; simpl; auto.
Qed.

Lemma jk_inv k x y d' : inv x -> inv y -> NoDup (map fst (d_arrs x)) -> jreg x y ->
  jk_run k x y = Some d' -> inv d'.
Proof.
  intros IX IY ND REG H. destruct (jk_cases k x y) as [E|[E|(BX & BY & E)]]; rewrite E in H.
  - inversion H; subst; auto.
  - inversion H; subst; auto.
  - exact (join_like_inv (jk_eop k) (jk_nt k) x y d' IX IY ND REG H).
Qed.

(* sizes recorded by the base domain *)
Definition Lsz (d : adom) : Prop :=
  a_is_bottom d = true \/
  (a_la (d_base d) <> LBot /\ forall b k, la_at (a_la (d_base d)) b = BConst k -> k = esz' b).
(* a value that is top has an empty environment (separate_domain::set never binds top) *)
Definition top_empty (d : adom) : Prop := a_is_top d = true -> a_base (d_base d) = EMap [].

Lemma Ga_top_any d c : Lsz d -> top_empty d -> a_is_bottom d = false -> a_is_top d = true -> Ga d c.
Proof.
  intros [B|[NL SZ]] TE NB TOP; [congruence|]. destruct c as [s mu].
  exists (cstore s mu). cbn [fst snd]. split; [|split].
  - split; auto. split; auto. split.
    + exists (cstore s mu). split; [|intros x _; auto]. rewrite (TE TOP). intros k. simpl. apply gamma_top.
    + intros b k i v L O M. rewrite (TE TOP). simpl. apply gamma_top.
  - apply cstore_pv.
  - apply cstore_cells.
Qed.

(* the result of a join describes what its operands describe *)
Lemma jk_Ga_l k x y d' s mu : inv x -> inv y -> NoDup (map fst (d_arrs x)) -> jreg x y ->
  Lsz y -> top_empty y -> Ga x (s, mu) ->
  (forall a st sy, am_find (d_arrs x) a = Some st -> am_find (d_arrs y) a = Some sy ->
                   as_smashed st = false -> as_smashed sy = true -> all_tracked x a mu) ->
  jk_run k x y = Some d' -> Ga d' (s, mu).
Proof.
  intros IX IY ND REG LY TY HG TR H. pose proof (Ga_not_bottom _ _ HG) as BX.
  destruct k; simpl in H; unfold a_join, a_widen, a_widen_thr in H.
  - destruct (a_is_bottom y) eqn:BY; cbn [orb] in H; [inversion H; subst; auto|].
    destruct (a_is_top x) eqn:TX; cbn [orb] in H; [inversion H; subst; auto|].
    rewrite BX in H. cbn [orb] in H. destruct (a_is_top y) eqn:TOPY.
    + inversion H; subst. apply Ga_top_any; auto.
    + exact (join_like_Ga_l (jk_eop JJoin) (jk_sound JJoin) x y d' s mu IX IY ND REG HG TR H).
  - destruct (a_is_bottom y) eqn:BY; [inversion H; subst; auto|]. rewrite BX in H.
    exact (join_like_Ga_l (jk_eop JWiden) (jk_sound JWiden) x y d' s mu IX IY ND REG HG TR H).
  - destruct (a_is_bottom y) eqn:BY; [inversion H; subst; auto|]. rewrite BX in H.
    exact (join_like_Ga_l (jk_eop (JThr ths)) (jk_sound (JThr ths)) x y d' s mu IX IY ND REG HG TR H).
Qed.

Lemma jk_Ga_r k x y d' s mu : inv x -> inv y -> NoDup (map fst (d_arrs x)) -> jreg x y ->
  Lsz x -> top_empty x -> Ga y (s, mu) ->
  (forall a st sy, am_find (d_arrs x) a = Some st -> am_find (d_arrs y) a = Some sy ->
                   as_smashed sy = false -> as_smashed st = true -> all_tracked y a mu) ->
  jk_run k x y = Some d' -> Ga d' (s, mu).
Proof.
  intros IX IY ND REG LX TX HG TR H. pose proof (Ga_not_bottom _ _ HG) as BY.
  destruct k; simpl in H; unfold a_join, a_widen, a_widen_thr in H; rewrite BY in H; cbn [orb] in H.
  - destruct (a_is_top x) eqn:TOPX.
    + inversion H; subst. destruct (a_is_bottom d') eqn:BX.
      * (* a bottom value is not top *)
        exfalso. unfold a_is_bottom, a_is_top, s_is_bottom, s_is_top in *.
        destruct (a_base (d_base d')); simpl in *; congruence.
      * apply Ga_top_any; auto.
    + destruct (a_is_bottom x) eqn:BX; cbn [orb] in H; [inversion H; subst; auto|].
      destruct (a_is_top y) eqn:TOPY; [inversion H; subst; auto|].
      exact (join_like_Ga_r (jk_eop JJoin) (jk_sound JJoin) x y d' s mu IX IY ND REG HG TR H).
  - destruct (a_is_bottom x) eqn:BX; [inversion H; subst; auto|].
    exact (join_like_Ga_r (jk_eop JWiden) (jk_sound JWiden) x y d' s mu IX IY ND REG HG TR H).
  - destruct (a_is_bottom x) eqn:BX; [inversion H; subst; auto|].
    exact (join_like_Ga_r (jk_eop (JThr ths)) (jk_sound (JThr ths)) x y d' s mu IX IY ND REG HG TR H).
Qed.

(* ---- scalar rename / expand with their shortcuts ---- *)
Lemma rename_scalar_eq x y d : a_is_bottom d || a_is_top d = false ->
  a_rename [VS x] [VS y] d = Some (mkD (s_rename [VS x] [VS y] (d_base d)) (d_arrs d) (d_gh d)).
Proof. intros H. unfold a_rename. rewrite H. reflexivity. Qed.

Lemma s_rename_scalar_la x y b : a_la (s_rename [VS x] [VS y] b) = a_la b.
Proof. reflexivity. Qed.
Lemma s_rename_scalar_base x y b : a_base (s_rename [VS x] [VS y] b) = e_rename (a_base b) [x] [y].
Proof. reflexivity. Qed.

Lemma rename_scalar_inv x y d d' : inv d -> is_pv y -> a_rename [VS x] [VS y] d = Some d' -> inv d'.
Proof.
  intros I P H. destruct (a_is_bottom d || a_is_top d) eqn:E.
  { unfold a_rename in H. rewrite E in H. inversion H; subst; auto. }
  rewrite rename_scalar_eq in H by auto. inversion H; subst d'.
  change (inv (with_base d (s_rename [VS x] [VS y] (d_base d)))).
  apply scalar_op_inv; auto.
  - intros EB. rewrite s_rename_scalar_base, EB. reflexivity.
  - intros w NB N. rewrite s_rename_scalar_base in N, NB. apply nt_e_rename in N; auto.
    destruct N as [[<-|[]]|[N _]]; auto.
Qed.

Lemma rename_scalar_Ga x y d d' s mu h : is_pv x -> is_pv y ->
  is_top (e_at (a_base (d_base d)) y) = true -> Ga d (s, mu) ->
  a_rename [VS x] [VS y] d = Some d' -> Ga d' (rename_store s [(x, y)] [h], mu).
Proof.
  intros Px Py TY HG H. destruct (a_is_top d) eqn:TOP.
  { unfold a_rename in H. rewrite TOP, orb_true_r in H. inversion H; subst. eapply Ga_of_top; eauto. }
  rewrite rename_scalar_eq in H by (rewrite (Ga_not_bottom _ _ HG); auto). inversion H; subst d'.
  change (Ga (with_base d (s_rename [VS x] [VS y] (d_base d))) (rename_store s [(x, y)] [h], mu)).
  apply (scalar_op_Ga d _ s); auto. intros s' G0 AP.
  exists (rename_store s' [(x, y)] [h]). split; [|split].
  - apply s_rename_scalar_sound; auto; apply pv_prog; auto.
  - intros w Pw. rewrite !rename_store_one. destruct (N.eqb x y); [apply AP; auto|].
    destruct (N.eqb w x); auto. destruct (N.eqb w y); apply AP; auto.
  - intros w NP. rewrite rename_store_one. destruct (N.eqb x y); auto.
    destruct (N.eqb_spec w x) as [->|_]; [tauto|]. destruct (N.eqb_spec w y) as [->|_]; [tauto|]. auto.
Qed.

Lemma expand_inv x y d d' : inv d -> is_pv y -> a_expand (VS x) (VS y) d = Some d' -> inv d'.
Proof.
  intros I P H. unfold a_expand in H. destruct (a_is_bottom d || a_is_top d); inversion H; subst; auto.
  apply expand_scalar_inv; auto.
Qed.
Lemma expand_Ga x y d d' s mu : is_pv x -> is_pv y -> Ga d (s, mu) ->
  a_expand (VS x) (VS y) d = Some d' -> Ga d' (upd s y (s x), mu).
Proof.
  intros Px Py HG H. unfold a_expand in H. destruct (a_is_top d) eqn:TOP.
  { rewrite orb_true_r in H. inversion H; subst. eapply Ga_of_top; eauto. }
  rewrite (Ga_not_bottom _ _ HG) in H. cbn [orb] in H. inversion H; subst.
  apply expand_scalar_Ga; auto.
Qed.

(* ---- registers ---- *)
Lemma dget_dset rs r v r' : (r < length rs)%nat ->
  dget (dset rs r v) r' = if Nat.eqb r' r then v else dget rs r'.
Proof.
  revert r r'. induction rs as [|h t IH]; simpl; intros r r' L; [lia|].
  destruct r, r'; simpl; auto. apply IH. lia.
Qed.
Lemma dset_oob rs r v : (length rs <= r)%nat -> dset rs r v = rs.
Proof. revert r. induction rs as [|h t IH]; simpl; intros r L; auto. destruct r; [lia|]. f_equal. apply IH. lia. Qed.
Lemma dset_length rs r v : length (dset rs r v) = length rs.
Proof. revert r. induction rs as [|h t IH]; simpl; intros r; auto. destruct r; simpl; auto. Qed.

Definition rel (rs : list adom) (cs : list cset) : Prop :=
  length rs = length cs /\ (forall r, inv (dget rs r)) /\ forall r c, cget cs r c -> Ga (dget rs r) c.

Lemma rel_set rs cs r d (c : cset) : rel rs cs -> inv d -> (forall x, c x -> Ga d x) ->
  rel (dset rs r d) (csetr cs r c).
Proof.
  intros (L & I & R) ID H. split; [rewrite dset_length, csetr_length; auto|].
  destruct (Nat.lt_ge_cases r (length rs)) as [LT|GE].
  - split.
    + intros r'. rewrite dget_dset by auto. destruct (Nat.eqb r' r); auto.
    + intros r' x. rewrite dget_dset by auto. rewrite cget_csetr by lia. destruct (Nat.eqb r' r); auto.
  - rewrite dset_oob by auto. rewrite csetr_oob by lia. auto.
Qed.

(* ---- concrete steps: those of ArraySmashSound, with aligned accesses and the precise
   reading of array_init / array_store_range (the cells lb, lb+sz, ... <= ub) ---- *)
Definition cstepA (cs : list cset) (o : ahop) : list cset :=
  match o with
  | AInit r a e lb ub val =>
    csetr cs r (fun c' => exists s mu, cget cs r (s, mu) /\ eval_le e s = esz a /\ fst c' = s /\
      forall b o, snd c' b o =
        cwrite (fun b' o' => if N.eqb b' a then None else mu b' o') a (eval_le lb s) (esz a) (eval_le val s)
               (rcount (eval_le lb s) (eval_le ub s) (esz a)) b o)
  | ARange r a e lb ub val =>
    csetr cs r (fun c' => exists s mu, cget cs r (s, mu) /\ eval_le e s = esz a /\ fst c' = s /\
      forall b o, snd c' b o =
        cwrite mu a (eval_le lb s) (esz a) (eval_le val s) (rcount (eval_le lb s) (eval_le ub s) (esz a)) b o)
  | ALoad r lhs a e idx =>
    csetr cs r (fun c' => exists s mu v, cget cs r (s, mu) /\ eval_le e s = esz a /\
                  aligned (esz a) (eval_le idx s) /\
                  cell_ok onecell a (eval_le idx s) /\ mu a (eval_le idx s) = Some v /\
                  fst c' = upd s lhs v /\ same_mem (snd c') mu)
  | AStore r a e idx val strong =>
    csetr cs r (fun c' => exists s mu, cget cs r (s, mu) /\ eval_le e s = esz a /\
                  aligned (esz a) (eval_le idx s) /\
                  (strong = true -> onecell a = Some (eval_le idx s)) /\
                  fst c' = s /\ same_mem_but a (snd c') mu /\
                  forall i, snd c' a i = if i =? eval_le idx s then Some (eval_le val s) else mu a i)
  | _ => cstep esz onecell cs o
  end.

(* every state reached with aligned accesses is reached by the semantics of ArraySmashSound *)
Definition tracked_for_store (d : adom) (a : arr) (idx : linexp) (mu : amem) : Prop :=
  forall st, am_find (d_arrs d) a = Some st -> as_smashed st = false ->
    (forall n, isingleton (d_eval idx (a_base (d_base d))) = Some n ->
               p_max_size p <= Z.of_nat (length (as_map st))) ->
    p_smashable p = true -> all_tracked d a mu.

Definition join_ok (X Y : adom) (cX cY : cset) : Prop :=
  NoDup (map fst (d_arrs X)) /\ jreg X Y /\ Lsz X /\ Lsz Y /\ top_empty X /\ top_empty Y /\
  (forall s mu, cX (s, mu) -> forall a st sy, am_find (d_arrs X) a = Some st -> am_find (d_arrs Y) a = Some sy ->
      as_smashed st = false -> as_smashed sy = true -> all_tracked X a mu) /\
  (forall s mu, cY (s, mu) -> forall a st sy, am_find (d_arrs X) a = Some st -> am_find (d_arrs Y) a = Some sy ->
      as_smashed sy = false -> as_smashed st = true -> all_tracked Y a mu).

Definition hop_okA (rs : list adom) (cs : list cset) (o : ahop) : Prop :=
  match o with
  | AAssign _ x e => is_pv x /\ le_pv e
  | AArith _ _ x y z => is_pv x /\ is_pv y /\ operand_pv z
  | AAssume _ cl => forall c, In c cl -> wf_lc c /\ lc_pv c
  | AForget _ vs => forall v, In v vs -> avar_pv v
  | AForget1 _ v => avar_pv v
  | AProject _ _ => False
  | AExpand _ (VS x) (VS y) => is_pv x /\ is_pv y
  | AExpand _ _ _ => False
  | ARename r [VS x] [VS y] => is_pv x /\ is_pv y /\ is_top (e_at (a_base (d_base (dget rs r))) y) = true
  | ARename _ _ _ => False
  | AInit r a e lb ub val => init_ok (dget rs r) a e lb ub /\ le_pv val
  | ALoad r lhs a e idx =>
    is_pv lhs /\ le_pv e /\ le_pv idx /\ wf_le idx /\ szok (dget rs r) a e /\ idxok (dget rs r) a idx
  | AStore r a e idx val _ =>
    le_pv e /\ le_pv idx /\ wf_le idx /\ le_pv val /\ szok (dget rs r) a e /\ idxok (dget rs r) a idx /\
    (forall s mu, cget cs r (s, mu) -> tracked_for_store (dget rs r) a idx mu)
  | ARange r a e lb ub val => range_ok (dget rs r) a e lb ub /\ le_pv lb /\ le_pv ub /\ le_pv val
  | ACopyArr _ lhs rhs => layout_ok lhs rhs
  | AJoin _ s t | AWiden _ s t | AWidenThr _ s t _ => join_ok (dget rs s) (dget rs t) (cget cs s) (cget cs t)
  | AMeet _ _ _ | ANarrow _ _ _ => False
  | _ => True
  end.

Lemma Ga_pair d c : Ga d (fst c, snd c) -> Ga d c.
Proof. destruct c; auto. Qed.

Lemma Ga_mem_ext d s mu mu' : same_mem mu' mu -> Ga d (s, mu) -> Ga d (s, mu').
Proof.
  intros E (s' & G0 & AP & C). exists s'. cbn [fst snd] in *. split; [|split]; auto.
  - apply (G_mem_change _ _ (lift mu)); auto. intros b i v M. left. unfold lift in *.
    destruct (N.even b); auto. destruct (alignedb _ _); auto. rewrite <- E. auto.
  - intros a o v AL O M. rewrite E in M. eapply C; eauto.
Qed.

Lemma inv_bot : inv a_bot.
Proof. left. reflexivity. Qed.

Theorem dstep_sound rs cs o rs' :
  rel rs cs -> hop_okA rs cs o -> dstep p rs o = Some rs' -> rel rs' (cstepA cs o).
Proof.
  intros R OK H. pose proof R as (L & RI & RG).
  destruct o; cbn [dstep cstepA cstep hop_okA] in *.
  - inversion H; subst. apply rel_set; auto. apply inv_top. intros c _. apply Ga_top.
  - inversion H; subst. apply rel_set; auto. apply inv_bot. intros c [].
  - inversion H; subst. apply rel_set; auto.
  - (* assign *)
    inversion H; subst. destruct OK as [P1 P2]. apply rel_set; auto.
    + apply assign_inv; auto.
    + intros c (s & mu & C & E1 & E2). apply Ga_pair. rewrite E1. apply (Ga_mem_ext _ _ mu); auto.
      apply assign_Ga; auto.
  - inversion H; subst. destruct OK as (P1 & P2 & P3). apply rel_set; auto.
    + apply arith_inv; auto.
    + intros c (s & mu & v & C & AS & E1 & E2). apply Ga_pair. rewrite E1. apply (Ga_mem_ext _ _ mu); auto.
      eapply arith_Ga; eauto.
  - inversion H; subst. apply rel_set; auto.
    + apply assume_inv; auto. intros c I. apply (OK c I).
    + intros [s mu] [C S]. apply assume_Ga; auto.
  - (* forget *)
    inversion H; subst. apply rel_set; auto.
    + apply forget_inv; auto.
    + intros [s1 mu1] (s & mu & C & E1 & E2). apply (forget_Ga vs (dget rs r) s mu s1 mu1); auto.
  - inversion H; subst. apply rel_set; auto.
    + apply forget1_inv; auto.
    + intros [s1 mu1] (s & mu & C & E1 & E2). apply (forget1_Ga v (dget rs r) s mu s1 mu1); auto.
  - destruct OK.
  - (* expand *)
    destruct v as [x|a], nv as [y|b]; try destruct OK.
    destruct (a_expand (VS x) (VS y) (dget rs r)) as [d'|] eqn:E; inversion H; subst.
    apply rel_set; auto.
    + eapply expand_inv; eauto.
    + intros c (s & mu & C & E1 & E2). apply Ga_pair. rewrite E1. apply (Ga_mem_ext _ _ mu); auto.
      eapply expand_Ga; eauto.
  - (* rename of one scalar *)
    destruct from as [|[x|a] [|? ?]]; try tauto; destruct to as [|[y|b] [|? ?]]; try tauto.
    destruct OK as (P1 & P2 & P3).
    destruct (a_rename [VS x] [VS y] (dget rs r)) as [d'|] eqn:E; inversion H; subst.
    apply rel_set; auto.
    + eapply rename_scalar_inv; eauto.
    + intros c (s & mu & h & C & E1 & E2). apply Ga_pair. rewrite E1. apply (Ga_mem_ext _ _ mu); auto.
      eapply rename_scalar_Ga; eauto.
  - (* array_init *)
    destruct OK as [P1 P2].
    destruct (a_array_init p a esz0 lb ub val (dget rs r)) as [d'|] eqn:E; inversion H; subst.
    apply rel_set; auto.
    + eapply init_inv; eauto.
    + intros [s1 mu1] (s & mu & C & SZ & E1 & E2). cbn [fst snd] in *. subst s1.
      exact (init_Ga a esz0 lb ub val (dget rs r) d' s mu mu1 (RI r) P1 P2 (RG r _ C) E2 E).
  - (* array_load *)
    destruct OK as (P1 & P2 & P3 & P4 & P5 & P6).
    destruct (a_array_load p lhs a esz0 idx (dget rs r)) as [d'|] eqn:E; inversion H; subst.
    apply rel_set; auto.
    + eapply load_inv; eauto.
    + intros c (s & mu & v & C & SZ & AL & O & M & E1 & E2). apply Ga_pair. rewrite E1.
      apply (Ga_mem_ext _ _ mu); auto.
      exact (load_Ga lhs a esz0 idx (dget rs r) d' s mu v (RI r) P1 P2 P3 P4 SZ AL O M (RG r _ C) E).
  - (* array_store *)
    destruct OK as (P1 & P2 & P3 & P4 & P5 & P6 & P7).
    destruct (a_array_store p a esz0 idx val strong (dget rs r)) as [d'|] eqn:E; inversion H; subst.
    apply rel_set; auto.
    + eapply store_inv; eauto.
    + intros [s1 mu1] (s & mu & C & SZ & AL & ST & E1 & E2 & E3). cbn [fst snd] in *. subst s1.
      exact (store_Ga a esz0 idx val strong (dget rs r) d' s mu mu1 (RI r) P1 P2 P3 P4 SZ AL ST (RG r _ C)
               (P7 s mu C) E2 E3 E).
  - (* array_store_range *)
    destruct OK as (P1 & P2 & P3 & P4).
    destruct (a_array_store_range p a esz0 lb ub val (dget rs r)) as [d'|] eqn:E; inversion H; subst.
    apply rel_set; auto.
    + eapply store_range_inv; eauto.
    + intros [s1 mu1] (s & mu & C & SZ & E1 & E2). cbn [fst snd] in *. subst s1.
      exact (store_range_Ga a esz0 lb ub val (dget rs r) d' s mu mu1 (RI r) P1 P2 P3 P4 (RG r _ C) E2 E).
  - (* array_assign *)
    inversion H; subst. apply rel_set; auto.
    + apply arr_assign_inv; auto.
    + intros [s1 mu1] (s & mu & C & E1 & E2 & E3). cbn [fst snd] in *. subst s1.
      apply (arr_assign_Ga lhs rhs (dget rs r) s mu mu1); auto.
  - (* join *)
    destruct OK as (ND & REG & LX & LY & TX & TY & TR1 & TR2).
    destruct (a_join p (dget rs s) (dget rs t)) as [d'|] eqn:E; inversion H; subst.
    apply rel_set; auto.
    + eapply (jk_inv JJoin); eauto.
    + intros [s0 mu] [C|C].
      * apply (jk_Ga_l JJoin (dget rs s) (dget rs t) d' s0 mu); auto. apply (TR1 s0 mu C).
      * apply (jk_Ga_r JJoin (dget rs s) (dget rs t) d' s0 mu); auto. apply (TR2 s0 mu C).
  - destruct OK.
  - destruct OK as (ND & REG & LX & LY & TX & TY & TR1 & TR2).
    destruct (a_widen p (dget rs s) (dget rs t)) as [d'|] eqn:E; inversion H; subst.
    apply rel_set; auto.
    + eapply (jk_inv JWiden); eauto.
    + intros [s0 mu] [C|C].
      * apply (jk_Ga_l JWiden (dget rs s) (dget rs t) d' s0 mu); auto. apply (TR1 s0 mu C).
      * apply (jk_Ga_r JWiden (dget rs s) (dget rs t) d' s0 mu); auto. apply (TR2 s0 mu C).
  - destruct OK.
  - destruct OK as (ND & REG & LX & LY & TX & TY & TR1 & TR2).
    destruct (a_widen_thr p ths (dget rs s) (dget rs t)) as [d'|] eqn:E; inversion H; subst.
    apply rel_set; auto.
    + eapply (jk_inv (JThr ths)); eauto.
    + intros [s0 mu] [C|C].
      * apply (jk_Ga_l (JThr ths) (dget rs s) (dget rs t) d' s0 mu); auto. apply (TR1 s0 mu C).
      * apply (jk_Ga_r (JThr ths) (dget rs s) (dget rs t) d' s0 mu); auto. apply (TR2 s0 mu C).
Qed.

(* ---- histories ---- *)
Fixpoint hist_okA (rs : list adom) (cs : list cset) (h : list ahop) : Prop :=
  match h with
  | [] => True
  | o :: r => hop_okA rs cs o /\
              match dstep p rs o with Some rs' => hist_okA rs' (cstepA cs o) r | None => True end
  end.

Theorem dhistory_sound h : forall rs cs rs',
  rel rs cs -> hist_okA rs cs h -> drun p rs h = Some rs' -> rel rs' (fold_left cstepA h cs).
Proof.
  induction h as [|o r IH]; simpl; intros rs cs rs' R OK H.
  - inversion H; subst; auto.
  - destruct OK as [O1 O2]. destruct (dstep p rs o) as [rs1|] eqn:E; [|discriminate].
    eapply IH; eauto. eapply dstep_sound; eauto.
Qed.

Lemma rel_top n : rel (repeat a_top n) (repeat (fun _ => True) n).
Proof.
  split; [rewrite !repeat_length; auto|]. split.
  - intros r. unfold dget. destruct (nth_in_or_default r (repeat a_top n) a_top) as [I|E].
    + apply repeat_spec in I. rewrite I. apply inv_top.
    + rewrite E. apply inv_top.
  - intros r c _. unfold dget. destruct (nth_in_or_default r (repeat a_top n) a_top) as [I|E].
    + apply repeat_spec in I. rewrite I. apply Ga_top.
    + rewrite E. apply Ga_top.
Qed.

(* every value read from a cell is in the abstract value of the variable receiving the load *)
Theorem dload_value_sound rs cs r lhs a e idx rs' :
  rel rs cs -> hop_okA rs cs (ALoad r lhs a e idx) ->
  dstep p rs (ALoad r lhs a e idx) = Some rs' -> (r < length rs)%nat ->
  forall s mu v, cget cs r (s, mu) ->
    eval_le e s = esz a -> aligned (esz a) (eval_le idx s) -> cell_ok onecell a (eval_le idx s) ->
    mu a (eval_le idx s) = Some v ->
    gamma (a_at (dget rs' r) lhs) v.
Proof.
  intros R OK RUN LT s mu v C SZ AL O M.
  pose proof (dstep_sound _ _ _ _ R OK RUN) as (LEN & _ & R').
  destruct R as (L & _). destruct OK as (IS & _).
  specialize (R' r (upd s lhs v, mu)). cbn [cstepA] in R'.
  rewrite cget_csetr in R' by lia. rewrite Nat.eqb_refl in R'.
  assert (GG : Ga (dget rs' r) (upd s lhs v, mu)).
  { apply R'. exists s, mu, v. split; [exact C|]. split; [exact SZ|]. split; [exact AL|]. split; [exact O|].
    split; [exact M|]. split; [reflexivity|]. intros b i. reflexivity. }
  pose proof (Ga_at _ _ _ lhs GG IS) as X. rewrite upd_same in X. exact X.
Qed.

Theorem dreach_not_bottom rs cs r c : rel rs cs -> cget cs r c -> a_is_bottom (dget rs r) = false.
Proof. intros (_ & _ & R) C. eapply Ga_not_bottom; eauto. Qed.

Theorem dreach_at_sound rs cs r s mu x : rel rs cs -> cget cs r (s, mu) -> is_pv x ->
  gamma (a_at (dget rs r) x) (s x).
Proof. intros (_ & _ & R) C P. apply (Ga_at _ _ _ x (R _ _ C) P). Qed.

(* ================================================================================== *)
(* The invariant that makes smashing sound: every defined cell of an array that is not
   smashed is tracked (a cell of the offset map with a ghost variable).  The code does not
   maintain it in general (known finding: C14_adaptive_smash_untracked_refuted); it is
   preserved by the operations below. *)
Definition trk (d : adom) (c : cst) : Prop := forall a, arr_smashed d a \/ all_tracked d a (snd c).

Lemma trk_base_only d b' s s1 mu : trk d (s, mu) -> trk (with_base d b') (s1, mu).
Proof.
  intros H a. destruct (H a) as [X|X]; [left; exact X|right].
  intros o v AL O M. destruct (X o v AL O M) as (st & F & S & C & GH). exists st. auto.
Qed.

Lemma trk_mem_ext d s mu mu' : same_mem mu' mu -> trk d (s, mu) -> trk d (s, mu').
Proof.
  intros E H a. destruct (H a) as [X|X]; auto. right. intros o v AL O M. cbn [snd] in *.
  rewrite E in M. eauto.
Qed.

(* one array changes: the others keep their tracked cells *)
Lemma trk_update d1 a st st' b' g' s s1 mu mu1 :
  trk d1 (s, mu) -> am_find (d_arrs d1) a = Some st ->
  (forall a0, a0 <> a -> forall o sz, gh_has g' a0 o sz = true <-> gh_has (d_gh d1) a0 o sz = true) ->
  same_mem_but a mu1 mu ->
  (arr_smashed (mkD b' (am_set (d_arrs d1) a st') g') a \/
   all_tracked (mkD b' (am_set (d_arrs d1) a st') g') a mu1) ->
  trk (mkD b' (am_set (d_arrs d1) a st') g') (s1, mu1).
Proof.
  intros H F GH HM HA a0. destruct (N.eq_dec a0 a) as [->|NA]; auto.
  destruct (H a0) as [(st0 & F0 & S0)|X].
  - left. exists st0. cbn [d_arrs]. rewrite am_find_set_other by auto. auto.
  - right. intros o v AL O M. cbn [snd] in *. rewrite HM in M by auto.
    apply (tracked_other_arr (d_base d1) (d_arrs d1) (d_gh d1) b' a st' g' a0 o (esz a0) NA (GH a0 NA)).
    specialize (X o v AL O M). exact X.
Qed.

Lemma trk_lookup d a st d1 c : lookup d a = (st, d1) -> trk d c -> trk d1 c.
Proof.
  intros LK H a0. destruct (lookup_spec _ _ _ _ LK) as (EB & EG & F & FO & FD).
  destruct (H a0) as [(st0 & F0 & S0)|X].
  - left. exists st0. split; auto. destruct (N.eq_dec a0 a) as [->|NA]; [|rewrite FO; auto].
    destruct FD as [FD|[FD _]]; congruence.
  - right. eapply all_tracked_lookup; eauto.
Qed.

(* the cells with a ghost variable *)
Definition tcells (d : adom) (a : arr) (st : astate) : list cell := filter (gh_hasc (d_gh d) a) (as_map st).

(* executable side condition of a store: when it neither updates one cell nor smashes the
   array (the cells that may be written are only killed), every offset that the index can
   take is the offset of a tracked cell *)
Definition store_keeps (d : adom) (a : arr) (idx : linexp) : Prop :=
  match am_find (d_arrs d) a with
  | Some st =>
    as_smashed st = true \/
    (exists n, isingleton (d_eval idx (a_base (d_base d))) = Some n /\
               Z.of_nat (length (as_map st)) < p_max_size p) \/
    smash_cond p st (esz a) = true \/
    covers_all_offsets (tcells d a st) (d_eval idx (a_base (d_base d))) (esz a) = true
  | None => exists n, isingleton (d_eval idx (a_base (d_base d))) = Some n /\ 0 < p_max_size p
  end.

Lemma store_trk a ez idx val strong d d' s mu mu1 : p_smashable p = true -> inv d ->
  le_pv idx -> aligned (esz a) (eval_le idx s) -> szok d a ez ->
  Ga d (s, mu) -> trk d (s, mu) -> store_keeps d a idx ->
  same_mem_but a mu1 mu ->
  (forall i, mu1 a i = if i =? eval_le idx s then Some (eval_le val s) else mu a i) ->
  a_array_store p a ez idx val strong d = Some d' -> trk d' (s, mu1).
Proof.
  intros SM I PI AL SZ HG TK KEEP HM HA H.
  unfold a_array_store in H. rewrite (Ga_not_bottom _ _ HG) in H.
  destruct (check_elem_size ez (a_base (d_base d))) as [k|] eqn:CK; [|discriminate]. cbn [obind] in H.
  rewrite (SZ k CK) in *. clear k CK.
  destruct (lookup d a) as [st d1] eqn:LK.
  pose proof (lookup_inv _ _ _ _ LK I) as I1. pose proof (lookup_Ga _ _ _ _ _ LK HG) as HG1.
  pose proof (trk_lookup _ _ _ _ _ LK TK) as TK1.
  destruct (lookup_spec _ _ _ _ LK) as (EB & EG & F & FO & FD).
  destruct (inv_of_Ga _ _ I1 HG1) as (W & T & U).
  set (i := eval_le idx s) in *.
  assert (EI : forall n, isingleton (d_eval idx (a_base (d_base d1))) = Some n -> i = n).
  { intros n SG. destruct HG1 as (s' & G0 & AP & _). eapply G_singleton; eauto. }
  assert (OTH : forall b', trk (with_base d1 b') (s, mu1) \/ True) by auto. clear OTH.
  destruct (as_smashed st) eqn:S.
  - (* smashed: the array map does not change *)
    assert (X : exists b', d' = with_base d1 b').
    { destruct (size_consistent st (esz a)).
      - destruct (s_array_store _ _ _ _ _) as [b'|]; [|discriminate]. inversion H; subst. eauto.
      - inversion H; subst. eauto. }
    destruct X as (b' & ->). intros a0. destruct (N.eq_dec a0 a) as [->|NA].
    + left. exists st. auto.
    + destruct (TK1 a0) as [Y|Y]; [left; exact Y|right].
      intros o v AL0 O M. cbn [snd] in *. rewrite HM in M by auto.
      destruct (Y o v AL0 O M) as (st0 & F0 & S0 & C0 & GH). exists st0. auto.
  - assert (ALLT : all_tracked d1 a mu).
    { destruct (TK1 a) as [(st0 & F0 & S0)|Y]; [congruence|auto]. }
    (* the three paths *)
    assert (CONST : Z.of_nat (length (as_map st)) <? p_max_size p = true ->
              isingleton (d_eval idx (a_base (d_base d1))) = Some i ->
              trk (set_arr d1 a (mkS false (as_esz st) (snd (om_mk (as_map st) i (esz a))))
                           (s_assign (cgv a i (esz a)) val (d_base d1)) (gh_insert (d_gh d1) a i (esz a))) (s, mu1)).
    { intros _ _. unfold set_arr. set (st' := mkS false (as_esz st) (snd (om_mk (as_map st) i (esz a)))).
      apply (trk_update d1 a st st' _ _ s s mu mu1); auto.
      - intros a0 N o sz. rewrite gh_has_insert. split; auto. intros [(E & _)|X]; [congruence|auto].
      - right. intros o v AL0 O M. rewrite HA in M. destruct (Z.eqb_spec o i) as [->|NO].
        + apply (tracked_same_arr _ _ _ a st st'); auto.
          * apply in_om_mk_new.
          * apply gh_has_insert. auto.
        + destruct (ALLT o v AL0 O M) as (st0 & F0 & S0 & (c & J & E1 & E2) & GH).
          rewrite F in F0. inversion F0; subst st0. apply (tracked_same_arr _ _ _ a st st'); auto.
          * exists c. split; auto. unfold st'. cbn [as_map]. apply in_om_mk_old. auto.
          * apply gh_has_insert. auto. }
    assert (NONC : forall d2, store_nonconst p a ez idx val strong (esz a) st d1 = Some d2 ->
              (forall n, isingleton (d_eval idx (a_base (d_base d1))) = Some n ->
                         p_max_size p <= Z.of_nat (length (as_map st))) ->
              trk d2 (s, mu1)).
    { intros d2 H2 NC. unfold store_nonconst in H2. destruct (smash_cond p st (esz a)) eqn:SC.
      - destruct (smash_loop _ _ _ _ _ _ _) as [nb|]; [|discriminate]. cbn [obind] in H2.
        destruct (if fst nb then _ else _) as [b2|]; [|discriminate]. cbn [obind] in H2.
        inversion H2; subst d2. unfold set_arr.
        apply (trk_update d1 a st _ _ _ s s mu mu1); auto.
        + intros a0 N o sz. rewrite gh_has_erase_ghosts. split; [tauto|]. intros X. split; auto. intros (E & _). congruence.
        + left. exists (mkS true (Some (esz a)) []). cbn [d_arrs]. rewrite am_find_set_same, F.
          rewrite as_set_smashed by (rewrite S; discriminate). auto.
      - rewrite kill_eq in H2. rewrite SM in H2. inversion H2; subst d2. unfold set_arr.
        set (cells := om_get_overlap_sym (as_map st) idx (le_addc idx (esz a - 1)) (a_base (d_base d1))) in *.
        apply (trk_update d1 a st _ _ _ s s mu mu1); auto; [tauto|].
        right.
        (* the array state is the old one: what was tracked still is; the written cell is covered *)
        assert (KEEPT : forall o, tracked_cell d1 a o (esz a) ->
                  tracked_cell (mkD (forget_ghosts a (d_gh d1) cells (d_base d1))
                                    (am_set (d_arrs d1) a (mkS false (as_esz st) (kill_cells p cells (as_map st)))) (d_gh d1)) a o (esz a)).
        { intros o (st0 & F0 & S0 & C0 & GH). rewrite F in F0. inversion F0; subst st0.
          exists st. cbn [d_arrs d_gh]. rewrite am_find_set_same, F. rewrite kill_smashable_keeps by auto. auto. }
        intros o v AL0 O M. rewrite HA in M. destruct (Z.eqb_spec o i) as [->|NO]; [|apply KEEPT; eauto].
        apply KEEPT.
        (* the side condition of the store *)
        unfold store_keeps in KEEP. destruct FD as [FD|[FD ->]].
        * rewrite FD in KEEP. destruct KEEP as [X|[(n & SG & LT)|[X|COV]]]; try congruence.
          -- exfalso. rewrite <- EB in SG. specialize (NC n SG). lia.
          -- rewrite <- EB in COV.
             assert (GI : gamma (d_eval idx (a_base (d_base d1))) i).
             { destruct HG1 as (s' & G0 & AP & _). eapply G_eval; eauto. }
             destruct (covers_all_offsets_sound _ _ (esz a) i (esz_pos a) COV GI AL) as (c & J & E).
             unfold tcells in J. apply filter_In in J. destruct J as [J GH].
             destruct (W a st F) as [WL _]. destruct (WL c J) as [S1 _].
             exists st. rewrite <- EG in GH. split; auto. split; auto. split; [exists c; auto|].
             unfold gh_hasc in GH. rewrite E, S1 in GH. auto.
        * rewrite FD in KEEP. destruct KEEP as (n & SG & LT). exfalso. rewrite <- EB in SG.
          specialize (NC n SG). simpl in NC. lia. }
    destruct (isingleton (d_eval idx (a_base (d_base d1)))) as [n|] eqn:SG.
    + pose proof (EI n eq_refl) as EN. subst n.
      destruct (Z.of_nat (length (as_map st)) <? p_max_size p) eqn:LT.
      * rewrite (wl_no_overlap (esz a) (as_map st) i (esz_pos a) (proj1 (W a st F)) AL) in H.
        cbn [kill] in H. inversion H; subst d'. apply CONST; auto.
      * apply NONC; auto. intros n0 E0. inversion E0; subst. apply Z.ltb_ge. auto.
    + apply NONC; auto. intros n0 E0. discriminate.
Qed.

Lemma load_trk lhs a ez idx d d' s s1 mu : inv d -> szok d a ez -> le_pv idx ->
  aligned (esz a) (eval_le idx s) -> Ga d (s, mu) -> trk d (s, mu) ->
  a_array_load p lhs a ez idx d = Some d' -> trk d' (s1, mu).
Proof.
  intros I SZ PI AL HG TK H.
  unfold a_array_load in H. rewrite (Ga_not_bottom _ _ HG) in H.
  destruct (check_elem_size ez (a_base (d_base d))) as [k|] eqn:CK; [|discriminate]. cbn [obind] in H.
  rewrite (SZ k CK) in *. clear k CK.
  destruct (lookup d a) as [st d1] eqn:LK.
  pose proof (lookup_inv _ _ _ _ LK I) as I1. pose proof (lookup_Ga _ _ _ _ _ LK HG) as HG1.
  pose proof (trk_lookup _ _ _ _ _ LK TK) as TK1.
  destruct (lookup_spec _ _ _ _ LK) as (EB & EG & F & FO & FD).
  destruct (inv_of_Ga _ _ I1 HG1) as (W & T & U).
  assert (BASE : forall b', trk (with_base d1 b') (s1, mu)) by (intros b'; eapply trk_base_only; eauto).
  destruct (as_smashed st) eqn:S.
  - destruct (size_consistent st (esz a)); [|inversion H; subst; auto].
    destruct (s_array_load _ _ _ _) as [b'|]; [|discriminate]. inversion H; subst. auto.
  - destruct (isingleton (d_eval idx (a_base (d_base d1)))) as [n|] eqn:SG.
    + assert (EN : eval_le idx s = n) by (destruct HG1 as (s' & G0 & AP & _); eapply G_singleton; eauto).
      subst n. rewrite (wl_no_overlap (esz a) (as_map st) _ (esz_pos a) (proj1 (W a st F)) AL) in H.
      inversion H; subst d'. unfold set_arr.
      set (i := eval_le idx s) in *. set (st' := mkS false (as_esz st) (snd (om_mk (as_map st) i (esz a)))).
      apply (trk_update d1 a st st' _ _ s s1 mu mu); auto.
      * intros a0 N o sz. rewrite gh_has_insert. split; auto. intros [(E & _)|X]; [congruence|auto].
      * intros b o N. auto.
      * right. destruct (TK1 a) as [(st0 & F0 & S0)|ALLT]; [congruence|].
        intros o v AL0 O M. destruct (ALLT o v AL0 O M) as (st0 & F0 & S0 & (c & J & E1 & E2) & GH).
        rewrite F in F0. inversion F0; subst st0. apply (tracked_same_arr _ _ _ a st st'); auto.
        -- exists c. split; auto. unfold st'. cbn [as_map]. apply in_om_mk_old. auto.
        -- apply gh_has_insert. auto.
    + destruct (_ && _); [|inversion H; subst; auto].
      destruct (smash_loop _ _ _ _ _ _ _) as [nb|]; [|discriminate]. cbn [obind] in H.
      destruct (if fst nb then _ else _) as [b2|]; [|discriminate]. cbn [obind] in H.
      inversion H; subst. auto.
Qed.

(* with room in the array every store of a range takes the path that updates one cell *)
Lemma room_keeps d a i n : a_is_bottom d = false -> room d a (n + 1) -> 0 <= n -> store_keeps d a (le_k i).
Proof.
  intros B R PN. unfold store_keeps. rewrite d_eval_k, isingleton_iconst.
  destruct (am_find (d_arrs d) a) as [st|] eqn:F.
  - destruct (as_smashed st) eqn:S; auto. right. left. exists i. split; auto.
    destruct R as [(st0 & F0 & S0)|R]; [congruence|]. unfold cells_len in R. rewrite F in R. lia.
  - exists i. split; auto. destruct R as [(st0 & F0 & S0)|R]; [congruence|].
    unfold cells_len in R. rewrite F in R. lia.
Qed.

Lemma range_loop_trk a val s : p_smashable p = true -> le_pv val -> forall n i d d' mu, inv d -> aligned (esz a) i ->
  room d a (Z.of_nat n) -> Ga d (s, mu) -> trk d (s, mu) ->
  range_loop p a (le_k (esz a)) val i (esz a) n d = Some d' ->
  trk d' (s, cwrite mu a i (esz a) (eval_le val s) n).
Proof.
  intros SM PV. induction n as [|n IH]; cbn [range_loop cwrite]; intros i d d' mu I AL R HG TK H;
    [inversion H; subst; auto|].
  destruct (a_array_store p a (le_k (esz a)) (le_k i) val false d) as [d1|] eqn:ST; [|discriminate].
  cbn [obind] in H.
  assert (R1 : room d a (Z.of_nat n + 1)) by (rewrite Nat2Z.inj_succ in R; replace (Z.of_nat n + 1) with (Z.succ (Z.of_nat n)) by lia; exact R).
  set (mu1 := fun b o => if N.eqb b a && (o =? i) then Some (eval_le val s) else mu b o).
  assert (HM : same_mem_but a mu1 mu).
  { intros b o N. unfold mu1. destruct (N.eqb_spec b a); [congruence|auto]. }
  assert (HA : forall o, mu1 a o = if o =? eval_le (le_k i) s then Some (eval_le val s) else mu a o).
  { intros o. unfold mu1. rewrite N.eqb_refl, eval_le_k. simpl. auto. }
  apply (IH (i + esz a) d1 d' mu1); auto.
  - eapply store_inv; eauto; [apply szok_k|apply idxok_k; auto].
  - apply aligned_step; auto.
  - eapply store_room; eauto. lia.
  - apply (store_Ga a (le_k (esz a)) (le_k i) val false d d1 s mu mu1); auto.
    + apply le_pv_k.
    + apply le_pv_k.
    + apply wf_le_k.
    + discriminate.
    + intros st F S NC _. exfalso. specialize (NC i). rewrite d_eval_k, isingleton_iconst in NC.
      specialize (NC eq_refl). destruct R1 as [(st0 & F0 & S0)|R1]; [congruence|].
      unfold cells_len in R1. rewrite F in R1. lia.
  - apply (store_trk a (le_k (esz a)) (le_k i) val false d d1 s mu mu1); auto.
    + apply le_pv_k.
    + apply szok_k.
    + apply (room_keeps d a i (Z.of_nat n)); auto; [eapply Ga_not_bottom; eauto|lia].
Qed.

Lemma trk_ext d s mu mu2 : (forall b o, mu2 b o = mu b o) -> trk d (s, mu) -> trk d (s, mu2).
Proof.
  intros E H a. destruct (H a) as [X|X]; auto. right. intros o v AL O M. cbn [snd] in *. rewrite E in M. eauto.
Qed.

Lemma store_range_trk a ez lb ub val d d' s mu mu1 : p_smashable p = true -> inv d -> range_ok d a ez lb ub ->
  le_pv lb -> le_pv ub -> le_pv val -> Ga d (s, mu) -> trk d (s, mu) ->
  (* the bounds are constants: otherwise the array is forgotten and nothing is tracked any more *)
  (exists l u, isingleton (d_eval lb (a_base (d_base d))) = Some l /\
               isingleton (d_eval ub (a_base (d_base d))) = Some u) ->
  (forall b o, mu1 b o = cwrite mu a (eval_le lb s) (esz a) (eval_le val s)
                                (rcount (eval_le lb s) (eval_le ub s) (esz a)) b o) ->
  a_array_store_range p a ez lb ub val d = Some d' -> trk d' (s, mu1).
Proof.
  intros SM I [-> R] PL PU PV HG TK (l & u & SL & SU) HM H. pose proof (Ga_not_bottom _ _ HG) as B.
  assert (EL : eval_le lb s = l) by (destruct HG as (s' & G0 & AP & _); eapply G_singleton; eauto).
  assert (EU : eval_le ub s = u) by (destruct HG as (s' & G0 & AP & _); eapply G_singleton; eauto).
  rewrite EL, EU in HM.
  destruct (Z.ltb_spec u l) as [LT|GE].
  { unfold a_array_store_range in H. rewrite B, SL, SU in H. destruct (check_elem_size _ _); [|discriminate].
    cbn [obind] in H. replace (u <? l) with true in H by (symmetry; apply Z.ltb_lt; auto).
    inversion H; subst d'. apply (trk_ext _ _ mu); auto. intros b o. rewrite HM. unfold rcount.
    replace (u <? l) with true by (symmetry; apply Z.ltb_lt; auto). reflexivity. }
  destruct (R l u SL SU GE) as (AL & Q & RM).
  apply store_range_reduce with (l := l) (u := u) in H; auto.
  apply (trk_ext _ _ _ _ HM). apply (range_loop_trk a val s SM PV _ l d d' mu); auto.
  unfold rcount. replace (u <? l) with false by (symmetry; apply Z.ltb_ge; lia).
  rewrite Z2Nat.id; [apply RM; auto|]. pose proof (Z.quot_pos (u - l) (esz a)). pose proof (esz_pos a). lia.
Qed.

Lemma init_kill_trk a st d1 s mu mu0 : p_smashable p = true -> am_find (d_arrs d1) a = Some st ->
  trk d1 (s, mu) -> same_mem_but a mu0 mu -> (forall o, mu0 a o = None) ->
  trk (init_kill a st d1) (s, mu0).
Proof.
  intros SM F TK HM HN. destruct (init_kill_eq a st d1 F) as [E|[S E]]; rewrite E.
  - intros a0. destruct (N.eq_dec a0 a) as [->|NA].
    + right. intros o v _ _ M. cbn [snd] in M. rewrite HN in M. discriminate.
    + destruct (TK a0) as [X|X]; auto. right. intros o v AL O M. cbn [snd] in *. rewrite HM in M by auto. eauto.
  - unfold set_arr. rewrite SM. apply (trk_update d1 a st _ _ _ s s mu mu0); auto; [tauto|].
    right. intros o v _ _ M. rewrite HN in M. discriminate.
Qed.

Lemma init_trk a ez lb ub val d d' s mu mu1 : p_smashable p = true -> inv d -> init_ok d a ez lb ub ->
  le_pv val -> Ga d (s, mu) -> trk d (s, mu) ->
  (forall b o, mu1 b o = cwrite (fun b' o' => if N.eqb b' a then None else mu b' o') a (eval_le lb s) (esz a)
                                (eval_le val s) (rcount (eval_le lb s) (eval_le ub s) (esz a)) b o) ->
  a_array_init p a ez lb ub val d = Some d' -> trk d' (s, mu1).
Proof.
  intros SM I (l & u & -> & -> & R) PV HG TK HM H. pose proof (Ga_not_bottom _ _ HG) as B.
  rewrite array_init_unfold in H by auto. destruct (lookup d a) as [st d1] eqn:LK.
  pose proof (lookup_inv _ _ _ _ LK I) as I1. pose proof (lookup_Ga _ _ _ _ _ LK HG) as HG1.
  pose proof (trk_lookup _ _ _ _ _ LK TK) as TK1.
  destruct (lookup_spec _ _ _ _ LK) as (EB & EG & F & FO & FD).
  assert (B1 : a_is_bottom d1 = false) by (unfold a_is_bottom; rewrite EB; exact B).
  set (mu0 := fun b' o' => if N.eqb b' a then None else mu b' o') in *.
  assert (ROK : range_ok (init_kill a st d1) a ez (le_k l) (le_k u)).
  { apply (range_ok_const d); auto. intros n RM. apply init_kill_room; auto.
    destruct RM as [(st0 & F0 & S0)|RM].
    - left. exists st0. destruct FD as [FD|[FD _]]; [|congruence]. rewrite FD in F0. inversion F0; subst. auto.
    - right. unfold cells_len in *. rewrite F. destruct FD as [FD|[FD ->]]; rewrite FD in RM; simpl; auto. }
  apply (store_range_trk a ez (le_k l) (le_k u) val (init_kill a st d1) d' s mu0 mu1); auto.
  - apply init_kill_inv; auto.
  - apply le_pv_k.
  - apply le_pv_k.
  - apply (Ga_shrink _ s mu); [apply init_kill_Ga; auto|].
    intros b o v M. unfold mu0 in M. destruct (N.eqb b a); [discriminate|auto].
  - apply (init_kill_trk a st d1 s mu mu0); auto.
    + intros b o N. unfold mu0. destruct (N.eqb_spec b a); [congruence|auto].
    + intros o. unfold mu0. rewrite N.eqb_refl. auto.
  - exists l, u. rewrite !d_eval_k, !isingleton_iconst. auto.
Qed.

(* ---- the invariant through a join of values that track the same cells ---- *)
Definition shape_ok (X Y : adom) : Prop :=
  (forall a, am_find (d_arrs X) a = None <-> am_find (d_arrs Y) a = None) /\
  (forall a x y, am_find (d_arrs X) a = Some x -> am_find (d_arrs Y) a = Some y ->
     as_smashed x = false -> as_smashed y = false ->
     forall o sz, gh_has (d_gh X) a o sz = true <-> gh_has (d_gh Y) a o sz = true).

Lemma join_like_trk eop x y d' s mu : inv x -> inv y -> NoDup (map fst (d_arrs x)) -> jreg x y ->
  shape_ok x y -> trk x (s, mu) \/ trk y (s, mu) ->
  join_like p (jop eop) gh_join x y = Some d' -> trk d' (s, mu).
Proof.
  intros IX IY ND REG [SK SG] TK H. unfold join_like in H.
  destruct (am_join_loop _ _ _ _ _ _ _ _ _) as [[[m [gl bl]] [gr br]]|] eqn:LP; [|discriminate].
  cbn [obind] in H. inversion H; subst d'. clear H.
  destruct (REG _ _ _ _ _ LP) as (NBL & NBR & NLL & NLR).
  assert (DX : mkD (d_base x) (d_arrs x) (d_gh x) = x) by (destruct x; auto).
  assert (DY : mkD (d_base y) (d_arrs y) (d_gh y) = y) by (destruct y; auto).
  destruct (am_join_loop_spec _ _ _ _ _ _ _ _ _ _ _ _ _ (d_arrs x) (d_arrs y) LP ND NBL NBR)
    as (AL' & AR' & I1 & I2 & K1 & K2 & FRM & M1 & M2 & _ & _ & X1 & X2).
  { rewrite DX. auto. } { rewrite DY. auto. }
  { intros a st I. split; [apply am_find_in_pair; auto|auto]. }
  intros a. destruct (am_find (d_arrs x) a) as [xa|] eqn:FX.
  - destruct (am_find (d_arrs y) a) as [ya|] eqn:FY; [|apply SK in FY; congruence].
    assert (IM : am_find m a <> None).
    { apply (M2 a xa ya); auto. clear - FX. induction (d_arrs x) as [|[b s0] r IH]; simpl in *; [discriminate|].
      destruct (N.eqb_spec b a) as [->|N]; [inversion FX; subst; auto|auto]. }
    destruct (am_find m a) as [res|] eqn:FM; [|congruence].
    destruct (M1 a res FM) as (x' & y' & FX' & FY' & J1 & J2 & J3).
    destruct (as_smashed res) eqn:SR; [left; exists res; auto|]. right.
    symmetry in J1. apply orb_false_iff in J1. destruct J1 as [SX SY].
    destruct (X1 a x' FX' SX) as [EX GX]. destruct (X2 a y' FY' SY) as [EY GY].
    rewrite FX in EX. rewrite FY in EY. inversion EX; inversion EY; subst x' y'.
    intros o v AL O M. cbn [snd] in M.
    assert (TC : exists c, (In c (as_map xa) \/ In c (as_map ya)) /\ c_off c = o /\ c_size c = esz a /\
                           gh_has (d_gh x) a o (esz a) = true /\ gh_has (d_gh y) a o (esz a) = true).
    { destruct TK as [TK|TK].
      - destruct (TK a) as [(st0 & F0 & S0)|AT]; [congruence|].
        destruct (AT o v AL O M) as (st0 & F0 & S0 & (c & J & E1 & E2) & GH).
        rewrite FX in F0. inversion F0; subst st0. exists c. split; auto. split; auto. split; auto. split; auto.
        apply (SG a xa ya); auto.
      - destruct (TK a) as [(st0 & F0 & S0)|AT]; [congruence|].
        destruct (AT o v AL O M) as (st0 & F0 & S0 & (c & J & E1 & E2) & GH).
        rewrite FY in F0. inversion F0; subst st0. exists c. split; auto. split; auto. split; auto. split; auto.
        apply (SG a xa ya); auto. }
    destruct TC as (c & J & E1 & E2 & G1 & G2).
    destruct (J3 eq_refl c J) as (c' & I' & F1 & F2).
    exists res. cbn [d_arrs d_gh]. split; auto. split; auto. split.
    + exists c'. split; auto. split; congruence.
    + apply gh_join_has; auto.
  - assert (FY : am_find (d_arrs y) a = None) by (apply SK; auto).
    right. intros o v AL O M. cbn [snd] in M. exfalso. destruct TK as [TK|TK].
    + destruct (TK a) as [(st0 & F0 & S0)|AT]; [congruence|].
      destruct (AT o v AL O M) as (st0 & F0 & _). congruence.
    + destruct (TK a) as [(st0 & F0 & S0)|AT]; [congruence|].
      destruct (AT o v AL O M) as (st0 & F0 & _). congruence.
Qed.

(* with operands that are neither top nor bottom the join takes no shortcut *)
Lemma jk_no_shortcut k x y : a_is_bottom x = false -> a_is_bottom y = false ->
  a_is_top x = false -> a_is_top y = false ->
  jk_run k x y = join_like p (jop (jk_eop k)) gh_join x y.
Proof.
  intros BX BY TX TY. destruct k; simpl; unfold a_join, a_widen, a_widen_thr; rewrite BX, BY, ?TX, ?TY; reflexivity.
Qed.

Lemma jk_trk k x y d' s mu : inv x -> inv y -> NoDup (map fst (d_arrs x)) -> jreg x y ->
  shape_ok x y -> a_is_top x = false -> a_is_top y = false ->
  (Ga x (s, mu) /\ trk x (s, mu)) \/ (Ga y (s, mu) /\ trk y (s, mu)) ->
  jk_run k x y = Some d' -> trk d' (s, mu).
Proof.
  intros IX IY ND REG SH TX TY HC H.
  destruct (a_is_bottom x) eqn:BX.
  { (* x describes nothing: the result is y, or x when y is bottom too *)
    destruct HC as [[HG _]|[HG T]]; [rewrite (Ga_not_bottom _ _ HG) in BX; discriminate|].
    pose proof (Ga_not_bottom _ _ HG) as BY.
    destruct k; simpl in H; unfold a_join, a_widen, a_widen_thr in H; rewrite BX, BY, ?TX, ?TY in H; cbn [orb] in H;
      inversion H; subst; auto. }
  destruct (a_is_bottom y) eqn:BY.
  { destruct HC as [[HG T]|[HG _]]; [|rewrite (Ga_not_bottom _ _ HG) in BY; discriminate].
    destruct k; simpl in H; unfold a_join, a_widen, a_widen_thr in H; rewrite ?BX, BY, ?TX, ?TY in H; cbn [orb] in H;
      inversion H; subst; auto. }
  rewrite jk_no_shortcut in H by auto.
  refine (join_like_trk (jk_eop k) x y d' s mu IX IY ND REG SH _ H). destruct HC as [[_ T]|[_ T]]; auto.
Qed.

(* ---- soundness with the invariant carried along (smashable settings) ---- *)
Definition relT (rs : list adom) (cs : list cset) : Prop :=
  rel rs cs /\ forall r c, (r < length rs)%nat -> cget cs r c -> trk (dget rs r) c.

Definition scalar_var (v : avar) : Prop := exists x, v = VS x /\ is_pv x.

(* side conditions that only look at the abstract state; the operations that lose track of
   defined cells (top, forget / project / rename / copy of arrays, joins of values that track different
   cells) are not covered here *)
Definition joinT_ok (X Y : adom) : Prop :=
  NoDup (map fst (d_arrs X)) /\ jreg X Y /\ Lsz X /\ Lsz Y /\ shape_ok X Y /\
  a_is_top X = false /\ a_is_top Y = false.

Definition hop_okT (rs : list adom) (o : ahop) : Prop :=
  match o with
  | AJoin _ s t | AWiden _ s t | AWidenThr _ s t _ =>
    joinT_ok (dget rs s) (dget rs t) /\ (s < length rs)%nat /\ (t < length rs)%nat
  | ABot _ => True
  | ACopy _ s => (s < length rs)%nat
  | AAssign _ x e => is_pv x /\ le_pv e
  | AArith _ _ x y z => is_pv x /\ is_pv y /\ operand_pv z
  | AAssume _ cl => forall c, In c cl -> wf_lc c /\ lc_pv c
  | AForget _ vs => forall v, In v vs -> scalar_var v
  | AForget1 _ v => scalar_var v
  | AExpand _ (VS x) (VS y) => is_pv x /\ is_pv y
  | ARename r [VS x] [VS y] => is_pv x /\ is_pv y /\ is_top (e_at (a_base (d_base (dget rs r))) y) = true
  | AInit r a e lb ub val => init_ok (dget rs r) a e lb ub /\ le_pv val
  | ALoad r lhs a e idx =>
    is_pv lhs /\ le_pv e /\ le_pv idx /\ wf_le idx /\ szok (dget rs r) a e /\ idxok (dget rs r) a idx
  | AStore r a e idx val _ =>
    le_pv e /\ le_pv idx /\ wf_le idx /\ le_pv val /\ szok (dget rs r) a e /\ idxok (dget rs r) a idx /\
    store_keeps (dget rs r) a idx /\ (r < length rs)%nat
  | ARange r a e lb ub val =>
    range_ok (dget rs r) a e lb ub /\ le_pv lb /\ le_pv ub /\ le_pv val /\
    (a_is_bottom (dget rs r) = false ->
     exists l u, isingleton (d_eval lb (a_base (d_base (dget rs r)))) = Some l /\
                 isingleton (d_eval ub (a_base (d_base (dget rs r)))) = Some u)
  | _ => False
  end.

Lemma trk_tracked_for_store d a idx s mu : trk d (s, mu) -> tracked_for_store d a idx mu.
Proof.
  intros TK st F S _ _. destruct (TK a) as [(st0 & F0 & S0)|X]; [congruence|exact X].
Qed.

Lemma joinT_join_ok rs cs s t : relT rs cs -> joinT_ok (dget rs s) (dget rs t) ->
  (s < length rs)%nat -> (t < length rs)%nat ->
  join_ok (dget rs s) (dget rs t) (cget cs s) (cget cs t).
Proof.
  intros [R TK] (ND & REG & LX & LY & SH & TX & TY) LS LT.
  split; auto. split; auto. split; auto. split; auto.
  split; [intros E; congruence|]. split; [intros E; congruence|]. split.
  - intros s0 mu C a st sy F FY S SY. destruct (TK s _ LS C a) as [(st0 & F0 & S0)|X]; auto. congruence.
  - intros s0 mu C a st sy F FY S SY. destruct (TK t _ LT C a) as [(st0 & F0 & S0)|X]; auto. congruence.
Qed.

Lemma hop_okT_A rs cs o : relT rs cs -> hop_okT rs o -> hop_okA rs cs o.
Proof.
  intros RT OK. pose proof RT as [R TK]. destruct o; cbn [hop_okT hop_okA] in *; try tauto; auto.
  all: try (intros v0 I0; destruct (OK v0 I0) as (x0 & -> & P0); exact P0).
  all: try (destruct OK as (x0 & -> & P0); exact P0).
  all: try (destruct v as [x|a], nv as [y|b]; tauto).
  all: try (destruct from as [|[x|a] [|? ?]]; try tauto; destruct to as [|[y|b] [|? ?]]; tauto).
  all: try (destruct OK as (J & LS & LT); apply joinT_join_ok; auto).
  destruct OK as (P1 & P2 & P3 & P4 & P5 & P6 & P7 & P8). repeat (split; auto).
  intros s mu C. apply (trk_tracked_for_store _ _ _ s). apply TK; auto.
Qed.

Lemma relT_set rs cs r d (c : cset) : relT rs cs -> inv d -> (forall x, c x -> Ga d x) ->
  (forall x, c x -> trk d x) -> relT (dset rs r d) (csetr cs r c).
Proof.
  intros [R TK] I HG HT. split; [apply rel_set; auto|].
  destruct R as (L & _). intros r' x LR. rewrite dset_length in LR.
  destruct (Nat.lt_ge_cases r (length rs)) as [LT|GE].
  - rewrite dget_dset by auto. rewrite cget_csetr by lia. destruct (Nat.eqb r' r); auto.
  - rewrite dset_oob by auto. rewrite csetr_oob by lia. auto.
Qed.

Lemma trk_pair d c : trk d (fst c, snd c) -> trk d c.
Proof. destruct c; auto. Qed.

Theorem dstep_sound_tracked rs cs o rs' : p_smashable p = true ->
  relT rs cs -> hop_okT rs o -> dstep p rs o = Some rs' -> relT rs' (cstepA cs o).
Proof.
  intros SM RT OK H. pose proof (hop_okT_A _ _ _ RT OK) as OKA.
  pose proof RT as [R TK]. pose proof (dstep_sound _ _ _ _ R OKA H) as R'.
  split; auto. pose proof R as (L & RI & RG).
  assert (SET : forall r d (c : cset), rs' = dset rs r d -> ((r < length rs)%nat -> forall x, c x -> trk d x) ->
            forall r' x, (r' < length rs')%nat -> cget (csetr cs r c) r' x -> trk (dget rs' r') x).
  { intros r d c -> HT r' x LR. rewrite dset_length in LR. destruct (Nat.lt_ge_cases r (length rs)) as [LT|GE].
    - rewrite dget_dset by auto. rewrite cget_csetr by lia. destruct (Nat.eqb r' r); auto.
    - rewrite dset_oob by auto. rewrite csetr_oob by lia. auto. }
  destruct o; cbn [dstep cstepA cstep hop_okT] in *; try (exfalso; exact OK).
  - inversion H; subst. apply (SET r a_bot _ eq_refl). intros LT x [].
  - inversion H; subst. apply (SET r (dget rs s) _ eq_refl). intros LT x C. apply TK; auto.
  - inversion H; subst. apply (SET r _ _ eq_refl). intros LT c (s & mu & C & E1 & E2).
    apply trk_pair. rewrite E1. apply (trk_mem_ext _ _ mu); auto. eapply trk_base_only. apply (TK r _ LT C).
  - inversion H; subst. apply (SET r _ _ eq_refl). intros LT c (s & mu & v & C & AS & E1 & E2).
    apply trk_pair. rewrite E1. apply (trk_mem_ext _ _ mu); auto. eapply trk_base_only. apply (TK r _ LT C).
  - inversion H; subst. apply (SET r _ _ eq_refl). intros LT [s mu] [C S]. eapply trk_base_only. apply (TK r _ LT C).
  - (* forget of scalars *)
    inversion H; subst. apply (SET r _ _ eq_refl). intros LT [s1 mu1] (s & mu & C & E1 & E2).
    assert (NA : forall a, ~ In (VA a) vs).
    { intros a I. destruct (OK _ I) as (x & E & _). discriminate. }
    assert (FF : fa_fold vs (dget rs r) = dget rs r).
    { unfold fa_fold. clear - NA. revert NA. generalize (dget rs r). induction vs as [|v t IH]; simpl; intros d NA; auto.
      destruct v as [x|a]; [apply IH; intros a I; apply (NA a); auto|]. exfalso. apply (NA a). auto. }
    apply (trk_ext _ _ mu); [intros b o; apply E2; auto|].
    unfold a_forget. destruct (_ || _); [apply (TK r _ LT C)|].
    fold (fa_fold vs (dget rs r)). rewrite FF. eapply trk_base_only. apply (TK r _ LT C).
  - inversion H; subst. apply (SET r _ _ eq_refl). intros LT [s1 mu1] (s & mu & C & E1 & E2).
    destruct OK as (x & -> & P). apply (trk_ext _ _ mu); [intros b o; apply E2; discriminate|].
    unfold a_forget1. destruct (a_is_bottom _); [apply (TK r _ LT C)|]. eapply trk_base_only. apply (TK r _ LT C).
  - (* expand *)
    destruct v as [x|a], nv as [y|b]; try destruct OK.
    destruct (a_expand (VS x) (VS y) (dget rs r)) as [d'|] eqn:E; inversion H; subst.
    apply (SET r _ _ eq_refl). intros LT c (s & mu & C & E1 & E2).
    apply trk_pair. rewrite E1. apply (trk_mem_ext _ _ mu); auto.
    unfold a_expand in E. destruct (_ || _); inversion E; subst; [apply (TK r _ LT C)|].
    eapply trk_base_only. apply (TK r _ LT C).
  - destruct from as [|[x|a] [|? ?]]; try tauto; destruct to as [|[y|b] [|? ?]]; try tauto.
    destruct (a_rename [VS x] [VS y] (dget rs r)) as [d'|] eqn:E; inversion H; subst.
    apply (SET r _ _ eq_refl). intros LT c (s & mu & h & C & E1 & E2).
    apply trk_pair. rewrite E1. apply (trk_mem_ext _ _ mu); auto.
    destruct (a_is_bottom (dget rs r) || a_is_top (dget rs r)) eqn:Q.
    + unfold a_rename in E. rewrite Q in E. inversion E; subst. apply (TK r _ LT C).
    + rewrite rename_scalar_eq in E by auto. inversion E; subst.
      change (trk (with_base (dget rs r) (s_rename [VS x] [VS y] (d_base (dget rs r)))) (rename_store s [(x, y)] [h], mu)).
      eapply trk_base_only. apply (TK r _ LT C).
  - (* array_init *)
    destruct OK as [P1 P2].
    destruct (a_array_init p a esz0 lb ub val (dget rs r)) as [d'|] eqn:E; inversion H; subst.
    apply (SET r _ _ eq_refl). intros LT [s1 mu1] (s & mu & C & SZ & E1 & E2). cbn [fst snd] in *. subst s1.
    exact (init_trk a esz0 lb ub val (dget rs r) d' s mu mu1 SM (RI r) P1 P2 (RG r _ C) (TK r _ LT C) E2 E).
  - (* array_load *)
    destruct OK as (P1 & P2 & P3 & P4 & P5 & P6).
    destruct (a_array_load p lhs a esz0 idx (dget rs r)) as [d'|] eqn:E; inversion H; subst.
    apply (SET r _ _ eq_refl). intros LT c (s & mu & v & C & SZ & AL & O & M & E1 & E2).
    apply trk_pair. rewrite E1. apply (trk_mem_ext _ _ mu); auto.
    exact (load_trk lhs a esz0 idx (dget rs r) d' s _ mu (RI r) P5 P3 AL (RG r _ C) (TK r _ LT C) E).
  - (* array_store *)
    destruct OK as (P1 & P2 & P3 & P4 & P5 & P6 & P7 & P8).
    destruct (a_array_store p a esz0 idx val strong (dget rs r)) as [d'|] eqn:E; inversion H; subst.
    apply (SET r _ _ eq_refl). intros LT [s1 mu1] (s & mu & C & SZ & AL & ST & E1 & E2 & E3).
    cbn [fst snd] in *. subst s1.
    exact (store_trk a esz0 idx val strong (dget rs r) d' s mu mu1 SM (RI r) P2 AL P5 (RG r _ C) (TK r _ LT C) P7 E2 E3 E).
  - (* array_store_range *)
    destruct OK as (P1 & P2 & P3 & P4 & P5).
    destruct (a_array_store_range p a esz0 lb ub val (dget rs r)) as [d'|] eqn:E; inversion H; subst.
    apply (SET r _ _ eq_refl). intros LT [s1 mu1] (s & mu & C & SZ & E1 & E2). cbn [fst snd] in *. subst s1.
    refine (store_range_trk a esz0 lb ub val (dget rs r) d' s mu mu1 SM (RI r) P1 P2 P3 P4 (RG r _ C) (TK r _ LT C) _ E2 E).
    apply P5. eapply Ga_not_bottom. apply (RG r _ C).
  - (* join *)
    destruct OK as ((ND & REG & LX & LY & SH & TX & TY) & LS & LT).
    destruct (a_join p (dget rs s) (dget rs t)) as [d'|] eqn:E; inversion H; subst.
    apply (SET r _ _ eq_refl). intros LR [s0 mu] C.
    apply (jk_trk JJoin (dget rs s) (dget rs t) d' s0 mu); auto.
    destruct C as [C|C]; [left|right]; split; auto.
  - destruct OK as ((ND & REG & LX & LY & SH & TX & TY) & LS & LT).
    destruct (a_widen p (dget rs s) (dget rs t)) as [d'|] eqn:E; inversion H; subst.
    apply (SET r _ _ eq_refl). intros LR [s0 mu] C.
    apply (jk_trk JWiden (dget rs s) (dget rs t) d' s0 mu); auto.
    destruct C as [C|C]; [left|right]; split; auto.
  - destruct OK as ((ND & REG & LX & LY & SH & TX & TY) & LS & LT).
    destruct (a_widen_thr p ths (dget rs s) (dget rs t)) as [d'|] eqn:E; inversion H; subst.
    apply (SET r _ _ eq_refl). intros LR [s0 mu] C.
    apply (jk_trk (JThr ths) (dget rs s) (dget rs t) d' s0 mu); auto.
    destruct C as [C|C]; [left|right]; split; auto.
Qed.

Fixpoint hist_okT (rs : list adom) (h : list ahop) : Prop :=
  match h with
  | [] => True
  | o :: r => hop_okT rs o /\ match dstep p rs o with Some rs' => hist_okT rs' r | None => True end
  end.

Theorem dhistory_sound_tracked h : p_smashable p = true -> forall rs cs rs',
  relT rs cs -> hist_okT rs h -> drun p rs h = Some rs' -> relT rs' (fold_left cstepA h cs).
Proof.
  intros SM. induction h as [|o r IH]; simpl; intros rs cs rs' R OK H.
  - inversion H; subst; auto.
  - destruct OK as [O1 O2]. destruct (dstep p rs o) as [rs1|] eqn:E; [|discriminate].
    eapply IH; eauto. eapply dstep_sound_tracked; eauto.
Qed.

(* executions start with no cell defined *)
Definition empty_mem : cset := fun c => forall a o, snd c a o = None.

Lemma relT_top n : relT (repeat a_top n) (repeat empty_mem n).
Proof.
  split.
  - destruct (rel_top n) as (L & I & G0). split; [rewrite !repeat_length; auto|]. split; auto.
    intros r c _. unfold dget. destruct (nth_in_or_default r (repeat a_top n) a_top) as [J|E].
    + apply repeat_spec in J. rewrite J. apply Ga_top.
    + rewrite E. apply Ga_top.
  - intros r c LT C a. rewrite repeat_length in LT. right. intros o v _ _ M. exfalso.
    assert (X : empty_mem c).
    { unfold cget in C. rewrite nth_indep with (d' := empty_mem) in C by (rewrite repeat_length; auto).
      destruct (nth_in_or_default r (repeat empty_mem n) empty_mem) as [J|E2].
      - apply repeat_spec in J. rewrite J in C. exact C.
      - rewrite E2 in C. exact C. }
    rewrite X in M. discriminate.
Qed.

End Adapt.

(* ================================================================================== *)
(* Settings that are not smashable (is_smashable = false): no array is ever smashed, the
   hypothesis on tracked cells is never needed. *)
Section NoSmash.
Variable esz : arr -> Z.
Variable onecell : arr -> option Z.
Hypothesis esz_pos : forall a, 0 < esz a.
Variable p : params.
Hypothesis NS : p_smashable p = false.

Definition nosmash (d : adom) : Prop := forall a st, am_find (d_arrs d) a = Some st -> as_smashed st = false.

Lemma nosmash_lookup d a st d1 : lookup d a = (st, d1) -> nosmash d -> nosmash d1 /\ as_smashed st = false.
Proof.
  intros LK H. destruct (lookup_spec _ _ _ _ LK) as (_ & _ & F & FO & FD).
  assert (S : as_smashed st = false) by (destruct FD as [FD|[_ ->]]; [eapply H; eauto|reflexivity]).
  split; auto. intros b st0 F0. destruct (N.eq_dec b a) as [->|N]; [congruence|]. rewrite FO in F0 by auto. eauto.
Qed.

Lemma nosmash_set b m g a st' b' g' : nosmash (mkD b m g) -> as_smashed st' = false ->
  nosmash (mkD b' (am_set m a st') g').
Proof.
  intros H S c st0 F0. cbn [d_arrs] in *. destruct (N.eq_dec c a) as [->|N].
  - rewrite am_find_set_same in F0. destruct (am_find m a) as [old|] eqn:F; inversion F0; subst; auto.
    unfold as_set. destruct (as_eqb old st'); auto. eapply H; eauto.
  - rewrite am_find_set_other in F0 by auto. eauto.
Qed.

Lemma nosmash_base d b' : nosmash d -> nosmash (with_base d b').
Proof. intros H a st F. eapply H; eauto. Qed.

Lemma smash_cond_false st k : smash_cond p st k = false.
Proof. unfold smash_cond. rewrite NS. reflexivity. Qed.

Lemma nosmash_store a ez idx val strong d d' : nosmash d ->
  a_array_store p a ez idx val strong d = Some d' -> nosmash d'.
Proof.
  intros H E. unfold a_array_store in E. destruct (a_is_bottom d); [inversion E; subst; auto|].
  destruct (check_elem_size _ _) as [k|]; [|discriminate]. cbn [obind] in E.
  destruct (lookup d a) as [st d1] eqn:LK. destruct (nosmash_lookup _ _ _ _ LK H) as [H1 S]. rewrite S in E.
  assert (NC : forall d2, store_nonconst p a ez idx val strong k st d1 = Some d2 -> nosmash d2).
  { intros d2 E2. unfold store_nonconst in E2. rewrite smash_cond_false in E2.
    destruct (kill _ _ _ _ _ _) as [[om1 b1] g1]. inversion E2; subst. unfold set_arr.
    destruct d1. eapply nosmash_set; eauto. }
  destruct (isingleton _) as [n|]; [|eauto]. destruct (_ <? _); [|eauto].
  destruct (kill _ _ _ _ _ _) as [[om1 b1] g1]. inversion E; subst. unfold set_arr.
  destruct d1. eapply nosmash_set; eauto.
Qed.

Lemma nosmash_load lhs a ez idx d d' : nosmash d -> a_array_load p lhs a ez idx d = Some d' -> nosmash d'.
Proof.
  intros H E. unfold a_array_load in E. destruct (a_is_bottom d); [inversion E; subst; auto|].
  destruct (check_elem_size _ _) as [k|]; [|discriminate]. cbn [obind] in E.
  destruct (lookup d a) as [st d1] eqn:LK. destruct (nosmash_lookup _ _ _ _ LK H) as [H1 S]. rewrite S in E.
  destruct (isingleton _) as [n|].
  - destruct (om_get_overlap _ _ _); inversion E; subst; [|apply nosmash_base; auto].
    unfold set_arr. destruct d1. eapply nosmash_set; eauto.
  - rewrite NS in E. cbn [andb] in E. inversion E; subst. apply nosmash_base; auto.
Qed.

Lemma nosmash_forget_array a d : nosmash d -> nosmash (forget_array a d).
Proof.
  intros H. unfold forget_array. destruct (lookup d a) as [st d1] eqn:LK.
  destruct (nosmash_lookup _ _ _ _ LK H) as [H1 S]. intros b st0 F0. cbn [d_arrs] in F0.
  destruct (N.eq_dec b a) as [->|N]; [rewrite am_find_remove_same in F0; discriminate|].
  rewrite am_find_remove_other in F0 by auto. eauto.
Qed.

Lemma nosmash_range_loop a ez val : forall n i step d d', nosmash d ->
  range_loop p a ez val i step n d = Some d' -> nosmash d'.
Proof.
  induction n as [|n IH]; simpl; intros i step d d' H E; [inversion E; subst; auto|].
  destruct (a_array_store p a ez (le_k i) val false d) as [d1|] eqn:ST; [|discriminate]. cbn [obind] in E.
  apply (IH (i + step) step d1 d'); [exact (nosmash_store _ _ _ _ _ _ _ H ST)|exact E].
Qed.

Lemma nosmash_range a ez lb ub val d d' : nosmash d ->
  a_array_store_range p a ez lb ub val d = Some d' -> nosmash d'.
Proof.
  intros H E. unfold a_array_store_range in E. destruct (a_is_bottom d); [inversion E; subst; auto|].
  destruct (check_elem_size _ _) as [k|]; [|discriminate]. cbn [obind] in E.
  destruct (isingleton (d_eval lb _)) as [l|]; [|inversion E; subst; apply nosmash_forget_array; auto].
  destruct (isingleton (d_eval ub _)) as [u|]; [|inversion E; subst; apply nosmash_forget_array; auto].
  destruct (u <? l); [inversion E; subst; auto|].
  destruct (range_loop _ _ _ _ _ _ _ _) as [d1|] eqn:RL; [|discriminate]. cbn [obind] in E.
  pose proof (nosmash_range_loop _ _ _ _ _ _ _ _ H RL) as H1.
  destruct (_ <? u); [|inversion E; subst; auto].
  destruct (a_is_bottom d1); [inversion E; subst; auto|].
  destruct (lookup d1 a) as [st d2] eqn:LK. destruct (nosmash_lookup _ _ _ _ LK H1) as [H2 S]. rewrite S in E.
  destruct (kill _ _ _ _ _ _) as [[om1 b1] g1]. inversion E; subst. unfold set_arr.
  destruct d2. eapply nosmash_set; eauto.
Qed.

Lemma nosmash_init a ez lb ub val d d' : nosmash d -> a_array_init p a ez lb ub val d = Some d' -> nosmash d'.
Proof.
  intros H E. unfold a_array_init in E. destruct (a_is_bottom d); [inversion E; subst; auto|].
  destruct (lookup d a) as [st d1] eqn:LK. destruct (nosmash_lookup _ _ _ _ LK H) as [H1 S]. rewrite S in E.
  eapply nosmash_range; [|exact E]. destruct (as_map st) as [|c r]; auto.
  destruct (kill _ _ _ _ _ _) as [[om1 b1] g1]. unfold set_arr. destruct d1. eapply nosmash_set; eauto.
Qed.

Lemma nosmash_assign lhs rhs d : nosmash d -> nosmash (a_array_assign p lhs rhs d).
Proof.
  intros H. unfold a_array_assign. destruct (a_is_bottom d); auto. destruct (N.eqb lhs rhs); auto.
  pose proof (nosmash_forget_array lhs d H) as H1.
  destruct (lookup (forget_array lhs d) rhs) as [st d2] eqn:LK.
  destruct (nosmash_lookup _ _ _ _ LK H1) as [H2 S]. rewrite S. cbn [negb].
  destruct d2. eapply nosmash_set; eauto.
Qed.

Lemma nosmash_forget vs d : nosmash d -> nosmash (a_forget vs d).
Proof.
  intros H. unfold a_forget. destruct (_ || _); auto. apply nosmash_base.
  clear - H NS. revert d H. induction vs as [|v r IH]; simpl; intros d H; auto.
  apply IH. destruct v; auto. apply nosmash_forget_array; auto.
Qed.

Lemma nosmash_sides a x y gl bl gr br : as_smashed x = false -> as_smashed y = false ->
  sides p a x y gl bl gr br = Some (x, y, (gl, bl), (gr, br)).
Proof. intros SX SY. unfold sides. rewrite SX, SY. reflexivity. Qed.

Lemma nosmash_join_loop kx ky : forall xs ym gl bl gr br m l r,
  (forall a x, In (a, x) xs -> as_smashed x = false) -> (forall a y, am_find ym a = Some y -> as_smashed y = false) ->
  am_join_loop p kx ky xs ym gl bl gr br = Some (m, l, r) ->
  forall a res, am_find m a = Some res -> as_smashed res = false.
Proof.
  induction xs as [|[a x] t IH]; intros ym gl bl gr br m l r HX HY E; cbn [am_join_loop] in E.
  - inversion E; subst. intros a res F. discriminate.
  - destruct (am_find ym a) as [y|] eqn:FY; [|eapply IH; eauto; intros; eapply HX; right; eauto].
    rewrite (nosmash_sides a x y) in E by (eauto; eapply HX; left; eauto). cbn [obind] in E.
    destruct (am_join_loop p kx ky t ym gl bl gr br) as [[[m0 l0] r0]|] eqn:LP; [|discriminate].
    cbn [obind] in E. inversion E; subst. intros b res F. cbn [am_find] in F.
    destruct (N.eqb a b).
    + inversion F; subst. assert (SX : as_smashed x = false) by (eapply HX; left; eauto).
      assert (SY : as_smashed y = false) by eauto.
      destruct (left_leaf_first kx ky (Z.of_N a)); [destruct (as_eqb _ x)|destruct (as_eqb _ y)]; auto;
        unfold st_join; cbn [as_smashed]; rewrite SX, SY; reflexivity.
    + refine (IH ym gl bl gr br m0 _ _ _ HY LP b res F). intros a0 x0 I0. eapply HX. right. eauto.
Qed.

Lemma am_find_in_list m a st : am_find m a = Some st -> In (a, st) m.
Proof.
  induction m as [|[b s0] r IH]; simpl; [discriminate|]. destruct (N.eqb_spec b a) as [->|N]; auto.
  intros H; inversion H; subst; auto.
Qed.
Lemma in_list_am_find m a st : In (a, st) m -> exists st0, am_find m a = Some st0.
Proof.
  induction m as [|[b s0] r IH]; simpl; [tauto|]. intros [E|I].
  - inversion E; subst. rewrite N.eqb_refl. eauto.
  - destruct (N.eqb b a); eauto.
Qed.

Lemma nosmash_jk k x y d' : nosmash x -> nosmash y -> NoDup (map fst (d_arrs x)) ->
  jk_run p k x y = Some d' -> nosmash d'.
Proof.
  intros HX HY ND E. destruct (jk_cases p k x y) as [Q|[Q|(_ & _ & Q)]]; rewrite Q in E.
  - inversion E; subst; auto.
  - inversion E; subst; auto.
  - unfold join_like in E. destruct (am_join_loop _ _ _ _ _ _ _ _ _) as [[[m l] r]|] eqn:LP; [|discriminate].
    cbn [obind] in E. destruct l as [gl bl], r as [gr br]. inversion E; subst. intros a res F. cbn [d_arrs] in F.
    refine (nosmash_join_loop _ _ (d_arrs x) (d_arrs y) _ _ _ _ m _ _ _ HY LP a res F).
    intros b st I. apply (HX b st). apply am_find_in_pair; auto.
Qed.

Definition nosmash_all (rs : list adom) : Prop := forall r, nosmash (dget rs r).

Lemma nosmash_top : nosmash a_top.
Proof. intros a st F. discriminate. Qed.

Lemma nosmash_dset rs r d : nosmash_all rs -> nosmash d -> nosmash_all (dset rs r d).
Proof.
  intros H D r'. destruct (Nat.lt_ge_cases r (length rs)) as [LT|GE].
  - rewrite dget_dset by auto. destruct (Nat.eqb r' r); auto.
  - rewrite dset_oob by auto. auto.
Qed.

(* side conditions without the hypothesis on tracked cells *)
Definition join_okB (X Y : adom) : Prop :=
  NoDup (map fst (d_arrs X)) /\ jreg p X Y /\ Lsz esz X /\ Lsz esz Y /\ top_empty X /\ top_empty Y.

Definition hop_okB (rs : list adom) (o : ahop) : Prop :=
  match o with
  | AStore r a e idx val _ =>
    le_pv e /\ le_pv idx /\ wf_le idx /\ le_pv val /\ szok esz (dget rs r) a e /\ idxok esz (dget rs r) a idx
  | AJoin _ s t | AWiden _ s t | AWidenThr _ s t _ => join_okB (dget rs s) (dget rs t)
  | _ => hop_okA esz onecell p rs [] o
  end.

Lemma hop_okB_A rs cs o : nosmash_all rs -> hop_okB rs o -> hop_okA esz onecell p rs cs o.
Proof.
  intros H OK. destruct o; cbn [hop_okB hop_okA] in *; auto.
  - destruct OK as (P1 & P2 & P3 & P4 & P5 & P6). repeat (split; auto).
    intros s mu C st F S NC SM. congruence.
  - destruct OK as (ND & REG & LX & LY & TX & TY). repeat (split; auto).
    + intros s0 mu C a st sy F FY S SY. rewrite (H t a sy FY) in SY. discriminate.
    + intros s0 mu C a st sy F FY S SY. rewrite (H s a st F) in SY. discriminate.
  - destruct OK as (ND & REG & LX & LY & TX & TY). repeat (split; auto).
    + intros s0 mu C a st sy F FY S SY. rewrite (H t a sy FY) in SY. discriminate.
    + intros s0 mu C a st sy F FY S SY. rewrite (H s a st F) in SY. discriminate.
  - destruct OK as (ND & REG & LX & LY & TX & TY). repeat (split; auto).
    + intros s0 mu C a st sy F FY S SY. rewrite (H t a sy FY) in SY. discriminate.
    + intros s0 mu C a st sy F FY S SY. rewrite (H s a st F) in SY. discriminate.
Qed.

Lemma dstep_nosmash rs o rs' : nosmash_all rs -> hop_okB rs o -> dstep p rs o = Some rs' -> nosmash_all rs'.
Proof.
  intros H OK E. destruct o; cbn [dstep hop_okB hop_okA] in *.
  - inversion E; subst. apply nosmash_dset; auto. apply nosmash_top.
  - inversion E; subst. apply nosmash_dset; auto. apply nosmash_top.
  - inversion E; subst. apply nosmash_dset; auto.
  - inversion E; subst. apply nosmash_dset; auto. apply nosmash_base; auto.
  - inversion E; subst. apply nosmash_dset; auto. apply nosmash_base; auto.
  - inversion E; subst. apply nosmash_dset; auto. apply nosmash_base; auto.
  - inversion E; subst. apply nosmash_dset; auto. apply nosmash_forget; auto.
  - inversion E; subst. apply nosmash_dset; auto. unfold a_forget1. destruct (a_is_bottom _); auto.
    destruct v; [apply nosmash_base; auto|apply nosmash_forget_array; auto].
  - destruct OK.
  - destruct (a_expand v nv (dget rs r)) as [d'|] eqn:Q; inversion E; subst. apply nosmash_dset; auto.
    unfold a_expand in Q. destruct (_ || _); [inversion Q; subst; auto|].
    destruct v, nv; inversion Q; subst; auto. apply nosmash_base; auto.
  - destruct from as [|[x|a] [|? ?]]; try tauto; destruct to as [|[y|b] [|? ?]]; try tauto.
    destruct (a_rename [VS x] [VS y] (dget rs r)) as [d'|] eqn:Q; inversion E; subst. apply nosmash_dset; auto.
    destruct (a_is_bottom (dget rs r) || a_is_top (dget rs r)) eqn:T.
    + unfold a_rename in Q. rewrite T in Q. inversion Q; subst; auto.
    + rewrite rename_scalar_eq in Q by auto. inversion Q; subst. intros a st F. eapply H; eauto.
  - destruct (a_array_init p a esz0 lb ub val (dget rs r)) as [d'|] eqn:Q; inversion E; subst.
    apply nosmash_dset; auto. eapply nosmash_init; eauto.
  - destruct (a_array_load p lhs a esz0 idx (dget rs r)) as [d'|] eqn:Q; inversion E; subst.
    apply nosmash_dset; auto. eapply nosmash_load; eauto.
  - destruct (a_array_store p a esz0 idx val strong (dget rs r)) as [d'|] eqn:Q; inversion E; subst.
    apply nosmash_dset; auto. eapply nosmash_store; eauto.
  - destruct (a_array_store_range p a esz0 lb ub val (dget rs r)) as [d'|] eqn:Q; inversion E; subst.
    apply nosmash_dset; auto. eapply nosmash_range; eauto.
  - inversion E; subst. apply nosmash_dset; auto. apply nosmash_assign; auto.
  - destruct OK as (ND & _). destruct (a_join p (dget rs s) (dget rs t)) as [d'|] eqn:Q; inversion E; subst.
    apply nosmash_dset; auto. apply (nosmash_jk JJoin (dget rs s) (dget rs t)); auto.
  - destruct OK.
  - destruct OK as (ND & _). destruct (a_widen p (dget rs s) (dget rs t)) as [d'|] eqn:Q; inversion E; subst.
    apply nosmash_dset; auto. apply (nosmash_jk JWiden (dget rs s) (dget rs t)); auto.
  - destruct OK.
  - destruct OK as (ND & _). destruct (a_widen_thr p ths (dget rs s) (dget rs t)) as [d'|] eqn:Q; inversion E; subst.
    apply nosmash_dset; auto. apply (nosmash_jk (JThr ths) (dget rs s) (dget rs t)); auto.
Qed.

Fixpoint hist_okB (rs : list adom) (h : list ahop) : Prop :=
  match h with
  | [] => True
  | o :: r => hop_okB rs o /\ match dstep p rs o with Some rs' => hist_okB rs' r | None => True end
  end.

(* every history: no hypothesis on the concrete executions *)
Theorem dhistory_sound_nonsmashable h : forall rs cs rs',
  rel esz onecell rs cs -> nosmash_all rs -> hist_okB rs h -> drun p rs h = Some rs' ->
  rel esz onecell rs' (fold_left (cstepA esz onecell) h cs) /\ nosmash_all rs'.
Proof.
  induction h as [|o r IH]; simpl; intros rs cs rs' R H OK E.
  - inversion E; subst; auto.
  - destruct OK as [O1 O2]. destruct (dstep p rs o) as [rs1|] eqn:Q; [|discriminate].
    apply (IH rs1 (cstepA esz onecell cs o) rs'); auto.
    + exact (dstep_sound esz onecell esz_pos p rs cs o rs1 R (hop_okB_A rs cs o H O1) Q).
    + exact (dstep_nosmash rs o rs1 H O1 Q).
Qed.

Lemma nosmash_all_top n : nosmash_all (repeat a_top n).
Proof.
  intros r. unfold dget. destruct (nth_in_or_default r (repeat a_top n) a_top) as [I|E].
  - apply repeat_spec in I. rewrite I. apply nosmash_top.
  - rewrite E. apply nosmash_top.
Qed.

End NoSmash.

(* ================================================================================== *)
(* Non-vacuity: the shape of a loop.  Register 0 holds the loop head (the array initialised
   cell by cell), register 1 the body, whose store at a symbolic index smashes the array;
   the widening of the head with the body smashes the head's side too (array_state::join).
   The history is admissible for the theorem with the invariant; its abstract run and a
   state reached concretely are given. *)
Definition ex_esz : arr -> Z := fun _ => 4.
Definition ex_one : arr -> option Z := fun _ => None.
Definition ex_p : params := mkP true true 64 64.
Definition ex_A : arr := 5%N.
Definition ex_hist : list ahop :=
  [ AInit 0%nat ex_A (le_k 4) (le_k 0) (le_k 12) (le_k 5);
    ACopy 1%nat 0%nat;
    AAssume 1%nat [mkLC INEQ (mkLE [(-1, pv 1)] 0); mkLC INEQ (mkLE [(1, pv 1)] (-8))];
    AStore 1%nat ex_A (le_k 4) (le_var (pv 1)) (le_k 7) false;
    AWiden 0%nat 0%nat 1%nat;
    ALoad 0%nat (pv 0) ex_A (le_k 4) (le_k 8) ].
Definition ex_rs0 : list adom := [a_top; a_top].
Definition ex_op (i : nat) : ahop := nth i ex_hist (ABot 0%nat).
Definition ex_next (rs : list adom) (i : nat) : list adom :=
  match dstep ex_p rs (ex_op i) with Some r => r | None => [] end.

Definition ex_rs1 : list adom := Eval vm_compute in ex_next ex_rs0 0.
Definition ex_rs2 : list adom := Eval vm_compute in ex_next ex_rs1 1.
Definition ex_rs3 : list adom := Eval vm_compute in ex_next ex_rs2 2.
Definition ex_rs4 : list adom := Eval vm_compute in ex_next ex_rs3 3.
Definition ex_rs5 : list adom := Eval vm_compute in ex_next ex_rs4 4.
Definition ex_rs6 : list adom := Eval vm_compute in ex_next ex_rs5 5.

Lemma ex_step1 : dstep ex_p ex_rs0 (ex_op 0) = Some ex_rs1. Proof. vm_compute. reflexivity. Qed.
Lemma ex_step2 : dstep ex_p ex_rs1 (ex_op 1) = Some ex_rs2. Proof. vm_compute. reflexivity. Qed.
Lemma ex_step3 : dstep ex_p ex_rs2 (ex_op 2) = Some ex_rs3. Proof. vm_compute. reflexivity. Qed.
Lemma ex_step4 : dstep ex_p ex_rs3 (ex_op 3) = Some ex_rs4. Proof. vm_compute. reflexivity. Qed.
Lemma ex_step5 : dstep ex_p ex_rs4 (ex_op 4) = Some ex_rs5. Proof. vm_compute. reflexivity. Qed.
Lemma ex_step6 : dstep ex_p ex_rs5 (ex_op 5) = Some ex_rs6. Proof. vm_compute. reflexivity. Qed.

(* the body smashes the array, the widening smashes the head and widens the summary: the load returns [5, +oo] *)
Example ex_run : drun ex_p ex_rs0 ex_hist = Some ex_rs6 /\
  a_at (dget ex_rs6 0%nat) (pv 0) = mkI (Fin 5) PInf /\
  (exists st, am_find (d_arrs (dget ex_rs4 0%nat)) ex_A = Some st /\ as_smashed st = false) /\
  (exists st, am_find (d_arrs (dget ex_rs4 1%nat)) ex_A = Some st /\ as_smashed st = true) /\
  (exists st, am_find (d_arrs (dget ex_rs6 0%nat)) ex_A = Some st /\ as_smashed st = true).
Proof.
  split; [vm_compute; reflexivity|]. split; [vm_compute; reflexivity|].
  split; [|split]; eexists; split; vm_compute; reflexivity.
Qed.

Lemma ex_esz_pos : forall a, 0 < ex_esz a.
Proof. intros a. reflexivity. Qed.
Lemma ex_le_pv_k i : le_pv (le_k i).
Proof. intros c v []. Qed.
Lemma ex_le_pv_var i : le_pv (le_var (pv i)).
Proof. intros c v [E|[]]. inversion E; subst. apply pv_is_pv. Qed.

Example ex_hist_okT : hist_okT ex_esz ex_p ex_rs0 ex_hist.
Proof.
  unfold ex_hist. cbn [hist_okT].
  change (AInit 0%nat ex_A (le_k 4) (le_k 0) (le_k 12) (le_k 5)) with (ex_op 0).
  change (ACopy 1%nat 0%nat) with (ex_op 1).
  change (AAssume 1%nat [mkLC INEQ (mkLE [(-1, pv 1)] 0); mkLC INEQ (mkLE [(1, pv 1)] (-8))]) with (ex_op 2).
  change (AStore 1%nat ex_A (le_k 4) (le_var (pv 1)) (le_k 7) false) with (ex_op 3).
  change (AWiden 0%nat 0%nat 1%nat) with (ex_op 4).
  change (ALoad 0%nat (pv 0) ex_A (le_k 4) (le_k 8)) with (ex_op 5).
  rewrite ex_step1, ex_step2, ex_step3, ex_step4, ex_step5, ex_step6.
  split; [|split; [|split; [|split; [|split; [|split; [|exact I]]]]]].
  - (* array_init *)
    unfold ex_op, ex_hist. cbn [nth hop_okT]. split; [|apply ex_le_pv_k]. exists 0, 12. split; auto. split; auto. split; auto.
    intros l u H1 H2 LU. rewrite d_eval_k, isingleton_iconst in H1, H2. inversion H1; inversion H2; subst.
    split; [split; [lia|reflexivity]|]. split; [vm_compute; discriminate|].
    intros _. right. vm_compute. discriminate.
  - (* copy *)
    unfold ex_op, ex_hist. cbn [nth hop_okT]. simpl. lia.
  - (* assume *)
    unfold ex_op, ex_hist. cbn [nth hop_okT]. intros c [<-|[<-|[]]]; split.
    + split; [repeat constructor; simpl; tauto|]. intros k v [E|[]]. inversion E. lia.
    + intros k v [E|[]]. inversion E; subst. apply pv_is_pv.
    + split; [repeat constructor; simpl; tauto|]. intros k v [E|[]]. inversion E. lia.
    + intros k v [E|[]]. inversion E; subst. apply pv_is_pv.
  - (* the symbolic store: the array is smashed *)
    unfold ex_op, ex_hist. cbn [nth hop_okT]. split; [apply ex_le_pv_k|]. split; [apply ex_le_pv_var|].
    split; [split; [repeat constructor; simpl; tauto|intros k v [E|[]]; inversion E; lia]|].
    split; [apply ex_le_pv_k|]. split; [apply (szok_k ex_esz)|].
    split; [intros n H; vm_compute in H; discriminate|].
    split; [|simpl; lia].
    unfold store_keeps. simpl. right. right. left. vm_compute. reflexivity.
  - (* the widening of the head (not smashed) with the body (smashed) *)
    unfold ex_op, ex_hist. cbn [nth hop_okT]. split; [|simpl; lia].
    split; [simpl; repeat constructor; simpl; tauto|].
    split.
    { intros m gl bl gr br H. vm_compute in H. inversion H; subst. repeat split; discriminate. }
    split.
    { right. split; [simpl; discriminate|]. intros b k H. simpl in H. discriminate. }
    split.
    { right. split; [simpl; discriminate|]. intros b k H. unfold dget, ex_rs4 in H.
      cbn [nth d_base a_la la_at lget] in H. destruct (N.eqb 10 b); inversion H. reflexivity. }
    split.
    { split.
      - intros a. unfold dget, ex_rs4. cbn [nth d_arrs am_find]. destruct (N.eqb 5 a); split; auto; discriminate.
      - intros a x y FX FY SX SY. unfold dget, ex_rs4 in FY. cbn [nth d_arrs am_find] in FY.
        destruct (N.eqb 5 a); inversion FY; subst. simpl in SY. discriminate. }
    split; vm_compute; reflexivity.
  - (* the load from the smashed array *)
    unfold ex_op, ex_hist. cbn [nth hop_okT]. split; [apply pv_is_pv|]. split; [apply ex_le_pv_k|]. split; [apply ex_le_pv_k|].
    split; [split; [constructor|intros k v []]|]. split; [apply (szok_k ex_esz)|].
    apply (idxok_k ex_esz). split; [lia|reflexivity].
Qed.

(* a concrete execution through the body: v1 = 4, the store writes A[4] := 7, after the
   widening the load reads A[8] = 5 *)
Example ex_hist_reached :
  exists c, cget (fold_left (cstepA ex_esz ex_one) ex_hist [empty_mem; empty_mem]) 0%nat c /\ fst c (pv 0) = 5.
Proof.
  set (s0 := fun x : var => if N.eqb x (pv 1) then 4 else 0).
  set (mu0 := fun (b : arr) (o : Z) => @None Z).
  set (mu1 := cwrite (fun b' o' => if N.eqb b' ex_A then None else mu0 b' o') ex_A 0 4 5 (rcount 0 12 4)).
  set (mu2 := fun (b : arr) (o : Z) => if N.eqb b ex_A && (o =? 4) then Some 7 else mu1 b o).
  exists (upd s0 (pv 0) 5, mu2). split; [|apply upd_same].
  unfold ex_hist. cbn [fold_left cstepA cstep cget csetr nth].
  exists s0, mu2, 5. split.
  - (* the widening: the state comes from the body *)
    right.
    exists s0, mu1. split.
    + split.
      * exists s0, mu0. split; [intros a o; reflexivity|]. split; [reflexivity|]. split; [reflexivity|].
        intros b o. reflexivity.
      * intros c [<-|[<-|[]]]; unfold sat; simpl; vm_compute; discriminate.
    + split; [reflexivity|]. split; [split; [vm_compute; discriminate|reflexivity]|].
      split; [discriminate|]. split; [reflexivity|]. split.
      * intros b o N. cbn [snd]. unfold mu2. destruct (N.eqb_spec b ex_A); [congruence|reflexivity].
      * intros i. cbn [snd]. unfold mu2. rewrite N.eqb_refl. simpl. reflexivity.
  - split; [reflexivity|]. split; [split; [vm_compute; discriminate|reflexivity]|].
    split; [exact I|]. split; [vm_compute; reflexivity|]. split; [reflexivity|]. intros b o. reflexivity.
Qed.
