(* ArrayAdaptWf.v — well-formedness invariant [awf] of the mirror model of array_adaptive_domain
   (Dom/ArrayAdapt.v): distinct array-map keys, base environment without bottom / top bindings,
   recorded element sizes = the sizes of the arrays.  It holds for top / bottom, is preserved by every
   operation covered by the history theorems of ArrayAdaptSound.v, and implies the executable
   checks that those theorems take as hypotheses on join operands (NoDup, jreg, Lsz, top_empty). *)
From Coq Require Import ZArith NArith List Bool Lia.
From CrabV Require Import Base.ZInf Scalar.Itv Scalar.ItvSound Ir.Syntax Dom.ItvEnv Dom.ItvEnvSound
     Dom.ItvSolver Dom.ItvSolverSound Dom.ItvDomain Dom.ItvDomainSound Dom.History Dom.HistorySound
     Fix.Thresholds Fix.ThresholdsSound Dom.ArraySmash Dom.ArraySmashSound
     Dom.ArrayAdaptCore Dom.ArrayAdaptCoreSound Dom.ArrayAdapt Dom.ArrayAdaptFrame Dom.ArrayAdaptSound
     Dom.ItvEnvWiden Dom.ItvEnvNoTop.
From CrabV Require Ana.FwdItvTerm Scalar.DisItvSound.
Import ListNotations.
Local Open Scope Z_scope.

Arguments d_add : simpl never.
Arguments d_assign : simpl never.
Arguments d_weak_assign : simpl never.
Arguments d_expand : simpl never.
Arguments d_forget : simpl never.
Arguments e_project : simpl never.
Arguments d_eval : simpl never.

(* ---- the interval environment: no bottom binding, no top binding ---- *)
Definition eok (e : env) : Prop := env_ok e /\ ntbe e.

Lemma eok_bot : eok EBot. Proof. split; exact I. Qed.
Lemma eok_top : eok e_top. Proof. split; [apply env_ok_top|apply ntbe_top]. Qed.
Lemma eok_set e k v : eok e -> eok (e_set e k v).
Proof. intros [A B]. split; [apply env_ok_set|apply ntbe_set]; auto. Qed.
Lemma eok_forget e k : eok e -> eok (e_forget e k).
Proof. intros [A B]. split; [apply env_ok_forget|apply ntbe_forget]; auto. Qed.
Lemma env_ok_join_key e k v : env_ok e -> env_ok (e_join_key e k v).
Proof.
  destruct e as [|m]; cbn [e_join_key]; auto. intros H.
  destruct (is_bot v) eqn:B; [exact I|]. destruct (is_top v); [apply map_ok_remove; auto|].
  destruct (is_top (get m k)); [apply map_ok_remove; auto|]. apply map_ok_put; auto.
  apply Scalar.DisItvSound.ijoin_nonbot; auto.
Qed.
Lemma eok_join_key e k v : eok e -> eok (e_join_key e k v).
Proof. intros [A B]. split; [apply env_ok_join_key|apply ntbe_join_key]; auto. Qed.
Lemma eok_d_assign x ex e : eok e -> eok (d_assign x ex e).
Proof. intros [A B]. split; [apply Ana.FwdItvTerm.d_assign_ok|apply ntbe_d_assign]; auto. Qed.
Lemma eok_d_weak_assign x ex e : eok e -> eok (d_weak_assign x ex e).
Proof. intros H. unfold d_weak_assign. destruct (le_get_variable ex); apply eok_join_key; auto. Qed.
Lemma eok_d_arith op x y z e : eok e -> eok (d_apply_arith op x y z e).
Proof. intros H. unfold d_apply_arith. apply eok_set; auto. Qed.
Lemma eok_d_add cs e : eok e -> eok (d_add cs e).
Proof. intros [A B]. split; [apply Ana.FwdItvTerm.d_add_ok|apply ntbe_d_add]; auto. Qed.
Lemma eok_fold_forget vs : forall e, eok e -> eok (fold_left e_forget vs e).
Proof. induction vs as [|v r IH]; simpl; intros e H; auto. apply IH. apply eok_forget; auto. Qed.
Lemma eok_d_forget vs e : eok e -> eok (d_forget vs e).
Proof. intros H. unfold d_forget. destruct (_ || _); auto. apply eok_fold_forget; auto. Qed.
Lemma eok_d_expand x nx e : eok e -> eok (d_expand x nx e).
Proof. intros H. unfold d_expand. destruct (_ || _); auto. apply eok_set; auto. Qed.
Lemma eok_join a b : eok a -> eok b -> eok (e_join a b).
Proof. intros [A B] [C D]. split; [apply env_ok_join|apply ntbe_join]; auto. Qed.
Lemma eok_widen a b : eok a -> eok b -> eok (e_widen a b).
Proof. intros [A B] [C D]. split; [apply env_ok_widen|apply ntbe_widen]; auto. Qed.
Lemma eok_widen_thr gp gn a b : eok a -> eok b -> eok (e_widen_thr gp gn a b).
Proof. intros [A B] [C D]. split; [apply env_ok_widen_thr|apply ntbe_widen_thr]; auto. Qed.

Lemma map_ok_rename_pairs ps : forall m, map_ok m -> map_ok (rename_pairs m ps).
Proof.
  induction ps as [|[k nk] r IH]; simpl; intros m H; auto.
  destruct (N.eqb k nk); auto. destruct (is_top (get m k)); auto. apply IH.
  assert (Q : map_ok ((nk, get m k) :: remove m nk)).
  { intros k'. cbn [get]. destruct (N.eqb nk k'); [apply H|]. apply map_ok_remove; auto. }
  exact (map_ok_remove _ k Q).
Qed.
Lemma eok_rename e f t : eok e -> eok (e_rename e f t).
Proof.
  intros [A B]. split; [|apply ntbe_rename; auto]. destruct e as [|m]; simpl; auto.
  destruct (forallb _ _); auto. apply map_ok_rename_pairs; auto.
Qed.

(* operations that keep bottom *)
Lemma d_assign_bot x ex : d_assign x ex EBot = EBot.
Proof. unfold d_assign. destruct (le_get_variable ex); reflexivity. Qed.
Lemma d_weak_assign_bot x ex : d_weak_assign x ex EBot = EBot.
Proof. unfold d_weak_assign. destruct (le_get_variable ex); reflexivity. Qed.

Section Wf.
Variable esz : arr -> Z.
Variable onecell : arr -> option Z.
Hypothesis esz_pos : forall a, 0 < esz a.
Variable p : params.
Notation esz' := (esz' esz).

(* ---- the sizes recorded by the base domain ---- *)
Definition lok (l : laenv) : Prop := l <> LBot /\ forall b k, la_at l b = BConst k -> k = esz' b.

Lemma lok_set l a k : lok l -> k = esz' a -> lok (la_set l a k).
Proof.
  intros [N H] E. split; [apply la_set_not_bot; auto|]. intros b k'. rewrite la_at_set by auto.
  destruct (N.eqb_spec a b); [intros Q; inversion Q; subst; auto|auto].
Qed.
Lemma lok_forget l a : lok l -> lok (la_forget l a).
Proof.
  intros [N H]. split; [apply la_forget_not_bot; auto|]. intros b k'. rewrite la_at_forget by auto.
  destruct (N.eqb a b); [discriminate|auto].
Qed.
Lemma lok_join x y : lok x -> lok y -> lok (la_join x y).
Proof.
  intros [N H] [N' H']. split; [apply la_join_not_bot_l; auto|]. intros b k Q.
  apply H. eapply la_join_const_l; eauto.
Qed.
Lemma lok_top : lok (LMap []).
Proof. split; [discriminate|]. intros b k. simpl. discriminate. Qed.

(* ---- values of the smashing domain ---- *)
Definition bok (b : ast) : Prop := eok (a_base b) /\ (a_base b = EBot \/ lok (a_la b)).

Lemma bok_top : bok s_top.
Proof. split; [apply eok_top|right; apply lok_top]. Qed.
Lemma bok_bot : bok s_bot.
Proof. split; [apply eok_bot|left; auto]. Qed.

Lemma bok_assign x e b : bok b -> bok (s_assign x e b).
Proof.
  intros [E [B|L]]; split; cbn [s_assign a_base a_la]; auto using eok_d_assign.
  left. rewrite B. apply d_assign_bot.
Qed.
Lemma bok_arith op x y z b : bok b -> bok (s_arith op x y z b).
Proof.
  intros [E [B|L]]; split; cbn [s_arith a_base a_la]; auto using eok_d_arith.
  left. rewrite B. reflexivity.
Qed.
Lemma bok_assume cs b : bok b -> bok (s_assume cs b).
Proof.
  intros [E [B|L]]; split; cbn [s_assume a_base a_la]; auto using eok_d_add.
  left. rewrite B. reflexivity.
Qed.
Lemma bok_forget1 v b : bok b -> bok (s_forget1 v b).
Proof.
  intros [E [B|L]]; destruct v as [x|a]; cbn [s_forget1].
  - split; cbn [a_base a_la]; [apply eok_forget; auto|left; rewrite B; reflexivity].
  - destruct (la_at (a_la b) a); try (split; auto; fail).
    split; cbn [a_base a_la]; [apply eok_forget; auto|left; rewrite B; reflexivity].
  - split; cbn [a_base a_la]; [apply eok_forget; auto|right; auto].
  - destruct (la_at (a_la b) a); try (split; auto; fail).
    split; cbn [a_base a_la]; [apply eok_forget; auto|right; apply lok_forget; auto].
Qed.
Lemma forget_scan_lok vs : forall l acc, lok l -> lok (fst (forget_scan vs l acc)).
Proof.
  induction vs as [|v r IH]; simpl; intros l acc L; auto. destruct v as [x|a]; auto.
  destruct (la_at l a); auto. apply IH. apply lok_forget; auto.
Qed.
Lemma d_forget_bot vs : d_forget vs EBot = EBot.
Proof. reflexivity. Qed.
Lemma bok_forget vs b : bok b -> bok (s_forget vs b).
Proof.
  intros [E BL]. unfold s_forget. destruct (forget_scan vs (a_la b) []) as [l rm] eqn:Q.
  split; cbn [a_base a_la]; [apply eok_d_forget; auto|]. destruct BL as [B|L].
  - left. rewrite B. reflexivity.
  - right. change l with (fst (l, rm)). rewrite <- Q. apply forget_scan_lok; auto.
Qed.
Lemma bok_expand x y b : bok b -> bok (s_expand (VS x) (VS y) b).
Proof.
  intros [E [B|L]]; split; cbn [s_expand a_base a_la]; auto using eok_d_expand.
  left. rewrite B. reflexivity.
Qed.
Lemma bok_rename x y b : bok b -> bok (s_rename [VS x] [VS y] b).
Proof.
  intros [E [B|L]]; split; cbn [s_rename rename_scan combine a_base a_la app]; auto using eok_rename.
  left. rewrite B. reflexivity.
Qed.

(* stores: the size written into the last-access environment is the one of the array *)
Lemma bok_store t ez val strong b b' : bok b ->
  (forall k, check_elem_size ez (a_base b) = Some k -> k = esz' t) ->
  s_array_store t ez val strong b = Some b' -> bok b'.
Proof.
  intros [E BL] SZ H. unfold s_array_store in H.
  destruct (check_elem_size ez (a_base b)) as [k|] eqn:CK; [|discriminate]. pose proof (SZ k eq_refl) as K.
  assert (LL : a_base b = EBot \/ lok (if strong then la_set (a_la b) t k else a_la b)).
  { destruct BL as [B|L]; auto. right. destruct strong; auto. apply lok_set; auto. }
  destruct (equal_size _ t k); inversion H; subst; split; cbn [a_base a_la]; auto.
  - destruct strong; [apply eok_d_assign|apply eok_d_weak_assign]; auto.
  - destruct LL as [B|L]; auto. left. rewrite B. destruct strong; [apply d_assign_bot|apply d_weak_assign_bot].
Qed.
Lemma bok_load lhs t ez b b' : bok b -> s_array_load lhs t ez b = Some b' -> bok b'.
Proof.
  intros [E BL] H. unfold s_array_load in H.
  destruct (check_elem_size ez (a_base b)) as [k|]; [|discriminate].
  destruct (equal_size _ t k); inversion H; subst; split; cbn [a_base a_la].
  - apply eok_forget. apply eok_d_assign. apply eok_d_expand. auto.
  - destruct BL as [B|L]; auto. left. rewrite B. change (d_expand (ghost t) (gcopy t) EBot) with EBot. rewrite d_assign_bot. reflexivity.
  - apply eok_forget; auto.
  - destruct BL as [B|L]; auto. left. rewrite B. reflexivity.
Qed.
Lemma bok_array_assign l r b : bok b -> esz' l = esz' r -> bok (s_array_assign l r b).
Proof.
  intros OK Q. unfold s_array_assign. destruct (la_at (a_la b) r) as [|k|] eqn:A; try (apply bok_forget1; auto; fail).
  destruct OK as [E BL]. split; cbn [a_base a_la]; [apply eok_d_assign; auto|].
  destruct BL as [B|L]; [left; rewrite B; apply d_assign_bot|]. right. apply lok_set; auto.
  destruct L as [_ L]. rewrite Q. eauto.
Qed.

(* ---- non-bottom values ---- *)
Definition nb (b : ast) : Prop := exists m, a_base b = EMap m.
Definition nbok (b : ast) : Prop := bok b /\ nb b.
(* same intervals for the program scalars *)
Definition pvframe (b b' : ast) : Prop := forall x, is_pv x -> e_at (a_base b') x = e_at (a_base b) x.
Definition szb (ez : linexp) (t : arr) (b : ast) : Prop :=
  forall k, check_elem_size ez (a_base b) = Some k -> k = esz' t.

Lemma nb_lok b : nbok b -> lok (a_la b).
Proof. intros [[_ [B|L]] [m E]]; auto. congruence. Qed.

Lemma eval_terms_frame ts e e' : (forall c v, In (c, v) ts -> e_at e' v = e_at e v) ->
  forall r, eval_terms_itv ts e' r = eval_terms_itv ts e r.
Proof.
  induction ts as [|[c v] t IH]; simpl; intros H r; auto.
  rewrite (H c v) by auto. apply IH. intros; eapply H; eauto.
Qed.
Lemma szb_frame ez t b b' : le_pv ez -> pvframe b b' -> szb ez t b -> szb ez t b'.
Proof.
  intros P F H k. unfold check_elem_size, d_eval. rewrite (eval_terms_frame _ (a_base b) (a_base b')).
  - apply H.
  - intros c v I. apply F. eapply P; eauto.
Qed.
Lemma szb_k t b a : esz' t = esz a -> szb (le_k (esz a)) t b.
Proof.
  intros Q k H. unfold check_elem_size in H. rewrite d_eval_k, isingleton_iconst in H.
  destruct (_ && _); inversion H; subst; auto.
Qed.
Lemma pvframe_refl b : pvframe b b.
Proof. intros x _. auto. Qed.
Lemma pvframe_trans a b c : pvframe a b -> pvframe b c -> pvframe a c.
Proof. intros H1 H2 x P. rewrite H2, H1; auto. Qed.

Lemma ghost_not_pv t : ~ is_pv (ghost t).
Proof.
  unfold is_pv, ghost. intros H.
  assert (Q : ((3 * t + 1) mod 3 = 1)%N).
  { rewrite N.add_comm, N.mul_comm, N.mod_add by discriminate. reflexivity. }
  rewrite (N.div_mod (3 * t + 1) 6) in Q by discriminate. rewrite H in Q.
  replace (6 * ((3 * t + 1) / 6) + 0)%N with (2 * ((3 * t + 1) / 6) * 3)%N in Q by lia.
  rewrite N.mod_mul in Q by discriminate. discriminate.
Qed.

(* a store of the value of a variable never produces bottom *)
Lemma store_var_nb t ez v first b b' : nbok b -> s_array_store t ez (le_var v) first b = Some b' ->
  nb b' /\ pvframe b b'.
Proof.
  intros [[[EO _] _] [m E]] H. unfold s_array_store in H.
  destruct (check_elem_size ez (a_base b)) as [k|]; [|discriminate].
  rewrite E in *. cbn [env_ok] in EO.
  destruct (equal_size _ t k); inversion H; subst; cbn [a_base];
    [|split; [exists m; auto|intros x _; cbn [a_base]; rewrite E; auto]].
  unfold le_var. destruct first.
  - unfold d_assign. rewrite le_get_variable_var. cbn [e_at e_set]. rewrite (EO v).
    split; [eexists; reflexivity|]. intros x P. cbn [a_base e_at]. rewrite E. cbn [e_at].
    apply get_put_other. intros Q. subst. eapply ghost_not_pv; eauto.
  - unfold d_weak_assign. rewrite le_get_variable_var. cbn [e_at e_join_key]. rewrite (EO v).
    assert (NP : forall x, is_pv x -> x <> ghost t) by (intros x P Q; subst; eapply ghost_not_pv; eauto).
    destruct (is_top (get m v)); [|destruct (is_top (get m (ghost t)))];
      (split; [eexists; reflexivity|]; intros x P; cbn [a_base e_at]; rewrite E; cbn [e_at];
       first [apply get_remove_other|apply get_put_other]; auto).
Qed.

Lemma nb_forget1 v b : nb b -> nb (s_forget1 v b).
Proof.
  intros [m E]. destruct v as [x|a]; cbn [s_forget1].
  - exists (remove m x). cbn [a_base]. rewrite E. reflexivity.
  - destruct (la_at (a_la b) a); try (exists m; auto; fail).
    exists (remove m (ghost a)). cbn [a_base]. rewrite E. reflexivity.
Qed.
Lemma nbok_forget1 v b : nbok b -> nbok (s_forget1 v b).
Proof. intros [A B]. split; [apply bok_forget1|apply nb_forget1]; auto. Qed.
Lemma bok_forget_ghosts a g cells : forall b, bok b -> bok (forget_ghosts a g cells b).
Proof.
  unfold forget_ghosts. induction cells as [|c r IH]; cbn [fold_left]; intros b H; auto.
  apply IH. destruct (gh_hasc g a c); auto. apply bok_forget1; auto.
Qed.
Lemma nbok_forget_ghosts a g cells : forall b, nbok b -> nbok (forget_ghosts a g cells b).
Proof.
  unfold forget_ghosts. induction cells as [|c r IH]; cbn [fold_left]; intros b H; auto.
  apply IH. destruct (gh_hasc g a c); auto. apply nbok_forget1; auto.
Qed.

Lemma nbok_store_var t ez v first b b' : nbok b -> szb ez t b ->
  s_array_store t ez (le_var v) first b = Some b' -> nbok b' /\ pvframe b b'.
Proof.
  intros OK SZ H. destruct (store_var_nb _ _ _ _ _ _ OK H) as [N F]. split; auto. split; auto.
  destruct OK as [OK _]. eapply bok_store; eauto.
Qed.

(* the loops that smash an array *)
Lemma smash_loop_ok t ez a g : le_pv ez -> forall cells first b fl b', nbok b -> szb ez t b ->
  smash_loop t ez a g first cells b = Some (fl, b') -> nbok b' /\ pvframe b b'.
Proof.
  intros P. induction cells as [|c r IH]; simpl; intros first b fl b' OK SZ H.
  - inversion H; subst. split; auto. apply pvframe_refl.
  - destruct (gh_hasc g a c); [|inversion H; subst; split; auto; apply pvframe_refl].
    destruct (s_array_store t ez (le_var (cgc a c)) first b) as [b1|] eqn:ST; [|discriminate]. cbn [obind] in H.
    destruct (nbok_store_var _ _ _ _ _ _ OK SZ ST) as [OK1 F1].
    destruct (IH false b1 fl b' OK1 (szb_frame _ _ _ _ P F1 SZ) H) as [OK2 F2]. split; auto.
    eapply pvframe_trans; eauto.
Qed.

Lemma smash_other_loop_ok a k g : forall cells first b fl b', nbok b ->
  (forall c, In c cells -> c_size c = esz a) ->
  smash_other_loop a k g first cells b = Some (fl, b') -> nbok b' /\ pvframe b b'.
Proof.
  induction cells as [|c r IH]; simpl; intros first b fl b' OK SZ H.
  - inversion H; subst. split; auto. apply pvframe_refl.
  - destruct (negb _); [inversion H; subst; split; auto; apply pvframe_refl|].
    destruct (gh_hasc g a c); [|inversion H; subst; split; auto; apply pvframe_refl].
    destruct (s_array_store (sa a) (le_k (c_size c)) (le_var (cgc a c)) first b) as [b1|] eqn:ST; [|discriminate].
    cbn [obind] in H.
    assert (S1 : szb (le_k (c_size c)) (sa a) b) by (rewrite (SZ c) by auto; apply szb_k; apply esz'_sa).
    destruct (nbok_store_var _ _ _ _ _ _ OK S1 ST) as [OK1 F1].
    destruct (IH false b1 fl b' OK1 (fun c I => SZ c (or_intror I)) H) as [OK2 F2]. split; auto.
    eapply pvframe_trans; eauto.
Qed.

Lemma smash_array_ok a eo st g b st' g' b' : nbok b ->
  (forall c, In c (as_map st) -> c_size c = esz a) ->
  smash_array p a eo st g b = Some (st', g', b') -> nbok b'.
Proof.
  intros OK SZ H. unfold smash_array in H. destruct (as_map st) as [|c0 r] eqn:M; [inversion H; subst; auto|].
  destruct (_ <? _); [inversion H; subst; auto|]. destruct (_ && _); [inversion H; subst; auto|].
  destruct eo as [k|]; [|inversion H; subst; auto]. destruct (0 <? k); [|inversion H; subst; auto].
  destruct (smash_other_loop a k g true (c0 :: r) b) as [[fl b1]|] eqn:LP; [|discriminate]. cbn [obind fst snd] in H.
  destruct (smash_other_loop_ok _ _ _ _ _ _ _ _ OK SZ LP) as [OK1 _].
  destruct fl; injection H as _ _ <-; [exact (nbok_forget_ghosts a g (c0 :: r) b1 OK1)|exact (nbok_forget1 (VA (sa a)) b1 OK1)].
Qed.

Lemma sides_ok a x y gl bl gr br x' y' gl' bl' gr' br' : nbok bl -> nbok br ->
  (forall c, In c (as_map x) -> c_size c = esz a) -> (forall c, In c (as_map y) -> c_size c = esz a) ->
  sides p a x y gl bl gr br = Some (x', y', (gl', bl'), (gr', br')) -> nbok bl' /\ nbok br'.
Proof.
  intros OL OR SX SY H. unfold sides in H. destruct (_ && _).
  - destruct (smash_array p a (as_esz x) y gr br) as [[[y1 g1] b1]|] eqn:Q; [|discriminate]. cbn [obind] in H.
    pose proof (smash_array_ok _ _ _ _ _ _ _ _ OR SY Q) as X. inversion H; subst. split; auto.
  - destruct (_ && _).
    + destruct (smash_array p a (as_esz y) x gl bl) as [[[x1 g1] b1]|] eqn:Q; [|discriminate]. cbn [obind] in H.
      pose proof (smash_array_ok _ _ _ _ _ _ _ _ OL SX Q) as X. inversion H; subst. split; auto.
    + inversion H; subst. auto.
Qed.

Lemma join_loop_ok kx ky ym : (forall a y c, am_find ym a = Some y -> In c (as_map y) -> c_size c = esz a) ->
  forall xs gl bl gr br m gl' bl' gr' br',
  (forall a x c, In (a, x) xs -> In c (as_map x) -> c_size c = esz a) ->
  nbok bl -> nbok br ->
  am_join_loop p kx ky xs ym gl bl gr br = Some (m, (gl', bl'), (gr', br')) ->
  nbok bl' /\ nbok br' /\ (forall a, In a (am_keys m) -> In a (map fst xs)) /\
  (NoDup (map fst xs) -> NoDup (am_keys m)).
Proof.
  intros SY. induction xs as [|[a x] t IH]; intros gl bl gr br m gl' bl' gr' br' SX OL OR H; cbn [am_join_loop] in H.
  - inversion H; subst. split; auto; try (split; auto; split; [intros a []|intros _; constructor]).
  - assert (SX' : forall a x c, In (a, x) t -> In c (as_map x) -> c_size c = esz a) by (intros; eapply SX; [right|]; eauto).
    destruct (am_find ym a) as [y|] eqn:FY.
    + destruct (sides p a x y gl bl gr br) as [[[[x1 y1] [gl1 bl1]] [gr1 br1]]|] eqn:SD; [|discriminate].
      cbn [obind] in H.
      destruct (sides_ok _ _ _ _ _ _ _ _ _ _ _ _ _ OL OR (fun c I => SX a x c (or_introl eq_refl) I)
                         (fun c I => SY a y c FY I) SD) as [OL1 OR1].
      destruct (am_join_loop p kx ky t ym gl1 bl1 gr1 br1) as [[[m0 [gl2 bl2]] [gr2 br2]]|] eqn:LP; [|discriminate].
      cbn [obind] in H. inversion H; subst.
      destruct (IH _ _ _ _ _ _ _ _ _ SX' OL1 OR1 LP) as (A & B & C & D).
      split; [exact A|]. split; [exact B|]. split.
      * intros b [E|I]; [left; auto|right; auto].
      * intros ND. cbn [map fst] in ND. inversion ND; subst. cbn [am_keys map fst]. constructor; auto; intros I; apply H2; apply C; exact I.
    + destruct (IH _ _ _ _ _ _ _ _ _ SX' OL OR H) as (A & B & C & D).
      split; [exact A|]. split; [exact B|]. split.
      * intros b I. right. auto.
      * intros ND. cbn [map fst] in ND. inversion ND; subst. auto.
Qed.

(* ================================================================================== *)
(* ---- the well-formedness invariant of the adaptive domain ---- *)
Definition awf (d : adom) : Prop := NoDup (am_keys (d_arrs d)) /\ bok (d_base d).

Lemma awf_top : awf a_top.
Proof. split; [constructor|apply bok_top]. Qed.
Lemma awf_bot : awf a_bot.
Proof. split; [constructor|apply bok_bot]. Qed.
Lemma awf_base d b : awf d -> bok b -> awf (with_base d b).
Proof. intros [N _] B. split; auto. Qed.

(* the executable checks that the join theorems of ArrayAdaptSound take as hypotheses *)
Lemma awf_nodup d : awf d -> NoDup (map fst (d_arrs d)).
Proof. intros [N _]. exact N. Qed.
Lemma awf_Lsz d : awf d -> Lsz esz d.
Proof.
  intros [_ [_ [B|[N L]]]]; [left|right; auto]. unfold a_is_bottom, s_is_bottom. rewrite B. reflexivity.
Qed.
Lemma awf_top_empty d : awf d -> top_empty d.
Proof. intros [_ [[_ NT] _]] T. apply (ntbe_is_top _ NT T). Qed.
Lemma awf_nbok d : awf d -> a_is_bottom d = false -> nbok (d_base d).
Proof.
  intros [_ B] NB. split; auto. unfold a_is_bottom, s_is_bottom in NB.
  destruct (a_base (d_base d)) as [|m] eqn:E; [discriminate|]. exists m. auto.
Qed.
Lemma Wf_sizes d : Wf esz d -> forall a st c, am_find (d_arrs d) a = Some st -> In c (as_map st) -> c_size c = esz a.
Proof. intros W a st c F I. destruct (W a st F) as [WL _]. apply (WL c I). Qed.

Lemma awf_join_loop x y m gl bl gr br : awf x -> awf y -> inv esz x -> inv esz y ->
  a_is_bottom x = false -> a_is_bottom y = false ->
  am_join_loop p (zkeys (d_arrs x)) (zkeys (d_arrs y)) (d_arrs x) (d_arrs y)
               (d_gh x) (d_base x) (d_gh y) (d_base y) = Some (m, (gl, bl), (gr, br)) ->
  nbok bl /\ nbok br /\ NoDup (am_keys m).
Proof.
  intros WX WY IX IY BX BY H.
  destruct (inv_nonbottom _ _ IX BX) as (W1 & _). destruct (inv_nonbottom _ _ IY BY) as (W2 & _).
  destruct (join_loop_ok _ _ (d_arrs y) (Wf_sizes y W2) (d_arrs x) _ _ _ _ _ _ _ _ _
              (fun a st c I J => Wf_sizes x W1 a st c (am_find_in_pair _ _ _ (awf_nodup x WX) I) J)
              (awf_nbok x WX BX) (awf_nbok y WY BY) H) as (A & B & _ & D).
  split; auto. split; auto. apply D. apply awf_nodup; auto.
Qed.

Lemma awf_jreg x y : awf x -> awf y -> inv esz x -> inv esz y ->
  a_is_bottom x = false -> a_is_bottom y = false -> jreg p x y.
Proof.
  intros WX WY IX IY BX BY m gl bl gr br H.
  destruct (awf_join_loop _ _ _ _ _ _ _ WX WY IX IY BX BY H) as (A & B & _).
  pose proof (nb_lok _ A) as [LA _]. pose proof (nb_lok _ B) as [LB _].
  destruct A as [_ [ma EA]]. destruct B as [_ [mb EB]]. rewrite EA, EB.
  split; [discriminate|]. split; [discriminate|]. auto.
Qed.

(* join / widenings keep the invariant *)
Lemma awf_jk k x y d' : awf x -> awf y -> inv esz x -> inv esz y -> jk_run p k x y = Some d' -> awf d'.
Proof.
  intros WX WY IX IY H. destruct (jk_cases p k x y) as [Q|[Q|(BX & BY & Q)]]; rewrite Q in H.
  - inversion H; subst; auto.
  - inversion H; subst; auto.
  - unfold join_like in H.
    destruct (am_join_loop _ _ _ _ _ _ _ _ _) as [[[m [gl bl]] [gr br]]|] eqn:LP; [|discriminate].
    cbn [obind] in H. inversion H; subst.
    destruct (awf_join_loop _ _ _ _ _ _ _ WX WY IX IY BX BY LP) as (A & B & D).
    split; [exact D|]. cbn [d_base]. pose proof (nb_lok _ A) as LA. pose proof (nb_lok _ B) as LB.
    destruct A as [[EA _] _]. destruct B as [[EB _] _].
    split; cbn [jop a_base a_la]; [|right; apply lok_join; auto].
    destruct k; cbn [jk_eop]; [apply eok_join|apply eok_widen|apply eok_widen_thr]; auto.
Qed.

#[local] Arguments s_forget1 : simpl never.
#[local] Arguments s_forget : simpl never.
#[local] Arguments s_assign : simpl never.
#[local] Arguments s_array_store : simpl never.
#[local] Arguments s_array_load : simpl never.
#[local] Arguments forget_ghosts : simpl never.
#[local] Arguments erase_ghosts : simpl never.

(* ---- the array map keeps distinct keys ---- *)
Lemma nd_remove m a : NoDup (am_keys m) -> NoDup (am_keys (am_remove m a)) /\ ~ In a (am_keys (am_remove m a)) /\
  forall b, In b (am_keys (am_remove m a)) -> In b (am_keys m).
Proof.
  unfold am_keys, am_remove. induction m as [|[b st] r IH]; simpl; intros ND.
  - split; [constructor|]. split; auto.
  - inversion ND; subst. destruct (IH H2) as (A & B & C). destruct (N.eqb_spec b a); simpl.
    + split; [exact A|]. split; [exact B|]. intros c I. right. auto.
    + split; [constructor; auto|]. split; [intros [E|I]; [congruence|auto]|]. intros c [E|I]; [left|right]; auto.
Qed.
Lemma am_find_none m a : am_find m a = None -> ~ In a (am_keys m).
Proof.
  unfold am_keys. induction m as [|[b st] r IH]; simpl; auto. destruct (N.eqb_spec b a); [discriminate|].
  intros H [E|I]; auto. apply IH; auto.
Qed.
Lemma nd_set m a st : NoDup (am_keys m) -> NoDup (am_keys (am_set m a st)).
Proof.
  intros ND. unfold am_set. destruct (am_find m a) eqn:F; cbn [am_keys map fst].
  - destruct (nd_remove m a ND) as (A & B & _). constructor; auto.
  - constructor; auto. apply am_find_none; auto.
Qed.
Lemma awf_lookup d a st d1 : lookup d a = (st, d1) -> awf d -> awf d1 /\ d_base d1 = d_base d.
Proof.
  unfold lookup. destruct (am_find (d_arrs d) a) eqn:F; intros H W; inversion H; subst; auto.
  destruct W as [N B]. split; auto. split; auto. cbn [d_arrs am_keys map fst]. constructor; auto.
  apply am_find_none; auto.
Qed.
Lemma awf_set_arr d a st b g : awf d -> bok b -> awf (set_arr d a st b g).
Proof. intros [N _] B. split; auto. cbn [set_arr d_arrs]. apply nd_set; auto. Qed.
Lemma awf_mk b m g : NoDup (am_keys m) -> bok b -> awf (mkD b m g).
Proof. intros N B. split; auto. Qed.

Lemma bok_kill a cells om b g om1 b1 g1 : bok b -> kill p a cells om b g = (om1, b1, g1) -> bok b1.
Proof.
  intros B H. unfold kill in H. destruct cells as [|c r]; [inversion H; subst; auto|]. injection H as _ <- _.
  exact (bok_forget_ghosts a g (c :: r) b B).
Qed.

Lemma awf_forget_array a d : awf d -> awf (forget_array a d).
Proof.
  intros W. unfold forget_array. destruct (lookup d a) as [st d1] eqn:LK.
  destruct (awf_lookup _ _ _ _ LK W) as [[N B] _]. apply awf_mk.
  - apply nd_remove; auto.
  - apply bok_forget; auto.
Qed.

Lemma szb_of_szok d a ez : szok esz d a ez -> szb ez (sa a) (d_base d).
Proof. intros H k C. rewrite esz'_sa. apply H; auto. Qed.
Lemma szb_ta a ez b : szb ez (sa a) b -> szb ez (ta a) b.
Proof. intros H k C. rewrite esz'_ta. rewrite <- (esz'_sa esz a). auto. Qed.

Lemma awf_store a ez idx val strong d d' : awf d -> le_pv ez -> szok esz d a ez ->
  a_array_store p a ez idx val strong d = Some d' -> awf d'.
Proof.
  intros W P SZ H. unfold a_array_store in H. destruct (a_is_bottom d) eqn:NB; [inversion H; subst; auto|].
  destruct (check_elem_size ez (a_base (d_base d))) as [k|] eqn:CK; [|discriminate]. cbn [obind] in H.
  destruct (lookup d a) as [st d1] eqn:LK. destruct (awf_lookup _ _ _ _ LK W) as [W1 EB].
  pose proof (szb_of_szok _ _ _ SZ) as S0. rewrite <- EB in S0.
  assert (NB1 : nbok (d_base d1)) by (rewrite EB; apply awf_nbok; auto).
  pose proof W1 as [N1 B1].
  assert (NC : forall d2, store_nonconst p a ez idx val strong k st d1 = Some d2 -> awf d2).
  { intros d2 E2. unfold store_nonconst in E2. destruct (smash_cond p st k).
    - destruct (smash_loop (sa a) ez a (d_gh d1) true (as_map st) (d_base d1)) as [[fl b1]|] eqn:SL; [|discriminate].
      cbn [obind fst snd] in E2. destruct (smash_loop_ok _ _ _ _ P _ _ _ _ _ NB1 S0 SL) as [[OK1 _] F1].
      destruct fl.
      + cbn [obind] in E2. inversion E2; subst. apply awf_set_arr; auto. apply bok_forget_ghosts. apply bok_forget1; auto.
      + destruct (s_array_store (sa a) ez val strong b1) as [b2|] eqn:ST; [|discriminate]. cbn [obind] in E2.
        inversion E2; subst. apply awf_set_arr; auto. apply bok_forget_ghosts.
        eapply bok_store; [exact OK1| |exact ST]. eapply szb_frame; eauto.
    - destruct (kill _ _ _ _ _ _) as [[om1 b1] g1] eqn:KL. inversion E2; subst. apply awf_set_arr; auto.
      eapply bok_kill; eauto. }
  destruct (as_smashed st).
  - destruct (size_consistent st k).
    + destruct (s_array_store (sa a) ez val strong (d_base d1)) as [b'|] eqn:ST; [|discriminate]. cbn [obind] in H.
      inversion H; subst. apply awf_base; auto. eapply bok_store; eauto.
    + inversion H; subst. apply awf_base; auto. apply bok_forget1; auto.
  - destruct (isingleton _) as [n|]; [|auto]. destruct (_ <? _); [|auto].
    destruct (kill _ _ _ _ _ _) as [[om1 b1] g1] eqn:KL. inversion H; subst. apply awf_set_arr; auto.
    apply bok_assign. eapply bok_kill; eauto.
Qed.

Lemma awf_load lhs a ez idx d d' : awf d -> le_pv ez -> szok esz d a ez ->
  a_array_load p lhs a ez idx d = Some d' -> awf d'.
Proof.
  intros W P SZ H. unfold a_array_load in H. destruct (a_is_bottom d) eqn:NB; [inversion H; subst; auto|].
  destruct (check_elem_size ez (a_base (d_base d))) as [k|] eqn:CK; [|discriminate]. cbn [obind] in H.
  destruct (lookup d a) as [st d1] eqn:LK. destruct (awf_lookup _ _ _ _ LK W) as [W1 EB].
  pose proof (szb_of_szok _ _ _ SZ) as S0. rewrite <- EB in S0.
  assert (NB1 : nbok (d_base d1)) by (rewrite EB; apply awf_nbok; auto).
  pose proof W1 as [N1 B1].
  assert (FL : awf (with_base d1 (s_forget1 (VS lhs) (d_base d1)))) by (apply awf_base; auto; apply bok_forget1; auto).
  destruct (as_smashed st).
  - destruct (size_consistent st k); [|inversion H; subst; auto].
    destruct (s_array_load lhs (sa a) ez (d_base d1)) as [b'|] eqn:ST; [|discriminate]. cbn [obind] in H.
    inversion H; subst. apply awf_base; auto. eapply bok_load; eauto.
  - destruct (isingleton _) as [n|].
    + destruct (om_get_overlap _ _ _); inversion H; subst; auto. apply awf_set_arr; auto. apply bok_assign; auto.
    + destruct (_ && _); [|inversion H; subst; auto].
      destruct (smash_loop (ta a) ez a (d_gh d1) true _ (d_base d1)) as [[fl b1]|] eqn:SL; [|discriminate].
      cbn [obind fst snd] in H.
      destruct (smash_loop_ok _ _ _ _ P _ _ _ _ _ NB1 (szb_ta _ _ _ S0) SL) as [[OK1 _] F1].
      destruct fl.
      * cbn [obind] in H. inversion H; subst. apply awf_base; auto. apply bok_forget1. apply bok_forget1; auto.
      * destruct (s_array_load lhs (ta a) ez b1) as [b2|] eqn:ST; [|discriminate]. cbn [obind] in H.
        inversion H; subst. apply awf_base; auto. apply bok_forget1. eapply bok_load; eauto.
Qed.

Lemma awf_range_loop a val : forall n i step d d', awf d ->
  range_loop p a (le_k (esz a)) val i step n d = Some d' -> awf d'.
Proof.
  induction n as [|n IH]; simpl; intros i step d d' W H; [inversion H; subst; auto|].
  destruct (a_array_store p a (le_k (esz a)) (le_k i) val false d) as [d1|] eqn:ST; [|discriminate]. cbn [obind] in H.
  apply (IH (i + step) step d1 d'); auto.
  exact (awf_store _ _ _ _ _ _ _ W (le_pv_k _) (szok_k esz _ _) ST).
Qed.

Lemma awf_range a lb ub val d d' : awf d ->
  a_array_store_range p a (le_k (esz a)) lb ub val d = Some d' -> awf d'.
Proof.
  intros W H. unfold a_array_store_range in H. destruct (a_is_bottom d); [inversion H; subst; auto|].
  destruct (check_elem_size _ _) as [k|]; [|discriminate]. cbn [obind] in H.
  destruct (isingleton (d_eval lb _)) as [l|]; [|inversion H; subst; apply awf_forget_array; auto].
  destruct (isingleton (d_eval ub _)) as [u|]; [|inversion H; subst; apply awf_forget_array; auto].
  destruct (u <? l); [inversion H; subst; auto|].
  destruct (range_loop _ _ _ _ _ _ _ _) as [d1|] eqn:RL; [|discriminate]. cbn [obind] in H.
  pose proof (awf_range_loop _ _ _ _ _ _ _ W RL) as W1.
  destruct (_ <? u); [|inversion H; subst; auto].
  destruct (a_is_bottom d1); [inversion H; subst; auto|].
  destruct (lookup d1 a) as [st d2] eqn:LK. destruct (awf_lookup _ _ _ _ LK W1) as [W2 EB].
  destruct (as_smashed st); [inversion H; subst; auto|].
  destruct (kill _ _ _ _ _ _) as [[om1 b1] g1] eqn:KL. inversion H; subst. pose proof W2 as [_ B2].
  apply awf_set_arr; auto. eapply bok_kill; eauto.
Qed.

Lemma awf_init a lb ub val d d' : awf d ->
  a_array_init p a (le_k (esz a)) lb ub val d = Some d' -> awf d'.
Proof.
  intros W H. unfold a_array_init in H. destruct (a_is_bottom d); [inversion H; subst; auto|].
  destruct (lookup d a) as [st d1] eqn:LK. destruct (awf_lookup _ _ _ _ LK W) as [W1 EB].
  eapply awf_range; [|exact H]. destruct (as_smashed st); auto. destruct (as_map st) as [|c r]; auto.
  destruct (kill _ _ _ _ _ _) as [[om1 b1] g1] eqn:KL. pose proof W1 as [_ B1].
  apply awf_set_arr; auto. eapply bok_kill; eauto.
Qed.

Lemma bok_fold_assign lhs rhs cells : forall b, bok b ->
  bok (fold_left (fun acc c => s_assign (cgc lhs c) (le_var (cgc rhs c)) acc) cells b).
Proof. induction cells as [|c r IH]; cbn [fold_left]; intros b B; auto. apply IH. apply bok_assign; auto. Qed.

Lemma awf_arr_assign lhs rhs d : awf d -> esz lhs = esz rhs -> awf (a_array_assign p lhs rhs d).
Proof.
  intros W Q. unfold a_array_assign. destruct (a_is_bottom d); auto. destruct (N.eqb lhs rhs); auto.
  pose proof (awf_forget_array lhs d W) as W0.
  destruct (lookup (forget_array lhs d) rhs) as [st d2] eqn:LK.
  destruct (awf_lookup _ _ _ _ LK W0) as [[N2 B2] _].
  destruct (negb (as_smashed st)).
  - apply awf_mk; [apply nd_set; auto|apply bok_fold_assign; auto].
  - destruct (p_smashable p); [|split; auto]. apply awf_mk; [apply nd_set; auto|].
    apply bok_array_assign; auto. rewrite !esz'_sa. auto.
Qed.

Lemma awf_forget vs d : awf d -> awf (a_forget vs d).
Proof.
  intros W. unfold a_forget. destruct (_ || _); auto.
  assert (X : forall vs d, awf d -> awf (fold_left (fun acc v => match v with VA a => forget_array a acc | VS _ => acc end) vs d)).
  { clear. induction vs as [|v r IH]; cbn [fold_left]; intros d W; auto. apply IH. destruct v; auto. apply awf_forget_array; auto. }
  pose proof (X vs d W) as W1. apply awf_base; auto. apply bok_forget. destruct W1; auto.
Qed.
Lemma awf_forget1 v d : awf d -> awf (a_forget1 v d).
Proof.
  intros W. unfold a_forget1. destruct (a_is_bottom d); auto. destruct v; [|apply awf_forget_array; auto].
  apply awf_base; auto. apply bok_forget1. destruct W; auto.
Qed.
Lemma awf_expand x y d d' : awf d -> a_expand (VS x) (VS y) d = Some d' -> awf d'.
Proof.
  intros W H. unfold a_expand in H. destruct (_ || _); inversion H; subst; auto.
  apply awf_base; auto. apply bok_expand. destruct W; auto.
Qed.
Lemma awf_rename x y d d' : awf d -> a_rename [VS x] [VS y] d = Some d' -> awf d'.
Proof.
  intros W H. destruct (a_is_bottom d || a_is_top d) eqn:E.
  - unfold a_rename in H. rewrite E in H. inversion H; subst; auto.
  - rewrite rename_scalar_eq in H by auto. inversion H; subst. destruct W as [N B]. apply awf_mk; auto.
    apply bok_rename; auto.
Qed.

(* ================================================================================== *)
(* ---- histories: the invariant is carried along, the join checks are discharged ---- *)
Definition awf_all (rs : list adom) : Prop := forall r, awf (dget rs r).

Lemma awf_dset rs r d : awf_all rs -> awf d -> awf_all (dset rs r d).
Proof.
  intros H D r'. destruct (Nat.lt_ge_cases r (length rs)) as [LT|GE].
  - rewrite dget_dset by auto. destruct (Nat.eqb r' r); auto.
  - rewrite dset_oob by auto. auto.
Qed.
Lemma awf_all_top n : awf_all (repeat a_top n).
Proof.
  intros r. unfold dget. destruct (nth_in_or_default r (repeat a_top n) a_top) as [I|E].
  - apply repeat_spec in I. rewrite I. apply awf_top.
  - rewrite E. apply awf_top.
Qed.

(* what is left of [join_ok]: the operands are not bottom (a_join returns the other operand
   there; [jreg] excludes it as well) and the hypothesis on tracked cells *)
Definition join_ok_wf (X Y : adom) (cX cY : cset) : Prop :=
  a_is_bottom X = false /\ a_is_bottom Y = false /\
  (forall s mu, cX (s, mu) -> forall a st sy, am_find (d_arrs X) a = Some st -> am_find (d_arrs Y) a = Some sy ->
      as_smashed st = false -> as_smashed sy = true -> all_tracked esz onecell X a mu) /\
  (forall s mu, cY (s, mu) -> forall a st sy, am_find (d_arrs X) a = Some st -> am_find (d_arrs Y) a = Some sy ->
      as_smashed sy = false -> as_smashed st = true -> all_tracked esz onecell Y a mu).

Lemma join_ok_of_wf X Y cX cY : awf X -> awf Y -> inv esz X -> inv esz Y ->
  join_ok_wf X Y cX cY -> join_ok esz onecell p X Y cX cY.
Proof.
  intros WX WY IX IY (BX & BY & T1 & T2).
  split; [apply awf_nodup; auto|]. split; [apply awf_jreg; auto|].
  split; [apply awf_Lsz; auto|]. split; [apply awf_Lsz; auto|].
  split; [apply awf_top_empty; auto|]. split; [apply awf_top_empty; auto|]. split; auto.
Qed.

Definition hop_okA_wf (rs : list adom) (cs : list cset) (o : ahop) : Prop :=
  match o with
  | AJoin _ s t | AWiden _ s t | AWidenThr _ s t _ => join_ok_wf (dget rs s) (dget rs t) (cget cs s) (cget cs t)
  | _ => hop_okA esz onecell p rs cs o
  end.

Lemma hop_okA_of_wf rs cs o : awf_all rs -> rel esz onecell rs cs -> hop_okA_wf rs cs o -> hop_okA esz onecell p rs cs o.
Proof.
  intros W (_ & RI & _) OK. assert (WR : forall r, awf (dget rs r)) by exact W. destruct o; cbn [hop_okA_wf hop_okA] in *; auto; apply join_ok_of_wf; auto.
Qed.

Lemma dstep_awf rs cs o rs' : awf_all rs -> rel esz onecell rs cs -> hop_okA_wf rs cs o ->
  dstep p rs o = Some rs' -> awf_all rs'.
Proof.
  intros W R OK E. pose proof R as (_ & RI & _). assert (WR : forall r, awf (dget rs r)) by exact W.
  destruct o; cbn [dstep hop_okA_wf hop_okA] in *.
  - inversion E; subst. apply awf_dset; auto. apply awf_top.
  - inversion E; subst. apply awf_dset; auto. apply awf_bot.
  - inversion E; subst. apply awf_dset; auto.
  - inversion E; subst. apply awf_dset; auto. apply awf_base; auto. apply bok_assign. apply W.
  - inversion E; subst. apply awf_dset; auto. apply awf_base; auto. apply bok_arith. apply W.
  - inversion E; subst. apply awf_dset; auto. apply awf_base; auto. apply bok_assume. apply W.
  - inversion E; subst. apply awf_dset; auto. apply awf_forget; auto.
  - inversion E; subst. apply awf_dset; auto. apply awf_forget1; auto.
  - destruct OK.
  - destruct v as [x|a], nv as [y|b]; try destruct OK.
    destruct (a_expand (VS x) (VS y) (dget rs r)) as [d'|] eqn:Q; inversion E; subst. apply awf_dset; auto.
    eapply awf_expand; eauto.
  - destruct from as [|[x|a] [|? ?]]; try tauto; destruct to as [|[y|b] [|? ?]]; try tauto.
    destruct (a_rename [VS x] [VS y] (dget rs r)) as [d'|] eqn:Q; inversion E; subst. apply awf_dset; auto.
    eapply awf_rename; eauto.
  - destruct OK as [(l & u & _ & _ & (EZ & _)) _]. subst esz0.
    destruct (a_array_init p a _ lb ub val (dget rs r)) as [d'|] eqn:Q; inversion E; subst.
    apply awf_dset; auto. eapply awf_init; eauto.
  - destruct OK as (P1 & P2 & P3 & P4 & P5 & P6).
    destruct (a_array_load p lhs a esz0 idx (dget rs r)) as [d'|] eqn:Q; inversion E; subst.
    apply awf_dset; auto. exact (awf_load _ _ _ _ _ _ (WR r) P2 P5 Q).
  - destruct OK as (P1 & P2 & P3 & P4 & P5 & P6 & P7).
    destruct (a_array_store p a esz0 idx val strong (dget rs r)) as [d'|] eqn:Q; inversion E; subst.
    apply awf_dset; auto. exact (awf_store _ _ _ _ _ _ _ (WR r) P1 P5 Q).
  - destruct OK as ((EZ & _) & _). subst esz0.
    destruct (a_array_store_range p a _ lb ub val (dget rs r)) as [d'|] eqn:Q; inversion E; subst.
    apply awf_dset; auto. eapply awf_range; eauto.
  - inversion E; subst. apply awf_dset; auto. apply awf_arr_assign; auto. apply OK.
  - destruct (a_join p (dget rs s) (dget rs t)) as [d'|] eqn:Q; inversion E; subst.
    apply awf_dset; auto. apply (awf_jk JJoin (dget rs s) (dget rs t)); auto.
  - destruct OK.
  - destruct (a_widen p (dget rs s) (dget rs t)) as [d'|] eqn:Q; inversion E; subst.
    apply awf_dset; auto. apply (awf_jk JWiden (dget rs s) (dget rs t)); auto.
  - destruct OK.
  - destruct (a_widen_thr p ths (dget rs s) (dget rs t)) as [d'|] eqn:Q; inversion E; subst.
    apply awf_dset; auto. apply (awf_jk (JThr ths) (dget rs s) (dget rs t)); auto.
Qed.

Theorem dstep_sound_wf rs cs o rs' : awf_all rs -> rel esz onecell rs cs -> hop_okA_wf rs cs o ->
  dstep p rs o = Some rs' -> rel esz onecell rs' (cstepA esz onecell cs o) /\ awf_all rs'.
Proof.
  intros W R OK E. split; [|eapply dstep_awf; eauto].
  exact (dstep_sound esz onecell esz_pos p rs cs o rs' R (hop_okA_of_wf rs cs o W R OK) E).
Qed.

Fixpoint hist_okA_wf (rs : list adom) (cs : list cset) (h : list ahop) : Prop :=
  match h with
  | [] => True
  | o :: r => hop_okA_wf rs cs o /\
              match dstep p rs o with Some rs' => hist_okA_wf rs' (cstepA esz onecell cs o) r | None => True end
  end.

Theorem dhistory_sound_wf h : forall rs cs rs', awf_all rs ->
  rel esz onecell rs cs -> hist_okA_wf rs cs h -> drun p rs h = Some rs' ->
  rel esz onecell rs' (fold_left (cstepA esz onecell) h cs) /\ awf_all rs'.
Proof.
  induction h as [|o r IH]; simpl; intros rs cs rs' W R OK H.
  - inversion H; subst; auto.
  - destruct OK as [O1 O2]. destruct (dstep p rs o) as [rs1|] eqn:E; [|discriminate].
    destruct (dstep_sound_wf _ _ _ _ W R O1 E) as [R1 W1]. eapply IH; eauto.
Qed.

(* from top states *)
Theorem dhistory_sound_wf_top h n rs' :
  hist_okA_wf (repeat a_top n) (repeat (fun _ => True) n) h -> drun p (repeat a_top n) h = Some rs' ->
  rel esz onecell rs' (fold_left (cstepA esz onecell) h (repeat (fun _ => True) n)) /\ awf_all rs'.
Proof. intros OK H. eapply dhistory_sound_wf; eauto. apply awf_all_top. apply rel_top; auto. Qed.

End Wf.
