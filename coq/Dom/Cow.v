(* Cow.v — model of the copy-on-write wrapper abstract_domain_ref (generic_abstract_domain.hpp):
   handles share cells through reference-counted pointers; every mutating method first
   detaches (clones the cell unless the handle is its only owner), every non-mutating
   method returns a fresh cell.  Property C16 for it: for every sequence of handle
   operations the value observed at each handle is the one the value-semantics
   specification gives — copies never alias. *)
From Coq Require Import List Arith Bool Lia.
Import ListNotations.

Section Cow.
  Variable A : Type.

  (* handle operations: copy construction / assignment, a mutating method (f), a
     non-mutating binary method that builds a new value (g) *)
  Inductive cop :=
  | CCopy (d s : nat)
  | CMut (d : nat) (f : A -> A)
  | CBin (d s t : nat) (g : A -> A -> A).

  Record heap := mkH { h_ptr : list nat;        (* handle -> cell *)
                       h_cell : nat -> A;       (* cell -> value *)
                       h_next : nat }.          (* next unused cell *)

  Definition ptr (st : heap) (h : nat) : nat := nth h (h_ptr st) 0.
  Fixpoint set_nth (l : list nat) (i v : nat) : list nat :=
    match l, i with
    | [], _ => []
    | _ :: t, O => v :: t
    | x :: t, S j => x :: set_nth t j v
    end.
  Definition owners (st : heap) (c : nat) : nat := count_occ Nat.eq_dec (h_ptr st) c.
  Definition cupd (m : nat -> A) (c : nat) (v : A) : nat -> A := fun x => if Nat.eqb x c then v else m x.

  (* shared_ptr::unique() then clone: detach() *)
  Definition detach (st : heap) (d : nat) : heap :=
    if Nat.eqb (owners st (ptr st d)) 1 then st
    else mkH (set_nth (h_ptr st) d (h_next st))
             (cupd (h_cell st) (h_next st) (h_cell st (ptr st d))) (S (h_next st)).

  Definition cstep (st : heap) (o : cop) : heap :=
    match o with
    | CCopy d s => mkH (set_nth (h_ptr st) d (ptr st s)) (h_cell st) (h_next st)
    | CMut d f =>
      let st' := detach st d in
      mkH (h_ptr st') (cupd (h_cell st') (ptr st' d) (f (h_cell st' (ptr st' d)))) (h_next st')
    | CBin d s t g =>
      mkH (set_nth (h_ptr st) d (h_next st))
          (cupd (h_cell st) (h_next st) (g (h_cell st (ptr st s)) (h_cell st (ptr st t))))
          (S (h_next st))
    end.

  (* value-semantics specification *)
  Fixpoint vset (l : list A) (i : nat) (v : A) : list A :=
    match l, i with
    | [], _ => []
    | _ :: t, O => v :: t
    | x :: t, S j => x :: vset t j v
    end.
  Variable dflt : A.
  Definition vget (l : list A) (i : nat) : A := nth i l dflt.
  Definition sstep (vs : list A) (o : cop) : list A :=
    match o with
    | CCopy d s => vset vs d (vget vs s)
    | CMut d f => vset vs d (f (vget vs d))
    | CBin d s t g => vset vs d (g (vget vs s) (vget vs t))
    end.

  Definition observe (st : heap) : list A := map (h_cell st) (h_ptr st).

  Definition wf (st : heap) : Prop := forall c, In c (h_ptr st) -> c < h_next st.
  Definition in_range (st : heap) (o : cop) : Prop :=
    match o with
    | CCopy d s => d < length (h_ptr st) /\ s < length (h_ptr st)
    | CMut d _ => d < length (h_ptr st)
    | CBin d s t _ => d < length (h_ptr st) /\ s < length (h_ptr st) /\ t < length (h_ptr st)
    end.

  Lemma set_nth_length l i v : length (set_nth l i v) = length l.
  Proof. revert i. induction l as [|x t IH]; intros [|j]; simpl; auto. Qed.

  Lemma map_set_nth (m : nat -> A) l i v : map m (set_nth l i v) = vset (map m l) i (m v).
  Proof. revert i. induction l as [|x t IH]; intros [|j]; simpl; auto. f_equal. apply IH. Qed.

  Lemma in_set_nth l i v c : In c (set_nth l i v) -> c = v \/ In c l.
  Proof.
    revert i. induction l as [|x t IH]; intros [|j]; simpl; auto.
    - intros [H|H]; auto.
    - intros [H|H]; auto. destruct (IH _ H); auto.
  Qed.

  Lemma map_cupd_fresh (m : nat -> A) l c v : (forall x, In x l -> x <> c) -> map (cupd m c v) l = map m l.
  Proof.
    intros H. apply map_ext_in. intros x I. unfold cupd. destruct (Nat.eqb_spec x c); auto.
    exfalso. eapply H; eauto.
  Qed.

  Lemma vget_map (m : nat -> A) l i : i < length l -> vget (map m l) i = m (nth i l 0).
  Proof. intros L. unfold vget. rewrite (nth_indep _ dflt (m 0)) by (rewrite map_length; auto). apply map_nth. Qed.

  (* a cell with exactly one owner is owned by handle d only *)
  Lemma unique_owner l d c : d < length l -> nth d l 0 = c -> count_occ Nat.eq_dec l c = 1 ->
    forall i, i < length l -> i <> d -> nth i l 0 <> c.
  Proof.
    revert d. induction l as [|x t IH]; simpl; intros d L E C i Li N; [lia|].
    destruct d as [|d], i as [|i]; simpl in *; try lia.
    - subst x. destruct (Nat.eq_dec c c); [|congruence]. inversion C as [C0].
      apply count_occ_not_In in C0. intros X. apply C0. rewrite <- X. apply nth_In. lia.
    - destruct (Nat.eq_dec x c) as [->|NE]; auto.
      inversion C as [C0]. apply count_occ_not_In in C0. exfalso. apply C0. rewrite <- E. apply nth_In. lia.
    - destruct (Nat.eq_dec x c) as [->|NE].
      + inversion C as [C0]. apply count_occ_not_In in C0. exfalso. apply C0. rewrite <- E. apply nth_In. lia.
      + apply (IH d); auto; lia.
  Qed.

  Lemma map_cupd_at (m : nat -> A) l d v :
    d < length l -> (forall i, i < length l -> i <> d -> nth i l 0 <> nth d l 0) ->
    map (cupd m (nth d l 0) v) l = vset (map m l) d v.
  Proof.
    revert d. induction l as [|x t IH]; simpl; intros d L U; [lia|].
    destruct d as [|d]; simpl in *.
    - unfold cupd at 1. rewrite Nat.eqb_refl. f_equal.
      apply map_cupd_fresh. intros y I X. subst y.
      destruct (In_nth _ _ 0 I) as (j & Lj & Ej). apply (U (S j)); simpl; try lia; auto.
    - unfold cupd at 1. destruct (Nat.eqb_spec x (nth d t 0)) as [E|NE].
      + exfalso. apply (U 0); simpl; try lia; auto.
      + f_equal. apply IH; [lia|]. intros i Li N. apply (U (S i)); simpl; lia.
  Qed.

  Lemma detach_observe st d : wf st -> d < length (h_ptr st) ->
    observe (detach st d) = observe st /\ wf (detach st d) /\
    length (h_ptr (detach st d)) = length (h_ptr st) /\
    (forall i, i < length (h_ptr st) -> i <> d -> ptr (detach st d) i <> ptr (detach st d) d).
  Proof.
    intros W L. unfold detach. destruct (Nat.eqb_spec (owners st (ptr st d)) 1) as [U|NU].
    - repeat split; auto. intros i Li N. apply (unique_owner (h_ptr st) d (ptr st d)); auto.
    - unfold observe, wf, ptr; simpl. repeat split.
      + rewrite map_set_nth. unfold cupd at 2. rewrite Nat.eqb_refl.
        rewrite map_cupd_fresh by (intros x I; specialize (W x I); lia).
        clear NU. revert d L. induction (h_ptr st) as [|x t IH]; intros [|d] L; simpl in *; try lia; auto.
        f_equal. apply IH. lia.
      + intros c I. apply in_set_nth in I. destruct I as [->|I]; [lia|]. specialize (W c I). lia.
      + apply set_nth_length.
      + intros i Li N.
        assert (E1 : forall l i d v, i < length l -> i <> d -> nth i (set_nth l d v) 0 = nth i l 0).
        { clear. induction l as [|x t IH]; intros [|i] [|d] v L N; simpl in *; try lia; auto. apply IH; lia. }
        assert (E2 : forall l d v, d < length l -> nth d (set_nth l d v) 0 = v).
        { clear. induction l as [|x t IH]; intros [|d] v L; simpl in *; try lia; auto. apply IH; lia. }
        rewrite E1, E2 by auto. assert (nth i (h_ptr st) 0 < h_next st) by (apply W; apply nth_In; auto). lia.
  Qed.

  Theorem cstep_refines st o : wf st -> in_range st o ->
    observe (cstep st o) = sstep (observe st) o /\ wf (cstep st o) /\
    length (h_ptr (cstep st o)) = length (h_ptr st).
  Proof.
    intros W R. destruct o as [d s|d f|d s t g]; simpl in *.
    - destruct R as [Ld Ls]. unfold observe, wf, ptr; simpl. repeat split.
      + rewrite map_set_nth. f_equal. symmetry. apply vget_map; auto.
      + intros c I. apply in_set_nth in I. destruct I as [->|I]; auto. apply W. apply nth_In; auto.
      + apply set_nth_length.
    - destruct (detach_observe st d W R) as (OB & W' & LE & UQ).
      set (st' := detach st d) in *. unfold wf; simpl. repeat split; auto.
      unfold observe at 1; simpl. change (observe st) with (map (h_cell st) (h_ptr st)).
      unfold observe in OB. rewrite <- OB. unfold ptr.
      rewrite map_cupd_at; [|rewrite LE; auto|intros i Li N; apply UQ; auto; rewrite <- LE; auto].
      f_equal. f_equal. symmetry. apply vget_map. rewrite LE; auto.
    - destruct R as (Ld & Ls & Lt). unfold observe, wf, ptr; simpl. repeat split.
      + rewrite map_set_nth. unfold cupd at 2. rewrite Nat.eqb_refl.
        rewrite map_cupd_fresh by (intros x I; specialize (W x I); lia).
        f_equal. f_equal; symmetry; apply vget_map; auto.
      + intros c I. apply in_set_nth in I. destruct I as [->|I]; [lia|]. specialize (W c I). lia.
      + apply set_nth_length.
  Qed.

  (* any sequence of operations *)
  Fixpoint ops_in_range (st : heap) (os : list cop) : Prop :=
    match os with [] => True | o :: r => in_range st o /\ ops_in_range (cstep st o) r end.

  Theorem cow_is_value_semantics os : forall st, wf st -> ops_in_range st os ->
    observe (fold_left cstep os st) = fold_left sstep os (observe st).
  Proof.
    induction os as [|o r IH]; simpl; intros st W R; auto.
    destruct R as [R1 R2]. destruct (cstep_refines st o W R1) as (E & W' & _).
    rewrite IH; auto. rewrite E. reflexivity.
  Qed.
End Cow.
