(* ItvSolver.v — mirror of ikos::linear_interval_solver (linear_interval_solver.hpp) over
   interval environments, including the strict-inequality lowering, the small/large
   system switch, the trigger table, and the cycle / operation budgets. *)
From Coq Require Import ZArith NArith List Bool Lia.
From CrabV Require Import Base.ZInf Scalar.Itv Ir.Syntax Dom.ItvEnv.
Import ListNotations.
Local Open Scope Z_scope.

Record sst := mkS { s_map : amap; s_refined : list var; s_ops : N }.

Definition mark_refined (v : var) (l : list var) : list var := insert_sorted v l.

(* refine: None = bottom *)
Definition s_refine (v : var) (i : itv) (st : sst) : option sst :=
  let old := get (s_map st) v in
  let nw := imeet old i in
  if is_bot nw then None
  else if negb (ieq old nw)
       then Some (mkS (put (s_map st) v nw) (mark_refined v (s_refined st)) (s_ops st + 1)%N)
       else Some st.

(* compute_residual: returns the residual and the updated op counter *)
Fixpoint residual_loop (ts : list (Z * var)) (pivot : var) (m : amap) (res : itv) (ops : N)
  : itv * N :=
  match ts with
  | [] => (res, ops)
  | (c, v) :: r =>
    if N.eqb v pivot then residual_loop r pivot m res ops
    else
      let res' := isub res (imul (iconst c) (get m v)) in
      let ops' := (ops + 1)%N in
      if is_top res' then (res', ops') else residual_loop r pivot m res' ops'
  end.

Definition compute_residual (c : lincst) (pivot : var) (st : sst) : itv * N :=
  residual_loop (le_terms (lc_exp c)) pivot (s_map st) (iconst (- le_cst (lc_exp c))) (s_ops st).

Definition propagate_term (cst : lincst) (c : Z) (pivot : var) (st : sst) : option sst :=
  let '(res, ops) := compute_residual cst pivot st in
  let st := mkS (s_map st) (s_refined st) ops in
  let ic := iconst c in
  let rhs := if is_top res then itop else idiv res ic in
  let exact := if is_top res then false else ieq (imul rhs ic) res in
  match lc_kind cst with
  | EQ => s_refine pivot rhs st
  | INEQ => if 0 <? c then s_refine pivot (ilower_half rhs) st
            else s_refine pivot (iupper_half rhs) st
  | STRICT => Some st
  | DISEQ =>
    let old := get (s_map st) pivot in
    let nw := if exact then itrim old rhs else old in
    if is_bot nw then None
    else
      let st' := if negb (ieq old nw)
                 then mkS (put (s_map st) pivot nw) (mark_refined pivot (s_refined st)) (s_ops st)
                 else st in
      Some (mkS (s_map st') (s_refined st') (s_ops st' + 1)%N)
  end.

Fixpoint propagate_terms (cst : lincst) (ts : list (Z * var)) (st : sst) : option sst :=
  match ts with
  | [] => Some st
  | (c, v) :: r =>
    match propagate_term cst c v st with
    | None => None
    | Some st' => propagate_terms cst r st'
    end
  end.

Definition propagate (cst : lincst) (st : sst) : option sst :=
  propagate_terms cst (le_terms (lc_exp cst)) st.

Fixpoint propagate_all (cs : list lincst) (st : sst) : option sst :=
  match cs with
  | [] => Some st
  | c :: r => match propagate c st with None => None | Some st' => propagate_all r st' end
  end.

(* solve_small_system: do { ++cycle; clear; propagate all } while (refined && cycle <= max) *)
Fixpoint small_loop (fuel : nat) (table : list lincst) (cycle max_cycles : N) (st : sst) : option sst :=
  match fuel with
  | O => Some st
  | S f =>
    let cycle := (cycle + 1)%N in
    match propagate_all table (mkS (s_map st) [] (s_ops st)) with
    | None => None
    | Some st' =>
      match s_refined st' with
      | [] => Some st'
      | _ => if (cycle <=? max_cycles)%N then small_loop f table cycle max_cycles st' else Some st'
      end
    end
  end.

(* trigger table: indices (ascending) of the constraints that mention v *)
Fixpoint triggers (table : list lincst) (i : nat) (v : var) : list nat :=
  match table with
  | [] => []
  | c :: r => if existsb (N.eqb v) (lc_vars c) then i :: triggers r (S i) v else triggers r (S i) v
  end.

Fixpoint propagate_idx (table : list lincst) (idx : list nat) (st : sst) : option sst :=
  match idx with
  | [] => Some st
  | i :: r =>
    match nth_error table i with
    | None => propagate_idx table r st
    | Some c => match propagate c st with None => None | Some st' => propagate_idx table r st' end
    end
  end.

Fixpoint process_vars (table : list lincst) (vs : list var) (st : sst) : option sst :=
  match vs with
  | [] => Some st
  | v :: r =>
    match propagate_idx table (triggers table 0 v) st with
    | None => None
    | Some st' => process_vars table r st'
    end
  end.

Fixpoint large_loop (fuel : nat) (table : list lincst) (max_op : N) (st : sst) : option sst :=
  match fuel with
  | O => Some st
  | S f =>
    let vars := s_refined st in
    match process_vars table vars (mkS (s_map st) [] (s_ops st)) with
    | None => None
    | Some st' =>
      match s_refined st' with
      | [] => Some st'
      | _ => if (s_ops st' <=? max_op)%N then large_loop f table max_op st' else Some st'
      end
    end
  end.

(* constructor: preprocessing *)
Record prep := mkP { p_contra : bool; p_table : list lincst; p_opc : N }.

Fixpoint preprocess (cs : list lincst) (table : list lincst) (opc : N) : prep :=
  match cs with
  | [] => mkP false table opc
  | c :: r =>
    if lc_is_contradiction c then mkP true table opc
    else if lc_is_tautology c then preprocess r table opc
    else
      let sz := N.of_nat (length (le_terms (lc_exp c))) in
      match lc_kind c with
      | STRICT =>
        let sz2 := (sz + sz)%N in
        preprocess r (table ++ [mkLC INEQ (lc_exp c); mkLC DISEQ (lc_exp c)]) (opc + sz2 * sz2)%N
      | _ => preprocess r (table ++ [c]) (opc + sz * sz)%N
      end
  end.

(* solver(csts, max_cycles).run(env) on a non-bottom map; None = bottom *)
Definition solve (cs : list lincst) (max_cycles : N) (m : amap) : option amap :=
  let p := preprocess cs [] 0%N in
  if p_contra p then None
  else
    let table := p_table p in
    let large := (3 <? N.of_nat (length table))%N || (27 <? p_opc p)%N in
    let st0 := mkS m [] 0%N in
    let r :=
      if large then
        let max_op := (p_opc p * max_cycles)%N in
        match propagate_all table st0 with
        | None => None
        | Some st1 =>
          (* do { ... } while: the body runs at least once *)
          large_loop (S (S (N.to_nat max_op))) table max_op st1
        end
      else small_loop (S (N.to_nat max_cycles)) table 0%N max_cycles st0 in
    match r with None => None | Some st => Some (s_map st) end.
