(* ArrayLift.v — property C12, lifting clause, for the two array liftings that have a full
   mirror: array_smashing<interval_domain> (ArraySmash.v) and
   array_adaptive_domain<interval_domain> (ArrayAdapt.v).

   On straight-line NUMERICAL code (a history of scalar operations of the interval-domain
   language History.hop, no array statement) the scalar component of the array domain's
   value is, structurally, the value that the bare interval-domain model computes
   (History.hrun); bottom and at(v) are therefore reported alike.

   Embedding of the scalar operations ([alift]).  The register language of the two array
   mirrors (ArraySmash.ahop) has a constructor for: top, bottom, copy, assign, arithmetic
   apply, assume (+= of a constraint system, through the solver), forget, project, rename,
   expand, join, meet, widening, narrowing, widening with thresholds; scalars are passed as
   [VS x].
   Excluded from the theorems:
   - HWeakAssign, HBit, HCast, HSelect: the mirrors have no such operation (ahop has no
     constructor for weak_assign, the bitwise apply, the int-cast apply and select; in the
     C++ all four are plain delegations to the base domain).  They are excluded for BOTH
     liftings; [alift] sends them to a dummy operation.
   - for array_adaptive only, an HMeet one operand of which is top while the other one is
     not bottom ([meet_fine]; [adapt_ok] excludes every HMeet, [adapt_hist_ok] only those):
     array_adaptive_domain::operator& returns one operand
     itself when the other one is top, where the interval domain rebuilds the environment
     binding after binding.  In the association-list model of environments (ItvEnv.env)
     the rebuilt list holds the same bindings in another order, so the two values agree
     pointwise but are not the same term ([adapt_meet_not_structural] below; the patricia
     trees of the C++ are canonical, so there the two are the same tree).
   - for array_adaptive only, HRename with lists of different lengths:
     array_adaptive_domain::rename stops with CRAB_ERROR ([a_rename] = None).
   Everything else is covered, in particular the empty assume / project and, for
   array_smashing, meet and narrowing. *)
From Coq Require Import ZArith NArith List Bool Lia.
From CrabV Require Import Base.ZInf Scalar.Itv Ir.Syntax Dom.ItvEnv Dom.ItvSolver Dom.ItvDomain
     Dom.History Fix.Thresholds Dom.ItvEnvNoTop Dom.ArraySmash Dom.ArrayAdaptCore Dom.ArrayAdapt.
Import ListNotations.
Local Open Scope Z_scope.

(* ------------------------------------------------------------------ the embedding *)
Definition alift (o : hop) : ahop :=
  match o with
  | HTop r => ATop r | HBot r => ABot r | HCopy r s => ACopy r s
  | HAssign r x e => AAssign r x e
  | HArith r op x y z => AArith r op x y z
  | HAssume r cs => AAssume r cs
  | HForget r vs => AForget r (map VS vs)
  | HProject r vs => AProject r (map VS vs)
  | HRename r f t => ARename r (map VS f) (map VS t)
  | HExpand r x nx => AExpand r (VS x) (VS nx)
  | HJoin r s t => AJoin r s t
  | HMeet r s t => AMeet r s t
  | HWiden r s t => AWiden r s t
  | HNarrow r s t => ANarrow r s t
  | HWidenThr r s t ths => AWidenThr r s t ths
  (* no counterpart in the mirrors: excluded by [smash_ok] / [adapt_ok] *)
  | HWeakAssign r _ _ => ACopy r r
  | HBit r _ _ _ _ => ACopy r r
  | HCast r _ _ _ _ _ _ => ACopy r r
  | HSelect r _ _ _ _ => ACopy r r
  end.

(* numerical statements covered for array_smashing *)
Definition smash_ok (o : hop) : Prop :=
  match o with
  | HWeakAssign _ _ _ | HBit _ _ _ _ _ | HCast _ _ _ _ _ _ _ | HSelect _ _ _ _ _ => False
  | _ => True
  end.
(* numerical statements covered for array_adaptive *)
Definition adapt_ok (o : hop) : Prop :=
  match o with
  | HWeakAssign _ _ _ | HBit _ _ _ _ _ | HCast _ _ _ _ _ _ _ | HSelect _ _ _ _ _ => False
  | HMeet _ _ _ => False
  | HRename _ f t => length f = length t
  | _ => True
  end.

(* ------------------------------------------------------------------ lists of scalars *)
Lemma forget_scan_VS vs : forall l acc, forget_scan (map VS vs) l acc = (l, acc ++ vs).
Proof.
  induction vs as [|v r IH]; intros l acc; cbn [map forget_scan].
  - rewrite app_nil_r. reflexivity.
  - rewrite IH, <- app_assoc. reflexivity.
Qed.
Lemma project_scan_VS vs : forall l kv ka, project_scan (map VS vs) l kv ka = (kv ++ vs, ka).
Proof.
  induction vs as [|v r IH]; intros l kv ka; cbn [map project_scan].
  - rewrite app_nil_r. reflexivity.
  - rewrite IH, <- app_assoc. reflexivity.
Qed.
Definition vsp (q : var * var) : avar * avar := (VS (fst q), VS (snd q)).
Lemma combine_VS f : forall t, combine (map VS f) (map VS t) = map vsp (combine f t).
Proof.
  induction f as [|x f IH]; intros [|y t]; cbn [map combine]; try reflexivity.
  rewrite IH. reflexivity.
Qed.
Lemma rename_scan_VS ps : forall l ov nv,
  rename_scan (map vsp ps) l ov nv = (l, ov ++ map fst ps, nv ++ map snd ps).
Proof.
  induction ps as [|[x y] r IH]; intros l ov nv; cbn [map rename_scan vsp fst snd].
  - rewrite !app_nil_r. reflexivity.
  - rewrite IH, <- !app_assoc. reflexivity.
Qed.
Lemma combine_fst_snd {A B} (l : list (A * B)) : combine (map fst l) (map snd l) = l.
Proof. induction l as [|[a b] r IH]; cbn [map combine fst snd]; [|rewrite IH]; reflexivity. Qed.
Lemma e_rename_combine e f t :
  e_rename e (map fst (combine f t)) (map snd (combine f t)) = e_rename e f t.
Proof. unfold e_rename. rewrite combine_fst_snd. reflexivity. Qed.

Lemma s_forget_VS vs s : s_forget (map VS vs) s = mkA (a_la s) (d_forget vs (a_base s)).
Proof. unfold s_forget. rewrite forget_scan_VS. reflexivity. Qed.
Lemma s_project_VS vs s :
  s_project (map VS vs) s = mkA (la_project (a_la s) []) (e_project (a_base s) vs).
Proof. unfold s_project. rewrite project_scan_VS. reflexivity. Qed.
Lemma s_rename_VS f t s :
  s_rename (map VS f) (map VS t) s = mkA (a_la s) (e_rename (a_base s) f t).
Proof.
  unfold s_rename. rewrite combine_VS, rename_scan_VS. cbn [app].
  rewrite e_rename_combine. reflexivity.
Qed.

(* ------------------------------------------------------------------ registers *)
Lemma Forall2_nth {A B} (R : A -> B -> Prop) da db : R da db ->
  forall l1 l2, Forall2 R l1 l2 -> forall r, R (nth r l1 da) (nth r l2 db).
Proof.
  intros D l1 l2 F. induction F; intros [|r]; cbn [nth]; auto.
Qed.
Lemma Forall2_repeat {A B} (R : A -> B -> Prop) a b n : R a b -> Forall2 R (repeat a n) (repeat b n).
Proof. intros H. induction n; cbn [repeat]; constructor; auto. Qed.

(* ================================================================== array_smashing *)
Definition ssim (st : ast) (e : env) : Prop := a_base st = e.
Definition ssimr (rs : list ast) (es : list env) : Prop := Forall2 ssim rs es.

Lemma ssimr_get rs es r : ssimr rs es -> a_base (aget rs r) = rget es r.
Proof. intros H. unfold aget, rget. apply (Forall2_nth ssim s_top e_top); [reflexivity|exact H]. Qed.
Lemma ssimr_set rs es : ssimr rs es -> forall r v e, a_base v = e -> ssimr (aset rs r v) (rset es r e).
Proof.
  intros F. induction F; intros [|r] v e E; cbn [aset rset]; constructor; auto.
  apply IHF; exact E.
Qed.

Theorem smash_sim_step rs es o :
  ssimr rs es -> smash_ok o ->
  exists rs', astep rs (alift o) = Some rs' /\ ssimr rs' (hstep es o).
Proof.
  intros R OK.
  destruct o; cbn [smash_ok] in OK; try contradiction; cbn [alift astep hstep];
    (eexists; split; [reflexivity|]); (apply ssimr_set; [exact R|]);
    try (pose proof (ssimr_get rs es r R) as G);
    try (pose proof (ssimr_get rs es s R) as Gs);
    try (pose proof (ssimr_get rs es t R) as Gt).
  - (* top *) reflexivity.
  - (* bottom *) reflexivity.
  - (* copy *) exact Gs.
  - (* assign *) cbn [s_assign a_base]. rewrite G. reflexivity.
  - (* arith *) cbn [s_arith a_base]. rewrite G. reflexivity.
  - (* assume *) cbn [s_assume a_base]. rewrite G. reflexivity.
  - (* forget *) rewrite s_forget_VS. cbn [a_base]. rewrite G. reflexivity.
  - (* project *) rewrite s_project_VS. cbn [a_base]. rewrite G. reflexivity.
  - (* rename *) rewrite s_rename_VS. cbn [a_base]. rewrite G. reflexivity.
  - (* expand *) cbn [s_expand a_base]. rewrite G. reflexivity.
  - (* join *) cbn [s_join a_base]. rewrite Gs, Gt. reflexivity.
  - (* meet *) cbn [s_meet a_base]. rewrite Gs, Gt. reflexivity.
  - (* widening *) cbn [s_widen a_base]. rewrite Gs, Gt. reflexivity.
  - (* narrowing *) cbn [s_narrow a_base]. rewrite Gs, Gt. reflexivity.
  - (* widening with thresholds *) unfold s_widen_thr. cbn [a_base]. rewrite Gs, Gt. reflexivity.
Qed.

Theorem smash_sim_run h : forall rs es,
  ssimr rs es -> Forall smash_ok h ->
  exists rs', arun rs (map alift h) = Some rs' /\ ssimr rs' (hrun es h).
Proof.
  induction h as [|o r IH]; intros rs es R OK; cbn [map arun hrun fold_left].
  - exists rs. split; [reflexivity|exact R].
  - inversion OK; subst.
    destruct (smash_sim_step rs es o R H1) as (rs1 & E1 & R1). rewrite E1.
    apply (IH rs1 (hstep es o) R1 H2).
Qed.

(* C12, lifting clause, array_smashing<interval_domain> *)
Theorem smash_lifting_numerical h n :
  Forall smash_ok h ->
  exists rs, arun (repeat s_top n) (map alift h) = Some rs /\
    forall r,
      let st := aget rs r in
      let e := rget (hrun (repeat e_top n) h) r in
      a_base st = e /\ s_is_bottom st = e_is_bot e /\ forall v, s_at st v = e_at e v.
Proof.
  intros OK.
  destruct (smash_sim_run h (repeat s_top n) (repeat e_top n)) as (rs & E & R); auto.
  { apply Forall2_repeat. reflexivity. }
  exists rs. split; [exact E|]. intros r. cbv zeta.
  pose proof (ssimr_get rs _ r R) as G. unfold s_is_bottom, s_at. rewrite G. auto.
Qed.

(* ================================================================== array_adaptive *)
(* no array has ever been mentioned: the array map and the ghost map stay empty *)
Definition dsim (d : adom) (e : env) : Prop :=
  (a_base (d_base d) = e /\ d_arrs d = [] /\ d_gh d = []) /\ ntbe e.
Definition dsimr (rs : list adom) (es : list env) : Prop := Forall2 dsim rs es.

Lemma dsim_top : dsim a_top e_top.
Proof. split; [auto|exact ntbe_top]. Qed.
Lemma dsimr_get rs es r : dsimr rs es -> dsim (dget rs r) (rget es r).
Proof. intros H. unfold dget, rget. apply (Forall2_nth dsim a_top e_top); [exact dsim_top|exact H]. Qed.
Lemma dsimr_set rs es : dsimr rs es -> forall r v e, dsim v e -> dsimr (dset rs r v) (rset es r e).
Proof.
  intros F. induction F; intros [|r] v e E; cbn [dset rset]; constructor; auto.
  apply IHF; exact E.
Qed.

(* a value whose maps are empty *)
Lemma dsim_mk b e : a_base b = e -> ntbe e -> dsim (mkD b [] []) e.
Proof. intros E N. split; auto. Qed.
Lemma dsim_with_base d e0 b e : dsim d e0 -> a_base b = e -> ntbe e -> dsim (with_base d b) e.
Proof. intros [(_ & A & G) _] E N. unfold with_base. rewrite A, G. apply dsim_mk; auto. Qed.
Lemma dsim_bot_top d e : dsim d e -> a_is_bottom d = e_is_bot e /\ a_is_top d = e_is_top e.
Proof. intros [(E & _) _]. unfold a_is_bottom, a_is_top, s_is_bottom, s_is_top. rewrite E. auto. Qed.

Lemma d_forget_early vs e : e_is_bot e || e_is_top e = true -> d_forget vs e = e.
Proof. intros B. unfold d_forget. rewrite B. reflexivity. Qed.
Lemma d_expand_early x nx e : e_is_bot e || e_is_top e = true -> d_expand x nx e = e.
Proof. intros B. unfold d_expand. rewrite B. reflexivity. Qed.
Lemma e_project_early vs e : e_is_bot e || e_is_top e = true -> e_project e vs = e.
Proof.
  destruct e as [|m]; cbn [e_is_bot e_is_top orb e_project]; [reflexivity|]. intros ->. reflexivity.
Qed.
Lemma e_rename_early f t e : e_is_bot e || e_is_top e = true -> e_rename e f t = e.
Proof.
  destruct e as [|m]; cbn [e_is_bot e_is_top orb e_rename]; [reflexivity|]. intros ->. reflexivity.
Qed.

Lemma fold_forget_VS vs : forall d,
  fold_left (fun acc v => match v with VA a => forget_array a acc | VS _ => acc end) (map VS vs) d = d.
Proof. induction vs as [|v r IH]; intros d; cbn [map fold_left]; auto. Qed.
Lemma filter_is_vs_VS vs : filter is_vs (map VS vs) = map VS vs.
Proof. induction vs as [|v r IH]; cbn [map filter is_vs]; [|rewrite IH]; reflexivity. Qed.

Lemma a_forget_VS vs d e : dsim d e -> dsim (a_forget (map VS vs) d) (d_forget vs e).
Proof.
  intros S. pose proof S as [(E & A & G) N]. destruct (dsim_bot_top d e S) as [B T].
  unfold a_forget. rewrite B, T.
  destruct (e_is_bot e || e_is_top e) eqn:X.
  - rewrite d_forget_early by exact X. exact S.
  - rewrite fold_forget_VS, filter_is_vs_VS, s_forget_VS.
    eapply dsim_with_base; [exact S| |].
    + cbn [a_base]. rewrite E. reflexivity.
    + apply ntbe_d_forget; exact N.
Qed.

Lemma a_project_VS vs d e : dsim d e -> dsim (a_project (map VS vs) d) (e_project e vs).
Proof.
  intros S. pose proof S as [(E & A & G) N]. destruct (dsim_bot_top d e S) as [B T].
  unfold a_project. rewrite B, T.
  destruct (e_is_bot e || e_is_top e) eqn:X.
  - rewrite e_project_early by exact X. exact S.
  - rewrite A, G. cbn [flat_map filter]. rewrite app_nil_r, filter_is_vs_VS, s_project_VS.
    apply dsim_mk.
    + cbn [a_base]. rewrite E. reflexivity.
    + apply ntbe_project; exact N.
Qed.

Lemma a_expand_VS x nx d e :
  dsim d e -> exists d', a_expand (VS x) (VS nx) d = Some d' /\ dsim d' (d_expand x nx e).
Proof.
  intros S. pose proof S as [(E & A & G) N]. destruct (dsim_bot_top d e S) as [B T].
  unfold a_expand. rewrite B, T.
  destruct (e_is_bot e || e_is_top e) eqn:X.
  - exists d. split; [reflexivity|]. rewrite d_expand_early by exact X. exact S.
  - eexists. split; [reflexivity|].
    eapply dsim_with_base; [exact S| |].
    + cbn [s_expand a_base]. rewrite E. reflexivity.
    + apply ntbe_d_expand; exact N.
Qed.

Lemma same_kind_vsp ps : forallb same_kind (map vsp ps) = true.
Proof. induction ps as [|q r IH]; cbn [map forallb vsp same_kind]; auto. Qed.
Lemma filter_vsp ps : filter (fun q : avar * avar => is_vs (fst q)) (map vsp ps) = map vsp ps.
Proof. induction ps as [|q r IH]; cbn [map filter vsp fst is_vs]; [|rewrite IH]; reflexivity. Qed.
Lemma rename_arrays_vsp ps : forall m g ov nv,
  rename_arrays (map vsp ps) m g ov nv = Some (m, g, ov, nv).
Proof. induction ps as [|q r IH]; intros m g ov nv; cbn [map rename_arrays vsp]; auto. Qed.
Lemma map_fst_vsp ps : map fst (map vsp ps) = map VS (map fst ps).
Proof. induction ps as [|q r IH]; cbn [map vsp fst]; [|rewrite IH]; reflexivity. Qed.
Lemma map_snd_vsp ps : map snd (map vsp ps) = map VS (map snd ps).
Proof. induction ps as [|q r IH]; cbn [map vsp snd]; [|rewrite IH]; reflexivity. Qed.

Lemma a_rename_VS f t d e :
  length f = length t -> dsim d e ->
  exists d', a_rename (map VS f) (map VS t) d = Some d' /\ dsim d' (e_rename e f t).
Proof.
  intros L S. pose proof S as [(E & A & G) N]. destruct (dsim_bot_top d e S) as [B T].
  unfold a_rename. rewrite B, T.
  destruct (e_is_bot e || e_is_top e) eqn:X.
  - exists d. split; [reflexivity|]. rewrite e_rename_early by exact X. exact S.
  - rewrite !map_length, L, Nat.eqb_refl. cbn [negb]. cbv zeta.
    rewrite combine_VS, same_kind_vsp. cbn [negb].
    rewrite filter_vsp, rename_arrays_vsp. cbn [obind].
    rewrite map_fst_vsp, map_snd_vsp, A, G, s_rename_VS, e_rename_combine.
    eexists. split; [reflexivity|]. apply dsim_mk.
    + cbn [a_base]. rewrite E. reflexivity.
    + apply ntbe_rename; exact N.
Qed.

(* the join-like operators with empty array maps *)
Lemma join_like_empty p op gop x y :
  d_arrs x = [] ->
  join_like p op gop x y = Some (mkD (op (d_base x) (d_base y)) [] (gop (d_gh x) (d_gh y))).
Proof. intros A. unfold join_like. rewrite A. reflexivity. Qed.

(* the interval domain's join with the empty environment *)
Lemma build_all_top g : (forall k, g k = itop) -> forall ks, build ks g [] = Some [].
Proof. intros H. induction ks as [|k r IH]; cbn [build]; [reflexivity|]. rewrite H. exact IH. Qed.
Lemma e_join_top_l y : e_is_bot y = false -> e_join e_top y = e_top.
Proof.
  destruct y as [|m]; [discriminate|]. intros _. cbn [e_join e_top]. unfold merge.
  rewrite build_all_top; [reflexivity|]. intros k. reflexivity.
Qed.
Lemma e_join_top_r x : e_is_bot x = false -> e_join x e_top = e_top.
Proof.
  destruct x as [|m]; [discriminate|]. intros _. cbn [e_join e_top]. unfold merge.
  rewrite build_all_top; [reflexivity|]. intros k. unfold comb. cbn [get].
  destruct (is_top (get m k)); reflexivity.
Qed.

Lemma a_join_sim p x y ex ey :
  dsim x ex -> dsim y ey -> exists d, a_join p x y = Some d /\ dsim d (e_join ex ey).
Proof.
  intros Sx Sy. pose proof Sx as [(Ex & Ax & Gx) Nx]. pose proof Sy as [(Ey & Ay & Gy) Ny].
  destruct (dsim_bot_top x ex Sx) as [Bx Tx]. destruct (dsim_bot_top y ey Sy) as [By Ty].
  unfold a_join. rewrite Bx, Tx, By, Ty.
  destruct (e_is_bot ey) eqn:By'.
  { exists x. split; [reflexivity|]. rewrite (e_is_bot_eq ey By').
    destruct ex; exact Sx. }
  destruct (e_is_top ex) eqn:Tx'.
  { exists x. split; [reflexivity|]. pose proof (ntbe_is_top ex Nx Tx') as ->.
    rewrite e_join_top_l by exact By'. exact Sx. }
  cbn [orb].
  destruct (e_is_bot ex) eqn:Bx'.
  { exists y. split; [reflexivity|]. rewrite (e_is_bot_eq ex Bx'). exact Sy. }
  destruct (e_is_top ey) eqn:Ty'.
  { exists y. split; [reflexivity|]. pose proof (ntbe_is_top ey Ny Ty') as ->.
    rewrite e_join_top_r by exact Bx'. exact Sy. }
  cbn [orb]. rewrite join_like_empty by exact Ax. eexists. split; [reflexivity|].
  rewrite Gx, Gy. cbn [gh_join flat_map]. apply dsim_mk.
  - cbn [s_join a_base]. rewrite Ex, Ey. reflexivity.
  - apply ntbe_join; assumption.
Qed.

Lemma a_widen_sim p x y ex ey :
  dsim x ex -> dsim y ey -> exists d, a_widen p x y = Some d /\ dsim d (e_widen ex ey).
Proof.
  intros Sx Sy. pose proof Sx as [(Ex & Ax & Gx) Nx]. pose proof Sy as [(Ey & Ay & Gy) Ny].
  destruct (dsim_bot_top x ex Sx) as [Bx _]. destruct (dsim_bot_top y ey Sy) as [By _].
  unfold a_widen. rewrite Bx, By.
  destruct (e_is_bot ey) eqn:By'.
  { exists x. split; [reflexivity|]. rewrite (e_is_bot_eq ey By'). destruct ex; exact Sx. }
  destruct (e_is_bot ex) eqn:Bx'.
  { exists y. split; [reflexivity|]. rewrite (e_is_bot_eq ex Bx'). exact Sy. }
  rewrite join_like_empty by exact Ax. eexists. split; [reflexivity|].
  rewrite Gx, Gy. cbn [gh_join flat_map]. apply dsim_mk.
  - cbn [s_widen a_base]. rewrite Ex, Ey. reflexivity.
  - apply ntbe_widen; assumption.
Qed.

Lemma a_widen_thr_sim p ths x y ex ey :
  dsim x ex -> dsim y ey ->
  exists d, a_widen_thr p ths x y = Some d /\
            dsim d (e_widen_thr (thr_prev (mk_thresholds ths)) (thr_next (mk_thresholds ths)) ex ey).
Proof.
  intros Sx Sy. pose proof Sx as [(Ex & Ax & Gx) Nx]. pose proof Sy as [(Ey & Ay & Gy) Ny].
  destruct (dsim_bot_top x ex Sx) as [Bx _]. destruct (dsim_bot_top y ey Sy) as [By _].
  unfold a_widen_thr. rewrite Bx, By.
  destruct (e_is_bot ey) eqn:By'.
  { exists x. split; [reflexivity|]. rewrite (e_is_bot_eq ey By'). destruct ex; exact Sx. }
  destruct (e_is_bot ex) eqn:Bx'.
  { exists y. split; [reflexivity|]. rewrite (e_is_bot_eq ex Bx'). exact Sy. }
  rewrite join_like_empty by exact Ax. eexists. split; [reflexivity|].
  rewrite Gx, Gy. cbn [gh_join flat_map]. apply dsim_mk.
  - unfold s_widen_thr. cbn [a_base]. rewrite Ex, Ey. reflexivity.
  - apply ntbe_widen_thr; assumption.
Qed.

Lemma a_narrow_sim p x y ex ey :
  dsim x ex -> dsim y ey -> exists d, a_narrow p x y = Some d /\ dsim d (e_narrow ex ey).
Proof.
  intros Sx Sy. pose proof Sx as [(Ex & Ax & Gx) Nx]. pose proof Sy as [(Ey & Ay & Gy) Ny].
  destruct (dsim_bot_top x ex Sx) as [Bx _]. destruct (dsim_bot_top y ey Sy) as [By _].
  unfold a_narrow. rewrite Bx, By.
  destruct (e_is_bot ex) eqn:Bx'.
  { exists x. split; [reflexivity|]. rewrite (e_is_bot_eq ex Bx') in *. exact Sx. }
  destruct (e_is_bot ey) eqn:By'.
  { exists y. split; [reflexivity|]. rewrite (e_is_bot_eq ey By') in *.
    destruct ex; exact Sy. }
  rewrite join_like_empty by exact Ax. eexists. split; [reflexivity|].
  rewrite Gx, Gy. cbn [gh_meet flat_map app]. apply dsim_mk.
  - cbn [s_narrow a_base]. rewrite Ex, Ey. reflexivity.
  - apply ntbe_narrow.
Qed.

(* meet: fine unless one operand is top and the other one is not bottom *)
Definition meet_fine (x y : env) : Prop :=
  e_is_bot x = true \/ e_is_bot y = true \/ (e_is_top x = false /\ e_is_top y = false).

Lemma e_is_top_bot e : e_is_bot e = true -> e_is_top e = false.
Proof. destruct e; [reflexivity|discriminate]. Qed.

Lemma a_meet_sim p x y ex ey :
  dsim x ex -> dsim y ey -> meet_fine ex ey ->
  exists d, a_meet p x y = Some d /\ dsim d (e_meet ex ey).
Proof.
  intros Sx Sy F. pose proof Sx as [(Ex & Ax & Gx) Nx]. pose proof Sy as [(Ey & Ay & Gy) Ny].
  destruct (dsim_bot_top x ex Sx) as [Bx Tx]. destruct (dsim_bot_top y ey Sy) as [By Ty].
  unfold a_meet. rewrite Bx, Tx, By, Ty.
  destruct (e_is_bot ex) eqn:Bx'.
  { exists x. split; [reflexivity|]. rewrite (e_is_bot_eq ex Bx') in *. exact Sx. }
  destruct (e_is_bot ey) eqn:By'.
  { rewrite (e_is_top_bot ey By'). cbn [orb]. rewrite orb_true_r.
    exists y. split; [reflexivity|]. rewrite (e_is_bot_eq ey By') in *. destruct ex; exact Sy. }
  destruct F as [F|[F|[F1 F2]]]; [congruence|congruence|].
  rewrite F1, F2. cbn [orb].
  rewrite Ax. cbn [am_meet_loop obind]. rewrite Ay. cbn [filter app].
  eexists. split; [reflexivity|]. rewrite Gx, Gy. cbn [gh_meet flat_map app]. apply dsim_mk.
  - cbn [s_meet a_base]. rewrite Ex, Ey. reflexivity.
  - apply ntbe_meet.
Qed.

(* the condition of a statement in the state it is run in *)
Definition adapt_ok_at (es : list env) (o : hop) : Prop :=
  match o with
  | HMeet _ s t => meet_fine (rget es s) (rget es t)
  | _ => adapt_ok o
  end.
Fixpoint adapt_hist_ok (es : list env) (h : list hop) : Prop :=
  match h with
  | [] => True
  | o :: r => adapt_ok_at es o /\ adapt_hist_ok (hstep es o) r
  end.
Lemma adapt_ok_ok_at es o : adapt_ok o -> adapt_ok_at es o.
Proof. destruct o; cbn [adapt_ok adapt_ok_at]; auto. intros []. Qed.
Lemma adapt_ok_hist_ok h : forall es, Forall adapt_ok h -> adapt_hist_ok es h.
Proof.
  induction h as [|o r IH]; intros es F; cbn [adapt_hist_ok]; [exact I|].
  inversion F; subst. split; [apply adapt_ok_ok_at; assumption|apply IH; assumption].
Qed.

Theorem adapt_sim_step p rs es o :
  dsimr rs es -> adapt_ok_at es o ->
  exists rs', dstep p rs (alift o) = Some rs' /\ dsimr rs' (hstep es o).
Proof.
  intros R OK.
  destruct o; cbn [adapt_ok_at adapt_ok] in OK; try contradiction; cbn [alift dstep hstep];
    try (pose proof (dsimr_get rs es r R) as G);
    try (pose proof (dsimr_get rs es s R) as Gs);
    try (pose proof (dsimr_get rs es t R) as Gt).
  - (* top *) eexists; split; [reflexivity|]. apply dsimr_set; [exact R|]. exact dsim_top.
  - (* bottom *) eexists; split; [reflexivity|]. apply dsimr_set; [exact R|]. apply dsim_mk; [reflexivity|exact I].
  - (* copy *) eexists; split; [reflexivity|]. apply dsimr_set; [exact R|]. exact Gs.
  - (* assign *) eexists; split; [reflexivity|]. apply dsimr_set; [exact R|].
    pose proof G as [(E & _) N]. eapply dsim_with_base; [exact G| |].
    + cbn [s_assign a_base]. rewrite E. reflexivity.
    + apply ntbe_d_assign; exact N.
  - (* arith *) eexists; split; [reflexivity|]. apply dsimr_set; [exact R|].
    pose proof G as [(E & _) N]. eapply dsim_with_base; [exact G| |].
    + cbn [s_arith a_base]. rewrite E. reflexivity.
    + apply ntbe_set; exact N.
  - (* assume *) eexists; split; [reflexivity|]. apply dsimr_set; [exact R|].
    pose proof G as [(E & _) N]. eapply dsim_with_base; [exact G| |].
    + cbn [s_assume a_base]. rewrite E. reflexivity.
    + apply ntbe_d_add; exact N.
  - (* forget *) eexists; split; [reflexivity|]. apply dsimr_set; [exact R|]. apply a_forget_VS; exact G.
  - (* project *) eexists; split; [reflexivity|]. apply dsimr_set; [exact R|]. apply a_project_VS; exact G.
  - (* rename *)
    destruct (a_rename_VS from to _ _ OK G) as (d' & E' & S'). rewrite E'.
    eexists; split; [reflexivity|]. apply dsimr_set; [exact R|]. exact S'.
  - (* expand *)
    destruct (a_expand_VS x nx _ _ G) as (d' & E' & S'). rewrite E'.
    eexists; split; [reflexivity|]. apply dsimr_set; [exact R|]. exact S'.
  - (* join *)
    destruct (a_join_sim p _ _ _ _ Gs Gt) as (d' & E' & S'). rewrite E'.
    eexists; split; [reflexivity|]. apply dsimr_set; [exact R|]. exact S'.
  - (* meet *)
    destruct (a_meet_sim p _ _ _ _ Gs Gt OK) as (d' & E' & S'). rewrite E'.
    eexists; split; [reflexivity|]. apply dsimr_set; [exact R|]. exact S'.
  - (* widening *)
    destruct (a_widen_sim p _ _ _ _ Gs Gt) as (d' & E' & S'). rewrite E'.
    eexists; split; [reflexivity|]. apply dsimr_set; [exact R|]. exact S'.
  - (* narrowing *)
    destruct (a_narrow_sim p _ _ _ _ Gs Gt) as (d' & E' & S'). rewrite E'.
    eexists; split; [reflexivity|]. apply dsimr_set; [exact R|]. exact S'.
  - (* widening with thresholds *)
    destruct (a_widen_thr_sim p ths _ _ _ _ Gs Gt) as (d' & E' & S'). rewrite E'.
    eexists; split; [reflexivity|]. apply dsimr_set; [exact R|]. exact S'.
Qed.

Theorem adapt_sim_run p h : forall rs es,
  dsimr rs es -> adapt_hist_ok es h ->
  exists rs', drun p rs (map alift h) = Some rs' /\ dsimr rs' (hrun es h).
Proof.
  induction h as [|o r IH]; intros rs es R OK; cbn [map drun hrun fold_left].
  - exists rs. split; [reflexivity|exact R].
  - destruct OK as [H1 H2].
    destruct (adapt_sim_step p rs es o R H1) as (rs1 & E1 & R1). rewrite E1.
    apply (IH rs1 (hstep es o) R1 H2).
Qed.

(* C12, lifting clause, array_adaptive_domain<interval_domain>, any parameters; meets are
   allowed when, in the state they are run in, an operand is bottom or none is top *)
Theorem adapt_lifting_numerical_meet p h n :
  adapt_hist_ok (repeat e_top n) h ->
  exists rs, drun p (repeat a_top n) (map alift h) = Some rs /\
    forall r,
      let st := dget rs r in
      let e := rget (hrun (repeat e_top n) h) r in
      a_base (d_base st) = e /\ d_arrs st = [] /\ d_gh st = [] /\
      a_is_bottom st = e_is_bot e /\ forall v, a_at st v = e_at e v.
Proof.
  intros OK.
  destruct (adapt_sim_run p h (repeat a_top n) (repeat e_top n)) as (rs & E & R); auto.
  { apply Forall2_repeat. exact dsim_top. }
  exists rs. split; [exact E|]. intros r. cbv zeta.
  pose proof (dsimr_get rs _ r R) as [(G & A & H) _].
  unfold a_is_bottom, a_at, s_is_bottom, s_at. rewrite G. auto.
Qed.

(* the same without meet: a condition on the statements alone *)
Theorem adapt_lifting_numerical p h n :
  Forall adapt_ok h ->
  exists rs, drun p (repeat a_top n) (map alift h) = Some rs /\
    forall r,
      let st := dget rs r in
      let e := rget (hrun (repeat e_top n) h) r in
      a_base (d_base st) = e /\ d_arrs st = [] /\ d_gh st = [] /\
      a_is_bottom st = e_is_bot e /\ forall v, a_at st v = e_at e v.
Proof. intros OK. apply adapt_lifting_numerical_meet. apply adapt_ok_hist_ok. exact OK. Qed.

(* ------------------------------------------------------------------ why meet is excluded *)
(* the two values are different terms ... *)
Definition r0 : reg := 0%nat.  Definition r1 : reg := 1%nat.
Definition r2 : reg := 2%nat.  Definition r3 : reg := 3%nat.
Definition meet_hist : list hop :=
  [HAssign r0 0%N (mkLE [] 5); HAssign r0 3%N (mkLE [] 7); HMeet r0 r0 r1].
Example adapt_meet_not_structural :
  exists rs, drun (mkP true false 8 8) (repeat a_top 2) (map alift meet_hist) = Some rs /\
    a_base (d_base (dget rs r0)) <> rget (hrun (repeat e_top 2) meet_hist) r0 /\
    forall v, In v [0%N; 3%N; 6%N] ->
      a_at (dget rs r0) v = e_at (rget (hrun (repeat e_top 2) meet_hist) r0) v.
Proof.
  eexists. split; [vm_compute; reflexivity|]. split.
  - vm_compute. intros H. discriminate H.
  - intros v [<-|[<-|[<-|[]]]]; vm_compute; reflexivity.
Qed.

(* ------------------------------------------------------------------ a history *)
Definition lift_hist : list hop :=
  [ HAssign r0 0%N (mkLE [] 0);                                   (* r0: x := 0 *)
    HAssign r0 3%N (mkLE [] 1);                                   (* r0: y := 1 *)
    HCopy r1 r0;
    HArith r1 OpAdd 0%N 0%N (OCst 1);                             (* r1: x := x + 1 *)
    HAssume r1 [mkLC INEQ (mkLE [(1, 0%N)] (-10))];               (* r1: x <= 10 *)
    HWiden r2 r0 r1;                                              (* r2 := r0 widen r1 *)
    HAssume r2 [mkLC INEQ (mkLE [(1, 0%N)] (-100))];              (* r2: x <= 100 *)
    HAssign r2 3%N (mkLE [(2, 0%N)] 3);                           (* r2: y := 2x + 3 *)
    HNarrow r2 r2 r1;
    HJoin r3 r2 r0;
    HExpand r3 3%N 6%N;
    HRename r3 [6%N] [9%N];
    HAssume r3 [];
    HProject r3 [0%N; 9%N];
    HForget r3 [0%N];
    HAssign r1 9%N (mkLE [] 300);
    HWidenThr r3 r3 r1 [16; 512];
    HBot r0;
    HJoin r0 r0 r2;
    HProject r1 [] ].
Example lift_hist_ok : Forall adapt_ok lift_hist /\ Forall smash_ok lift_hist.
Proof. split; repeat constructor. Qed.

(* a meet of two values that are not top is covered *)
Definition lift_hist_meet : list hop :=
  lift_hist ++ [HAssign r1 3%N (mkLE [] 50); HAssign r1 12%N (mkLE [] 1); HMeet r1 r0 r1].
Example lift_hist_meet_ok : adapt_hist_ok (repeat e_top 4) lift_hist_meet.
Proof. vm_compute. intuition. Qed.
