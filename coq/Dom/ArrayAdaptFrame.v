(* ArrayAdaptFrame.v — support lemmas for the interval-domain model: which variables can
   have a binding other than top after an operation ([nt]: "not top").  Used by
   ArrayAdaptSound.v to maintain the invariant that the ghost variable of a cell that the
   adaptive array domain does not track is unconstrained in the base value. *)
From Coq Require Import ZArith NArith List Bool Lia.
From CrabV Require Import Base.ZInf Scalar.Itv Scalar.ItvSound Ir.Syntax Dom.ItvEnv Dom.ItvEnvSound
     Dom.ItvSolver Dom.ItvDomain.
Import ListNotations.
Local Open Scope Z_scope.

Definition nt (e : env) (y : var) : Prop := is_top (e_at e y) = false.
Definition ntm (m : amap) (y : var) : Prop := is_top (get m y) = false.

Lemma nt_bot y : nt EBot y.
Proof. reflexivity. Qed.

Lemma ntm_remove m x y : ntm (remove m x) y -> y <> x /\ ntm m y.
Proof.
  unfold ntm. intros H. destruct (N.eq_dec y x) as [->|N].
  - rewrite get_remove_same in H. discriminate.
  - rewrite get_remove_other in H by auto. auto.
Qed.

Lemma ntm_put m x v y : ntm (put m x v) y -> y = x \/ ntm m y.
Proof.
  unfold ntm. intros H. destruct (N.eq_dec y x) as [->|N]; auto.
  rewrite get_put_other in H by auto. auto.
Qed.

Lemma ntm_put_same m x v : ntm (put m x v) x -> is_top v = false.
Proof.
  unfold ntm, put. destruct (is_top v) eqn:T; auto.
  rewrite get_remove_same. discriminate.
Qed.

Lemma nt_e_set e x v y : e_set e x v <> EBot -> nt (e_set e x v) y -> y = x \/ nt e y.
Proof.
  destruct e as [|m]; simpl; [congruence|]. destruct (is_bot v); [congruence|].
  intros _. apply ntm_put.
Qed.

Lemma nt_e_set_same e x v : e_set e x v <> EBot -> nt (e_set e x v) x -> is_top v = false.
Proof.
  destruct e as [|m]; simpl; [congruence|]. destruct (is_bot v); [congruence|].
  intros _. apply ntm_put_same.
Qed.

Lemma nt_e_forget e x y : e_forget e x <> EBot -> nt (e_forget e x) y -> y <> x /\ nt e y.
Proof. destruct e as [|m]; simpl; [congruence|]. intros _. apply ntm_remove. Qed.

Lemma e_forget_bot_iff e x : e_forget e x = EBot <-> e = EBot.
Proof. destruct e; simpl; split; congruence. Qed.

Lemma nt_e_join_key e x v y : e_join_key e x v <> EBot -> nt (e_join_key e x v) y -> nt e y.
Proof.
  destruct e as [|m]; simpl; [congruence|]. destruct (is_bot v); [congruence|].
  destruct (is_top v).
  - intros _ H. apply ntm_remove in H. tauto.
  - destruct (is_top (get m x)) eqn:T.
    + intros _ H. apply ntm_remove in H. tauto.
    + intros _ H. apply ntm_put in H. destruct H as [->|H]; auto.
Qed.

(* when the joined value is top the key becomes top *)
Lemma nt_e_join_key_val e x v : e_join_key e x v <> EBot -> nt (e_join_key e x v) x -> is_top v = false.
Proof.
  destruct e as [|m]; simpl; [congruence|]. destruct (is_bot v); [congruence|].
  destruct (is_top v); auto.
  intros _ H. apply ntm_remove in H. tauto.
Qed.

(* ---- pointwise merges with absorbing top (join, widenings) ---- *)
Lemma ntm_build ks g : forall acc m k, build ks g acc = Some m ->
  ntm m k -> (In k ks /\ is_top (g k) = false) \/ (~ In k ks /\ ntm acc k).
Proof.
  induction ks as [|h r IH]; simpl; intros acc m k H N.
  - inversion H; subst. auto.
  - destruct (is_bot (g h)); [discriminate|].
    destruct (IH _ _ _ H N) as [[I T]|[NI A]]; auto.
    destruct (N.eq_dec k h) as [->|NE].
    + left. split; auto. eapply ntm_put_same; eauto.
    + right. split; [intros [E|I]; [congruence|tauto]|]. apply ntm_put in A. destruct A; [congruence|auto].
Qed.

Lemma nt_merge_absorbing f a b m k : merge true f a b = Some m -> ntm m k -> ntm a k /\ ntm b k.
Proof.
  unfold merge. intros H N. destruct (ntm_build _ _ _ _ _ H N) as [[_ T]|[_ A]].
  - unfold comb in T. unfold ntm.
    destruct (is_top (get a k)); [discriminate|]. destruct (is_top (get b k)); [discriminate|]. auto.
  - unfold ntm in A. simpl in A. discriminate.
Qed.

Lemma nt_merge_env f a b y :
  (match merge true f a b with Some m => EMap m | None => EBot end) <> EBot ->
  nt (match merge true f a b with Some m => EMap m | None => EBot end) y -> ntm a y /\ ntm b y.
Proof.
  destruct (merge true f a b) as [m|] eqn:E; [|congruence]. intros _.
  apply (nt_merge_absorbing _ _ _ _ _ E).
Qed.

Lemma nt_e_join a b y : e_join a b <> EBot -> nt (e_join a b) y -> nt a y /\ nt b y.
Proof.
  destruct a as [|x], b as [|z]; simpl; intros NB H; try (split; [reflexivity|exact H]);
    try (split; [exact H|reflexivity]); try congruence.
  apply (nt_merge_env ijoin); auto.
Qed.
Lemma nt_e_widen a b y : e_widen a b <> EBot -> nt (e_widen a b) y -> nt a y /\ nt b y.
Proof.
  destruct a as [|x], b as [|z]; simpl; intros NB H; try (split; [reflexivity|exact H]);
    try (split; [exact H|reflexivity]); try congruence.
  apply (nt_merge_env iwiden); auto.
Qed.
Lemma nt_e_widen_thr gp gn a b y :
  e_widen_thr gp gn a b <> EBot -> nt (e_widen_thr gp gn a b) y -> nt a y /\ nt b y.
Proof.
  destruct a as [|x], b as [|z]; simpl; intros NB H; try (split; [reflexivity|exact H]);
    try (split; [exact H|reflexivity]); try congruence.
  apply (nt_merge_env (iwiden_thr gp gn)); auto.
Qed.

(* ---- is_top of a whole environment ---- *)
Lemma all_top_get m y : forallb (fun k => is_top (get m k)) (keys m) = true -> is_top (get m y) = true.
Proof.
  intros H. destruct (in_dec N.eq_dec y (keys m)) as [I|NI].
  - rewrite forallb_forall in H. apply H. auto.
  - rewrite get_not_key by auto. reflexivity.
Qed.

Lemma e_is_top_at e y : e_is_top e = true -> is_top (e_at e y) = true.
Proof. destruct e as [|m]; simpl; [discriminate|]. apply all_top_get. Qed.

Lemma nt_fold_forget vs : forall e y, fold_left e_forget vs e <> EBot ->
  nt (fold_left e_forget vs e) y -> ~ In y vs /\ nt e y.
Proof.
  induction vs as [|v r IH]; simpl; intros e y NB H; [tauto|].
  destruct (IH _ _ NB H) as [NI N].
  assert (NB' : e_forget e v <> EBot).
  { intros E. apply NB. rewrite E. clear. induction r; simpl; auto. }
  apply nt_e_forget in N; auto. split; [|tauto]. intros [E|I]; [subst; tauto|tauto].
Qed.

Lemma nt_d_forget vs e y : d_forget vs e <> EBot -> nt (d_forget vs e) y -> ~ In y vs /\ nt e y.
Proof.
  unfold d_forget. destruct (e_is_bot e) eqn:B; simpl.
  - destruct e; simpl in *; try discriminate. congruence.
  - destruct (e_is_top e) eqn:T.
    + intros _ H. unfold nt in H. rewrite (e_is_top_at e y T) in H. discriminate.
    + apply nt_fold_forget.
Qed.

Lemma nt_d_expand x nx e y : d_expand x nx e <> EBot -> nt (d_expand x nx e) y -> y = nx \/ nt e y.
Proof.
  unfold d_expand. destruct (e_is_bot e || e_is_top e); auto. apply nt_e_set.
Qed.

Lemma ntm_fold_put m vs : forall y, ntm (fold_right (fun k acc => put acc k (get m k)) [] vs) y ->
  In y vs /\ ntm m y.
Proof.
  induction vs as [|v r IH]; simpl; intros y H; [unfold ntm in H; simpl in H; discriminate|].
  destruct (N.eq_dec y v) as [->|NE].
  - split; auto. apply ntm_put_same in H. exact H.
  - apply ntm_put in H. destruct H as [E|H]; [congruence|]. destruct (IH _ H). auto.
Qed.

Lemma nt_e_project e vs y : e_project e vs <> EBot -> nt (e_project e vs) y -> In y vs /\ nt e y.
Proof.
  destruct e as [|m]; simpl; [congruence|].
  destruct (forallb _ _) eqn:T.
  - intros _ H. unfold nt in H. simpl in H. rewrite (all_top_get m y T) in H. discriminate.
  - intros _. apply ntm_fold_put.
Qed.

Lemma ntm_rename_pairs ps : forall m y, ntm (rename_pairs m ps) y ->
  In y (map snd ps) \/ (ntm m y /\ ~ In y (map fst ps)).
Proof.
  induction ps as [|[k nk] r IH]; cbn [rename_pairs map fst snd In]; intros m y H; auto.
  destruct (N.eqb_spec k nk) as [E|NE].
  - destruct (IH _ _ H) as [I|[N NI]]; auto.
    destruct (N.eq_dec y nk) as [->|NY]; auto. right. split; auto. intros [X|X]; [congruence|tauto].
  - destruct (is_top (get m k)) eqn:T.
    + destruct (IH _ _ H) as [I|[N NI]]; auto.
      right. split; auto. intros [X|X]; [|tauto]. subst. unfold ntm in N. congruence.
    + destruct (IH _ _ H) as [I|[N NI]]; auto.
      apply ntm_remove in N. destruct N as [N1 N2].
      unfold ntm in N2. cbn [get] in N2. destruct (N.eqb_spec nk y); [auto|].
      fold (ntm (remove m nk) y) in N2. apply ntm_remove in N2.
      right. split; [tauto|]. intros [X|X]; [congruence|tauto].
Qed.

Lemma in_snd_combine (from to : list var) y : In y (map snd (combine from to)) -> In y to.
Proof.
  intros H. apply in_map_iff in H. destruct H as ([a b] & E & I). simpl in E. subst b.
  eapply in_combine_r; eauto.
Qed.
Lemma in_fst_combine : forall (from to : list var) y, length from = length to -> In y from ->
  In y (map fst (combine from to)).
Proof.
  induction from as [|f fr IH]; intros [|t tr] y L I; simpl in *; try discriminate; try contradiction.
  destruct I as [E|I]; auto.
Qed.

Lemma nt_e_rename e from to y : e_rename e from to <> EBot -> nt (e_rename e from to) y ->
  In y to \/ (nt e y /\ (length from = length to -> ~ In y from)).
Proof.
  destruct e as [|m]; simpl; [congruence|].
  destruct (forallb _ _) eqn:T.
  - intros _ H. unfold nt in H. simpl in H. rewrite (all_top_get m y T) in H. discriminate.
  - intros _ H. apply ntm_rename_pairs in H. destruct H as [I|[N NI]].
    + left. eapply in_snd_combine; eauto.
    + right. split; auto. intros L I. apply NI. apply in_fst_combine; auto.
Qed.

(* ---- the linear interval solver only refines the variables of its constraints ---- *)
Section Solver.
Variable P : var -> Prop.
Variable m0 : amap.
Definition keeps (st : sst) : Prop := forall y, ntm (s_map st) y -> ntm m0 y \/ P y.

Lemma keeps_s_refine v i st st' : P v -> keeps st -> s_refine v i st = Some st' -> keeps st'.
Proof.
  unfold s_refine. intros Pv K H. destruct (is_bot _); [discriminate|].
  destruct (negb _); inversion H; subst; auto.
  intros y N. cbn [s_map] in N. apply ntm_put in N. destruct N as [->|N]; auto.
Qed.

Lemma keeps_propagate_term cst c pivot st st' : P pivot -> keeps st ->
  propagate_term cst c pivot st = Some st' -> keeps st'.
Proof.
  unfold propagate_term. intros Pv K H. destruct (compute_residual cst pivot st) as [res ops].
  set (st1 := mkS (s_map st) (s_refined st) ops) in *.
  assert (K1 : keeps st1) by exact K.
  destruct (lc_kind cst).
  - eapply keeps_s_refine; eauto.
  - cbn [s_map] in H. destruct (is_bot _); [discriminate|].
    inversion H; subst; clear H. destruct (negb _); cbn [s_map]; auto.
    intros y N. apply ntm_put in N. destruct N as [->|N]; auto.
  - destruct (0 <? c); eapply keeps_s_refine; eauto.
  - inversion H; subst; auto.
Qed.

Lemma keeps_propagate_terms cst : forall ts st st', (forall c v, In (c, v) ts -> P v) -> keeps st ->
  propagate_terms cst ts st = Some st' -> keeps st'.
Proof.
  induction ts as [|[c v] r IH]; simpl; intros st st' A K H; [inversion H; subst; auto|].
  destruct (propagate_term cst c v st) as [st1|] eqn:E; [|discriminate].
  apply (IH st1 st'); [intros c0 v0 I; apply (A c0 v0); auto| |exact H].
  apply (keeps_propagate_term cst c v st st1); auto. apply (A c v). auto.
Qed.

Definition cst_ok (c : lincst) : Prop := forall v, In v (lc_vars c) -> P v.

Lemma keeps_propagate cst st st' : cst_ok cst -> keeps st -> propagate cst st = Some st' -> keeps st'.
Proof.
  intros A. apply keeps_propagate_terms. intros c v I. apply A. unfold lc_vars.
  change v with (snd (c, v)). apply in_map. auto.
Qed.

Lemma keeps_propagate_all : forall table st st', (forall c, In c table -> cst_ok c) -> keeps st ->
  propagate_all table st = Some st' -> keeps st'.
Proof.
  induction table as [|c r IH]; simpl; intros st st' A K H; [inversion H; subst; auto|].
  destruct (propagate c st) as [st1|] eqn:E; [|discriminate].
  apply (IH st1 st'); [intros c0 I; apply A; auto| |exact H].
  apply (keeps_propagate c st st1); auto.
Qed.

Lemma keeps_small_loop table max : (forall c, In c table -> cst_ok c) ->
  forall fuel cycle st st', keeps st -> small_loop fuel table cycle max st = Some st' -> keeps st'.
Proof.
  intros A. induction fuel as [|f IH]; simpl; intros cycle st st' K H; [inversion H; subst; auto|].
  destruct (propagate_all table _) as [st1|] eqn:E; [|discriminate].
  assert (K1 : keeps st1) by (apply (keeps_propagate_all table _ st1 A) in E; auto).
  destruct (s_refined st1); [inversion H; subst; auto|].
  destruct (_ <=? _)%N; [apply (IH _ _ _ K1 H)|inversion H; subst; auto].
Qed.

Lemma keeps_propagate_idx table : (forall c, In c table -> cst_ok c) ->
  forall idx st st', keeps st -> propagate_idx table idx st = Some st' -> keeps st'.
Proof.
  intros A. induction idx as [|i r IH]; simpl; intros st st' K H; [inversion H; subst; auto|].
  destruct (nth_error table i) as [c|] eqn:N; [|apply (IH _ _ K H)].
  destruct (propagate c st) as [st1|] eqn:E; [|discriminate].
  apply (IH st1 st'); [|exact H]. apply (keeps_propagate c st st1); auto.
  apply A. eapply nth_error_In; eauto.
Qed.

Lemma keeps_process_vars table : (forall c, In c table -> cst_ok c) ->
  forall vs st st', keeps st -> process_vars table vs st = Some st' -> keeps st'.
Proof.
  intros A. induction vs as [|v r IH]; simpl; intros st st' K H; [inversion H; subst; auto|].
  destruct (propagate_idx table _ st) as [st1|] eqn:E; [|discriminate].
  apply (IH st1 st'); [|exact H]. exact (keeps_propagate_idx table A _ st st1 K E).
Qed.

Lemma keeps_large_loop table max : (forall c, In c table -> cst_ok c) ->
  forall fuel st st', keeps st -> large_loop fuel table max st = Some st' -> keeps st'.
Proof.
  intros A. induction fuel as [|f IH]; simpl; intros st st' K H; [inversion H; subst; auto|].
  destruct (process_vars table _ _) as [st1|] eqn:E; [|discriminate].
  assert (K1 : keeps st1) by (apply (keeps_process_vars table A _ _ st1) in E; auto).
  destruct (s_refined st1); [inversion H; subst; auto|].
  destruct (_ <=? _)%N; [apply (IH _ _ K1 H)|inversion H; subst; auto].
Qed.

Lemma preprocess_ok : forall cs table opc, (forall c, In c cs -> cst_ok c) ->
  (forall c, In c table -> cst_ok c) -> forall c, In c (p_table (preprocess cs table opc)) -> cst_ok c.
Proof.
  induction cs as [|c r IH]; simpl; intros table opc A B; auto.
  destruct (lc_is_contradiction c); [simpl; auto|].
  destruct (lc_is_tautology c); [apply IH; auto|].
  destruct (lc_kind c); apply IH; auto; intros c' I; apply in_app_or in I;
    (destruct I as [I|I]; [auto|]); simpl in I;
    repeat (destruct I as [<-|I]; [apply (A c); auto|]); try contradiction; apply (A c); auto.
Qed.
End Solver.

Lemma ntm_solve cs n m m' y : solve cs n m = Some m' -> ntm m' y ->
  ntm m y \/ exists c, In c cs /\ In y (lc_vars c).
Proof.
  set (P := fun v => exists c, In c cs /\ In v (lc_vars c)).
  unfold solve. destruct (p_contra _); [discriminate|].
  assert (T : forall c, In c (p_table (preprocess cs [] 0%N)) -> cst_ok P c).
  { apply preprocess_ok; [|intros c []]. intros c I v Iv. exists c. auto. }
  assert (K0 : keeps P m (mkS m [] 0%N)) by (intros z N; auto).
  intros H N.
  destruct (_ || _).
  - destruct (propagate_all _ _) as [st1|] eqn:E; [|discriminate].
    destruct (large_loop _ _ _ st1) as [st|] eqn:L; [|discriminate]. inversion H; subst.
    assert (K1 : keeps P m st1) by (eapply keeps_propagate_all; eauto).
    exact (keeps_large_loop P m _ _ T _ _ _ K1 L y N).
  - destruct (small_loop _ _ _ _ _) as [st|] eqn:L; [|discriminate]. inversion H; subst.
    exact (keeps_small_loop P m _ _ T _ _ _ _ K0 L y N).
Qed.

Lemma sys_add_in s c x : In x (sys_add s c) -> In x s \/ x = c.
Proof.
  unfold sys_add. destruct (existsb _ s); auto. intros H. apply in_app_or in H.
  destruct H as [H|[H|[]]]; auto.
Qed.

Lemma lower_disequality_vars e c out x : In x (lower_disequality e c out) ->
  In x out \/ (forall v, In v (lc_vars x) -> In v (lc_vars c)).
Proof.
  unfold lower_disequality. destruct (lc_kind c); auto.
  destruct (le_terms (lc_exp c)) as [|[nx vx] [|[ny vy] [|? ?]]] eqn:T; auto.
  destruct (_ && _); auto.
  assert (V : forall a b, (a = vx \/ a = vy) -> (b = vx \/ b = vy) ->
              forall v, In v (lc_vars (mkLC STRICT (le_var_minus_var a b))) -> In v (lc_vars c)).
  { intros a b Ha Hb v I. unfold lc_vars in *. rewrite T. simpl.
    unfold le_var_minus_var in I. cbn [lc_exp] in I.
    destruct Ha as [->| ->], Hb as [->| ->];
      (destruct (N.ltb _ _); [|try destruct (N.ltb _ _)]); simpl in I; intuition auto. }
  destruct (d_entails _ e).
  - intros H. apply sys_add_in in H. destruct H as [H| ->]; auto. right. apply V; auto.
  - destruct (d_entails _ e); auto.
    intros H. apply sys_add_in in H. destruct H as [H| ->]; auto. right. apply V; auto.
Qed.

Definition from_cs (cs : list lincst) (x : lincst) : Prop :=
  exists c, In c cs /\ forall v, In v (lc_vars x) -> In v (lc_vars c).

Lemma fold_lower_from e cs : forall l acc,
  (forall x, In x acc -> from_cs cs x) -> (forall c, In c l -> In c cs) ->
  forall x, In x (fold_left (fun acc c =>
               let acc := if ckind_eqb (lc_kind c) DISEQ then lower_disequality e c acc else acc in
               sys_add acc c) l acc) -> from_cs cs x.
Proof.
  induction l as [|c r IH]; simpl; intros acc A L x I; auto.
  refine (IH _ _ _ x I); auto. intros z Iz. apply sys_add_in in Iz. destruct Iz as [Iz| ->].
  - destruct (ckind_eqb _ _); auto. apply lower_disequality_vars in Iz.
    destruct Iz as [Iz|Iz]; auto. exists c. auto.
  - exists c. auto.
Qed.

Lemma nt_d_add cs e y : d_add cs e <> EBot -> nt (d_add cs e) y ->
  nt e y \/ exists c, In c cs /\ In y (lc_vars c).
Proof.
  unfold d_add. destruct e as [|m]; [congruence|].
  set (pp := fold_left _ cs []).
  assert (PP : forall x, In x pp -> from_cs cs x).
  { unfold pp. apply fold_lower_from; auto. intros x []. }
  destruct (solve pp _ m) as [m'|] eqn:E; [|congruence]. intros _ H.
  destruct (ntm_solve _ _ _ _ _ E H) as [N|(c & I & V)]; auto.
  right. destruct (PP c I) as (c0 & I0 & V0). exists c0. auto.
Qed.

(* ---- derived operations of the interval domain ---- *)
Lemma nt_d_assign x ex e y : d_assign x ex e <> EBot -> nt (d_assign x ex e) y -> y = x \/ nt e y.
Proof. unfold d_assign. destruct (le_get_variable ex); apply nt_e_set. Qed.

Lemma nt_d_weak_assign x ex e y : d_weak_assign x ex e <> EBot -> nt (d_weak_assign x ex e) y -> nt e y.
Proof. unfold d_weak_assign. destruct (le_get_variable ex); apply nt_e_join_key. Qed.

Lemma nt_d_apply_arith op x a z e y : d_apply_arith op x a z e <> EBot ->
  nt (d_apply_arith op x a z e) y -> y = x \/ nt e y.
Proof. unfold d_apply_arith. apply nt_e_set. Qed.

(* an assignment from a variable that is top leaves the target top *)
Lemma le_get_variable_var v : le_get_variable (mkLE [(1, v)] 0) = Some v.
Proof. reflexivity. Qed.

Lemma nt_d_assign_var x v e : d_assign x (mkLE [(1, v)] 0) e <> EBot ->
  nt (d_assign x (mkLE [(1, v)] 0) e) x -> nt e v.
Proof.
  unfold d_assign. rewrite le_get_variable_var. intros NB H. apply nt_e_set_same in H; auto.
Qed.
Lemma nt_d_weak_assign_var x v e : d_weak_assign x (mkLE [(1, v)] 0) e <> EBot ->
  nt (d_weak_assign x (mkLE [(1, v)] 0) e) x -> nt e v.
Proof.
  unfold d_weak_assign. rewrite le_get_variable_var. intros NB H. apply nt_e_join_key_val in H; auto.
Qed.
