(* OctSound.v — property C12 for the octagon specification (Dom/Oct.v) over the integers, for
   all dimensions, constants and histories:
   SOUNDNESS of every operation (every derived bound is implied by the constraints, including
   the integer tightening and the strengthening through the unary bounds; bottom only if there
   is no integer point), and EXACTNESS [oct_exact : C12_oct_exact_statement]:
     - the invariant [ozwf] (closed, coherent, unary entries even, strongly coherent) holds for
       top and is kept by every operation; the tight closure (tighten + test + strengthen) of a
       closed coherent matrix satisfies it (Bagnara-Hill-Zaffanella);
     - a closed coherent matrix whose tightened unary bounds are feasible has an integer point
       (variables are given values one by one), and every entry of a matrix satisfying the
       invariant is attained by an integer point (parity argument on the paths through the two
       added edges);
     - hence bottom <-> unsatisfiable, entails c <-> every integer point satisfies c, join is
       the least upper bound, assume / meet / forget / the assignments of the language are exact. *)
From Coq Require Import ZArith NArith List Bool Lia Arith.
From CrabV Require Import Ir.Syntax Dom.Zone Dom.ZoneSound Dom.Oct.
Import ListNotations.
Local Open Scope Z_scope.

Arguments tab : simpl never.
Arguments mget : simpl never.
Arguments pairs : simpl never.

(* ------------------------------------------------------------------ meaning *)
(* node 2v stands for +v, node 2v+1 for -v *)
Definition oval (s : store) (i : nat) : Z :=
  if Nat.even i then s (N.of_nat (Nat.div2 i)) else - s (N.of_nat (Nat.div2 i)).

Definition ogamma (z : zone) (s : store) : Prop := ggam (oval s) z.

Lemma div2_double_nat k : Nat.div2 (2 * k) = k.
Proof. apply Nat.div2_double. Qed.
Lemma div2_succ_double_nat k : Nat.div2 (S (2 * k)) = k.
Proof. apply Nat.div2_succ_double. Qed.
Lemma even_double k : Nat.even (2 * k) = true.
Proof. rewrite Nat.even_mul. reflexivity. Qed.
Lemma even_succ_double k : Nat.even (S (2 * k)) = false.
Proof. rewrite Nat.even_succ. rewrite <- Nat.negb_even. rewrite even_double. reflexivity. Qed.

Lemma oval_pnode s v : oval s (pnode v) = s v.
Proof. unfold oval, pnode. rewrite even_double, div2_double_nat, N2Nat.id. reflexivity. Qed.
Lemma oval_nnode s v : oval s (nnode v) = - s v.
Proof. unfold oval, nnode. rewrite even_succ_double, div2_succ_double_nat, N2Nat.id. reflexivity. Qed.

Lemma nat_parity i : exists k, i = (2 * k)%nat \/ i = S (2 * k).
Proof.
  induction i as [|i [k [->| ->]]].
  - exists O. auto.
  - exists k. auto.
  - exists (S k). left. lia.
Qed.

Lemma oval_bar s i : oval s (bar i) = - oval s i.
Proof.
  destruct (nat_parity i) as [k [->| ->]]; unfold oval, bar.
  - rewrite even_double. rewrite even_succ_double, div2_succ_double_nat, div2_double_nat. reflexivity.
  - rewrite even_succ_double. cbn [pred]. rewrite even_double, div2_succ_double_nat, div2_double_nat. lia.
Qed.

Lemma bar_pnode v : bar (pnode v) = nnode v.
Proof. unfold bar, pnode, nnode. rewrite even_double. reflexivity. Qed.
Lemma bar_nnode v : bar (nnode v) = pnode v.
Proof. unfold bar, pnode, nnode. rewrite even_succ_double. reflexivity. Qed.

Lemma oval_lit s c v : unit_coef c = true -> oval s (lit c v) = c * s v.
Proof.
  unfold unit_coef, lit. destruct (Z.eqb_spec c 1); simpl.
  - intros _. subst. rewrite oval_pnode. lia.
  - destruct (Z.eqb_spec c (-1)); [|discriminate]. intros _. subst. rewrite oval_nnode. lia.
Qed.

Definition oedge_holds (s : store) (e : edge) : Prop :=
  let '(a, b, w) := e in oval s b - oval s a <= w.

(* ------------------------------------------------------------------ the language *)
Lemma oct_leq_edges_spec ts k es s :
  oct_leq_edges ts k = Some es -> (eval_terms ts s + k <= 0 <-> Forall (oedge_holds s) es).
Proof.
  unfold oct_leq_edges. destruct ts as [|[c x] [|[d y] [|]]]; try discriminate.
  - intros H. inversion H; subst. cbn [eval_terms]. split.
    + intros X. repeat constructor. simpl. lia.
    + intros X. inversion X as [|? ? A B]; subst. simpl in A. lia.
  - destruct (unit_coef c) eqn:U; [|discriminate]. intros H. inversion H; subst. cbn [eval_terms].
    pose proof (oval_lit s c x U) as L. split.
    + intros X. repeat constructor. unfold oedge_holds. rewrite oval_bar, L. lia.
    + intros X. inversion X as [|? ? A B]; subst. unfold oedge_holds in A. rewrite oval_bar, L in A. lia.
  - destruct (unit_coef c) eqn:U; [|discriminate]. destruct (unit_coef d) eqn:V; [|discriminate].
    simpl. intros H. inversion H; subst. cbn [eval_terms].
    pose proof (oval_lit s c x U) as L1. pose proof (oval_lit s d y V) as L2. split.
    + intros X. repeat constructor; unfold oedge_holds; rewrite oval_bar, L1, L2; lia.
    + intros X. inversion X as [|? ? A B]; subst. unfold oedge_holds in A. rewrite oval_bar, L1, L2 in A. lia.
Qed.

Lemma eval_neg_terms ts s : eval_terms (neg_terms ts) s = - eval_terms ts s.
Proof. unfold neg_terms. apply eval_terms_neg. Qed.

Theorem oct_edges_spec c es s :
  oct_edges c = Some es -> (sat c s <-> Forall (oedge_holds s) es).
Proof.
  unfold oct_edges, sat, eval_le. destruct (lc_kind c).
  - destruct (oct_leq_edges (le_terms (lc_exp c)) (le_cst (lc_exp c))) as [e1|] eqn:E1; [|discriminate].
    destruct (oct_leq_edges (neg_terms (le_terms (lc_exp c))) (- le_cst (lc_exp c))) as [e2|] eqn:E2; [|discriminate].
    intros H. inversion H; subst. rewrite Forall_app.
    rewrite <- (oct_leq_edges_spec _ _ _ s E1), <- (oct_leq_edges_spec _ _ _ s E2), eval_neg_terms. lia.
  - discriminate.
  - intros H. rewrite <- (oct_leq_edges_spec _ _ _ s H). lia.
  - intros H. rewrite <- (oct_leq_edges_spec _ _ _ s H). lia.
Qed.

(* ------------------------------------------------------------------ matrix steps are sound *)
Lemma add_edge_sound g n z a b w :
  ggam g z -> g b - g a <= w -> ggam g (add_edge n z (a, b, w)).
Proof.
  destruct z as [|m]; cbn [ggam add_edge]; [tauto|]. intros G H. unfold add_edge_m.
  destruct (wleb (Some 0) (wadd (Some w) (mget m b a))) eqn:E; cbn [negb ggam].
  - intros i j k. rewrite mget_tab. destruct ((i <? n) && (j <? n))%nat; [|discriminate].
    apply (upd_gfun (mget m) a b w g G H).
  - assert (X : wleb (Some 0) (wadd (Some w) (mget m b a)) = true); [|congruence].
    apply wleb_spec. pose proof (G b a) as G1.
    destruct (mget m b a) as [k|]; simpl; auto. specialize (G1 _ eq_refl). lia.
Qed.

Definition gedge_holds (g : nat -> Z) (e : edge) : Prop := let '(a, b, w) := e in g b - g a <= w.

Lemma add_edges_sound g n es : forall z,
  ggam g z -> Forall (gedge_holds g) es -> ggam g (add_edges n z es).
Proof.
  unfold add_edges. induction es as [|[[a b] w] r IH]; intros z G F; simpl; auto.
  inversion F; subst. apply IH; auto. apply add_edge_sound; auto.
Qed.

Lemma even_le_half a k : 2 * a <= k -> 2 * a <= 2 * (k / 2).
Proof. intros H. assert (a <= k / 2) by (apply Z.div_le_lower_bound; lia). lia. Qed.

(* integer tightening, the infeasibility test and the strengthening keep every integer point *)
Theorem o_close_sound n z s : ogamma z s -> ogamma (o_close n z) s.
Proof.
  unfold ogamma. destruct z as [|m]; cbn [ggam o_close]; auto. intros G.
  assert (T : gfun (mget (tighten_m n m)) (oval s)).
  { intros i j k. unfold tighten_m. rewrite mget_tab.
    destruct ((i <? n) && (j <? n))%nat; [|discriminate].
    destruct (Nat.eqb_spec j (bar i)).
    - subst j. pose proof (G i (bar i)) as G1. destruct (mget m i (bar i)) as [k0|]; [|discriminate].
      intros H. specialize (G1 _ eq_refl). rewrite oval_bar in *.
      assert (X : 2 * (- oval s i) <= 2 * (k0 / 2)) by (apply even_le_half; lia).
      assert (K : k = 2 * (k0 / 2)) by congruence. lia.
    - apply G. }
  destruct (unary_infeasible n (tighten_m n m)) eqn:U.
  - unfold unary_infeasible in U. apply existsb_exists in U. destruct U as [i [_ U]].
    apply negb_true_iff in U.
    assert (X : wleb (Some 0) (wadd (mget (tighten_m n m) i (bar i)) (mget (tighten_m n m) (bar i) i)) = true); [|congruence].
    apply wleb_spec. pose proof (T i (bar i)) as T1. pose proof (T (bar i) i) as T2.
    destruct (mget (tighten_m n m) i (bar i)), (mget (tighten_m n m) (bar i) i); cbn [wadd wle]; auto.
    specialize (T1 _ eq_refl). specialize (T2 _ eq_refl). rewrite oval_bar in *. lia.
  - cbn [ggam]. intros i j k. unfold strengthen_m. rewrite mget_tab.
    destruct ((i <? n) && (j <? n))%nat; [|discriminate].
    pose proof (T i j) as T0. pose proof (T i (bar i)) as T1. pose proof (T (bar j) j) as T2.
    destruct (mget (tighten_m n m) i j) as [k0|], (mget (tighten_m n m) i (bar i)) as [k1|],
             (mget (tighten_m n m) (bar j) j) as [k2|]; cbn [wadd whalf wmin]; intros H;
      try specialize (T0 _ eq_refl); try specialize (T1 _ eq_refl); try specialize (T2 _ eq_refl);
      rewrite ?oval_bar in *; try discriminate;
      try (assert (K : k = k0) by congruence; lia).
    + assert (X : oval s j - oval s i <= (k1 + k2) / 2) by (apply Z.div_le_lower_bound; lia).
      assert (K : k = Z.min k0 ((k1 + k2) / 2)) by congruence. lia.
    + assert (X : oval s j - oval s i <= (k1 + k2) / 2) by (apply Z.div_le_lower_bound; lia).
      assert (K : k = (k1 + k2) / 2) by congruence. lia.
Qed.

Theorem o_add_sound n c z s : ogamma z s -> sat c s -> ogamma (o_add n c z) s.
Proof.
  intros G H. unfold o_add. destruct (oct_edges c) as [es|] eqn:E; auto.
  apply o_close_sound. apply add_edges_sound; auto.
  apply (oct_edges_spec c es s E) in H. revert H. apply Forall_impl. intros [[a b] w]. auto.
Qed.

Theorem o_assume_sound n cs : forall z s,
  ogamma z s -> Forall (fun c => sat c s) cs -> ogamma (o_assume n cs z) s.
Proof.
  unfold o_assume. induction cs as [|c r IH]; intros z s G F; simpl; auto.
  inversion F; subst. apply IH; auto. apply o_add_sound; auto.
Qed.

(* entails answers yes only if every integer point satisfies the constraint *)
Theorem o_entails_sound c z s : o_entails c z = true -> ogamma z s -> sat c s.
Proof.
  unfold o_entails, ogamma. destruct z as [|m]; simpl; [tauto|].
  destruct (oct_edges c) as [es|] eqn:E; [|discriminate].
  rewrite forallb_forall. intros H G. apply (oct_edges_spec c es s E). apply Forall_forall.
  intros [[a b] w] I. specialize (H _ I). simpl in H. apply wleb_spec in H. simpl.
  pose proof (G a b) as G1. destruct (mget m a b) as [k|]; simpl in H; [|tauto].
  specialize (G1 _ eq_refl). lia.
Qed.

Lemma half_bound a k : 2 * a <= k -> a <= k / 2.
Proof. intros. apply Z.div_le_lower_bound; lia. Qed.

Theorem o_upper_sound z v s u : ogamma z s -> o_upper z v = Some u -> s v <= u.
Proof.
  unfold ogamma, o_upper. destruct z as [|m]; simpl; [tauto|]. intros G.
  pose proof (G (nnode v) (pnode v)) as G1. destruct (mget m (nnode v) (pnode v)); simpl; [|discriminate].
  intros H. inversion H; subst. specialize (G1 _ eq_refl). rewrite oval_pnode, oval_nnode in G1.
  apply half_bound. lia.
Qed.
Theorem o_lower_sound z v s l : ogamma z s -> o_lower z v = Some l -> l <= s v.
Proof.
  unfold ogamma, o_lower. destruct z as [|m]; simpl; [tauto|]. intros G.
  pose proof (G (pnode v) (nnode v)) as G1. destruct (mget m (pnode v) (nnode v)); simpl; [|discriminate].
  intros H. inversion H; subst. specialize (G1 _ eq_refl). rewrite oval_pnode, oval_nnode in G1.
  assert (- s v <= z / 2) by (apply half_bound; lia). lia.
Qed.

Theorem o_leq_sound n a b s : zdim n b -> o_leq n a b = true -> ogamma a s -> ogamma b s.
Proof.
  unfold o_leq, z_leq, ogamma. destruct a as [|x], b as [|y]; simpl; try tauto; try discriminate.
  intros Db H G i j k E. rewrite forallb_forall in H.
  assert (I : In (i, j) (pairs n)).
  { apply in_pairs. destruct (Nat.lt_ge_cases i n), (Nat.lt_ge_cases j n); auto;
      rewrite Db in E by lia; discriminate. }
  specialize (H _ I). simpl in H. apply wleb_spec in H. rewrite E in H.
  pose proof (G i j) as G1. destruct (mget x i j); simpl in H; [|tauto].
  specialize (G1 _ eq_refl). lia.
Qed.

Lemma z_join_sound g n a b : ggam g a \/ ggam g b -> ggam g (z_join n a b).
Proof.
  destruct a as [|x], b as [|y]; simpl; try tauto.
  intros H i j k. rewrite mget_tab. destruct ((i <? n) && (j <? n))%nat; [|discriminate].
  destruct H as [G|G]; pose proof (G i j) as G1;
    destruct (mget x i j), (mget y i j); simpl; try discriminate;
    intros H; inversion H; specialize (G1 _ eq_refl); lia.
Qed.

Lemma z_meet_sound g n a b : ggam g a -> ggam g b -> ggam g (z_meet n a b).
Proof.
  destruct a as [|x], b as [|y]; simpl; try tauto. intros Ga Gb.
  assert (X : forall ps acc, ggam g acc ->
            ggam g (fold_left (fun acc p => match mget y (fst p) (snd p) with
                                            | Some k => add_edge n acc (fst p, snd p, k)
                                            | None => acc end) ps acc)).
  { induction ps as [|p ps IH]; intros acc G; simpl; auto.
    apply IH. destruct (mget y (fst p) (snd p)) as [k|] eqn:E; auto.
    apply add_edge_sound; auto. }
  apply X. exact Ga.
Qed.

Theorem o_join_sound n a b s : ogamma a s \/ ogamma b s -> ogamma (o_join n a b) s.
Proof. apply z_join_sound. Qed.
Theorem o_meet_sound n a b s : ogamma a s -> ogamma b s -> ogamma (o_meet n a b) s.
Proof. intros A B. unfold o_meet. apply o_close_sound. apply z_meet_sound; auto. Qed.

(* forget *)
Lemma forget_m_sound n m p g g' :
  gfun (mget m) g -> (forall q, q <> p -> g' q = g q) -> gfun (mget (forget_m n m p)) g'.
Proof.
  intros G E i j k. unfold forget_m. rewrite mget_tab.
  destruct ((i <? n) && (j <? n))%nat; [|discriminate].
  destruct (Nat.eqb_spec i j).
  - subst. intros F. specialize (G _ _ _ F). lia.
  - destruct (Nat.eqb_spec i p), (Nat.eqb_spec j p); simpl; try discriminate.
    intros F. rewrite !E by auto. apply (G _ _ _ F).
Qed.

Lemma oval_other s s' v q : (forall k, k <> v -> s' k = s k) -> q <> pnode v -> q <> nnode v ->
  oval s' q = oval s q.
Proof.
  intros E Hp Hn. unfold oval.
  assert (X : N.of_nat (Nat.div2 q) <> v).
  { intros <-. unfold pnode, nnode in *. rewrite Nat2N.id in *.
    destruct (nat_parity q) as [k [->| ->]].
    - rewrite div2_double_nat in *. lia.
    - rewrite div2_succ_double_nat in *. lia. }
  rewrite (E _ X). reflexivity.
Qed.

Theorem o_forget1_sound n z v s s' :
  ogamma z s -> (forall k, k <> v -> s' k = s k) -> ogamma (o_forget1 n z v) s'.
Proof.
  unfold ogamma. destruct z as [|m]; simpl; auto. intros G E.
  set (g1 := fun i => if Nat.eqb i (pnode v) then oval s' i else oval s i).
  apply (forget_m_sound n _ (nnode v) g1).
  - apply (forget_m_sound n m (pnode v) (oval s)); auto.
    intros q Hq. unfold g1. destruct (Nat.eqb_spec q (pnode v)); congruence.
  - intros q Hq. unfold g1. destruct (Nat.eqb_spec q (pnode v)); auto.
    apply (oval_other s s' v); auto.
Qed.

Theorem o_forget_sound n vs : forall z s s',
  ogamma z s -> store_eq_off vs s s' -> ogamma (o_forget n vs z) s'.
Proof.
  unfold o_forget. induction vs as [|v r IH]; intros z s s' G E; simpl.
  - unfold ogamma in *. destruct z as [|m]; simpl in *; auto. intros i j k F.
    assert (V : forall q, oval s' q = oval s q).
    { intros q. unfold oval. rewrite !(E _ (fun x => x)). reflexivity. }
    rewrite !V. eauto.
  - apply (IH _ (upd s v (s' v)) s').
    + apply (o_forget1_sound n z v s); auto. intros k Hk. apply upd_other; auto.
    + intros k Hk. unfold upd. destruct (N.eqb_spec k v); [subst; auto|]. apply E. simpl.
      intros [X|X]; [congruence|tauto].
Qed.

(* assignments *)
Lemma ogamma_ext z s s' : store_eq s s' -> ogamma z s -> ogamma z s'.
Proof.
  intros E. unfold ogamma. destruct z as [|m]; simpl; auto. intros G i j k F.
  assert (V : forall q, oval s' q = oval s q). { intros q. unfold oval. rewrite !E. reflexivity. }
  rewrite !V. eauto.
Qed.

Lemma oshift_sound n m x k s :
  gfun (mget m) (oval s) -> gfun (mget (oshift_m n m x k)) (oval (upd s x (s x + k))).
Proof.
  intros G i j w. unfold oshift_m. rewrite mget_tab.
  destruct ((i <? n) && (j <? n))%nat; [|discriminate].
  destruct (mget m i j) as [w0|] eqn:F; simpl; [|discriminate]. intros H. inversion H; subst; clear H.
  specialize (G _ _ _ F).
  assert (V : forall q, oval (upd s x (s x + k)) q =
                        oval s q + (if Nat.eqb q (pnode x) then k else if Nat.eqb q (nnode x) then - k else 0)).
  { intros q. destruct (Nat.eqb_spec q (pnode x)); [subst; rewrite !oval_pnode, upd_same; lia|].
    destruct (Nat.eqb_spec q (nnode x)); [subst; rewrite !oval_nnode, upd_same; lia|].
    rewrite (oval_other s (upd s x (s x + k)) x q); auto; [lia|]. intros k0 Hk. apply upd_other; auto. }
  rewrite !V. lia.
Qed.

Theorem o_assign_sound n x e z s s' :
  ogamma z s -> store_eq s' (upd s x (eval_le e s)) -> ogamma (o_assign n x e z) s'.
Proof.
  intros G E.
  assert (FG : ogamma (o_forget1 n z x) s').
  { apply (o_forget1_sound n z x s); auto. intros k Hk. rewrite E. apply upd_other; auto. }
  pose proof (E x) as Ex. rewrite upd_same in Ex. unfold eval_le in Ex.
  unfold o_assign. destruct (le_terms e) as [|[c y] [|]] eqn:T; auto.
  - apply o_add_sound; auto. unfold sat, eval_le; cbn [lc_kind lc_exp le_terms le_cst eval_terms].
    cbn [eval_terms] in Ex. lia.
  - destruct (unit_coef c) eqn:U; auto. destruct (N.eqb_spec x y).
    + subst y. destruct (Z.eqb_spec c 1); auto. subst c.
      destruct z as [|m]; [destruct G|]. apply (ogamma_ext _ (upd s x (s x + le_cst e))).
      * intros k. rewrite E. unfold upd. destruct (N.eqb k x); auto. unfold eval_le. rewrite T.
        cbn [eval_terms]. lia.
      * apply oshift_sound. exact G.
    + apply o_add_sound; auto. unfold sat, eval_le; cbn [lc_kind lc_exp le_terms le_cst eval_terms].
      cbn [eval_terms] in Ex. rewrite (E y), upd_other by congruence. lia.
Qed.

(* ------------------------------------------------------------------ histories *)
Theorem oct_sound_dom n : sound_dom (oct_dom n) ogamma (fun _ => True).
Proof.
  constructor; simpl.
  - intros s. unfold ogamma, o_top. simpl. intros i j k. rewrite mget_tab.
    destruct ((i <? n) && (j <? n))%nat; [|discriminate].
    destruct (Nat.eqb_spec i j); [|discriminate]. intros H. inversion H. subst. lia.
  - intros cs z s _ G F. apply o_assume_sound; auto.
  - intros x e z s s' G E. eapply o_assign_sound; eauto.
  - intros vs z s s' G E. eapply o_forget_sound; eauto.
  - intros a b s. apply o_join_sound.
  - intros a b s. apply o_meet_sound.
Qed.

(* ------------------------------------------------------------------ exactness *)
(* constraints of the language over the variables of the matrix (at least one variable) *)
Definition o_ok (n : nat) (c : lincst) : Prop :=
  le_terms (lc_exp c) <> [] /\ exists es, oct_edges c = Some es /\ Forall (edge_in n) es.
(* assignments of the language: x := k, x := +-y + k (y <> x), x := x + k *)
Definition oa_ok (n : nat) (x : var) (e : linexp) : Prop :=
  (nnode x < n)%nat /\
  (le_terms e = [] \/
   exists c y, le_terms e = [(c, y)] /\ unit_coef c = true /\ (nnode y < n)%nat /\ (x <> y \/ c = 1)).

(* ------------------------------------------------------------------ bar *)
Lemma bar_double k : bar (2 * k) = S (2 * k).
Proof. unfold bar. rewrite even_double. reflexivity. Qed.
Lemma bar_succ_double k : bar (S (2 * k)) = (2 * k)%nat.
Proof. unfold bar. rewrite even_succ_double. reflexivity. Qed.

Lemma bar_invol i : bar (bar i) = i.
Proof.
  destruct (nat_parity i) as [k [->| ->]].
  - rewrite bar_double, bar_succ_double. reflexivity.
  - rewrite bar_succ_double, bar_double. reflexivity.
Qed.

Lemma bar_neq i : bar i <> i.
Proof.
  destruct (nat_parity i) as [k [->| ->]]; rewrite ?bar_double, ?bar_succ_double; lia.
Qed.

Lemma bar_lt n i : Nat.even n = true -> ((bar i < n)%nat <-> (i < n)%nat).
Proof.
  intros E. destruct (Nat.even_spec n) as [X _]. destruct (X E) as [h ->].
  destruct (nat_parity i) as [k [->| ->]]; rewrite ?bar_double, ?bar_succ_double; lia.
Qed.

Lemma bar_inj i j : bar i = bar j -> i = j.
Proof. intros H. rewrite <- (bar_invol i), <- (bar_invol j). congruence. Qed.

(* ------------------------------------------------------------------ invariants *)
Definition coherent (f : nat -> nat -> wt) : Prop := forall i j, f i j = f (bar j) (bar i).
Definition tight (f : nat -> nat -> wt) : Prop :=
  forall i k, f i (bar i) = Some k -> exists h, k = 2 * h.
Definition scoh (f : nat -> nat -> wt) : Prop :=
  forall i j, wle (f i j) (whalf (wadd (f i (bar i)) (f (bar j) j))).

Definition owf (n : nat) (m : mat) : Prop :=
  mwf n m /\ coherent (mget m) /\ tight (mget m) /\ scoh (mget m).
Definition ozwf (n : nat) (z : zone) : Prop :=
  match z with ZBot => True | ZM m => owf n m end.

(* the mirrored valuation *)
Definition flip (g : nat -> Z) : nat -> Z := fun i => - g (bar i).

Lemma flip_flip g i : flip (flip g) i = g i.
Proof. unfold flip. rewrite bar_invol. lia. Qed.

Lemma flip_oval s i : flip (oval s) i = oval s i.
Proof. unfold flip. rewrite oval_bar. lia. Qed.

Lemma coherent_flip f g : coherent f -> gfun f g -> gfun f (flip g).
Proof.
  intros C G i j k E. unfold flip. rewrite (C i j) in E. specialize (G _ _ _ E). lia.
Qed.

(* a closed matrix whose solutions are closed under mirroring is coherent *)
Lemma coherent_of_flip n m : Nat.even n = true -> mwf n m ->
  (forall g, gfun (mget m) g -> gfun (mget m) (flip g)) -> coherent (mget m).
Proof.
  intros En W H.
  set (f' := fun i j => mget m (bar j) (bar i)).
  assert (W' : mwf n (tab n f')).
  { destruct W as [S [D C]]. split; [apply tab_support|]. split.
    - intros i Hi. rewrite mget_tab. pose proof Hi as Hi'. apply Nat.ltb_lt in Hi'. rewrite Hi'. simpl.
      unfold f'. apply D. apply bar_lt; auto.
    - apply closed_tab. intros i j k. unfold f'.
      pose proof (C (bar j) (bar i) (bar k)) as X. revert X.
      generalize (mget m (bar j) (bar i)) (mget m (bar j) (bar k)) (mget m (bar k) (bar i)). wt_crush. }
  assert (S' : support n f').
  { intros i j Hij. unfold f'. apply (proj1 W). destruct Hij as [Hi|Hj]; [right|left].
    - pose proof (bar_lt n i En). lia.
    - pose proof (bar_lt n j En). lia. }
  assert (EQ : forall g, gfun (mget m) g <-> gfun (mget (tab n f')) g).
  { intros g. rewrite (gfun_tab n f' g S'). split.
    - intros G i j k E. unfold f' in E. specialize (H g G _ _ _ E). unfold flip in H.
      rewrite !bar_invol in H. lia.
    - intros G. assert (G' : gfun (mget m) (flip g)).
      { intros i j k E. unfold flip. pose proof (G (bar j) (bar i) k) as X. unfold f' in X.
        rewrite !bar_invol in X. specialize (X E). lia. }
      specialize (H _ G'). intros i j k E. specialize (H i j k E). rewrite !flip_flip in H. auto. }
  intros i j. rewrite (mwf_unique n m (tab n f') W W' EQ i j). rewrite tab_ext; auto.
Qed.

Ltac wt_crush2 := intros; wt_destruct; cbn [wle wadd wmin wmax whalf] in *; try tauto; try lia.

(* ------------------------------------------------------------------ tight closure of a closed coherent matrix *)
Definition wdbl (a : wt) : wt := match a with Some k => Some (2 * k) | None => None end.
Ltac wt_crush3 := intros; wt_destruct; cbn [wle wadd wmin wmax whalf wdbl] in *; try tauto; try lia.

Section Tighten.
  Variable f : nat -> nat -> wt.
  Hypothesis C : closed f.
  Hypothesis Co : coherent f.

  Definition uhalf (i : nat) : wt := match f i (bar i) with Some k => Some (k / 2) | None => None end.
  Definition Tf (i j : nat) : wt := if Nat.eqb j (bar i) then wdbl (uhalf i) else f i j.
  Definition Sf (i j : nat) : wt := wmin (Tf i j) (wadd (uhalf i) (uhalf (bar j))).

  Hypothesis Feas : forall i, wle (Some 0) (wadd (uhalf i) (uhalf (bar i))).

  Lemma Tf_le i j : wle (Tf i j) (f i j).
  Proof.
    unfold Tf, uhalf. destruct (Nat.eqb_spec j (bar i)).
    - subst. destruct (f i (bar i)) as [k|]; cbn [wdbl wle]; auto.
      apply Z.mul_div_le. lia.
    - apply wle_refl.
  Qed.

  Lemma half_step a b : (a <= 2 * b + 0)%Z -> True. Proof. auto. Qed.

  (* u i <= f i k + u k *)
  Lemma A1 i k : wle (uhalf i) (wadd (f i k) (uhalf k)).
  Proof.
    unfold uhalf. pose proof (C i (bar i) k) as H1. pose proof (C k (bar i) (bar k)) as H2.
    rewrite (Co (bar k) (bar i)) in H2. rewrite !bar_invol in H2.
    revert H1 H2. generalize (f i (bar i)) (f i k) (f k (bar i)) (f k (bar k)).
    intros a b c d. destruct a as [a|], b as [b|], c as [c|], d as [d|]; simpl; try tauto.
    intros H1 H2. assert (a <= 2 * b + d) by lia.
    assert (a / 2 <= (2 * b + d) / 2) by (apply Z.div_le_mono; lia).
    replace (2 * b + d) with (b * 2 + d) in H0 by lia. rewrite Z.div_add_l in H0 by lia. lia.
  Qed.

  (* u (bar j) <= u (bar k) + f k j *)
  Lemma A2 k j : wle (uhalf (bar j)) (wadd (uhalf (bar k)) (f k j)).
  Proof.
    pose proof (A1 (bar j) (bar k)) as H. rewrite (Co (bar j) (bar k)) in H. rewrite !bar_invol in H.
    revert H. generalize (uhalf (bar j)) (uhalf (bar k)) (f k j). wt_crush.
  Qed.

  Lemma Sf_closed : closed Sf.
  Proof.
    intros i j k. unfold Sf.
    pose proof (Feas k) as Fk. pose proof (Feas i) as Fi.
    pose proof (A1 i k) as P1. pose proof (A2 k j) as P2.
    pose proof (Tf_le i j) as L. pose proof (C i j k) as Tr.
    unfold Tf in *.
    destruct (Nat.eqb_spec k (bar i)) as [Ek|Ek]; destruct (Nat.eqb_spec j (bar k)) as [Ej|Ej].
    - (* k = bar i, j = bar k = i *)
      subst k. subst j. rewrite bar_invol in *.
      revert Fi L. generalize (uhalf i) (uhalf (bar i)) (f i i).
      destruct (Nat.eqb i (bar i)); wt_crush3.
    - subst k. rewrite bar_invol in *.
      pose proof (A2 (bar i) j) as P3. rewrite bar_invol in P3.
      revert Fi P3 L. generalize (uhalf i) (uhalf (bar i)) (uhalf (bar j)) (f (bar i) j) (f i j).
      destruct (Nat.eqb j (bar i)); wt_crush3.
    - subst j. rewrite bar_invol in *.
      revert Fk P1 L. generalize (uhalf i) (uhalf k) (uhalf (bar k)) (f i k) (f i (bar k)).
      destruct (Nat.eqb (bar k) (bar i)); wt_crush3.
    - revert Fk P1 P2 L Tr.
      generalize (uhalf i) (uhalf k) (uhalf (bar k)) (uhalf (bar j)) (f i k) (f k j) (f i j).
      destruct (Nat.eqb j (bar i)); wt_crush3.
  Qed.
End Tighten.

Lemma whalf_dbl a b : whalf (wadd (wdbl a) (wdbl b)) = wadd a b.
Proof.
  destruct a as [a|], b as [b|]; cbn [wdbl wadd whalf]; auto. f_equal.
  replace (2 * a + 2 * b) with ((a + b) * 2) by lia. apply Z.div_mul. lia.
Qed.

Section CloseSpec.
  Variables (n : nat) (m : mat).
  Hypothesis En : Nat.even n = true.
  Hypothesis W : mwf n m.
  Hypothesis Co : coherent (mget m).
  Let f := mget m.

  Lemma uhalf_support i : (n <= i)%nat -> uhalf f i = None.
  Proof. intros H. unfold uhalf, f. rewrite (proj1 W); auto. Qed.

  Lemma tighten_entries i j : mget (tighten_m n m) i j = Tf f i j.
  Proof.
    unfold tighten_m. rewrite mget_tab. unfold Tf, uhalf, f.
    destruct (Nat.ltb_spec i n), (Nat.ltb_spec j n); simpl.
    - destruct (Nat.eqb_spec j (bar i)); auto. subst. destruct (mget m i (bar i)); reflexivity.
    - destruct (Nat.eqb_spec j (bar i)).
      + subst. rewrite (proj1 W i (bar i)) by auto. reflexivity.
      + symmetry. apply (proj1 W). auto.
    - destruct (Nat.eqb_spec j (bar i)).
      + subst. rewrite (proj1 W i (bar i)) by auto. reflexivity.
      + symmetry. apply (proj1 W). auto.
    - destruct (Nat.eqb_spec j (bar i)).
      + subst. rewrite (proj1 W i (bar i)) by auto. reflexivity.
      + symmetry. apply (proj1 W). auto.
  Qed.

  Lemma Tf_unary i : Tf f i (bar i) = wdbl (uhalf f i).
  Proof. unfold Tf. rewrite Nat.eqb_refl. reflexivity. Qed.
  Lemma Tf_unary' j : Tf f (bar j) j = wdbl (uhalf f (bar j)).
  Proof. unfold Tf. rewrite bar_invol, Nat.eqb_refl. reflexivity. Qed.

  Lemma strengthen_entries i j : mget (strengthen_m n (tighten_m n m)) i j = Sf f i j.
  Proof.
    unfold strengthen_m. rewrite mget_tab. rewrite !tighten_entries.
    rewrite Tf_unary, Tf_unary', whalf_dbl. unfold Sf.
    destruct (Nat.ltb_spec i n), (Nat.ltb_spec j n); simpl; auto.
    - assert (Tf f i j = None).
      { rewrite <- tighten_entries. apply tab_support. auto. }
      rewrite H1. rewrite (uhalf_support (bar j)); [destruct (uhalf f i); reflexivity|].
      pose proof (bar_lt n j En). lia.
    - assert (Tf f i j = None).
      { rewrite <- tighten_entries. apply tab_support. auto. }
      rewrite H1. rewrite (uhalf_support i); auto.
    - assert (Tf f i j = None).
      { rewrite <- tighten_entries. apply tab_support. auto. }
      rewrite H1. rewrite (uhalf_support i); auto.
  Qed.

  Lemma feas_of_check :
    unary_infeasible n (tighten_m n m) = false ->
    forall i, wle (Some 0) (wadd (uhalf f i) (uhalf f (bar i))).
  Proof.
    intros U i. destruct (Nat.lt_ge_cases i n) as [Hi|Hi].
    - unfold unary_infeasible in U.
      assert (X : negb (wleb (Some 0) (wadd (mget (tighten_m n m) i (bar i)) (mget (tighten_m n m) (bar i) i))) = false).
      { destruct (negb _) eqn:E; auto. exfalso.
        assert (Y : existsb (fun i => negb (wleb (Some 0) (wadd (mget (tighten_m n m) i (bar i)) (mget (tighten_m n m) (bar i) i)))) (seq 0 n) = true).
        { apply existsb_exists. exists i. split; auto. apply in_seq. lia. }
        congruence. }
      apply negb_false_iff in X. apply wleb_spec in X. rewrite !tighten_entries in X.
      rewrite Tf_unary, Tf_unary' in X. revert X.
      generalize (uhalf f i) (uhalf f (bar i)). wt_crush3.
    - rewrite (uhalf_support i) by auto. exact I.
  Qed.

  Lemma check_of_feas :
    (forall i, wle (Some 0) (wadd (uhalf f i) (uhalf f (bar i)))) ->
    unary_infeasible n (tighten_m n m) = false.
  Proof.
    intros H. unfold unary_infeasible. destruct (existsb _ _) eqn:E; auto. exfalso.
    apply existsb_exists in E. destruct E as [i [_ E]]. apply negb_true_iff in E.
    assert (X : wleb (Some 0) (wadd (mget (tighten_m n m) i (bar i)) (mget (tighten_m n m) (bar i) i)) = true); [|congruence].
    apply wleb_spec. rewrite !tighten_entries, Tf_unary, Tf_unary'. specialize (H i). revert H.
    generalize (uhalf f i) (uhalf f (bar i)). wt_crush3.
  Qed.

  Lemma wadd_comm (a b : wt) : wadd a b = wadd b a.
  Proof. destruct a, b; cbn [wadd]; auto. f_equal. lia. Qed.

  Lemma Sf_unary i : Sf f i (bar i) = wdbl (uhalf f i).
  Proof.
    unfold Sf. rewrite Tf_unary, bar_invol. destruct (uhalf f i) as [a|]; cbn [wdbl wadd wmin]; auto.
    f_equal. lia.
  Qed.
  Lemma Sf_unary' j : Sf f (bar j) j = wdbl (uhalf f (bar j)).
  Proof. pose proof (Sf_unary (bar j)) as H. rewrite bar_invol in H. exact H. Qed.

  (* the result of the tight closure satisfies the whole invariant *)
  Lemma o_close_owf : ozwf n (o_close n (ZM m)).
  Proof.
    cbn [o_close]. destruct (unary_infeasible n (tighten_m n m)) eqn:U; [exact I|].
    pose proof (feas_of_check U) as Fe. cbn [ozwf]. unfold owf, mwf.
    assert (EQ : forall i j, mget (strengthen_m n (tighten_m n m)) i j = Sf f i j) by apply strengthen_entries.
    destruct W as [S [D C]].
    repeat split.
    - apply tab_support.
    - intros i Hi. rewrite EQ. unfold Sf, Tf. pose proof (bar_neq i) as N.
      destruct (Nat.eqb_spec i (bar i)); [congruence|].
      assert (Dii : f i i = Some 0) by (apply D; auto). rewrite Dii.
      specialize (Fe i). revert Fe. generalize (uhalf f i) (uhalf f (bar i)).
      wt_crush3; try reflexivity; f_equal; lia.
    - intros i j k. rewrite !EQ. apply (Sf_closed f C Co Fe).
    - intros i j. rewrite !EQ. unfold Sf. rewrite bar_invol.
      rewrite (wadd_comm (uhalf f (bar j)) (uhalf f i)). f_equal.
      unfold Tf. rewrite bar_invol.
      destruct (Nat.eqb_spec j (bar i)) as [E|E].
      + subst j. rewrite Nat.eqb_refl, bar_invol. reflexivity.
      + destruct (Nat.eqb_spec (bar i) j); [congruence|]. apply Co.
    - intros i k. rewrite EQ, Sf_unary. destruct (uhalf f i) as [a|]; cbn [wdbl]; [|discriminate].
      intros H. inversion H. exists a. reflexivity.
    - intros i j. rewrite !EQ. rewrite Sf_unary, Sf_unary', whalf_dbl. unfold Sf.
      generalize (Tf f i j) (wadd (uhalf f i) (uhalf f (bar j))). wt_crush3.
  Qed.

  (* ... and has the integer points of the matrix it was computed from *)
  Lemma Sf_le i j : wle (Sf f i j) (f i j).
  Proof.
    unfold Sf. pose proof (Tf_le f i j) as L. revert L.
    generalize (Tf f i j) (wadd (uhalf f i) (uhalf f (bar j))) (f i j). wt_crush3.
  Qed.

  Lemma o_close_gamma s : ogamma (o_close n (ZM m)) s <-> gfun f (oval s).
  Proof.
    split.
    - cbn [o_close]. destruct (unary_infeasible n (tighten_m n m)); [intros []|].
      unfold ogamma. cbn [ggam]. intros G i j k E. pose proof (Sf_le i j) as L. rewrite E in L.
      pose proof (G i j) as G1. rewrite strengthen_entries in G1.
      destruct (Sf f i j) as [k'|]; cbn [wle] in L; [|tauto]. specialize (G1 _ eq_refl). lia.
    - intros G. apply (o_close_sound n (ZM m) s). exact G.
  Qed.
End CloseSpec.

(* ------------------------------------------------------------------ integer points *)
Definition varof (i : nat) : var := N.of_nat (Nat.div2 i).

Lemma varof_pnode v : varof (pnode v) = v.
Proof. unfold varof, pnode. rewrite div2_double_nat, N2Nat.id. reflexivity. Qed.
Lemma varof_nnode v : varof (nnode v) = v.
Proof. unfold varof, nnode. rewrite div2_succ_double_nat, N2Nat.id. reflexivity. Qed.
Lemma varof_bar i : varof (bar i) = varof i.
Proof.
  unfold varof. destruct (nat_parity i) as [k [->| ->]].
  - rewrite bar_double, div2_succ_double_nat, div2_double_nat. reflexivity.
  - rewrite bar_succ_double, div2_succ_double_nat, div2_double_nat. reflexivity.
Qed.
Lemma node_cases i : i = pnode (varof i) \/ i = nnode (varof i).
Proof.
  unfold varof, pnode, nnode. destruct (nat_parity i) as [k [->| ->]].
  - left. rewrite div2_double_nat, Nat2N.id. reflexivity.
  - right. rewrite div2_succ_double_nat, Nat2N.id. reflexivity.
Qed.

Lemma oval_upd_other s v X i : varof i <> v -> oval (upd s v X) i = oval s i.
Proof. intros H. unfold oval, upd. fold (varof i). destruct (N.eqb_spec (varof i) v); congruence. Qed.
Lemma oval_upd_p s v X : oval (upd s v X) (pnode v) = X.
Proof. rewrite oval_pnode. apply upd_same. Qed.
Lemma oval_upd_n s v X : oval (upd s v X) (nnode v) = - X.
Proof. rewrite oval_nnode, upd_same. reflexivity. Qed.

Lemma fold_min_le us : forall a u, In u (a :: us) -> fold_right Z.min a us <= u.
Proof.
  induction us as [|b us IH]; intros a u I; simpl in *.
  - destruct I as [<-|[]]; lia.
  - destruct I as [<-|[<-|I]].
    + specialize (IH a a (or_introl eq_refl)). lia.
    + lia.
    + specialize (IH a u (or_intror I)). lia.
Qed.
Lemma fold_max_ge ls : forall a l, In l (a :: ls) -> l <= fold_right Z.max a ls.
Proof.
  induction ls as [|b ls IH]; intros a l I; simpl in *.
  - destruct I as [<-|[]]; lia.
  - destruct I as [<-|[<-|I]].
    + specialize (IH a a (or_introl eq_refl)). lia.
    + lia.
    + specialize (IH a l (or_intror I)). lia.
Qed.
Lemma fold_max_in ls : forall a, In (fold_right Z.max a ls) (a :: ls).
Proof.
  induction ls as [|b ls IH]; intros a; simpl.
  - auto.
  - destruct (Z.max_spec b (fold_right Z.max a ls)) as [[_ M]|[_ M]]; rewrite M.
    + destruct (IH a) as [E|I]; auto.
    + auto.
Qed.

Lemma between (lows ups : list Z) :
  (forall l u, In l lows -> In u ups -> l <= u) ->
  exists X, (forall l, In l lows -> l <= X) /\ (forall u, In u ups -> X <= u).
Proof.
  intros H. destruct lows as [|l0 lows].
  - destruct ups as [|u0 ups].
    + exists 0. split; intros ? [].
    + exists (fold_right Z.min u0 ups). split; [intros ? []|]. intros u I. apply fold_min_le. auto.
  - exists (fold_right Z.max l0 lows). split.
    + intros l I. apply fold_max_ge. auto.
    + intros u I. apply H; auto. apply fold_max_in.
Qed.

Section OctExtend.
  Variable f : nat -> nat -> wt.
  Variable n : nat.
  Hypothesis En : Nat.even n = true.
  Hypothesis C : closed f.
  Hypothesis Co : coherent f.
  Hypothesis Sup : support n f.

  Definition sat_onv (L : list var) (s : store) : Prop :=
    forall i j k, In (varof i) L -> In (varof j) L -> f i j = Some k -> oval s j - oval s i <= k.

  Lemma floor_half_le a k : 2 * a <= k -> a <= k / 2.
  Proof. intros. apply Z.div_le_lower_bound; lia. Qed.

  Lemma oct_extend (L : list var) (s : store) (v : var) :
    ~ In v L -> sat_onv L s ->
    wle (Some 0) (wadd (uhalf f (pnode v)) (uhalf f (nnode v))) ->
    wle (Some 0) (f (pnode v) (pnode v)) -> wle (Some 0) (f (nnode v) (nnode v)) ->
    exists X, sat_onv (v :: L) (upd s v X).
  Proof.
    intros NI S Fe Dp Dn.
    assert (Bp : bar (pnode v) = nnode v) by apply bar_pnode. assert (Bq : bar (nnode v) = pnode v) by apply bar_nnode.
    set (NL := filter (fun a => if in_dec N.eq_dec (varof a) L then true else false) (seq 0 n)).
    assert (InNL : forall a, In a NL <-> ((a < n)%nat /\ In (varof a) L)).
    { intros a. unfold NL. rewrite filter_In, in_seq.
      destruct (in_dec N.eq_dec (varof a) L); split; intros [A B]; try discriminate; split; auto; lia. }
    set (lows := flat_map (fun a => match f (pnode v) a with Some k => [oval s a - k] | None => [] end) NL ++
                 match f (pnode v) (nnode v) with Some k => [- (k / 2)] | None => [] end).
    set (ups := flat_map (fun a => match f a (pnode v) with Some k => [oval s a + k] | None => [] end) NL ++
                match f (nnode v) (pnode v) with Some k => [k / 2] | None => [] end).
    assert (InL : forall l, In l lows <->
              ((exists a k, In a NL /\ f (pnode v) a = Some k /\ l = oval s a - k) \/
               (exists k, f (pnode v) (nnode v) = Some k /\ l = - (k / 2)))).
    { intros l. unfold lows. rewrite in_app_iff, in_flat_map. split.
      - intros [[a [Ia I]]|I].
        + left. destruct (f (pnode v) a) as [k|] eqn:E; [|destruct I]. destruct I as [<-|[]]. exists a, k. auto.
        + right. destruct (f (pnode v) (nnode v)) as [k|]; [|destruct I]. destruct I as [<-|[]]. exists k. auto.
      - intros [[a [k [Ia [E ->]]]]|[k [E ->]]].
        + left. exists a. split; auto. rewrite E. left; auto.
        + right. rewrite E. left; auto. }
    assert (InU : forall u, In u ups <->
              ((exists a k, In a NL /\ f a (pnode v) = Some k /\ u = oval s a + k) \/
               (exists k, f (nnode v) (pnode v) = Some k /\ u = k / 2))).
    { intros u. unfold ups. rewrite in_app_iff, in_flat_map. split.
      - intros [[a [Ia I]]|I].
        + left. destruct (f a (pnode v)) as [k|] eqn:E; [|destruct I]. destruct I as [<-|[]]. exists a, k. auto.
        + right. destruct (f (nnode v) (pnode v)) as [k|]; [|destruct I]. destruct I as [<-|[]]. exists k. auto.
      - intros [[a [k [Ia [E ->]]]]|[k [E ->]]].
        + left. exists a. split; auto. rewrite E. left; auto.
        + right. rewrite E. left; auto. }
    assert (BarNL : forall a, In a NL -> In (bar a) NL).
    { intros a Ia. apply InNL in Ia. apply InNL. rewrite varof_bar. split; [apply bar_lt; tauto|tauto]. }
    (* every lower bound is below every upper bound *)
    assert (COMPAT : forall l u, In l lows -> In u ups -> l <= u).
    { intros l u Il Iu. apply InL in Il. apply InU in Iu.
      destruct Il as [[a [ka [Ia [Ea ->]]]]|[kl [El ->]]]; destruct Iu as [[b [kb [Ib [Eb ->]]]]|[ku [Eu ->]]].
      - (* via a and b: f b a <= f b (pnode v) + f (pnode v) a *)
        pose proof (C b a (pnode v)) as T. rewrite Eb, Ea in T. destruct (f b a) as [kba|] eqn:Eba; cbn [wadd wle] in T; [|tauto].
        apply InNL in Ia, Ib. pose proof (S b a kba (proj2 Ib) (proj2 Ia) Eba). lia.
      - (* via a, unary upper: 2 val a <= f (bar a) a <= 2 f (pnode v) a + f (nnode v) (pnode v) *)
        pose proof (C (bar a) a (nnode v)) as T1. pose proof (C (nnode v) a (pnode v)) as T2.
        rewrite (Co (bar a) (nnode v)) in T1. rewrite Bq, bar_invol in T1. rewrite Ea, Eu in *.
        destruct (f (nnode v) a) as [kqa|] eqn:Eqa; cbn [wadd wle] in T2; [|tauto].
        destruct (f (bar a) a) as [kaa|] eqn:Eaa; cbn [wadd wle] in T1; [|tauto].
        pose proof (BarNL a Ia) as Iba. apply InNL in Ia, Iba.
        pose proof (S (bar a) a kaa (proj2 Iba) (proj2 Ia) Eaa) as X. rewrite oval_bar in X.
        assert (oval s a - ka <= ku / 2); [|lia]. apply floor_half_le. lia.
      - (* unary lower, via b: -2 val b <= f b (bar b) <= 2 f b (pnode v) + f (pnode v) (nnode v) *)
        pose proof (C b (bar b) (pnode v)) as T1. pose proof (C (pnode v) (bar b) (nnode v)) as T2.
        rewrite (Co (nnode v) (bar b)) in T2. rewrite Bq, bar_invol in T2. rewrite Eb, El in *.
        destruct (f (pnode v) (bar b)) as [kpb|] eqn:Epb; cbn [wadd wle] in T2; [|tauto].
        destruct (f b (bar b)) as [kbb|] eqn:Ebb; cbn [wadd wle] in T1; [|tauto].
        pose proof (BarNL b Ib) as Ibb. apply InNL in Ib, Ibb.
        pose proof (S b (bar b) kbb (proj2 Ib) (proj2 Ibb) Ebb) as X. rewrite oval_bar in X.
        assert (- oval s b - kb <= kl / 2); [|lia]. apply floor_half_le. lia.
      - (* both unary *)
        unfold uhalf in Fe. rewrite Bp, Bq in Fe. rewrite El, Eu in Fe. cbn [wadd wle] in Fe. lia. }
    destruct (between lows ups COMPAT) as [X [LO UP]]. exists X.
    (* the value of x respects every constraint with an assigned node and its own bounds *)
    assert (VO : forall a, In (varof a) L -> oval (upd s v X) a = oval s a).
    { intros a Ia. apply oval_upd_other. intros E. rewrite E in Ia. tauto. }
    assert (Lp : forall a k, (a < n)%nat -> In (varof a) L -> f (pnode v) a = Some k -> oval s a - X <= k).
    { intros a k Ha Ia E. assert (oval s a - k <= X); [|lia]. apply LO. apply InL. left.
      exists a, k. split; auto. apply InNL. auto. }
    assert (Up : forall a k, (a < n)%nat -> In (varof a) L -> f a (pnode v) = Some k -> X - oval s a <= k).
    { intros a k Ha Ia E. assert (X <= oval s a + k); [|lia]. apply UP. apply InU. left.
      exists a, k. split; auto. apply InNL. auto. }
    assert (RNG : forall a b k, f a b = Some k -> (a < n /\ b < n)%nat).
    { intros a b k E. destruct (Nat.lt_ge_cases a n), (Nat.lt_ge_cases b n); auto; rewrite Sup in E by lia; discriminate. }
    intros i j k Ii Ij E. destruct (RNG _ _ _ E) as [Hi Hj].
    destruct (N.eq_dec (varof i) v) as [Vi|Vi]; destruct (N.eq_dec (varof j) v) as [Vj|Vj].
    - (* both nodes of x *)
      destruct (node_cases i) as [Ei|Ei], (node_cases j) as [Ej|Ej]; rewrite Vi in Ei; rewrite Vj in Ej;
        subst i j; rewrite ?oval_upd_p, ?oval_upd_n.
      + rewrite E in Dp. cbn [wle] in Dp. lia.
      + assert (- (k / 2) <= X) by (apply LO; apply InL; right; exists k; auto).
        pose proof (Z.mul_div_le k 2 ltac:(lia)). lia.
      + assert (X <= k / 2) by (apply UP; apply InU; right; exists k; auto).
        pose proof (Z.mul_div_le k 2 ltac:(lia)). lia.
      + rewrite E in Dn. cbn [wle] in Dn. lia.
    - (* i is a node of x, j assigned *)
      assert (Ij' : In (varof j) L) by (destruct Ij as [Ij|Ij]; [congruence|auto]).
      rewrite (VO j Ij'). destruct (node_cases i) as [Ei|Ei]; rewrite Vi in Ei; subst i;
        rewrite ?oval_upd_p, ?oval_upd_n.
      + apply (Lp j k Hj Ij' E).
      + (* f (nnode v) j = f (bar j) (pnode v) *)
        rewrite (Co (nnode v) j) in E. rewrite Bq in E.
        assert (Ib : In (varof (bar j)) L) by (rewrite varof_bar; auto).
        pose proof (Up (bar j) k ltac:(apply bar_lt; auto) Ib E) as Y. rewrite oval_bar in Y. lia.
    - assert (Ii' : In (varof i) L) by (destruct Ii as [Ii|Ii]; [congruence|auto]).
      rewrite (VO i Ii'). destruct (node_cases j) as [Ej|Ej]; rewrite Vj in Ej; subst j;
        rewrite ?oval_upd_p, ?oval_upd_n.
      + apply (Up i k Hi Ii' E).
      + rewrite (Co i (nnode v)) in E. rewrite Bq in E.
        assert (Ib : In (varof (bar i)) L) by (rewrite varof_bar; auto).
        pose proof (Lp (bar i) k ltac:(apply bar_lt; auto) Ib E) as Y. rewrite oval_bar in Y. lia.
    - assert (Ii' : In (varof i) L) by (destruct Ii as [Ii|Ii]; [congruence|auto]).
      assert (Ij' : In (varof j) L) by (destruct Ij as [Ij|Ij]; [congruence|auto]).
      rewrite (VO i Ii'), (VO j Ij'). apply (S i j k Ii' Ij' E).
  Qed.
End OctExtend.

Definition feasible (f : nat -> nat -> wt) : Prop :=
  forall i, wle (Some 0) (wadd (uhalf f i) (uhalf f (bar i))).

Lemma solution_onv f n : Nat.even n = true -> closed f -> coherent f -> support n f ->
  (forall i, wle (Some 0) (f i i)) -> feasible f ->
  forall L, NoDup L -> exists s, sat_onv f L s.
Proof.
  intros En C Co Sup D Fe L. induction L as [|v L IH]; intros ND.
  - exists (fun _ => 0). intros i j k [].
  - inversion ND; subst. destruct (IH H2) as [s S].
    pose proof (Fe (pnode v)) as F. rewrite bar_pnode in F.
    destruct (oct_extend f n En C Co Sup L s v H1 S F (D _) (D _)) as [X HX].
    exists (upd s v X). exact HX.
Qed.

Lemma var_range_in n i : (i < n)%nat -> In (varof i) (map N.of_nat (seq 0 n)).
Proof.
  intros H. apply in_map_iff. exists (Nat.div2 i). split; auto. apply in_seq.
  destruct (nat_parity i) as [k [->| ->]]; rewrite ?div2_double_nat, ?div2_succ_double_nat; lia.
Qed.

Lemma NoDup_map_of_nat l : NoDup l -> NoDup (map N.of_nat l).
Proof.
  intros ND. induction ND; simpl; constructor; auto.
  intros I. apply in_map_iff in I. destruct I as [y [E Iy]]. apply Nat2N.inj in E. subst. tauto.
Qed.

(* a closed coherent matrix whose tightened unary bounds are feasible has an integer point *)
Theorem oct_inhabited n m : Nat.even n = true -> mwf n m -> coherent (mget m) ->
  feasible (mget m) -> exists s, gfun (mget m) (oval s).
Proof.
  intros En W Co Fe. destruct W as [S [D C]].
  destruct (solution_onv (mget m) n En C Co S (mwf_diag_nonneg n m (conj S (conj D C))) Fe
              (map N.of_nat (seq 0 n)) (NoDup_map_of_nat _ (seq_NoDup n 0))) as [s G].
  exists s. intros i j k E.
  destruct (Nat.lt_ge_cases i n), (Nat.lt_ge_cases j n); try (rewrite S in E by lia; discriminate).
  apply (G i j k); auto; apply var_range_in; auto.
Qed.

(* the invariant implies feasibility *)
Lemma owf_feasible n m : owf n m -> feasible (mget m).
Proof.
  intros [[S [D C]] [Co [Ti Sc]]] i. unfold uhalf.
  pose proof (C i i (bar i)) as T.
  destruct (Nat.lt_ge_cases i n) as [Hi|Hi].
  - rewrite D in T by auto.
    destruct (mget m i (bar i)) as [a|] eqn:Ea; [|exact I].
    rewrite bar_invol. destruct (mget m (bar i) i) as [b|] eqn:Eb; cbn [wadd wle] in *; [|exact I].
    destruct (Ti i a Ea) as [ha ->]. pose proof (Ti (bar i) b) as Tb. rewrite bar_invol in Tb.
    destruct (Tb Eb) as [hb ->].
    replace (2 * ha) with (ha * 2) by lia. replace (2 * hb) with (hb * 2) by lia.
    rewrite !Z.div_mul by lia. lia.
  - rewrite (S i (bar i)) by auto. exact I.
Qed.

Theorem oct_bottom_exact n z : Nat.even n = true -> ozwf n z ->
  (z_is_bot z = true <-> forall s, ~ ogamma z s).
Proof.
  intros En W. destruct z as [|m]; simpl.
  - split; auto.
  - split; [discriminate|]. intros H.
    destruct (oct_inhabited n m En (proj1 W) (proj1 (proj2 W)) (owf_feasible n m W)) as [s G].
    destruct (H s G).
Qed.

(* ------------------------------------------------------------------ attaining the entries *)
Lemma wmin_cases a b x : wmin a b = Some x -> a = Some x \/ b = Some x.
Proof.
  destruct a as [a|], b as [b|]; cbn [wmin]; intros H; inversion H; auto.
  destruct (Z.min_spec a b) as [[_ M]|[_ M]]; rewrite M; auto.
Qed.
Lemma wmin_le_l a b : wle (wmin a b) a.
Proof. destruct a as [a|], b as [b|]; cbn [wmin wle]; auto; lia. Qed.
Lemma wmin_le_r a b : wle (wmin a b) b.
Proof. destruct a as [a|], b as [b|]; cbn [wmin wle]; auto; lia. Qed.

Section Attain.
  Variable f : nat -> nat -> wt.
  Hypothesis C : closed f.
  Hypothesis Co : coherent f.
  Hypothesis Ti : tight f.
  Hypothesis Sc : scoh f.
  Variables (i j : nat) (k : Z).
  Hypothesis K : wle (Some k) (f i j).

  Definition f1 := upd_f f j i (- k).
  Definition f3 := upd_f f1 (bar i) (bar j) (- k).

  (* an odd unary entry of f3 can only come from the path through one new edge *)
  Lemma odd_entry a x : f3 a (bar a) = Some x -> Z.odd x = true ->
    exists qv rv, f a j = Some qv /\ f i (bar a) = Some rv /\ x = qv + rv - k.
  Proof.
    intros E O.
    pose proof (Sc i j) as S3.
    assert (EV : forall b y, f b (bar b) = Some y -> Z.odd y = false).
    { intros b y Eb. destruct (Ti b y Eb) as [h ->]. rewrite Z.odd_mul. reflexivity. }
    assert (EV' : forall b y, f (bar b) b = Some y -> Z.odd y = false).
    { intros b y Eb. apply (EV (bar b)). rewrite bar_invol. auto. }
    (* the candidates *)
    pose proof (Co a (bar i)) as C1. rewrite bar_invol in C1.       (* f a (bar i) = f i (bar a) *)
    pose proof (Co (bar j) (bar a)) as C2. rewrite !bar_invol in C2. (* f (bar j) (bar a) = f a j *)
    unfold f3, upd_f in E. fold (upd_f f j i (- k)) in E.
    assert (LO : wle (f3 a (bar a)) (wadd (wadd (f a j) (Some (- k))) (f i (bar a)))).
    { unfold f3, upd_f at 1. eapply wle_trans; [apply wmin_le_l|]. unfold f1, upd_f. apply wmin_le_r. }
    unfold f3, upd_f at 1 in LO. fold f1 in E, LO. rewrite E in LO.
    apply wmin_cases in E. destruct E as [E|E].
    - (* through f1 a (bar a) *)
      unfold f1, upd_f in E. apply wmin_cases in E. destruct E as [E|E].
      + rewrite (EV _ _ E) in O. discriminate.
      + destruct (f a j) as [qv|], (f i (bar a)) as [rv|]; cbn [wadd] in E; inversion E.
        exists qv, rv. repeat split; auto. lia.
    - (* through both new edges *)
      unfold f1, upd_f in E. rewrite C1, C2 in E.
      apply Z.odd_spec in O. destruct O as [h Hx].
      assert (S3' : forall ui uj, f i (bar i) = Some ui -> f (bar j) j = Some uj -> 2 * k <= ui + uj).
      { intros ui uj Ui Uj. rewrite Ui, Uj in S3. cbn [wadd whalf] in S3.
        destruct (f i j) as [kij|]; cbn [wle] in *; [|tauto].
        destruct (Ti i ui Ui) as [a1 ->]. pose proof (Ti (bar j) uj) as T2. rewrite bar_invol in T2.
        destruct (T2 Uj) as [b1 ->]. replace (2 * a1 + 2 * b1) with ((a1 + b1) * 2) in S3 by lia.
        rewrite Z.div_mul in S3 by lia. lia. }
      destruct (f a j) as [qv|] eqn:Eq; destruct (f i (bar a)) as [rv|] eqn:Er;
        destruct (f i (bar i)) as [ui|] eqn:Ui; destruct (f (bar j) j) as [uj|] eqn:Uj;
        cbn [wadd wmin wle] in E, LO; try discriminate;
        try (destruct (Ti i ui Ui) as [a1 Ea1]);
        try (pose proof (Ti (bar j) uj) as T2; rewrite bar_invol in T2; destruct (T2 Uj) as [b1 Eb1]);
        try (pose proof (S3' _ _ eq_refl eq_refl) as S4);
        inversion E as [E'];
        try (exists qv, rv; repeat split; auto; lia); exfalso; lia.
  Qed.

  (* hence the tightened unary bounds of f3 stay feasible *)
  Hypothesis D3 : forall a, wle (Some 0) (wadd (f3 a (bar a)) (f3 (bar a) a)).

  Lemma f3_feasible : feasible f3.
  Proof.
    intros a. unfold uhalf. rewrite bar_invol.
    pose proof (D3 a) as D.
    destruct (f3 a (bar a)) as [x|] eqn:Ex; [|exact I].
    destruct (f3 (bar a) a) as [x'|] eqn:Ex'; [|exact I]. cbn [wadd wle] in *.
    destruct (Z.odd x) eqn:Ox; [|
      apply Bool.negb_true_iff in Ox; rewrite Z.negb_odd in Ox; apply Z.even_spec in Ox; destruct Ox as [h ->];
      replace (2 * h) with (h * 2) in * by lia; rewrite Z.div_mul by lia;
      assert (- h <= x' / 2) by (apply Z.div_le_lower_bound; lia); lia].
    destruct (Z.odd x') eqn:Ox'; [|
      apply Bool.negb_true_iff in Ox'; rewrite Z.negb_odd in Ox'; apply Z.even_spec in Ox'; destruct Ox' as [h ->];
      replace (2 * h) with (h * 2) in * by lia; rewrite Z.div_mul by lia;
      assert (- h <= x / 2) by (apply Z.div_le_lower_bound; lia); lia].
    (* both odd: the sum cannot be 0 *)
    destruct (odd_entry a x Ex Ox) as [qv [rv [Eq [Er Hx]]]].
    pose proof (odd_entry (bar a) x') as OE. rewrite bar_invol in OE.
    destruct (OE Ex' Ox') as [qv' [rv' [Eq' [Er' Hx']]]].
    (* triangle inequalities *)
    pose proof (C i j a) as T1. rewrite Er', Eq in T1.
    pose proof (C i j (bar a)) as T2. rewrite Er, Eq' in T2.
    pose proof (C i (bar i) a) as T3. rewrite Er' in T3. rewrite (Co a (bar i)), bar_invol, Er in T3.
    pose proof (C (bar j) j a) as T4. rewrite Eq in T4. rewrite (Co (bar j) a), bar_invol, Eq' in T4.
    pose proof (Sc i j) as S3.
    destruct (f i j) as [kij|]; cbn [wadd wle] in *; [|tauto].
    destruct (f i (bar i)) as [ui|] eqn:Ui; cbn [wle] in T3; [|tauto].
    destruct (f (bar j) j) as [uj|] eqn:Uj; cbn [wle] in T4; [|tauto].
    destruct (Ti i ui Ui) as [a1 ->]. pose proof (Ti (bar j) uj) as Tj. rewrite bar_invol in Tj.
    destruct (Tj Uj) as [b1 ->]. cbn [wadd whalf wle] in S3.
    replace (2 * a1 + 2 * b1) with ((a1 + b1) * 2) in S3 by lia. rewrite Z.div_mul in S3 by lia.
    apply Z.odd_spec in Ox, Ox'. destruct Ox as [h Hh], Ox' as [h' Hh'].
    assert (x + x' >= 1 \/ x + x' = 0) by lia. destruct H as [H|H].
    - subst x x'.
      assert (HD : forall z, (2 * z + 1) / 2 = z).
      { intros z. replace (2 * z + 1) with (1 + z * 2) by lia. rewrite Z.div_add by lia. reflexivity. }
      rewrite !HD. lia.
    - exfalso. lia.
  Qed.
End Attain.

Lemma upd_f_ext f g a b w : (forall x y, f x y = g x y) -> forall x y, upd_f f a b w x y = upd_f g a b w x y.
Proof. intros H x y. unfold upd_f. rewrite !H. reflexivity. Qed.

(* for every bound k below an entry there is an integer point reaching k *)
Theorem oct_entry_ge n m i j k : Nat.even n = true -> owf n m -> (i < n)%nat -> (j < n)%nat ->
  wle (Some k) (mget m i j) ->
  exists s, gfun (mget m) (oval s) /\ oval s j - oval s i >= k.
Proof.
  intros En W Hi Hj K. destruct W as [Wm [Co [Ti Sc]]]. pose proof Wm as [S [D C]].
  set (f := mget m) in *.
  assert (Hbi : (bar i < n)%nat) by (apply bar_lt; auto).
  assert (Hbj : (bar j < n)%nat) by (apply bar_lt; auto).
  (* first edge *)
  destruct (add_edge_m_spec_g n m j i (- k) Wm Hj Hi) as [W1 G1].
  assert (E1 : add_edge_m n m (j, i, - k) = ZM (tab n (upd_f f j i (- k)))).
  { unfold add_edge_m. fold f. replace (wleb (Some 0) (wadd (Some (- k)) (f i j))) with true; auto.
    symmetry. apply wleb_spec. destruct (f i j); cbn [wadd wle] in *; auto. lia. }
  rewrite E1 in W1, G1. set (m1 := tab n (upd_f f j i (- k))) in *.
  assert (EQ1 : forall x y, mget m1 x y = f1 f i j k x y).
  { intros x y. unfold m1. rewrite tab_ext; auto. apply upd_support; auto. }
  (* second edge *)
  cbn [zwf] in W1.
  destruct (add_edge_m_spec_g n m1 (bar i) (bar j) (- k) W1 Hbi Hbj) as [W3 G3].
  assert (E3 : add_edge_m n m1 (bar i, bar j, - k) = ZM (tab n (upd_f (mget m1) (bar i) (bar j) (- k)))).
  { unfold add_edge_m. replace (wleb (Some 0) (wadd (Some (- k)) (mget m1 (bar j) (bar i)))) with true; auto.
    symmetry. apply wleb_spec. rewrite EQ1. unfold f1, upd_f.
    rewrite <- (Co i j). pose proof (Sc i j) as S3. fold f in S3.
    destruct (f i j) as [kij|], (f (bar j) j) as [uj|], (f i (bar i)) as [ui|]; cbn [wadd wmin whalf wle] in *; try lia; try tauto.
    pose proof (Z.mul_div_le (ui + uj) 2 ltac:(lia)). lia. }
  rewrite E3 in W3, G3. set (m3 := tab n (upd_f (mget m1) (bar i) (bar j) (- k))) in *.
  cbn [zwf] in W3. cbn [ggam] in G1, G3.
  assert (EQ3 : forall x y, mget m3 x y = f3 f i j k x y).
  { intros x y. unfold m3. rewrite tab_ext by (apply upd_support; apply W1).
    unfold f3. apply upd_f_ext. exact EQ1. }
  (* coherence by symmetry of the solutions *)
  assert (Co3 : coherent (mget m3)).
  { apply (coherent_of_flip n m3 En W3). intros g G. apply G3 in G. destruct G as [G e2].
    apply G1 in G. destruct G as [G e1]. apply G3. split; [apply G1; split|].
    - apply coherent_flip; auto.
    - unfold flip. lia.
    - unfold flip. rewrite !bar_invol. lia. }
  (* feasibility by the parity argument *)
  assert (Fe3 : feasible (mget m3)).
  { assert (D3 : forall a, wle (Some 0) (wadd (f3 f i j k a (bar a)) (f3 f i j k (bar a) a))).
    { intros a. rewrite <- !EQ3. destruct W3 as [S3 [D3 C3]]. pose proof (C3 a a (bar a)) as T.
      destruct (Nat.lt_ge_cases a n) as [Ha|Ha].
      - rewrite D3 in T by auto. exact T.
      - rewrite (S3 a (bar a)) by auto. exact I. }
    pose proof (f3_feasible f C Co Ti Sc i j k K D3) as F. intros a. specialize (F a).
    unfold uhalf in *. rewrite !EQ3. exact F. }
  destruct (oct_inhabited n m3 En W3 Co3 Fe3) as [s G]. exists s.
  apply G3 in G. destruct G as [G e2]. apply G1 in G. destruct G as [G e1]. split; auto. lia.
Qed.

(* entries are attained / unbounded *)
Corollary oct_entry_attained n m i j k : Nat.even n = true -> owf n m -> (i < n)%nat -> (j < n)%nat ->
  mget m i j = Some k -> exists s, gfun (mget m) (oval s) /\ oval s j - oval s i = k.
Proof.
  intros En W Hi Hj E. destruct (oct_entry_ge n m i j k En W Hi Hj) as [s [G H]].
  { rewrite E. cbn [wle]. lia. }
  exists s. split; auto. specialize (G _ _ _ E). lia.
Qed.

Lemma oct_entry_le n a c : Nat.even n = true -> owf n a -> support n (mget c) ->
  (forall s, gfun (mget a) (oval s) -> gfun (mget c) (oval s)) ->
  forall i j, wle (mget a i j) (mget c i j).
Proof.
  intros En W S H i j. destruct (mget c i j) as [k|] eqn:E; [|destruct (mget a i j); exact I].
  assert (Hi : (i < n)%nat). { destruct (Nat.lt_ge_cases i n); auto. rewrite S in E by lia. discriminate. }
  assert (Hj : (j < n)%nat). { destruct (Nat.lt_ge_cases j n); auto. rewrite S in E by lia. discriminate. }
  destruct (mget a i j) as [ka|] eqn:A; cbn [wle].
  - destruct (oct_entry_attained n a i j ka En W Hi Hj A) as [s [G X]].
    specialize (H s G _ _ _ E). lia.
  - destruct (oct_entry_ge n a i j (k + 1) En W Hi Hj) as [s [G X]]; [rewrite A; exact I|].
    specialize (H s G _ _ _ E). lia.
Qed.

(* ------------------------------------------------------------------ the operations keep the invariant and are exact *)
Lemma o_top_owf n : Nat.even n = true -> ozwf n (o_top n).
Proof.
  intros En. unfold o_top. pose proof (z_top_wf n) as W. cbn [z_top zwf ozwf] in *.
  set (m := tab n (fun i j => if Nat.eqb i j then Some 0 else None)) in *.
  assert (E : forall i j, mget m i j = if ((i <? n) && (j <? n))%nat then (if Nat.eqb i j then Some 0 else None) else None).
  { intros. unfold m. apply mget_tab. }
  assert (Off : forall i j, i <> j -> mget m i j = None).
  { intros i j N. rewrite E. destruct ((i <? n) && (j <? n))%nat; auto.
    destruct (Nat.eqb_spec i j); congruence. }
  split; auto. split; [|split].
  - intros i j. rewrite !E.
    assert (X : ((bar j <? n) && (bar i <? n))%nat = ((i <? n) && (j <? n))%nat).
    { pose proof (bar_lt n i En). pose proof (bar_lt n j En).
      destruct (Nat.ltb_spec i n), (Nat.ltb_spec j n), (Nat.ltb_spec (bar i) n), (Nat.ltb_spec (bar j) n);
        simpl; auto; lia. }
    rewrite X. destruct ((i <? n) && (j <? n))%nat; auto.
    destruct (Nat.eqb_spec i j), (Nat.eqb_spec (bar j) (bar i)); auto.
    + subst. congruence.
    + apply bar_inj in e. congruence.
  - intros i k H. rewrite Off in H; [discriminate|]. intros X. symmetry in X. apply (bar_neq i X).
  - intros i j. rewrite (Off i (bar i)); [|intros X; symmetry in X; apply (bar_neq i X)].
    cbn [wadd whalf]. destruct (mget m i j); exact I.
Qed.

Definition mirror_closed (es : list edge) : Prop :=
  forall g, Forall (gedge_holds g) es -> Forall (gedge_holds (flip g)) es.

Lemma oct_leq_edges_mirror ts k es : ts <> [] -> oct_leq_edges ts k = Some es -> mirror_closed es.
Proof.
  unfold oct_leq_edges. destruct ts as [|[c x] [|[d y] [|]]]; try discriminate; try congruence; intros _.
  - destruct (unit_coef c); [|discriminate]. intros H. inversion H; subst. intros g F.
    inversion F as [|? ? A B]; subst. repeat constructor. unfold gedge_holds, flip in *.
    rewrite bar_invol. lia.
  - destruct (unit_coef c && unit_coef d); [|discriminate]. intros H. inversion H; subst. intros g F.
    inversion F as [|? ? A B]; subst. inversion B as [|? ? A' B']; subst.
    repeat constructor; unfold gedge_holds, flip in *; rewrite !bar_invol; lia.
Qed.

Lemma oct_edges_mirror c es : le_terms (lc_exp c) <> [] -> oct_edges c = Some es -> mirror_closed es.
Proof.
  intros NE. unfold oct_edges. destruct (lc_kind c).
  - destruct (oct_leq_edges (le_terms (lc_exp c)) (le_cst (lc_exp c))) as [e1|] eqn:E1; [|discriminate].
    destruct (oct_leq_edges (neg_terms (le_terms (lc_exp c))) (- le_cst (lc_exp c))) as [e2|] eqn:E2; [|discriminate].
    intros H. inversion H; subst. intros g F. apply Forall_app in F. destruct F as [F1 F2]. apply Forall_app. split.
    + apply (oct_leq_edges_mirror _ _ _ NE E1); auto.
    + refine (oct_leq_edges_mirror _ _ _ _ E2 g F2). unfold neg_terms. destruct (le_terms (lc_exp c)); simpl; congruence.
  - discriminate.
  - intros H. apply (oct_leq_edges_mirror _ _ _ NE H).
  - intros H. apply (oct_leq_edges_mirror _ _ _ NE H).
Qed.


Lemma gedge_oedge s es : Forall (gedge_holds (oval s)) es <-> Forall (oedge_holds s) es.
Proof. split; apply Forall_impl; intros [[a b] w]; auto. Qed.

(* closing after adding mirror-closed edges: invariant and exact meaning *)
Lemma close_after_edges n m es : Nat.even n = true -> owf n m -> Forall (edge_in n) es ->
  mirror_closed es ->
  ozwf n (o_close n (add_edges n (ZM m) es)) /\
  forall s, ogamma (o_close n (add_edges n (ZM m) es)) s <->
            (gfun (mget m) (oval s) /\ Forall (oedge_holds s) es).
Proof.
  intros En W F MC. destruct W as [Wm [Co _]].
  destruct (add_edges_spec_g n es (ZM m) Wm F) as [W2 G2].
  assert (G2' : forall g, ggam g (add_edges n (ZM m) es) <-> (gfun (mget m) g /\ Forall (gedge_holds g) es)).
  { intros g. rewrite G2. cbn [ggam]. split; intros [A B]; split; auto;
      revert B; apply Forall_impl; intros [[a b] w]; auto. }
  destruct (add_edges n (ZM m) es) as [|m2] eqn:E2.
  - split; [exact I|]. intros s. cbn [o_close]. unfold ogamma. rewrite <- gedge_oedge, <- G2'. tauto.
  - cbn [zwf] in W2. assert (Co2 : coherent (mget m2)).
    { apply (coherent_of_flip n m2 En W2). intros g G. change (ggam (flip g) (ZM m2)).
      apply (G2' (flip g)). change (ggam g (ZM m2)) in G. apply (G2' g) in G.
      destruct G as [A B]. split; [apply coherent_flip; auto|apply MC; auto]. }
    split; [apply o_close_owf; auto|]. intros s.
    rewrite (o_close_gamma n m2 En W2 s). rewrite <- gedge_oedge. apply (G2' (oval s)).
Qed.

Theorem o_add_spec n c z : Nat.even n = true -> o_ok n c -> ozwf n z ->
  ozwf n (o_add n c z) /\ forall s, ogamma (o_add n c z) s <-> (ogamma z s /\ sat c s).
Proof.
  intros En [NE [es [E F]]] W. unfold o_add. rewrite E. destruct z as [|m].
  - replace (add_edges n ZBot es) with ZBot.
    + split; [exact I|]. intros s. unfold ogamma. cbn. tauto.
    + clear. induction es; simpl; auto.
  - destruct (close_after_edges n m es En W F (oct_edges_mirror c es NE E)) as [W' G].
    split; auto. intros s. rewrite G. rewrite <- (oct_edges_spec c es s E). unfold ogamma. cbn [ggam]. tauto.
Qed.

Theorem o_assume_spec n cs : Nat.even n = true -> forall z,
  Forall (o_ok n) cs -> ozwf n z ->
  ozwf n (o_assume n cs z) /\
  forall s, ogamma (o_assume n cs z) s <-> (ogamma z s /\ Forall (fun c => sat c s) cs).
Proof.
  intros En. unfold o_assume. induction cs as [|c r IH]; intros z F W; simpl.
  - split; auto. intros s. split; [intros; split; auto|tauto].
  - inversion F; subst. destruct (o_add_spec n c z En H1 W) as [W1 G1].
    destruct (IH _ H2 W1) as [W2 G2]. split; auto.
    intros s. rewrite G2, G1. split.
    + intros [[A B] Cc]. split; auto.
    + intros [A B]. inversion B; subst. tauto.
Qed.

Theorem o_entails_exact n c z : Nat.even n = true -> ozwf n z -> o_ok n c ->
  (o_entails c z = true <-> forall s, ogamma z s -> sat c s).
Proof.
  intros En W [NE [es [E F]]]. split; [intros H s G; eapply o_entails_sound; eauto|].
  intros H. unfold o_entails. destruct z as [|m]; auto. rewrite E. apply forallb_forall.
  intros [[a b] w] I. apply wleb_spec. rewrite Forall_forall in F. destruct (F _ I) as [Ha Hb].
  destruct (mget m a b) as [k|] eqn:M; cbn [wle].
  - destruct (Z_le_gt_dec k w); auto. exfalso.
    destruct (oct_entry_attained n m a b k En W Ha Hb M) as [s [G X]].
    pose proof (proj1 (oct_edges_spec c es s E) (H s G)) as Y. rewrite Forall_forall in Y.
    specialize (Y _ I). simpl in Y. lia.
  - destruct (oct_entry_ge n m a b (w + 1) En W Ha Hb) as [s [G X]]; [rewrite M; cbn [wle]; trivial|].
    pose proof (proj1 (oct_edges_spec c es s E) (H s G)) as Y. rewrite Forall_forall in Y.
    specialize (Y _ I). simpl in Y. lia.
Qed.

(* ---- join *)
Theorem o_join_owf n a b : ozwf n a -> ozwf n b -> ozwf n (o_join n a b).
Proof.
  unfold o_join. destruct a as [|x], b as [|y]; cbn [z_join ozwf]; auto.
  intros [Wx [Cx [Tx Sx]]] [Wy [Cy [Ty Sy]]].
  pose proof (z_join_wf n (ZM x) (ZM y) Wx Wy) as W. cbn [z_join zwf] in W.
  set (m := tab n (fun i j => wmax (mget x i j) (mget y i j))) in *.
  assert (E : forall i j, mget m i j = wmax (mget x i j) (mget y i j)).
  { intros i j. unfold m. apply tab_ext. intros i' j' H. rewrite (proj1 Wx) by auto. reflexivity. }
  split; auto. split; [|split].
  - intros i j. rewrite !E. rewrite (Cx i j), (Cy i j). reflexivity.
  - intros i k. rewrite E. destruct (mget x i (bar i)) as [a|] eqn:Ea, (mget y i (bar i)) as [b|] eqn:Eb;
      cbn [wmax]; try discriminate. intros H. inversion H.
    destruct (Tx i a Ea) as [ha ->]. destruct (Ty i b Eb) as [hb ->].
    destruct (Z.max_spec (2 * ha) (2 * hb)) as [[_ M]|[_ M]]; rewrite M; eauto.
  - intros i j. rewrite !E. pose proof (Sx i j) as S1. pose proof (Sy i j) as S2.
    revert S1 S2.
    generalize (mget x i j) (mget y i j) (mget x i (bar i)) (mget y i (bar i)) (mget x (bar j) j) (mget y (bar j) j).
    intros a1 b1 a2 b2 a3 b3.
    destruct a1 as [a1|], b1 as [b1|], a2 as [a2|], b2 as [b2|], a3 as [a3|], b3 as [b3|];
      cbn [wmax wadd whalf wle]; try tauto; intros S1 S2.
    assert ((a2 + a3) / 2 <= (Z.max a2 b2 + Z.max a3 b3) / 2) by (apply Z.div_le_mono; lia).
    assert ((b2 + b3) / 2 <= (Z.max a2 b2 + Z.max a3 b3) / 2) by (apply Z.div_le_mono; lia).
    lia.
Qed.

Theorem o_join_least n a b c : Nat.even n = true -> ozwf n a -> ozwf n b -> zdim n c ->
  (forall s, ogamma a s -> ogamma c s) -> (forall s, ogamma b s -> ogamma c s) ->
  forall s, ogamma (o_join n a b) s -> ogamma c s.
Proof.
  intros En Wa Wb Dc Ha Hb s. unfold o_join. destruct a as [|x]; [cbn [z_join]; auto|].
  destruct b as [|y]; [cbn [z_join]; auto|]. cbn [z_join].
  - destruct c as [|z].
    + destruct (oct_inhabited n x En (proj1 Wa) (proj1 (proj2 Wa)) (owf_feasible n x Wa)) as [s0 G0].
      destruct (Ha s0 G0).
    + unfold ogamma. cbn [ggam]. intros G i j k E.
      pose proof (oct_entry_le n x z En Wa Dc Ha i j) as L1.
      pose proof (oct_entry_le n y z En Wb Dc Hb i j) as L2.
      rewrite E in L1, L2. pose proof (G i j) as G1. rewrite mget_tab in G1.
      assert (Hij : ((i <? n) && (j <? n))%nat = true).
      { destruct (Nat.ltb_spec i n), (Nat.ltb_spec j n); auto; rewrite Dc in E by lia; discriminate. }
      rewrite Hij in G1. destruct (mget x i j), (mget y i j); cbn [wmax wle] in *; try tauto.
      specialize (G1 _ eq_refl). lia.
Qed.

(* ---- meet *)
Lemma meet_fold_g n y : forall ps acc,
  (forall p, In p ps -> (fst p < n /\ snd p < n)%nat) -> zwf n acc ->
  let r := fold_left (fun acc p => match mget y (fst p) (snd p) with
                                   | Some k => add_edge n acc (fst p, snd p, k)
                                   | None => acc end) ps acc in
  zwf n r /\
  (forall g, ggam g r <-> (ggam g acc /\
     forall p k, In p ps -> mget y (fst p) (snd p) = Some k -> g (snd p) - g (fst p) <= k)).
Proof.
  induction ps as [|p ps IH]; intros acc R W; simpl.
  - split; auto. intros g. split; [intros; split; auto; intros ? ? []|tauto].
  - destruct (mget y (fst p) (snd p)) as [k|] eqn:E.
    + assert (X : zwf n (add_edge n acc (fst p, snd p, k)) /\
                  forall g, ggam g (add_edge n acc (fst p, snd p, k)) <-> (ggam g acc /\ g (snd p) - g (fst p) <= k)).
      { destruct acc as [|ma]; cbn [add_edge]; [split; [exact I|]; intros; cbn; tauto|].
        apply add_edge_m_spec_g; auto; apply R; left; auto. }
      destruct X as [W1 G1].
      destruct (IH _ (fun q I => R q (or_intror I)) W1) as [W2 G2]. split; auto.
      intros g. rewrite G2, G1. split.
      * intros [[A B] Cc]. split; auto. intros q k' [<-|I] F; [|eauto]. rewrite E in F. inversion F; subst; auto.
      * intros [A B]. split; [split; auto|]. intros q k' I F. apply (B q k'); auto.
    + destruct (IH _ (fun q I => R q (or_intror I)) W) as [W2 G2]. split; auto.
      intros g. rewrite G2. split.
      * intros [A B]. split; auto. intros q k' [<-|I] F; [congruence|eauto].
      * intros [A B]. split; auto.
Qed.

Lemma z_meet_spec_g n x y : mwf n x -> mwf n y ->
  zwf n (z_meet n (ZM x) (ZM y)) /\
  forall g, ggam g (z_meet n (ZM x) (ZM y)) <-> (gfun (mget x) g /\ gfun (mget y) g).
Proof.
  intros Wx Wy. cbn [z_meet].
  destruct (meet_fold_g n y (pairs n) (ZM x)) as [W G]; auto.
  { intros [i j] I. apply in_pairs in I. auto. }
  split; auto. intros g. rewrite G. cbn [ggam]. split.
  - intros [A B]. split; auto. intros i j k E.
    assert (I : In (i, j) (pairs n)).
    { apply in_pairs. destruct Wy as [Sy _].
      destruct (Nat.lt_ge_cases i n), (Nat.lt_ge_cases j n); auto; rewrite Sy in E by lia; discriminate. }
    apply (B (i, j) k I E).
  - intros [A B]. split; auto.
Qed.

Theorem o_meet_spec n a b : Nat.even n = true -> ozwf n a -> ozwf n b ->
  ozwf n (o_meet n a b) /\ forall s, ogamma (o_meet n a b) s <-> (ogamma a s /\ ogamma b s).
Proof.
  intros En Wa Wb. unfold o_meet. destruct a as [|x]; [|destruct b as [|y]].
  - cbn. split; [exact I|]. intros s. unfold ogamma. cbn. tauto.
  - cbn. split; [exact I|]. intros s. unfold ogamma. cbn. tauto.
  - destruct Wa as [Wx [Cx _]], Wb as [Wy [Cy _]].
    destruct (z_meet_spec_g n x y Wx Wy) as [W G].
    destruct (z_meet n (ZM x) (ZM y)) as [|m2] eqn:E2.
    + split; [exact I|]. intros s. cbn [o_close]. unfold ogamma. rewrite (G (oval s)). cbn [ggam]. tauto.
    + cbn [zwf] in W. assert (Co2 : coherent (mget m2)).
      { apply (coherent_of_flip n m2 En W). intros g Gg. change (ggam (flip g) (ZM m2)). apply (G (flip g)).
        change (ggam g (ZM m2)) in Gg. apply (G g) in Gg. destruct Gg. split; apply coherent_flip; auto. }
      split; [apply o_close_owf; auto|]. intros s. rewrite (o_close_gamma n m2 En W s).
      unfold ogamma. cbn [ggam]. apply (G (oval s)).
Qed.

(* ---- forget *)
Lemma forget_m_entries n m p : support n (mget m) ->
  forall i j, mget (forget_m n m p) i j = forget_f (mget m) p i j.
Proof.
  intros S i j. unfold forget_m. change (mget (tab n (forget_f (mget m) p)) i j = forget_f (mget m) p i j).
  apply tab_ext. intros i' j' H. unfold forget_f. rewrite (S i' j') by auto.
  destruct (Nat.eqb i' j'); auto. destruct (Nat.eqb i' p || Nat.eqb j' p); auto.
Qed.

Lemma forget_m_mwf n m p : mwf n m -> mwf n (forget_m n m p).
Proof.
  intros [S [D C]]. split; [apply tab_support|]. split.
  - intros i Hi. rewrite forget_m_entries by auto. unfold forget_f. rewrite Nat.eqb_refl. auto.
  - intros i j k. rewrite !forget_m_entries by auto. apply (forget_closed (mget m) p C).
Qed.

Theorem o_forget1_owf n z v : ozwf n z -> ozwf n (o_forget1 n z v).
Proof.
  destruct z as [|m]; cbn [o_forget1 ozwf]; auto. intros [Wm [Co [Ti Sc]]].
  pose proof (forget_m_mwf n m (pnode v) Wm) as W1.
  pose proof (forget_m_mwf n _ (nnode v) W1) as W2.
  set (m2 := forget_m n (forget_m n m (pnode v)) (nnode v)) in *.
  assert (E : forall i j, mget m2 i j = forget_f (forget_f (mget m) (pnode v)) (nnode v) i j).
  { intros i j. unfold m2. rewrite forget_m_entries by apply W1. unfold forget_f at 1 3.
    rewrite !forget_m_entries by apply Wm. reflexivity. }
  assert (Bx : forall i, (Nat.eqb (bar i) (pnode v) || Nat.eqb (bar i) (nnode v)) =
                         (Nat.eqb i (pnode v) || Nat.eqb i (nnode v))).
  { intros i. destruct (Nat.eqb_spec i (pnode v)) as [->|N1].
    - rewrite bar_pnode, Nat.eqb_refl. rewrite orb_true_r. reflexivity.
    - destruct (Nat.eqb_spec i (nnode v)) as [->|N2].
      + rewrite bar_nnode, Nat.eqb_refl. reflexivity.
      + destruct (Nat.eqb_spec (bar i) (pnode v)) as [X|X].
        { exfalso. apply N2. rewrite <- (bar_invol i), X. apply bar_pnode. }
        destruct (Nat.eqb_spec (bar i) (nnode v)) as [Y|Y]; auto.
        exfalso. apply N1. rewrite <- (bar_invol i), Y. apply bar_nnode. }
  (* the explicit shape of the entries *)
  assert (SH : forall i j, mget m2 i j =
             if Nat.eqb i j then mget m i j
             else if (Nat.eqb i (pnode v) || Nat.eqb i (nnode v)) || (Nat.eqb j (pnode v) || Nat.eqb j (nnode v))
                  then None else mget m i j).
  { intros i j. rewrite E. unfold forget_f. destruct (Nat.eqb i j); auto.
    destruct (Nat.eqb i (pnode v)), (Nat.eqb i (nnode v)), (Nat.eqb j (pnode v)), (Nat.eqb j (nnode v)); reflexivity. }
  split; auto. split; [|split].
  - intros i j. rewrite !SH. rewrite !Bx. rewrite (Co i j).
    destruct (Nat.eqb_spec i j) as [->|N].
    + rewrite Nat.eqb_refl. reflexivity.
    + destruct (Nat.eqb_spec (bar j) (bar i)) as [X|X]; [apply bar_inj in X; congruence|].
      rewrite (orb_comm (Nat.eqb j (pnode v) || Nat.eqb j (nnode v))). reflexivity.
  - intros i k. rewrite SH. pose proof (bar_neq i) as N. destruct (Nat.eqb_spec i (bar i)); [congruence|].
    destruct (_ || _); [discriminate|]. apply Ti.
  - intros i j. rewrite !SH. rewrite !Bx. pose proof (bar_neq i) as Ni. pose proof (bar_neq j) as Nj.
    destruct (Nat.eqb_spec i (bar i)); [congruence|]. destruct (Nat.eqb_spec (bar j) j); [congruence|].
    pose proof (Sc i j) as S0.
    destruct (Nat.eqb i (pnode v) || Nat.eqb i (nnode v)) eqn:Xi;
      destruct (Nat.eqb j (pnode v) || Nat.eqb j (nnode v)) eqn:Xj; cbn [orb wadd whalf];
      destruct (Nat.eqb_spec i j) as [->|N]; rewrite ?Xi, ?Xj in *; cbn [orb wadd whalf]; auto;
      try (destruct (mget m j j); exact I); try exact I; try congruence.
    + destruct (mget m i (bar i)); exact I.
Qed.

Theorem o_forget1_exact n z v s' : Nat.even n = true -> ozwf n z -> (nnode v < n)%nat ->
  (ogamma (o_forget1 n z v) s' <-> exists s, ogamma z s /\ forall k, k <> v -> s' k = s k).
Proof.
  intros En W Hv. split.
  - destruct z as [|m]; [intros []|]. unfold ogamma. cbn [o_forget1 ggam]. intros G.
    pose proof W as [Wm [Co [Ti Sc]]]. pose proof Wm as [S [D C]].
    set (L := filter (fun y => negb (N.eqb y v)) (map N.of_nat (seq 0 n))).
    assert (NI : ~ In v L). { unfold L. rewrite filter_In, N.eqb_refl. intros [_ X]; discriminate. }
    assert (SL : sat_onv (mget m) L s').
    { intros i j k Ii Ij E. unfold L in Ii, Ij. rewrite filter_In in Ii, Ij.
      destruct Ii as [_ Ni], Ij as [_ Nj]. apply negb_true_iff in Ni, Nj. apply N.eqb_neq in Ni, Nj.
      apply (G i j k). rewrite forget_m_entries by (apply (forget_m_mwf n m (pnode v) Wm)).
      unfold forget_f at 1. rewrite !forget_m_entries by auto. unfold forget_f.
      assert (X : forall a, varof a <> v -> Nat.eqb a (pnode v) = false /\ Nat.eqb a (nnode v) = false).
      { intros a Na. split; apply Nat.eqb_neq; intros ->; [rewrite varof_pnode in Na|rewrite varof_nnode in Na]; congruence. }
      destruct (X i Ni) as [-> ->], (X j Nj) as [-> ->]. cbn [orb]. destruct (Nat.eqb i j); auto. }
    pose proof (owf_feasible n m W (pnode v)) as Fe. rewrite bar_pnode in Fe.
    destruct (oct_extend (mget m) n En C Co S L s' v NI SL Fe
                (mwf_diag_nonneg n m Wm _) (mwf_diag_nonneg n m Wm _)) as [X HX].
    exists (upd s' v X). split.
    + intros i j k E.
      destruct (Nat.lt_ge_cases i n), (Nat.lt_ge_cases j n); try (rewrite S in E by lia; discriminate).
      assert (IN : forall a, (a < n)%nat -> In (varof a) (v :: L)).
      { intros a Ha. destruct (N.eq_dec (varof a) v) as [->|Na]; [left; auto|right].
        unfold L. rewrite filter_In. split; [apply var_range_in; auto|].
        apply negb_true_iff. apply N.eqb_neq. auto. }
      apply (HX i j k); auto.
    + intros k Hk. symmetry. apply upd_other. auto.
  - intros [s [G E]]. apply (o_forget1_sound n z v s s' G E).
Qed.

Theorem o_forget_owf n vs : forall z, ozwf n z -> ozwf n (o_forget n vs z).
Proof.
  unfold o_forget. induction vs as [|v r IH]; intros z W; simpl; auto.
  apply IH. apply o_forget1_owf; auto.
Qed.

Theorem o_forget_exact n vs : Nat.even n = true -> forall z s', ozwf n z ->
  Forall (fun v => (nnode v < n)%nat) vs ->
  (ogamma (o_forget n vs z) s' <-> exists s, ogamma z s /\ store_eq_off vs s s').
Proof.
  intros En. unfold o_forget. induction vs as [|v r IH]; intros z s' W F; simpl.
  - split.
    + intros G. exists s'. split; auto. intros k _. auto.
    + intros [s [G E]]. apply (ogamma_ext z s s'); auto. intros k. symmetry. apply E. auto.
  - inversion F; subst. rewrite (IH _ _ (o_forget1_owf n z v W) H2). split.
    + intros [s1 [G1 E1]]. apply (o_forget1_exact n z v s1 En W H1) in G1. destruct G1 as [s [G E]].
      exists s. split; auto. intros k Hk. simpl in Hk. rewrite E1 by tauto. apply E. intros ->. tauto.
    + intros [s [G E]]. exists (upd s v (s' v)). split.
      * apply (o_forget1_exact n z v _ En W H1). exists s. split; auto.
        intros k Hk. apply upd_other. auto.
      * intros k Hk. unfold upd. destruct (N.eqb_spec k v); [subst; auto|]. apply E. simpl.
        intros [X|X]; [congruence|tauto].
Qed.

(* ---- assignments *)
Definition odelta (x : var) (k : Z) (i : nat) : Z :=
  if Nat.eqb i (pnode x) then k else if Nat.eqb i (nnode x) then - k else 0.

Lemma odelta_bar x k i : odelta x k (bar i) = - odelta x k i.
Proof.
  unfold odelta. destruct (Nat.eqb_spec i (pnode x)) as [->|N1].
  - rewrite bar_pnode. destruct (Nat.eqb_spec (nnode x) (pnode x)) as [E|E].
    + unfold pnode, nnode in E. lia.
    + rewrite Nat.eqb_refl. reflexivity.
  - destruct (Nat.eqb_spec i (nnode x)) as [->|N2].
    + rewrite bar_nnode, Nat.eqb_refl. lia.
    + destruct (Nat.eqb_spec (bar i) (pnode x)) as [X|X].
      { exfalso. apply N2. rewrite <- (bar_invol i), X. apply bar_pnode. }
      destruct (Nat.eqb_spec (bar i) (nnode x)) as [Y|Y]; [|reflexivity].
      exfalso. apply N1. rewrite <- (bar_invol i), Y. apply bar_nnode.
Qed.

Lemma oshift_entries n m x k : support n (mget m) ->
  forall i j, mget (oshift_m n m x k) i j = wadd (mget m i j) (Some (odelta x k j - odelta x k i)).
Proof.
  intros S i j. unfold oshift_m.
  change (mget (tab n (fun i j => wadd (mget m i j) (Some (odelta x k j - odelta x k i)))) i j =
          wadd (mget m i j) (Some (odelta x k j - odelta x k i))).
  apply tab_ext. intros i' j' H. rewrite S by auto. reflexivity.
Qed.

Lemma oval_shift s x k q : oval (upd s x (s x + k)) q = oval s q + odelta x k q.
Proof.
  unfold odelta. destruct (Nat.eqb_spec q (pnode x)); [subst; rewrite !oval_pnode, upd_same; lia|].
  destruct (Nat.eqb_spec q (nnode x)); [subst; rewrite !oval_nnode, upd_same; lia|].
  rewrite (oval_other s (upd s x (s x + k)) x q); auto; [lia|]. intros k0 Hk. apply upd_other; auto.
Qed.

Lemma oshift_spec n m x k s' : support n (mget m) ->
  (gfun (mget (oshift_m n m x k)) (oval s') <-> gfun (mget m) (oval (upd s' x (s' x - k)))).
Proof.
  intros S.
  assert (V : forall q, oval (upd s' x (s' x - k)) q = oval s' q - odelta x k q).
  { intros q. pose proof (oval_shift s' x (- k) q) as X. replace (s' x + - k) with (s' x - k) in X by lia.
    rewrite X. unfold odelta. destruct (Nat.eqb q (pnode x)); [lia|]. destruct (Nat.eqb q (nnode x)); lia. }
  split; intros G i j w E.
  - pose proof (G i j (w + (odelta x k j - odelta x k i))) as G1. rewrite oshift_entries in G1 by auto.
    rewrite E in G1. cbn [wadd] in G1. specialize (G1 eq_refl). rewrite !V. lia.
  - rewrite oshift_entries in E by auto. destruct (mget m i j) as [w0|] eqn:F; cbn [wadd] in E; [|discriminate].
    inversion E; subst. specialize (G _ _ _ F). rewrite !V in G. lia.
Qed.

Lemma oshift_owf n m x k : owf n m -> owf n (oshift_m n m x k).
Proof.
  intros [[S [D C]] [Co [Ti Sc]]].
  assert (E : forall i j, mget (oshift_m n m x k) i j = wadd (mget m i j) (Some (odelta x k j - odelta x k i)))
    by (apply oshift_entries; auto).
  split; [split; [apply tab_support|split]|split; [|split]].
  - intros i Hi. rewrite E, D by auto. cbn [wadd]. f_equal. lia.
  - intros i j l. rewrite !E. pose proof (C i j l) as T. revert T.
    generalize (mget m i j) (mget m i l) (mget m l j). wt_crush2.
  - intros i j. rewrite !E. rewrite (Co i j), !odelta_bar. f_equal. f_equal. lia.
  - intros i w. rewrite E. destruct (mget m i (bar i)) as [a|] eqn:Ea; cbn [wadd]; [|discriminate].
    intros H. inversion H. destruct (Ti i a Ea) as [h ->]. rewrite odelta_bar.
    exists (h - odelta x k i). lia.
  - intros i j. rewrite !E. rewrite !odelta_bar. pose proof (Sc i j) as S0. revert S0.
    generalize (mget m i j) (mget m i (bar i)) (mget m (bar j) j). intros a b c.
    destruct a as [a|], b as [b|], c as [c|]; cbn [wadd whalf wle]; try tauto. intros S0.
    replace (b + (- odelta x k i - odelta x k i) + (c + (odelta x k j - - odelta x k j)))
      with (b + c + (odelta x k j - odelta x k i) * 2) by lia.
    rewrite Z.div_add by lia. lia.
Qed.

Lemma pnode_lt n x : (nnode x < n)%nat -> (pnode x < n)%nat.
Proof. unfold pnode, nnode. lia. Qed.

Lemma o_ok_unary n x k : (nnode x < n)%nat -> o_ok n (mkLC EQ (mkLE [(1, x)] k)).
Proof.
  intros H. split; [simpl; congruence|]. eexists. split; [reflexivity|].
  pose proof (pnode_lt n x H). repeat constructor; cbn [lit Z.eqb]; rewrite ?bar_pnode, ?bar_nnode; auto.
Qed.

Lemma o_ok_binary n x c y k : (nnode x < n)%nat -> (nnode y < n)%nat -> unit_coef c = true ->
  o_ok n (mkLC EQ (mkLE [(1, x); (- c, y)] k)).
Proof.
  intros Hx Hy U. split; [simpl; congruence|].
  pose proof (pnode_lt n x Hx). pose proof (pnode_lt n y Hy).
  assert (U' : unit_coef (- c) = true).
  { unfold unit_coef in *. destruct (Z.eqb_spec c 1); [subst; reflexivity|].
    destruct (Z.eqb_spec c (-1)); [subst; reflexivity|discriminate]. }
  assert (U'' : unit_coef (- - c) = true) by (rewrite Z.opp_involutive; auto).
  unfold oct_edges, oct_leq_edges, neg_terms. cbn [lc_kind lc_exp le_terms le_cst map fst snd].
  change (unit_coef 1) with true. change (unit_coef (-1)) with true. rewrite U', U''. cbn [andb].
  eexists. split; [reflexivity|].
  assert (L : forall d, (lit d y < n)%nat /\ (bar (lit d y) < n)%nat).
  { intros d. unfold lit. destruct (d =? 1); rewrite ?bar_pnode, ?bar_nnode; auto. }
  assert (Lx : forall d, (lit d x < n)%nat /\ (bar (lit d x) < n)%nat).
  { intros d. unfold lit. destruct (d =? 1); rewrite ?bar_pnode, ?bar_nnode; auto. }
  repeat constructor; cbn [app]; try apply L; try apply Lx.
Qed.

Theorem o_assign_spec n x e z : Nat.even n = true -> oa_ok n x e -> ozwf n z ->
  ozwf n (o_assign n x e z) /\
  forall s', ogamma (o_assign n x e z) s' <->
             exists s, ogamma z s /\ store_eq s' (upd s x (eval_le e s)).
Proof.
  intros En [Hx F] W. unfold o_assign, eval_le.
  pose proof (o_forget1_owf n z x W) as Wf.
  assert (FG : forall s', ogamma (o_forget1 n z x) s' <-> exists s, ogamma z s /\ forall k, k <> x -> s' k = s k)
    by (intros; apply o_forget1_exact; auto).
  destruct F as [T|[c [y [T [U [Hy XY]]]]]]; rewrite T.
  - (* x := k *)
    destruct (o_add_spec n _ _ En (o_ok_unary n x (- le_cst e) Hx) Wf) as [W' G]. split; auto.
    intros s'. rewrite G, FG. unfold sat, eval_le. cbn [lc_kind lc_exp le_terms le_cst eval_terms].
    split.
    + intros [[s [Gs E]] Eq]. exists s. split; auto. intros q. unfold upd.
      destruct (N.eqb_spec q x); [subst; lia|]. apply E. auto.
    + intros [s [Gs E]]. pose proof (E x) as Ex. rewrite upd_same in Ex. split; [|lia].
      exists s. split; auto. intros q Hq. rewrite E. apply upd_other. auto.
  - rewrite U. destruct (N.eqb_spec x y) as [<-|N].
    + (* x := x + k *)
      destruct XY as [XY|XY]; [congruence|]. subst c. cbn [Z.eqb].
      destruct z as [|m]; [split; [exact I|]; intros s'; unfold ogamma; cbn; split; [tauto|intros [s [[] _]]]|].
      split; [apply oshift_owf; auto|]. intros s'. unfold ogamma. cbn [ggam].
      rewrite (oshift_spec n m x (le_cst e) s') by apply W. cbn [eval_terms]. split.
      * intros G. exists (upd s' x (s' x - le_cst e)). split; auto. intros q. unfold upd.
        destruct (N.eqb_spec q x); subst; rewrite ?N.eqb_refl; lia.
      * intros [s [G E]]. refine (ogamma_ext (ZM m) s _ _ G). intros q. rewrite (E x), upd_same.
        unfold upd. destruct (N.eqb_spec q x); [subst; lia|]. rewrite E. symmetry. apply upd_other. auto.
    + (* x := c y + k *)
      destruct (o_add_spec n _ _ En (o_ok_binary n x c y (- le_cst e) Hx Hy U) Wf) as [W' G]. split; auto.
      intros s'. rewrite G, FG. unfold sat, eval_le. cbn [lc_kind lc_exp le_terms le_cst eval_terms].
      split.
      * intros [[s [Gs E]] Eq]. exists s. split; auto. intros q. unfold upd.
        destruct (N.eqb_spec q x); [subst; rewrite <- (E y) by congruence; lia|]. apply E. auto.
      * intros [s [Gs E]]. pose proof (E x) as Ex. rewrite upd_same in Ex.
        pose proof (E y) as Ey. rewrite upd_other in Ey by congruence. split; [|lia].
        exists s. split; auto. intros q Hq. rewrite E. apply upd_other. auto.
Qed.

(* ------------------------------------------------------------------ octagons are exact *)
Theorem oct_exact_dom n : Nat.even n = true ->
  exact_dom (oct_dom n) (ozwf n) ogamma (o_ok n) (oa_ok n) (fun v => (nnode v < n)%nat).
Proof.
  intros En. constructor; cbn [oct_dom g_top g_bot g_assume g_assign g_forget g_join g_meet].
  - apply o_top_owf; auto.
  - apply (sd_top _ _ _ (oct_sound_dom n)).
  - exact I.
  - intros s [].
  - intros cs z F W. apply o_assume_spec; auto.
  - intros x e z O W. apply o_assign_spec; auto.
  - intros vs z F W. split; [apply o_forget_owf; auto|]. intros s'. apply o_forget_exact; auto.
  - intros a b Wa Wb. split; [apply o_join_owf; auto|]. split.
    + intros s. apply o_join_sound.
    + intros c Wc. apply o_join_least; auto. destruct c; [exact I|apply Wc].
  - intros a b Wa Wb. apply o_meet_spec; auto.
Qed.

(* Full statement of the octagon part of C12: there is an invariant, established by top and
   kept by every operation of the language, under which every operation is exact, bottom
   means "no integer point" and entails means "implied over the integers". *)
Definition C12_oct_exact_statement : Prop :=
  forall n, Nat.even n = true ->
  exists wf : zone -> Prop,
    exact_dom (oct_dom n) wf ogamma (o_ok n) (oa_ok n) (fun v => (nnode v < n)%nat) /\
    (forall z, wf z -> (z_is_bot z = true <-> forall s, ~ ogamma z s)) /\
    (forall z c, wf z -> o_ok n c -> (o_entails c z = true <-> forall s, ogamma z s -> sat c s)).

Theorem oct_exact : C12_oct_exact_statement.
Proof.
  intros n En. exists (ozwf n). split; [apply oct_exact_dom; auto|]. split.
  - intros z W. apply (oct_bottom_exact n z En W).
  - intros z c W O. apply (o_entails_exact n c z En W O).
Qed.

Theorem oct_history_invariant n : Nat.even n = true -> forall h rs,
  Forall (ozwf n) rs ->
  Forall (gop_ok (o_ok n) (oa_ok n) (fun v => (nnode v < n)%nat)) h ->
  Forall (ozwf n) (grun (oct_dom n) rs h).
Proof. intros H. exact (grun_wf (oct_dom n) (ozwf n) ogamma _ _ _ (oct_exact_dom n H)). Qed.

Theorem oct_step_exact n : Nat.even n = true -> forall rs o,
  Forall (ozwf n) rs -> gop_ok (o_ok n) (oa_ok n) (fun v => (nnode v < n)%nat) o ->
  (gtarget o < length rs)%nat ->
  step_spec (oct_dom n) (ozwf n) ogamma rs o (gget (oct_dom n) (gstep (oct_dom n) rs o) (gtarget o)).
Proof. intros H. exact (gstep_exact (oct_dom n) (ozwf n) ogamma _ _ _ (oct_exact_dom n H)). Qed.

(* the first sentence of the property, literally: assume any conjunction from top *)
Theorem oct_conjunction_exact n cs : Nat.even n = true -> Forall (o_ok n) cs ->
  let z := o_assume n cs (o_top n) in
  (z_is_bot z = true <-> forall s, ~ Forall (fun c => sat c s) cs) /\
  (forall c, o_ok n c ->
     (o_entails c z = true <-> forall s, Forall (fun c => sat c s) cs -> sat c s)).
Proof.
  intros En F z. destruct (o_assume_spec n cs En (o_top n) F (o_top_owf n En)) as [W G]. fold z in W, G.
  assert (T : forall s, ogamma (o_top n) s) by (apply (sd_top _ _ _ (oct_sound_dom n))).
  split.
  - rewrite (oct_bottom_exact n z En W). split.
    + intros H s X. apply (H s). apply G. split; auto.
    + intros H s X. apply G in X. apply (H s). tauto.
  - intros c Oc. rewrite (o_entails_exact n c z En W Oc). split; intros H s X.
    + apply H. apply G. split; auto.
    + apply H. apply G in X. tauto.
Qed.

(* non-vacuity: integer tightening derives x <= 0 from x + y <= 1 and x - y <= 0, and detects
   that x + y = 1, x - y = 0 has no integer point *)
Example oct_example :
  let z := o_assume 4 [mkLC INEQ (mkLE [(1, 0%N); (1, 1%N)] (-1)); mkLC INEQ (mkLE [(1, 0%N); (-1, 1%N)] 0)] (o_top 4) in
  z_is_bot z = false /\ o_upper z 0%N = Some 0 /\
  o_entails (mkLC INEQ (mkLE [(1, 0%N)] 0)) z = true /\
  o_entails (mkLC INEQ (mkLE [(1, 0%N)] 1)) z = false /\
  z_is_bot (o_assume 4 [mkLC EQ (mkLE [(1, 0%N); (1, 1%N)] (-1)); mkLC EQ (mkLE [(1, 0%N); (-1, 1%N)] 0)] (o_top 4)) = true.
Proof. vm_compute. repeat split; reflexivity. Qed.

Theorem oct_history_sound n h rs cs :
  grel (oct_dom n) ogamma rs cs -> Forall (gop_okc (fun _ => True)) h ->
  grel (oct_dom n) ogamma (grun (oct_dom n) rs h) (fold_left cstepg h cs).
Proof. exact (grun_sound (oct_dom n) ogamma (fun _ => True) (oct_sound_dom n) h rs cs). Qed.

