(* OctSound.v — property C12 for the octagon specification (Dom/Oct.v): SOUNDNESS of every
   operation over the integers, for all dimensions, constants and histories (every derived
   bound is implied by the constraints, including the integer tightening and the
   strengthening through the unary bounds; bottom only if there is no integer point), and the
   statement of exactness [C12_oct_exact_statement] (completeness of the tight closure), of
   which the soundness half is proved here. *)
From Coq Require Import ZArith NArith List Bool Lia Arith.
From CrabV Require Import Ir.Syntax Dom.Zone Dom.ZoneSound Dom.Oct.
Import ListNotations.
Local Open Scope Z_scope.

Arguments tab : simpl never.
Arguments mget : simpl never.
Arguments pairs : simpl never.

(* ------------------------------------------------------------------ meaning *)
(* node 2v stands for +v, node 2v+1 for -v *)
Definition oval (s : store) (i : nat) : Z :=
  if Nat.even i then s (N.of_nat (Nat.div2 i)) else - s (N.of_nat (Nat.div2 i)).

Definition ggam (g : nat -> Z) (z : zone) : Prop :=
  match z with ZBot => False | ZM m => gfun (mget m) g end.
Definition ogamma (z : zone) (s : store) : Prop := ggam (oval s) z.

Lemma div2_double_nat k : Nat.div2 (2 * k) = k.
Proof. apply Nat.div2_double. Qed.
Lemma div2_succ_double_nat k : Nat.div2 (S (2 * k)) = k.
Proof. apply Nat.div2_succ_double. Qed.
Lemma even_double k : Nat.even (2 * k) = true.
Proof. rewrite Nat.even_mul. reflexivity. Qed.
Lemma even_succ_double k : Nat.even (S (2 * k)) = false.
Proof. rewrite Nat.even_succ. rewrite <- Nat.negb_even. rewrite even_double. reflexivity. Qed.

Lemma oval_pnode s v : oval s (pnode v) = s v.
Proof. unfold oval, pnode. rewrite even_double, div2_double_nat, N2Nat.id. reflexivity. Qed.
Lemma oval_nnode s v : oval s (nnode v) = - s v.
Proof. unfold oval, nnode. rewrite even_succ_double, div2_succ_double_nat, N2Nat.id. reflexivity. Qed.

Lemma nat_parity i : exists k, i = (2 * k)%nat \/ i = S (2 * k).
Proof.
  induction i as [|i [k [->| ->]]].
  - exists O. auto.
  - exists k. auto.
  - exists (S k). left. lia.
Qed.

Lemma oval_bar s i : oval s (bar i) = - oval s i.
Proof.
  destruct (nat_parity i) as [k [->| ->]]; unfold oval, bar.
  - rewrite even_double. rewrite even_succ_double, div2_succ_double_nat, div2_double_nat. reflexivity.
  - rewrite even_succ_double. cbn [pred]. rewrite even_double, div2_succ_double_nat, div2_double_nat. lia.
Qed.

Lemma bar_pnode v : bar (pnode v) = nnode v.
Proof. unfold bar, pnode, nnode. rewrite even_double. reflexivity. Qed.
Lemma bar_nnode v : bar (nnode v) = pnode v.
Proof. unfold bar, pnode, nnode. rewrite even_succ_double. reflexivity. Qed.

Lemma oval_lit s c v : unit_coef c = true -> oval s (lit c v) = c * s v.
Proof.
  unfold unit_coef, lit. destruct (Z.eqb_spec c 1); simpl.
  - intros _. subst. rewrite oval_pnode. lia.
  - destruct (Z.eqb_spec c (-1)); [|discriminate]. intros _. subst. rewrite oval_nnode. lia.
Qed.

Definition oedge_holds (s : store) (e : edge) : Prop :=
  let '(a, b, w) := e in oval s b - oval s a <= w.

(* ------------------------------------------------------------------ the language *)
Lemma oct_leq_edges_spec ts k es s :
  oct_leq_edges ts k = Some es -> (eval_terms ts s + k <= 0 <-> Forall (oedge_holds s) es).
Proof.
  unfold oct_leq_edges. destruct ts as [|[c x] [|[d y] [|]]]; try discriminate.
  - intros H. inversion H; subst. cbn [eval_terms]. split.
    + intros X. repeat constructor. simpl. lia.
    + intros X. inversion X as [|? ? A B]; subst. simpl in A. lia.
  - destruct (unit_coef c) eqn:U; [|discriminate]. intros H. inversion H; subst. cbn [eval_terms].
    pose proof (oval_lit s c x U) as L. split.
    + intros X. repeat constructor. unfold oedge_holds. rewrite oval_bar, L. lia.
    + intros X. inversion X as [|? ? A B]; subst. unfold oedge_holds in A. rewrite oval_bar, L in A. lia.
  - destruct (unit_coef c) eqn:U; [|discriminate]. destruct (unit_coef d) eqn:V; [|discriminate].
    simpl. intros H. inversion H; subst. cbn [eval_terms].
    pose proof (oval_lit s c x U) as L1. pose proof (oval_lit s d y V) as L2. split.
    + intros X. repeat constructor; unfold oedge_holds; rewrite oval_bar, L1, L2; lia.
    + intros X. inversion X as [|? ? A B]; subst. unfold oedge_holds in A. rewrite oval_bar, L1, L2 in A. lia.
Qed.

Lemma eval_neg_terms ts s : eval_terms (neg_terms ts) s = - eval_terms ts s.
Proof. unfold neg_terms. apply eval_terms_neg. Qed.

Theorem oct_edges_spec c es s :
  oct_edges c = Some es -> (sat c s <-> Forall (oedge_holds s) es).
Proof.
  unfold oct_edges, sat, eval_le. destruct (lc_kind c).
  - destruct (oct_leq_edges (le_terms (lc_exp c)) (le_cst (lc_exp c))) as [e1|] eqn:E1; [|discriminate].
    destruct (oct_leq_edges (neg_terms (le_terms (lc_exp c))) (- le_cst (lc_exp c))) as [e2|] eqn:E2; [|discriminate].
    intros H. inversion H; subst. rewrite Forall_app.
    rewrite <- (oct_leq_edges_spec _ _ _ s E1), <- (oct_leq_edges_spec _ _ _ s E2), eval_neg_terms. lia.
  - discriminate.
  - intros H. rewrite <- (oct_leq_edges_spec _ _ _ s H). lia.
  - intros H. rewrite <- (oct_leq_edges_spec _ _ _ s H). lia.
Qed.

(* ------------------------------------------------------------------ matrix steps are sound *)
Lemma add_edge_sound g n z a b w :
  ggam g z -> g b - g a <= w -> ggam g (add_edge n z (a, b, w)).
Proof.
  destruct z as [|m]; cbn [ggam add_edge]; [tauto|]. intros G H. unfold add_edge_m.
  destruct (wleb (Some 0) (wadd (Some w) (mget m b a))) eqn:E; cbn [negb ggam].
  - intros i j k. rewrite mget_tab. destruct ((i <? n) && (j <? n))%nat; [|discriminate].
    apply (upd_gfun (mget m) a b w g G H).
  - assert (X : wleb (Some 0) (wadd (Some w) (mget m b a)) = true); [|congruence].
    apply wleb_spec. pose proof (G b a) as G1.
    destruct (mget m b a) as [k|]; simpl; auto. specialize (G1 _ eq_refl). lia.
Qed.

Definition gedge_holds (g : nat -> Z) (e : edge) : Prop := let '(a, b, w) := e in g b - g a <= w.

Lemma add_edges_sound g n es : forall z,
  ggam g z -> Forall (gedge_holds g) es -> ggam g (add_edges n z es).
Proof.
  unfold add_edges. induction es as [|[[a b] w] r IH]; intros z G F; simpl; auto.
  inversion F; subst. apply IH; auto. apply add_edge_sound; auto.
Qed.

Lemma even_le_half a k : 2 * a <= k -> 2 * a <= 2 * (k / 2).
Proof. intros H. assert (a <= k / 2) by (apply Z.div_le_lower_bound; lia). lia. Qed.

(* integer tightening, the infeasibility test and the strengthening keep every integer point *)
Theorem o_close_sound n z s : ogamma z s -> ogamma (o_close n z) s.
Proof.
  unfold ogamma. destruct z as [|m]; cbn [ggam o_close]; auto. intros G.
  assert (T : gfun (mget (tighten_m n m)) (oval s)).
  { intros i j k. unfold tighten_m. rewrite mget_tab.
    destruct ((i <? n) && (j <? n))%nat; [|discriminate].
    destruct (Nat.eqb_spec j (bar i)).
    - subst j. pose proof (G i (bar i)) as G1. destruct (mget m i (bar i)) as [k0|]; [|discriminate].
      intros H. specialize (G1 _ eq_refl). rewrite oval_bar in *.
      assert (X : 2 * (- oval s i) <= 2 * (k0 / 2)) by (apply even_le_half; lia).
      assert (K : k = 2 * (k0 / 2)) by congruence. lia.
    - apply G. }
  destruct (unary_infeasible n (tighten_m n m)) eqn:U.
  - unfold unary_infeasible in U. apply existsb_exists in U. destruct U as [i [_ U]].
    apply negb_true_iff in U.
    assert (X : wleb (Some 0) (wadd (mget (tighten_m n m) i (bar i)) (mget (tighten_m n m) (bar i) i)) = true); [|congruence].
    apply wleb_spec. pose proof (T i (bar i)) as T1. pose proof (T (bar i) i) as T2.
    destruct (mget (tighten_m n m) i (bar i)), (mget (tighten_m n m) (bar i) i); cbn [wadd wle]; auto.
    specialize (T1 _ eq_refl). specialize (T2 _ eq_refl). rewrite oval_bar in *. lia.
  - cbn [ggam]. intros i j k. unfold strengthen_m. rewrite mget_tab.
    destruct ((i <? n) && (j <? n))%nat; [|discriminate].
    pose proof (T i j) as T0. pose proof (T i (bar i)) as T1. pose proof (T (bar j) j) as T2.
    destruct (mget (tighten_m n m) i j) as [k0|], (mget (tighten_m n m) i (bar i)) as [k1|],
             (mget (tighten_m n m) (bar j) j) as [k2|]; cbn [wadd whalf wmin]; intros H;
      try specialize (T0 _ eq_refl); try specialize (T1 _ eq_refl); try specialize (T2 _ eq_refl);
      rewrite ?oval_bar in *; try discriminate;
      try (assert (K : k = k0) by congruence; lia).
    + assert (X : oval s j - oval s i <= (k1 + k2) / 2) by (apply Z.div_le_lower_bound; lia).
      assert (K : k = Z.min k0 ((k1 + k2) / 2)) by congruence. lia.
    + assert (X : oval s j - oval s i <= (k1 + k2) / 2) by (apply Z.div_le_lower_bound; lia).
      assert (K : k = (k1 + k2) / 2) by congruence. lia.
Qed.

Theorem o_add_sound n c z s : ogamma z s -> sat c s -> ogamma (o_add n c z) s.
Proof.
  intros G H. unfold o_add. destruct (oct_edges c) as [es|] eqn:E; auto.
  apply o_close_sound. apply add_edges_sound; auto.
  apply (oct_edges_spec c es s E) in H. revert H. apply Forall_impl. intros [[a b] w]. auto.
Qed.

Theorem o_assume_sound n cs : forall z s,
  ogamma z s -> Forall (fun c => sat c s) cs -> ogamma (o_assume n cs z) s.
Proof.
  unfold o_assume. induction cs as [|c r IH]; intros z s G F; simpl; auto.
  inversion F; subst. apply IH; auto. apply o_add_sound; auto.
Qed.

(* entails answers yes only if every integer point satisfies the constraint *)
Theorem o_entails_sound c z s : o_entails c z = true -> ogamma z s -> sat c s.
Proof.
  unfold o_entails, ogamma. destruct z as [|m]; simpl; [tauto|].
  destruct (oct_edges c) as [es|] eqn:E; [|discriminate].
  rewrite forallb_forall. intros H G. apply (oct_edges_spec c es s E). apply Forall_forall.
  intros [[a b] w] I. specialize (H _ I). simpl in H. apply wleb_spec in H. simpl.
  pose proof (G a b) as G1. destruct (mget m a b) as [k|]; simpl in H; [|tauto].
  specialize (G1 _ eq_refl). lia.
Qed.

Lemma half_bound a k : 2 * a <= k -> a <= k / 2.
Proof. intros. apply Z.div_le_lower_bound; lia. Qed.

Theorem o_upper_sound z v s u : ogamma z s -> o_upper z v = Some u -> s v <= u.
Proof.
  unfold ogamma, o_upper. destruct z as [|m]; simpl; [tauto|]. intros G.
  pose proof (G (nnode v) (pnode v)) as G1. destruct (mget m (nnode v) (pnode v)); simpl; [|discriminate].
  intros H. inversion H; subst. specialize (G1 _ eq_refl). rewrite oval_pnode, oval_nnode in G1.
  apply half_bound. lia.
Qed.
Theorem o_lower_sound z v s l : ogamma z s -> o_lower z v = Some l -> l <= s v.
Proof.
  unfold ogamma, o_lower. destruct z as [|m]; simpl; [tauto|]. intros G.
  pose proof (G (pnode v) (nnode v)) as G1. destruct (mget m (pnode v) (nnode v)); simpl; [|discriminate].
  intros H. inversion H; subst. specialize (G1 _ eq_refl). rewrite oval_pnode, oval_nnode in G1.
  assert (- s v <= z / 2) by (apply half_bound; lia). lia.
Qed.

Theorem o_leq_sound n a b s : zdim n b -> o_leq n a b = true -> ogamma a s -> ogamma b s.
Proof.
  unfold o_leq, z_leq, ogamma. destruct a as [|x], b as [|y]; simpl; try tauto; try discriminate.
  intros Db H G i j k E. rewrite forallb_forall in H.
  assert (I : In (i, j) (pairs n)).
  { apply in_pairs. destruct (Nat.lt_ge_cases i n), (Nat.lt_ge_cases j n); auto;
      rewrite Db in E by lia; discriminate. }
  specialize (H _ I). simpl in H. apply wleb_spec in H. rewrite E in H.
  pose proof (G i j) as G1. destruct (mget x i j); simpl in H; [|tauto].
  specialize (G1 _ eq_refl). lia.
Qed.

Lemma z_join_sound g n a b : ggam g a \/ ggam g b -> ggam g (z_join n a b).
Proof.
  destruct a as [|x], b as [|y]; simpl; try tauto.
  intros H i j k. rewrite mget_tab. destruct ((i <? n) && (j <? n))%nat; [|discriminate].
  destruct H as [G|G]; pose proof (G i j) as G1;
    destruct (mget x i j), (mget y i j); simpl; try discriminate;
    intros H; inversion H; specialize (G1 _ eq_refl); lia.
Qed.

Lemma z_meet_sound g n a b : ggam g a -> ggam g b -> ggam g (z_meet n a b).
Proof.
  destruct a as [|x], b as [|y]; simpl; try tauto. intros Ga Gb.
  assert (X : forall ps acc, ggam g acc ->
            ggam g (fold_left (fun acc p => match mget y (fst p) (snd p) with
                                            | Some k => add_edge n acc (fst p, snd p, k)
                                            | None => acc end) ps acc)).
  { induction ps as [|p ps IH]; intros acc G; simpl; auto.
    apply IH. destruct (mget y (fst p) (snd p)) as [k|] eqn:E; auto.
    apply add_edge_sound; auto. }
  apply X. exact Ga.
Qed.

Theorem o_join_sound n a b s : ogamma a s \/ ogamma b s -> ogamma (o_join n a b) s.
Proof. apply z_join_sound. Qed.
Theorem o_meet_sound n a b s : ogamma a s -> ogamma b s -> ogamma (o_meet n a b) s.
Proof. intros A B. unfold o_meet. apply o_close_sound. apply z_meet_sound; auto. Qed.

(* forget *)
Lemma forget_m_sound n m p g g' :
  gfun (mget m) g -> (forall q, q <> p -> g' q = g q) -> gfun (mget (forget_m n m p)) g'.
Proof.
  intros G E i j k. unfold forget_m. rewrite mget_tab.
  destruct ((i <? n) && (j <? n))%nat; [|discriminate].
  destruct (Nat.eqb_spec i j).
  - subst. intros F. specialize (G _ _ _ F). lia.
  - destruct (Nat.eqb_spec i p), (Nat.eqb_spec j p); simpl; try discriminate.
    intros F. rewrite !E by auto. apply (G _ _ _ F).
Qed.

Lemma oval_other s s' v q : (forall k, k <> v -> s' k = s k) -> q <> pnode v -> q <> nnode v ->
  oval s' q = oval s q.
Proof.
  intros E Hp Hn. unfold oval.
  assert (X : N.of_nat (Nat.div2 q) <> v).
  { intros <-. unfold pnode, nnode in *. rewrite Nat2N.id in *.
    destruct (nat_parity q) as [k [->| ->]].
    - rewrite div2_double_nat in *. lia.
    - rewrite div2_succ_double_nat in *. lia. }
  rewrite (E _ X). reflexivity.
Qed.

Theorem o_forget1_sound n z v s s' :
  ogamma z s -> (forall k, k <> v -> s' k = s k) -> ogamma (o_forget1 n z v) s'.
Proof.
  unfold ogamma. destruct z as [|m]; simpl; auto. intros G E.
  set (g1 := fun i => if Nat.eqb i (pnode v) then oval s' i else oval s i).
  apply (forget_m_sound n _ (nnode v) g1).
  - apply (forget_m_sound n m (pnode v) (oval s)); auto.
    intros q Hq. unfold g1. destruct (Nat.eqb_spec q (pnode v)); congruence.
  - intros q Hq. unfold g1. destruct (Nat.eqb_spec q (pnode v)); auto.
    apply (oval_other s s' v); auto.
Qed.

Theorem o_forget_sound n vs : forall z s s',
  ogamma z s -> store_eq_off vs s s' -> ogamma (o_forget n vs z) s'.
Proof.
  unfold o_forget. induction vs as [|v r IH]; intros z s s' G E; simpl.
  - unfold ogamma in *. destruct z as [|m]; simpl in *; auto. intros i j k F.
    assert (V : forall q, oval s' q = oval s q).
    { intros q. unfold oval. rewrite !(E _ (fun x => x)). reflexivity. }
    rewrite !V. eauto.
  - apply (IH _ (upd s v (s' v)) s').
    + apply (o_forget1_sound n z v s); auto. intros k Hk. apply upd_other; auto.
    + intros k Hk. unfold upd. destruct (N.eqb_spec k v); [subst; auto|]. apply E. simpl.
      intros [X|X]; [congruence|tauto].
Qed.

(* assignments *)
Lemma ogamma_ext z s s' : store_eq s s' -> ogamma z s -> ogamma z s'.
Proof.
  intros E. unfold ogamma. destruct z as [|m]; simpl; auto. intros G i j k F.
  assert (V : forall q, oval s' q = oval s q). { intros q. unfold oval. rewrite !E. reflexivity. }
  rewrite !V. eauto.
Qed.

Lemma oshift_sound n m x k s :
  gfun (mget m) (oval s) -> gfun (mget (oshift_m n m x k)) (oval (upd s x (s x + k))).
Proof.
  intros G i j w. unfold oshift_m. rewrite mget_tab.
  destruct ((i <? n) && (j <? n))%nat; [|discriminate].
  destruct (mget m i j) as [w0|] eqn:F; simpl; [|discriminate]. intros H. inversion H; subst; clear H.
  specialize (G _ _ _ F).
  assert (V : forall q, oval (upd s x (s x + k)) q =
                        oval s q + (if Nat.eqb q (pnode x) then k else if Nat.eqb q (nnode x) then - k else 0)).
  { intros q. destruct (Nat.eqb_spec q (pnode x)); [subst; rewrite !oval_pnode, upd_same; lia|].
    destruct (Nat.eqb_spec q (nnode x)); [subst; rewrite !oval_nnode, upd_same; lia|].
    rewrite (oval_other s (upd s x (s x + k)) x q); auto; [lia|]. intros k0 Hk. apply upd_other; auto. }
  rewrite !V. lia.
Qed.

Theorem o_assign_sound n x e z s s' :
  ogamma z s -> store_eq s' (upd s x (eval_le e s)) -> ogamma (o_assign n x e z) s'.
Proof.
  intros G E.
  assert (FG : ogamma (o_forget1 n z x) s').
  { apply (o_forget1_sound n z x s); auto. intros k Hk. rewrite E. apply upd_other; auto. }
  pose proof (E x) as Ex. rewrite upd_same in Ex. unfold eval_le in Ex.
  unfold o_assign. destruct (le_terms e) as [|[c y] [|]] eqn:T; auto.
  - apply o_add_sound; auto. unfold sat, eval_le; cbn [lc_kind lc_exp le_terms le_cst eval_terms].
    cbn [eval_terms] in Ex. lia.
  - destruct (unit_coef c) eqn:U; auto. destruct (N.eqb_spec x y).
    + subst y. destruct (Z.eqb_spec c 1); auto. subst c.
      destruct z as [|m]; [destruct G|]. apply (ogamma_ext _ (upd s x (s x + le_cst e))).
      * intros k. rewrite E. unfold upd. destruct (N.eqb k x); auto. unfold eval_le. rewrite T.
        cbn [eval_terms]. lia.
      * apply oshift_sound. exact G.
    + apply o_add_sound; auto. unfold sat, eval_le; cbn [lc_kind lc_exp le_terms le_cst eval_terms].
      cbn [eval_terms] in Ex. rewrite (E y), upd_other by congruence. lia.
Qed.

(* ------------------------------------------------------------------ histories *)
Theorem oct_sound_dom n : sound_dom (oct_dom n) ogamma (fun _ => True).
Proof.
  constructor; simpl.
  - intros s. unfold ogamma, o_top. simpl. intros i j k. rewrite mget_tab.
    destruct ((i <? n) && (j <? n))%nat; [|discriminate].
    destruct (Nat.eqb_spec i j); [|discriminate]. intros H. inversion H. subst. lia.
  - intros cs z s _ G F. apply o_assume_sound; auto.
  - intros x e z s s' G E. eapply o_assign_sound; eauto.
  - intros vs z s s' G E. eapply o_forget_sound; eauto.
  - intros a b s. apply o_join_sound.
  - intros a b s. apply o_meet_sound.
Qed.

(* ------------------------------------------------------------------ exactness (statement) *)
Definition o_ok (n : nat) (c : lincst) : Prop :=
  exists es, oct_edges c = Some es /\ Forall (edge_in n) es.
Definition oa_ok (n : nat) (x : var) (e : linexp) : Prop :=
  (nnode x < n)%nat /\
  (le_terms e = [] \/
   exists c y, le_terms e = [(c, y)] /\ unit_coef c = true /\ (nnode y < n)%nat /\ (x <> y \/ c = 1)).

(* Full statement of the octagon part of C12: there is an invariant, established by top and
   kept by every operation of the language, under which every operation is exact, bottom
   means "no integer point" and entails means "implied over the integers". *)
Definition C12_oct_exact_statement : Prop :=
  forall n, Nat.even n = true ->
  exists wf : zone -> Prop,
    exact_dom (oct_dom n) wf ogamma (o_ok n) (oa_ok n) (fun v => (nnode v < n)%nat) /\
    (forall z, wf z -> (z_is_bot z = true <-> forall s, ~ ogamma z s)) /\
    (forall z c, wf z -> o_ok n c -> (o_entails c z = true <-> forall s, ogamma z s -> sat c s)).

(* non-vacuity: integer tightening derives x <= 0 from x + y <= 1 and x - y <= 0, and detects
   that x + y = 1, x - y = 0 has no integer point *)
Example oct_example :
  let z := o_assume 4 [mkLC INEQ (mkLE [(1, 0%N); (1, 1%N)] (-1)); mkLC INEQ (mkLE [(1, 0%N); (-1, 1%N)] 0)] (o_top 4) in
  z_is_bot z = false /\ o_upper z 0%N = Some 0 /\
  o_entails (mkLC INEQ (mkLE [(1, 0%N)] 0)) z = true /\
  o_entails (mkLC INEQ (mkLE [(1, 0%N)] 1)) z = false /\
  z_is_bot (o_assume 4 [mkLC EQ (mkLE [(1, 0%N); (1, 1%N)] (-1)); mkLC EQ (mkLE [(1, 0%N); (-1, 1%N)] 0)] (o_top 4)) = true.
Proof. vm_compute. repeat split; reflexivity. Qed.

Theorem oct_history_sound n h rs cs :
  grel (oct_dom n) ogamma rs cs -> Forall (gop_okc (fun _ => True)) h ->
  grel (oct_dom n) ogamma (grun (oct_dom n) rs h) (fold_left cstepg h cs).
Proof. exact (grun_sound (oct_dom n) ogamma (fun _ => True) (oct_sound_dom n) h rs cs). Qed.

Theorem oct_exact_partial n :
  sound_dom (oct_dom n) ogamma (fun _ => True) /\
  (forall c z s, o_entails c z = true -> ogamma z s -> sat c s).
Proof. exact (conj (oct_sound_dom n) o_entails_sound). Qed.
