(* ItvEnv.v — environments variable -> interval, as total maps with default top plus a
   bottom flag: the abstraction that property C19 establishes for separate_domain over
   patricia trees.  Observable behaviour (at, is_bottom, is_top, <=, lattice operations)
   mirrors ikos::separate_domain<variable, interval>. *)
From Coq Require Import ZArith List Bool Lia.
From CrabV Require Import Base.ZInf Scalar.Itv Ir.Syntax.
Import ListNotations.
Local Open Scope Z_scope.

Definition amap := list (var * itv).

Fixpoint get (m : amap) (k : var) : itv :=
  match m with
  | [] => itop
  | (k', v) :: r => if N.eqb k' k then v else get r k
  end.

Definition remove (m : amap) (k : var) : amap := filter (fun p => negb (N.eqb (fst p) k)) m.
(* top values are not stored (separate_domain::set removes the binding) *)
Definition put (m : amap) (k : var) (v : itv) : amap :=
  if is_top v then remove m k else (k, v) :: remove m k.
Definition keys (m : amap) : list var := map fst m.

Inductive env := EBot | EMap (m : amap).

Definition e_top : env := EMap [].
Definition e_is_bot (e : env) : bool := match e with EBot => true | _ => false end.
Definition e_is_top (e : env) : bool :=
  match e with EBot => false | EMap m => forallb (fun k => is_top (get m k)) (keys m) end.
Definition e_at (e : env) (k : var) : itv := match e with EBot => ibot | EMap m => get m k end.

(* separate_domain::set *)
Definition e_set (e : env) (k : var) (v : itv) : env :=
  match e with
  | EBot => EBot
  | EMap m => if is_bot v then EBot else EMap (put m k v)
  end.

Definition e_forget (e : env) (k : var) : env :=
  match e with EBot => EBot | EMap m => EMap (remove m k) end.

(* separate_domain::join(k, v)  (weak update) *)
Definition e_join_key (e : env) (k : var) (v : itv) : env :=
  match e with
  | EBot => EBot
  | EMap m =>
    if is_bot v then EBot
    else if is_top v then EMap (remove m k)
    else if is_top (get m k) then EMap (remove m k)
    else EMap (put m k (ijoin (get m k) v))
  end.

(* pointwise combination over the keys of both maps.  [absorbing]: a key bound on one side
   only disappears (join, widening); otherwise the one binding is kept (meet, narrowing).
   [None] = some combined value is bottom (only tested for meet-like operators). *)
Definition comb (absorbing botcheck : bool) (f : itv -> itv -> itv) (a b : amap) (k : var) : itv :=
  let x := get a k in let y := get b k in
  if is_top x then (if absorbing then itop else y)
  else if is_top y then (if absorbing then itop else x)
  else f x y.

Fixpoint build (ks : list var) (g : var -> itv) (acc : amap) : option amap :=
  match ks with
  | [] => Some acc
  | k :: r =>
    let v := g k in
    if is_bot v then None else build r g (put acc k v)
  end.

Definition merge (absorbing : bool) (f : itv -> itv -> itv) (a b : amap) : option amap :=
  build (keys a ++ keys b) (comb absorbing true f a b) [].

Definition e_join (a b : env) : env :=
  match a, b with
  | EBot, _ => b | _, EBot => a
  | EMap x, EMap y => match merge true ijoin x y with Some m => EMap m | None => EBot end
  end.
Definition e_widen (a b : env) : env :=
  match a, b with
  | EBot, _ => b | _, EBot => a
  | EMap x, EMap y => match merge true iwiden x y with Some m => EMap m | None => EBot end
  end.
Definition e_widen_thr (gp gn : bound -> bound) (a b : env) : env :=
  match a, b with
  | EBot, _ => b | _, EBot => a
  | EMap x, EMap y => match merge true (iwiden_thr gp gn) x y with Some m => EMap m | None => EBot end
  end.
Definition e_meet (a b : env) : env :=
  match a, b with
  | EBot, _ | _, EBot => EBot
  | EMap x, EMap y => match merge false imeet x y with Some m => EMap m | None => EBot end
  end.
Definition e_narrow (a b : env) : env :=
  match a, b with
  | EBot, _ | _, EBot => EBot
  | EMap x, EMap y => match merge false inarrow x y with Some m => EMap m | None => EBot end
  end.

(* separate_domain::operator<= : pointwise, with default top *)
Definition e_leq (a b : env) : bool :=
  match a, b with
  | EBot, _ => true
  | _, EBot => false
  | EMap x, EMap y => forallb (fun k => ileq (get x k) (get y k)) (keys x ++ keys y)
  end.

(* separate_domain::project: both implementation branches compute the restriction *)
Definition e_project (e : env) (vs : list var) : env :=
  match e with
  | EBot => EBot
  | EMap m =>
    if forallb (fun k => is_top (get m k)) (keys m) then e
    else EMap (fold_right (fun k acc => put acc k (get m k)) [] vs)
  end.

(* separate_domain::rename(from, to), sequential as in the code *)
Fixpoint rename_pairs (m : amap) (ps : list (var * var)) : amap :=
  match ps with
  | [] => m
  | (k, nk) :: r =>
    if N.eqb k nk then rename_pairs m r
    else if is_top (get m k) then rename_pairs m r
    else rename_pairs (remove ((nk, get m k) :: remove m nk) k) r
  end.
Definition e_rename (e : env) (from to : list var) : env :=
  match e with
  | EBot => EBot
  | EMap m =>
    if forallb (fun k => is_top (get m k)) (keys m) then e
    else EMap (rename_pairs m (combine from to))
  end.

(* canonical listing of the non-top bindings, sorted by variable index *)
Fixpoint insert_sorted (k : var) (l : list var) : list var :=
  match l with
  | [] => [k]
  | h :: t => if N.ltb k h then k :: l else if N.eqb k h then l else h :: insert_sorted k t
  end.
Definition sorted_keys (m : amap) : list var := fold_right insert_sorted [] (keys m).
Definition bindings (m : amap) : list (var * itv) :=
  filter (fun p => negb (is_top (snd p))) (map (fun k => (k, get m k)) (sorted_keys m)).
