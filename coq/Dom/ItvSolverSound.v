(* ItvSolverSound.v — every propagation step of the linear interval solver keeps all
   concrete solutions: if s satisfies the constraints and is described by the input
   environment then it is described by the output, and the solver never answers bottom
   while such an s exists. *)
From Coq Require Import ZArith NArith List Bool Lia.
From CrabV Require Import Base.ZInf Scalar.Itv Scalar.ItvSound Scalar.ItvTight Ir.Syntax Dom.ItvEnv
     Dom.ItvEnvSound Dom.ItvSolver.
Import ListNotations.
Local Open Scope Z_scope.

(* canonical form kept by the C++ flat_map: one term per variable, no zero coefficient *)
Definition wf_le (e : linexp) : Prop :=
  NoDup (map snd (le_terms e)) /\ (forall c v, In (c, v) (le_terms e) -> c <> 0).
Definition wf_lc (c : lincst) : Prop := wf_le (lc_exp c).

Fixpoint sum_except (ts : list (Z * var)) (p : var) (s : store) : Z :=
  match ts with
  | [] => 0
  | (c, v) :: r => if N.eqb v p then sum_except r p s else c * s v + sum_except r p s
  end.

Lemma sum_except_notin ts p s : ~ In p (map snd ts) -> sum_except ts p s = eval_terms ts s.
Proof.
  induction ts as [|[c v] r IH]; simpl; auto. intros H.
  destruct (N.eqb_spec v p); [tauto|]. rewrite IH; tauto.
Qed.

Lemma eval_split ts c p s :
  NoDup (map snd ts) -> In (c, p) ts -> eval_terms ts s = c * s p + sum_except ts p s.
Proof.
  induction ts as [|[c' v] r IH]; simpl; [tauto|]. intros ND [E|I].
  - inversion E; subst. rewrite N.eqb_refl. inversion ND; subst.
    rewrite sum_except_notin; auto.
  - inversion ND as [|? ? NI ND']; subst. destruct (N.eqb_spec v p).
    + subst. exfalso. apply NI. change p with (snd (c, p)). apply in_map. auto.
    + rewrite (IH ND' I). lia.
Qed.

Lemma residual_loop_sound ts p m s : forall res r ops,
  gmap m s -> gamma res r ->
  gamma (fst (residual_loop ts p m res ops)) (r - sum_except ts p s).
Proof.
  induction ts as [|[c v] t IH]; simpl; intros res r ops G R.
  - replace (r - 0) with r by lia. auto.
  - destruct (N.eqb_spec v p); [apply IH; auto|].
    assert (R' : gamma (isub res (imul (iconst c) (get m v))) (r - c * s v)).
    { apply isub_sound; auto. apply imul_sound; [apply gamma_iconst; auto|apply G]. }
    destruct (is_top _) eqn:T.
    + simpl. eapply is_top_gamma_all; eauto.
    + replace (r - (c * s v + sum_except t p s)) with (r - c * s v - sum_except t p s) by lia.
      apply IH; auto.
Qed.

Definition good (s : store) (r : option sst) : Prop :=
  match r with Some st => gmap (s_map st) s | None => False end.

Lemma s_refine_sound v i st s :
  gmap (s_map st) s -> gamma i (s v) -> good s (s_refine v i st).
Proof.
  intros G Gi. unfold s_refine.
  assert (M : gamma (imeet (get (s_map st) v) i) (s v)) by (apply imeet_exact; split; auto).
  rewrite (gamma_not_bot _ _ M).
  destruct (negb _); simpl; auto.
  intros k. destruct (N.eq_dec k v) as [->|N].
  - apply get_put_same_sound; auto.
  - rewrite get_put_other by auto. apply G.
Qed.

Lemma ineq_pos c x r : 0 < c -> c * x <= r -> x <= Z.quot r c.
Proof.
  intros Hc H. pose proof (Z.quot_rem' r c) as E.
  destruct (rem_range r c ltac:(lia)) as (A & _ & _). nia.
Qed.

Lemma ineq_neg c x r : c < 0 -> c * x <= r -> Z.quot r c <= x.
Proof.
  intros Hc H. pose proof (Z.quot_rem' r c) as E.
  destruct (rem_range r c ltac:(lia)) as (A & _ & _). nia.
Qed.

Lemma iconst_mul_singleton q c z : gamma (imul (mkI (Fin q) (Fin q)) (iconst c)) z -> z = q * c.
Proof.
  intros G.
  assert (W : ileq (imul (mkI (Fin q) (Fin q)) (iconst c)) (iconst (q * c)) = true).
  { apply ItvTight.imul_tight; try apply wf_iconst.
    intros x y Gx Gy. apply gamma_iconst in Gx. apply gamma_iconst in Gy. subst.
    apply gamma_iconst. auto. }
  apply (ileq_sound _ _ W) in G. apply gamma_iconst in G. auto.
Qed.

Lemma isingleton_shape a q : isingleton a = Some q -> a = mkI (Fin q) (Fin q).
Proof.
  unfold isingleton. destruct a as [l u]; simpl.
  destruct (negb _ && beqb l u) eqn:E; try discriminate.
  apply andb_true_iff in E. destruct E as [_ E]. apply beqb_eq in E. subst.
  destruct u; try discriminate. intros H; inversion H; auto.
Qed.

Lemma propagate_term_sound cst c p st s :
  wf_lc cst -> In (c, p) (le_terms (lc_exp cst)) -> sat cst s ->
  gmap (s_map st) s -> good s (propagate_term cst c p st).
Proof.
  intros [ND NZ] I SAT G. unfold propagate_term.
  destruct (compute_residual cst p st) as [res ops] eqn:CR.
  assert (Hc : c <> 0) by (eapply NZ; eauto).
  set (r := - le_cst (lc_exp cst) - sum_except (le_terms (lc_exp cst)) p s).
  assert (R : gamma res r).
  { unfold compute_residual in CR.
    pose proof (residual_loop_sound (le_terms (lc_exp cst)) p (s_map st) s
                 (iconst (- le_cst (lc_exp cst))) (- le_cst (lc_exp cst)) (s_ops st) G
                 ltac:(apply gamma_iconst; auto)) as X.
    rewrite CR in X. exact X. }
  assert (EV : eval_le (lc_exp cst) s = c * s p - r).
  { unfold eval_le, r. rewrite (eval_split _ c p s ND I). lia. }
  cbn [s_map s_refined s_ops].
  assert (RQ : gamma (idiv res (iconst c)) (Z.quot r c)).
  { apply idiv_sound; auto. apply gamma_iconst; auto. }
  assert (QE : c * s p = r -> Z.quot r c = s p).
  { intros E. rewrite <- E. rewrite Z.mul_comm. apply Z.quot_mul; auto. }
  unfold sat in SAT. destruct (lc_kind cst).
  - (* EQ *)
    apply s_refine_sound; auto. rewrite EV in SAT.
    assert (E : c * s p = r) by lia.
    destruct (is_top res); [apply gamma_top|]. rewrite <- (QE E). exact RQ.
  - (* DISEQ *)
    rewrite EV in SAT.
    set (old := get (s_map st) p).
    assert (NW : gamma (if (if is_top res then false else ieq (imul (if is_top res then itop else idiv res (iconst c)) (iconst c)) res)
                        then itrim old (if is_top res then itop else idiv res (iconst c)) else old) (s p)).
    { destruct (is_top res) eqn:T; [apply G|].
      destruct (ieq _ res) eqn:EX; [|apply G].
      unfold itrim. destruct (isingleton (idiv res (iconst c))) as [q|] eqn:SG; [|apply G].
      assert (Q : s p <> q).
      { pose proof (isingleton_shape _ _ SG) as SH. rewrite SH in EX.
        apply (ieq_sound _ _ EX) in R. apply iconst_mul_singleton in R.
        intros E. apply SAT. rewrite E, R. ring. }
      change (gamma (itrim old (idiv res (iconst c))) (s p)) with
             (gamma (itrim old (idiv res (iconst c))) (s p)).
      pose proof (itrim_sound old (idiv res (iconst c)) (s p) q (G p) SG Q) as X.
      unfold itrim in X. rewrite SG in X. exact X. }
    rewrite (gamma_not_bot _ _ NW).
    destruct (negb _); simpl; auto.
    intros k. destruct (N.eq_dec k p) as [->|N].
    + apply get_put_same_sound; auto.
    + rewrite get_put_other by auto. apply G.
  - (* INEQ *)
    rewrite EV in SAT. assert (LE : c * s p <= r) by lia.
    destruct (0 <? c) eqn:CP.
    + apply Z.ltb_lt in CP. apply s_refine_sound; auto.
      destruct (is_top res) eqn:T.
      * apply gamma_imk. split; auto.
      * eapply ilower_half_sound; [exact RQ|]. apply ineq_pos; auto.
    + apply Z.ltb_ge in CP. assert (c < 0) by lia. apply s_refine_sound; auto.
      destruct (is_top res) eqn:T.
      * apply gamma_imk. split; auto.
      * eapply iupper_half_sound; [exact RQ|]. apply ineq_neg; auto.
  - (* STRICT: nothing *)
    simpl. auto.
Qed.

Lemma propagate_terms_sound cst s : wf_lc cst -> sat cst s ->
  forall ts st, (forall c p, In (c, p) ts -> In (c, p) (le_terms (lc_exp cst))) ->
  gmap (s_map st) s -> good s (propagate_terms cst ts st).
Proof.
  intros W SAT. induction ts as [|[c p] r IH]; simpl; intros st SUB G; auto.
  pose proof (propagate_term_sound cst c p st s W (SUB c p (or_introl eq_refl)) SAT G) as P.
  destruct (propagate_term cst c p st) as [st'|]; simpl in P; [|tauto].
  apply IH; auto.
Qed.

Lemma propagate_sound cst s st : wf_lc cst -> sat cst s ->
  gmap (s_map st) s -> good s (propagate cst st).
Proof. intros. apply propagate_terms_sound; auto. Qed.

Definition table_ok (table : list lincst) (s : store) : Prop :=
  forall c, In c table -> wf_lc c /\ sat c s.

Lemma propagate_all_sound s : forall table st, table_ok table s ->
  gmap (s_map st) s -> good s (propagate_all table st).
Proof.
  induction table as [|c r IH]; simpl; intros st T G; auto.
  destruct (T c (or_introl eq_refl)) as [W S].
  pose proof (propagate_sound c s st W S G) as P.
  destruct (propagate c st) as [st'|]; simpl in P; [|tauto].
  apply IH; auto. intros c' I. apply T. right; auto.
Qed.

Lemma small_loop_sound s table max : table_ok table s ->
  forall fuel cycle st, gmap (s_map st) s -> good s (small_loop fuel table cycle max st).
Proof.
  intros T. induction fuel as [|f IH]; simpl; intros cycle st G; auto.
  pose proof (propagate_all_sound s table (mkS (s_map st) [] (s_ops st)) T G) as P.
  destruct (propagate_all _ _) as [st'|]; simpl in P; [|tauto].
  destruct (s_refined st'); simpl; auto.
  destruct (_ <=? _)%N; simpl; auto.
Qed.

Lemma propagate_idx_sound s table : table_ok table s ->
  forall idx st, gmap (s_map st) s -> good s (propagate_idx table idx st).
Proof.
  intros T. induction idx as [|i r IH]; simpl; intros st G; auto.
  destruct (nth_error table i) as [c|] eqn:E; auto.
  destruct (T c (nth_error_In _ _ E)) as [W S].
  pose proof (propagate_sound c s st W S G) as P.
  destruct (propagate c st) as [st'|]; simpl in P; [|tauto]. auto.
Qed.

Lemma process_vars_sound s table : table_ok table s ->
  forall vs st, gmap (s_map st) s -> good s (process_vars table vs st).
Proof.
  intros T. induction vs as [|v r IH]; simpl; intros st G; auto.
  pose proof (propagate_idx_sound s table T (triggers table 0 v) st G) as P.
  destruct (propagate_idx _ _ _) as [st'|]; simpl in P; [|tauto]. auto.
Qed.

Lemma large_loop_sound s table max : table_ok table s ->
  forall fuel st, gmap (s_map st) s -> good s (large_loop fuel table max st).
Proof.
  intros T. induction fuel as [|f IH]; simpl; intros st G; auto.
  pose proof (process_vars_sound s table T (s_refined st) (mkS (s_map st) [] (s_ops st)) G) as P.
  destruct (process_vars _ _ _) as [st'|]; simpl in P; [|tauto].
  destruct (s_refined st'); simpl; auto.
  destruct (_ <=? _)%N; simpl; auto.
Qed.

Lemma preprocess_sound s : forall cs table opc,
  (forall c, In c cs -> wf_lc c /\ sat c s) -> table_ok table s ->
  p_contra (preprocess cs table opc) = false /\ table_ok (p_table (preprocess cs table opc)) s.
Proof.
  induction cs as [|c r IH]; simpl; intros table opc H T; auto.
  destruct (H c (or_introl eq_refl)) as [W S].
  destruct (lc_is_contradiction c) eqn:C.
  { exfalso. eapply lc_is_contradiction_sound; eauto. }
  assert (H' : forall c0, In c0 r -> wf_lc c0 /\ sat c0 s) by (intros; apply H; right; auto).
  destruct (lc_is_tautology c); [apply IH; auto|].
  destruct (lc_kind c) eqn:K.
  - apply IH; auto. intros c' I. apply in_app_or in I. destruct I as [I|[<-|[]]]; auto.
  - apply IH; auto. intros c' I. apply in_app_or in I. destruct I as [I|[<-|[]]]; auto.
  - apply IH; auto. intros c' I. apply in_app_or in I. destruct I as [I|[<-|[]]]; auto.
  - apply IH; auto. intros c' I. apply in_app_or in I.
    destruct I as [I|[<-|[<-|[]]]]; auto; split; auto; unfold sat in *; rewrite K in S; simpl; lia.
Qed.

Theorem solve_sound cs n m s :
  (forall c, In c cs -> wf_lc c /\ sat c s) -> gmap m s ->
  match solve cs n m with Some m' => gmap m' s | None => False end.
Proof.
  intros H G. unfold solve.
  destruct (preprocess_sound s cs [] 0%N H) as [PC PT]. { intros c []. }
  rewrite PC.
  set (table := p_table (preprocess cs [] 0%N)) in *.
  match goal with |- context [if ?b then _ else _] => destruct b end.
  - pose proof (propagate_all_sound s table (mkS m [] 0%N) PT G) as P.
    destruct (propagate_all _ _) as [st1|]; simpl in P; [|tauto].
    pose proof (large_loop_sound s table (p_opc (preprocess cs [] 0%N) * n)%N PT
                 (S (S (N.to_nat (p_opc (preprocess cs [] 0%N) * n)))) st1 P) as L.
    destruct (large_loop _ _ _ _) as [st|]; simpl in L; auto.
  - pose proof (small_loop_sound s table n PT (S (N.to_nat n)) 0%N (mkS m [] 0%N) G) as L.
    destruct (small_loop _ _ _ _ _) as [st|]; simpl in L; auto.
Qed.

(* executable well-formedness test for constraints (used by examples and by the driver) *)
Fixpoint nodupb (l : list var) : bool :=
  match l with [] => true | h :: t => negb (existsb (N.eqb h) t) && nodupb t end.
Definition wf_lcb (c : lincst) : bool :=
  nodupb (map snd (le_terms (lc_exp c))) && forallb (fun p => negb (fst p =? 0)) (le_terms (lc_exp c)).

Lemma nodupb_sound l : nodupb l = true -> NoDup l.
Proof.
  induction l as [|h t IH]; simpl; intros H; [constructor|].
  apply andb_true_iff in H. destruct H as [H1 H2]. constructor; auto.
  intros I. apply negb_true_iff in H1.
  assert (existsb (N.eqb h) t = true) by (apply existsb_exists; exists h; split; auto; apply N.eqb_refl).
  congruence.
Qed.

Lemma wf_lcb_sound c : wf_lcb c = true -> wf_lc c.
Proof.
  unfold wf_lcb, wf_lc, wf_le. intros H. apply andb_true_iff in H. destruct H as [H1 H2]. split.
  - apply nodupb_sound; auto.
  - intros k v I. rewrite forallb_forall in H2. specialize (H2 _ I). simpl in H2.
    apply negb_true_iff in H2. apply Z.eqb_neq in H2. auto.
Qed.
