(* ArrayAdapt.v — mirror of crab::domains::array_adaptive_domain<interval_domain>
   (include/crab/domains/array_adaptive.hpp + lib/array_adaptive_impl.cpp) as it is on
   /repo HEAD (with the repairs fixes/arrays-1, 4, 5), built on the cell algebra of
   ArrayAdaptCore.v and on the mirror of its base domain array_smashing<interval_domain>
   (ArraySmash.v).

   A value is (base value, array map, ghost map):
     - the base value is a value of the smashing domain: program scalars, one scalar ghost
       variable per cell, and the summarised variable of every smashed array;
     - the array map binds an array to its array_state (smashed flag, element size,
       offset map);
     - the ghost map (cell_ghost_man) records which cells of which array have a ghost
       variable.
   Naming: the C++ asks the variable factory for a new ghost variable whenever a cell gets
   one; here the ghost of cell (a, o, sz) is the fixed variable [cgv a o sz].  The two
   coincide as long as a ghost variable that leaves the ghost map is also unconstrained in
   the base value (what the code does everywhere except in meet / narrowing, where cells can
   stay in the ghost map without being in the offset map: see ArrayAdaptSound.v [tidy]).

   The patricia trees of the code keep the OLD binding when an operation computes a value
   that is == to it (array_state::operator== ignores removed-flags and, for arrays that are
   not smashed, the element size; std::set<cell_t>::operator== ignores removed-flags):
   [am_set], [am_join], [om_join_p] reproduce which of the two operands survives; this
   depends on which tree reaches its leaf first ([left_leaf_first]). *)
From Coq Require Import ZArith NArith List Bool Lia.
From CrabV Require Import Base.ZInf Scalar.Itv Ir.Syntax Dom.ItvEnv Dom.ItvSolver Dom.ItvDomain
     Dom.History Fix.Thresholds Dom.ArraySmash Dom.ArrayAdaptCore.
Import ListNotations.
Local Open Scope Z_scope.

(* ---- names ---- *)
Definition npair (x y : N) : N := ((x + y) * (x + y + 1) + 2 * y)%N.
Definition pv (x : N) : var := sv (2 * x).                 (* program scalar *)
Definition cgv (a : arr) (o sz : Z) : var :=               (* ghost of cell (o, sz) of a *)
  sv (2 * npair a (npair (Z.to_N o) (Z.to_N sz)) + 1).
Definition sa (a : arr) : arr := (2 * a)%N.                (* the array inside the base domain *)
Definition ta (a : arr) : arr := (2 * a + 1)%N.            (* temporary array of array_load *)
Definition cgc (a : arr) (c : cell) : var := cgv a (c_off c) (c_size c).

(* ---- option monad ---- *)
Definition obind {A B : Type} (x : option A) (f : A -> option B) : option B :=
  match x with Some a => f a | None => None end.
Notation "'let?' x ':=' e 'in' k" := (obind e (fun x => k))
  (at level 200, x pattern, right associativity).

(* ---- array map (patricia_tree<variable_t, array_state>) ---- *)
Definition amap_t := list (arr * astate).
Fixpoint am_find (m : amap_t) (a : arr) : option astate :=
  match m with
  | [] => None
  | (b, st) :: r => if N.eqb b a then Some st else am_find r a
  end.
Definition am_remove (m : amap_t) (a : arr) : amap_t := filter (fun p => negb (N.eqb (fst p) a)) m.
(* m_array_map.set: patricia insert keeps the old binding when the new state is == to it *)
Definition am_set (m : amap_t) (a : arr) (st : astate) : amap_t :=
  match am_find m a with
  | Some old => (a, as_set old st) :: am_remove m a
  | None => (a, st) :: m
  end.
Definition am_keys (m : amap_t) : list arr := map fst m.

(* ---- ghost map (cell_ghost_man / cell_varmap) ---- *)
Definition ck := (Z * Z)%type.
Definition ck_eqb (x y : ck) : bool := (fst x =? fst y) && (snd x =? snd y).
Definition gmap_t := list (arr * list ck).
Fixpoint gh_find (g : gmap_t) (a : arr) : option (list ck) :=
  match g with
  | [] => None
  | (b, l) :: r => if N.eqb b a then Some l else gh_find r a
  end.
Definition gh_cells (g : gmap_t) (a : arr) : list ck :=
  match gh_find g a with Some l => l | None => [] end.
Definition gh_has (g : gmap_t) (a : arr) (o sz : Z) : bool := existsb (ck_eqb (o, sz)) (gh_cells g a).
Definition gh_hasc (g : gmap_t) (a : arr) (c : cell) : bool := gh_has g a (c_off c) (c_size c).
Definition gh_present (g : gmap_t) (a : arr) : bool :=
  match gh_find g a with Some _ => true | None => false end.
Definition gh_erase_all (g : gmap_t) (a : arr) : gmap_t := filter (fun p => negb (N.eqb (fst p) a)) g.
Definition gh_put (g : gmap_t) (a : arr) (l : list ck) : gmap_t := (a, l) :: gh_erase_all g a.
Definition gh_insert (g : gmap_t) (a : arr) (o sz : Z) : gmap_t :=
  if gh_has g a o sz then g else gh_put g a (gh_cells g a ++ [(o, sz)]).
(* erase(array, cell): the entry of the array stays, possibly empty *)
Definition gh_erase (g : gmap_t) (a : arr) (o sz : Z) : gmap_t :=
  match gh_find g a with
  | Some l => gh_put g a (filter (fun k => negb (ck_eqb (o, sz) k)) l)
  | None => g
  end.
(* cells in the order of the sorted vector *)
Fixpoint ck_insert (k : ck) (l : list ck) : list ck :=
  match l with
  | [] => [k]
  | h :: t => if (fst k <? fst h) || ((fst k =? fst h) && (snd k <? snd h)) then k :: l
              else if ck_eqb k h then l else h :: ck_insert k t
  end.
Definition gh_sorted (g : gmap_t) (a : arr) : list ck := fold_right ck_insert [] (gh_cells g a).

(* ---- which operand of a patricia merge reaches the leaf of key k first ----
   keys are compared from the most significant bit; the leaf of k is reached after the
   branching on the highest bit in which k differs from its closest neighbour *)
Definition last_branch (ks : list Z) (k : Z) : option Z :=
  fold_left (fun acc k' =>
    if k' =? k then acc
    else let b := Z.log2 (Z.lxor k k') in
         match acc with None => Some b | Some m => Some (Z.min m b) end) ks None.
Definition left_leaf_first (ks kt : list Z) (k : Z) : bool :=
  match last_branch ks k, last_branch kt k with
  | None, _ => true
  | Some _, None => false
  | Some a, Some b => b <=? a
  end.

(* ---- offset maps: join / meet with the operand that survives ---- *)
Definition keys_sub (x y : list cell) : bool := forallb (fun c => existsb (cell_eqb c) y) x.
Definition cs_union (x y : list cell) : list cell := fold_left (fun acc c => om_insert c acc) y x.
Definition om_join_p (a b : omap) : omap :=
  let oa := om_offsets a in
  let ob := om_offsets b in
  flat_map (fun o =>
    match om_group a o, om_group b o with
    | [], Y => Y
    | X, [] => X
    | X, Y => if left_leaf_first oa ob o && keys_sub X Y then Y else cs_union X Y
    end) (om_offsets (cs_union a b)).
Definition om_meet_p (a b : omap) : omap :=
  let oa := om_offsets a in
  let ob := om_offsets b in
  flat_map (fun o =>
    match om_group a o, om_group b o with
    | [], _ | _, [] => []
    | X, Y => if negb (left_leaf_first oa ob o) && keys_sub X Y then Y else cs_union X Y
    end) (om_offsets (cs_union a b)).

(* ---- values ---- *)
Record adom := mkD { d_base : ast; d_arrs : amap_t; d_gh : gmap_t }.

Definition a_top : adom := mkD s_top [] [].
Definition a_bot : adom := mkD s_bot [] [].
Definition a_is_bottom (d : adom) : bool := s_is_bottom (d_base d).
Definition a_is_top (d : adom) : bool := s_is_top (d_base d).
Definition a_at (d : adom) (x : var) : itv := s_at (d_base d) x.
Definition with_base (d : adom) (b : ast) : adom := mkD b (d_arrs d) (d_gh d).

Definition new_state : astate := mkS false (Some 0) [].

(* lookup_array_state: an array without state gets a fresh one *)
Definition lookup (d : adom) (a : arr) : astate * adom :=
  match am_find (d_arrs d) a with
  | Some st => (st, d)
  | None => (new_state, mkD (d_base d) ((a, new_state) :: d_arrs d) (d_gh d))
  end.

Definition ghosts_of (g : gmap_t) (a : arr) (cells : list cell) : list var :=
  flat_map (fun c => if gh_hasc g a c then [cgc a c] else []) cells.

(* forget_array *)
Definition forget_array (a : arr) (d : adom) : adom :=
  let '(st, d1) := lookup d a in
  let vars := if as_smashed st then [VA (sa a)] else map VS (ghosts_of (d_gh d1) a (as_map st)) in
  mkD (s_forget vars (d_base d1)) (am_remove (d_arrs d1) a) (gh_erase_all (d_gh d1) a).

Definition forget_ghosts (a : arr) (g : gmap_t) (cells : list cell) (b : ast) : ast :=
  fold_left (fun acc c => if gh_hasc g a c then s_forget1 (VS (cgc a c)) acc else acc) cells b.
Definition erase_ghosts (a : arr) (cells : list cell) (g : gmap_t) : gmap_t :=
  fold_left (fun acc c => gh_erase acc a (c_off c) (c_size c)) cells g.

(* kill_cells: forget the ghosts; erase the cells (not smashable) or mark them (smashable) *)
Definition kill (p : params) (a : arr) (cells : list cell) (om : omap) (b : ast) (g : gmap_t)
  : omap * ast * gmap_t :=
  match cells with
  | [] => (om, b, g)
  | _ => (kill_cells p cells om, forget_ghosts a g cells b,
          if p_smashable p then g else erase_ghosts a cells g)
  end.

(* the cells are stored one after the other into the summarised variable of [target] (the
   first one strongly); stops at the first cell without ghost variable ([true]) *)
Fixpoint smash_loop (target : arr) (esz : linexp) (a : arr) (g : gmap_t) (first : bool)
         (cells : list cell) (b : ast) : option (bool * ast) :=
  match cells with
  | [] => Some (false, b)
  | c :: r =>
    if gh_hasc g a c then
      let? b1 := s_array_store target esz (le_var (cgc a c)) first b in
      smash_loop target esz a g false r b1
    else Some (true, b)
  end.

Definition le_k (k : Z) : linexp := mkLE [] k.
Definition set_arr (d : adom) (a : arr) (st : astate) (b : ast) (g : gmap_t) : adom :=
  mkD b (am_set (d_arrs d) a st) g.

Definition smash_cond (p : params) (st : astate) (esz : Z) : bool :=
  p_smashable p && can_be_smashed (as_map st) esz (p_nonzero p)
  && (Z.of_nat (length (as_map st)) <=? p_max_smash p).

(* array_store on an array that is not smashed, index not constant or too many cells *)
Definition store_nonconst (p : params) (a : arr) (esz idx val : linexp) (strong : bool) (k : Z)
           (st : astate) (d1 : adom) : option adom :=
  let b := d_base d1 in
  if smash_cond p st k then
    let cells := as_map st in
    let? nb := smash_loop (sa a) esz a (d_gh d1) true cells b in
    let? b2 := (if fst nb then Some (s_forget1 (VA (sa a)) (snd nb))
                else s_array_store (sa a) esz val strong (snd nb)) in
    Some (set_arr d1 a (mkS true (Some k) []) (forget_ghosts a (d_gh d1) cells b2)
                  (erase_ghosts a cells (d_gh d1)))
  else
    let cells := om_get_overlap_sym (as_map st) idx (le_addc idx (k - 1)) (a_base b) in
    let '(om1, b1, g1) := kill p a cells (as_map st) b (d_gh d1) in
    Some (set_arr d1 a (mkS false (as_esz st) om1) b1 g1).

Definition a_array_store (p : params) (a : arr) (esz idx val : linexp) (strong : bool) (d : adom)
  : option adom :=
  if a_is_bottom d then Some d else
  let? k := check_elem_size esz (a_base (d_base d)) in
  let '(st, d1) := lookup d a in
  let b := d_base d1 in
  if as_smashed st then
    if size_consistent st k then
      let? b' := s_array_store (sa a) esz val strong b in Some (with_base d1 b')
    else Some (with_base d1 (s_forget1 (VA (sa a)) b))
  else
    match isingleton (d_eval idx (a_base b)) with
    | Some n =>
      if Z.of_nat (length (as_map st)) <? p_max_size p then
        let cells := om_get_overlap (as_map st) n k in
        let '(om1, b1, g1) := kill p a cells (as_map st) b (d_gh d1) in
        Some (set_arr d1 a (mkS false (as_esz st) (snd (om_mk om1 n k)))
                      (s_assign (cgv a n k) val b1) (gh_insert g1 a n k))
      else store_nonconst p a esz idx val strong k st d1
    | None => store_nonconst p a esz idx val strong k st d1
    end.

Definition a_array_load (p : params) (lhs : var) (a : arr) (esz idx : linexp) (d : adom) : option adom :=
  if a_is_bottom d then Some d else
  let? k := check_elem_size esz (a_base (d_base d)) in
  let '(st, d1) := lookup d a in
  let b := d_base d1 in
  let forget_lhs := Some (with_base d1 (s_forget1 (VS lhs) b)) in
  if as_smashed st then
    if size_consistent st k then
      let? b' := s_array_load lhs (sa a) esz b in Some (with_base d1 b')
    else forget_lhs
  else
    let ii := d_eval idx (a_base b) in
    match isingleton ii with
    | Some n =>
      match om_get_overlap (as_map st) n k with
      | [] => Some (set_arr d1 a (mkS false (as_esz st) (snd (om_mk (as_map st) n k)))
                            (s_assign lhs (le_var (cgv a n k)) b) (gh_insert (d_gh d1) a n k))
      | _ => forget_lhs
      end
    | None =>
      let cells := om_get_overlap_sym (as_map st) idx (le_addc idx (k - 1)) (a_base b) in
      if p_smashable p && can_be_smashed cells k true && covers_all_offsets cells ii k then
        let? nb := smash_loop (ta a) esz a (d_gh d1) true cells b in
        let? b2 := (if fst nb then Some (s_forget1 (VS lhs) (snd nb))
                    else s_array_load lhs (ta a) esz (snd nb)) in
        Some (with_base d1 (s_forget1 (VA (ta a)) b2))
      else forget_lhs
    end.

Fixpoint range_loop (p : params) (a : arr) (esz val : linexp) (i step : Z) (n : nat) (d : adom)
  : option adom :=
  match n with
  | O => Some d
  | S n' => let? d1 := a_array_store p a esz (le_k i) val false d in
            range_loop p a esz val (i + step) step n' d1
  end.

Definition a_array_store_range (p : params) (a : arr) (esz lb ub val : linexp) (d : adom) : option adom :=
  if a_is_bottom d then Some d else
  let? k := check_elem_size esz (a_base (d_base d)) in
  match isingleton (d_eval lb (a_base (d_base d))) with
  | None => Some (forget_array a d)
  | Some l =>
    match isingleton (d_eval ub (a_base (d_base d))) with
    | None => Some (forget_array a d)
    | Some u =>
      if u <? l then Some d else
      let num := Z.quot (u - l) k in
      let e := if p_max_size p <? num then l + (p_max_size p - 1) * k else u in
      let cnt := if e <? l then 0 else Z.quot (e - l) k + 1 in
      let? d1 := range_loop p a esz val l k (Z.to_nat cnt) d in
      if e <? u then
        if a_is_bottom d1 then Some d1 else
        let '(st, d2) := lookup d1 a in
        if as_smashed st then Some d2 else
        let cells := om_get_overlap (as_map st) (e + k) (u - (e + k) + 1) in
        let '(om1, b1, g1) := kill p a cells (as_map st) (d_base d2) (d_gh d2) in
        Some (set_arr d2 a (mkS false (as_esz st) om1) b1 g1)
      else Some d1
    end
  end.

Definition a_array_init (p : params) (a : arr) (esz lb ub val : linexp) (d : adom) : option adom :=
  if a_is_bottom d then Some d else
  let '(st, d1) := lookup d a in
  let d2 := if as_smashed st then d1 else
            match as_map st with
            | [] => d1
            | cells => let '(om1, b1, g1) := kill p a cells cells (d_base d1) (d_gh d1) in
                       set_arr d1 a (mkS false (as_esz st) om1) b1 g1
            end in
  a_array_store_range p a esz lb ub val d2.

Definition a_array_assign (p : params) (lhs rhs : arr) (d : adom) : adom :=
  if a_is_bottom d then d else if N.eqb lhs rhs then d else
  let d1 := forget_array lhs d in
  let '(st, d2) := lookup d1 rhs in
  if negb (as_smashed st) then
    let cells := filter (gh_hasc (d_gh d2) rhs) (as_map st) in
    let om := fold_left (fun acc c => snd (om_mk acc (c_off c) (c_size c))) cells [] in
    let g := fold_left (fun acc c => gh_insert acc lhs (c_off c) (c_size c)) cells (d_gh d2) in
    let b := fold_left (fun acc c => s_assign (cgc lhs c) (le_var (cgc rhs c)) acc) cells (d_base d2) in
    mkD b (am_set (d_arrs d2) lhs (mkS false (as_esz st) om)) g
  else if p_smashable p then
    mkD (s_array_assign (sa lhs) (sa rhs) (d_base d2)) (am_set (d_arrs d2) lhs st) (d_gh d2)
  else d2.

(* ---- scalars and arrays as variables ---- *)
Definition is_vs (v : avar) : bool := match v with VS _ => true | VA _ => false end.

Definition a_forget1 (v : avar) (d : adom) : adom :=
  if a_is_bottom d then d else
  match v with
  | VA a => forget_array a d
  | VS x => with_base d (s_forget1 (VS x) (d_base d))
  end.

Definition a_forget (vs : list avar) (d : adom) : adom :=
  if a_is_bottom d || a_is_top d then d else
  let d1 := fold_left (fun acc v => match v with VA a => forget_array a acc | VS _ => acc end) vs d in
  with_base d1 (s_forget (filter is_vs vs) (d_base d1)).

Definition a_project (vs : list avar) (d : adom) : adom :=
  if a_is_bottom d || a_is_top d then d else
  let keep a := existsb (fun v => match v with VA b => N.eqb a b | VS _ => false end) vs in
  let extra := flat_map (fun q : arr * astate =>
                 let (a, st) := q in
                 if keep a then (if as_smashed st then [VA (sa a)]
                                 else map VS (ghosts_of (d_gh d) a (as_map st)))
                 else []) (d_arrs d) in
  mkD (s_project (filter is_vs vs ++ extra) (d_base d))
      (filter (fun q => keep (fst q)) (d_arrs d))
      (filter (fun q => keep (fst q) || negb (existsb (N.eqb (fst q)) (am_keys (d_arrs d)))) (d_gh d)).

(* expand: nothing is done for arrays; different kinds: CRAB_ERROR *)
Definition a_expand (v nv : avar) (d : adom) : option adom :=
  if a_is_bottom d || a_is_top d then Some d else
  match v, nv with
  | VS x, VS y => Some (with_base d (s_expand (VS x) (VS y) (d_base d)))
  | VA _, VA _ => Some d
  | _, _ => None
  end.

(* rename: the scalar pairs first, then array after array *)
Fixpoint rename_arrays (ps : list (avar * avar)) (m : amap_t) (g : gmap_t) (ov nv : list avar)
  : option (amap_t * gmap_t * list avar * list avar) :=
  match ps with
  | [] => Some (m, g, ov, nv)
  | (VA old, VA new) :: r =>
    match am_find m old with
    | Some ost =>
      if as_smashed ost then
        rename_arrays r (am_set (am_remove m old) new (mkS true (as_esz ost) []))
                      (gh_erase_all g old) (ov ++ [VA (sa old)]) (nv ++ [VA (sa new)])
      else if gh_present g new then None
      else
        let cells := gh_sorted g old in
        let om := fold_left (fun acc k => snd (om_mk acc (fst k) (snd k))) cells [] in
        rename_arrays r (am_set (am_remove m old) new (mkS false (as_esz ost) om))
                      (gh_erase_all (gh_put g new cells) old)
                      (ov ++ map (fun k => VS (cgv old (fst k) (snd k))) cells)
                      (nv ++ map (fun k => VS (cgv new (fst k) (snd k))) cells)
    | None => rename_arrays r m (gh_erase_all g old) ov nv
    end
  | _ :: r => rename_arrays r m g ov nv
  end.

Definition same_kind (q : avar * avar) : bool :=
  match q with (VS _, VS _) | (VA _, VA _) => true | _ => false end.

Definition a_rename (from to : list avar) (d : adom) : option adom :=
  if a_is_bottom d || a_is_top d then Some d else
  if negb (Nat.eqb (length from) (length to)) then None else
  let ps := combine from to in
  if negb (forallb same_kind ps) then None else
  let sc := filter (fun q => is_vs (fst q)) ps in
  let? r := rename_arrays ps (d_arrs d) (d_gh d) (map fst sc) (map snd sc) in
  let '(m, g, ov, nv) := r in
  Some (mkD (s_rename ov nv (d_base d)) m g).

(* ---- lattice operations ---- *)
(* array_state::smash_array: the side that is not smashed is smashed with the element size
   of the other side, when it is safe to do so *)
Fixpoint smash_other_loop (a : arr) (k : Z) (g : gmap_t) (first : bool) (cells : list cell) (b : ast)
  : option (bool * ast) :=
  match cells with
  | [] => Some (true, b)
  | c :: r =>
    if negb ((0 <=? c_off c) && (c_off c mod k =? 0)) then Some (false, b)
    else if gh_hasc g a c then
      let? b1 := s_array_store (sa a) (le_k (c_size c)) (le_var (cgc a c)) first b in
      smash_other_loop a k g false r b1
    else Some (false, b)
  end.

Definition smash_array (p : params) (a : arr) (esz_other : option Z) (st : astate) (g : gmap_t) (b : ast)
  : option (astate * gmap_t * ast) :=
  match as_map st with
  | [] => Some (st, g, b)
  | c0 :: _ =>
    if p_max_smash p <? Z.of_nat (length (as_map st)) then Some (st, g, b)
    else if negb (p_nonzero p) && negb (c_off c0 =? 0) then Some (st, g, b)
    else match esz_other with
         | Some k =>
           if 0 <? k then
             let? ob := smash_other_loop a k g true (as_map st) b in
             if fst ob then
               Some (mkS true esz_other [], erase_ghosts a (as_map st) g,
                     forget_ghosts a g (as_map st) (snd ob))
             else Some (st, g, s_forget1 (VA (sa a)) (snd ob))
           else Some (st, g, b)
         | None => Some (st, g, b)
         end
  end.

(* array_state::join / meet with the side effects on the two operands *)
Definition sides (p : params) (a : arr) (x y : astate) (gl : gmap_t) (bl : ast) (gr : gmap_t) (br : ast)
  : option (astate * astate * (gmap_t * ast) * (gmap_t * ast)) :=
  if as_smashed x && negb (as_smashed y) then
    let? r := smash_array p a (as_esz x) y gr br in
    let '(y', gr', br') := r in Some (x, y', (gl, bl), (gr', br'))
  else if negb (as_smashed x) && as_smashed y then
    let? r := smash_array p a (as_esz y) x gl bl in
    let '(x', gl', bl') := r in Some (x', y, (gl', bl'), (gr, br))
  else Some (x, y, (gl, bl), (gr, br)).

Definition st_join (x y : astate) : astate :=
  mkS (as_smashed x || as_smashed y) (esz_join (as_esz x) (as_esz y)) (om_join_p (as_map x) (as_map y)).
Definition st_meet (x y : astate) : option astate :=
  match esz_meet (as_esz x) (as_esz y) with
  | Some e => Some (mkS (as_smashed x && as_smashed y) e (om_meet_p (as_map x) (as_map y)))
  | None => None
  end.

Definition zkeys (m : amap_t) : list Z := map (fun q => Z.of_N (fst q)) m.

(* array_state_map_t::join (a key bound on one side only disappears) *)
Fixpoint am_join_loop (p : params) (kx ky : list Z) (xs : amap_t) (ym : amap_t)
         (gl : gmap_t) (bl : ast) (gr : gmap_t) (br : ast)
  : option (amap_t * (gmap_t * ast) * (gmap_t * ast)) :=
  match xs with
  | [] => Some ([], (gl, bl), (gr, br))
  | (a, x) :: r =>
    match am_find ym a with
    | None => am_join_loop p kx ky r ym gl bl gr br
    | Some y =>
      let? s := sides p a x y gl bl gr br in
      let '(x', y', (gl1, bl1), (gr1, br1)) := s in
      let z := st_join x' y' in
      let res := if left_leaf_first kx ky (Z.of_N a)
                 then (if as_eqb z x then x else z)
                 else (if as_eqb z y then y else z) in
      let? t := am_join_loop p kx ky r ym gl1 bl1 gr1 br1 in
      let '(m, l, rr) := t in Some ((a, res) :: m, l, rr)
    end
  end.

(* array_state_map_t::meet (a key bound on one side only is kept) *)
Fixpoint am_meet_loop (p : params) (kx ky : list Z) (xs : amap_t) (ym : amap_t)
         (gl : gmap_t) (bl : ast) (gr : gmap_t) (br : ast)
  : option (amap_t * (gmap_t * ast) * (gmap_t * ast)) :=
  match xs with
  | [] => Some ([], (gl, bl), (gr, br))
  | (a, x) :: r =>
    match am_find ym a with
    | None =>
      let? t := am_meet_loop p kx ky r ym gl bl gr br in
      let '(m, l, rr) := t in Some ((a, x) :: m, l, rr)
    | Some y =>
      let? s := sides p a x y gl bl gr br in
      let '(x', y', (gl1, bl1), (gr1, br1)) := s in
      let? z := st_meet x' y' in
      let res := if left_leaf_first kx ky (Z.of_N a)
                 then (if as_eqb z y then y else z)
                 else (if as_eqb z x then x else z) in
      let? t := am_meet_loop p kx ky r ym gl1 bl1 gr1 br1 in
      let '(m, l, rr) := t in Some ((a, res) :: m, l, rr)
    end
  end.

(* cell_ghost_man::join: the cells that have a ghost on both sides; meet: on either side *)
Definition gh_join (gl gr : gmap_t) : gmap_t :=
  flat_map (fun q : arr * list ck =>
    let (a, l) := q in
    match filter (fun k => gh_has gr a (fst k) (snd k)) l with
    | [] => []
    | l' => [(a, l')]
    end) gl.
Definition gh_meet (gl gr : gmap_t) : gmap_t :=
  let left := flat_map (fun q : arr * list ck =>
                let (a, l) := q in
                match l ++ filter (fun k => negb (gh_has gl a (fst k) (snd k))) (gh_cells gr a) with
                | [] => [] | l' => [(a, l')] end) gl in
  let right := flat_map (fun q : arr * list ck =>
                 let (a, l) := q in
                 if gh_present left a then [] else
                 match filter (fun k => negb (gh_has gl a (fst k) (snd k))) l with
                 | [] => [] | l' => [(a, l')] end) gr in
  left ++ right.

Definition join_like (p : params) (op : ast -> ast -> ast) (gop : gmap_t -> gmap_t -> gmap_t)
           (x y : adom) : option adom :=
  let? t := am_join_loop p (zkeys (d_arrs x)) (zkeys (d_arrs y)) (d_arrs x) (d_arrs y)
                         (d_gh x) (d_base x) (d_gh y) (d_base y) in
  let '(m, (gl, bl), (gr, br)) := t in
  Some (mkD (op bl br) m (gop gl gr)).

Definition a_join (p : params) (x y : adom) : option adom :=
  if a_is_bottom y || a_is_top x then Some x
  else if a_is_bottom x || a_is_top y then Some y
  else join_like p s_join gh_join x y.

Definition a_meet (p : params) (x y : adom) : option adom :=
  if a_is_bottom x || a_is_top y then Some x
  else if a_is_top x || a_is_bottom y then Some y
  else
    let? t := am_meet_loop p (zkeys (d_arrs x)) (zkeys (d_arrs y)) (d_arrs x) (d_arrs y)
                           (d_gh x) (d_base x) (d_gh y) (d_base y) in
    let '(m, (gl, bl), (gr, br)) := t in
    let only_y := filter (fun q => match am_find (d_arrs x) (fst q) with None => true | Some _ => false end)
                         (d_arrs y) in
    Some (mkD (s_meet bl br) (m ++ only_y) (gh_meet gl gr)).

Definition a_widen (p : params) (x y : adom) : option adom :=
  if a_is_bottom y then Some x else if a_is_bottom x then Some y
  else join_like p s_widen gh_join x y.
Definition a_widen_thr (p : params) (ths : list Z) (x y : adom) : option adom :=
  if a_is_bottom y then Some x else if a_is_bottom x then Some y
  else join_like p (s_widen_thr ths) gh_join x y.
(* narrowing: the array states are JOINED, the ghost maps and the base values met *)
Definition a_narrow (p : params) (x y : adom) : option adom :=
  if a_is_bottom x then Some x else if a_is_bottom y then Some y
  else join_like p s_narrow gh_meet x y.

Definition a_leq (x y : adom) : bool :=
  if a_is_bottom x then true else if a_is_top y then true else s_leq (d_base x) (d_base y).

(* ---- register machine (same operations as ArraySmash.ahop) ---- *)
Definition dget (rs : list adom) (r : reg) : adom := nth r rs a_top.
Fixpoint dset (rs : list adom) (r : reg) (v : adom) : list adom :=
  match rs, r with
  | [], _ => []
  | _ :: t, O => v :: t
  | h :: t, S r' => h :: dset t r' v
  end.

(* [None]: CRAB_ERROR *)
Definition dstep (p : params) (rs : list adom) (o : ahop) : option (list adom) :=
  let ret r v := Some (dset rs r v) in
  let opt r (v : option adom) := match v with Some x => Some (dset rs r x) | None => None end in
  match o with
  | ATop r => ret r a_top
  | ABot r => ret r a_bot
  | ACopy r s => ret r (dget rs s)
  | AAssign r x e => ret r (with_base (dget rs r) (s_assign x e (d_base (dget rs r))))
  | AArith r op x y z => ret r (with_base (dget rs r) (s_arith op x y z (d_base (dget rs r))))
  | AAssume r cs => ret r (with_base (dget rs r) (s_assume cs (d_base (dget rs r))))
  | AForget r vs => ret r (a_forget vs (dget rs r))
  | AForget1 r v => ret r (a_forget1 v (dget rs r))
  | AProject r vs => ret r (a_project vs (dget rs r))
  | AExpand r v nv => opt r (a_expand v nv (dget rs r))
  | ARename r f t => opt r (a_rename f t (dget rs r))
  | AInit r a esz lb ub val => opt r (a_array_init p a esz lb ub val (dget rs r))
  | ALoad r lhs a esz idx => opt r (a_array_load p lhs a esz idx (dget rs r))
  | AStore r a esz idx val strong => opt r (a_array_store p a esz idx val strong (dget rs r))
  | ARange r a esz lb ub val => opt r (a_array_store_range p a esz lb ub val (dget rs r))
  | ACopyArr r lhs rhs => ret r (a_array_assign p lhs rhs (dget rs r))
  | AJoin r s t => opt r (a_join p (dget rs s) (dget rs t))
  | AMeet r s t => opt r (a_meet p (dget rs s) (dget rs t))
  | AWiden r s t => opt r (a_widen p (dget rs s) (dget rs t))
  | ANarrow r s t => opt r (a_narrow p (dget rs s) (dget rs t))
  | AWidenThr r s t ths => opt r (a_widen_thr p ths (dget rs s) (dget rs t))
  end.

Fixpoint drun (p : params) (rs : list adom) (h : list ahop) : option (list adom) :=
  match h with
  | [] => Some rs
  | o :: r => match dstep p rs o with Some rs' => drun p rs' r | None => None end
  end.
