(* ItvDomain.v — mirror of ikos::interval_domain<z_number, V> (intervals.hpp) together with
   constraint_simp_domain_traits::lower_disequality and int_cast_domain_traits
   (abstract_domain_specialized_traits.hpp).  Values are environments (ItvEnv.env). *)
From Coq Require Import ZArith NArith List Bool Lia.
From CrabV Require Import Base.ZInf Scalar.Itv Ir.Syntax Dom.ItvEnv Dom.ItvSolver.
Import ListNotations.
Local Open Scope Z_scope.

Definition max_reduction_cycles : N := 10%N.

(* interval_domain::operator[](linear_expression) and the loop of assign *)
Fixpoint eval_terms_itv (ts : list (Z * var)) (e : env) (r : itv) : itv :=
  match ts with
  | [] => r
  | (c, v) :: t => eval_terms_itv t e (iadd r (imul (iconst c) (e_at e v)))
  end.
Definition d_eval (ex : linexp) (e : env) : itv := eval_terms_itv (le_terms ex) e (iconst (le_cst ex)).

Definition d_assign (x : var) (ex : linexp) (e : env) : env :=
  match le_get_variable ex with
  | Some v => e_set e x (e_at e v)
  | None => e_set e x (d_eval ex e)
  end.

Definition d_weak_assign (x : var) (ex : linexp) (e : env) : env :=
  match le_get_variable ex with
  | Some v => e_join_key e x (e_at e v)
  | None => e_join_key e x (d_eval ex e)
  end.

Definition arith_itv (op : arith_op) (a b : itv) : itv :=
  match op with
  | OpAdd => iadd a b | OpSub => isub a b | OpMul => imul a b | OpSDiv => idiv a b
  | OpUDiv => iudiv a b | OpSRem => isrem a b | OpURem => iurem a b
  end.
Definition bit_itv (op : bit_op) (a b : itv) : itv :=
  match op with
  | OpAnd => iand a b | OpOr => ior a b | OpXor => ixor a b | OpShl => ishl a b
  | OpLShr => ilshr a b | OpAShr => iashr a b
  end.

Inductive operand := OVar (v : var) | OCst (k : Z).
Definition operand_itv (o : operand) (e : env) : itv :=
  match o with OVar v => e_at e v | OCst k => iconst k end.

Definition d_apply_arith (op : arith_op) (x y : var) (z : operand) (e : env) : env :=
  e_set e x (arith_itv op (e_at e y) (operand_itv z e)).
Definition d_apply_bit (op : bit_op) (x y : var) (z : operand) (e : env) : env :=
  e_set e x (bit_itv op (e_at e y) (operand_itv z e)).

(* linear_constraint_system::operator+= (syntactic de-duplication) *)
Definition sys_add (s : list lincst) (c : lincst) : list lincst :=
  if existsb (fun c1 => lc_eqb c1 c) s then s else s ++ [c].

(* add without disequality lowering *)
Definition d_add0 (cs : list lincst) (e : env) : env :=
  match e with
  | EBot => EBot
  | EMap m =>
    match solve (fold_left sys_add cs []) max_reduction_cycles m with
    | None => EBot
    | Some m' => EMap m'
    end
  end.

(* interval_domain::entails.  Inside, the value is only ever refined with inequalities
   (negations of inequalities / strict inequalities, equalities for disequations), so the
   disequality lowering of add() cannot fire and d_add0 is what runs. *)
Definition entail_fn (val : env) (c : lincst) : bool := e_is_bot (d_add0 [lc_negate c] val).

Definition d_entails (c : lincst) (e : env) : bool :=
  if e_is_bot e then true
  else if lc_is_tautology c then true
  else if lc_is_contradiction c then false
  else
    let val := fold_left (fun acc v => e_set acc v (e_at e v)) (lc_vars c) e_top in
    match lc_kind c with
    | EQ =>
      if negb (entail_fn val (mkLC INEQ (lc_exp c))) then false
      else entail_fn val (mkLC INEQ (le_neg (lc_exp c)))
    | _ => entail_fn val c
    end.

(* constraint_simp_domain_traits::lower_disequality *)
Definition lower_disequality (e : env) (c : lincst) (out : list lincst) : list lincst :=
  match lc_kind c, le_terms (lc_exp c) with
  | DISEQ, [(nx, vx); (ny, vy)] =>
    if (le_cst (lc_exp c) =? 0) && (nx =? - ny) then
      if d_entails (mkLC INEQ (le_var_minus_var vx vy)) e
      then sys_add out (mkLC STRICT (le_var_minus_var vx vy))
      else if d_entails (mkLC INEQ (le_var_minus_var vy vx)) e
           then sys_add out (mkLC STRICT (le_var_minus_var vy vx))
           else out
    else out
  | _, _ => out
  end.

(* interval_domain::add / operator+= *)
Definition d_add (cs : list lincst) (e : env) : env :=
  match e with
  | EBot => EBot
  | EMap m =>
    let pp := fold_left (fun acc c =>
                 let acc := if ckind_eqb (lc_kind c) DISEQ then lower_disequality e c acc else acc in
                 sys_add acc c) cs [] in
    match solve pp max_reduction_cycles m with
    | None => EBot
    | Some m' => EMap m'
    end
  end.

Definition d_select (lhs : var) (cond : lincst) (e1 e2 : linexp) (e : env) : env :=
  if e_is_bot e then e
  else if e_is_bot (d_add [cond] e) then d_assign lhs e2 e
  else if e_is_bot (d_add [lc_negate cond] e) then d_assign lhs e1 e
  else e_set e lhs (ijoin (d_eval e1 e) (d_eval e2 e)).

Definition d_forget (vs : list var) (e : env) : env :=
  if e_is_bot e || e_is_top e then e else fold_left e_forget vs e.

Definition d_expand (x nx : var) (e : env) : env :=
  if e_is_bot e || e_is_top e then e else e_set e nx (e_at e x).

(* int_cast_domain_traits::apply *)
Definition d_cast (op : cast_op) (dst src : var) (dst_bool src_bool : bool) (src_width : Z)
           (e : env) : env :=
  let e1 := if negb (dst_bool || src_bool) then d_assign dst (mkLE [(1, src)] 0) e
            else e_forget e dst in
  match op with
  | CZExt =>
    if src_bool then
      d_add [mkLC INEQ (mkLE [(1, dst)] (-1))] (d_add [mkLC INEQ (mkLE [(-1, dst)] 0)] e1)
    else d_add [mkLC INEQ (mkLE [(1, dst)] (- (2 ^ src_width - 1)))] e1
  | _ => e1
  end.

(* to_linear_constraint_system *)
Definition d_to_csts (e : env) : list lincst :=
  match e with
  | EBot => [lc_false]
  | EMap m =>
    fold_left (fun acc p =>
      let '(v, i) := p in
      let acc := match lb i with Fin l => sys_add acc (mkLC INEQ (mkLE [(-1, v)] l)) | _ => acc end in
      match ub i with Fin u => sys_add acc (mkLC INEQ (mkLE [(1, v)] (- u))) | _ => acc end)
      (bindings m) []
  end.
