(* FlatBool.v — mirror of crab::domains::flat_boolean_numerical_domain<interval_domain<z_number>>
   (include/crab/domains/flat_boolean_domain.hpp) together with the layers it is built from:
   boolean_value (lib/boolean.cpp), flat_boolean_domain, dual_set_domain over set_domain /
   discrete_domain (discrete_domains.hpp), separate_domain over those values
   (separate_domains.hpp, seen as total maps with a default as in ItvEnv.v) and
   basic_domain_product2 / reduced_domain_product2 (combined_domains.hpp) with its bottom flag
   and lazy canonicalisation.  The numerical component is the interval-domain model
   ItvDomain.v / ItvEnv.v.  Reference constraints (m_bool_to_refcsts) are out of scope: the
   map is always top.  No proofs here. *)
From Coq Require Import ZArith NArith List Bool Lia.
From CrabV Require Import Base.ZInf Scalar.Itv Ir.Syntax Dom.ItvEnv Dom.ItvSolver Dom.ItvDomain
     Fix.Thresholds Dom.History.
Import ListNotations.
Local Open Scope Z_scope.

(* ------------------------------------------------------------------ boolean_value *)

Inductive bval := BvBot | BvFalse | BvTrue | BvTop.

Definition bv_is_bot (v : bval) : bool := match v with BvBot => true | _ => false end.
Definition bv_is_top (v : bval) : bool := match v with BvTop => true | _ => false end.
Definition bv_is_true (v : bval) : bool := match v with BvTrue => true | _ => false end.
Definition bv_is_false (v : bval) : bool := match v with BvFalse => true | _ => false end.

Definition bv_leq (a b : bval) : bool :=
  match a, b with
  | BvBot, _ | _, BvTop => true
  | BvTrue, BvTrue | BvFalse, BvFalse => true
  | _, _ => false
  end.
Definition bv_join (a b : bval) : bval :=
  match a, b with
  | BvBot, x | x, BvBot => x
  | BvTop, _ | _, BvTop => BvTop
  | BvTrue, BvTrue => BvTrue
  | BvFalse, BvFalse => BvFalse
  | _, _ => BvTop
  end.
Definition bv_meet (a b : bval) : bval :=
  match a, b with
  | BvBot, _ | _, BvBot => BvBot
  | BvTop, x | x, BvTop => x
  | BvTrue, BvTrue => BvTrue
  | BvFalse, BvFalse => BvFalse
  | _, _ => BvBot
  end.
Definition bv_and (a b : bval) : bval :=
  match a, b with
  | BvBot, _ | _, BvBot => BvBot
  | BvFalse, _ | _, BvFalse => BvFalse
  | BvTrue, BvTrue => BvTrue
  | _, _ => BvTop
  end.
Definition bv_or (a b : bval) : bval :=
  match a, b with
  | BvBot, _ | _, BvBot => BvBot
  | BvTrue, _ | _, BvTrue => BvTrue
  | BvFalse, BvFalse => BvFalse
  | _, _ => BvTop
  end.
Definition bv_xor (a b : bval) : bval :=
  match a, b with
  | BvBot, _ | _, BvBot => BvBot
  | BvTop, _ | _, BvTop => BvTop
  | BvTrue, BvTrue | BvFalse, BvFalse => BvFalse
  | _, _ => BvTrue
  end.
Definition bv_neg (a : bval) : bval :=
  match a with BvBot => BvBot | BvTrue => BvFalse | BvFalse => BvTrue | BvTop => BvTop end.

Inductive bool_op := BAnd | BOr | BXor.
Definition bv_bin (op : bool_op) (a b : bval) : bval :=
  match op with BAnd => bv_and a b | BOr => bv_or a b | BXor => bv_xor a b end.

(* ------------------------------------------------------------------ sets and dual sets *)

(* set_domain<Element, Compare> / discrete_domain<Element> as sorted duplicate-free lists;
   dual_set_domain: DVBot is the underlying "all elements" set ({...}), DVSet [] is top *)
Section DSet.
  Variable A : Type.
  Variables (aeqb altb : A -> A -> bool).

  Fixpoint ins (x : A) (l : list A) : list A :=
    match l with
    | [] => [x]
    | h :: t => if altb x h then x :: l else if aeqb x h then l else h :: ins x t
    end.
  Definition mem (x : A) (l : list A) : bool := existsb (aeqb x) l.
  Definition rem (x : A) (l : list A) : list A := filter (fun y => negb (aeqb x y)) l.
  Definition union (l1 l2 : list A) : list A := fold_left (fun acc x => ins x acc) l2 l1.
  Definition inter (l1 l2 : list A) : list A := filter (fun x => mem x l2) l1.
  Definition subset (l1 l2 : list A) : bool := forallb (fun x => mem x l2) l1.

  Inductive dval := DVBot | DVSet (l : list A).

  Definition dv_top : dval := DVSet [].
  Definition dv_is_top (v : dval) : bool := match v with DVSet [] => true | _ => false end.
  Definition dv_is_bot (v : dval) : bool := match v with DVBot => true | _ => false end.
  Definition dv_single (x : A) : dval := DVSet [x].

  (* dual_set_domain::operator<= *)
  Definition dv_leq (a b : dval) : bool :=
    if dv_is_top b || dv_is_bot a then true
    else match b, a with
         | DVSet lb, DVSet la => subset lb la
         | _, _ => false
         end.
  (* dual join = meet of the underlying sets *)
  Definition dv_join (a b : dval) : dval :=
    if dv_is_top a || dv_is_top b then dv_top
    else match a, b with
         | DVBot, _ => b
         | _, DVBot => a
         | DVSet la, DVSet lb => DVSet (inter la lb)
         end.
  (* dual meet = join of the underlying sets *)
  Definition dv_meet (a b : dval) : dval :=
    match a, b with
    | DVSet la, DVSet lb => DVSet (union la lb)
    | _, _ => DVBot
    end.
  Definition dv_add (x : A) (v : dval) : dval :=
    match v with DVBot => DVBot | DVSet l => DVSet (ins x l) end.
  Definition dv_rem (x : A) (v : dval) : dval :=
    match v with DVBot => DVBot | DVSet l => DVSet (rem x l) end.
  (* dual_set_domain::at (after the fix): membership; the "all elements" set has everything *)
  Definition dv_at (x : A) (v : dval) : bool :=
    match v with DVBot => true | DVSet l => mem x l end.
  Definition dv_filter (p : A -> bool) (v : dval) : dval :=
    match v with DVBot => DVBot | DVSet l => DVSet (filter p l) end.
  Definition dv_elems (v : dval) : list A := match v with DVBot => [] | DVSet l => l end.
End DSet.
Arguments DVBot {A}.
Arguments DVSet {A} l.
Arguments dv_top {A}.
Arguments dv_is_top {A} v.
Arguments dv_is_bot {A} v.
Arguments dv_single {A} x.
Arguments dv_filter {A} p v.
Arguments dv_elems {A} v.

(* ------------------------------------------------------------------ separate_domain<variable, V> *)

Record vops (V : Type) := mkVops {
  vtop : V; vbot : V; v_is_top : V -> bool; v_is_bot : V -> bool }.
Arguments vtop {V} _.
Arguments vbot {V} _.
Arguments v_is_top {V} _ _.
Arguments v_is_bot {V} _ _.

Section Sep.
  Variable V : Type.
  Variable O : vops V.

  Definition smap := list (var * V).
  Fixpoint sget (m : smap) (k : var) : V :=
    match m with
    | [] => vtop O
    | (k', v) :: r => if N.eqb k' k then v else sget r k
    end.
  Definition srem (m : smap) (k : var) : smap := filter (fun p => negb (N.eqb (fst p) k)) m.
  (* top values are not stored *)
  Definition sput (m : smap) (k : var) (v : V) : smap :=
    if v_is_top O v then srem m k else (k, v) :: srem m k.
  Definition skeys (m : smap) : list var := map fst m.

  Inductive senv := SBot | SMap (m : smap).
  Definition s_top : senv := SMap [].
  Definition s_is_bot (e : senv) : bool := match e with SBot => true | _ => false end.
  Definition s_is_top (e : senv) : bool :=
    match e with SBot => false | SMap m => forallb (fun k => v_is_top O (sget m k)) (skeys m) end.
  Definition s_at (e : senv) (k : var) : V := match e with SBot => vbot O | SMap m => sget m k end.
  Definition s_set (e : senv) (k : var) (v : V) : senv :=
    match e with
    | SBot => SBot
    | SMap m => if v_is_bot O v then SBot else SMap (sput m k v)
    end.
  Definition s_forget (e : senv) (k : var) : senv :=
    match e with SBot => SBot | SMap m => SMap (srem m k) end.

  Definition scomb (absorbing : bool) (f : V -> V -> V) (a b : smap) (k : var) : V :=
    let x := sget a k in let y := sget b k in
    if v_is_top O x then (if absorbing then vtop O else y)
    else if v_is_top O y then (if absorbing then vtop O else x)
    else f x y.
  Fixpoint sbuild (ks : list var) (g : var -> V) (acc : smap) : option smap :=
    match ks with
    | [] => Some acc
    | k :: r => let v := g k in if v_is_bot O v then None else sbuild r g (sput acc k v)
    end.
  Definition smerge (absorbing : bool) (f : V -> V -> V) (a b : smap) : option smap :=
    sbuild (skeys a ++ skeys b) (scomb absorbing f a b) [].

  (* operator| and operator|| (join_op / widening_op: a key bound on one side only disappears) *)
  Definition s_join (f : V -> V -> V) (a b : senv) : senv :=
    match a, b with
    | SBot, _ => b | _, SBot => a
    | SMap x, SMap y => match smerge true f x y with Some m => SMap m | None => SBot end
    end.
  (* operator& and operator&& *)
  Definition s_meet (f : V -> V -> V) (a b : senv) : senv :=
    match a, b with
    | SBot, _ | _, SBot => SBot
    | SMap x, SMap y => match smerge false f x y with Some m => SMap m | None => SBot end
    end.
  Definition s_leq (vleq : V -> V -> bool) (a b : senv) : bool :=
    match a, b with
    | SBot, _ => true
    | _, SBot => false
    | SMap x, SMap y => forallb (fun k => vleq (sget x k) (sget y k)) (skeys x ++ skeys y)
    end.
  Definition s_project (e : senv) (vs : list var) : senv :=
    match e with
    | SBot => SBot
    | SMap m =>
      if forallb (fun k => v_is_top O (sget m k)) (skeys m) then e
      else SMap (fold_right (fun k acc => sput acc k (sget m k)) [] vs)
    end.
  Fixpoint srename_pairs (m : smap) (ps : list (var * var)) : smap :=
    match ps with
    | [] => m
    | (k, nk) :: r =>
      if N.eqb k nk then srename_pairs m r
      else if v_is_top O (sget m k) then srename_pairs m r
      else srename_pairs (srem ((nk, sget m k) :: srem m nk) k) r
    end.
  Definition s_rename (e : senv) (from to : list var) : senv :=
    match e with
    | SBot => SBot
    | SMap m =>
      if forallb (fun k => v_is_top O (sget m k)) (skeys m) then e
      else SMap (srename_pairs m (combine from to))
    end.
  (* transform_if: every bound value is replaced by its image (bindings that become top
     disappear); nothing happens on top and bottom *)
  Definition s_map_vals (f : V -> V) (e : senv) : senv :=
    match e with
    | SBot => SBot
    | SMap m => SMap (fold_right (fun p acc => sput acc (fst p) (f (snd p))) [] m)
    end.
End Sep.
Arguments SBot {V}.
Arguments SMap {V} m.
Arguments s_top {V}.
Arguments s_is_bot {V} e.

(* ---- instances ---- *)

Definition bops : vops bval := mkVops bval BvTop BvBot bv_is_top bv_is_bot.
Definition benv := senv bval.                       (* flat_boolean_domain: separate_domain<variable, boolean_value> *)
Definition be_at (f : benv) (k : var) : bval := s_at bval bops f k.
Definition be_set (f : benv) (k : var) (v : bval) : benv := s_set bval bops f k v.
Definition be_forget (f : benv) (k : var) : benv := s_forget bval f k.
Definition be_is_top (f : benv) : bool := s_is_top bval bops f.
Definition be_join (a b : benv) : benv := s_join bval bops bv_join a b.
Definition be_meet (a b : benv) : benv := s_meet bval bops bv_meet a b.
Definition be_leq (a b : benv) : bool := s_leq bval bops bv_leq a b.

(* linear_constraint::lexicographical_compare (the order of lincst_set_t): kind, then the
   constant, then the terms as (variable, coefficient) pairs *)
Definition ckind_rank (k : ckind) : Z := match k with EQ => 0 | DISEQ => 1 | INEQ => 2 | STRICT => 3 end.
Fixpoint terms_ltb (a b : list (Z * var)) : bool :=
  match a, b with
  | _, [] => false
  | [], _ :: _ => true
  | (c, v) :: r, (c', v') :: r' =>
    if N.ltb v v' || (N.eqb v v' && (c <? c')) then true
    else if N.ltb v' v || (N.eqb v' v && (c' <? c)) then false
    else terms_ltb r r'
  end.
Definition le_ltb (a b : linexp) : bool :=
  if le_cst a <? le_cst b then true
  else if le_cst b <? le_cst a then false
  else terms_ltb (le_terms a) (le_terms b).
Definition lc_ltb (a b : lincst) : bool :=
  if ckind_rank (lc_kind a) <? ckind_rank (lc_kind b) then true
  else if ckind_rank (lc_kind b) <? ckind_rank (lc_kind a) then false
  else le_ltb (lc_exp a) (lc_exp b).

Definition cset := dval lincst.                     (* lincst_set_t *)
Definition cs_meet : cset -> cset -> cset := dv_meet lincst lc_eqb lc_ltb.
Definition cs_join : cset -> cset -> cset := dv_join lincst lc_eqb.
Definition cs_leq : cset -> cset -> bool := dv_leq lincst lc_eqb.
Definition cops : vops cset := mkVops cset dv_top DVBot dv_is_top dv_is_bot.
Definition lenv := senv cset.                       (* m_bool_to_lincsts *)
Definition l_at (e : lenv) (k : var) : cset := s_at cset cops e k.
Definition l_set (e : lenv) (k : var) (v : cset) : lenv := s_set cset cops e k v.
Definition l_forget (e : lenv) (k : var) : lenv := s_forget cset e k.
Definition l_is_top (e : lenv) : bool := s_is_top cset cops e.

Definition vset := dval var.                        (* bool_set_t, invariance_domain_t *)
Definition vs_meet : vset -> vset -> vset := dv_meet var N.eqb N.ltb.
Definition vs_join : vset -> vset -> vset := dv_join var N.eqb.
Definition vs_leq : vset -> vset -> bool := dv_leq var N.eqb.
Definition vs_at (x : var) (s : vset) : bool := dv_at var N.eqb x s.
Definition vs_add (x : var) (s : vset) : vset := dv_add var N.eqb N.ltb x s.
Definition vs_rem (x : var) (s : vset) : vset := dv_rem var N.eqb x s.
Definition vops_ : vops vset := mkVops vset dv_top DVBot dv_is_top dv_is_bot.
Definition bbenv := senv vset.                      (* m_bool_to_bools *)
Definition bb_at (e : bbenv) (k : var) : vset := s_at vset vops_ e k.
Definition bb_set (e : bbenv) (k : var) (v : vset) : bbenv := s_set vset vops_ e k v.
Definition bb_forget (e : bbenv) (k : var) : bbenv := s_forget vset e k.
Definition bb_is_top (e : bbenv) : bool := s_is_top vset vops_ e.

(* ------------------------------------------------------------------ flat_boolean_domain *)

Definition be_assume (f : benv) (x : var) (neg : bool) : benv :=
  be_set f x (bv_meet (be_at f x) (if neg then BvFalse else BvTrue)).
Definition be_assign_var (f : benv) (x y : var) (neg : bool) : benv :=
  be_set f x (if neg then bv_neg (be_at f y) else be_at f y).
Definition be_select (f : benv) (lhs cond b1 b2 : var) : benv :=
  if s_is_bot f then f
  else if N.eqb b1 b2 then be_assign_var f lhs b1 false
  else if s_is_bot (be_assume f cond false) then be_set f lhs (be_at f b2)
  else if s_is_bot (be_assume f cond true) then be_set f lhs (be_at f b1)
  else be_set f lhs (bv_join (be_at f b1) (be_at f b2)).
Definition be_forget_list (f : benv) (vs : list var) : benv :=
  if s_is_bot f || be_is_top f then f else fold_left be_forget vs f.
Definition be_project (f : benv) (vs : list var) : benv := s_project bval bops f vs.
Definition be_expand (f : benv) (x nx : var) : benv :=
  if s_is_bot f || be_is_top f then f else be_set f nx (be_at f x).
Definition be_rename (f : benv) (from to : list var) : benv := s_rename bval bops f from to.

(* canonical listing of the bindings, by variable index *)
Definition be_bindings (m : smap bval) : list (var * bval) :=
  filter (fun p => negb (bv_is_top (snd p)))
         (map (fun k => (k, sget bval bops m k)) (fold_right insert_sorted [] (skeys bval m))).
(* flat_boolean_domain::to_linear_constraint_system *)
Definition be_to_csts (f : benv) : list lincst :=
  match f with
  | SBot => [lc_false]
  | SMap m =>
    if be_is_top f then [lc_true]
    else fold_left (fun acc p =>
           match snd p with
           | BvTrue => sys_add acc (mkLC EQ (mkLE [(1, fst p)] (-1)))
           | BvFalse => sys_add acc (mkLC EQ (mkLE [(1, fst p)] 0))
           | _ => sys_add (sys_add acc (mkLC INEQ (mkLE [(-1, fst p)] 0))) (mkLC INEQ (mkLE [(-1, fst p)] 1))
           end) (be_bindings m) []
  end.

(* ------------------------------------------------------------------ the product *)

(* basic_domain_product2<flat_boolean_domain, interval_domain>: PBot = the bottom flag is set
   (both components are bottom then); PPair may hold a bottom component until the next
   canonicalize() *)
Inductive prod := PBot | PPair (f : benv) (e : env).

Definition canon (p : prod) : prod :=
  match p with
  | PBot => PBot
  | PPair f e => if s_is_bot f || e_is_bot e then PBot else p
  end.
Definition p_is_bot (p : prod) : bool :=
  match p with PBot => true | PPair f e => s_is_bot f || e_is_bot e end.
Definition p_is_top (p : prod) : bool :=
  match p with PBot => false | PPair f e => be_is_top f && e_is_top e end.
(* const accessors *)
Definition p_fst (p : prod) : benv := match p with PBot => SBot | PPair f _ => f end.
Definition p_snd (p : prod) : env := match p with PBot => EBot | PPair _ e => e end.
(* an operation applied through the non-const accessor first() / second() *)
Definition p_on_fst (ff : benv -> benv) (p : prod) : prod :=
  match canon p with PBot => PBot | PPair f e => PPair (ff f) e end.
Definition p_on_snd (fe : env -> env) (p : prod) : prod :=
  match canon p with PBot => PBot | PPair f e => PPair f (fe e) end.
Definition p_top : prod := PPair s_top e_top.

Definition p_leq (a b : prod) : bool :=
  if p_is_bot a then true else if p_is_bot b then false
  else be_leq (p_fst a) (p_fst b) && e_leq (p_snd a) (p_snd b).
Definition p_join (a b : prod) : prod :=
  if p_is_bot a then b else if p_is_bot b then a
  else canon (PPair (be_join (p_fst a) (p_fst b)) (e_join (p_snd a) (p_snd b))).
(* no canonicalisation after a widening *)
Definition p_widen (a b : prod) : prod :=
  PPair (be_join (p_fst a) (p_fst b)) (e_widen (p_snd a) (p_snd b)).
Definition p_widen_thr (gp gn : bound -> bound) (a b : prod) : prod :=
  PPair (be_join (p_fst a) (p_fst b)) (e_widen_thr gp gn (p_snd a) (p_snd b)).
Definition p_meet (a b : prod) : prod :=
  if p_is_bot a || p_is_top b then a else if p_is_bot b || p_is_top a then b
  else canon (PPair (be_meet (p_fst a) (p_fst b)) (e_meet (p_snd a) (p_snd b))).
Definition p_narrow (a b : prod) : prod :=
  if p_is_bot a || p_is_top b then a else if p_is_bot b || p_is_top a then b
  else canon (PPair (be_meet (p_fst a) (p_fst b)) (e_narrow (p_snd a) (p_snd b))).

(* ------------------------------------------------------------------ flat_boolean_numerical_domain *)

Record fstate := mkF { f_prod : prod; f_lin : lenv; f_bools : bbenv; f_unch : vset }.

Definition fb_top : fstate := mkF p_top s_top s_top dv_top.
Definition fb_bot : fstate := mkF PBot SBot SBot DVBot.
Definition fb_is_bot (st : fstate) : bool := p_is_bot (f_prod st).
Definition fb_is_top (st : fstate) : bool :=
  p_is_top (f_prod st) && l_is_top (f_lin st) && bb_is_top (f_bools st).

Definition set_prod (st : fstate) (p : prod) : fstate := mkF p (f_lin st) (f_bools st) (f_unch st).
Definition mark_changed (x : var) (st : fstate) : fstate :=
  mkF (f_prod st) (f_lin st) (f_bools st) (vs_rem x (f_unch st)).

(* remove_constraints_if *)
Definition l_remove_if (p : lincst -> bool) (l : lenv) : lenv :=
  if s_is_bot l || l_is_top l then l
  else s_map_vals cset cops (dv_filter (fun c => negb (p c))) l.
Definition mentions (v : var) (c : lincst) : bool := existsb (N.eqb v) (lc_vars c).
(* mark_unchanged: on the pair (m_bool_to_lincsts, m_unchanged_vars) *)
Definition mark_unchanged (v : var) (lu : lenv * vset) : lenv * vset :=
  let '(l, u) := lu in
  if vs_at v u then lu else (l_remove_if (mentions v) l, vs_add v u).
Definition all_unchanged (u : vset) (c : lincst) : bool := forallb (fun v => vs_at v u) (lc_vars c).
(* applicable_constraints *)
Definition applicable (u : vset) (l : lenv) : lenv := l_remove_if (fun c => negb (all_unchanged u c)) l.
(* forget_references_to_bool *)
Definition bb_remove_refs (x : var) (b : bbenv) : bbenv :=
  if s_is_bot b || bb_is_top b then b else s_map_vals vset vops_ (vs_rem x) b.

(* operator<= *)
Definition fb_leq (a b : fstate) : bool :=
  if fb_is_bot a then true else if fb_is_bot b then false
  else p_leq (f_prod a) (f_prod b) &&
       s_leq cset cops cs_leq (f_lin a) (f_lin b) &&
       s_leq vset vops_ vs_leq (f_bools a) (f_bools b) &&
       (vs_leq (f_unch a) (f_unch b) || l_is_top (f_lin b)).
Definition fb_join (a b : fstate) : fstate :=
  mkF (p_join (f_prod a) (f_prod b))
      (s_join cset cops cs_join (f_lin a) (f_lin b))
      (s_join vset vops_ vs_join (f_bools a) (f_bools b))
      (vs_join (f_unch a) (f_unch b)).
Definition fb_widen (a b : fstate) : fstate :=
  mkF (p_widen (f_prod a) (f_prod b))
      (s_join cset cops cs_join (f_lin a) (f_lin b))
      (s_join vset vops_ vs_join (f_bools a) (f_bools b))
      (vs_join (f_unch a) (f_unch b)).
Definition fb_widen_thr (gp gn : bound -> bound) (a b : fstate) : fstate :=
  mkF (p_widen_thr gp gn (f_prod a) (f_prod b))
      (s_join cset cops cs_join (f_lin a) (f_lin b))
      (s_join vset vops_ vs_join (f_bools a) (f_bools b))
      (vs_join (f_unch a) (f_unch b)).
Definition fb_meet (a b : fstate) : fstate :=
  mkF (p_meet (f_prod a) (f_prod b))
      (s_meet cset cops cs_meet (applicable (f_unch a) (f_lin a)) (applicable (f_unch b) (f_lin b)))
      (s_meet vset vops_ vs_meet (f_bools a) (f_bools b))
      (vs_meet (f_unch a) (f_unch b)).
Definition fb_narrow (a b : fstate) : fstate :=
  mkF (p_narrow (f_prod a) (f_prod b))
      (s_meet cset cops cs_meet (applicable (f_unch a) (f_lin a)) (applicable (f_unch b) (f_lin b)))
      (s_meet vset vops_ vs_meet (f_bools a) (f_bools b))
      (vs_meet (f_unch a) (f_unch b)).

(* ---- numerical operations: the product, then the assigned variable is marked as changed ---- *)

Definition fb_assign (x : var) (ex : linexp) (st : fstate) : fstate :=
  mark_changed x (set_prod st (p_on_snd (d_assign x ex) (f_prod st))).
Definition fb_weak_assign (x : var) (ex : linexp) (st : fstate) : fstate :=
  mark_changed x (set_prod st (p_on_snd (d_weak_assign x ex) (f_prod st))).
Definition fb_arith (op : arith_op) (x y : var) (z : operand) (st : fstate) : fstate :=
  mark_changed x (set_prod st (canon (p_on_snd (d_apply_arith op x y z) (f_prod st)))).
Definition fb_bit (op : bit_op) (x y : var) (z : operand) (st : fstate) : fstate :=
  mark_changed x (set_prod st (canon (p_on_snd (d_apply_bit op x y z) (f_prod st)))).
Definition fb_select (lhs : var) (c : lincst) (e1 e2 : linexp) (st : fstate) : fstate :=
  mark_changed lhs (set_prod st (canon (p_on_snd (d_select lhs c e1 e2) (f_prod st)))).
(* operator+= on constraints over integer variables (the all_non_boolean branch) *)
Definition fb_add (cs : list lincst) (st : fstate) : fstate :=
  match cs with
  | [] => st
  | _ => set_prod st (p_on_snd (d_add cs) (f_prod st))
  end.
Definition fb_entails (c : lincst) (st : fstate) : bool := d_entails c (p_snd (f_prod st)).
Definition fb_bool_at (st : fstate) (v : var) : bval := be_at (p_fst (canon (f_prod st))) v.
Definition fb_at (st : fstate) (v : var) : itv :=
  let bv := be_at (p_fst (f_prod st)) v in
  let i := e_at (p_snd (f_prod st)) v in
  if bv_is_bot bv || is_bot i then ibot
  else match bv with
       | BvTrue => imeet (iconst 1) i
       | BvFalse => imeet (iconst 0) i
       | _ => i
       end.
Definition fb_to_csts (st : fstate) : list lincst :=
  fold_left sys_add (d_to_csts (p_snd (f_prod st)))
            (fold_left sys_add (be_to_csts (p_fst (f_prod st))) []).

(* operator-= *)
Definition fb_havoc (isb : var -> bool) (v : var) (st : fstate) : fstate :=
  let p := p_on_snd (fun e => e_forget e v) (p_on_fst (fun f => be_forget f v) (f_prod st)) in
  let st1 := if isb v then mkF p (l_forget (f_lin st) v) (bb_forget (f_bools st) v) (f_unch st)
             else mkF p (f_lin st) (f_bools st) (vs_rem v (f_unch st)) in
  mkF (f_prod st1) (f_lin st1) (bb_remove_refs v (f_bools st1)) (f_unch st1).

(* ---- boolean operations ---- *)

(* assign_bool_cst with reduce_num_cst_to_bool *)
Definition fb_assign_bool_cst (x : var) (c : lincst) (st : fstate) : fstate :=
  if fb_is_bot st then st
  else
    let p1 := canon (p_on_fst (fun f => be_forget f x) (f_prod st)) in
    let st2 :=
      if lc_is_tautology c then
        mkF (p_on_fst (fun f => be_set f x BvTrue) p1) (l_forget (f_lin st) x) (f_bools st) (f_unch st)
      else if lc_is_contradiction c then
        mkF (p_on_fst (fun f => be_set f x BvFalse) p1) (l_forget (f_lin st) x) (f_bools st) (f_unch st)
      else
        let e := p_snd (canon p1) in
        let v := if d_entails c e then BvTrue
                 else if d_entails (lc_negate c) e then BvFalse else BvTop in
        let '(l, u) := fold_left (fun lu w => mark_unchanged w lu) (lc_vars c) (f_lin st, f_unch st) in
        mkF (p_on_fst (fun f => be_set f x v) p1) (l_set l x (dv_single c)) (f_bools st) u in
    mkF (f_prod st2) (f_lin st2) (bb_remove_refs x (bb_forget (f_bools st2) x)) (f_unch st2).

Definition is_single {A} (v : dval A) : option A := match v with DVSet [c] => Some c | _ => None end.
(* propagate_assign_bool_var *)
Definition l_propagate (l : lenv) (x y : var) (neg : bool) : lenv :=
  if neg then
    match is_single (l_at l y) with
    | Some c => l_set l x (dv_single (lc_negate c))
    | None => l_forget l x
    end
  else l_set l x (l_at l y).

Definition fb_assign_bool_var (x y : var) (neg : bool) (st : fstate) : fstate :=
  if fb_is_bot st then st
  else
    let p := canon (p_on_fst (fun f => be_assign_var f x y neg) (f_prod st)) in
    let l := l_propagate (f_lin st) x y neg in
    let b := if neg then bb_forget (f_bools st) x
             else bb_set (f_bools st) x (vs_meet (bb_at (f_bools st) y) (dv_single y)) in
    mkF p l (bb_remove_refs x b) (f_unch st).

(* DEFAULT_WEAK_BOOL_ASSIGN *)
Definition fb_weak_assign_bool_cst (x : var) (c : lincst) (st : fstate) : fstate :=
  if fb_is_bot st then st else fb_join st (fb_assign_bool_cst x c st).
Definition fb_weak_assign_bool_var (x y : var) (neg : bool) (st : fstate) : fstate :=
  if fb_is_bot st then st else fb_join st (fb_assign_bool_var x y neg st).

Definition fb_apply_binary_bool (op : bool_op) (x y z : var) (st : fstate) : fstate :=
  if fb_is_bot st then st
  else
    let p := canon (p_on_fst (fun f => be_set f x (bv_bin op (be_at f y) (be_at f z))) (f_prod st)) in
    let bs := f_bools st in
    let b := match op with
             | BAnd => bb_set bs x (vs_meet (vs_meet (vs_meet (bb_at bs y) (bb_at bs z)) (dv_single y)) (dv_single z))
             | _ => bb_forget bs x
             end in
    mkF p (l_forget (f_lin st) x) (bb_remove_refs x b) (f_unch st).

(* add_if_unchanged *)
Definition unch_covers (u : vset) (c : lincst) : bool :=
  vs_leq u (DVSet (fold_left (fun acc v => ins var N.eqb N.ltb v acc) (lc_vars c) [])).
Definition add_if_unchanged (u : vset) (c : lincst) (p : prod) : prod :=
  if unch_covers u c then p_on_snd (d_add [c]) p else p.
(* bwd_reduction_assume_bool (only reached with is_negated = false: reduce_bool_to_csts does
   nothing for a negated assume) *)
Definition bwd_reduction (l : lenv) (u : vset) (x : var) (p : prod) : prod :=
  let cx := l_at l x in
  if dv_is_top cx || dv_is_bot cx then p
  else fold_left (fun q c => add_if_unchanged u c q) (dv_elems cx) p.

(* assume_bool with reduce_bool_to_csts *)
Definition fb_assume_bool (x : var) (neg : bool) (st : fstate) : fstate :=
  if fb_is_bot st then st
  else
    let p := canon (p_on_fst (fun f => be_assume f x neg) (f_prod st)) in
    if p_is_bot p then set_prod st p
    else if neg then set_prod st p
    else
      let '(p1, l1) :=
        fold_left (fun pl v =>
                     let '(q, l) := pl in
                     (p_on_fst (fun f => be_assume f v false) q, l_set l x (cs_meet (l_at l x) (l_at l v))))
                  (dv_elems (bb_at (f_bools st) x)) (p, f_lin st) in
      mkF (bwd_reduction l1 (f_unch st) x p1) l1 (f_bools st) (f_unch st).

Definition fb_select_bool (lhs cond b1 b2 : var) (st : fstate) : fstate :=
  if fb_is_bot st then st
  else if N.eqb b1 b2 then fb_assign_bool_var lhs b1 false st
  else
    let f0 := p_fst (canon (f_prod st)) in
    let cv := be_at f0 cond in let v1 := be_at f0 b1 in let v2 := be_at f0 b2 in
    let p := canon (p_on_fst (fun f => be_select f lhs cond b1 b2) (f_prod st)) in
    let l0 := f_lin st in let bs := f_bools st in
    let '(l, b) :=
      if bv_is_true cv then
        (l_set l0 lhs (l_at l0 b1), bb_set bs lhs (vs_meet (bb_at bs b1) (dv_single b1)))
      else if bv_is_false cv then
        (l_set l0 lhs (l_at l0 b2), bb_set bs lhs (vs_meet (bb_at bs b2) (dv_single b2)))
      else
        let l :=
          if bv_is_true v1 && bv_is_false v2 then l_propagate l0 lhs cond false
          else if bv_is_false v1 && bv_is_true v2 then l_propagate l0 lhs cond true
          else l_forget l0 lhs in
        let b :=
          if bv_is_false v2 then
            bb_set bs lhs (vs_meet (vs_meet (vs_meet (bb_at bs b1) (bb_at bs cond)) (dv_single b1)) (dv_single cond))
          else if bv_is_false v1 then bb_set bs lhs (vs_meet (bb_at bs b2) (dv_single b2))
          else bb_forget bs lhs in
        (l, b) in
    mkF p l (bb_remove_refs lhs b) (f_unch st).

(* apply(int_conv_operation_t): [db]/[sb] = the destination / source has bit-width 1 (in the
   harness: is a Boolean variable), w = bit-width of the source *)
Definition fb_cast (op : cast_op) (dst src : var) (db sb : bool) (w : Z) (st : fstate) : fstate :=
  match op with
  | CTrunc =>
    if negb sb && db then
      let p0 := canon (f_prod st) in
      let i := e_at (p_snd p0) src in
      let v := if ieq i (iconst 0) then BvFalse
               else if negb (ileq (iconst 0) i) then BvTrue else BvTop in
      mkF (p_on_fst (fun f => be_set f dst v) p0) (l_forget (f_lin st) dst)
          (bb_remove_refs dst (bb_forget (f_bools st) dst)) (f_unch st)
    else mark_changed dst (set_prod st (canon (p_on_snd (d_cast op dst src db sb w) (f_prod st))))
  | _ =>
    if sb && negb db then
      let p0 := canon (f_prod st) in
      let bv := be_at (p_fst p0) src in
      let p := if bv_is_true bv then p_on_snd (d_assign dst (mkLE [] 1)) p0
               else if bv_is_false bv then p_on_snd (d_assign dst (mkLE [] 0)) p0
               else p_on_snd (d_cast op dst src db sb w) p0 in
      mark_changed dst (set_prod st p)
    else mark_changed dst (set_prod st (canon (p_on_snd (d_cast op dst src db sb w) (f_prod st))))
  end.

(* ---- forget / project / rename / expand ---- *)

Definition fb_forget (isb : var -> bool) (vs : list var) (st : fstate) : fstate :=
  if fb_is_bot st || fb_is_top st then st
  else
    let p := p_on_snd (d_forget vs) (p_on_fst (fun f => be_forget_list f vs) (f_prod st)) in
    let st1 := fold_left (fun s v =>
                 if isb v then mkF (f_prod s) (l_forget (f_lin s) v) (bb_forget (f_bools s) v) (f_unch s)
                 else mark_changed v s) vs (set_prod st p) in
    let b := f_bools st1 in
    let b' := if s_is_bot b || bb_is_top b then b
              else s_map_vals vset vops_ (fun s => fold_left (fun acc v => vs_rem v acc) vs s) b in
    mkF (f_prod st1) (f_lin st1) b' (f_unch st1).

Definition fb_project (vs : list var) (st : fstate) : fstate :=
  if fb_is_bot st || fb_is_top st then st
  else match vs with
       | [] => fb_top
       | _ => mkF (p_on_snd (fun e => e_project e vs) (p_on_fst (fun f => be_project f vs) (f_prod st)))
                  s_top s_top dv_top
       end.

Definition fb_rename (isb : var -> bool) (from to : list var) (st : fstate) : fstate :=
  if fb_is_bot st || fb_is_top st then st
  else
    let p := p_on_snd (fun e => e_rename e from to) (p_on_fst (fun f => be_rename f from to) (f_prod st)) in
    let l := s_rename cset cops (f_lin st) (filter isb from) (filter isb to) in
    let u := fold_left (fun acc v => if isb v then acc else vs_rem v acc) (from ++ to) (f_unch st) in
    mkF p l s_top u.

Definition fb_expand (isb : var -> bool) (x nx : var) (st : fstate) : fstate :=
  if fb_is_bot st || fb_is_top st then st
  else
    let p := p_on_snd (d_expand x nx) (p_on_fst (fun f => be_expand f x nx) (f_prod st)) in
    if isb x then
      mkF p (l_set (f_lin st) nx (l_at (f_lin st) x))
          (bb_remove_refs nx (bb_forget (f_bools st) nx)) (f_unch st)
    else
      let xu := vs_at x (f_unch st) in
      let u0 := vs_rem nx (f_unch st) in
      let '(l, u) := if xu then mark_unchanged nx (f_lin st, u0) else (f_lin st, u0) in
      mkF p l (f_bools st) u.

(* normalize / minimize: the accessors canonicalise the product *)
Definition fb_normalize (st : fstate) : fstate := set_prod st (canon (f_prod st)).

(* ------------------------------------------------------------------ histories *)

Inductive fhop :=
| FTop (r : reg) | FBot (r : reg) | FCopy (r s : reg)
| FAssign (r : reg) (x : var) (e : linexp)
| FWeakAssign (r : reg) (x : var) (e : linexp)
| FArith (r : reg) (op : arith_op) (x y : var) (z : operand)
| FBit (r : reg) (op : bit_op) (x y : var) (z : operand)
| FCast (r : reg) (op : cast_op) (dst src : var) (dst_bool src_bool : bool) (w : Z)
| FAssume (r : reg) (cs : list lincst)
| FSelect (r : reg) (lhs : var) (c : lincst) (e1 e2 : linexp)
| FForget (r : reg) (vs : list var)
| FProject (r : reg) (vs : list var)
| FRename (r : reg) (from to : list var)
| FExpand (r : reg) (x nx : var)
| FHavoc (r : reg) (x : var)
| FJoin (r s t : reg) | FMeet (r s t : reg) | FWiden (r s t : reg) | FNarrow (r s t : reg)
| FWidenThr (r s t : reg) (ths : list Z)
| FNormalize (r : reg)
| FBAssign (r : reg) (b : var) (c : lincst)
| FBWAssign (r : reg) (b : var) (c : lincst)
| FBCopy (r : reg) (b b1 : var) (neg : bool)
| FBWCopy (r : reg) (b b1 : var) (neg : bool)
| FBBin (r : reg) (op : bool_op) (b b1 b2 : var)
| FBAssume (r : reg) (b : var) (neg : bool)
| FBSelect (r : reg) (b bc b1 b2 : var)
| FProbe (r t : reg) (b : var) (neg : bool).      (* r := t ; assume_bool(r, b, neg) *)

Definition frget (rs : list fstate) (r : reg) : fstate := nth r rs fb_top.
Fixpoint frset (rs : list fstate) (r : reg) (v : fstate) : list fstate :=
  match rs, r with
  | [], _ => []
  | _ :: t, O => v :: t
  | h :: t, S r' => h :: frset t r' v
  end.

(* [isb]: which variables have Boolean type *)
Definition fstep (isb : var -> bool) (rs : list fstate) (o : fhop) : list fstate :=
  match o with
  | FTop r => frset rs r fb_top
  | FBot r => frset rs r fb_bot
  | FCopy r s => frset rs r (frget rs s)
  | FAssign r x e => frset rs r (fb_assign x e (frget rs r))
  | FWeakAssign r x e => frset rs r (fb_weak_assign x e (frget rs r))
  | FArith r op x y z => frset rs r (fb_arith op x y z (frget rs r))
  | FBit r op x y z => frset rs r (fb_bit op x y z (frget rs r))
  | FCast r op d s db sb w => frset rs r (fb_cast op d s db sb w (frget rs r))
  | FAssume r cs => frset rs r (fb_add cs (frget rs r))
  | FSelect r l c e1 e2 => frset rs r (fb_select l c e1 e2 (frget rs r))
  | FForget r vs => frset rs r (fb_forget isb vs (frget rs r))
  | FProject r vs => frset rs r (fb_project vs (frget rs r))
  | FRename r f t => frset rs r (fb_rename isb f t (frget rs r))
  | FExpand r x nx => frset rs r (fb_expand isb x nx (frget rs r))
  | FHavoc r x => frset rs r (fb_havoc isb x (frget rs r))
  | FJoin r s t => frset rs r (fb_join (frget rs s) (frget rs t))
  | FMeet r s t => frset rs r (fb_meet (frget rs s) (frget rs t))
  | FWiden r s t => frset rs r (fb_widen (frget rs s) (frget rs t))
  | FNarrow r s t => frset rs r (fb_narrow (frget rs s) (frget rs t))
  | FWidenThr r s t ths =>
    let th := mk_thresholds ths in
    frset rs r (fb_widen_thr (thr_prev th) (thr_next th) (frget rs s) (frget rs t))
  | FNormalize r => frset rs r (fb_normalize (frget rs r))
  | FBAssign r b c => frset rs r (fb_assign_bool_cst b c (frget rs r))
  | FBWAssign r b c => frset rs r (fb_weak_assign_bool_cst b c (frget rs r))
  | FBCopy r b b1 neg => frset rs r (fb_assign_bool_var b b1 neg (frget rs r))
  | FBWCopy r b b1 neg => frset rs r (fb_weak_assign_bool_var b b1 neg (frget rs r))
  | FBBin r op b b1 b2 => frset rs r (fb_apply_binary_bool op b b1 b2 (frget rs r))
  | FBAssume r b neg => frset rs r (fb_assume_bool b neg (frget rs r))
  | FBSelect r b bc b1 b2 => frset rs r (fb_select_bool b bc b1 b2 (frget rs r))
  | FProbe r t b neg => frset rs r (fb_assume_bool b neg (frget rs t))
  end.

Definition frun (isb : var -> bool) (rs : list fstate) (h : list fhop) : list fstate :=
  fold_left (fstep isb) h rs.
