(* History.v — register machine over abstract values (property C03/C04/C05/C16): a history
   is a list of operations on a few registers holding interval-domain values. *)
From Coq Require Import ZArith NArith List Bool Lia.
From CrabV Require Import Base.ZInf Scalar.Itv Ir.Syntax Dom.ItvEnv Dom.ItvSolver Dom.ItvDomain
     Fix.Thresholds.
Import ListNotations.
Local Open Scope Z_scope.

Definition reg := nat.

Inductive hop :=
| HTop (r : reg) | HBot (r : reg) | HCopy (r s : reg)
| HAssign (r : reg) (x : var) (e : linexp)
| HWeakAssign (r : reg) (x : var) (e : linexp)
| HArith (r : reg) (op : arith_op) (x y : var) (z : operand)
| HBit (r : reg) (op : bit_op) (x y : var) (z : operand)
| HCast (r : reg) (op : cast_op) (dst src : var) (dst_bool src_bool : bool) (w : Z)
| HAssume (r : reg) (cs : list lincst)
| HSelect (r : reg) (lhs : var) (c : lincst) (e1 e2 : linexp)
| HForget (r : reg) (vs : list var)
| HProject (r : reg) (vs : list var)
| HRename (r : reg) (from to : list var)
| HExpand (r : reg) (x nx : var)
| HJoin (r s t : reg) | HMeet (r s t : reg) | HWiden (r s t : reg) | HNarrow (r s t : reg)
| HWidenThr (r s t : reg) (ths : list Z).

Definition rget (rs : list env) (r : reg) : env := nth r rs e_top.
Fixpoint rset (rs : list env) (r : reg) (v : env) : list env :=
  match rs, r with
  | [], _ => []
  | _ :: t, O => v :: t
  | h :: t, S r' => h :: rset t r' v
  end.

Definition mk_thresholds (ths : list Z) : thr :=
  fold_left (fun t z => thr_add 4294967295%N t (Fin z)) ths thr_init.

Definition hstep (rs : list env) (o : hop) : list env :=
  match o with
  | HTop r => rset rs r e_top
  | HBot r => rset rs r EBot
  | HCopy r s => rset rs r (rget rs s)
  | HAssign r x e => rset rs r (d_assign x e (rget rs r))
  | HWeakAssign r x e => rset rs r (d_weak_assign x e (rget rs r))
  | HArith r op x y z => rset rs r (d_apply_arith op x y z (rget rs r))
  | HBit r op x y z => rset rs r (d_apply_bit op x y z (rget rs r))
  | HCast r op d s db sb w => rset rs r (d_cast op d s db sb w (rget rs r))
  | HAssume r cs => rset rs r (d_add cs (rget rs r))
  | HSelect r l c e1 e2 => rset rs r (d_select l c e1 e2 (rget rs r))
  | HForget r vs => rset rs r (d_forget vs (rget rs r))
  | HProject r vs => rset rs r (e_project (rget rs r) vs)
  | HRename r f t => rset rs r (e_rename (rget rs r) f t)
  | HExpand r x nx => rset rs r (d_expand x nx (rget rs r))
  | HJoin r s t => rset rs r (e_join (rget rs s) (rget rs t))
  | HMeet r s t => rset rs r (e_meet (rget rs s) (rget rs t))
  | HWiden r s t => rset rs r (e_widen (rget rs s) (rget rs t))
  | HNarrow r s t => rset rs r (e_narrow (rget rs s) (rget rs t))
  | HWidenThr r s t ths =>
    let th := mk_thresholds ths in
    rset rs r (e_widen_thr (thr_prev th) (thr_next th) (rget rs s) (rget rs t))
  end.

Definition hrun (rs : list env) (h : list hop) : list env := fold_left hstep h rs.
