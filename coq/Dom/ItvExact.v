(* ItvExact.v — property C12 for the interval language (+-x <= k, < and = over the integers)
   on the MIRROR model of ikos::interval_domain (Dom/ItvDomain.v with the linear interval
   solver of Dom/ItvSolver.v): after assuming any list of constraints of the language the
   value is bottom exactly when they are unsatisfiable, its points are exactly the points
   of the old value that satisfy them, entails answers yes exactly when the constraint is
   implied, join is the least environment above both operands, meet and forget are exact.
   Unbounded: all environments whose stored intervals are well formed and non-empty (an
   invariant that every operation keeps), all constants, all lists of constraints. *)
From Coq Require Import ZArith NArith List Bool Lia.
From CrabV Require Import Base.ZInf Scalar.Itv Scalar.ItvSound Scalar.ItvTight Ir.Syntax
     Dom.ItvEnv Dom.ItvEnvSound Dom.ItvSolver Dom.ItvSolverSound Dom.ItvDomain Dom.ItvDomainSound.
Import ListNotations.
Local Open Scope Z_scope.

(* ------------------------------------------------------------------ good intervals *)
Definition iwf (i : itv) : Prop := wf i /\ is_bot i = false.

Lemma iwf_top : iwf itop.
Proof. split; [apply wf_top|reflexivity]. Qed.

Lemma iwf_inhabited i : iwf i -> exists z, gamma i z.
Proof. intros [W B]. apply wf_inhabited; auto. Qed.

Lemma iwf_of_gamma i z : wf i -> gamma i z -> iwf i.
Proof. intros W G. split; auto. eapply gamma_not_bot; eauto. Qed.

Lemma is_top_gamma_iwf v z : iwf v -> is_top v = true -> gamma v z.
Proof.
  intros [W B] T. destruct (wf_nonbot _ W B) as (H1 & H2 & H3).
  unfold is_top in T. apply andb_true_iff in T. destruct T as [T1 T2].
  unfold gamma. destruct (lb v), (ub v); simpl in *; try discriminate; try congruence; auto.
Qed.

Definition mwfI (m : amap) : Prop := forall k, iwf (get m k).
Definition ewf (e : env) : Prop := match e with EBot => True | EMap m => mwfI m end.

Lemma get_put_same_gamma m k v z : iwf v -> (gamma (get (put m k v) k) z <-> gamma v z).
Proof.
  intros W. unfold put. destruct (is_top v) eqn:T.
  - rewrite get_remove_same. split; intros _; [apply is_top_gamma_iwf; auto|apply gamma_top].
  - simpl. rewrite N.eqb_refl. tauto.
Qed.

Lemma get_put_same_iwf m k v : iwf v -> iwf (get (put m k v) k).
Proof.
  intros W. unfold put. destruct (is_top v) eqn:T.
  - rewrite get_remove_same. apply iwf_top.
  - simpl. rewrite N.eqb_refl. auto.
Qed.

Lemma mwfI_put m k v : mwfI m -> iwf v -> mwfI (put m k v).
Proof.
  intros M W k'. destruct (N.eq_dec k' k) as [->|N].
  - apply get_put_same_iwf; auto.
  - rewrite get_put_other by auto. apply M.
Qed.

Lemma mwfI_remove m k : mwfI m -> mwfI (remove m k).
Proof.
  intros M k'. destruct (N.eq_dec k' k) as [->|N].
  - rewrite get_remove_same. apply iwf_top.
  - rewrite get_remove_other by auto. apply M.
Qed.

Lemma mwfI_nil : mwfI [].
Proof. intros k. apply iwf_top. Qed.

(* a representative of each stored interval *)
Definition pick_itv (i : itv) : Z :=
  match lb i, ub i with
  | Fin l, _ => l
  | _, Fin u => u
  | _, _ => 0
  end.

Lemma pick_itv_in i : iwf i -> gamma i (pick_itv i).
Proof.
  intros [W B]. destruct (wf_nonbot _ W B) as (H1 & H2 & H3).
  unfold gamma, pick_itv. destruct (lb i), (ub i); simpl in *; try congruence; auto;
    rewrite ?Z.leb_refl; auto.
Qed.

Lemma mwfI_inhabited m : mwfI m -> exists s, gmap m s.
Proof. intros M. exists (fun k => pick_itv (get m k)). intros k. apply pick_itv_in. apply M. Qed.

(* membership is independent per variable *)
Lemma gmap_upd m s k z : gmap m s -> gamma (get m k) z -> gmap m (upd s k z).
Proof.
  intros G Z k'. destruct (N.eq_dec k' k) as [->|N].
  - rewrite upd_same. auto.
  - rewrite upd_other by auto. apply G.
Qed.

(* bottom exactly when there is no store *)
Theorem e_bottom_exact e : ewf e -> (e_is_bot e = true <-> forall s, ~ genv e s).
Proof.
  destruct e as [|m]; simpl; intros W.
  - split; auto.
  - split; [discriminate|]. intros H. destruct (mwfI_inhabited m W) as [s G]. destruct (H s G).
Qed.

(* inclusion of the point sets is pointwise inclusion of the intervals *)
Lemma genv_incl_pointwise ma mc :
  mwfI ma -> (forall s, gmap ma s -> gmap mc s) ->
  forall k z, gamma (get ma k) z -> gamma (get mc k) z.
Proof.
  intros M H k z G. destruct (mwfI_inhabited ma M) as [s0 G0].
  specialize (H _ (gmap_upd ma s0 k z G0 G) k). rewrite upd_same in H. exact H.
Qed.

(* ------------------------------------------------------------------ pointwise merges *)
Lemma build_get g : forall ks acc m,
  (forall k, In k ks -> iwf (g k)) -> mwfI acc -> build ks g acc = Some m ->
  mwfI m /\
  forall k z, gamma (get m k) z <-> (if in_dec N.eq_dec k ks then gamma (g k) z else gamma (get acc k) z).
Proof.
  induction ks as [|k0 r IH]; intros acc m W A B; simpl in *.
  - inversion B; subst. split; auto. intros; tauto.
  - destruct (is_bot (g k0)) eqn:E; [discriminate|].
    assert (W0 : iwf (g k0)) by (apply W; auto).
    destruct (IH _ _ (fun k I => W k (or_intror I)) (mwfI_put acc k0 (g k0) A W0) B) as [M G].
    split; auto. intros k z. rewrite G. destruct (in_dec N.eq_dec k r) as [I|I].
    + destruct (N.eq_dec k0 k); tauto.
    + destruct (N.eq_dec k0 k) as [->|N].
      * apply get_put_same_gamma; auto.
      * rewrite get_put_other by auto. tauto.
Qed.

Lemma build_none g : forall ks acc,
  build ks g acc = None -> exists k, In k ks /\ is_bot (g k) = true.
Proof.
  induction ks as [|k0 r IH]; intros acc B; simpl in *; [discriminate|].
  destruct (is_bot (g k0)) eqn:E.
  - exists k0. auto.
  - destruct (IH _ B) as [k [I Bk]]. exists k. auto.
Qed.

Lemma get_keys_top m k : ~ In k (keys m) -> get m k = itop.
Proof. apply get_not_key. Qed.

(* ---- join: the least environment above both *)
Lemma comb_join_iwf a b k : mwfI a -> mwfI b -> iwf (comb true true ijoin a b k).
Proof.
  intros A B. unfold comb. destruct (is_top (get a k)); [apply iwf_top|].
  destruct (is_top (get b k)); [apply iwf_top|].
  destruct (iwf_inhabited _ (A k)) as [z Z].
  apply (iwf_of_gamma _ z); [apply wf_ijoin; [apply A|apply B]|apply ijoin_sound_l; auto].
Qed.

Theorem e_join_wf a b : ewf a -> ewf b -> ewf (e_join a b).
Proof.
  destruct a as [|x], b as [|y]; simpl; auto. intros A B. unfold merge.
  destruct (build _ _ _) as [m|] eqn:E; simpl; auto.
  apply (build_get _ _ _ _ (fun k _ => comb_join_iwf x y k A B) mwfI_nil E).
Qed.

Theorem e_join_least a b c : ewf a -> ewf b ->
  (forall s, genv a s -> genv c s) -> (forall s, genv b s -> genv c s) ->
  forall s, genv (e_join a b) s -> genv c s.
Proof.
  intros Wa Wb Ha Hb s. destruct a as [|x], b as [|y]; simpl; auto; try tauto.
  simpl in Wa, Wb. unfold merge. destruct (build _ _ _) as [m|] eqn:E; simpl; [|tauto].
  destruct (build_get _ _ _ _ (fun k _ => comb_join_iwf x y k Wa Wb) mwfI_nil E) as [M G].
  intros Gm. destruct c as [|mc].
  - destruct (mwfI_inhabited x Wa) as [s0 G0]. destruct (Ha s0 G0).
  - simpl in *. intros k.
    pose proof (genv_incl_pointwise x mc Wa Ha k) as Pa.
    pose proof (genv_incl_pointwise y mc Wb Hb k) as Pb.
    specialize (Gm k). apply G in Gm.
    assert (C : gamma (comb true true ijoin x y k) (s k)).
    { destruct (in_dec N.eq_dec k (keys x ++ keys y)) as [I|I]; auto.
      unfold comb. rewrite (get_keys_top x k), (get_keys_top y k); simpl; try apply gamma_top;
        intros J; apply I; apply in_or_app; auto. }
    clear Gm. unfold comb in C.
    destruct (is_top (get x k)) eqn:Tx.
    { apply Pa. apply is_top_gamma_iwf; auto. }
    destruct (is_top (get y k)) eqn:Ty.
    { apply Pb. apply is_top_gamma_iwf; auto. }
    assert (L : ileq (ijoin (get x k) (get y k)) (get mc k) = true).
    { apply ijoin_tight; [apply Wa|apply Wb|]. intros z [Z|Z]; auto. }
    apply (ileq_sound _ _ L). exact C.
Qed.

(* ---- meet: exact *)
Lemma comb_meet_gamma a b k z : mwfI a -> mwfI b ->
  (gamma (comb false true imeet a b k) z <-> (gamma (get a k) z /\ gamma (get b k) z)).
Proof.
  intros A B. unfold comb. destruct (is_top (get a k)) eqn:Ta.
  - split; [intros G; split; auto; apply is_top_gamma_iwf; auto|tauto].
  - destruct (is_top (get b k)) eqn:Tb.
    + split; [intros G; split; auto; apply is_top_gamma_iwf; auto|tauto].
    + apply imeet_exact.
Qed.

Lemma comb_meet_wf a b k : mwfI a -> mwfI b -> wf (comb false true imeet a b k).
Proof.
  intros A B. unfold comb. destruct (is_top (get a k)); [apply B|].
  destruct (is_top (get b k)); [apply A|]. apply wf_imeet; [apply A|apply B].
Qed.

Lemma build_some g : forall ks acc m,
  build ks g acc = Some m -> forall k, In k ks -> is_bot (g k) = false.
Proof.
  induction ks as [|k0 r IH]; intros acc m B k I; simpl in *; [tauto|].
  destruct (is_bot (g k0)) eqn:E; [discriminate|].
  destruct I as [<-|I]; auto. eapply IH; eauto.
Qed.

Lemma not_in_keys_top x y k : ~ In k (keys x ++ keys y) -> get x k = itop /\ get y k = itop.
Proof.
  intros I. split; apply get_keys_top; intros J; apply I; apply in_or_app; auto.
Qed.

Theorem e_meet_exact a b : ewf a -> ewf b ->
  ewf (e_meet a b) /\ forall s, genv (e_meet a b) s <-> (genv a s /\ genv b s).
Proof.
  destruct a as [|x], b as [|y]; simpl; try (intros; split; [exact I|intros; tauto]).
  intros A B. unfold merge. destruct (build _ _ _) as [m|] eqn:E; simpl.
  - assert (W : forall k, In k (keys x ++ keys y) -> iwf (comb false true imeet x y k)).
    { intros k I. split; [apply comb_meet_wf; auto|]. eapply build_some; eauto. }
    destruct (build_get _ _ _ _ W mwfI_nil E) as [M G]. split; auto.
    intros s. split.
    + intros Gm. assert (X : forall k, gamma (get x k) (s k) /\ gamma (get y k) (s k)).
      { intros k. specialize (Gm k). apply G in Gm.
        destruct (in_dec N.eq_dec k (keys x ++ keys y)) as [I|I].
        - apply comb_meet_gamma; auto.
        - destruct (not_in_keys_top x y k I) as [-> ->]. split; apply gamma_top. }
      split; intros k; apply X.
    + intros [Gx Gy] k. apply G. destruct (in_dec N.eq_dec k (keys x ++ keys y)) as [I|I].
      * apply comb_meet_gamma; auto.
      * apply gamma_top.
  - split; auto. intros s. split; [tauto|]. intros [Gx Gy].
    destruct (build_none _ _ _ E) as [k [_ Bk]].
    apply (is_bot_gamma_empty _ (s k) Bk). apply comb_meet_gamma; auto.
Qed.

(* ---- forget: exact *)
Lemma e_is_top_gamma m s : mwfI m -> forallb (fun k => is_top (get m k)) (keys m) = true -> gmap m s.
Proof.
  intros M T k. destruct (in_dec N.eq_dec k (keys m)) as [I|I].
  - rewrite forallb_forall in T. apply is_top_gamma_iwf; auto.
  - rewrite get_keys_top by auto. apply gamma_top.
Qed.

Definition off_eq (vs : list var) (s s' : store) : Prop := forall k, ~ In k vs -> s' k = s k.

Lemma fold_forget_spec vs : forall m,
  mwfI m ->
  match fold_left e_forget vs (EMap m) with
  | EBot => False
  | EMap m' => mwfI m' /\ forall k, get m' k = if in_dec N.eq_dec k vs then itop else get m k
  end.
Proof.
  induction vs as [|v r IH]; intros m M; simpl.
  - split; auto.
  - specialize (IH (remove m v) (mwfI_remove m v M)).
    destruct (fold_left e_forget r (EMap (remove m v))) as [|m']; auto.
    destruct IH as [M' G]. split; auto. intros k. rewrite G.
    destruct (in_dec N.eq_dec k r) as [I|I].
    + destruct (N.eq_dec v k); auto.
    + destruct (N.eq_dec v k) as [->|N].
      * apply get_remove_same.
      * apply get_remove_other. auto.
Qed.

Theorem d_forget_exact vs e : ewf e ->
  ewf (d_forget vs e) /\
  forall s', genv (d_forget vs e) s' <-> exists s, genv e s /\ off_eq vs s s'.
Proof.
  intros W. unfold d_forget. destruct e as [|m]; simpl.
  - split; auto. intros s'. split; [tauto|]. intros [s [[] _]].
  - destruct (forallb (fun k => is_top (get m k)) (keys m)) eqn:T.
    + split; auto. intros s'. split.
      * intros G. exists s'. split; auto. intros k _. reflexivity.
      * intros _. apply e_is_top_gamma; auto.
    + pose proof (fold_forget_spec vs m W) as F.
      destruct (fold_left e_forget vs (EMap m)) as [|m']; [tauto|]. destruct F as [M' G].
      split; auto. intros s'. simpl. split.
      * intros Gs. destruct (mwfI_inhabited m W) as [s0 G0].
        exists (fun k => if in_dec N.eq_dec k vs then s0 k else s' k). split.
        -- intros k. destruct (in_dec N.eq_dec k vs) as [I|I]; auto.
           specialize (Gs k). rewrite G in Gs. destruct (in_dec N.eq_dec k vs); tauto.
        -- intros k Hk. destruct (in_dec N.eq_dec k vs); tauto.
      * intros [s [Gs E]] k. rewrite G. destruct (in_dec N.eq_dec k vs) as [I|I].
        -- apply gamma_top.
        -- rewrite E by auto. apply Gs.
Qed.

(* ------------------------------------------------------------------ the solver on the language *)
(* unit-coefficient one-variable constraints *)
Definition unit1 (a : Z) : Prop := a = 1 \/ a = -1.

(* entries of the solver's table: INEQ / EQ / DISEQ over one variable *)
Definition ut (t : lincst) (a : Z) (x : var) : Prop :=
  le_terms (lc_exp t) = [(a, x)] /\ unit1 a.

Lemma is_bot_iconst q : is_bot (iconst q) = false.
Proof. unfold is_bot, iconst, bgt; simpl. rewrite Z.leb_refl. reflexivity. Qed.
Lemma is_top_iconst q : is_top (iconst q) = false.
Proof. reflexivity. Qed.
Lemma isingleton_iconst q : isingleton (iconst q) = Some q.
Proof. unfold isingleton. rewrite is_bot_iconst. simpl. rewrite Z.eqb_refl. reflexivity. Qed.

Lemma imk_fin_same q : imk (Fin q) (Fin q) = iconst q.
Proof. unfold imk, bgt; simpl. rewrite Z.leb_refl. reflexivity. Qed.

Lemma idiv_iconst_1 q : idiv (iconst q) (iconst 1) = iconst q.
Proof.
  unfold idiv. cbn [idiv_f]. rewrite !is_bot_iconst. cbn [orb]. rewrite isingleton_iconst.
  reflexivity.
Qed.
Lemma idiv_iconst_m1 q : idiv (iconst q) (iconst (-1)) = iconst (- q).
Proof.
  unfold idiv. cbn [idiv_f]. rewrite !is_bot_iconst. cbn [orb]. rewrite isingleton_iconst.
  cbn [Z.eqb Z.ltb Z.compare]. cbn [lb ub iconst bdiv].
  assert (E : Z.quot q (-1) = - q).
  { pose proof (Z.quot_opp_r q 1 ltac:(lia)) as H. rewrite Z.quot_1_r in H. exact H. }
  rewrite E. apply imk_fin_same.
Qed.

Lemma idiv_unit q a : unit1 a -> idiv (iconst q) (iconst a) = iconst (a * q).
Proof.
  intros [->| ->].
  - rewrite idiv_iconst_1. f_equal; try lia.
  - rewrite idiv_iconst_m1. f_equal; try lia.
Qed.

Lemma bmul_fin a b : bmul (Fin a) (Fin b) = Fin (a * b).
Proof. destruct a, b; simpl; try reflexivity. Qed.

Lemma imul_iconst p a : imul (iconst p) (iconst a) = iconst (p * a).
Proof.
  unfold imul. rewrite !is_bot_iconst. cbn [orb lb ub iconst]. rewrite bmul_fin.
  unfold bmin4, bmax4, bmin, bmax. repeat rewrite ble_refl. apply imk_fin_same.
Qed.

Lemma ieq_iconst q : ieq (iconst q) (iconst q) = true.
Proof. unfold ieq. rewrite is_bot_iconst. simpl. rewrite Z.eqb_refl. reflexivity. Qed.

(* what one table entry does to the interval of its variable *)
Definition refine_itv (t : lincst) (a : Z) : itv :=
  let q := a * - le_cst (lc_exp t) in
  match lc_kind t with
  | EQ => iconst q
  | INEQ => if 0 <? a then ilower_half (iconst q) else iupper_half (iconst q)
  | _ => itop
  end.

Definition entry_itv (t : lincst) (a : Z) (old : itv) : itv :=
  match lc_kind t with
  | DISEQ => itrim old (iconst (a * - le_cst (lc_exp t)))
  | STRICT => old
  | _ => imeet old (refine_itv t a)
  end.

Lemma compute_residual_ut t a x st : ut t a x ->
  compute_residual t x st = (iconst (- le_cst (lc_exp t)), s_ops st).
Proof.
  intros [T _]. unfold compute_residual. rewrite T. simpl. rewrite N.eqb_refl. reflexivity.
Qed.

Lemma wf_ub_ne_MInf i : wf i -> ub i <> MInf.
Proof. intros [->|[_ [H _]]]; auto. simpl. congruence. Qed.
Lemma wf_lb_ne_PInf i : wf i -> lb i <> PInf.
Proof. intros [->|[H _]]; auto. simpl. congruence. Qed.

Lemma wf_itrim i j : wf i -> wf (itrim i j).
Proof.
  intros W. unfold itrim. destruct (isingleton j); auto.
  destruct (beqb (lb i) (Fin z)).
  - apply wf_imk; [congruence|apply wf_ub_ne_MInf; auto].
  - destruct (beqb (ub i) (Fin z)); auto.
    apply wf_imk; [apply wf_lb_ne_PInf; auto|congruence].
Qed.

Lemma itrim_sub i j z : gamma (itrim i j) z -> gamma i z.
Proof.
  unfold itrim. destruct (isingleton j); auto.
  destruct (beqb (lb i) (Fin z0)) eqn:E1.
  - intros G. apply gamma_imk_elim in G. destruct G as [G1 G2]. apply beqb_eq in E1.
    split; auto. rewrite E1. simpl in *. apply Z.leb_le. apply Z.leb_le in G1. lia.
  - destruct (beqb (ub i) (Fin z0)) eqn:E2; auto.
    intros G. apply gamma_imk_elim in G. destruct G as [G1 G2]. apply beqb_eq in E2.
    split; auto. rewrite E2. simpl in *. apply Z.leb_le. apply Z.leb_le in G2. lia.
Qed.

Lemma wf_refine_itv t a : wf (refine_itv t a).
Proof.
  unfold refine_itv. destruct (lc_kind t); try apply wf_top; try apply wf_iconst.
  destruct (0 <? a); unfold ilower_half, iupper_half; apply wf_imk; simpl; congruence.
Qed.

(* s_refine: None iff the meet is empty; otherwise the interval of v becomes (something with
   the points of) the meet and nothing else changes *)
Lemma s_refine_spec v i st : iwf (get (s_map st) v) -> wf i ->
  match s_refine v i st with
  | None => is_bot (imeet (get (s_map st) v) i) = true
  | Some st' =>
    is_bot (imeet (get (s_map st) v) i) = false /\
    (forall k, k <> v -> get (s_map st') k = get (s_map st) k) /\
    (forall z, gamma (get (s_map st') v) z <-> gamma (imeet (get (s_map st) v) i) z) /\
    iwf (get (s_map st') v)
  end.
Proof.
  intros Wo Wi. unfold s_refine. set (old := get (s_map st) v).
  destruct (is_bot (imeet old i)) eqn:B; auto.
  assert (Wn : iwf (imeet old i)) by (split; auto; apply wf_imeet; auto; apply Wo).
  destruct (negb (ieq old (imeet old i))) eqn:Q; cbn [s_map].
  - split; auto. split; [intros k Hk; apply get_put_other; auto|]. split.
    + intros z. apply get_put_same_gamma; auto.
    + apply get_put_same_iwf; auto.
  - apply negb_false_iff in Q. split; auto. split; auto. split; auto.
    intros z. fold old. apply (ieq_sound _ _ Q).
Qed.

(* after propagating a table entry: None iff the new interval is empty; otherwise only the
   interval of x may change, to something with the same points as [entry_itv] *)
Lemma propagate_ut t a x st : ut t a x -> lc_kind t <> STRICT -> iwf (get (s_map st) x) ->
  match propagate t st with
  | None => is_bot (entry_itv t a (get (s_map st) x)) = true
  | Some st' =>
    is_bot (entry_itv t a (get (s_map st) x)) = false /\
    (forall k, k <> x -> get (s_map st') k = get (s_map st) k) /\
    (forall z, gamma (get (s_map st') x) z <-> gamma (entry_itv t a (get (s_map st) x)) z) /\
    iwf (get (s_map st') x)
  end.
Proof.
  intros U NS Wo. pose proof U as [T Ua]. unfold propagate. rewrite T. cbn [propagate_terms].
  unfold propagate_term. rewrite (compute_residual_ut t a x st U). cbn [s_map s_refined s_ops].
  rewrite is_top_iconst. rewrite (idiv_unit _ a Ua). rewrite imul_iconst.
  replace (a * - le_cst (lc_exp t) * a) with (- le_cst (lc_exp t)) by (destruct Ua; subst; lia).
  rewrite ieq_iconst. unfold entry_itv.
  set (st0 := {| s_map := s_map st; s_refined := s_refined st; s_ops := s_ops st |}).
  set (old := get (s_map st) x) in *.
  assert (REF : forall i, wf i ->
    match (match s_refine x i st0 with Some st' => Some st' | None => None end) with
    | None => is_bot (imeet old i) = true
    | Some st' => is_bot (imeet old i) = false /\
                  (forall k, k <> x -> get (s_map st') k = get (s_map st) k) /\
                  (forall z, gamma (get (s_map st') x) z <-> gamma (imeet old i) z) /\
                  iwf (get (s_map st') x)
    end).
  { intros i Wi. pose proof (s_refine_spec x i st0 Wo Wi) as R. cbn [s_map st0] in R. fold old in R.
    destruct (s_refine x i st0); auto. }
  destruct (lc_kind t) eqn:K; try congruence.
  - (* EQ *) unfold refine_itv. rewrite K. apply REF. apply wf_iconst.
  - (* DISEQ *)
    set (nw := itrim old (iconst (a * - le_cst (lc_exp t)))).
    destruct (is_bot nw) eqn:B; auto.
    assert (Wn : iwf nw) by (split; auto; apply wf_itrim; apply Wo).
    destruct (negb (ieq old nw)) eqn:Q; cbn [s_map].
    + split; auto. split; [intros k Hk; apply get_put_other; auto|]. split.
      * intros z. apply get_put_same_gamma; auto.
      * apply get_put_same_iwf; auto.
    + apply negb_false_iff in Q. split; auto. split; auto. split; auto.
      intros z. apply (ieq_sound _ _ Q).
  - (* INEQ *)
    pose proof (wf_refine_itv t a) as Wr. unfold refine_itv in *. rewrite K in *.
    destruct (0 <? a); apply REF; auto.
Qed.

(* ---- every loop of the solver keeps the invariant and only shrinks intervals *)
Definition inv (st : sst) : Prop := mwfI (s_map st).
Definition shr (st st' : sst) : Prop :=
  forall k z, gamma (get (s_map st') k) z -> gamma (get (s_map st) k) z.
Definition tbl (table : list lincst) : Prop :=
  forall t, In t table -> exists a x, ut t a x /\ lc_kind t <> STRICT.

Lemma shr_refl st : shr st st. Proof. intros k z; auto. Qed.
Lemma shr_trans a b c : shr a b -> shr b c -> shr a c.
Proof. intros H1 H2 k z G. apply H1. apply H2. auto. Qed.

Lemma entry_sub t a old z : gamma (entry_itv t a old) z -> gamma old z.
Proof.
  unfold entry_itv. destruct (lc_kind t); auto; try (intros G; apply imeet_exact in G; tauto).
  apply itrim_sub.
Qed.

Lemma propagate_pres t st st' : (exists a x, ut t a x /\ lc_kind t <> STRICT) -> inv st ->
  propagate t st = Some st' -> inv st' /\ shr st st'.
Proof.
  intros [a [x [U NS]]] I E. pose proof (propagate_ut t a x st U NS (I x)) as P. rewrite E in P.
  destruct P as [_ [O [G W]]]. split.
  - intros k. destruct (N.eq_dec k x) as [->|N]; auto. rewrite O by auto. apply I.
  - intros k z. destruct (N.eq_dec k x) as [->|N].
    + intros Z. apply G in Z. eapply entry_sub; eauto.
    + rewrite O by auto. auto.
Qed.

Lemma propagate_all_pres table : tbl table -> forall st st', inv st ->
  propagate_all table st = Some st' -> inv st' /\ shr st st'.
Proof.
  induction table as [|t r IH]; intros T st st' I E; simpl in E.
  - inversion E; subst. split; auto. apply shr_refl.
  - destruct (propagate t st) as [st1|] eqn:P; [|discriminate].
    destruct (propagate_pres t st st1 (T t (or_introl eq_refl)) I P) as [I1 S1].
    destruct (IH (fun t' J => T t' (or_intror J)) st1 st' I1 E) as [I2 S2].
    split; auto. eapply shr_trans; eauto.
Qed.

Lemma reset_inv st : inv st -> inv (mkS (s_map st) [] (s_ops st)).
Proof. auto. Qed.
Lemma reset_shr st st' : shr (mkS (s_map st) [] (s_ops st)) st' -> shr st st'.
Proof. auto. Qed.

Lemma small_loop_pres table max : tbl table -> forall fuel cycle st st', inv st ->
  small_loop fuel table cycle max st = Some st' -> inv st' /\ shr st st'.
Proof.
  intros T. induction fuel as [|f IH]; intros cycle st st' I E; simpl in E.
  - inversion E; subst. split; auto. apply shr_refl.
  - destruct (propagate_all table _) as [st1|] eqn:P; [|discriminate].
    destruct (propagate_all_pres table T _ _ (reset_inv st I) P) as [I1 S1].
    destruct (s_refined st1).
    + inversion E; subst. split; auto.
    + destruct (_ <=? _)%N.
      * destruct (IH _ _ _ I1 E) as [I2 S2]. split; auto. eapply shr_trans; [apply S1|apply S2].
      * inversion E; subst. split; auto.
Qed.

Lemma propagate_idx_pres table : tbl table -> forall idx st st', inv st ->
  propagate_idx table idx st = Some st' -> inv st' /\ shr st st'.
Proof.
  intros T. induction idx as [|i r IH]; intros st st' I E; simpl in E.
  - inversion E; subst. split; auto. apply shr_refl.
  - destruct (nth_error table i) as [c|] eqn:N.
    + destruct (propagate c st) as [st1|] eqn:P; [|discriminate].
      destruct (propagate_pres c st st1 (T c (nth_error_In _ _ N)) I P) as [I1 S1].
      destruct (IH _ _ I1 E) as [I2 S2]. split; auto. eapply shr_trans; eauto.
    + apply IH; auto.
Qed.

Lemma process_vars_pres table : tbl table -> forall vs st st', inv st ->
  process_vars table vs st = Some st' -> inv st' /\ shr st st'.
Proof.
  intros T. induction vs as [|v r IH]; intros st st' I E; simpl in E.
  - inversion E; subst. split; auto. apply shr_refl.
  - destruct (propagate_idx table _ st) as [st1|] eqn:P; [|discriminate].
    destruct (propagate_idx_pres table T _ _ _ I P) as [I1 S1].
    destruct (IH _ _ I1 E) as [I2 S2]. split; auto. eapply shr_trans; eauto.
Qed.

Lemma large_loop_pres table max : tbl table -> forall fuel st st', inv st ->
  large_loop fuel table max st = Some st' -> inv st' /\ shr st st'.
Proof.
  intros T. induction fuel as [|f IH]; intros st st' I E; simpl in E.
  - inversion E; subst. split; auto. apply shr_refl.
  - destruct (process_vars table _ _) as [st1|] eqn:P; [|discriminate].
    destruct (process_vars_pres table T _ _ _ (reset_inv st I) P) as [I1 S1].
    destruct (s_refined st1).
    + inversion E; subst. split; auto.
    + destruct (_ <=? _)%N.
      * destruct (IH _ _ I1 E) as [I2 S2]. split; auto. eapply shr_trans; [apply S1|apply S2].
      * inversion E; subst. split; auto.
Qed.

(* ---- the constraints of the language and their table entries *)
Definition lang1 (c : lincst) (a : Z) (x : var) : Prop := ut c a x /\ lc_kind c <> DISEQ.

Definition sat1 (c : lincst) (a z : Z) : Prop :=
  let v := a * z + le_cst (lc_exp c) in
  match lc_kind c with EQ => v = 0 | DISEQ => v <> 0 | INEQ => v <= 0 | STRICT => v < 0 end.

Lemma sat_sat1 c a x s : ut c a x -> (sat c s <-> sat1 c a (s x)).
Proof.
  intros [T _]. unfold sat, sat1, eval_le. rewrite T. cbn [eval_terms].
  replace (a * s x + 0 + le_cst (lc_exp c)) with (a * s x + le_cst (lc_exp c)) by lia. tauto.
Qed.

Definition blk (c : lincst) : list lincst :=
  match lc_kind c with
  | STRICT => [mkLC INEQ (lc_exp c); mkLC DISEQ (lc_exp c)]
  | _ => [c]
  end.

Lemma blk_tbl c a x : lang1 c a x -> tbl (blk c).
Proof.
  intros [[T U] ND] t I. unfold blk in I. exists a, x.
  destruct (lc_kind c) eqn:K; simpl in I; try congruence.
  - destruct I as [<-|[]]. split; [split; auto|congruence].
  - destruct I as [<-|[]]. split; [split; auto|congruence].
  - destruct I as [<-|[<-|[]]]; (split; [split; auto|simpl; congruence]).
Qed.

Lemma ub_tight i q : iwf i -> (forall z, gamma i z -> z <= q) -> gamma i q -> ub i = Fin q.
Proof.
  intros [W B] H [G1 G2]. destruct (ub i) as [|u|] eqn:E; simpl in G2; try discriminate.
  - apply Z.leb_le in G2. destruct (Z.eq_dec u q); [congruence|].
    assert (X : gamma i (q + 1)).
    { split; rewrite ?E; simpl.
      - eapply ble_trans; [exact G1|]. simpl. apply Z.leb_le. lia.
      - apply Z.leb_le. lia. }
    specialize (H _ X). lia.
  - assert (X : gamma i (q + 1)).
    { split; rewrite ?E; simpl; auto. eapply ble_trans; [exact G1|]. simpl. apply Z.leb_le. lia. }
    specialize (H _ X). lia.
Qed.
Lemma lb_tight i q : iwf i -> (forall z, gamma i z -> q <= z) -> gamma i q -> lb i = Fin q.
Proof.
  intros [W B] H [G1 G2]. destruct (lb i) as [|l|] eqn:E; simpl in G1; try discriminate.
  - assert (X : gamma i (q - 1)).
    { split; rewrite ?E; simpl; auto. eapply ble_trans; [|exact G2]. simpl. apply Z.leb_le. lia. }
    specialize (H _ X). lia.
  - apply Z.leb_le in G1. destruct (Z.eq_dec l q); [congruence|].
    assert (X : gamma i (q - 1)).
    { split; rewrite ?E; simpl.
      - apply Z.leb_le. lia.
      - eapply ble_trans; [|exact G2]. simpl. apply Z.leb_le. lia. }
    specialize (H _ X). lia.
Qed.

Lemma gamma_lower_half q z : gamma (ilower_half (iconst q)) z <-> z <= q.
Proof. unfold ilower_half. rewrite gamma_imk. simpl. rewrite Z.leb_le. tauto. Qed.
Lemma gamma_upper_half q z : gamma (iupper_half (iconst q)) z <-> q <= z.
Proof. unfold iupper_half. rewrite gamma_imk. simpl. rewrite Z.leb_le. tauto. Qed.

(* trimming q off an interval whose points are all <= q (or all >= q) removes q *)
Lemma itrim_removes i q : iwf i ->
  ((forall z, gamma i z -> z <= q) \/ (forall z, gamma i z -> q <= z)) ->
  is_bot (itrim i (iconst q)) = false -> ~ gamma (itrim i (iconst q)) q.
Proof.
  intros W H B G. pose proof (itrim_sub _ _ _ G) as Gi.
  unfold itrim in *. rewrite isingleton_iconst in *.
  destruct H as [H|H].
  - pose proof (ub_tight i q W H Gi) as U.
    destruct (beqb (lb i) (Fin q)) eqn:E1.
    + rewrite U in B. unfold is_bot, imk, bgt in B. simpl in B.
      replace (q + 1 <=? q) with false in B by (symmetry; apply Z.leb_gt; lia). simpl in B.
      discriminate.
    + rewrite U in G. simpl in G. rewrite Z.eqb_refl in G.
      apply gamma_imk_elim in G. destruct G as [_ G]. simpl in G. apply Z.leb_le in G. lia.
  - pose proof (lb_tight i q W H Gi) as L. rewrite L in G. simpl in G. rewrite Z.eqb_refl in G.
    apply gamma_imk_elim in G. destruct G as [G _]. simpl in G. apply Z.leb_le in G. lia.
Qed.

(* propagating the table entries of a constraint enforces it on the interval of its variable *)
Lemma block_enforce c a x st st' : lang1 c a x -> inv st ->
  propagate_all (blk c) st = Some st' ->
  (forall z, gamma (get (s_map st') x) z -> sat1 c a z) /\ inv st' /\ shr st st'.
Proof.
  intros L I E. destruct (propagate_all_pres _ (blk_tbl c a x L) _ _ I E) as [I' S].
  split; auto. destruct L as [[T U] ND]. unfold blk in E. unfold sat1.
  destruct (lc_kind c) eqn:K; try congruence.
  - (* EQ *)
    simpl in E. destruct (propagate c st) as [st1|] eqn:P; inversion E; subst.
    pose proof (propagate_ut c a x st (conj T U) ltac:(congruence) (I x)) as X. rewrite P in X.
    destruct X as [_ [_ [G _]]]. intros z Z. apply G in Z. unfold entry_itv, refine_itv in Z.
    rewrite K in Z. apply imeet_exact in Z. destruct Z as [_ Z]. apply gamma_iconst in Z.
    destruct U; subst; lia.
  - (* INEQ *)
    simpl in E. destruct (propagate c st) as [st1|] eqn:P; inversion E; subst.
    pose proof (propagate_ut c a x st (conj T U) ltac:(congruence) (I x)) as X. rewrite P in X.
    destruct X as [_ [_ [G _]]]. intros z Z. apply G in Z. unfold entry_itv, refine_itv in Z.
    rewrite K in Z. apply imeet_exact in Z. destruct Z as [_ Z].
    destruct U as [->| ->].
    + change (gamma (ilower_half (iconst (1 * - le_cst (lc_exp c)))) z) in Z. apply gamma_lower_half in Z. lia.
    + change (gamma (iupper_half (iconst (-1 * - le_cst (lc_exp c)))) z) in Z. apply gamma_upper_half in Z. lia.
  - (* STRICT: INEQ then DISEQ on the same expression *)
    simpl in E.
    set (c1 := mkLC INEQ (lc_exp c)) in *. set (c2 := mkLC DISEQ (lc_exp c)) in *.
    destruct (propagate c1 st) as [st1|] eqn:P1; [|discriminate].
    destruct (propagate c2 st1) as [st2|] eqn:P2; inversion E; subst.
    pose proof (propagate_ut c1 a x st (conj T U) ltac:(simpl; congruence) (I x)) as X1. rewrite P1 in X1.
    destruct X1 as [_ [_ [G1 W1]]].
    pose proof (propagate_ut c2 a x st1 (conj T U) ltac:(simpl; congruence) W1) as X2. rewrite P2 in X2.
    destruct X2 as [B2 [_ [G2 _]]].
    unfold entry_itv, refine_itv in G1, G2, B2. simpl in G1, G2, B2.
    intros z Z. apply G2 in Z.
    set (q := a * - le_cst (lc_exp c)) in *.
    assert (Z1 : gamma (get (s_map st1) x) z) by (eapply itrim_sub; eauto).
    assert (H1 : forall y, gamma (get (s_map st1) x) y -> a * y + le_cst (lc_exp c) <= 0).
    { intros y Y. apply G1 in Y. apply imeet_exact in Y. destruct Y as [_ Y]. unfold q in *.
      destruct U as [->| ->].
      - change (gamma (ilower_half (iconst (1 * - le_cst (lc_exp c)))) y) in Y. apply gamma_lower_half in Y. lia.
      - change (gamma (iupper_half (iconst (-1 * - le_cst (lc_exp c)))) y) in Y. apply gamma_upper_half in Y. lia. }
    assert (NQ : z <> q).
    { intros ->. revert Z. apply itrim_removes; auto.
      destruct U; subst a; [left|right]; intros y Y; specialize (H1 y Y); unfold q; lia. }
    specialize (H1 z Z1). unfold q in NQ. destruct U; subst a; lia.
Qed.

(* ---- preprocessing keeps exactly the blocks of the constraints *)
Definition lang (c : lincst) : Prop := exists a x, lang1 c a x.

Lemma lang_not_constant c : lang c -> le_is_constant (lc_exp c) = false.
Proof. intros [a [x [[T _] _]]]. unfold le_is_constant. rewrite T. reflexivity. Qed.

Lemma preprocess_lang : forall cs table opc, Forall lang cs ->
  p_contra (preprocess cs table opc) = false /\
  p_table (preprocess cs table opc) = table ++ flat_map blk cs.
Proof.
  induction cs as [|c r IH]; intros table opc F; simpl.
  - rewrite app_nil_r. auto.
  - inversion F as [|? ? L F']; subst.
    unfold lc_is_contradiction, lc_is_tautology. rewrite (lang_not_constant c L). cbn [andb].
    unfold blk. destruct (lc_kind c) eqn:K;
      try (destruct L as [a [x [_ ND]]]; congruence);
      match goal with |- context [preprocess r ?t ?o] => destruct (IH t o F') as [P1 P2] end;
      rewrite P1, P2, <- app_assoc; auto.
Qed.

Lemma propagate_all_app l1 l2 st :
  propagate_all (l1 ++ l2) st =
  match propagate_all l1 st with Some st1 => propagate_all l2 st1 | None => None end.
Proof.
  revert st. induction l1 as [|t r IH]; intros st; simpl; auto.
  destruct (propagate t st); auto.
Qed.

Definition enforced (c : lincst) (st : sst) : Prop :=
  exists a x, lang1 c a x /\ forall z, gamma (get (s_map st) x) z -> sat1 c a z.

Lemma enforced_shr c st st' : enforced c st -> shr st st' -> enforced c st'.
Proof. intros [a [x [L H]]] S. exists a, x. split; auto. Qed.

Lemma flat_tbl cs : Forall lang cs -> tbl (flat_map blk cs).
Proof.
  intros F t I. apply in_flat_map in I. destruct I as [c [Ic It]].
  rewrite Forall_forall in F. destruct (F _ Ic) as [a [x L]]. apply (blk_tbl c a x L t It).
Qed.

Lemma enforce_all : forall cs st st', Forall lang cs -> inv st ->
  propagate_all (flat_map blk cs) st = Some st' ->
  (forall c, In c cs -> enforced c st') /\ inv st' /\ shr st st'.
Proof.
  induction cs as [|c r IH]; intros st st' F I E; simpl in E.
  - inversion E; subst. split; [intros c []|]. split; auto. apply shr_refl.
  - inversion F as [|? ? [a [x L]] F']; subst. rewrite propagate_all_app in E.
    destruct (propagate_all (blk c) st) as [st1|] eqn:P; [|discriminate].
    destruct (block_enforce c a x st st1 L I P) as [H1 [I1 S1]].
    destruct (IH _ _ F' I1 E) as [H2 [I2 S2]]. split; [|split; auto; eapply shr_trans; eauto].
    intros c' [<-|J]; auto. apply (enforced_shr c st1); auto. exists a, x. auto.
Qed.

Lemma lang_wf_lc c : lang c -> wf_lc c.
Proof.
  intros [a [x [[T U] _]]]. unfold wf_lc, wf_le. rewrite T. simpl. split.
  - repeat constructor. simpl. tauto.
  - intros k v [E|[]]. inversion E; subst. destruct U; lia.
Qed.

Lemma small_loop_first table max f cycle st st' :
  small_loop (S f) table cycle max st = Some st' ->
  exists st1, propagate_all table (mkS (s_map st) [] (s_ops st)) = Some st1 /\
              (st' = st1 \/ exists c, small_loop f table c max st1 = Some st').
Proof.
  simpl. destruct (propagate_all table _) as [st1|]; [|discriminate]. intros E.
  exists st1. split; auto. destruct (s_refined st1).
  - inversion E; auto.
  - destruct (_ <=? _)%N; [right; eexists; eauto|inversion E; auto].
Qed.

(* the solver is exact on the language *)
Theorem solve_lang_exact cs max m : Forall lang cs -> mwfI m ->
  match solve cs max m with
  | None => forall s, gmap m s -> ~ Forall (fun c => sat c s) cs
  | Some m' => mwfI m' /\ forall s, gmap m' s <-> (gmap m s /\ Forall (fun c => sat c s) cs)
  end.
Proof.
  intros F M.
  assert (SOUND : forall s, gmap m s -> Forall (fun c => sat c s) cs ->
            match solve cs max m with Some m' => gmap m' s | None => False end).
  { intros s G A. apply solve_sound; auto. intros c I. rewrite Forall_forall in F, A.
    split; [apply lang_wf_lc|]; auto. }
  assert (X : forall m', solve cs max m = Some m' ->
            mwfI m' /\ (forall s, gmap m' s -> gmap m s /\ Forall (fun c => sat c s) cs)).
  { intros m' E. unfold solve in E. destruct (preprocess_lang cs [] 0%N F) as [PC PT].
    rewrite PC in E. rewrite PT in E. cbn [app] in E.
    set (table := flat_map blk cs) in *. pose proof (flat_tbl cs F) as T.
    set (st0 := mkS m [] 0%N) in *. assert (I0 : inv st0) by exact M.
    assert (FIN : exists st1 st, propagate_all table st0 = Some st1 /\ shr st1 st /\ inv st /\ s_map st = m').
    { match type of E with context [if ?b then _ else _] => destruct b end.
      - destruct (propagate_all table st0) as [st1|] eqn:P; [|discriminate].
        destruct (enforce_all cs st0 st1 F I0 P) as [_ [I1 _]].
        match type of E with context [large_loop ?f table ?mo st1] =>
          destruct (large_loop f table mo st1) as [st|] eqn:L; [|discriminate];
          destruct (large_loop_pres table mo T f _ _ I1 L) as [I2 S2] end.
        exists st1, st. inversion E; subst. auto.
      - match type of E with context [small_loop (S ?f) table ?c max st0] =>
          destruct (small_loop (S f) table c max st0) as [st|] eqn:L; [|discriminate] end.
        destruct (small_loop_first _ _ _ _ _ _ L) as [st1 [P R]].
        change (mkS (s_map st0) [] (s_ops st0)) with st0 in P.
        destruct (enforce_all cs st0 st1 F I0 P) as [_ [I1 _]].
        exists st1, st. inversion E; subst. destruct R as [->|[c R]].
        + split; auto. split; [apply shr_refl|]. split; auto.
        + destruct (small_loop_pres table max T _ _ _ _ I1 R) as [I2 S2]. auto. }
    destruct FIN as [st1 [st [P [S [I E']]]]]. subst m'.
    destruct (enforce_all cs st0 st1 F I0 P) as [EN [I1 S1]].
    split; auto. intros s G. split.
    - intros k. apply (S1 k). apply (S k). apply G.
    - apply Forall_forall. intros c Ic. destruct (EN c Ic) as [a [x [[U ND] H]]].
      apply (sat_sat1 c a x s U). apply H. apply (S x). apply G. }
  destruct (solve cs max m) as [m'|] eqn:E.
  - destruct (X m' eq_refl) as [M' H]. split; auto. intros s. split; auto.
    intros [G A]. apply (SOUND s G A).
  - intros s G A. apply (SOUND s G A).
Qed.

(* ------------------------------------------------------------------ assume *)
Lemma terms_eqb_eq a : forall b, terms_eqb a b = true -> a = b.
Proof.
  induction a as [|[c v] r IH]; intros [|[c' v'] r']; simpl; try discriminate; auto.
  intros H. apply andb_true_iff in H. destruct H as [H H3]. apply andb_true_iff in H.
  destruct H as [H1 H2]. apply Z.eqb_eq in H1. apply N.eqb_eq in H2. subst. f_equal. auto.
Qed.

Lemma lc_eqb_eq a b : lc_eqb a b = true -> a = b.
Proof.
  destruct a as [ka [ta ca]], b as [kb [tb cb]]. unfold lc_eqb, le_eqb. simpl. intros H.
  apply andb_true_iff in H. destruct H as [H1 H]. apply andb_true_iff in H. destruct H as [H2 H3].
  apply terms_eqb_eq in H2. apply Z.eqb_eq in H3. subst.
  destruct ka, kb; simpl in H1; try discriminate; reflexivity.
Qed.

Lemma sys_add_spec acc c x : In x (sys_add acc c) <-> (In x acc \/ x = c).
Proof.
  unfold sys_add. destruct (existsb (fun c1 => lc_eqb c1 c) acc) eqn:E.
  - split; auto. intros [H|H]; auto. subst x. apply existsb_exists in E. destruct E as [c1 [I Q]].
    apply lc_eqb_eq in Q. subst. auto.
  - rewrite in_app_iff. simpl. split; intros [H|H]; auto. destruct H as [<-|[]]; auto.
Qed.

Lemma fold_sys_add_spec cs : forall acc x,
  In x (fold_left sys_add cs acc) <-> (In x acc \/ In x cs).
Proof.
  induction cs as [|c r IH]; intros acc x; simpl; [tauto|].
  rewrite IH, sys_add_spec. split; intros H; intuition (subst; auto).
Qed.

Lemma lang_not_diseq c : lang c -> ckind_eqb (lc_kind c) DISEQ = false.
Proof. intros [a [x [_ ND]]]. destruct (lc_kind c); auto. congruence. Qed.

Lemma fold_left_lang_ext (f : list lincst -> lincst -> list lincst) cs :
  (forall acc c, lang c -> f acc c = sys_add acc c) -> Forall lang cs ->
  forall acc, fold_left f cs acc = fold_left sys_add cs acc.
Proof.
  intros H F. induction F as [|c r L F IH]; intros acc; simpl; auto. rewrite H by auto. apply IH.
Qed.

Lemma d_add_lang_unfold m cs : Forall lang cs ->
  d_add cs (EMap m) = match solve (fold_left sys_add cs []) max_reduction_cycles m with
                      | None => EBot | Some m' => EMap m' end.
Proof.
  intros F. unfold d_add.
  match goal with |- context [fold_left ?f cs []] =>
    rewrite (fold_left_lang_ext f cs) by
      (auto; intros acc c L; cbv beta zeta; rewrite (lang_not_diseq c L); reflexivity) end.
  reflexivity.
Qed.

(* assuming constraints of the language is exact, and bottom means unsatisfiable *)
Theorem d_add_lang_exact cs e : Forall lang cs -> ewf e ->
  ewf (d_add cs e) /\
  forall s, genv (d_add cs e) s <-> (genv e s /\ Forall (fun c => sat c s) cs).
Proof.
  intros F W. destruct e as [|m].
  - split; [exact I|]. intros s. simpl. tauto.
  - rewrite (d_add_lang_unfold m cs F).
    set (pp := fold_left sys_add cs []).
    assert (Fp : Forall lang pp).
    { apply Forall_forall. intros x I. apply fold_sys_add_spec in I. destruct I as [[]|I].
      rewrite Forall_forall in F. auto. }
    assert (EQ : forall s, Forall (fun c => sat c s) pp <-> Forall (fun c => sat c s) cs).
    { intros s. rewrite !Forall_forall. split; intros H x I; apply H.
      - apply fold_sys_add_spec. auto.
      - apply fold_sys_add_spec in I. destruct I as [[]|I]; auto. }
    pose proof (solve_lang_exact pp max_reduction_cycles m Fp W) as S.
    destruct (solve pp max_reduction_cycles m) as [m'|].
    + destruct S as [M' G]. split; auto. intros s. simpl. rewrite G, EQ. tauto.
    + split; [exact I|]. intros s. simpl. split; [tauto|]. intros [G A]. apply (S s G). apply EQ. auto.
Qed.

Theorem d_add_lang_bottom cs e : Forall lang cs -> ewf e ->
  (e_is_bot (d_add cs e) = true <-> forall s, genv e s -> ~ Forall (fun c => sat c s) cs).
Proof.
  intros F W. destruct (d_add_lang_exact cs e F W) as [W' G].
  rewrite (e_bottom_exact _ W'). split.
  - intros H s Gs A. apply (H s). apply G. auto.
  - intros H s Gs. apply G in Gs. destruct Gs as [Gs A]. apply (H s Gs A).
Qed.

(* ------------------------------------------------------------------ entails *)
Lemma unit1_opp a : unit1 a -> unit1 (- a).
Proof. intros [->| ->]; [right|left]; reflexivity. Qed.

Lemma lang1_ineq_of e a x : le_terms e = [(a, x)] -> unit1 a -> lang1 (mkLC INEQ e) a x.
Proof. intros T U. split; [split; auto|simpl; congruence]. Qed.

Lemma le_neg_terms e a x : le_terms e = [(a, x)] -> le_terms (le_neg e) = [(- a, x)].
Proof. intros T. unfold le_neg. simpl. rewrite T. reflexivity. Qed.

Lemma lc_negate_lang c a x : lang1 c a x -> lc_kind c <> EQ -> lang1 (lc_negate c) (- a) x.
Proof.
  intros [[T U] ND] NE. unfold lc_negate, lc_is_tautology, lc_is_contradiction.
  assert (NC : le_is_constant (lc_exp c) = false) by (unfold le_is_constant; rewrite T; reflexivity).
  rewrite NC. cbn [andb]. destruct (lc_kind c); try congruence.
  - apply lang1_ineq_of; [|apply unit1_opp; auto]. apply le_neg_terms. unfold le_addc. simpl. auto.
  - apply lang1_ineq_of; [|apply unit1_opp; auto]. apply le_neg_terms. auto.
Qed.

Lemma gmap_single I x s : iwf I -> (gmap (put [] x I) s <-> gamma I (s x)).
Proof.
  intros W. split.
  - intros G. apply (get_put_same_gamma [] x I (s x) W). apply G.
  - intros G k. destruct (N.eq_dec k x) as [->|N].
    + apply get_put_same_gamma; auto.
    + rewrite get_put_other by auto. simpl. apply gamma_top.
Qed.

(* the test used by entails, on an environment: exact for INEQ / STRICT of the language *)
Lemma entail_fn_exact mv c a x : mwfI mv -> lang1 c a x -> lc_kind c <> EQ ->
  (entail_fn (EMap mv) c = true <-> forall s, gmap mv s -> sat c s).
Proof.
  intros M L NE. unfold entail_fn, d_add0. cbn [fold_left]. unfold sys_add at 1. cbn [existsb app].
  pose proof (lc_negate_lang c a x L NE) as LN.
  assert (F : Forall lang [lc_negate c]) by (repeat constructor; exists (- a), x; auto).
  pose proof (solve_lang_exact [lc_negate c] max_reduction_cycles mv F M) as S.
  destruct (solve [lc_negate c] max_reduction_cycles mv) as [m'|]; simpl.
  - destruct S as [M' G]. split; [discriminate|]. intros H.
    destruct (mwfI_inhabited m' M') as [s Gs]. apply G in Gs. destruct Gs as [Gs A].
    inversion A; subst. apply lc_negate_spec in H2. destruct (H2 (H s Gs)).
  - split; auto. intros _ s Gs. destruct (sat_dec c s) as [Y|N]; auto.
    exfalso. apply (S s Gs). repeat constructor. apply lc_negate_spec. auto.
Qed.

Theorem d_entails_lang_exact c e : lang c -> ewf e ->
  (d_entails c e = true <-> forall s, genv e s -> sat c s).
Proof.
  intros [a [x L]] W. pose proof L as [[T U] ND]. unfold d_entails.
  destruct e as [|m]; cbn [e_is_bot].
  - split; auto. intros _ s [].
  - unfold lc_is_tautology, lc_is_contradiction.
    assert (NC : le_is_constant (lc_exp c) = false) by (unfold le_is_constant; rewrite T; reflexivity).
    rewrite NC. cbn [andb]. unfold lc_vars. rewrite T. cbn [map snd fold_left e_at].
    set (I := get m x). assert (WI : iwf I) by apply W.
    unfold e_set, e_top. destruct WI as [WI1 WI2]. rewrite WI2.
    set (mv := put [] x I).
    assert (Mv : mwfI mv) by (apply mwfI_put; [apply mwfI_nil|split; auto]).
    (* the question only depends on the interval of x *)
    assert (X : forall c', ut c' a x \/ ut c' (- a) x ->
              ((forall s, gmap mv s -> sat c' s) <-> (forall s, gmap m s -> sat c' s))).
    { intros c' U'. assert (exists b, ut c' b x) as [b Ub] by (destruct U'; eauto).
      destruct (mwfI_inhabited m W) as [s0 G0]. split; intros H s G.
      - apply (sat_sat1 c' b x s Ub).
        assert (G1 : gmap mv (upd s0 x (s x))).
        { apply gmap_single; [split; auto|]. rewrite upd_same. apply G. }
        specialize (H _ G1). apply (sat_sat1 c' b x _ Ub) in H. rewrite upd_same in H. auto.
      - apply (sat_sat1 c' b x s Ub).
        assert (G1 : gmap m (upd s0 x (s x))).
        { apply gmap_upd; auto. apply (gmap_single I x s); [split; auto|]. auto. }
        specialize (H _ G1). apply (sat_sat1 c' b x _ Ub) in H. rewrite upd_same in H. auto. }
    simpl genv.
    destruct (lc_kind c) eqn:K; try congruence.
    + (* EQ: both inequalities *)
      set (c1 := mkLC INEQ (lc_exp c)). set (c2 := mkLC INEQ (le_neg (lc_exp c))).
      assert (L1 : lang1 c1 a x) by (apply lang1_ineq_of; auto).
      assert (L2 : lang1 c2 (- a) x) by (apply lang1_ineq_of; [apply le_neg_terms; auto|apply unit1_opp; auto]).
      pose proof (entail_fn_exact mv c1 a x Mv L1 ltac:(simpl; congruence)) as E1.
      pose proof (entail_fn_exact mv c2 (- a) x Mv L2 ltac:(simpl; congruence)) as E2.
      rewrite (X c1 (or_introl (proj1 L1))) in E1. rewrite (X c2 (or_intror (proj1 L2))) in E2.
      assert (SQ : forall s, sat c s <-> (sat c1 s /\ sat c2 s)).
      { intros s. unfold sat, c1, c2. rewrite K. simpl. rewrite eval_le_neg. lia. }
      destruct (entail_fn (EMap mv) c1) eqn:B1; cbn [negb].
      * rewrite E2. split; intros H s G; [apply SQ; split; [apply E1|]; auto|apply SQ; auto].
      * split; [discriminate|]. intros H. apply E1. intros s G. apply SQ. auto.
    + (* INEQ *)
      rewrite (entail_fn_exact mv c a x Mv L ltac:(congruence)). apply X. left. split; auto.
    + (* STRICT *)
      rewrite (entail_fn_exact mv c a x Mv L ltac:(congruence)). apply X. left. split; auto.
Qed.

(* ------------------------------------------------------------------ histories *)
From CrabV Require Import Dom.History.

(* the operations of the property: constraints of the language, joins, meets, forgets, copies *)
Definition ihop_ok (o : hop) : Prop :=
  match o with
  | HTop _ | HBot _ | HCopy _ _ | HForget _ _ | HJoin _ _ _ | HMeet _ _ _ => True
  | HAssume _ cs => Forall lang cs
  | _ => False
  end.

Lemma rget_ewf rs r : Forall ewf rs -> ewf (rget rs r).
Proof.
  intros F. unfold rget. revert r. induction F; intros [|r]; simpl; auto; apply mwfI_nil.
Qed.
Lemma rset_ewf rs r v : Forall ewf rs -> ewf v -> Forall ewf (rset rs r v).
Proof. intros F W. revert r. induction F; intros [|r]; simpl; auto. Qed.

Theorem ihstep_wf rs o : Forall ewf rs -> ihop_ok o -> Forall ewf (hstep rs o).
Proof.
  intros F O. destruct o; simpl in *; try tauto; apply rset_ewf; auto.
  - apply mwfI_nil.
  - apply rget_ewf; auto.
  - apply d_add_lang_exact; auto. apply rget_ewf; auto.
  - apply d_forget_exact. apply rget_ewf; auto.
  - apply e_join_wf; apply rget_ewf; auto.
  - apply e_meet_exact; apply rget_ewf; auto.
Qed.

(* the invariant holds after ANY history of such operations *)
Theorem ihrun_wf h : forall rs, Forall ewf rs -> Forall ihop_ok h -> Forall ewf (hrun rs h).
Proof.
  unfold hrun. induction h as [|o h IH]; intros rs F O; simpl; auto.
  inversion O; subst. apply IH; auto. apply ihstep_wf; auto.
Qed.

(* non-vacuity *)
Example itv_exact_example :
  let c1 := mkLC INEQ (mkLE [(1, 0%N)] (-5)) in          (* x <= 5 *)
  let c2 := mkLC STRICT (mkLE [(-1, 0%N)] 5) in          (* -x + 5 < 0, i.e. x > 5 *)
  lang c1 /\ lang c2 /\ ewf e_top /\
  e_is_bot (d_add [c1] e_top) = false /\ e_is_bot (d_add [c1; c2] e_top) = true /\
  d_entails (mkLC INEQ (mkLE [(1, 0%N)] (-7))) (d_add [c1] e_top) = true /\
  d_entails (mkLC INEQ (mkLE [(1, 0%N)] (-4))) (d_add [c1] e_top) = false.
Proof.
  repeat split; try (vm_compute; reflexivity); try apply mwfI_nil;
    try (eexists; eexists; split; [split; [reflexivity|]|simpl; congruence]; (left; reflexivity) || (right; reflexivity)).
Qed.

(* the first sentence of the property, literally: assume any conjunction from top *)
Theorem itv_conjunction_exact cs : Forall lang cs ->
  let e := d_add cs e_top in
  (e_is_bot e = true <-> forall s, ~ Forall (fun c => sat c s) cs) /\
  (forall c, lang c ->
     (d_entails c e = true <-> forall s, Forall (fun c => sat c s) cs -> sat c s)).
Proof.
  intros F e. destruct (d_add_lang_exact cs e_top F mwfI_nil) as [W G]. fold e in W, G.
  split.
  - rewrite (e_bottom_exact e W). split.
    + intros H s X. apply (H s). apply G. split; [apply genv_top|auto].
    + intros H s X. apply G in X. apply (H s). tauto.
  - intros c Lc. rewrite (d_entails_lang_exact c e Lc W). split; intros H s X.
    + apply H. apply G. split; [apply genv_top|auto].
    + apply H. apply G in X. tauto.
Qed.
