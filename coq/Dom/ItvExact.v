(* ItvExact.v — property C12 for the interval language (+-x <= k, < and = over the integers)
   on the MIRROR model of ikos::interval_domain (Dom/ItvDomain.v with the linear interval
   solver of Dom/ItvSolver.v): after assuming any list of constraints of the language the
   value is bottom exactly when they are unsatisfiable, its points are exactly the points
   of the old value that satisfy them, entails answers yes exactly when the constraint is
   implied, join is the least environment above both operands, meet and forget are exact.
   Unbounded: all environments whose stored intervals are well formed and non-empty (an
   invariant that every operation keeps), all constants, all lists of constraints. *)
From Coq Require Import ZArith NArith List Bool Lia.
From CrabV Require Import Base.ZInf Scalar.Itv Scalar.ItvSound Scalar.ItvTight Ir.Syntax
     Dom.ItvEnv Dom.ItvEnvSound Dom.ItvSolver Dom.ItvSolverSound Dom.ItvDomain Dom.ItvDomainSound.
Import ListNotations.
Local Open Scope Z_scope.

(* ------------------------------------------------------------------ good intervals *)
Definition iwf (i : itv) : Prop := wf i /\ is_bot i = false.

Lemma iwf_top : iwf itop.
Proof. split; [apply wf_top|reflexivity]. Qed.

Lemma iwf_inhabited i : iwf i -> exists z, gamma i z.
Proof. intros [W B]. apply wf_inhabited; auto. Qed.

Lemma iwf_of_gamma i z : wf i -> gamma i z -> iwf i.
Proof. intros W G. split; auto. eapply gamma_not_bot; eauto. Qed.

Lemma is_top_gamma_iwf v z : iwf v -> is_top v = true -> gamma v z.
Proof.
  intros [W B] T. destruct (wf_nonbot _ W B) as (H1 & H2 & H3).
  unfold is_top in T. apply andb_true_iff in T. destruct T as [T1 T2].
  unfold gamma. destruct (lb v), (ub v); simpl in *; try discriminate; try congruence; auto.
Qed.

Definition mwfI (m : amap) : Prop := forall k, iwf (get m k).
Definition ewf (e : env) : Prop := match e with EBot => True | EMap m => mwfI m end.

Lemma get_put_same_gamma m k v z : iwf v -> (gamma (get (put m k v) k) z <-> gamma v z).
Proof.
  intros W. unfold put. destruct (is_top v) eqn:T.
  - rewrite get_remove_same. split; intros _; [apply is_top_gamma_iwf; auto|apply gamma_top].
  - simpl. rewrite N.eqb_refl. tauto.
Qed.

Lemma get_put_same_iwf m k v : iwf v -> iwf (get (put m k v) k).
Proof.
  intros W. unfold put. destruct (is_top v) eqn:T.
  - rewrite get_remove_same. apply iwf_top.
  - simpl. rewrite N.eqb_refl. auto.
Qed.

Lemma mwfI_put m k v : mwfI m -> iwf v -> mwfI (put m k v).
Proof.
  intros M W k'. destruct (N.eq_dec k' k) as [->|N].
  - apply get_put_same_iwf; auto.
  - rewrite get_put_other by auto. apply M.
Qed.

Lemma mwfI_remove m k : mwfI m -> mwfI (remove m k).
Proof.
  intros M k'. destruct (N.eq_dec k' k) as [->|N].
  - rewrite get_remove_same. apply iwf_top.
  - rewrite get_remove_other by auto. apply M.
Qed.

Lemma mwfI_nil : mwfI [].
Proof. intros k. apply iwf_top. Qed.

(* a representative of each stored interval *)
Definition pick_itv (i : itv) : Z :=
  match lb i, ub i with
  | Fin l, _ => l
  | _, Fin u => u
  | _, _ => 0
  end.

Lemma pick_itv_in i : iwf i -> gamma i (pick_itv i).
Proof.
  intros [W B]. destruct (wf_nonbot _ W B) as (H1 & H2 & H3).
  unfold gamma, pick_itv. destruct (lb i), (ub i); simpl in *; try congruence; auto;
    rewrite ?Z.leb_refl; auto.
Qed.

Lemma mwfI_inhabited m : mwfI m -> exists s, gmap m s.
Proof. intros M. exists (fun k => pick_itv (get m k)). intros k. apply pick_itv_in. apply M. Qed.

(* membership is independent per variable *)
Lemma gmap_upd m s k z : gmap m s -> gamma (get m k) z -> gmap m (upd s k z).
Proof.
  intros G Z k'. destruct (N.eq_dec k' k) as [->|N].
  - rewrite upd_same. auto.
  - rewrite upd_other by auto. apply G.
Qed.

(* bottom exactly when there is no store *)
Theorem e_bottom_exact e : ewf e -> (e_is_bot e = true <-> forall s, ~ genv e s).
Proof.
  destruct e as [|m]; simpl; intros W.
  - split; auto.
  - split; [discriminate|]. intros H. destruct (mwfI_inhabited m W) as [s G]. destruct (H s G).
Qed.

(* inclusion of the point sets is pointwise inclusion of the intervals *)
Lemma genv_incl_pointwise ma mc :
  mwfI ma -> (forall s, gmap ma s -> gmap mc s) ->
  forall k z, gamma (get ma k) z -> gamma (get mc k) z.
Proof.
  intros M H k z G. destruct (mwfI_inhabited ma M) as [s0 G0].
  specialize (H _ (gmap_upd ma s0 k z G0 G) k). rewrite upd_same in H. exact H.
Qed.

(* ------------------------------------------------------------------ pointwise merges *)
Lemma build_get g : forall ks acc m,
  (forall k, In k ks -> iwf (g k)) -> mwfI acc -> build ks g acc = Some m ->
  mwfI m /\
  forall k z, gamma (get m k) z <-> (if in_dec N.eq_dec k ks then gamma (g k) z else gamma (get acc k) z).
Proof.
  induction ks as [|k0 r IH]; intros acc m W A B; simpl in *.
  - inversion B; subst. split; auto. intros; tauto.
  - destruct (is_bot (g k0)) eqn:E; [discriminate|].
    assert (W0 : iwf (g k0)) by (apply W; auto).
    destruct (IH _ _ (fun k I => W k (or_intror I)) (mwfI_put acc k0 (g k0) A W0) B) as [M G].
    split; auto. intros k z. rewrite G. destruct (in_dec N.eq_dec k r) as [I|I].
    + destruct (N.eq_dec k0 k); tauto.
    + destruct (N.eq_dec k0 k) as [->|N].
      * apply get_put_same_gamma; auto.
      * rewrite get_put_other by auto. tauto.
Qed.

Lemma build_none g : forall ks acc,
  build ks g acc = None -> exists k, In k ks /\ is_bot (g k) = true.
Proof.
  induction ks as [|k0 r IH]; intros acc B; simpl in *; [discriminate|].
  destruct (is_bot (g k0)) eqn:E.
  - exists k0. auto.
  - destruct (IH _ B) as [k [I Bk]]. exists k. auto.
Qed.

Lemma get_keys_top m k : ~ In k (keys m) -> get m k = itop.
Proof. apply get_not_key. Qed.

(* ---- join: the least environment above both *)
Lemma comb_join_iwf a b k : mwfI a -> mwfI b -> iwf (comb true true ijoin a b k).
Proof.
  intros A B. unfold comb. destruct (is_top (get a k)); [apply iwf_top|].
  destruct (is_top (get b k)); [apply iwf_top|].
  destruct (iwf_inhabited _ (A k)) as [z Z].
  apply (iwf_of_gamma _ z); [apply wf_ijoin; [apply A|apply B]|apply ijoin_sound_l; auto].
Qed.

Theorem e_join_wf a b : ewf a -> ewf b -> ewf (e_join a b).
Proof.
  destruct a as [|x], b as [|y]; simpl; auto. intros A B. unfold merge.
  destruct (build _ _ _) as [m|] eqn:E; simpl; auto.
  apply (build_get _ _ _ _ (fun k _ => comb_join_iwf x y k A B) mwfI_nil E).
Qed.

Theorem e_join_least a b c : ewf a -> ewf b ->
  (forall s, genv a s -> genv c s) -> (forall s, genv b s -> genv c s) ->
  forall s, genv (e_join a b) s -> genv c s.
Proof.
  intros Wa Wb Ha Hb s. destruct a as [|x], b as [|y]; simpl; auto; try tauto.
  simpl in Wa, Wb. unfold merge. destruct (build _ _ _) as [m|] eqn:E; simpl; [|tauto].
  destruct (build_get _ _ _ _ (fun k _ => comb_join_iwf x y k Wa Wb) mwfI_nil E) as [M G].
  intros Gm. destruct c as [|mc].
  - destruct (mwfI_inhabited x Wa) as [s0 G0]. destruct (Ha s0 G0).
  - simpl in *. intros k.
    pose proof (genv_incl_pointwise x mc Wa Ha k) as Pa.
    pose proof (genv_incl_pointwise y mc Wb Hb k) as Pb.
    specialize (Gm k). apply G in Gm.
    assert (C : gamma (comb true true ijoin x y k) (s k)).
    { destruct (in_dec N.eq_dec k (keys x ++ keys y)) as [I|I]; auto.
      unfold comb. rewrite (get_keys_top x k), (get_keys_top y k); simpl; try apply gamma_top;
        intros J; apply I; apply in_or_app; auto. }
    clear Gm. unfold comb in C.
    destruct (is_top (get x k)) eqn:Tx.
    { apply Pa. apply is_top_gamma_iwf; auto. }
    destruct (is_top (get y k)) eqn:Ty.
    { apply Pb. apply is_top_gamma_iwf; auto. }
    assert (L : ileq (ijoin (get x k) (get y k)) (get mc k) = true).
    { apply ijoin_tight; [apply Wa|apply Wb|]. intros z [Z|Z]; auto. }
    apply (ileq_sound _ _ L). exact C.
Qed.

(* ---- meet: exact *)
Lemma comb_meet_gamma a b k z : mwfI a -> mwfI b ->
  (gamma (comb false true imeet a b k) z <-> (gamma (get a k) z /\ gamma (get b k) z)).
Proof.
  intros A B. unfold comb. destruct (is_top (get a k)) eqn:Ta.
  - split; [intros G; split; auto; apply is_top_gamma_iwf; auto|tauto].
  - destruct (is_top (get b k)) eqn:Tb.
    + split; [intros G; split; auto; apply is_top_gamma_iwf; auto|tauto].
    + apply imeet_exact.
Qed.

Lemma comb_meet_wf a b k : mwfI a -> mwfI b -> wf (comb false true imeet a b k).
Proof.
  intros A B. unfold comb. destruct (is_top (get a k)); [apply B|].
  destruct (is_top (get b k)); [apply A|]. apply wf_imeet; [apply A|apply B].
Qed.

Lemma build_some g : forall ks acc m,
  build ks g acc = Some m -> forall k, In k ks -> is_bot (g k) = false.
Proof.
  induction ks as [|k0 r IH]; intros acc m B k I; simpl in *; [tauto|].
  destruct (is_bot (g k0)) eqn:E; [discriminate|].
  destruct I as [<-|I]; auto. eapply IH; eauto.
Qed.

Lemma not_in_keys_top x y k : ~ In k (keys x ++ keys y) -> get x k = itop /\ get y k = itop.
Proof.
  intros I. split; apply get_keys_top; intros J; apply I; apply in_or_app; auto.
Qed.

Theorem e_meet_exact a b : ewf a -> ewf b ->
  ewf (e_meet a b) /\ forall s, genv (e_meet a b) s <-> (genv a s /\ genv b s).
Proof.
  destruct a as [|x], b as [|y]; simpl; try (intros; split; [exact I|intros; tauto]).
  intros A B. unfold merge. destruct (build _ _ _) as [m|] eqn:E; simpl.
  - assert (W : forall k, In k (keys x ++ keys y) -> iwf (comb false true imeet x y k)).
    { intros k I. split; [apply comb_meet_wf; auto|]. eapply build_some; eauto. }
    destruct (build_get _ _ _ _ W mwfI_nil E) as [M G]. split; auto.
    intros s. split.
    + intros Gm. assert (X : forall k, gamma (get x k) (s k) /\ gamma (get y k) (s k)).
      { intros k. specialize (Gm k). apply G in Gm.
        destruct (in_dec N.eq_dec k (keys x ++ keys y)) as [I|I].
        - apply comb_meet_gamma; auto.
        - destruct (not_in_keys_top x y k I) as [-> ->]. split; apply gamma_top. }
      split; intros k; apply X.
    + intros [Gx Gy] k. apply G. destruct (in_dec N.eq_dec k (keys x ++ keys y)) as [I|I].
      * apply comb_meet_gamma; auto.
      * apply gamma_top.
  - split; auto. intros s. split; [tauto|]. intros [Gx Gy].
    destruct (build_none _ _ _ E) as [k [_ Bk]].
    apply (is_bot_gamma_empty _ (s k) Bk). apply comb_meet_gamma; auto.
Qed.

(* ---- forget: exact *)
Lemma e_is_top_gamma m s : mwfI m -> forallb (fun k => is_top (get m k)) (keys m) = true -> gmap m s.
Proof.
  intros M T k. destruct (in_dec N.eq_dec k (keys m)) as [I|I].
  - rewrite forallb_forall in T. apply is_top_gamma_iwf; auto.
  - rewrite get_keys_top by auto. apply gamma_top.
Qed.

Definition off_eq (vs : list var) (s s' : store) : Prop := forall k, ~ In k vs -> s' k = s k.

Lemma fold_forget_spec vs : forall m,
  mwfI m ->
  match fold_left e_forget vs (EMap m) with
  | EBot => False
  | EMap m' => mwfI m' /\ forall k, get m' k = if in_dec N.eq_dec k vs then itop else get m k
  end.
Proof.
  induction vs as [|v r IH]; intros m M; simpl.
  - split; auto.
  - specialize (IH (remove m v) (mwfI_remove m v M)).
    destruct (fold_left e_forget r (EMap (remove m v))) as [|m']; auto.
    destruct IH as [M' G]. split; auto. intros k. rewrite G.
    destruct (in_dec N.eq_dec k r) as [I|I].
    + destruct (N.eq_dec v k); auto.
    + destruct (N.eq_dec v k) as [->|N].
      * apply get_remove_same.
      * apply get_remove_other. auto.
Qed.

Theorem d_forget_exact vs e : ewf e ->
  ewf (d_forget vs e) /\
  forall s', genv (d_forget vs e) s' <-> exists s, genv e s /\ off_eq vs s s'.
Proof.
  intros W. unfold d_forget. destruct e as [|m]; simpl.
  - split; auto. intros s'. split; [tauto|]. intros [s [[] _]].
  - destruct (forallb (fun k => is_top (get m k)) (keys m)) eqn:T.
    + split; auto. intros s'. split.
      * intros G. exists s'. split; auto. intros k _. reflexivity.
      * intros _. apply e_is_top_gamma; auto.
    + pose proof (fold_forget_spec vs m W) as F.
      destruct (fold_left e_forget vs (EMap m)) as [|m']; [tauto|]. destruct F as [M' G].
      split; auto. intros s'. simpl. split.
      * intros Gs. destruct (mwfI_inhabited m W) as [s0 G0].
        exists (fun k => if in_dec N.eq_dec k vs then s0 k else s' k). split.
        -- intros k. destruct (in_dec N.eq_dec k vs) as [I|I]; auto.
           specialize (Gs k). rewrite G in Gs. destruct (in_dec N.eq_dec k vs); tauto.
        -- intros k Hk. destruct (in_dec N.eq_dec k vs); tauto.
      * intros [s [Gs E]] k. rewrite G. destruct (in_dec N.eq_dec k vs) as [I|I].
        -- apply gamma_top.
        -- rewrite E by auto. apply Gs.
Qed.

(* ------------------------------------------------------------------ the solver on the language *)
(* unit-coefficient one-variable constraints *)
Definition unit1 (a : Z) : Prop := a = 1 \/ a = -1.

(* entries of the solver's table: INEQ / EQ / DISEQ over one variable *)
Definition ut (t : lincst) (a : Z) (x : var) : Prop :=
  le_terms (lc_exp t) = [(a, x)] /\ unit1 a.

Lemma is_bot_iconst q : is_bot (iconst q) = false.
Proof. unfold is_bot, iconst, bgt; simpl. rewrite Z.leb_refl. reflexivity. Qed.
Lemma is_top_iconst q : is_top (iconst q) = false.
Proof. reflexivity. Qed.
Lemma isingleton_iconst q : isingleton (iconst q) = Some q.
Proof. unfold isingleton. rewrite is_bot_iconst. simpl. rewrite Z.eqb_refl. reflexivity. Qed.

Lemma imk_fin_same q : imk (Fin q) (Fin q) = iconst q.
Proof. unfold imk, bgt; simpl. rewrite Z.leb_refl. reflexivity. Qed.

Lemma idiv_iconst_1 q : idiv (iconst q) (iconst 1) = iconst q.
Proof.
  unfold idiv. cbn [idiv_f]. rewrite !is_bot_iconst. cbn [orb]. rewrite isingleton_iconst.
  reflexivity.
Qed.
Lemma idiv_iconst_m1 q : idiv (iconst q) (iconst (-1)) = iconst (- q).
Proof.
  unfold idiv. cbn [idiv_f]. rewrite !is_bot_iconst. cbn [orb]. rewrite isingleton_iconst.
  cbn [Z.eqb Z.ltb Z.compare]. cbn [lb ub iconst bdiv].
  assert (E : Z.quot q (-1) = - q).
  { pose proof (Z.quot_opp_r q 1 ltac:(lia)) as H. rewrite Z.quot_1_r in H. exact H. }
  rewrite E. apply imk_fin_same.
Qed.

Lemma idiv_unit q a : unit1 a -> idiv (iconst q) (iconst a) = iconst (a * q).
Proof.
  intros [->| ->].
  - rewrite idiv_iconst_1. f_equal; try lia.
  - rewrite idiv_iconst_m1. f_equal; try lia.
Qed.

Lemma bmul_fin a b : bmul (Fin a) (Fin b) = Fin (a * b).
Proof.
  unfold bmul. destruct b as [|pb|pb]; [f_equal; lia| |];
    (destruct a as [|pa|pa]; [f_equal; lia|reflexivity|reflexivity]).
Qed.

Lemma imul_iconst p a : imul (iconst p) (iconst a) = iconst (p * a).
Proof.
  unfold imul. rewrite !is_bot_iconst. cbn [orb lb ub iconst]. rewrite bmul_fin.
  unfold bmin4, bmax4, bmin, bmax. rewrite ble_refl. apply imk_fin_same.
Qed.

Lemma ieq_iconst q : ieq (iconst q) (iconst q) = true.
Proof. unfold ieq. rewrite is_bot_iconst. simpl. rewrite Z.eqb_refl. reflexivity. Qed.

(* what one table entry does to the interval of its variable *)
Definition refine_itv (t : lincst) (a : Z) : itv :=
  let q := a * - le_cst (lc_exp t) in
  match lc_kind t with
  | EQ => iconst q
  | INEQ => if 0 <? a then ilower_half (iconst q) else iupper_half (iconst q)
  | _ => itop
  end.

Definition entry_itv (t : lincst) (a : Z) (old : itv) : itv :=
  match lc_kind t with
  | DISEQ => itrim old (iconst (a * - le_cst (lc_exp t)))
  | STRICT => old
  | _ => imeet old (refine_itv t a)
  end.

Lemma compute_residual_ut t a x st : ut t a x ->
  compute_residual t x st = (iconst (- le_cst (lc_exp t)), s_ops st).
Proof.
  intros [T _]. unfold compute_residual. rewrite T. simpl. rewrite N.eqb_refl. reflexivity.
Qed.

(* after propagating a table entry: None iff the new interval is empty; otherwise only the
   interval of x may change, to something with the same points as [entry_itv] *)
Lemma propagate_ut t a x st : ut t a x ->
  match propagate t st with
  | None => is_bot (entry_itv t a (get (s_map st) x)) = true
  | Some st' =>
    is_bot (entry_itv t a (get (s_map st) x)) = false /\
    (forall k, k <> x -> get (s_map st') k = get (s_map st) k) /\
    (forall z, gamma (get (s_map st') x) z <-> gamma (entry_itv t a (get (s_map st) x)) z) /\
    (iwf (get (s_map st) x) -> iwf (get (s_map st') x))
  end.
Proof.
  intros U. pose proof U as [T Ua]. unfold propagate. rewrite T. cbn [propagate_terms].
  unfold propagate_term. rewrite (compute_residual_ut t a x st U). cbn [s_map s_refined s_ops].
  rewrite is_top_iconst. rewrite (idiv_unit _ a Ua). rewrite imul_iconst.
  replace (a * - le_cst (lc_exp t) * a) with (- le_cst (lc_exp t)) by (destruct Ua; subst; lia).
  rewrite ieq_iconst. unfold entry_itv, refine_itv.
  set (old := get (s_map st) x).
  assert (REF : forall i, wf i ->
    match s_refine x i (mkS (s_map st) (s_refined st) (s_ops st)) with
    | None => is_bot (imeet old i) = true
    | Some st' => is_bot (imeet old i) = false /\
                  (forall k, k <> x -> get (s_map st') k = get (s_map st) k) /\
                  (forall z, gamma (get (s_map st') x) z <-> gamma (imeet old i) z) /\
                  (iwf old -> iwf (get (s_map st') x))
    end).
  { intros i Wi. unfold s_refine. cbn [s_map s_refined s_ops]. fold old.
    destruct (is_bot (imeet old i)) eqn:B; auto.
    destruct (negb (ieq old (imeet old i))) eqn:Q; cbn [s_map].
    - split; auto. split; [intros k Hk; apply get_put_other; auto|]. split.
      + intros z. apply get_put_same_gamma. split; auto.
        unfold old. admit.
      + admit.
    - admit. }
  admit.
Admitted.
