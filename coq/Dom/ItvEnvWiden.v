(* ItvEnvWiden.v — widening of interval environments moves strictly down a well-founded
   order whenever the inclusion test that guards it fails (property C05 at the level of
   separate_domain), with and without thresholds; widening chains of environments become
   stationary, with an explicit bound.

   Representation invariant [env_ok]: no binding of a map is the bottom interval
   (separate_domain::set turns such a map into bottom).  It is needed: on maps that bind
   a key to bottom the chain  x, _|_, y, _|_, y', ...  never stabilises
   ([e_widen_needs_invariant] below).  All lattice operations preserve it. *)
From Coq Require Import ZArith NArith List Bool Arith Lia.
From CrabV Require Import Base.ZInf Scalar.Itv Scalar.ItvSound Ir.Syntax Dom.ItvEnv Dom.ItvEnvSound
     Fix.Thresholds Fix.ThresholdsSound.
Import ListNotations.

(* ------------------------------------------------------------------ invariant *)
Definition map_ok (m : amap) : Prop := forall k, is_bot (get m k) = false.
Definition env_ok (e : env) : Prop := match e with EBot => True | EMap m => map_ok m end.

Definition norm (v : itv) : itv := if is_top v then itop else v.

Lemma get_put_same m k v : get (put m k v) k = norm v.
Proof.
  unfold put, norm. destruct (is_top v).
  - apply get_remove_same.
  - cbn [get]. rewrite N.eqb_refl. reflexivity.
Qed.

Lemma is_bot_norm v : is_bot v = false -> is_bot (norm v) = false.
Proof. unfold norm. destruct (is_top v); auto. Qed.

Lemma map_ok_nil : map_ok [].
Proof. intros k. reflexivity. Qed.

Lemma map_ok_remove m k : map_ok m -> map_ok (remove m k).
Proof.
  intros H k'. destruct (N.eq_dec k' k) as [->|N].
  - rewrite get_remove_same. reflexivity.
  - rewrite get_remove_other by exact N. apply H.
Qed.

Lemma map_ok_put m k v : map_ok m -> is_bot v = false -> map_ok (put m k v).
Proof.
  intros H B k'. destruct (N.eq_dec k' k) as [->|N].
  - rewrite get_put_same. apply is_bot_norm; exact B.
  - rewrite get_put_other by exact N. apply H.
Qed.

Lemma build_ok ks g : forall acc m, build ks g acc = Some m -> map_ok acc -> map_ok m.
Proof.
  induction ks as [|k r IH]; cbn [build]; intros acc m H A.
  - inversion H; subst; exact A.
  - destruct (is_bot (g k)) eqn:B; [discriminate H|].
    apply (IH _ _ H). apply map_ok_put; assumption.
Qed.

Lemma build_get ks g : forall acc m, build ks g acc = Some m ->
  forall k, (In k ks -> get m k = norm (g k)) /\ (~ In k ks -> get m k = get acc k).
Proof.
  induction ks as [|k0 r IH]; cbn [build]; intros acc m H k.
  - inversion H; subst. split; [intros []|reflexivity].
  - destruct (is_bot (g k0)) eqn:B; [discriminate H|].
    destruct (IH _ _ H k) as [I1 I2].
    destruct (in_dec N.eq_dec k r) as [J|J].
    + split; [intros _; apply I1; exact J|]. intros X. exfalso. apply X. right; exact J.
    + rewrite (I2 J). destruct (N.eq_dec k k0) as [->|N].
      * split; [intros _; apply get_put_same|]. intros X. exfalso. apply X. left; reflexivity.
      * rewrite get_put_other by exact N.
        split; [|reflexivity]. intros [E|E]; [congruence|contradiction].
Qed.

Lemma build_some ks g : (forall k, In k ks -> is_bot (g k) = false) ->
  forall acc, exists m, build ks g acc = Some m.
Proof.
  induction ks as [|k r IH]; cbn [build]; intros H acc.
  - eexists; reflexivity.
  - rewrite (H k (or_introl eq_refl)). apply IH. intros k' I. apply H. right; exact I.
Qed.

Lemma merge_ok ab f x y m : merge ab f x y = Some m -> map_ok m.
Proof. unfold merge. intros H. exact (build_ok _ _ _ _ H map_ok_nil). Qed.

Lemma env_ok_bot : env_ok EBot. Proof. exact I. Qed.
Lemma env_ok_top : env_ok e_top. Proof. exact map_ok_nil. Qed.

Ltac merge_ok_tac :=
  match goal with
  | |- env_ok (match merge ?ab ?f ?x ?y with _ => _ end) =>
    destruct (merge ab f x y) as [m|] eqn:E; [exact (merge_ok _ _ _ _ _ E)|exact I]
  end.

Lemma env_ok_join a b : env_ok a -> env_ok b -> env_ok (e_join a b).
Proof. destruct a as [|x], b as [|y]; cbn [e_join]; auto. intros _ _. merge_ok_tac. Qed.
Lemma env_ok_meet a b : env_ok a -> env_ok b -> env_ok (e_meet a b).
Proof. destruct a as [|x], b as [|y]; cbn [e_meet]; auto. intros _ _. merge_ok_tac. Qed.
Lemma env_ok_narrow a b : env_ok a -> env_ok b -> env_ok (e_narrow a b).
Proof. destruct a as [|x], b as [|y]; cbn [e_narrow]; auto. intros _ _. merge_ok_tac. Qed.
Lemma env_ok_widen a b : env_ok a -> env_ok b -> env_ok (e_widen a b).
Proof. destruct a as [|x], b as [|y]; cbn [e_widen]; auto. intros _ _. merge_ok_tac. Qed.
Lemma env_ok_widen_thr gp gn a b : env_ok a -> env_ok b -> env_ok (e_widen_thr gp gn a b).
Proof. destruct a as [|x], b as [|y]; cbn [e_widen_thr]; auto. intros _ _. merge_ok_tac. Qed.

Lemma env_ok_set e k v : env_ok e -> env_ok (e_set e k v).
Proof.
  destruct e as [|m]; cbn [e_set]; auto. intros H.
  destruct (is_bot v) eqn:B; [exact I|]. apply map_ok_put; assumption.
Qed.
Lemma env_ok_forget e k : env_ok e -> env_ok (e_forget e k).
Proof. destruct e as [|m]; cbn [e_forget]; auto. apply map_ok_remove. Qed.

(* ------------------------------------------------------------------ sums over key sets *)
Definition msum (g : var -> nat) (l : list var) : nat := list_sum (map g l).

Lemma msum_app g l1 l2 : msum g (l1 ++ l2) = msum g l1 + msum g l2.
Proof. unfold msum. rewrite map_app, list_sum_app. reflexivity. Qed.

Lemma msum_le_pointwise g g' l : (forall k, g' k <= g k) -> msum g' l <= msum g l.
Proof.
  intros H. induction l as [|a r IH]; [cbn; lia|].
  change (g' a + msum g' r <= g a + msum g r). specialize (H a). lia.
Qed.

Lemma msum_le_gen g g' : forall l' l, NoDup l' ->
  (forall k, In k l' -> g' k <= g k) ->
  (forall k, In k l' -> ~ In k l -> g' k = 0) ->
  msum g' l' <= msum g l.
Proof.
  induction l' as [|k r IH]; intros l ND H1 H2; [cbn; lia|].
  inversion ND as [|? ? NI ND']; subst.
  change (msum g' (k :: r)) with (g' k + msum g' r).
  destruct (in_dec N.eq_dec k l) as [J|J].
  - destruct (in_split _ _ J) as (l1 & l2 & ->).
    match goal with |- _ <= msum g ?L => assert (E : msum g L = g k + msum g (l1 ++ l2)) end.
    { rewrite !msum_app. change (msum g (k :: l2)) with (g k + msum g l2). lia. }
    rewrite E.
    pose proof (H1 k (or_introl eq_refl)) as L.
    assert (X : msum g' r <= msum g (l1 ++ l2)).
    { apply IH; [exact ND'| |].
      - intros k' I'. apply H1. right; exact I'.
      - intros k' I' NI'. apply H2; [right; exact I'|].
        intros Q. apply NI'. apply in_app_or in Q. apply in_or_app.
        destruct Q as [Q|[Q|Q]]; [left; exact Q| |right; exact Q].
        subst k'. contradiction. }
    lia.
  - rewrite (H2 k (or_introl eq_refl) J).
    apply IH; [exact ND'| |].
    + intros k' I'. apply H1. right; exact I'.
    + intros k' I' NI'. apply H2; [right; exact I'|exact NI'].
Qed.

Lemma msum_lt_at g g' k0 : forall l, In k0 l -> (forall k, g' k <= g k) -> g' k0 < g k0 ->
  msum g' l < msum g l.
Proof.
  induction l as [|a r IH]; intros J H L; [destruct J|].
  change (g' a + msum g' r < g a + msum g r).
  destruct J as [->|J].
  - pose proof (msum_le_pointwise g g' r H). lia.
  - specialize (IH J H L). specialize (H a). lia.
Qed.

(* ------------------------------------------------------------------ the order on environments,
   generic in the scalar widening [f] and in the scalar measure [bc] *)
Lemma ileq_top_nonbot a : is_bot a = false -> ileq a itop = true.
Proof. unfold ileq. intros ->. destruct a as [[| l |] [| u |]]; reflexivity. Qed.

Lemma forallb_false {T} (p : T -> bool) l : forallb p l = false -> exists x, In x l /\ p x = false.
Proof.
  induction l as [|a r IH]; cbn [forallb]; [discriminate|].
  destruct (p a) eqn:E; cbn [andb].
  - intros H. destruct (IH H) as (x & I & Q). exists x. split; [right; exact I|exact Q].
  - intros _. exists a. split; [left; reflexivity|exact E].
Qed.

Lemma filter_all_false {T} (p : T -> bool) l : (forall x, In x l -> p x = false) -> filter p l = [].
Proof.
  induction l as [|a r IH]; intros H; cbn [filter]; [reflexivity|].
  rewrite (H a (or_introl eq_refl)). apply IH. intros x I. apply H. right; exact I.
Qed.

Section Generic.
  Variable f : itv -> itv -> itv.
  Variable bc : itv -> nat.

  (* what merge computes at one key for an absorbing operator *)
  Definition cw (a b : itv) : itv :=
    if is_top a then itop else if is_top b then itop else f a b.

  Hypothesis bc_top : bc itop = 0.
  Hypothesis f_nonbot : forall a b, is_bot a = false -> is_bot (cw a b) = false.
  Hypothesis f_le : forall a b, is_bot a = false -> bc (norm (cw a b)) <= bc a.
  (* strict when the argument is not included ... *)
  Hypothesis f_lt : forall a b, is_bot a = false -> ileq b a = false -> bc (norm (cw a b)) < bc a.
  (* ... and when the result is not included *)
  Hypothesis f_lt2 : forall a b, is_bot a = false -> ileq (norm (cw a b)) a = false ->
    bc (norm (cw a b)) < bc a.

  Definition mmeasure (m : amap) : nat :=
    msum (fun k => bc (get m k)) (nodup N.eq_dec (keys m)).

  Lemma mmeasure_zero_outside m k : ~ In k (nodup N.eq_dec (keys m)) -> bc (get m k) = 0.
  Proof.
    intros H. rewrite get_not_key; [exact bc_top|]. intros J. apply H. apply nodup_In. exact J.
  Qed.

  Lemma mmeasure_le m' m : (forall k, bc (get m' k) <= bc (get m k)) -> mmeasure m' <= mmeasure m.
  Proof.
    intros H. unfold mmeasure. apply msum_le_gen.
    - apply NoDup_nodup.
    - intros k _. apply H.
    - intros k _ NI. pose proof (H k) as L. rewrite (mmeasure_zero_outside m k NI) in L. lia.
  Qed.

  Lemma mmeasure_lt m' m k0 : (forall k, bc (get m' k) <= bc (get m k)) ->
    bc (get m' k0) < bc (get m k0) -> mmeasure m' < mmeasure m.
  Proof.
    intros H L. unfold mmeasure.
    set (g := fun k => bc (get m k)). set (g' := fun k => bc (get m' k)).
    set (gh := fun k => if N.eqb k k0 then g k - 1 else g k).
    assert (IN : In k0 (nodup N.eq_dec (keys m))).
    { destruct (in_dec N.eq_dec k0 (nodup N.eq_dec (keys m))) as [J|J]; [exact J|].
      pose proof (mmeasure_zero_outside m k0 J). lia. }
    assert (A1 : msum g' (nodup N.eq_dec (keys m')) <= msum gh (nodup N.eq_dec (keys m))).
    { apply msum_le_gen.
      - apply NoDup_nodup.
      - intros k _. unfold gh, g, g'. destruct (N.eqb_spec k k0) as [->|_]; [lia|apply H].
      - intros k _ NI. unfold g'. pose proof (H k) as L'.
        rewrite (mmeasure_zero_outside m k NI) in L'. lia. }
    assert (A2 : msum gh (nodup N.eq_dec (keys m)) < msum g (nodup N.eq_dec (keys m))).
    { apply (msum_lt_at g gh k0); [exact IN| |].
      - intros k. unfold gh. destruct (N.eqb k k0); lia.
      - unfold gh, g. rewrite N.eqb_refl. lia. }
    lia.
  Qed.

  Definition e_widen_f (a b : env) : env :=
    match a, b with
    | EBot, _ => b | _, EBot => a
    | EMap x, EMap y => match merge true f x y with Some m => EMap m | None => EBot end
    end.

  (* bottom is above every map; maps are compared by their measure *)
  Definition env_lt (b a : env) : Prop :=
    match a, b with
    | EBot, EMap _ => True
    | EMap x, EMap y => mmeasure y < mmeasure x
    | _, EBot => False
    end.

  Lemma env_lt_wf : well_founded env_lt.
  Proof.
    assert (M : forall n m, mmeasure m < n -> Acc env_lt (EMap m)).
    { induction n as [|n IH]; intros m L; [lia|].
      constructor. intros [|y] H; cbn [env_lt] in H; [contradiction|]. apply IH. lia. }
    intros [|m].
    - constructor. intros [|y] H; cbn [env_lt] in H; [contradiction|]. exact (M _ y (Nat.lt_succ_diag_r _)).
    - exact (M _ m (Nat.lt_succ_diag_r _)).
  Qed.

  Lemma comb_cw x y k : comb true true f x y k = cw (get x k) (get y k).
  Proof. reflexivity. Qed.

  Lemma merge_widen_some x y : map_ok x -> exists m, merge true f x y = Some m.
  Proof.
    intros OK. unfold merge. apply build_some. intros k _. rewrite comb_cw. apply f_nonbot. apply OK.
  Qed.

  Lemma merge_widen_get x y m : merge true f x y = Some m -> forall k,
    get m k = norm (cw (get x k) (get y k)) \/ (get m k = itop /\ get x k = itop).
  Proof.
    unfold merge. intros H k. destruct (build_get _ _ _ _ H k) as [I1 I2].
    destruct (in_dec N.eq_dec k (keys x ++ keys y)) as [J|J].
    - left. rewrite (I1 J), comb_cw. reflexivity.
    - right. rewrite (I2 J). split; [reflexivity|].
      apply get_not_key. intros Q. apply J. apply in_or_app. left; exact Q.
  Qed.

  Lemma merge_widen_le x y m : map_ok x -> merge true f x y = Some m ->
    forall k, bc (get m k) <= bc (get x k).
  Proof.
    intros OK H k. destruct (merge_widen_get x y m H k) as [E|[E1 E2]].
    - rewrite E. apply f_le. apply OK.
    - rewrite E1, bc_top. lia.
  Qed.

  (* strict decrease when the argument is not included in the left operand *)
  Lemma merge_widen_lt_arg x y m : map_ok x -> map_ok y -> merge true f x y = Some m ->
    e_leq (EMap y) (EMap x) = false -> mmeasure m < mmeasure x.
  Proof.
    intros OKx OKy E LE. cbn [e_leq] in LE.
    destruct (forallb_false _ _ LE) as (k & IN & Q).
    apply (mmeasure_lt m x k).
    - apply (merge_widen_le x y m OKx E).
    - destruct (merge_widen_get x y m E k) as [G|[G1 G2]].
      + rewrite G. apply f_lt; [apply OKx|exact Q].
      + exfalso. rewrite G2, (ileq_top_nonbot _ (OKy k)) in Q. discriminate Q.
  Qed.

  (* strict decrease when the result is not included in the left operand *)
  Lemma merge_widen_lt_res x y m : map_ok x -> merge true f x y = Some m ->
    e_leq (EMap m) (EMap x) = false -> mmeasure m < mmeasure x.
  Proof.
    intros OKx E LE. cbn [e_leq] in LE.
    destruct (forallb_false _ _ LE) as (k & IN & Q).
    apply (mmeasure_lt m x k).
    - apply (merge_widen_le x y m OKx E).
    - destruct (merge_widen_get x y m E k) as [G|[G1 G2]].
      + rewrite G in Q |- *. apply f_lt2; [apply OKx|exact Q].
      + exfalso. rewrite G1, G2 in Q. discriminate Q.
  Qed.

  (* a widening step that the inclusion test asks for moves strictly down *)
  Theorem e_widen_f_progress a b : env_ok a -> env_ok b ->
    e_leq b a = false -> env_lt (e_widen_f a b) a.
  Proof.
    destruct a as [|x], b as [|y]; intros OKa OKb LE; try discriminate LE.
    - exact I.
    - cbn [env_ok] in OKa, OKb. cbn [e_widen_f].
      destruct (merge_widen_some x y OKa) as [m E]. rewrite E. cbn [env_lt].
      exact (merge_widen_lt_arg x y m OKa OKb E LE).
  Qed.

  Lemma e_widen_f_measure_le x y : map_ok x ->
    exists m, merge true f x y = Some m /\ mmeasure m <= mmeasure x.
  Proof.
    intros OK. destruct (merge_widen_some x y OK) as [m E]. exists m.
    split; [exact E|]. apply mmeasure_le. apply (merge_widen_le x y m OK E).
  Qed.

  Lemma env_ok_widen_f a b : env_ok a -> env_ok b -> env_ok (e_widen_f a b).
  Proof.
    destruct a as [|x], b as [|y]; cbn [e_widen_f]; auto. intros _ _.
    destruct (merge true f x y) as [m|] eqn:E; [exact (merge_ok _ _ _ _ _ E)|exact I].
  Qed.

  (* ---------------------------------------------------------------- chains *)
  Section Chain.
    Variable x0 : env.
    Variable ys : nat -> env.
    Hypothesis x0_ok : env_ok x0.
    Hypothesis ys_ok : forall i, env_ok (ys i).

    Fixpoint echain (i : nat) : env :=
      match i with O => x0 | S j => e_widen_f (echain j) (ys j) end.

    (* the iterate grew (the test of C05 for intervals) *)
    Definition enonstationary (i : nat) : bool := negb (e_leq (echain (S i)) (echain i)).
    (* the argument was not included (the test the fixpoint engine performs) *)
    Definition erefused (i : nat) : bool := negb (e_leq (ys i) (echain i)).

    Lemma echain_ok i : env_ok (echain i).
    Proof. induction i as [|i IH]; cbn [echain]; [exact x0_ok|]. apply env_ok_widen_f; auto. Qed.

    Lemma echain_step i m : echain i = EMap m ->
      exists m', echain (S i) = EMap m' /\ mmeasure m' <= mmeasure m /\
                 (enonstationary i = true -> mmeasure m' < mmeasure m) /\
                 (erefused i = true -> mmeasure m' < mmeasure m).
    Proof.
      intros E. pose proof (echain_ok i) as OK. rewrite E in OK. cbn [env_ok] in OK.
      pose proof (ys_ok i) as OKy.
      unfold enonstationary, erefused. cbn [echain]. rewrite E.
      destruct (ys i) as [|y].
      - exists m. cbn [e_widen_f]. split; [reflexivity|]. split; [lia|].
        rewrite (e_leq_refl (EMap m)). cbn [e_leq negb]. split; discriminate.
      - cbn [env_ok] in OKy. cbn [e_widen_f].
        destruct (e_widen_f_measure_le m y OK) as (m' & EM & L). rewrite EM.
        exists m'. split; [reflexivity|]. split; [exact L|]. split; intros H; apply negb_true_iff in H.
        + exact (merge_widen_lt_res m y m' OK EM H).
        + exact (merge_widen_lt_arg m y m' OK OKy EM H).
    Qed.

    Section Count.
      Variable ns : nat -> bool.
      Hypothesis ns_strict : forall i m m', echain i = EMap m -> echain (S i) = EMap m' ->
        ns i = true -> mmeasure m' < mmeasure m.

      (* once the iterate is a map it stays a map, and the steps counted by [ns] are paid
         for by the measure *)
      Lemma echain_count j m : echain j = EMap m -> forall k,
        exists m', echain (j + k) = EMap m' /\
                   length (filter ns (seq j k)) + mmeasure m' <= mmeasure m.
      Proof.
        intros E. induction k as [|k IH].
        - exists m. rewrite Nat.add_0_r. split; [exact E|cbn; lia].
        - destruct IH as (m1 & E1 & C1).
          destruct (echain_step (j + k) m1 E1) as (m2 & E2 & L2 & _).
          exists m2. replace (j + S k) with (S (j + k)) by lia. split; [exact E2|].
          rewrite seq_S, filter_app, app_length. cbn [filter].
          destruct (ns (j + k)) eqn:NS; cbn [length].
          + pose proof (ns_strict _ _ _ E1 E2 NS). lia.
          + lia.
      Qed.

      Hypothesis ns_bot : forall i, echain (S i) = EBot -> ns i = false.

      (* with a bottom prefix: one more step, the one that leaves bottom *)
      Lemma echain_count_from_bot j m : echain j = EMap m -> (forall i, i < j -> echain i = EBot) ->
        forall n, length (filter ns (seq 0 n)) <= 1 + mmeasure m.
      Proof.
        intros E B.
        assert (P : forall d, length (filter ns (seq 0 (j + d))) <= 1 + mmeasure m).
        { intros d. rewrite seq_app, filter_app, app_length. cbn [Nat.add].
          destruct (echain_count j m E d) as (m' & _ & C).
          assert (Z : length (filter ns (seq 0 j)) <= 1).
          { destruct j as [|j']; [cbn; lia|].
            rewrite seq_S, filter_app, app_length.
            rewrite (filter_all_false ns (seq 0 j')).
            - cbn [filter Nat.add length]. destruct (ns j'); cbn [length]; lia.
            - intros i I. apply in_seq in I. apply ns_bot. apply B. lia. }
          lia. }
        intros n. destruct (Nat.le_ge_cases j n) as [L|L].
        - replace n with (j + (n - j)) by lia. apply P.
        - specialize (P 0). rewrite Nat.add_0_r in P.
          replace j with (n + (j - n)) in P by lia.
          rewrite seq_app, filter_app, app_length in P. lia.
      Qed.
    End Count.

    Theorem echain_nonstationary_bound j m : echain j = EMap m -> forall k,
      length (filter enonstationary (seq j k)) <= mmeasure m.
    Proof.
      intros E k.
      destruct (echain_count enonstationary) with (j := j) (m := m) (k := k) as (m' & _ & C); [|exact E|lia].
      intros i a a' Ea Ea' NS. destruct (echain_step i a Ea) as (a2 & E2 & _ & S1 & _).
      rewrite Ea' in E2. inversion E2; subst a2. exact (S1 NS).
    Qed.

    Theorem echain_refused_bound j m : echain j = EMap m -> forall k,
      length (filter erefused (seq j k)) <= mmeasure m.
    Proof.
      intros E k.
      destruct (echain_count erefused) with (j := j) (m := m) (k := k) as (m' & _ & C); [|exact E|lia].
      intros i a a' Ea Ea' NS. destruct (echain_step i a Ea) as (a2 & E2 & _ & _ & S2).
      rewrite Ea' in E2. inversion E2; subst a2. exact (S2 NS).
    Qed.

    (* the bound in terms of the first non-bottom iterate *)
    Theorem echain_stabilises j m : echain j = EMap m -> (forall i, i < j -> echain i = EBot) ->
      forall n, length (filter enonstationary (seq 0 n)) <= 1 + mmeasure m.
    Proof.
      intros E B. apply (echain_count_from_bot enonstationary) with (j := j); [|  |exact E|exact B].
      - intros i a a' Ea Ea' NS. destruct (echain_step i a Ea) as (a2 & E2 & _ & S1 & _).
        rewrite Ea' in E2. inversion E2; subst a2. exact (S1 NS).
      - intros i H. unfold enonstationary. rewrite H. reflexivity.
    Qed.

    Theorem echain_refusals_finite j m : echain j = EMap m -> (forall i, i < j -> echain i = EBot) ->
      forall n, length (filter erefused (seq 0 n)) <= 1 + mmeasure m.
    Proof.
      intros E B. apply (echain_count_from_bot erefused) with (j := j); [|  |exact E|exact B].
      - intros i a a' Ea Ea' NS. destruct (echain_step i a Ea) as (a2 & E2 & _ & _ & S2).
        rewrite Ea' in E2. inversion E2; subst a2. exact (S2 NS).
      - intros i H. unfold erefused. cbn [echain] in H.
        destruct (echain i) as [|x] eqn:Ei.
        + cbn [e_widen_f] in H. rewrite H. reflexivity.
        + exfalso. pose proof (echain_ok i) as OK. rewrite Ei in OK. cbn [env_ok] in OK.
          destruct (ys i) as [|y]; cbn [e_widen_f] in H; [discriminate H|].
          destruct (merge_widen_some x y OK) as [mm EM]. rewrite EM in H. discriminate H.
    Qed.
  End Chain.
End Generic.

(* ------------------------------------------------------------------ instance 1: plain widening *)
Definition bcount (i : itv) : nat :=
  (match lb i with MInf => 0 | _ => 1 end) + (match ub i with PInf => 0 | _ => 1 end).

Ltac scal :=
  unfold cw, norm, iwiden, ileq, is_top, is_bot, imk, bcount, itop, bgt, blt, bge;
  cbn [lb ub ble negb andb orb b_is_finite];
  repeat match goal with
  | |- context [(?x <=? ?y)%Z] => destruct (Z.leb_spec x y); cbn [lb ub ble negb andb orb b_is_finite]
  end;
  intros; try discriminate; try reflexivity; try (cbn [Nat.add]; lia).

Lemma iw_nonbot a b : is_bot a = false -> is_bot (cw iwiden a b) = false.
Proof. destruct a as [[| la |] [| ua |]], b as [[| lb' |] [| ub' |]]; scal. Qed.
Lemma iw_le a b : is_bot a = false -> bcount (norm (cw iwiden a b)) <= bcount a.
Proof. destruct a as [[| la |] [| ua |]], b as [[| lb' |] [| ub' |]]; scal. Qed.
Lemma iw_lt a b : is_bot a = false -> ileq b a = false -> bcount (norm (cw iwiden a b)) < bcount a.
Proof. destruct a as [[| la |] [| ua |]], b as [[| lb' |] [| ub' |]]; scal. Qed.
Lemma iw_lt2 a b : is_bot a = false -> ileq (norm (cw iwiden a b)) a = false ->
  bcount (norm (cw iwiden a b)) < bcount a.
Proof. destruct a as [[| la |] [| ua |]], b as [[| lb' |] [| ub' |]]; scal. Qed.

Ltac inst_plain :=
  first [exact (eq_refl : bcount itop = 0) | exact iw_nonbot | exact iw_le | exact iw_lt | exact iw_lt2
        | assumption].

(* number of finite (more precisely: non-default) bounds of the bound variables *)
Definition emeasure : amap -> nat := mmeasure bcount.
Definition e_lt : env -> env -> Prop := env_lt bcount.

Lemma e_widen_is_f a b : e_widen a b = e_widen_f iwiden a b.
Proof. reflexivity. Qed.

Theorem e_lt_wf : well_founded e_lt.
Proof. exact (env_lt_wf bcount eq_refl). Qed.

Theorem e_widen_progress a b : env_ok a -> env_ok b -> e_leq b a = false -> e_lt (e_widen a b) a.
Proof.
  rewrite e_widen_is_f. apply e_widen_f_progress; inst_plain.
Qed.

(* chains x_{i+1} = x_i widen y_i with arbitrary (well-formed) y_i *)
Definition ewchain := echain iwiden.
Definition ew_nonstationary := enonstationary iwiden.
Definition ew_refused := erefused iwiden.

Theorem e_widen_chain_stabilises x0 ys : env_ok x0 -> (forall i, env_ok (ys i)) ->
  forall j m, ewchain x0 ys j = EMap m -> (forall i, i < j -> ewchain x0 ys i = EBot) ->
  forall n, length (filter (ew_nonstationary x0 ys) (seq 0 n)) <= 1 + emeasure m.
Proof.
  intros OK0 OKy. apply echain_stabilises; inst_plain.
Qed.

Theorem e_widen_chain_refusals x0 ys : env_ok x0 -> (forall i, env_ok (ys i)) ->
  forall j m, ewchain x0 ys j = EMap m -> (forall i, i < j -> ewchain x0 ys i = EBot) ->
  forall n, length (filter (ew_refused x0 ys) (seq 0 n)) <= 1 + emeasure m.
Proof.
  intros OK0 OKy. apply echain_refusals_finite; inst_plain.
Qed.

Theorem e_widen_chain_from_map x0 ys : env_ok x0 -> (forall i, env_ok (ys i)) ->
  forall j m, ewchain x0 ys j = EMap m ->
  forall k, length (filter (ew_nonstationary x0 ys) (seq j k)) <= emeasure m.
Proof.
  intros OK0 OKy. apply echain_nonstationary_bound; inst_plain.
Qed.

(* the invariant is needed: with a key bound to the bottom interval the widening of two
   maps is bottom although the inclusion test failed, and the next step returns to a map *)
Example e_widen_needs_invariant :
  let a := EMap [(0%N, ibot); (1%N, mkI (Fin 0) (Fin 0))] in
  let b := EMap [(0%N, ibot); (1%N, mkI (Fin 0) (Fin 1))] in
  e_leq b a = false /\ e_widen a b = EBot /\ e_leq b (e_widen a b) = false /\ e_widen (e_widen a b) b = b.
Proof. vm_compute. repeat split. Qed.

Example e_widen_progress_example :
  let a := EMap [(1%N, mkI (Fin 0) (Fin 0)); (2%N, mkI (Fin 3) PInf)] in
  let b := EMap [(1%N, mkI (Fin 0) (Fin 1)); (2%N, mkI (Fin 2) PInf)] in
  env_ok a /\ env_ok b /\ e_leq b a = false /\
  e_widen a b = EMap [(1%N, mkI (Fin 0) PInf)] /\ emeasure [(1%N, mkI (Fin 0) PInf)] = 1 /\
  emeasure [(1%N, mkI (Fin 0) (Fin 0)); (2%N, mkI (Fin 3) PInf)] = 3.
Proof.
  cbv zeta. repeat split; try (vm_compute; reflexivity);
  intros k; cbn [get]; repeat (destruct (N.eqb _ k)); reflexivity.
Qed.

(* ------------------------------------------------------------------ instance 2: thresholds
   measure of a bound = number of thresholds strictly beyond it *)
Definition cl (t : thr) (l : bound) : nat := length (filter (fun u => blt u l) t).
Definition cu (t : thr) (u : bound) : nat := length (filter (fun v => blt u v) t).
Definition tcount (t : thr) (i : itv) : nat := cl t (lb i) + cu t (ub i).

Ltac bsolve :=
  unfold blt, bge in *;
  repeat match goal with x : bound |- _ => destruct x end;
  cbn [ble negb] in *; try discriminate; try reflexivity;
  rewrite ?negb_true_iff, ?negb_false_iff, ?Z.leb_le, ?Z.leb_gt in *; try lia.

Lemma blt_ble x y : blt x y = true -> ble x y = true.
Proof. intros; bsolve. Qed.
Lemma blt_irrefl x : blt x x = false.
Proof. bsolve. Qed.
Lemma blt_ble_trans x y z : blt x y = true -> ble y z = true -> blt x z = true.
Proof. intros; bsolve. Qed.
Lemma ble_blt_trans x y z : ble x y = true -> blt y z = true -> blt x z = true.
Proof. intros; bsolve. Qed.
Lemma ble_false_blt x y : ble x y = false -> blt y x = true.
Proof. intros H. unfold blt, bge. rewrite H. reflexivity. Qed.
Lemma blt_MInf_r x : blt x MInf = false.
Proof. bsolve. Qed.
Lemma blt_PInf_l x : blt PInf x = false.
Proof. bsolve. Qed.

Lemma filter_len_le {T} (p q : T -> bool) l : (forall x, p x = true -> q x = true) ->
  length (filter p l) <= length (filter q l).
Proof.
  intros H. induction l as [|a r IH]; cbn [filter]; [lia|].
  destruct (p a) eqn:P; [rewrite (H a P); cbn [length]; lia|].
  destruct (q a); cbn [length]; lia.
Qed.

Lemma filter_len_lt {T} (p q : T -> bool) l w : (forall x, p x = true -> q x = true) ->
  In w l -> p w = false -> q w = true -> length (filter p l) < length (filter q l).
Proof.
  intros H. induction l as [|a r IH]; intros I P Q; [destruct I|]. cbn [filter].
  destruct I as [->|I].
  - rewrite P, Q. cbn [length]. pose proof (filter_len_le p q r H). lia.
  - specialize (IH I P Q). destruct (p a) eqn:Pa; [rewrite (H a Pa); cbn [length]; lia|].
    destruct (q a); cbn [length]; lia.
Qed.

Lemma cl_mono t l' l : ble l' l = true -> cl t l' <= cl t l.
Proof. intros H. apply filter_len_le. intros u B. exact (blt_ble_trans _ _ _ B H). Qed.
Lemma cl_strict t p l : In p t -> blt p l = true -> cl t p < cl t l.
Proof.
  intros I B. apply (filter_len_lt _ _ t p); [|exact I|apply blt_irrefl|exact B].
  intros u Bu. exact (blt_ble_trans _ _ _ Bu (blt_ble _ _ B)).
Qed.
Lemma cu_mono t u u' : ble u u' = true -> cu t u' <= cu t u.
Proof. intros H. apply filter_len_le. intros v B. exact (ble_blt_trans _ _ _ H B). Qed.
Lemma cu_strict t n u : In n t -> blt u n = true -> cu t n < cu t u.
Proof.
  intros I B. apply (filter_len_lt _ _ t n); [|exact I|apply blt_irrefl|exact B].
  intros v Bv. exact (ble_blt_trans _ _ _ (blt_ble _ _ B) Bv).
Qed.

Lemma tcount_top t : tcount t itop = 0.
Proof.
  unfold tcount, cl, cu. cbn [lb ub itop].
  rewrite !filter_all_false; [reflexivity| |]; intros x _; [apply blt_PInf_l|apply blt_MInf_r].
Qed.

Lemma split_lt_fst_in v t x : In x (fst (split_lt v t)) -> In x t.
Proof.
  induction t as [|h r IH]; cbn [split_lt]; [auto|].
  destruct (blt h v); [|intros []].
  destruct (split_lt v r) as [p q]. cbn [fst] in *. intros [->|I]; [left; reflexivity|right; auto].
Qed.

Lemma last_in {T} (l : list T) d : l <> [] -> In (last l d) l.
Proof.
  intros H. rewrite (app_removelast_last d H) at 2. apply in_or_app. right. left. reflexivity.
Qed.

Section Thr.
  Variable t : thr.
  Hypothesis W : wf_thr t.

  Lemma wf_in_minf : In MInf t.
  Proof. destruct W as [mid ->]. left; reflexivity. Qed.
  Lemma wf_in_pinf : In PInf t.
  Proof. destruct W as [mid ->]. right. apply in_or_app. right. left. reflexivity. Qed.
  Lemma wf_nonnil : t <> [].
  Proof. destruct W as [mid ->]. discriminate. Qed.

  Lemma thr_prev_in v : In (thr_prev t v) t.
  Proof.
    unfold thr_prev.
    assert (X : In (match rev (fst (split_lt v t)) with p :: _ => p | [] => hd MInf t end) t).
    { destruct (rev (fst (split_lt v t))) as [|p r] eqn:R.
      - destruct W as [mid ->]. left; reflexivity.
      - apply (split_lt_fst_in v). apply in_rev. rewrite R. left; reflexivity. }
    destruct v; [apply wf_in_minf|exact X|exact X].
  Qed.

  Lemma thr_next_in v : In (thr_next t v) t.
  Proof.
    unfold thr_next.
    assert (X : In (match snd (split_le v t) with u :: _ => u | [] => last t PInf end) t).
    { destruct (snd (split_le v t)) as [|u r] eqn:R.
      - apply last_in. apply wf_nonnil.
      - rewrite <- (split_le_app v t). apply in_or_app. right. rewrite R. left; reflexivity. }
    destruct v; [exact X|exact X|apply wf_in_pinf].
  Qed.

  Notation gp := (thr_prev t).
  Notation gn := (thr_next t).
  Notation F := (iwiden_thr gp gn).
  Notation bc := (tcount t).

  Definition Lsel (a b : itv) : bound := if blt (lb b) (lb a) then gp (lb b) else lb a.
  Definition Usel (a b : itv) : bound := if blt (ub a) (ub b) then gn (ub b) else ub a.

  Lemma Lsel_cases a b :
    (blt (lb b) (lb a) = true /\ cl t (Lsel a b) < cl t (lb a) /\ ble (Lsel a b) (lb a) = true) \/
    (blt (lb b) (lb a) = false /\ Lsel a b = lb a).
  Proof.
    unfold Lsel. destruct (blt (lb b) (lb a)) eqn:B; [left|right; auto].
    pose proof (thr_prev_le t (lb b) W) as P.
    pose proof (ble_blt_trans _ _ _ P B) as Q.
    split; [reflexivity|]. split; [apply cl_strict; [apply thr_prev_in|exact Q]|apply blt_ble; exact Q].
  Qed.

  Lemma Usel_cases a b :
    (blt (ub a) (ub b) = true /\ cu t (Usel a b) < cu t (ub a) /\ ble (ub a) (Usel a b) = true) \/
    (blt (ub a) (ub b) = false /\ Usel a b = ub a).
  Proof.
    unfold Usel. destruct (blt (ub a) (ub b)) eqn:B; [left|right; auto].
    pose proof (thr_next_ge t (ub b) W) as P.
    pose proof (blt_ble_trans _ _ _ B P) as Q.
    split; [reflexivity|]. split; [apply cu_strict; [apply thr_next_in|exact Q]|apply blt_ble; exact Q].
  Qed.

  Lemma sel_ble a b : is_bot a = false -> ble (Lsel a b) (Usel a b) = true.
  Proof.
    intros Ha. apply is_bot_false_ble in Ha.
    apply ble_trans with (lb a); [|apply ble_trans with (ub a); [exact Ha|]].
    - destruct (Lsel_cases a b) as [(_ & _ & H)|(_ & ->)]; [exact H|apply ble_refl].
    - destruct (Usel_cases a b) as [(_ & _ & H)|(_ & ->)]; [exact H|apply ble_refl].
  Qed.

  Lemma F_shape a b : is_bot a = false -> is_bot b = false -> F a b = mkI (Lsel a b) (Usel a b).
  Proof.
    intros Ha Hb. unfold iwiden_thr. rewrite Ha, Hb. fold (Lsel a b) (Usel a b).
    unfold imk, bgt. rewrite (sel_ble a b Ha). reflexivity.
  Qed.

  Lemma F_bot_r a b : is_bot a = false -> is_bot b = true -> F a b = a.
  Proof. intros Ha Hb. unfold iwiden_thr. rewrite Ha, Hb. reflexivity. Qed.

  Lemma sel_nonbot a b : is_bot a = false -> is_bot (mkI (Lsel a b) (Usel a b)) = false.
  Proof. intros Ha. unfold is_bot, bgt. cbn [lb ub]. rewrite (sel_ble a b Ha). reflexivity. Qed.

  Lemma bc_norm_le v : bc (norm v) <= bc v.
  Proof. unfold norm. destruct (is_top v); [rewrite tcount_top; lia|lia]. Qed.

  Lemma cl_pos p l : In p t -> blt p l = true -> 0 < cl t l.
  Proof. intros I B. pose proof (cl_strict t p l I B). lia. Qed.
  Lemma cu_pos n u : In n t -> blt u n = true -> 0 < cu t u.
  Proof. intros I B. pose proof (cu_strict t n u I B). lia. Qed.

  Lemma nontop_pos a : is_top a = false -> 0 < bc a.
  Proof.
    unfold tcount. destruct a as [[| l |] [| u |]]; cbn [is_top lb ub b_is_finite negb andb];
      intros H; try discriminate H.
    - pose proof (cu_pos PInf (Fin u) wf_in_pinf eq_refl). lia.
    - pose proof (cl_pos MInf (Fin l) wf_in_minf eq_refl). lia.
    - pose proof (cl_pos MInf (Fin l) wf_in_minf eq_refl). lia.
    - pose proof (cl_pos MInf (Fin l) wf_in_minf eq_refl). lia.
    - pose proof (cu_pos PInf (Fin u) wf_in_pinf eq_refl). lia.
  Qed.

  (* a non-bottom value that does not contain some non-bottom value has positive measure *)
  Lemma pos_of_not_above a x : is_bot a = false -> is_bot x = false -> ileq x a = false -> 0 < bc a.
  Proof.
    intros Ha Hx LE. destruct (is_top a) eqn:T; [|apply nontop_pos; exact T].
    destruct a as [[| l |] [| u |]]; cbn [is_top lb ub b_is_finite negb andb] in T; try discriminate T.
    - unfold tcount. cbn [lb ub]. pose proof (cu_pos PInf MInf wf_in_pinf eq_refl). lia.
    - change (mkI MInf PInf) with itop in LE. rewrite (ileq_top_nonbot x Hx) in LE. discriminate LE.
    - discriminate Ha.
    - unfold tcount. cbn [lb ub]. pose proof (cl_pos MInf PInf wf_in_minf eq_refl). lia.
  Qed.

  Lemma tw_nonbot a b : is_bot a = false -> is_bot (cw F a b) = false.
  Proof.
    intros Ha. unfold cw. destruct (is_top a); [reflexivity|]. destruct (is_top b); [reflexivity|].
    destruct (is_bot b) eqn:Hb.
    - rewrite (F_bot_r a b Ha Hb). exact Ha.
    - rewrite (F_shape a b Ha Hb). apply sel_nonbot; exact Ha.
  Qed.

  Lemma tw_le a b : is_bot a = false -> bc (norm (cw F a b)) <= bc a.
  Proof.
    intros Ha. unfold cw.
    destruct (is_top a); [rewrite (bc_norm_le itop), tcount_top; lia|].
    destruct (is_top b); [rewrite (bc_norm_le itop), tcount_top; lia|].
    rewrite bc_norm_le.
    destruct (is_bot b) eqn:Hb.
    - rewrite (F_bot_r a b Ha Hb). lia.
    - rewrite (F_shape a b Ha Hb). unfold tcount. cbn [lb ub].
      destruct (Lsel_cases a b) as [(_ & L1 & _)|(_ & ->)], (Usel_cases a b) as [(_ & U1 & _)|(_ & ->)]; lia.
  Qed.

  Lemma ileq_false_nonbot x a : ileq x a = false -> is_bot x = false.
  Proof. unfold ileq. destruct (is_bot x); [discriminate|reflexivity]. Qed.

  Lemma tw_lt a b : is_bot a = false -> ileq b a = false -> bc (norm (cw F a b)) < bc a.
  Proof.
    intros Ha LE. pose proof (ileq_false_nonbot _ _ LE) as Hb.
    pose proof (pos_of_not_above a b Ha Hb LE) as POS.
    unfold cw.
    destruct (is_top a); [pose proof (bc_norm_le itop); rewrite tcount_top in *; lia|].
    destruct (is_top b); [pose proof (bc_norm_le itop); rewrite tcount_top in *; lia|].
    pose proof (bc_norm_le (F a b)) as NL.
    rewrite (F_shape a b Ha Hb) in *. unfold tcount in *. cbn [lb ub] in *.
    unfold ileq in LE. rewrite Hb, Ha in LE. apply andb_false_iff in LE.
    destruct (Lsel_cases a b) as [(BL & L1 & _)|(BL & EL)], (Usel_cases a b) as [(BU & U1 & _)|(BU & EU)];
      rewrite ?EL, ?EU in *; try lia.
    exfalso. destruct LE as [Q|Q]; apply ble_false_blt in Q; congruence.
  Qed.

  Lemma tw_lt2 a b : is_bot a = false -> ileq (norm (cw F a b)) a = false ->
    bc (norm (cw F a b)) < bc a.
  Proof.
    intros Ha. unfold cw.
    assert (TOPCASE : ileq (norm itop) a = false -> bc (norm itop) < bc a).
    { intros LE. change (norm itop) with itop in *. rewrite tcount_top.
      exact (pos_of_not_above a itop Ha eq_refl LE). }
    destruct (is_top a) eqn:Ta; [exact TOPCASE|].
    destruct (is_top b); [exact TOPCASE|]. clear TOPCASE.
    destruct (is_bot b) eqn:Hb.
    - rewrite (F_bot_r a b Ha Hb). unfold norm. rewrite Ta, ileq_refl. discriminate.
    - rewrite (F_shape a b Ha Hb). unfold norm.
      destruct (is_top (mkI (Lsel a b) (Usel a b))).
      + intros _. rewrite tcount_top. apply nontop_pos; exact Ta.
      + unfold ileq. rewrite (sel_nonbot a b Ha), Ha. cbn [lb ub]. intros LE.
        apply andb_false_iff in LE. unfold tcount. cbn [lb ub].
        destruct (Lsel_cases a b) as [(BL & L1 & _)|(BL & EL)], (Usel_cases a b) as [(BU & U1 & _)|(BU & EU)];
          rewrite ?EL, ?EU in *; try lia.
        exfalso. destruct LE as [Q|Q]; rewrite ble_refl in Q; discriminate Q.
  Qed.

  Definition emeasure_thr : amap -> nat := mmeasure bc.
  Definition e_lt_thr : env -> env -> Prop := env_lt bc.

  Lemma e_widen_thr_is_f a b : e_widen_thr gp gn a b = e_widen_f F a b.
  Proof. reflexivity. Qed.

  Theorem e_lt_thr_wf : well_founded e_lt_thr.
  Proof. exact (env_lt_wf bc (tcount_top t)). Qed.

  Ltac inst_thr :=
    first [exact (tcount_top t) | exact tw_nonbot | exact tw_le | exact tw_lt | exact tw_lt2 | assumption].

  Theorem e_widen_thr_progress a b : env_ok a -> env_ok b ->
    e_leq b a = false -> e_lt_thr (e_widen_thr gp gn a b) a.
  Proof. rewrite e_widen_thr_is_f. apply e_widen_f_progress; inst_thr. Qed.

  Theorem e_widen_thr_chain_stabilises x0 ys : env_ok x0 -> (forall i, env_ok (ys i)) ->
    forall j m, echain F x0 ys j = EMap m -> (forall i, i < j -> echain F x0 ys i = EBot) ->
    forall n, length (filter (enonstationary F x0 ys) (seq 0 n)) <= 1 + emeasure_thr m.
  Proof. intros OK0 OKy. apply echain_stabilises; inst_thr. Qed.

  Theorem e_widen_thr_chain_refusals x0 ys : env_ok x0 -> (forall i, env_ok (ys i)) ->
    forall j m, echain F x0 ys j = EMap m -> (forall i, i < j -> echain F x0 ys i = EBot) ->
    forall n, length (filter (erefused F x0 ys) (seq 0 n)) <= 1 + emeasure_thr m.
  Proof. intros OK0 OKy. apply echain_refusals_finite; inst_thr. Qed.
End Thr.
