(* RegionCore2Sound2.v — property C15 on the extended region-domain model (Dom/RegionCore2.v),
   second part: on top of Dom/RegionCore2Sound.v (same concrete semantics, same relation rel2 /
   rels2) this file proves
     - ref_store as a whole (u_store_sound): typed and unknown regions, tracked and untracked,
       strong and weak updates, the first store into an unknown region (the dynamic type is set),
       the reinterpreting store (region of integers -> region of references), the stores that are
       not written to the base domain (type top, an integer into a region of references);
     - join and widening of the extended state (w_join_sound, w_widen_sound).  The lattice
       operations need the invariant that no region has dynamic type bottom (tyok): in the C++ a
       region_info whose type is bottom is bottom, and the domain normalises to bottom; the
       invariant is preserved by every operation of the machine except meet / narrowing;
     - region_init;
   and the history theorem over the larger operation set (region2_history_sound2), which has the
   relation of region2_history_sound and subsumes it (op_ok2_ok3, cstepS3_old, nm2_subsumes).
   NOT covered (stay outside op_ok3): region_copy, region_cast, select_ref, add_tag, operator-= on
   regions, forget, project, meet and
   narrowing (the latter two on purpose: known finding). *)
From Coq Require Import ZArith NArith List Bool Lia.
From CrabV Require Import Base.ZInf Scalar.Itv Scalar.ItvSound Scalar.SmallRange Scalar.Boolean
     Ir.Syntax Dom.ItvEnv Dom.ItvEnvSound Dom.ItvSolver Dom.ItvSolverSound Dom.ItvDomain
     Dom.ItvDomainSound Dom.RegionCore Dom.RegionCoreSound Dom.RegionCore2 Dom.RegionCore2Sound.
Import ListNotations.
Local Open Scope Z_scope.

Arguments d_add : simpl never.
Arguments d_assign : simpl never.
Arguments d_weak_assign : simpl never.
Arguments d_expand : simpl never.
Arguments d_apply_arith : simpl never.

(* instantiate the naming hypotheses of a lemma of RegionCore2Sound.v from the context *)
Ltac close L :=
  lazymatch type of L with
  | ?A -> ?B => first [ match goal with H : A |- _ => close (L H) end | exact L ]
  | _ => exact L
  end.

Lemma wset_same rs : forall r, wset rs r (wget rs r) = rs.
Proof.
  induction rs as [|h t IH]; intros r; simpl; auto.
  destruct r; simpl; auto. unfold wget in *. simpl. f_equal. apply IH.
Qed.

Section Sound2.
Variable C : rconf2.
Let P := k_params C.
Variable prog : var -> bool.
Hypothesis kind_np : forall v, prog v = false -> k_kind C v = VInt.
Hypothesis adr_np : forall v, prog (k_adr C v) = false.
Hypothesis off_np : forall v, prog (k_off C v) = false.
Hypothesis siz_np : forall v, prog (k_siz C v) = false.
Hypothesis dup_np : forall v, prog (k_dup C v) = false.
Hypothesis adr_inj : forall a b, k_adr C a = k_adr C b -> a = b.
Hypothesis off_inj : forall a b, k_off C a = k_off C b -> a = b.
Hypothesis siz_inj : forall a b, k_siz C a = k_siz C b -> a = b.
Hypothesis dup_inj : forall a b, k_dup C a = k_dup C b -> a = b.
Hypothesis adr_off : forall a b, k_adr C a <> k_off C b.
Hypothesis adr_siz : forall a b, k_adr C a <> k_siz C b.
Hypothesis off_siz : forall a b, k_off C a <> k_siz C b.
Hypothesis dup_adr : forall a b, k_dup C a <> k_adr C b.
Hypothesis dup_off : forall a b, k_dup C a <> k_off C b.
Hypothesis dup_siz : forall a b, k_dup C a <> k_siz C b.

Let store_rest_ := ltac:(close (store_rest C prog)).
Let rb_mem_write_ := ltac:(close (rb_mem_write C prog)).
Let ref_notrgn_ga_ := ltac:(close (ref_notrgn_ga C prog)).
Let sval_cell_agree_ := ltac:(close (sval_cell_agree C prog)).
Let pstep_sound_ := ltac:(close (pstep_sound C prog)).
Let live_rgn_name_ := ltac:(close (live_rgn_name C)).
Let prog_of_rgn_ := ltac:(close (prog_of_rgn C prog)).
Let live_vars_in_gv_ := ltac:(close (live_vars_in_gv C)).

(* ------------------------------------------------------------------ small facts *)
Lemma rb_live_ext L L' hp w E : RBA (allowed L hp w) E -> (forall g, L' g = L g) -> RBA (allowed L' hp w) E.
Proof.
  intros R H. apply (rb_shrink _ _ _ R). intros v z [E0|(g & k & x & I & Hx)]; [left; auto|right].
  exists g, k, x. rewrite <- H. auto.
Qed.
Lemma live_set_info_other a g i g' : g' <> g -> live C (set_info a g i) g' = live C a g'.
Proof. intros N. unfold live, typ, set_info. cbn [s_rgn]. rewrite fupd_other by auto. reflexivity. Qed.
Lemma live_set_info_same a g i : live C (set_info a g i) g = live_of C g (i_ty i).
Proof. unfold live, typ, set_info. cbn [s_rgn]. rewrite fupd_same. reflexivity. Qed.
Lemma typ_set_info_same a g i : typ (set_info a g i) g = i_ty i.
Proof. unfold typ, set_info. cbn [s_rgn]. rewrite fupd_same. reflexivity. Qed.
Lemma live_set_info_keep a g c0 b0 g' : live C (set_info a g (c0, b0, i_ty (s_rgn a g))) g' = live C a g'.
Proof.
  destruct (N.eq_dec g' g) as [->|N]; [|apply live_set_info_other; auto].
  rewrite live_set_info_same. reflexivity.
Qed.
Lemma live_rgn_eq a a' : s_rgn a' = s_rgn a -> forall g, live C a' g = live C a g.
Proof. intros E g. rewrite (live_same_rgn C a a' E). reflexivity. Qed.

(* forgetting variables keeps the description *)
Lemma rb_forget_mono (A : vsets) E xs : RBA A E -> (forall v, exists z, A v z) -> RBA A (fold_left e_forget xs E).
Proof. intros R N. apply (rb_forget_list xs A E A R N N). auto. Qed.
Lemma rb_gv_forget_mono L hp w E gv : RBA (allowed L hp w) E -> RBA (allowed L hp w) (gv_forget gv E).
Proof. intros R. rewrite gv_forget_list. apply rb_forget_mono; auto. apply allowed_ne. Qed.

(* a strong update happens only when a0 is the only cell that may have been written *)
Lemma store_excl a c w g a0 :
  rel2 C prog a c w -> In a0 (maddrs c g) ->
  bv_is_false (i_ini (s_rgn a g)) || singleton_count (i_cnt (s_rgn a g)) = true ->
  forall k y z, m_hp c g k y = Some z -> y = a0.
Proof.
  intros R AI S k y z Hy. apply orb_true_iff in S. destruct S as [S|S].
  - pose proof (x_init C prog _ _ _ R g) as Ig. unfold ini in Ig.
    destruct (i_ini (s_rgn a g)); try discriminate. cbn in Ig. rewrite Ig in Hy. discriminate.
  - pose proof (cg_singleton _ _ S (x_count C prog _ _ _ R g)) as SG.
    pose proof (x_wf C prog _ _ _ R g k y z Hy) as Iy. unfold mcreators, maddrs in *.
    destruct (m_made c g) as [|[v1 x1] [|? ?]]; simpl in *.
    + contradiction.
    + destruct AI as [<-|[]]. destruct Iy as [<-|[]]. reflexivity.
    + destruct SG as [SG|(w0 & SG)]; discriminate.
Qed.

Definition sval_kind (v : sval) : Prop :=
  match v with SVar x true => is_ref_var C prog x | SVar x false => is_int_var C prog x | _ => True end.

(* what the decision of ref_store means for the ghost variables of the region *)
Lemma store_decide_cases kg t v :
  vk_is_rgn kg = true -> (kg = VRgnInt -> sval_is_ref v = false) -> (kg = VRgnRef -> sval_is_ref v = true) ->
  match store_decide C kg t v with
  | SAbort => True
  | SNoWrite ff => live_ty C t kg = None \/ (live_ty C t kg = Some TRef /\ sval_is_ref v = false)
  | SKeep => (tracked C kg t = true /\ live_ty C t kg = Some (sval_rty v)) \/
             (tracked C kg t = false /\ live_ty C t kg = None)
  | SFirst nt => nt = Ty (sval_rty v) /\ live_ty C nt kg = Some (sval_rty v)
  | SReint => live_ty C (Ty TRef) kg = Some TRef /\ sval_rty v = TRef
  end.
Proof.
  intros K KI KR. unfold store_decide, tracked_unk, tracked, live_ty, has_dyn, sval_rty.
  destruct kg; try discriminate.
  - rewrite (KI eq_refl), andb_false_r. cbn. auto.
  - rewrite (KR eq_refl), andb_false_r. cbn. auto.
  - destruct (q_skip (k_params C)); cbn; auto.
    destruct t as [| |[| |]], (sval_is_ref v); cbn; auto.
Qed.

(* the tail shared by all cases of a store *)
Lemma store_finish a c w g v strong a0 f T' S E w' :
  rel2 C prog a c w -> agree C w c -> vk_is_rgn (k_kind C g) = true -> sval_kind v ->
  In a0 (maddrs c g) -> sval_cell C v w f ->
  (strong = true -> forall k y z, m_hp c g k y = Some z -> y = a0) ->
  (forall u, ~ rgn_name C u -> w' u = w u) ->
  s_rgn S = fupd (s_rgn a) g (cnt a g, BTop, T') ->
  s_alloc S = s_alloc (store_side C a g v strong) ->
  s_tags S = s_tags (store_side C a g v strong) ->
  let c' := mkS (m_st c) (hwrite (m_hp c) g a0 f) (m_made c) (m_asite c) (m_vtg c)
                (hupd (m_htg c) g a0 (sval_tg v c)) in
  RBA (allowed (live C S) (m_hp c') w') E ->
  relv2 C prog (wbase S E) c'.
Proof.
  intros R AG Kg Kv AI F EX HW ER EA ET c' HB.
  destruct (rb_nonbot _ _ w' HB (allowed_w _ _ _)) as (m & ->). cbn [wbase relv2]. exists w'. split.
  - intros u Nu. rewrite HW by auto. apply AG; auto.
  - rewrite ER, EA, ET. apply (store_rest_ a c w g v strong a0 f T' m w' (m_st c)); auto.
    cbv zeta.
    rewrite (live_same_rgn C S (mkR2 m (fupd (s_rgn a) g (cnt a g, BTop, T')) (s_alloc (store_side C a g v strong))
                               (s_tags (store_side C a g v strong)))) by (symmetry; exact ER).
    exact HB.
Qed.

(* ---- ref_store ---- *)
Lemma u_store_sound a c c' w r p g v res :
  rel2 C prog a c w -> agree C w c -> is_ref_var C prog p -> vk_is_rgn (k_kind C g) = true ->
  sval_ok2 C prog g v -> cstep2 C (PSt r p g v) c c' -> u_store C p g v a = Some res -> relv2 C prog res c'.
Proof.
  intros R AG Kp Kg (Kv & KI & KR) ((A0 & AI) & f & F & ->) US. unfold u_store in US.
  rewrite <- (AG _ (ref_notrgn_ga_ _ Kp)) in *. set (a0 := w (ga C p)) in *.
  destruct (bv_is_true (null_of C a p)) eqn:NL.
  { exfalso. apply A0. rewrite (null_of_ref C) in NL by apply Kp.
    eapply is_null_itv_true; [apply (rel2_at C prog _ _ _ _ R)|].
    destruct (is_null (s_base a) (ga C p)); try discriminate; auto. }
  change (sval_kind v) in Kv.
  pose proof (sval_cell_agree_ v w c f AG (or_intror I) Kv F) as Fw.
  set (old := s_rgn a g) in *.
  set (strong := bv_is_false (i_ini old) || singleton_count (i_cnt old)) in *.
  assert (EXCL : strong = true -> forall k y z, m_hp c g k y = Some z -> y = a0).
  { intros S. eapply store_excl; eauto. }
  assert (EXN : strong = true -> forall k y, y <> a0 -> m_hp c g k y = None).
  { intros S k y Ny. destruct (m_hp c g k y) eqn:Hy; auto. elim Ny. eapply EXCL; eauto. }
  pose proof (x_base C prog _ _ _ R) as B. unfold Aof in B.
  pose proof (store_decide_cases (k_kind C g) (i_ty old) v Kg KI KR) as SD.
  destruct (store_decide C (k_kind C g) (i_ty old) v) as [|ff| |nt|] eqn:SDE.
  - discriminate.
  - (* the value is not written to the base domain *)
    inversion US; subst res; clear US.
    set (S := set_info (store_side C a g v strong) g (i_cnt old, BTop, i_ty old)).
    assert (LS : forall g', live C S g' = live C a g').
    { intros g'. unfold S. rewrite <- (live_set_info_keep a g (i_cnt old) BTop g').
      apply live_rgn_eq. unfold set_info. cbn [s_rgn]. rewrite store_side_rgn. reflexivity. }
    apply (store_finish a c w g v strong a0 f (i_ty old) S _ w); auto.
    + unfold S, set_info. cbn [s_rgn]. rewrite store_side_rgn. reflexivity.
    + cbn [m_hp]. apply (rb_live_ext (live C a)); auto.
      assert (B1 : RBA (allowed (live C a) (hwrite (m_hp c) g a0 f) w) (EMap (s_base a))).
      { apply rb_write_notlive; auto. intros u k z Fk I.
        unfold live, live_of in I. fold old in I. change (typ a g) with (i_ty old) in I.
        destruct SD as [SD|[SD NR]].
        - rewrite SD in I. exact I.
        - assert (k = PInt).
          { destruct v as [x [|]|k0|]; try discriminate; cbn in Fw; subst f; destruct k; try discriminate; auto. }
          subst k. rewrite SD in I. cbn [comps] in I. destruct I as [J|I]; [discriminate|].
          destruct (snd (gv_of_ty C g (i_ty old))) as [[o z0]|]; cbn in I; intuition discriminate. }
      destruct ff; [apply rb_gv_forget_mono|]; exact B1.
  - (* the dynamic type does not change *)
    inversion US; subst res; clear US.
    set (sn := set_info a g (i_cnt old, BTop, i_ty old)).
    assert (LS : forall g', live C sn g' = live C a g') by (intros; apply live_set_info_keep).
    assert (Bn : RBA (allowed (live C sn) (m_hp c) w) (EMap (s_base a))) by (apply (rb_live_ext (live C a)); auto).
    destruct SD as [[T LT]|[T LT]]; rewrite T.
    + destruct (rb_mem_write_ sn (m_hp c) w _ g a0 v f strong Bn Kv Fw) as (w' & HW & HB); auto.
      { unfold sn. rewrite typ_set_info_same. exact LT. }
      apply (store_finish a c w g v strong a0 f (i_ty old) _ _ w'); auto.
      * rewrite store_side_rgn. reflexivity.
      * apply store_side_alloc_info.
      * apply store_side_tags_info.
      * cbn [m_hp]. apply (rb_live_ext (live C sn)); auto. apply live_rgn_eq. apply store_side_rgn.
    + apply (store_finish a c w g v strong a0 f (i_ty old) _ _ w); auto.
      * rewrite store_side_rgn. reflexivity.
      * apply store_side_alloc_info.
      * apply store_side_tags_info.
      * cbn [m_hp]. apply (rb_live_ext (live C a)).
        2:{ intros g'. rewrite <- LS. apply live_rgn_eq. apply store_side_rgn. }
        apply rb_write_notlive; auto. intros u k z _ I.
        unfold live, live_of in I. change (typ a g) with (i_ty old) in I. rewrite LT in I. exact I.
  - (* the first store sets the dynamic type *)
    inversion US; subst res; clear US. destruct SD as [-> LT].
    set (sn := set_info a g (i_cnt old, BTop, Ty (sval_rty v))).
    assert (B1 : RBA (allowed (live C sn) (m_hp c) w) (gv_forget (gv_of C sn g) (EMap (s_base a)))).
    { rewrite gv_forget_list. apply (rb_retype C a sn _ _ _ g); auto.
      - intros g' N. apply live_set_info_other; auto.
      - intros u k. apply live_vars_in_gv_. }
    destruct (rb_mem_write_ sn (m_hp c) w _ g a0 v f strong B1 Kv Fw) as (w' & HW & HB); auto.
    { unfold sn. rewrite typ_set_info_same. exact LT. }
    apply (store_finish a c w g v strong a0 f (Ty (sval_rty v)) _ _ w'); auto.
    + rewrite store_side_rgn. reflexivity.
    + apply store_side_alloc_info.
    + apply store_side_tags_info.
    + cbn [m_hp]. apply (rb_live_ext (live C sn)); auto. apply live_rgn_eq. apply store_side_rgn.
  - (* a region of integers is reinterpreted as a region of references *)
    inversion US; subst res; clear US. destruct SD as [LT SR].
    set (sn := set_info a g (i_cnt old, BTop, Ty TRef)).
    assert (B1 : RBA (allowed (live C sn) (m_hp c) w)
                     (gv_forget (gv_of C sn g) (gv_forget (gv_of C a g) (EMap (s_base a))))).
    { rewrite (gv_forget_list (gv_of C sn g)). apply (rb_retype C a sn _ _ _ g).
      - apply rb_gv_forget_mono. exact B.
      - intros g' N. apply live_set_info_other; auto.
      - intros u k. apply live_vars_in_gv_. }
    destruct (rb_mem_write_ sn (m_hp c) w _ g a0 v f strong B1 Kv Fw) as (w' & HW & HB); auto.
    { unfold sn. rewrite typ_set_info_same, SR. exact LT. }
    apply (store_finish a c w g v strong a0 f (Ty TRef) _ _ w'); auto.
    + rewrite store_side_rgn. reflexivity.
    + apply store_side_alloc_info.
    + apply store_side_tags_info.
    + cbn [m_hp]. apply (rb_live_ext (live C sn)); auto. apply live_rgn_eq. apply store_side_rgn.
Qed.

(* ------------------------------------------------------------------ region_init *)
Lemma u_init_sound a c c' w r g res :
  rel2 C prog a c w -> agree C w c -> vk_is_rgn (k_kind C g) = true ->
  cstep2 C (PInit r g) c c' -> u_init C g a = Some res -> relv2 C prog res c'.
Proof.
  intros R AG Kg -> U. unfold u_init in U. destruct (sr_leq (cnt a g) ROneOrMore); [discriminate|].
  inversion U; subst res; clear U.
  set (i0 := (RZero, BFalse, static_ty (k_kind C g))).
  set (S := set_tg C (set_al C (set_info a g i0) g ds_empty) g ds_empty).
  cbn [relv2]. exists w. split. { intros v N. cbn. apply AG; auto. }
  assert (ER : s_rgn S = fupd (s_rgn a) g i0).
  { unfold S. rewrite set_tg_rgn, set_al_rgn. reflexivity. }
  assert (EBs : s_base S = s_base a) by (unfold S; rewrite set_tg_base, set_al_base; reflexivity).
  assert (AL : forall u, u <> g -> s_alloc S u = s_alloc a u).
  { intros u N. unfold S. rewrite set_tg_alloc, set_al_get. destruct (q_alloc (k_params C)); auto.
    destruct (N.eqb_spec u g); [congruence|reflexivity]. }
  assert (TG : forall u, u <> g -> s_tags S u = s_tags a u).
  { intros u N. unfold S. rewrite set_tg_get, set_al_tags. destruct (q_tags (k_params C)); auto.
    destruct (N.eqb_spec u g); [congruence|reflexivity]. }
  constructor; cbn [m_hp m_made m_asite m_vtg m_htg m_st].
  - rewrite EBs. apply (rb_shrink _ _ _ (x_base C prog _ _ _ R)).
    intros v z [E0|(g' & k & x & I & Hx)]; [left; auto|right]. cbn [m_hp] in Hx.
    unfold fupd in Hx. destruct (N.eqb_spec g' g) as [->|N]; [discriminate|].
    exists g', k, x. split; auto.
    rewrite <- (live_set_info_other a g i0 g' N).
    rewrite <- (live_rgn_eq (set_info a g i0) S); auto.
  - intros g'. unfold cnt, mcreators. rewrite ER. cbn [m_made]. unfold fupd. destruct (N.eqb_spec g' g) as [->|N].
    + reflexivity.
    + apply (x_count C prog _ _ _ R).
  - intros g'. unfold ini. rewrite ER. destruct (N.eq_dec g' g) as [->|N].
    + rewrite fupd_same. cbn. intros k x. rewrite fupd_same. reflexivity.
    + rewrite fupd_other by auto. pose proof (x_init C prog _ _ _ R g') as X. unfold ini in X.
      destruct (i_ini (s_rgn a g')); cbn in *; auto.
      * intros k x. rewrite fupd_other by auto. auto.
      * destruct X as (k & x & z & H). exists k, x, z. rewrite fupd_other by auto. auto.
  - intros g' k x z H. cbn in H. unfold maddrs. cbn [m_made]. destruct (N.eq_dec g' g) as [->|N].
    + rewrite fupd_same in H. discriminate.
    + rewrite fupd_other in H by auto. rewrite fupd_other by auto. eapply (x_wf C prog _ _ _ R); eauto.
  - intros p Kp Pp. assert (p <> g) by (intros ->; rewrite Kp in Kg; discriminate).
    rewrite AL by auto. apply (x_svar C prog _ _ _ R); auto.
  - intros g' x ad Kg' H. destruct (N.eq_dec g' g) as [->|N]; [rewrite fupd_same in H; discriminate|].
    rewrite fupd_other in H by auto. rewrite AL by auto. eapply (x_srgn C prog _ _ _ R); eauto.
  - intros Off u. unfold S. rewrite set_tg_alloc, set_al_get, Off. apply (x_soff C prog _ _ _ R); auto.
  - apply (x_anull C prog _ _ _ R).
  - intros v Kv. assert (v <> g) by (intros ->; congruence). rewrite TG by auto. apply (x_tvar C prog _ _ _ R); auto.
  - intros g' x Kg'. destruct (N.eq_dec g' g) as [->|N].
    + rewrite fupd_same. apply tg_nil.
    + rewrite fupd_other, TG by auto. apply (x_trgn C prog _ _ _ R); auto.
  - intros Off u. unfold S. rewrite set_tg_get, Off, set_al_tags. apply (x_toff C prog _ _ _ R); auto.
  - intros g' x Hx. destruct (N.eq_dec g' g) as [->|N].
    + rewrite fupd_same. reflexivity.
    + rewrite fupd_other by auto. apply (x_tuw C prog _ _ _ R). intros k. specialize (Hx k).
      rewrite fupd_other in Hx by auto. auto.
Qed.

(* ------------------------------------------------------------------ join and widening *)
(* no region has dynamic type bottom (such a region_info is bottom in the C++, and the value
   normalises to bottom) *)
Definition tyok (a : rst2) : Prop := forall g, typ a g <> TyBot.
Definition tyokv (v : rval2) : Prop := match v with None => True | Some a => tyok a end.

Lemma ty_join_nb a b : a <> TyBot -> b <> TyBot -> ty_join a b <> TyBot.
Proof. destruct a as [| |[| |]], b as [| |[| |]]; cbn; congruence. Qed.
Lemma live_join_l g ta tb v k : ta <> TyBot -> In (v, k) (live_of C g (ty_join ta tb)) -> In (v, k) (live_of C g ta).
Proof.
  intros NB. unfold live_of, live_ty, gv_of_ty. destruct (k_kind C g); auto.
  unfold has_dyn. destruct (q_skip (k_params C)); auto.
  destruct ta as [| |[| |]], tb as [| |[| |]]; cbn; try tauto; try congruence.
Qed.
Lemma live_join_r g ta tb v k : tb <> TyBot -> In (v, k) (live_of C g (ty_join ta tb)) -> In (v, k) (live_of C g tb).
Proof.
  intros NB. unfold live_of, live_ty, gv_of_ty. destruct (k_kind C g); auto.
  unfold has_dyn. destruct (q_skip (k_params C)); auto.
  destruct ta as [| |[| |]], tb as [| |[| |]]; cbn; try tauto; try congruence.
Qed.

Lemma comb2_union fb a b c :
  (forall x y s, genv x s \/ genv y s -> genv (fb x y) s) ->
  tyok a -> tyok b ->
  relc C prog a c \/ relc C prog b c -> relv2 C prog (comb2 fb ri2_join ds_join a b) c.
Proof.
  intros FB Ta Tb H. unfold comb2.
  set (S := mkR2 [] (fun v => ri2_join (s_rgn a v) (s_rgn b v)) (fun v => ds_join (s_alloc a v) (s_alloc b v))
                 (fun v => ds_join (s_tags a v) (s_tags b v))).
  assert (X : exists w, agree C w c /\ (rel2 C prog a c w \/ rel2 C prog b c w)).
  { destruct H as [(w & AG & R)|(w & AG & R)]; exists w; auto. }
  destruct X as (w & AG & H').
  assert (HB : RBA (allowed (live C S) (m_hp c) w) (fb (EMap (s_base a)) (EMap (s_base b)))).
  { destruct H' as [R|R].
    - apply (rb_mono _ _ _ _ (x_base C prog _ _ _ R)).
      + intros s _ G. apply FB; auto.
      + intros v z [E0|(g & k & x & I & Hx)]; [left; auto|right]. exists g, k, x. split; auto.
        unfold live, typ, S in I. cbn [s_rgn ri2_join i_ty snd] in I. eapply live_join_l; [apply Ta|exact I].
    - apply (rb_mono _ _ _ _ (x_base C prog _ _ _ R)).
      + intros s _ G. apply FB; auto.
      + intros v z [E0|(g & k & x & I & Hx)]; [left; auto|right]. exists g, k, x. split; auto.
        unfold live, typ, S in I. cbn [s_rgn ri2_join i_ty snd] in I. eapply live_join_r; [apply Tb|exact I]. }
  apply (relv2_intro C prog S _ c w AG HB). intros m Em.
  constructor; cbn [s_base s_rgn s_alloc s_tags S].
  - rewrite <- Em. apply (rb_live_ext _ _ _ _ _ HB). apply live_rgn_eq. reflexivity.
  - intros g. unfold cnt. cbn [s_rgn ri2_join i_cnt fst]. apply cg_join.
    destruct H' as [R|R]; [left|right]; apply (x_count C prog _ _ _ R).
  - intros g. unfold ini. cbn [s_rgn ri2_join i_ini fst snd]. apply ig2_join.
    destruct H' as [R|R]; [left|right]; apply (x_init C prog _ _ _ R).
  - destruct H' as [R|R]; apply (x_wf C prog _ _ _ R).
  - intros p Kp Pp. apply sg2_join. destruct H' as [R|R]; [left|right]; apply (x_svar C prog _ _ _ R); auto.
  - intros g x ad Kg Hx. apply sg2_join. destruct H' as [R|R]; [left|right]; eapply (x_srgn C prog _ _ _ R); eauto.
  - intros Off v. destruct H' as [R|R]; rewrite (x_soff C prog _ _ _ R Off);
      [apply ds_join_none_l | apply ds_join_none_r].
  - destruct H' as [R|R]; apply (x_anull C prog _ _ _ R).
  - intros v Kv. apply tg_join. destruct H' as [R|R]; [left|right]; apply (x_tvar C prog _ _ _ R); auto.
  - intros g x Kg. apply tg_join. destruct H' as [R|R]; [left|right]; apply (x_trgn C prog _ _ _ R); auto.
  - intros Off v. destruct H' as [R|R]; rewrite (x_toff C prog _ _ _ R Off);
      [apply ds_join_none_l | apply ds_join_none_r].
  - destruct H' as [R|R]; apply (x_tuw C prog _ _ _ R).
Qed.

Lemma w_join_sound x y c :
  tyokv x -> tyokv y -> relv2 C prog x c \/ relv2 C prog y c -> relv2 C prog (w_join x y) c.
Proof.
  destruct x as [a|], y as [b|]; cbn [w_join relv2 tyokv]; try tauto.
  intros Ta Tb H. apply comb2_union; auto. intros; apply e_join_sound; auto.
Qed.
Lemma w_widen_sound x y c :
  tyokv x -> tyokv y -> relv2 C prog x c \/ relv2 C prog y c -> relv2 C prog (w_widen x y) c.
Proof.
  destruct x as [a|], y as [b|]; cbn [w_widen relv2 tyokv]; try tauto.
  intros Ta Tb H. apply comb2_union; auto. intros; apply e_widen_sound; auto.
Qed.

(* ------------------------------------------------------------------ the invariant is preserved *)
Lemma tyok_rgn a a' : s_rgn a' = s_rgn a -> tyok a -> tyok a'.
Proof. intros E T g. unfold typ. rewrite E. apply T. Qed.
Lemma tyok_wbase s E a' : wbase s E = Some a' -> tyok s -> tyok a'.
Proof. destruct E as [|m]; cbn; intros H; inversion H; subst. apply tyok_rgn. reflexivity. Qed.
Lemma tyok_set_al s v d : tyok s -> tyok (set_al C s v d).
Proof. apply tyok_rgn. apply set_al_rgn. Qed.
Lemma tyok_set_tg s v d : tyok s -> tyok (set_tg C s v d).
Proof. apply tyok_rgn. apply set_tg_rgn. Qed.
Lemma tyok_set_info s g i : tyok s -> i_ty i <> TyBot -> tyok (set_info s g i).
Proof.
  intros T N g'. unfold typ, set_info. cbn [s_rgn]. unfold fupd. destruct (N.eqb g' g); auto. apply T.
Qed.
Lemma tyok_store_side s g v st : tyok s -> tyok (store_side C s g v st).
Proof. apply tyok_rgn. apply store_side_rgn. Qed.
Lemma static_ty_nb k : static_ty k <> TyBot.
Proof. destruct k; discriminate. Qed.
Lemma tyok_top : tyok s_top.
Proof. intros g. cbn. discriminate. Qed.

Ltac peel H :=
  cbv zeta in H;
  repeat match type of H with
         | (if ?b then _ else _) = Some _ => destruct b
         | (match ?x with _ => _ end) = Some _ => destruct x
         | None = Some _ => discriminate H
         end.
Ltac tyS T :=
  repeat match goal with
         | |- tyok (if ?b then _ else _) => destruct b
         | |- tyok (set_al _ _ _ _) => apply tyok_set_al
         | |- tyok (set_tg _ _ _ _) => apply tyok_set_tg
         | |- tyok (store_side _ _ _ _ _) => apply tyok_store_side
         | |- tyok (set_info _ _ _) =>
           apply tyok_set_info; [|cbn [i_ty snd]; repeat first [rewrite set_al_rgn | rewrite set_tg_rgn];
                                  try first [apply T | apply static_ty_nb | discriminate]]
         end; try assumption.
Ltac tyW T H := peel H; (apply tyok_wbase in H; [exact H|]); tyS T.

Lemma u_havoc_tyok v a a' : tyok a -> u_havoc C v a = Some a' -> tyok a'.
Proof. intros T H. unfold u_havoc in H. tyW T H. Qed.

Lemma store_decide_first kg t v nt : store_decide C kg t v = SFirst nt -> nt <> TyBot.
Proof.
  unfold store_decide. destruct (tracked_unk C kg); [|discriminate].
  destruct t as [| |[| |]]; try discriminate.
  - intros H. inversion H. discriminate.
  - destruct (rty_eqb TInt (sval_rty v)); [discriminate|]. cbn. destruct (sval_is_ref v); discriminate.
  - destruct (rty_eqb TRef (sval_rty v)); discriminate.
Qed.

Lemma u_store_tyok p g v a a' : tyok a -> u_store C p g v a = Some (Some a') -> tyok a'.
Proof.
  intros T H. unfold u_store in H. cbv zeta in H.
  destruct (bv_is_true (null_of C a p)).
  { inversion H as [H1]. apply tyok_wbase in H1; auto. }
  destruct (store_decide C (k_kind C g) (i_ty (s_rgn a g)) v) eqn:SD; try discriminate;
    inversion H as [H1]; clear H; apply tyok_wbase in H1; auto; tyS T.
  eapply store_decide_first; eauto.
Qed.

Lemma u_mk_tyok p g site size a a' : tyok a -> u_mk C p g site size a = Some a' -> tyok a'.
Proof. intros T H. unfold u_mk in H. tyW T H. Qed.
Lemma u_load_tyok x p g a a' : tyok a -> u_load C x p g a = Some a' -> tyok a'.
Proof. intros T H. unfold u_load in H. tyW T H. Qed.
Lemma u_gep_tyok p2 g2 p1 g1 off ad oe a a' : tyok a -> u_gep C p2 g2 p1 g1 off ad oe a = Some a' -> tyok a'.
Proof. intros T H. unfold u_gep in H. tyW T H. Qed.
Lemma u_assume_ref_tyok c ea eo ez a a' : tyok a -> u_assume_ref C c ea eo ez a = Some a' -> tyok a'.
Proof. intros T H. unfold u_assume_ref in H. tyW T H. Qed.
Lemma u_r2i_tyok p x a a' : tyok a -> u_r2i C p x a = Some a' -> tyok a'.
Proof. intros T H. unfold u_r2i in H. tyW T H. Qed.
Lemma u_i2r_tyok x g p a a' : tyok a -> u_i2r C x g p a = Some a' -> tyok a'.
Proof. intros T H. unfold u_i2r in H. tyW T H. Qed.
Lemma u_isderef_tyok b a a' : tyok a -> u_isderef C b a = Some a' -> tyok a'.
Proof.
  intros T H. unfold u_isderef in H. destruct (q_deref (k_params C)).
  - eapply u_havoc_tyok; eauto.
  - inversion H; subst; auto.
Qed.
Lemma u_assign_tyok x e a a' : tyok a -> u_assign C x e a = Some a' -> tyok a'.
Proof. intros T H. unfold u_assign in H. tyW T H. Qed.
Lemma u_arith_tyok op x y z a a' : tyok a -> u_arith C op x y z a = Some a' -> tyok a'.
Proof. intros T H. unfold u_arith in H. tyW T H. Qed.
Lemma u_assume_tyok cs a a' : tyok a -> u_assume cs a = Some a' -> tyok a'.
Proof. intros T H. unfold u_assume in H. tyW T H. Qed.
Lemma u_free_tyok g p a : tyok a -> tyok (u_free C g p a).
Proof. intros T. unfold u_free. apply tyok_set_al; auto. Qed.

Lemma comb2_tyok fb a b r : tyok a -> tyok b -> comb2 fb ri2_join ds_join a b = Some r -> tyok r.
Proof.
  intros Ta Tb H. unfold comb2 in H. apply tyok_wbase in H; auto.
  intros g. unfold typ. cbn [s_rgn ri2_join i_ty snd]. apply ty_join_nb; [apply Ta|apply Tb].
Qed.
Lemma w_join_tyok x y : tyokv x -> tyokv y -> tyokv (w_join x y).
Proof.
  destruct x as [a|], y as [b|]; cbn [w_join tyokv]; auto. intros Ta Tb.
  destruct (comb2 e_join ri2_join ds_join a b) eqn:E; cbn; auto. exact (comb2_tyok _ _ _ _ Ta Tb E).
Qed.
Lemma w_widen_tyok x y : tyokv x -> tyokv y -> tyokv (w_widen x y).
Proof.
  destruct x as [a|], y as [b|]; cbn [w_widen tyokv]; auto. intros Ta Tb.
  destruct (comb2 e_widen ri2_join ds_join a b) eqn:E; cbn; auto. exact (comb2_tyok _ _ _ _ Ta Tb E).
Qed.

Lemma tyokv_wget rs r : Forall tyokv rs -> tyokv (wget rs r).
Proof.
  intros F. unfold wget. revert r. induction F as [|h t Hh Ht IH]; intros r; destruct r; cbn; auto; try apply tyok_top.
Qed.
Lemma tyokv_wset rs r v : Forall tyokv rs -> tyokv v -> Forall tyokv (wset rs r v).
Proof.
  intros F Hv. revert r. induction F as [|h t Hh Ht IH]; intros r; cbn; auto. destruct r; constructor; auto.
Qed.
Lemma tyokv_lift f v : (forall a a', tyok a -> f a = Some a' -> tyok a') -> tyokv v -> tyokv (lift2 f v).
Proof. intros H. destruct v as [a|]; cbn; auto. intros T. destruct (f a) eqn:E; cbn; auto. eapply H; eauto. Qed.

(* ------------------------------------------------------------ the register machine, larger set *)
(* join and widening: the union of the two sets of states; everything else as in cstepS2 *)
Definition cstepS3 (cs : list csetS) (o : rop2) : list csetS :=
  match o with
  | PJoin r s t | PWiden r s t => csetrS cs r (fun c => cgetS cs s c \/ cgetS cs t c)
  | _ => cstepS2 C cs o
  end.
Definition op_ok3 (o : rop2) : Prop :=
  match o with
  | PSt _ p g v => is_ref_var C prog p /\ vk_is_rgn (k_kind C g) = true /\ sval_ok2 C prog g v
  | PJoin _ _ _ | PWiden _ _ _ => True
  | PInit _ g => vk_is_rgn (k_kind C g) = true
  | _ => op_ok2 C prog o
  end.
Lemma op_ok2_ok3 o : op_ok2 C prog o -> op_ok3 o.
Proof. destruct o; cbn; auto; contradiction. Qed.
Lemma cstepS3_old cs o : op_ok2 C prog o -> cstepS3 cs o = cstepS2 C cs o.
Proof. destruct o; cbn; auto; contradiction. Qed.

Lemma u_init_tyok g a a' : tyok a -> u_init C g a = Some (Some a') -> tyok a'.
Proof.
  intros T H. unfold u_init in H. destruct (sr_leq (cnt a g) ROneOrMore); [discriminate|].
  inversion H; subst. tyS T.
Qed.

Lemma pstep_tyok rs o rs' : op_ok3 o -> Forall tyokv rs -> pstep C rs o = Some rs' -> Forall tyokv rs'.
Proof.
  intros OK F ST. pose proof (tyokv_wget rs) as W.
  destruct o; cbn [pstep op_ok3 op_ok2] in *; try contradiction; try (inversion ST; subst rs'; clear ST).
  - apply tyokv_wset; auto. apply tyok_top.
  - apply tyokv_wset; auto.
  - apply tyokv_wset; auto.
  - specialize (W r F). destruct (wget rs r) as [s|]; [|inversion ST; subst; auto].
    destruct (u_init C g s) as [res|] eqn:US; [|discriminate]. inversion ST; subst rs'.
    apply tyokv_wset; auto. destruct res as [a'|]; cbn; auto. eapply u_init_tyok; eauto.
  - apply tyokv_wset; auto. apply tyokv_lift; auto. intros a a'. apply u_mk_tyok.
  - apply tyokv_wset; auto. apply tyokv_lift; auto. intros a a' T H. inversion H; subst. apply u_free_tyok; auto.
  - apply tyokv_wset; auto. apply tyokv_lift; auto. intros a a'. apply u_load_tyok.
  - specialize (W r F). destruct (wget rs r) as [s|]; [|inversion ST; subst; auto].
    destruct (u_store C p g v s) as [res|] eqn:US; [|discriminate]. inversion ST; subst rs'.
    apply tyokv_wset; auto. destruct res as [a'|]; cbn; auto. eapply u_store_tyok; eauto.
  - apply tyokv_wset; auto. apply tyokv_lift; auto. intros a a'. apply u_gep_tyok.
  - apply tyokv_wset; auto. apply tyokv_lift; auto. intros a a'. apply u_assume_ref_tyok.
  - apply tyokv_wset; auto. apply tyokv_lift; auto. intros a a'. apply u_r2i_tyok.
  - apply tyokv_wset; auto. apply tyokv_lift; auto. intros a a'. apply u_i2r_tyok.
  - apply tyokv_wset; auto. apply tyokv_lift; auto. intros a a'. apply u_isderef_tyok.
  - apply tyokv_wset; auto. apply tyokv_lift; auto. intros a a'. apply u_assign_tyok.
  - apply tyokv_wset; auto. apply tyokv_lift; auto. intros a a'. apply u_arith_tyok.
  - apply tyokv_wset; auto. apply tyokv_lift; auto. intros a a'. apply u_assume_tyok.
  - apply tyokv_wset; auto. apply tyokv_lift; auto. intros a a'. apply u_havoc_tyok.
  - apply tyokv_wset; auto. apply w_join_tyok; auto.
  - apply tyokv_wset; auto. apply w_widen_tyok; auto.
Qed.

Theorem pstep_sound3 rs cs o rs' :
  rels2 C prog rs cs -> Forall tyokv rs -> op_ok3 o -> pstep C rs o = Some rs' ->
  rels2 C prog rs' (cstepS3 cs o).
Proof.
  intros R F OK ST. pose proof R as [L RR]. pose proof (tyokv_wget rs) as W.
  destruct o; cbn [op_ok3 cstepS3] in *; try (eapply pstep_sound_; eauto; fail).
  - (* region_init *)
    cbn [pstep] in ST. cbn [cstepS2 reg_of2].
    destruct (wget rs r) as [s|] eqn:WR.
    + destruct (u_init C g s) as [res|] eqn:US; [|discriminate]. inversion ST; subst rs'.
      apply rels2_set; auto. intros c' (c0 & G & S). specialize (RR _ _ G). rewrite WR in RR.
      destruct RR as (w & AG & Rw). exact (u_init_sound s c0 c' w r g res Rw AG OK S US).
    + inversion ST; subst rs'. rewrite <- (wset_same rs r) at 1. apply rels2_set; auto.
      intros c' (c0 & G & S). specialize (RR _ _ G). rewrite WR in RR. elim RR.
  - (* store *)
    destruct OK as (K1 & K2 & K3). cbn [pstep] in ST. cbn [cstepS2 reg_of2].
    destruct (wget rs r) as [s|] eqn:WR.
    + destruct (u_store C p g v s) as [res|] eqn:US; [|discriminate]. inversion ST; subst rs'.
      apply rels2_set; auto. intros c' (c0 & G & S). specialize (RR _ _ G). rewrite WR in RR.
      destruct RR as (w & AG & Rw). exact (u_store_sound s c0 c' w r p g v res Rw AG K1 K2 K3 S US).
    + inversion ST; subst rs'. rewrite <- (wset_same rs r) at 1. apply rels2_set; auto.
      intros c' (c0 & G & S). specialize (RR _ _ G). rewrite WR in RR. elim RR.
  - (* join *)
    cbn [pstep] in ST. inversion ST; subst rs'. apply rels2_set; auto.
    intros c [G|G]; apply w_join_sound; auto.
  - (* widening *)
    cbn [pstep] in ST. inversion ST; subst rs'. apply rels2_set; auto.
    intros c [G|G]; apply w_widen_sound; auto.
Qed.

Theorem region2_history_sound2 h : Forall op_ok3 h -> forall rs cs rs',
  rels2 C prog rs cs -> Forall tyokv rs -> prun C rs h = Some rs' ->
  rels2 C prog rs' (fold_left cstepS3 h cs) /\ Forall tyokv rs'.
Proof.
  induction h as [|o t IH]; cbn [fold_left prun]; intros OK rs cs rs' R F RUN.
  - inversion RUN; subst; auto.
  - inversion OK as [|? ? Ho Ht]; subst. destruct (pstep C rs o) as [rs1|] eqn:ST; [|discriminate].
    apply (IH Ht rs1 (cstepS3 cs o) rs'); auto.
    + eapply pstep_sound3; eauto.
    + eapply pstep_tyok; eauto.
Qed.

(* the histories of region2_history_sound are histories of the larger machine with the same
   concrete semantics *)
Lemma fold_cstepS3_old h : Forall (op_ok2 C prog) h -> forall cs, fold_left cstepS3 h cs = fold_left (cstepS2 C) h cs.
Proof.
  induction 1 as [|o t Ho Ht IH]; intros cs; simpl; auto. rewrite cstepS3_old by auto. apply IH.
Qed.

End Sound2.

(* ---- the theorems under the single hypothesis naming_ok (Dom/RegionCore2Sound.v) ---- *)
Lemma nm2_store C prog : naming_ok C prog -> forall a c c' w r p g v res,
  rel2 C prog a c w -> agree C w c -> is_ref_var C prog p -> vk_is_rgn (k_kind C g) = true ->
  sval_ok2 C prog g v -> cstep2 C (PSt r p g v) c c' -> u_store C p g v a = Some res -> relv2 C prog res c'.
Proof. with_naming u_store_sound. Qed.
Lemma nm2_init C prog : naming_ok C prog -> forall a c c' w r g res,
  rel2 C prog a c w -> agree C w c -> vk_is_rgn (k_kind C g) = true ->
  cstep2 C (PInit r g) c c' -> u_init C g a = Some res -> relv2 C prog res c'.
Proof. with_naming u_init_sound. Qed.
Lemma nm2_join C prog : naming_ok C prog -> forall x y c,
  tyokv x -> tyokv y -> relv2 C prog x c \/ relv2 C prog y c -> relv2 C prog (w_join x y) c.
Proof. intros (H1 & H2 & H3 & H4 & H5 & H6 & H7 & H8 & H9 & H10 & H11 & H12 & H13 & H14 & H15) x y c Tx Ty H; eapply w_join_sound; eassumption. Qed.
Lemma nm2_widen C prog : naming_ok C prog -> forall x y c,
  tyokv x -> tyokv y -> relv2 C prog x c \/ relv2 C prog y c -> relv2 C prog (w_widen x y) c.
Proof. intros (H1 & H2 & H3 & H4 & H5 & H6 & H7 & H8 & H9 & H10 & H11 & H12 & H13 & H14 & H15) x y c Tx Ty H; eapply w_widen_sound; eassumption. Qed.
Lemma nm2_history C prog : naming_ok C prog -> forall h, Forall (op_ok3 C prog) h -> forall rs cs rs',
  rels2 C prog rs cs -> Forall tyokv rs -> prun C rs h = Some rs' ->
  rels2 C prog rs' (fold_left (cstepS3 C) h cs) /\ Forall tyokv rs'.
Proof. with_naming region2_history_sound2. Qed.
Lemma nm_at C prog : naming_ok C prog -> forall rs cs r c x, rels2 C prog rs cs -> cgetS cs r c -> is_int_var C prog x ->
  gamma (o_at C (wget rs r) x) (m_st c x).
Proof. with_naming o_at_sound. Qed.

(* the old theorem is the restriction of the new one to the old operation set *)
Lemma nm2_subsumes C prog : forall h, Forall (op_ok2 C prog) h ->
  Forall (op_ok3 C prog) h /\ forall cs, fold_left (cstepS3 C) h cs = fold_left (cstepS2 C) h cs.
Proof.
  intros h H. split.
  - eapply Forall_impl; [|exact H]. apply op_ok2_ok3.
  - apply (fold_cstepS3_old C prog); auto.
Qed.

(* answers after any history over the larger set *)
Section Answers.
Variables (C : rconf2) (prog : var -> bool).
Hypothesis NM : naming_ok C prog.
Variables (h : list rop2) (rs rs' : list rval2) (cs : list csetS).
Hypothesis OK : Forall (op_ok3 C prog) h.
Hypothesis R0 : rels2 C prog rs cs.
Hypothesis T0 : Forall tyokv rs.
Hypothesis RUN : prun C rs h = Some rs'.
Let R' := proj1 (nm2_history C prog NM h OK rs cs rs' R0 T0 RUN).

Lemma hist2_at r c x : cgetS (fold_left (cstepS3 C) h cs) r c -> is_int_var C prog x ->
  gamma (o_at C (wget rs' r) x) (m_st c x).
Proof. intros G K. eapply nm_at; eauto. Qed.
Lemma hist2_null r c p : cgetS (fold_left (cstepS3 C) h cs) r c -> is_ref_var C prog p ->
  (o_null C (wget rs' r) p = BTrue -> m_st c (ga C p) = 0) /\
  (o_null C (wget rs' r) p = BFalse -> m_st c (ga C p) <> 0).
Proof. intros G K. eapply nm_null; eauto. Qed.
Lemma hist2_sites r c p ss : cgetS (fold_left (cstepS3 C) h cs) r c -> is_ref_var C prog p ->
  o_sites (wget rs' r) p = Some ss ->
  m_st c (ga C p) = 0 \/ exists site, m_asite c (m_st c (ga C p)) = Some site /\ In site ss.
Proof. intros G K. eapply nm_sites; eauto. Qed.
Lemma hist2_offsize r c p io iz : cgetS (fold_left (cstepS3 C) h cs) r c -> is_ref_var C prog p ->
  o_offsize C (wget rs' r) p = Some (io, iz) -> gamma io (m_st c (go C p)) /\ gamma iz (m_st c (gz C p)).
Proof. intros G K. eapply nm_offsize; eauto. Qed.
End Answers.

(* a history that ends with a load of an integer: the interval of the left-hand side contains the
   value read from the cell (instance of hist2_at) *)
Lemma hist2_load C prog : naming_ok C prog -> forall h rs rs' cs r x p g c,
  Forall (op_ok3 C prog) (h ++ [PLd r x p g]) -> rels2 C prog rs cs -> Forall tyokv rs ->
  prun C rs (h ++ [PLd r x p g]) = Some rs' ->
  cgetS (fold_left (cstepS3 C) (h ++ [PLd r x p g]) cs) r c -> is_int_var C prog x ->
  gamma (o_at C (wget rs' r) x) (m_st c x).
Proof. intros NM h rs rs' cs r x p g c OK R T RUN G K. eapply hist2_at; eauto. Qed.

(* ---- example: two references into an unknown region, two stores, a copy that stores again, join, load
   (variables: x = 1, p = 4, q = 5, U = 7) ---- *)
Definition ex2_hist : list rop2 :=
  [PInit 0%nat 7%N; PMk 0%nat 4%N 7%N 1 (OCst 4); PMk 0%nat 5%N 7%N 2 (OCst 4);
   PSt 0%nat 4%N 7%N (SCst 5); PSt 0%nat 5%N 7%N (SCst 9); PCopy 1%nat 0%nat;
   PSt 1%nat 4%N 7%N (SCst 20); PJoin 0%nat 0%nat 1%nat; PLd 0%nat 1%N 4%N 7%N].
(* the ghost names of this configuration satisfy naming_ok: .address = 8 + 4v, .offset = 9 + 4v,
   .size = 10 + 4v, dup = 11 + 4v, program variables 0..7 *)
Definition ex2_C : rconf2 :=
  mkC2 (mkP2 true true true false) exm_kind (fun v => 8 + 4 * v)%N (fun v => 9 + 4 * v)%N (fun v => 10 + 4 * v)%N
       (fun v => 11 + 4 * v)%N [6%N; 7%N].
Definition ex2_prog (v : var) : bool := N.ltb v 8.
Example ex2_abstract :
  match prun ex2_C [Some s_top; Some s_top] ex2_hist with
  | Some [Some s; _] => Some (o_at ex2_C (Some s) 1%N, s_rgn s 7%N, s_alloc s 4%N)
  | _ => None
  end = Some (mkI (Fin 5) (Fin 20), (ROneOrMore, BTop, Ty TInt), Some [1; 1]).
Proof. vm_compute. reflexivity. Qed.
Lemma ex2_naming : naming_ok ex2_C ex2_prog.
Proof.
  unfold naming_ok, ex2_prog, ex2_C; cbn [k_kind k_adr k_off k_siz k_dup]. repeat split; intros; try (apply N.ltb_ge; lia); try lia.
  apply N.ltb_ge in H. unfold exm_kind.
  destruct (N.leb_spec v 2); [lia|]. destruct (N.eqb_spec v 3); [lia|]. destruct (N.leb_spec v 5); [lia|].
  destruct (N.eqb_spec v 6); [lia|]. destruct (N.eqb_spec v 7); [lia|]. reflexivity.
Qed.
Lemma ex2_ops_ok : Forall (op_ok3 ex2_C ex2_prog) ex2_hist.
Proof.
  unfold ex2_hist. repeat constructor; cbn; unfold is_ref_var, is_int_var, size_ok, sval_ok2; cbn;
    repeat split; auto; try discriminate; intros; try discriminate.
Qed.
