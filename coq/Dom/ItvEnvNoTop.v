(* ItvEnvNoTop.v — representation invariant of the interval-domain model: an environment
   never STORES a top interval (separate_domain::set removes the binding instead), so the
   only environment that tests is_top is the empty one.  Preserved by every operation of
   the history language (History.hop), including the linear interval solver. *)
From Coq Require Import ZArith NArith List Bool Lia.
From CrabV Require Import Base.ZInf Scalar.Itv Ir.Syntax Dom.ItvEnv Dom.ItvSolver Dom.ItvDomain
     Dom.History Fix.Thresholds.
Import ListNotations.
Local Open Scope Z_scope.

Definition ntb (m : amap) : Prop := forall k v, In (k, v) m -> is_top v = false.
Definition ntbe (e : env) : Prop := match e with EBot => True | EMap m => ntb m end.

Lemma ntb_nil : ntb [].
Proof. intros k v []. Qed.
Lemma ntb_remove m k : ntb m -> ntb (remove m k).
Proof. intros H k' v I. unfold remove in I. apply filter_In in I. apply (H k' v). apply I. Qed.
Lemma ntb_cons m k v : is_top v = false -> ntb m -> ntb ((k, v) :: m).
Proof. intros T H k' v' [E|I]; [inversion E; subst; exact T|eapply H; eauto]. Qed.
Lemma ntb_put m k v : ntb m -> ntb (put m k v).
Proof.
  intros H. unfold put. destruct (is_top v) eqn:T.
  - apply ntb_remove; exact H.
  - apply ntb_cons; [exact T|apply ntb_remove; exact H].
Qed.

(* the only stored environment that is top is the empty one *)
Lemma ntb_all_top m : ntb m -> forallb (fun k => is_top (get m k)) (keys m) = true -> m = [].
Proof.
  destruct m as [|[k v] r]; [reflexivity|]. intros H F. exfalso.
  cbn [keys map fst forallb get] in F. rewrite N.eqb_refl in F.
  rewrite (H k v (or_introl eq_refl)) in F. discriminate F.
Qed.
Lemma ntbe_is_top e : ntbe e -> e_is_top e = true -> e = e_top.
Proof.
  destruct e as [|m]; simpl; [discriminate|]. intros H F. rewrite (ntb_all_top m H F). reflexivity.
Qed.
Lemma e_is_bot_eq e : e_is_bot e = true -> e = EBot.
Proof. destruct e; [reflexivity|discriminate]. Qed.

Lemma ntbe_top : ntbe e_top.
Proof. exact ntb_nil. Qed.

(* ---- environment operations ---- *)
Lemma ntbe_set e k v : ntbe e -> ntbe (e_set e k v).
Proof.
  destruct e as [|m]; simpl; auto. intros H. destruct (is_bot v); simpl; auto. apply ntb_put; exact H.
Qed.
Lemma ntbe_forget e k : ntbe e -> ntbe (e_forget e k).
Proof. destruct e as [|m]; simpl; auto. apply ntb_remove. Qed.
Lemma ntbe_join_key e k v : ntbe e -> ntbe (e_join_key e k v).
Proof.
  destruct e as [|m]; simpl; auto. intros H.
  destruct (is_bot v); simpl; auto.
  destruct (is_top v); simpl; [apply ntb_remove; exact H|].
  destruct (is_top (get m k)); simpl; [apply ntb_remove; exact H|apply ntb_put; exact H].
Qed.

Lemma ntb_build g : forall ks acc m, build ks g acc = Some m -> ntb acc -> ntb m.
Proof.
  induction ks as [|k r IH]; simpl; intros acc m B H.
  - inversion B; subst; exact H.
  - destruct (is_bot (g k)); [discriminate|]. eapply IH; [exact B|]. apply ntb_put; exact H.
Qed.
Lemma ntb_merge ab f x y m : merge ab f x y = Some m -> ntb m.
Proof. unfold merge. intros B. eapply ntb_build; [exact B|exact ntb_nil]. Qed.

Lemma ntbe_merge_like ab f a b :
  ntbe a -> ntbe b ->
  ntbe (match a, b with
        | EBot, _ => b | _, EBot => a
        | EMap x, EMap y => match merge ab f x y with Some m => EMap m | None => EBot end
        end).
Proof.
  destruct a as [|x], b as [|y]; simpl; auto. intros _ _.
  destruct (merge ab f x y) eqn:M; simpl; auto. eapply ntb_merge; exact M.
Qed.
Lemma ntbe_join a b : ntbe a -> ntbe b -> ntbe (e_join a b).
Proof. apply ntbe_merge_like. Qed.
Lemma ntbe_widen a b : ntbe a -> ntbe b -> ntbe (e_widen a b).
Proof. apply ntbe_merge_like. Qed.
Lemma ntbe_widen_thr gp gn a b : ntbe a -> ntbe b -> ntbe (e_widen_thr gp gn a b).
Proof. apply ntbe_merge_like. Qed.
Lemma ntbe_meet a b : ntbe (e_meet a b).
Proof.
  destruct a as [|x], b as [|y]; simpl; auto.
  destruct (merge false imeet x y) eqn:M; simpl; auto. eapply ntb_merge; exact M.
Qed.
Lemma ntbe_narrow a b : ntbe (e_narrow a b).
Proof.
  destruct a as [|x], b as [|y]; simpl; auto.
  destruct (merge false inarrow x y) eqn:M; simpl; auto. eapply ntb_merge; exact M.
Qed.

Lemma ntbe_project e vs : ntbe e -> ntbe (e_project e vs).
Proof.
  destruct e as [|m]; simpl; auto. intros H.
  destruct (forallb (fun k => is_top (get m k)) (keys m)); simpl; [exact H|].
  induction vs as [|v r IH]; simpl; [exact ntb_nil|apply ntb_put; exact IH].
Qed.

Lemma ntb_rename_pairs ps : forall m, ntb m -> ntb (rename_pairs m ps).
Proof.
  induction ps as [|[k nk] r IH]; cbn [rename_pairs]; intros m H; [exact H|].
  destruct (N.eqb k nk); [apply IH; exact H|].
  destruct (is_top (get m k)) eqn:T; [apply IH; exact H|].
  apply IH. apply ntb_remove. apply ntb_cons; [exact T|apply ntb_remove; exact H].
Qed.
Lemma ntbe_rename e f t : ntbe e -> ntbe (e_rename e f t).
Proof.
  destruct e as [|m]; simpl; auto. intros H.
  destruct (forallb (fun k => is_top (get m k)) (keys m)); simpl; [exact H|].
  apply ntb_rename_pairs; exact H.
Qed.

(* ---- the solver only writes through put ---- *)
Definition sinv (st : sst) : Prop := ntb (s_map st).

Lemma s_refine_ntb v i st st' : s_refine v i st = Some st' -> sinv st -> sinv st'.
Proof.
  unfold s_refine, sinv. intros R H.
  destruct (is_bot (imeet (get (s_map st) v) i)); [discriminate|].
  destruct (negb (ieq (get (s_map st) v) (imeet (get (s_map st) v) i))); inversion R; subst; simpl; auto.
  apply ntb_put; exact H.
Qed.

Lemma propagate_term_ntb cst c pivot st st' :
  propagate_term cst c pivot st = Some st' -> sinv st -> sinv st'.
Proof.
  unfold propagate_term. destruct (compute_residual cst pivot st) as [res ops]. cbv zeta.
  set (st1 := mkS (s_map st) (s_refined st) ops).
  intros P H. assert (H1 : sinv st1) by exact H. clearbody st1.
  destruct (lc_kind cst).
  - (* EQ *) eapply s_refine_ntb; eauto.
  - (* DISEQ *)
    match type of P with (if ?b then _ else _) = _ => destruct b; [discriminate|] end.
    match type of P with context [if ?b then _ else st1] => destruct b end;
      inversion P; subst; unfold sinv; simpl; auto.
    apply ntb_put; exact H1.
  - (* INEQ *) destruct (0 <? c); eapply s_refine_ntb; eauto.
  - (* STRICT *) inversion P; subst; exact H1.
Qed.

Lemma propagate_terms_ntb cst : forall ts st st',
  propagate_terms cst ts st = Some st' -> sinv st -> sinv st'.
Proof.
  induction ts as [|[c v] r IH]; simpl; intros st st' P H.
  - inversion P; subst; exact H.
  - destruct (propagate_term cst c v st) as [s1|] eqn:E; [|discriminate].
    eapply IH; [exact P|]. eapply propagate_term_ntb; eauto.
Qed.
Lemma propagate_ntb c st st' : propagate c st = Some st' -> sinv st -> sinv st'.
Proof. apply propagate_terms_ntb. Qed.
Lemma propagate_all_ntb : forall cs st st', propagate_all cs st = Some st' -> sinv st -> sinv st'.
Proof.
  induction cs as [|c r IH]; simpl; intros st st' P H.
  - inversion P; subst; exact H.
  - destruct (propagate c st) as [s1|] eqn:E; [|discriminate].
    eapply IH; [exact P|]. eapply propagate_ntb; eauto.
Qed.
Lemma small_loop_ntb table max : forall fuel cycle st st',
  small_loop fuel table cycle max st = Some st' -> sinv st -> sinv st'.
Proof.
  induction fuel as [|f IH]; simpl; intros cycle st st' P H.
  - inversion P; subst; exact H.
  - destruct (propagate_all table (mkS (s_map st) [] (s_ops st))) as [s1|] eqn:E; [|discriminate].
    assert (H1 : sinv s1) by (eapply propagate_all_ntb; [exact E|exact H]).
    destruct (s_refined s1); [inversion P; subst; exact H1|].
    destruct (cycle + 1 <=? max)%N; [eapply IH; eauto|inversion P; subst; exact H1].
Qed.
Lemma propagate_idx_ntb table : forall idx st st',
  propagate_idx table idx st = Some st' -> sinv st -> sinv st'.
Proof.
  induction idx as [|i r IH]; simpl; intros st st' P H.
  - inversion P; subst; exact H.
  - destruct (nth_error table i) as [c|]; [|eapply IH; eauto].
    destruct (propagate c st) as [s1|] eqn:E; [|discriminate].
    eapply IH; [exact P|]. eapply propagate_ntb; eauto.
Qed.
Lemma process_vars_ntb table : forall vs st st',
  process_vars table vs st = Some st' -> sinv st -> sinv st'.
Proof.
  induction vs as [|v r IH]; simpl; intros st st' P H.
  - inversion P; subst; exact H.
  - destruct (propagate_idx table (triggers table 0 v) st) as [s1|] eqn:E; [|discriminate].
    eapply IH; [exact P|]. eapply propagate_idx_ntb; eauto.
Qed.
Lemma large_loop_ntb table max : forall fuel st st',
  large_loop fuel table max st = Some st' -> sinv st -> sinv st'.
Proof.
  induction fuel as [|f IH]; simpl; intros st st' P H.
  - inversion P; subst; exact H.
  - destruct (process_vars table (s_refined st) (mkS (s_map st) [] (s_ops st))) as [s1|] eqn:E; [|discriminate].
    assert (H1 : sinv s1) by (eapply process_vars_ntb; [exact E|exact H]).
    destruct (s_refined s1); [inversion P; subst; exact H1|].
    destruct (s_ops s1 <=? max)%N; [eapply IH; eauto|inversion P; subst; exact H1].
Qed.

Lemma solve_ntb cs mc m m' : solve cs mc m = Some m' -> ntb m -> ntb m'.
Proof.
  unfold solve. intros S H.
  destruct (p_contra (preprocess cs [] 0%N)); [discriminate|].
  set (table := p_table (preprocess cs [] 0%N)) in *.
  set (opc := p_opc (preprocess cs [] 0%N)) in *.
  cbv zeta in S.
  match type of S with
  | match ?r with _ => _ end = _ => destruct r as [st|] eqn:R; [|discriminate]
  end.
  inversion S; subst. change (sinv st).
  destruct ((3 <? N.of_nat (length table))%N || (27 <? opc)%N).
  - destruct (propagate_all table (mkS m [] 0%N)) as [s1|] eqn:E; [|discriminate].
    eapply large_loop_ntb; [exact R|]. eapply propagate_all_ntb; [exact E|exact H].
  - eapply small_loop_ntb; [exact R|exact H].
Qed.

(* ---- interval-domain operations ---- *)
Lemma ntbe_d_add cs e : ntbe e -> ntbe (d_add cs e).
Proof.
  destruct e as [|m]; simpl; auto. intros H.
  match goal with |- ntbe (match ?s with _ => _ end) => destruct s as [m'|] eqn:S end; simpl; auto.
  eapply solve_ntb; eauto.
Qed.
Lemma ntbe_d_assign x ex e : ntbe e -> ntbe (d_assign x ex e).
Proof. intros H. unfold d_assign. destruct (le_get_variable ex); apply ntbe_set; exact H. Qed.
Lemma ntbe_d_weak_assign x ex e : ntbe e -> ntbe (d_weak_assign x ex e).
Proof. intros H. unfold d_weak_assign. destruct (le_get_variable ex); apply ntbe_join_key; exact H. Qed.
Lemma ntbe_d_forget vs : forall e, ntbe e -> ntbe (d_forget vs e).
Proof.
  intros e H. unfold d_forget. destruct (e_is_bot e || e_is_top e); [exact H|].
  revert e H. induction vs as [|v r IH]; simpl; intros e H; [exact H|].
  apply IH. apply ntbe_forget; exact H.
Qed.
Lemma ntbe_d_expand x nx e : ntbe e -> ntbe (d_expand x nx e).
Proof.
  intros H. unfold d_expand. destruct (e_is_bot e || e_is_top e); [exact H|apply ntbe_set; exact H].
Qed.
Lemma ntbe_d_select l c e1 e2 e : ntbe e -> ntbe (d_select l c e1 e2 e).
Proof.
  intros H. unfold d_select. destruct (e_is_bot e); [exact H|].
  destruct (e_is_bot (d_add [c] e)); [apply ntbe_d_assign; exact H|].
  destruct (e_is_bot (d_add [lc_negate c] e)); [apply ntbe_d_assign; exact H|apply ntbe_set; exact H].
Qed.
Lemma ntbe_d_cast op d s db sb w e : ntbe e -> ntbe (d_cast op d s db sb w e).
Proof.
  intros H. unfold d_cast.
  assert (H1 : ntbe (if negb (db || sb) then d_assign d (mkLE [(1, s)] 0) e else e_forget e d)).
  { destruct (negb (db || sb)); [apply ntbe_d_assign|apply ntbe_forget]; exact H. }
  destruct op; try exact H1.
  destruct sb; repeat apply ntbe_d_add; exact H1.
Qed.

(* ---- histories ---- *)
Definition ntbr (rs : list env) : Prop := Forall ntbe rs.

Lemma ntbr_get rs r : ntbr rs -> ntbe (rget rs r).
Proof.
  intros H. unfold rget. destruct (nth_in_or_default r rs e_top) as [I|E].
  - unfold ntbr in H. rewrite Forall_forall in H. apply H; exact I.
  - rewrite E. exact ntbe_top.
Qed.
Lemma ntbr_set : forall rs r v, ntbr rs -> ntbe v -> ntbr (rset rs r v).
Proof.
  induction rs as [|h t IH]; intros r v H V; simpl; [constructor|].
  inversion H; subst. destruct r; constructor; auto. apply IH; auto.
Qed.

Theorem ntbr_hstep rs o : ntbr rs -> ntbr (hstep rs o).
Proof.
  intros H. destruct o; cbn [hstep]; apply ntbr_set; auto;
    try (pose proof (ntbr_get rs r H) as G).
  - exact ntbe_top.
  - exact I.
  - apply ntbr_get; exact H.
  - apply ntbe_d_assign; exact G.
  - apply ntbe_d_weak_assign; exact G.
  - apply ntbe_set; exact G.
  - apply ntbe_set; exact G.
  - apply ntbe_d_cast; exact G.
  - apply ntbe_d_add; exact G.
  - apply ntbe_d_select; exact G.
  - apply ntbe_d_forget; exact G.
  - apply ntbe_project; exact G.
  - apply ntbe_rename; exact G.
  - apply ntbe_d_expand; exact G.
  - apply ntbe_join; apply ntbr_get; exact H.
  - apply ntbe_meet.
  - apply ntbe_widen; apply ntbr_get; exact H.
  - apply ntbe_narrow.
  - apply ntbe_widen_thr; apply ntbr_get; exact H.
Qed.

Theorem ntbr_hrun h : forall rs, ntbr rs -> ntbr (hrun rs h).
Proof.
  induction h as [|o r IH]; simpl; intros rs H; [exact H|]. apply IH. apply ntbr_hstep; exact H.
Qed.

Lemma ntbr_tops n : ntbr (repeat e_top n).
Proof. induction n; simpl; constructor; auto. exact ntbe_top. Qed.

(* consequence used by the lifting theorems: on a history from top, the is_top test
   recognises exactly the empty environment *)
Theorem hrun_is_top_empty h n r :
  e_is_top (rget (hrun (repeat e_top n) h) r) = true -> rget (hrun (repeat e_top n) h) r = e_top.
Proof. apply ntbe_is_top. apply ntbr_get. apply ntbr_hrun. apply ntbr_tops. Qed.
