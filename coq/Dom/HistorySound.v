(* HistorySound.v — property C03 on the interval-domain model: after ANY finite history of
   operations over several registers, every register's abstract value describes every
   concrete store obtained by the corresponding concrete operations; hence the answers
   (at, entails, exported constraints, is_bottom, <=) are sound. *)
From Coq Require Import ZArith NArith List Bool Lia.
From CrabV Require Import Base.ZInf Scalar.Itv Scalar.ItvSound Ir.Syntax Dom.ItvEnv Dom.ItvEnvSound
     Dom.ItvSolver Dom.ItvSolverSound Dom.ItvDomain Dom.ItvDomainSound Dom.History
     Fix.Thresholds Fix.ThresholdsSound.
Import ListNotations.
Local Open Scope Z_scope.

Arguments d_add : simpl never.
Arguments d_select : simpl never.
Arguments d_cast : simpl never.
Arguments d_entails : simpl never.

Definition cset := store -> Prop.

Definition cget (cs : list cset) (r : reg) : cset := nth r cs (fun _ => True).
Fixpoint csetr (cs : list cset) (r : reg) (v : cset) : list cset :=
  match cs, r with
  | [], _ => []
  | _ :: t, O => v :: t
  | h :: t, S r' => h :: csetr t r' v
  end.

(* the concrete operation corresponding to each abstract one *)
Definition cstep (cs : list cset) (o : hop) : list cset :=
  match o with
  | HTop r => csetr cs r (fun _ => True)
  | HBot r => csetr cs r (fun _ => False)
  | HCopy r s => csetr cs r (cget cs s)
  | HAssign r x e => csetr cs r (fun s' => exists s, cget cs r s /\ s' = upd s x (eval_le e s))
  | HWeakAssign r x e =>
    csetr cs r (fun s' => exists s, cget cs r s /\ (s' = s \/ s' = upd s x (eval_le e s)))
  | HArith r op x y z =>
    csetr cs r (fun s' => exists s v, cget cs r s /\
                  arith_sem op (s y) (operand_val z s) = Some v /\ s' = upd s x v)
  | HBit r op x y z =>
    csetr cs r (fun s' => exists s v, cget cs r s /\
                  bit_sem op (s y) (operand_val z s) = Some v /\ s' = upd s x v)
  | HCast r op d sv db sb w =>
    csetr cs r (fun s' => exists s v, cget cs r s /\
                  (if db || sb then (if db then True else v = s sv) else v = s sv) /\
                  cast_pre op sb w v /\ s' = upd s d v)
  | HAssume r cl => csetr cs r (fun s => cget cs r s /\ forall c, In c cl -> sat c s)
  | HSelect r l c e1 e2 =>
    csetr cs r (fun s' => exists s, cget cs r s /\
                  s' = upd s l (if satb c s then eval_le e1 s else eval_le e2 s))
  | HForget r vs =>
    csetr cs r (fun s' => exists s, cget cs r s /\ forall k, ~ In k vs -> s' k = s k)
  | HProject r vs =>
    csetr cs r (fun s' => exists s, cget cs r s /\ forall k, In k vs -> s' k = s k)
  | HRename r f t =>
    csetr cs r (fun s' => exists s hv, cget cs r s /\ s' = rename_store s (combine f t) hv)
  | HExpand r x nx =>
    csetr cs r (fun s' => exists s s2, cget cs r s /\ cget cs r s2 /\
                  (forall k, k <> x -> s2 k = s k) /\ s' = upd s nx (s2 x))
  | HJoin r s t | HWiden r s t | HWidenThr r s t _ =>
    csetr cs r (fun st => cget cs s st \/ cget cs t st)
  | HMeet r s t | HNarrow r s t =>
    csetr cs r (fun st => cget cs s st /\ cget cs t st)
  end.

(* side conditions under which an operation is in the modelled fragment: constraints and
   expressions in canonical form (as the C++ containers guarantee), and the documented
   precondition of rename (fresh, distinct new names) *)
Definition hop_ok (rs : list env) (o : hop) : Prop :=
  match o with
  | HAssume _ cl => forall c, In c cl -> wf_lc c
  | HSelect _ _ c _ _ => wf_lc c
  | HRename r f t => NoDup t /\ length f = length t /\
                     forall k, In k t -> is_top (e_at (rget rs r) k) = true
  | _ => True
  end.

Definition rel (rs : list env) (cs : list cset) : Prop :=
  length rs = length cs /\ forall r s, cget cs r s -> genv (rget rs r) s.

Lemma rget_rset rs r v r' : (r < length rs)%nat ->
  rget (rset rs r v) r' = if Nat.eqb r' r then v else rget rs r'.
Proof.
  revert r r'. induction rs as [|h t IH]; simpl; intros r r' L; [lia|].
  destruct r, r'; simpl; auto.
  - apply IH. lia.
Qed.

Lemma rset_oob rs r v : (length rs <= r)%nat -> rset rs r v = rs.
Proof. revert r. induction rs as [|h t IH]; simpl; intros r L; auto. destruct r; [lia|]. f_equal. apply IH. lia. Qed.

Lemma cget_csetr cs r v r' : (r < length cs)%nat ->
  cget (csetr cs r v) r' = if Nat.eqb r' r then v else cget cs r'.
Proof.
  revert r r'. induction cs as [|h t IH]; simpl; intros r r' L; [lia|].
  destruct r, r'; simpl; auto.
  - apply IH. lia.
Qed.

Lemma csetr_oob cs r v : (length cs <= r)%nat -> csetr cs r v = cs.
Proof. revert r. induction cs as [|h t IH]; simpl; intros r L; auto. destruct r; [lia|]. f_equal. apply IH. lia. Qed.

Lemma rset_length rs r v : length (rset rs r v) = length rs.
Proof. revert r. induction rs as [|h t IH]; simpl; intros r; auto. destruct r; simpl; auto. Qed.
Lemma csetr_length cs r v : length (csetr cs r v) = length cs.
Proof. revert r. induction cs as [|h t IH]; simpl; intros r; auto. destruct r; simpl; auto. Qed.

Lemma rel_set rs cs r (a : env) (c : cset) :
  rel rs cs -> (forall s, c s -> genv a s) -> rel (rset rs r a) (csetr cs r c).
Proof.
  intros [L R] H. split. { rewrite rset_length, csetr_length; auto. }
  intros r' s. destruct (Nat.lt_ge_cases r (length rs)) as [I|O].
  - rewrite rget_rset by auto. rewrite cget_csetr by lia.
    destruct (Nat.eqb r' r); auto.
  - rewrite rset_oob by auto. rewrite csetr_oob by lia. auto.
Qed.

Lemma mk_thresholds_wf ths : wf_thr (mk_thresholds ths).
Proof.
  unfold mk_thresholds.
  assert (G : forall t, wf_thr t -> wf_thr (fold_left (fun t z => thr_add 4294967295 t (Fin z)) ths t)).
  { induction ths as [|z r IH]; simpl; auto. intros t W. apply IH. apply thr_add_wf; auto. }
  apply G. apply wf_thr_init.
Qed.

Theorem hstep_sound rs cs o : rel rs cs -> hop_ok rs o -> rel (hstep rs o) (cstep cs o).
Proof.
  intros R OK. pose proof R as [L RR].
  destruct o; cbn [hstep cstep]; (apply rel_set; [exact R|]).
  - intros s _. apply genv_top.
  - intros s [].
  - intros st C. apply RR; auto.
  - intros st (s & C & ->). apply d_assign_sound; auto.
  - intros st (s & C & [->| ->]); apply d_weak_assign_sound; auto.
  - intros st (s & v & C & A & ->). eapply d_apply_arith_sound; eauto.
  - intros st (s & v & C & A & ->). eapply d_apply_bit_sound; eauto.
  - intros st (s & v & C & V & P & ->). apply d_cast_sound; auto.
  - intros s [C S]. apply d_add_sound; auto.
  - intros st (s & C & ->). apply d_select_sound; auto.
  - intros st (s & C & A). eapply d_forget_sound; eauto.
  - intros st (s & C & A). eapply e_project_sound; eauto.
  - intros st (s & hv & C & ->). destruct OK as (ND & LE & TP). apply e_rename_sound; auto.
  - intros st (s & s2 & C & C2 & A & ->). apply d_expand_sound; auto.
    exists s2. repeat split; auto.
  - intros st [C|C]; apply e_join_sound; auto.
  - intros st [C1 C2]. apply e_meet_sound; auto.
  - intros st [C|C]; apply e_widen_sound; auto.
  - intros st [C1 C2]. apply e_narrow_sound; auto.
  - intros st C. apply e_widen_thr_sound.
    + intros v. apply thr_prev_le. apply mk_thresholds_wf.
    + intros v. apply thr_next_ge. apply mk_thresholds_wf.
    + destruct C; auto.
Qed.

(* a history is admissible when each step meets its side condition in the state where
   it is applied *)
Fixpoint hist_ok (rs : list env) (h : list hop) : Prop :=
  match h with
  | [] => True
  | o :: r => hop_ok rs o /\ hist_ok (hstep rs o) r
  end.

Theorem history_sound h : forall rs cs,
  rel rs cs -> hist_ok rs h -> rel (hrun rs h) (fold_left cstep h cs).
Proof.
  induction h as [|o r IH]; simpl; intros rs cs R OK; auto.
  destruct OK as [O1 O2]. apply IH; auto. apply hstep_sound; auto.
Qed.

(* starting point: all registers top *)
Lemma rel_top n : rel (repeat e_top n) (repeat (fun _ => True) n).
Proof.
  split. { rewrite !repeat_length; auto. }
  intros r s _. unfold rget.
  destruct (nth_in_or_default r (repeat e_top n) e_top) as [I|E].
  - apply repeat_spec in I. rewrite I. apply genv_top.
  - rewrite E. apply genv_top.
Qed.

(* ---- soundness of the answers ---- *)

Lemma bindings_in m v i : In (v, i) (bindings m) -> i = get m v.
Proof.
  unfold bindings. intros I. apply filter_In in I. destruct I as [I _].
  apply in_map_iff in I. destruct I as (k & E & _). inversion E; subst; auto.
Qed.

Definition csts_step (acc : list lincst) (p : var * itv) : list lincst :=
  let '(v, i) := p in
  let acc := match lb i with Fin l => sys_add acc (mkLC INEQ (mkLE [(-1, v)] l)) | _ => acc end in
  match ub i with Fin u => sys_add acc (mkLC INEQ (mkLE [(1, v)] (- u))) | _ => acc end.

Lemma csts_step_sound m s acc p : gmap m s -> snd p = get m (fst p) ->
  (forall c, In c acc -> sat c s) -> forall c, In c (csts_step acc p) -> sat c s.
Proof.
  intros G E HA. destruct p as [v i]. simpl in E. unfold csts_step.
  destruct (G v) as [G1 G2]. rewrite <- E in G1, G2.
  assert (A1 : forall c0, In c0 (match lb i with Fin l => sys_add acc (mkLC INEQ (mkLE [(-1, v)] l)) | _ => acc end) -> sat c0 s).
  { destruct (lb i) as [| l |] eqn:EL; auto.
    apply sys_add_ok; auto. unfold sat, eval_le; cbn [lc_kind lc_exp eval_terms le_terms le_cst].
    simpl in G1. apply Z.leb_le in G1. lia. }
  destruct (ub i) as [| u |] eqn:EU; auto.
  apply sys_add_ok; auto.
  unfold sat, eval_le; cbn [lc_kind lc_exp eval_terms le_terms le_cst].
  simpl in G2. apply Z.leb_le in G2. lia.
Qed.

Theorem d_to_csts_sound e s : genv e s -> forall c, In c (d_to_csts e) -> sat c s.
Proof.
  destruct e as [|m]; simpl; [tauto|]. intros G.
  change (forall c, In c (fold_left csts_step (bindings m) []) -> sat c s).
  assert (F : forall l acc, (forall p, In p l -> snd p = get m (fst p)) ->
              (forall c, In c acc -> sat c s) ->
              forall c, In c (fold_left csts_step l acc) -> sat c s).
  { induction l as [|p r IH]; simpl; intros acc HL HA c I; auto.
    apply (IH (csts_step acc p)) in I; auto.
    apply (csts_step_sound m s); auto. }
  apply F.
  - intros [v i] I. simpl. eapply bindings_in; eauto.
  - intros c [].
Qed.
