(* ArraySmashSound.v — property C14 on the model of array_smashing<interval_domain>.

   Concrete semantics (word-level, as array_smashing.hpp documents): a state is a store of
   the scalars together with a memory [arr -> Z -> option Z] (byte offset -> value; [None]
   = the cell was never defined).  Every array [a] has ONE element size [esz a]: an array
   operation whose element-size expression does not evaluate to [esz a] has no successor
   state.  [onecell a = Some j] is the promise made by the client that sets
   is_strong_update (cfg.hpp: "only makes sense if lb = ub"; array_smashing updates the
   summary strongly): the array has the single cell [j]; accesses that break the promise
   (a load or a strong store at another offset) have no successor state.

   THEOREM [ahistory_sound]: for every history over several registers (initialisations,
   strong/weak/range stores, loads, copies, forget/project/expand, the numerical operations,
   joins and widenings in any interleaving) every state reached by the corresponding
   concrete operations is described by the abstract value of its register; in particular
   every value read from a cell is in gamma (at lhs) after the load ([aload_value_sound])
   and no reached state is bottom ([areach_not_bottom]).  Meet/narrowing are mirrored by the
   model (ArraySmash.v) but are outside the theorem ([hop_ok]); rename is covered for one
   variable at a time (what the generators produce), within its documented precondition. *)
From Coq Require Import ZArith NArith List Bool Lia.
From CrabV Require Import Base.ZInf Scalar.Itv Scalar.ItvSound Ir.Syntax Dom.ItvEnv Dom.ItvEnvSound
     Dom.ItvSolver Dom.ItvSolverSound Dom.ItvDomain Dom.ItvDomainSound Dom.History Dom.HistorySound
     Fix.Thresholds Fix.ThresholdsSound Dom.ArraySmash.
Import ListNotations.
Local Open Scope Z_scope.

Arguments d_add : simpl never.
Arguments d_assign : simpl never.
Arguments d_weak_assign : simpl never.
Arguments d_expand : simpl never.
Arguments d_forget : simpl never.
Arguments e_project : simpl never.

(* ---- naming ---- *)
Definition is_prog (v : var) : Prop := (v mod 3 = 0)%N.
Definition is_progb (v : var) : bool := (v mod 3 =? 0)%N.
Lemma is_progb_spec v : is_progb v = true <-> is_prog v.
Proof. unfold is_progb, is_prog. apply N.eqb_eq. Qed.

Lemma ghost_mod a : (ghost a mod 3 = 1)%N.
Proof. unfold ghost. rewrite N.add_comm, N.mul_comm, N.mod_add by discriminate. reflexivity. Qed.
Lemma gcopy_mod a : (gcopy a mod 3 = 2)%N.
Proof. unfold gcopy. rewrite N.add_comm, N.mul_comm, N.mod_add by discriminate. reflexivity. Qed.
Lemma sv_prog x : is_prog (sv x).
Proof. unfold is_prog, sv. rewrite N.mul_comm. apply N.mod_mul. discriminate. Qed.
Lemma prog_not_ghost x a : is_prog x -> x <> ghost a.
Proof. intros P E. subst. red in P. rewrite ghost_mod in P. discriminate. Qed.
Lemma prog_not_gcopy x a : is_prog x -> x <> gcopy a.
Proof. intros P E. subst. red in P. rewrite gcopy_mod in P. discriminate. Qed.
Lemma ghost_not_gcopy a b : ghost a <> gcopy b.
Proof. intros E. pose proof (ghost_mod a) as H. rewrite E, gcopy_mod in H. discriminate. Qed.
Lemma ghost_inj a b : ghost a = ghost b -> a = b.
Proof. unfold ghost. lia. Qed.
Lemma ghost_not_prog a : ~ is_prog (ghost a).
Proof. intros P. red in P. rewrite ghost_mod in P. discriminate. Qed.

(* ---- pointwise facts about interval environments ---- *)
Lemma genv_ext e s s' : (forall k, s k = s' k) -> genv e s -> genv e s'.
Proof. destruct e as [|m]; simpl; auto. intros E G k. rewrite <- E. apply G. Qed.

Lemma genv_upd e s x v : genv e s -> gamma (e_at e x) v -> genv e (upd s x v).
Proof.
  destruct e as [|m]; simpl; auto. intros G H k. destruct (N.eq_dec k x) as [->|N].
  - rewrite upd_same. auto.
  - rewrite upd_other by auto. apply G.
Qed.

Lemma e_forget_keep e s x : genv e s -> genv (e_forget e x) s.
Proof.
  intros G. apply (genv_ext _ (upd s x (s x))).
  - intros k. destruct (N.eq_dec k x) as [->|N]; [apply upd_same|apply upd_other; auto].
  - apply e_forget_sound; auto.
Qed.

(* expressions over program variables *)
Definition le_prog (e : linexp) : Prop := forall c v, In (c, v) (le_terms e) -> is_prog v.
Definition lc_prog (c : lincst) : Prop := le_prog (lc_exp c).
Definition agree (s' s : store) : Prop := forall x, is_prog x -> s' x = s x.

Lemma eval_terms_agree ts s' s : (forall c v, In (c, v) ts -> is_prog v) -> agree s' s ->
  eval_terms ts s' = eval_terms ts s.
Proof.
  induction ts as [|[c v] r IH]; simpl; intros P A; auto.
  rewrite IH; auto; [|intros; eapply P; eauto]. rewrite (A v) by (eapply P; eauto). auto.
Qed.
Lemma eval_le_agree e s' s : le_prog e -> agree s' s -> eval_le e s' = eval_le e s.
Proof. intros P A. unfold eval_le. rewrite (eval_terms_agree _ s' s); auto. Qed.
Lemma sat_agree c s' s : lc_prog c -> agree s' s -> sat c s -> sat c s'.
Proof. intros P A. unfold sat. rewrite (eval_le_agree _ s' s); auto. Qed.

Lemma agree_upd s' s x v : agree s' s -> agree (upd s' x v) (upd s x v).
Proof.
  intros A k P. destruct (N.eq_dec k x) as [->|N]; [rewrite !upd_same|rewrite !upd_other by auto]; auto.
Qed.
Lemma agree_upd_nonprog s' s x v : agree s' s -> ~ is_prog x -> agree (upd s' x v) s.
Proof. intros A NP k P. rewrite upd_other; auto. intros ->. auto. Qed.

(* ---- last-access environment ---- *)
Lemma lget_lremove_same m a : lget (lremove m a) a = None.
Proof.
  induction m as [|[b k] r IH]; simpl; auto. destruct (N.eqb_spec b a); simpl; auto.
  destruct (N.eqb_spec b a); try congruence; auto.
Qed.
Lemma lget_lremove_other m a b : b <> a -> lget (lremove m a) b = lget m b.
Proof.
  intros N. induction m as [|[c k] r IH]; simpl; auto. destruct (N.eqb_spec c a); simpl.
  - subst. destruct (N.eqb_spec a b); try congruence; auto.
  - rewrite IH; auto.
Qed.

Lemma la_at_set l a k b : l <> LBot ->
  la_at (la_set l a k) b = if N.eqb a b then BConst k else la_at l b.
Proof.
  destruct l as [|m]; [congruence|]. intros _. simpl. destruct (N.eqb_spec a b); auto.
  rewrite lget_lremove_other by auto. auto.
Qed.
Lemma la_set_not_bot l a k : l <> LBot -> la_set l a k <> LBot.
Proof. destruct l; simpl; congruence. Qed.
Lemma la_at_forget l a b : l <> LBot ->
  la_at (la_forget l a) b = if N.eqb a b then BTop else la_at l b.
Proof.
  destruct l as [|m]; [congruence|]. intros _. simpl. destruct (N.eqb_spec a b).
  - subst. rewrite lget_lremove_same. auto.
  - rewrite lget_lremove_other by auto. auto.
Qed.
Lemma la_forget_not_bot l a : l <> LBot -> la_forget l a <> LBot.
Proof. destruct l; simpl; congruence. Qed.
Lemma equal_size_spec l a k : equal_size l a k = true <-> la_at l a = BConst k.
Proof.
  destruct l as [|m]; simpl; [split; discriminate|]. destruct (lget m a) as [k'|].
  - rewrite Z.eqb_eq. split; intros H; [subst; auto|inversion H; auto].
  - split; discriminate.
Qed.
Lemma la_at_const_not_bot l a k : la_at l a = BConst k -> l <> LBot.
Proof. destruct l; simpl; congruence. Qed.

Lemma lget_filter (f : arr * Z -> bool) m a k :
  lget (filter f m) a = Some k -> exists k', lget m a = Some k'.
Proof.
  induction m as [|[b kb] r IH]; simpl; [discriminate|]. destruct (f (b, kb)); simpl.
  - destruct (N.eqb b a); eauto.
  - intros H. destruct (N.eqb b a); eauto.
Qed.

Lemma lget_in m a k : lget m a = Some k -> In (a, k) m.
Proof.
  induction m as [|[b kb] r IH]; simpl; [discriminate|]. destruct (N.eqb_spec b a).
  - intros H. inversion H; subst. auto.
  - auto.
Qed.

(* the join keeps a size only if both sides have it *)
Lemma lm_join_get x y a k : lget (lm_join x y) a = Some k -> lget x a = Some k /\ lget y a = Some k.
Proof.
  unfold lm_join. intros H. apply lget_in in H. apply filter_In in H. destruct H as [I F].
  apply in_map_iff in I. destruct I as (b & E & I). inversion E; subst. clear E. simpl in F.
  unfold lkeys in I. apply in_map_iff in I. destruct I as ([b' kb] & E & I). simpl in E. subst b'.
  destruct (lget y a) as [ky|] eqn:Y; [|discriminate]. apply Z.eqb_eq in F. subst ky.
  destruct (lget x a) as [kx|] eqn:X; auto.
  exfalso. clear - X I. induction x as [|[c kc] r IH]; simpl in *; auto.
  destruct (N.eqb_spec c a); [discriminate|]. destruct I as [E|I]; [inversion E; congruence|auto].
Qed.

Lemma la_join_const_l x y a k : x <> LBot -> la_at (la_join x y) a = BConst k -> la_at x a = BConst k.
Proof.
  destruct x as [|mx]; [congruence|]. intros _. destruct y as [|my]; simpl; auto.
  destruct (lget (lm_join mx my) a) as [k'|] eqn:E; [|discriminate]. intros H. inversion H; subst.
  apply lm_join_get in E. destruct E as [E _]. rewrite E. auto.
Qed.
Lemma la_join_const_r x y a k : y <> LBot -> la_at (la_join x y) a = BConst k -> la_at y a = BConst k.
Proof.
  destruct y as [|my]; [congruence|]. intros _. destruct x as [|mx]; simpl; auto.
  destruct (lget (lm_join mx my) a) as [k'|] eqn:E; [|discriminate]. intros H. inversion H; subst.
  apply lm_join_get in E. destruct E as [_ E]. rewrite E. auto.
Qed.
Lemma la_join_not_bot_l x y : x <> LBot -> la_join x y <> LBot.
Proof. destruct x, y; simpl; congruence. Qed.
Lemma la_join_not_bot_r x y : y <> LBot -> la_join x y <> LBot.
Proof. destruct x, y; simpl; congruence. Qed.

Lemma lget_filter_some (f : arr * Z -> bool) m a k :
  lget (filter f m) a = Some k -> In (a, k) m /\ f (a, k) = true.
Proof. intros H. apply lget_in in H. apply filter_In in H. auto. Qed.

Section Smash.

Variable esz : arr -> Z.
Variable onecell : arr -> option Z.

Definition amem := arr -> Z -> option Z.
Definition cst := (store * amem)%type.
Definition cset := cst -> Prop.

Definition cell_ok (a : arr) (i : Z) : Prop :=
  match onecell a with Some j => i = j | None => True end.

(* keys are unique in the environments built by the operations; what the proofs need is
   only [lget], so no invariant on the representation is required *)

(* concretisation *)
Definition G (st : ast) (c : cst) : Prop :=
  a_la st <> LBot /\
  (forall a k, la_at (a_la st) a = BConst k -> k = esz a) /\
  (exists s', genv (a_base st) s' /\ agree s' (fst c)) /\
  (forall a k i v, la_at (a_la st) a = BConst k -> cell_ok a i -> snd c a i = Some v ->
                   gamma (e_at (a_base st) (ghost a)) v).

Lemma G_not_bottom st c : G st c -> s_is_bottom st = false.
Proof. intros (_ & _ & (s' & Gs & _) & _). unfold s_is_bottom. eapply genv_not_bot; eauto. Qed.

Lemma G_at st c x : G st c -> is_prog x -> gamma (s_at st x) (fst c x).
Proof.
  intros (_ & _ & (s' & Gs & A) & _) P. unfold s_at. rewrite <- (A x P). apply e_at_sound; auto.
Qed.

(* a described store whose ghost of [a] holds the value of any one defined cell *)
Lemma G_witness st s mu : G st (s, mu) ->
  exists s', genv (a_base st) s' /\ agree s' s.
Proof. intros (_ & _ & H & _). exact H. Qed.

Lemma G_cell_store st s mu s' a k i v : G st (s, mu) -> genv (a_base st) s' ->
  la_at (a_la st) a = BConst k -> cell_ok a i -> mu a i = Some v ->
  genv (a_base st) (upd s' (ghost a) v).
Proof. intros (_ & _ & _ & C) Gs L O M. apply genv_upd; auto. eapply (C a k i v); eauto. Qed.

(* Generic step: the last-access part [l'] and the base part [b'] of the new value are
   justified by a store transformer [F] that is sound on every described store, acts on
   program variables like the concrete step and keeps the ghosts of the arrays whose
   cells are inherited. *)
Lemma G_step st s mu l' b' s1 mu1 (F : store -> store) :
  G st (s, mu) ->
  l' <> LBot ->
  (forall a k, la_at l' a = BConst k -> k = esz a) ->
  (forall s0, genv (a_base st) s0 -> agree s0 s -> genv b' (F s0) /\ agree (F s0) s1) ->
  (forall a k i v, la_at l' a = BConst k -> cell_ok a i -> mu1 a i = Some v ->
     (* either the cell is described through a described store ... *)
     (exists s0, genv (a_base st) s0 /\ agree s0 s /\ F s0 (ghost a) = v)) ->
  G (mkA l' b') (s1, mu1).
Proof.
  intros HG L S FS C. pose proof HG as (_ & _ & (s' & Gs & A) & _).
  split; [exact L|]. split; [exact S|]. split.
  - exists (F s'). apply FS; auto.
  - intros a k i v La O M. cbn [a_base a_la fst snd] in *.
    destruct (C a k i v La O M) as (s0 & G0 & A0 & E).
    destruct (FS s0 G0 A0) as [G1 _]. rewrite <- E. apply e_at_sound. auto.
Qed.

(* ---- the concrete operation corresponding to each abstract one ---- *)
Definition cget (cs : list cset) (r : reg) : cset := nth r cs (fun _ => True).
Fixpoint csetr (cs : list cset) (r : reg) (v : cset) : list cset :=
  match cs, r with
  | [], _ => []
  | _ :: t, O => v :: t
  | h :: t, S r' => h :: csetr t r' v
  end.

Definition same_mem (mu' mu : amem) : Prop := forall a i, mu' a i = mu a i.
Definition same_mem_but (b : arr) (mu' mu : amem) : Prop := forall a i, a <> b -> mu' a i = mu a i.

Definition cstep (cs : list cset) (o : ahop) : list cset :=
  match o with
  | ATop r => csetr cs r (fun _ => True)
  | ABot r => csetr cs r (fun _ => False)
  | ACopy r s => csetr cs r (cget cs s)
  | AAssign r x e =>
    csetr cs r (fun c' => exists s mu, cget cs r (s, mu) /\
                  fst c' = upd s x (eval_le e s) /\ same_mem (snd c') mu)
  | AArith r op x y z =>
    csetr cs r (fun c' => exists s mu v, cget cs r (s, mu) /\
                  arith_sem op (s y) (operand_val z s) = Some v /\
                  fst c' = upd s x v /\ same_mem (snd c') mu)
  | AAssume r cl =>
    csetr cs r (fun c' => cget cs r c' /\ forall c, In c cl -> sat c (fst c'))
  | AForget r vs =>
    csetr cs r (fun c' => exists s mu, cget cs r (s, mu) /\
                  (forall x, ~ In (VS x) vs -> fst c' x = s x) /\
                  (forall a i, ~ In (VA a) vs -> snd c' a i = mu a i))
  | AForget1 r v =>
    csetr cs r (fun c' => exists s mu, cget cs r (s, mu) /\
                  (forall x, VS x <> v -> fst c' x = s x) /\
                  (forall a i, VA a <> v -> snd c' a i = mu a i))
  | AProject r vs =>
    csetr cs r (fun c' => exists s mu, cget cs r (s, mu) /\
                  (forall x, In (VS x) vs -> fst c' x = s x) /\
                  (forall a i, In (VA a) vs -> snd c' a i = mu a i))
  | AExpand r (VS x) (VS y) =>
    csetr cs r (fun c' => exists s mu, cget cs r (s, mu) /\
                  fst c' = upd s y (s x) /\ same_mem (snd c') mu)
  | AExpand r (VA a) (VA b) =>
    csetr cs r (fun c' => exists s mu, cget cs r (s, mu) /\ fst c' = s /\
                  same_mem_but b (snd c') mu /\ forall i, snd c' b i = mu a i)
  | AExpand r _ _ => csetr cs r (fun _ => False)        (* CRAB_ERROR in the code *)
  | ARename r [VS x] [VS y] =>
    (* one scalar: the value moves, the old name becomes arbitrary *)
    csetr cs r (fun c' => exists s mu h, cget cs r (s, mu) /\
                  fst c' = rename_store s [(x, y)] [h] /\ same_mem (snd c') mu)
  | ARename r [VA a] [VA b] =>
    csetr cs r (fun c' => exists s mu, cget cs r (s, mu) /\ fst c' = s /\
                  (forall c i, c <> a -> c <> b -> snd c' c i = mu c i) /\
                  forall i, snd c' b i = mu a i)
  | ARename r _ _ => csetr cs r (fun _ => False)        (* lists: outside the theorem, see hop_ok *)
  | AInit r a e _ _ val =>
    (* every cell that is defined after the initialisation holds val (this covers the
       reading "cells lb, lb+sz, .. <= ub" of cfg.hpp as well as the constant array) *)
    csetr cs r (fun c' => exists s mu, cget cs r (s, mu) /\ eval_le e s = esz a /\
                  fst c' = s /\ same_mem_but a (snd c') mu /\
                  forall i v, snd c' a i = Some v -> v = eval_le val s)
  | ALoad r lhs a e idx =>
    csetr cs r (fun c' => exists s mu v, cget cs r (s, mu) /\ eval_le e s = esz a /\
                  cell_ok a (eval_le idx s) /\ mu a (eval_le idx s) = Some v /\
                  fst c' = upd s lhs v /\ same_mem (snd c') mu)
  | AStore r a e idx val strong =>
    csetr cs r (fun c' => exists s mu, cget cs r (s, mu) /\ eval_le e s = esz a /\
                  (strong = true -> onecell a = Some (eval_le idx s)) /\
                  fst c' = s /\ same_mem_but a (snd c') mu /\
                  forall i, snd c' a i = if i =? eval_le idx s then Some (eval_le val s) else mu a i)
  | ARange r a e _ _ val =>
    (* any set of cells is overwritten with val *)
    csetr cs r (fun c' => exists s mu, cget cs r (s, mu) /\ eval_le e s = esz a /\
                  fst c' = s /\ same_mem_but a (snd c') mu /\
                  forall i, snd c' a i = mu a i \/ snd c' a i = Some (eval_le val s))
  | ACopyArr r lhs rhs =>
    csetr cs r (fun c' => exists s mu, cget cs r (s, mu) /\ fst c' = s /\
                  same_mem_but lhs (snd c') mu /\ forall i, snd c' lhs i = mu rhs i)
  | AJoin r s t | AWiden r s t | AWidenThr r s t _ =>
    csetr cs r (fun c => cget cs s c \/ cget cs t c)
  | AMeet r s t | ANarrow r s t =>
    csetr cs r (fun c => cget cs s c /\ cget cs t c)
  end.

(* side conditions: expressions range over program scalars and are in the canonical form
   of the C++ containers; an array copy is between arrays of the same layout; meet,
   narrowing and rename are outside the theorem *)
Definition avar_prog (v : avar) : Prop := match v with VS x => is_prog x | VA _ => True end.
Definition operand_prog (z : operand) : Prop := match z with OVar v => is_prog v | OCst _ => True end.
Definition same_layout (dst src : arr) : Prop :=
  esz dst = esz src /\ forall i, cell_ok dst i -> cell_ok src i.

Definition hop_ok (rs : list ast) (o : ahop) : Prop :=
  match o with
  | AAssign _ x e => is_prog x /\ le_prog e
  | AArith _ _ x y z => is_prog x /\ is_prog y /\ operand_prog z
  | AAssume _ cl => forall c, In c cl -> wf_lc c /\ lc_prog c
  | AForget _ vs | AProject _ vs => forall v, In v vs -> avar_prog v
  | AForget1 _ v => avar_prog v
  | AExpand _ (VS x) (VS y) => is_prog x /\ is_prog y
  | AExpand r (VA a) (VA b) =>
    (* the new variable of expand is fresh: nothing is recorded about it *)
    same_layout b a /\ forall k, la_at (a_la (aget rs r)) b <> BConst k
  | AExpand _ _ _ => True
  | ARename r [VS x] [VS y] =>
    (* documented precondition of rename: the new name is not bound *)
    is_prog x /\ is_prog y /\ is_top (e_at (a_base (aget rs r)) y) = true
  | ARename r [VA a] [VA b] =>
    same_layout b a /\ (forall k, la_at (a_la (aget rs r)) b <> BConst k) /\
    is_top (e_at (a_base (aget rs r)) (ghost b)) = true
  | ARename _ _ _ => False
  | AInit _ _ e _ _ val => le_prog e /\ le_prog val
  | ALoad _ lhs _ e idx => is_prog lhs /\ le_prog e /\ le_prog idx
  | AStore _ _ e idx val _ => le_prog e /\ le_prog idx /\ le_prog val
  | ARange _ _ e _ _ val => le_prog e /\ le_prog val
  | ACopyArr _ lhs rhs => same_layout lhs rhs
  | AMeet _ _ _ | ANarrow _ _ _ => False
  | _ => True
  end.

Definition rel (rs : list ast) (cs : list cset) : Prop :=
  length rs = length cs /\ forall r c, cget cs r c -> G (aget rs r) c.

(* ---- registers ---- *)
Lemma aget_aset rs r v r' : (r < length rs)%nat ->
  aget (aset rs r v) r' = if Nat.eqb r' r then v else aget rs r'.
Proof.
  revert r r'. induction rs as [|h t IH]; simpl; intros r r' L; [lia|].
  destruct r, r'; simpl; auto. apply IH. lia.
Qed.
Lemma aset_oob rs r v : (length rs <= r)%nat -> aset rs r v = rs.
Proof. revert r. induction rs as [|h t IH]; simpl; intros r L; auto. destruct r; [lia|]. f_equal. apply IH. lia. Qed.
Lemma cget_csetr cs r v r' : (r < length cs)%nat ->
  cget (csetr cs r v) r' = if Nat.eqb r' r then v else cget cs r'.
Proof.
  revert r r'. induction cs as [|h t IH]; simpl; intros r r' L; [lia|].
  destruct r, r'; simpl; auto. apply IH. lia.
Qed.
Lemma csetr_oob cs r v : (length cs <= r)%nat -> csetr cs r v = cs.
Proof. revert r. induction cs as [|h t IH]; simpl; intros r L; auto. destruct r; [lia|]. f_equal. apply IH. lia. Qed.
Lemma aset_length rs r v : length (aset rs r v) = length rs.
Proof. revert r. induction rs as [|h t IH]; simpl; intros r; auto. destruct r; simpl; auto. Qed.
Lemma csetr_length cs r v : length (csetr cs r v) = length cs.
Proof. revert r. induction cs as [|h t IH]; simpl; intros r; auto. destruct r; simpl; auto. Qed.

Lemma rel_set rs cs r (a : ast) (c : cset) :
  rel rs cs -> (forall x, c x -> G a x) -> rel (aset rs r a) (csetr cs r c).
Proof.
  intros [L R] H. split. { rewrite aset_length, csetr_length; auto. }
  intros r' s. destruct (Nat.lt_ge_cases r (length rs)) as [I|O].
  - rewrite aget_aset by auto. rewrite cget_csetr by lia. destruct (Nat.eqb r' r); auto.
  - rewrite aset_oob by auto. rewrite csetr_oob by lia. auto.
Qed.

(* ---- element sizes ---- *)
Lemma check_elem_size_sound st s mu e k : G st (s, mu) -> le_prog e ->
  check_elem_size e (a_base st) = Some k -> eval_le e s = k.
Proof.
  intros HG P H. destruct (G_witness _ _ _ HG) as (s' & Gs & A).
  unfold check_elem_size in H. destruct (isingleton (d_eval e (a_base st))) as [n|] eqn:E; [|discriminate].
  destruct ((0 <? n) && (n <=? 9223372036854775807)); inversion H; subst.
  rewrite <- (eval_le_agree e s' s P A).
  apply (isingleton_spec _ _ E). apply d_eval_sound; auto.
Qed.

(* ---- operations of the base domain ---- *)
Lemma G_top c : G s_top c.
Proof.
  split; [simpl; congruence|]. split; [simpl; discriminate|]. split.
  - exists (fst c). split; [apply genv_top|]. intros x _. auto.
  - simpl. discriminate.
Qed.

Lemma G_mem_ext st s mu mu' : same_mem mu' mu -> G st (s, mu) -> G st (s, mu').
Proof.
  intros E (L & S & W & C). split; auto. split; auto. split; auto.
  intros a k i v La O M. cbn [snd] in M. rewrite E in M. eapply C; eauto.
Qed.

(* an operation of the base domain on program variables *)
Lemma G_base_op st s mu b' s1 (F : store -> store) :
  G st (s, mu) ->
  (forall s0, genv (a_base st) s0 -> agree s0 s -> genv b' (F s0) /\ agree (F s0) s1) ->
  (forall s0 a, F s0 (ghost a) = s0 (ghost a)) ->
  G (mkA (a_la st) b') (s1, mu).
Proof.
  intros HG FS K. pose proof HG as (L & S & (s' & Gs & A) & C).
  eapply (G_step st s mu (a_la st) b' s1 mu F); eauto.
  intros a k i v La O M. exists (upd s' (ghost a) v). split; [|split].
  - eapply G_cell_store; eauto.
  - apply agree_upd_nonprog; auto. apply ghost_not_prog.
  - rewrite K. apply upd_same.
Qed.

Lemma s_assign_sound x e st s mu : G st (s, mu) -> is_prog x -> le_prog e ->
  G (s_assign x e st) (upd s x (eval_le e s), mu).
Proof.
  intros HG Px Pe. unfold s_assign.
  apply (G_base_op st s mu _ _ (fun s0 => upd s0 x (eval_le e s0))); auto.
  - intros s0 G0 A0. split; [apply d_assign_sound; auto|].
    rewrite (eval_le_agree e s0 s) by auto. apply agree_upd; auto.
  - intros s0 a. apply upd_other. intros E. symmetry in E. revert E. apply prog_not_ghost; auto.
Qed.

Lemma operand_val_agree z s0 s : operand_prog z -> agree s0 s -> operand_val z s0 = operand_val z s.
Proof. destruct z; simpl; auto. Qed.

Lemma s_arith_sound op x y z st s mu v : G st (s, mu) -> is_prog x -> is_prog y -> operand_prog z ->
  arith_sem op (s y) (operand_val z s) = Some v -> G (s_arith op x y z st) (upd s x v, mu).
Proof.
  intros HG Px Py Pz H. unfold s_arith.
  apply (G_base_op st s mu _ _ (fun s0 => upd s0 x v)); auto.
  - intros s0 G0 A0. split; [|apply agree_upd; auto].
    apply d_apply_arith_sound; auto. rewrite (A0 y Py), (operand_val_agree z s0 s); auto.
  - intros s0 a. apply upd_other. intros E. symmetry in E. revert E. apply prog_not_ghost; auto.
Qed.

Lemma s_assume_sound cl st s mu : G st (s, mu) ->
  (forall c, In c cl -> wf_lc c /\ lc_prog c) -> (forall c, In c cl -> sat c s) ->
  G (s_assume cl st) (s, mu).
Proof.
  intros HG W S. unfold s_assume.
  apply (G_base_op st s mu _ _ (fun s0 => s0)); auto.
  intros s0 G0 A0. split; auto. apply d_add_sound; auto.
  intros c I. destruct (W c I) as [W1 W2]. split; auto. eapply sat_agree; eauto.
Qed.

(* ---- forget / project ---- *)
Lemma forget_scan_spec vs : forall l acc l' rm, l <> LBot -> forget_scan vs l acc = (l', rm) ->
  l' <> LBot /\
  (forall b k, la_at l' b = BConst k -> la_at l b = BConst k /\ ~ In (VA b) vs) /\
  (forall x, In x acc \/ In (VS x) vs -> In x rm).
Proof.
  induction vs as [|v r IH]; simpl; intros l acc l' rm NB H.
  - inversion H; subst. split; auto. split; [intros; split; auto|]. intros x [I|[]]; auto.
  - destruct v as [x|a].
    + destruct (IH _ _ _ _ NB H) as (N1 & C & R). split; auto. split.
      * intros b k Hb. destruct (C b k Hb) as [C1 C2]. split; auto. intros [E|I]; [discriminate|auto].
      * intros y [I|[E|I]]; apply R; auto.
        -- left. apply in_or_app. auto.
        -- inversion E; subst. left. apply in_or_app. right. left. auto.
    + destruct (la_at l a) as [|ka|] eqn:La.
      * destruct (IH _ _ _ _ NB H) as (N1 & C & R). split; auto. split.
        -- intros b k Hb. destruct (C b k Hb) as [C1 C2]. split; auto.
           intros [E|I]; [|auto]. inversion E; subst. congruence.
        -- intros y [I|[E|I]]; try discriminate; apply R; auto.
      * destruct (IH _ _ _ _ (la_forget_not_bot l a NB) H) as (N1 & C & R). split; auto. split.
        -- intros b k Hb. destruct (C b k Hb) as [C1 C2]. rewrite la_at_forget in C1 by auto.
           destruct (N.eqb_spec a b); [discriminate|]. split; auto.
           intros [E|I]; [|auto]. inversion E; congruence.
        -- intros y [I|[E|I]]; try discriminate; apply R; auto. left. apply in_or_app. auto.
      * destruct (IH _ _ _ _ NB H) as (N1 & C & R). split; auto. split.
        -- intros b k Hb. destruct (C b k Hb) as [C1 C2]. split; auto.
           intros [E|I]; [|auto]. inversion E; subst. congruence.
        -- intros y [I|[E|I]]; try discriminate; apply R; auto.
Qed.

Definition mix (s1 s' : store) : store := fun v => if is_progb v then s1 v else s' v.
Lemma mix_prog s1 s' x : is_prog x -> mix s1 s' x = s1 x.
Proof. intros P. unfold mix. apply is_progb_spec in P. rewrite P. auto. Qed.
Lemma mix_nonprog s1 s' x : ~ is_prog x -> mix s1 s' x = s' x.
Proof.
  intros P. unfold mix. destruct (is_progb x) eqn:E; auto. apply is_progb_spec in E. tauto.
Qed.

Lemma s_forget_sound vs st s mu s1 mu1 : G st (s, mu) ->
  (forall x, ~ In (VS x) vs -> s1 x = s x) ->
  (forall a i, ~ In (VA a) vs -> mu1 a i = mu a i) ->
  G (s_forget vs st) (s1, mu1).
Proof.
  intros HG HS HM. pose proof HG as (L & S & (s' & Gs & A) & C).
  unfold s_forget. destruct (forget_scan vs (a_la st) []) as [l' rm] eqn:E.
  destruct (forget_scan_spec vs _ _ _ _ L E) as (N1 & CC & R).
  apply (G_step st s mu l' _ s1 mu1 (fun s0 => mix s1 s0)); auto.
  - intros a k H. apply S. apply CC in H. tauto.
  - intros s0 G0 A0. split.
    + eapply d_forget_sound; eauto. intros k NI.
      destruct (is_progb k) eqn:P.
      * apply is_progb_spec in P. rewrite mix_prog by auto. rewrite HS, A0; auto.
      * apply mix_nonprog. intros Q. apply is_progb_spec in Q. congruence.
    + intros x P. apply mix_prog; auto.
  - intros a k i v La O M. destruct (CC a k La) as [La0 NI]. rewrite HM in M by auto.
    exists (upd s' (ghost a) v). split; [|split].
    + eapply G_cell_store; eauto.
    + apply agree_upd_nonprog; auto. apply ghost_not_prog.
    + rewrite mix_nonprog by apply ghost_not_prog. apply upd_same.
Qed.

Lemma s_forget1_sound v st s mu s1 mu1 : G st (s, mu) -> avar_prog v ->
  (forall x, VS x <> v -> s1 x = s x) ->
  (forall a i, VA a <> v -> mu1 a i = mu a i) ->
  G (s_forget1 v st) (s1, mu1).
Proof.
  intros HG P HS HM. pose proof HG as (L & S & (s' & Gs & A) & C). destruct v as [x|a]; simpl.
  - apply (G_step st s mu (a_la st) _ s1 mu1 (fun s0 => upd s0 x (s1 x))); auto.
    + intros s0 G0 A0. split; [apply e_forget_sound; auto|].
      intros y Py. destruct (N.eq_dec y x) as [->|N]; [apply upd_same|].
      rewrite upd_other by auto. rewrite A0, HS; auto. congruence.
    + intros a k i v La O M. rewrite HM in M by discriminate.
      exists (upd s' (ghost a) v). split; [|split].
      * eapply G_cell_store; eauto.
      * apply agree_upd_nonprog; auto. apply ghost_not_prog.
      * rewrite upd_other by (apply not_eq_sym; apply prog_not_ghost; auto). apply upd_same.
  - assert (S1 : agree s1 s). { intros y Py. apply HS. discriminate. }
    destruct (la_at (a_la st) a) as [|ka|] eqn:La.
    + exfalso. destruct (a_la st); simpl in La; try congruence. destruct (lget m a); discriminate.
    + apply (G_step st s mu _ _ s1 mu1 (fun s0 => mix s1 s0)); auto.
      * apply la_forget_not_bot; auto.
      * intros b k H. rewrite la_at_forget in H by auto. destruct (N.eqb a b); [discriminate|auto].
      * intros s0 G0 A0. split; [|intros y Py; apply mix_prog; auto].
        apply (genv_ext _ s0); [|apply e_forget_keep; auto].
        intros k. destruct (is_progb k) eqn:Pk.
        -- apply is_progb_spec in Pk. rewrite mix_prog by auto. rewrite S1, A0; auto.
        -- symmetry. apply mix_nonprog. intros Q. apply is_progb_spec in Q. congruence.
      * intros b k i v Lb O M. rewrite la_at_forget in Lb by auto.
        destruct (N.eqb_spec a b); [discriminate|]. rewrite HM in M by congruence.
        exists (upd s' (ghost b) v). split; [|split].
        -- eapply G_cell_store; eauto.
        -- apply agree_upd_nonprog; auto. apply ghost_not_prog.
        -- rewrite mix_nonprog by apply ghost_not_prog. apply upd_same.
    + (* unknown size: nothing is known about the array *)
      replace st with (mkA (a_la st) (a_base st)) by (destruct st; auto).
      apply (G_step st s mu _ _ s1 mu1 (fun s0 => mix s1 s0)); auto.
      * intros s0 G0 A0. split; [|intros y Py; apply mix_prog; auto].
        apply (genv_ext _ s0); auto.
        intros k. destruct (is_progb k) eqn:Pk.
        -- apply is_progb_spec in Pk. rewrite mix_prog by auto. rewrite S1, A0; auto.
        -- symmetry. apply mix_nonprog. intros Q. apply is_progb_spec in Q. congruence.
      * intros b k i v Lb O M. destruct (N.eq_dec a b) as [->|N]; [congruence|].
        rewrite HM in M by congruence.
        exists (upd s' (ghost b) v). split; [|split].
        -- eapply G_cell_store; eauto.
        -- apply agree_upd_nonprog; auto. apply ghost_not_prog.
        -- rewrite mix_nonprog by apply ghost_not_prog. apply upd_same.
Qed.

Lemma project_scan_spec vs l : forall kv ka kv' ka', project_scan vs l kv ka = (kv', ka') ->
  (forall x, In x kv' -> In x kv \/ In (VS x) vs \/ exists a, x = ghost a /\ In (VA a) vs) /\
  (forall a, In a ka' -> In a ka \/ In (VA a) vs).
Proof.
  induction vs as [|v r IH]; simpl; intros kv ka kv' ka' H.
  - inversion H; subst. split; auto.
  - destruct v as [x|a].
    + destruct (IH _ _ _ _ H) as [P1 P2]. split.
      * intros y I. destruct (P1 y I) as [J|[J|(b & E & J)]].
        -- apply in_app_or in J. destruct J as [J|[J|[]]]; auto. subst. auto.
        -- auto.
        -- right. right. exists b. auto.
      * intros b I. destruct (P2 b I); auto.
    + destruct (la_at l a).
      * destruct (IH _ _ _ _ H) as [P1 P2]. split.
        -- intros y I. destruct (P1 y I) as [J|[J|(b & E & J)]]; auto.
           right. right. exists b. auto.
        -- intros b I. destruct (P2 b I); auto.
      * destruct (IH _ _ _ _ H) as [P1 P2]. split.
        -- intros y I. destruct (P1 y I) as [J|[J|(b & E & J)]]; auto.
           ++ apply in_app_or in J. destruct J as [J|[J|[]]]; auto. subst. right. right. exists a. auto.
           ++ right. right. exists b. auto.
        -- intros b I. destruct (P2 b I) as [J|J]; auto.
           apply in_app_or in J. destruct J as [J|[J|[]]]; auto. subst. auto.
      * destruct (IH _ _ _ _ H) as [P1 P2]. split.
        -- intros y I. destruct (P1 y I) as [J|[J|(b & E & J)]]; auto.
           right. right. exists b. auto.
        -- intros b I. destruct (P2 b I); auto.
Qed.

Lemma lget_filter_key (g : arr -> bool) m a k :
  lget (filter (fun p => g (fst p)) m) a = Some k -> lget m a = Some k /\ g a = true.
Proof.
  induction m as [|[b kb] r IH]; simpl; [discriminate|]. destruct (g b) eqn:Gb; simpl.
  - destruct (N.eqb_spec b a); [subst; intros H; split; auto|auto].
  - intros H. destruct (IH H) as [H1 H2]. destruct (N.eqb_spec b a); [congruence|auto].
Qed.

Lemma la_project_const l keep a k : la_at (la_project l keep) a = BConst k ->
  la_at l a = BConst k /\ In a keep.
Proof.
  destruct l as [|m]; simpl; [discriminate|].
  destruct (lget (filter (fun p => existsb (N.eqb (fst p)) keep) m) a) as [k'|] eqn:E; [|discriminate].
  intros H. inversion H; subst.
  apply (lget_filter_key (fun b => existsb (N.eqb b) keep)) in E. destruct E as [E F].
  rewrite E. split; auto.
  apply existsb_exists in F. destruct F as (b & Ib & Eb). apply N.eqb_eq in Eb. subst b. auto.
Qed.

Lemma s_project_sound vs st s mu s1 mu1 : G st (s, mu) ->
  (forall v, In v vs -> avar_prog v) ->
  (forall x, In (VS x) vs -> s1 x = s x) ->
  (forall a i, In (VA a) vs -> mu1 a i = mu a i) ->
  G (s_project vs st) (s1, mu1).
Proof.
  intros HG PV HS HM. pose proof HG as (L & S & (s' & Gs & A) & C).
  unfold s_project. destruct (project_scan vs (a_la st) [] []) as [kv ka] eqn:E.
  destruct (project_scan_spec vs _ _ _ _ _ E) as [P1 P2].
  assert (NB : la_project (a_la st) ka <> LBot).
  { destruct (a_la st); simpl; congruence. }
  apply (G_step st s mu _ _ s1 mu1 (fun s0 => mix s1 s0)); auto.
  - intros a k H. apply la_project_const in H. apply S. tauto.
  - intros s0 G0 A0. split; [|intros x P; apply mix_prog; auto].
    eapply e_project_sound; eauto. intros k I.
    destruct (P1 k I) as [[]|[J|(b & Eb & J)]].
    + assert (Pk : is_prog k) by (apply (PV _ J)).
      rewrite mix_prog by auto. rewrite HS, A0; auto.
    + subst k. apply mix_nonprog. apply ghost_not_prog.
  - intros a k i v La O M. apply la_project_const in La. destruct La as [La I].
    destruct (P2 a I) as [[]|J]. rewrite HM in M by auto.
    exists (upd s' (ghost a) v). split; [|split].
    + eapply G_cell_store; eauto.
    + apply agree_upd_nonprog; auto. apply ghost_not_prog.
    + rewrite mix_nonprog by apply ghost_not_prog. apply upd_same.
Qed.

(* ---- expand ---- *)
Lemma s_expand_scalar_sound x y st s mu : G st (s, mu) -> is_prog x -> is_prog y ->
  G (s_expand (VS x) (VS y) st) (upd s y (s x), mu).
Proof.
  intros HG Px Py. simpl.
  apply (G_base_op st s mu _ _ (fun s0 => upd s0 y (s0 x))); auto.
  - intros s0 G0 A0. split.
    + apply d_expand_sound; auto. exists s0. auto.
    + rewrite (A0 x Px). apply agree_upd; auto.
  - intros s0 a. apply upd_other. apply not_eq_sym. apply prog_not_ghost; auto.
Qed.

Lemma s_expand_array_sound a b st s mu mu1 : G st (s, mu) -> same_layout b a ->
  (forall k, la_at (a_la st) b <> BConst k) ->
  same_mem_but b mu1 mu -> (forall i, mu1 b i = mu a i) ->
  G (s_expand (VA a) (VA b) st) (s, mu1).
Proof.
  intros HG [SZ LO] FR HM HB. pose proof HG as (L & S & (s' & Gs & A) & C). simpl.
  destruct (la_at (a_la st) a) as [|ka|] eqn:La.
  - exfalso. destruct (a_la st); simpl in La; try congruence. destruct (lget m a); discriminate.
  - apply (G_step st s mu _ _ s mu1 (fun s0 => upd s0 (ghost b) (s0 (ghost a)))); auto.
    + apply la_set_not_bot; auto.
    + intros c k H. rewrite la_at_set in H by auto. destruct (N.eqb_spec b c); [|auto].
      inversion H; subst. rewrite SZ. apply (S a); auto.
    + intros s0 G0 A0. split.
      * apply d_expand_sound; auto. exists s0. auto.
      * apply agree_upd_nonprog; auto. apply ghost_not_prog.
    + intros c k i v Lc O M. rewrite la_at_set in Lc by auto. destruct (N.eqb_spec b c).
      * subst c. rewrite HB in M. exists (upd s' (ghost a) v). split; [|split].
        -- eapply G_cell_store; eauto.
        -- apply agree_upd_nonprog; auto. apply ghost_not_prog.
        -- rewrite upd_same. apply upd_same.
      * rewrite HM in M by auto. exists (upd s' (ghost c) v). split; [|split].
        -- eapply G_cell_store; eauto.
        -- apply agree_upd_nonprog; auto. apply ghost_not_prog.
        -- rewrite upd_other by (intros X; apply ghost_inj in X; congruence). apply upd_same.
  - (* unknown size: the code does nothing; nothing is claimed about b because the new
       variable of expand is fresh (hypothesis FR: documented use "make a NEW copy") *)
    replace st with (mkA (a_la st) (a_base st)) by (destruct st; auto).
    apply (G_step st s mu _ _ s mu1 (fun s0 => s0)); auto.
    intros c k i v Lc O M. destruct (N.eq_dec c b) as [->|N].
    + exfalso. cbn [a_la] in Lc. eapply FR; eauto.
    + rewrite HM in M by auto. exists (upd s' (ghost c) v). split; [|split].
      * eapply G_cell_store; eauto.
      * apply agree_upd_nonprog; auto. apply ghost_not_prog.
      * apply upd_same.
Qed.

(* ---- array operations ---- *)
Lemma G_intro l' b' s1 mu1 :
  l' <> LBot ->
  (forall a k, la_at l' a = BConst k -> k = esz a) ->
  (exists w, genv b' w /\ agree w s1) ->
  (forall a k i v, la_at l' a = BConst k -> cell_ok a i -> mu1 a i = Some v ->
                   exists w, genv b' w /\ w (ghost a) = v) ->
  G (mkA l' b') (s1, mu1).
Proof.
  intros L S W C. split; auto. split; auto. split; auto.
  intros a k i v La O M. cbn [a_la a_base snd] in *.
  destruct (C a k i v La O M) as (w & Gw & E). rewrite <- E. apply e_at_sound; auto.
Qed.

Lemma eval_le_var g s : eval_le (le_var g) s = s g.
Proof. unfold eval_le, le_var. cbn [eval_terms le_terms le_cst]. lia. Qed.

Lemma la_at_bbot_inv l a : la_at l a = BBot -> l = LBot.
Proof. destruct l as [|m]; auto. simpl. destruct (lget m a); discriminate. Qed.

(* ---- rename of one variable ---- *)
Lemma e_rename_one_sound e x y s h : genv e s -> is_top (e_at e y) = true ->
  genv (e_rename e [x] [y]) (rename_store s [(x, y)] [h]).
Proof.
  intros G T. apply (e_rename_sound e [x] [y] s [h]); auto.
  - repeat constructor. simpl. tauto.
  - intros k [<-|[]]. auto.
Qed.

Lemma rename_store_one s x y h k :
  rename_store s [(x, y)] [h] k =
  if N.eqb x y then s k else if N.eqb k x then h else if N.eqb k y then s x else s k.
Proof.
  cbn [rename_store hd tl]. destruct (N.eqb_spec x y); auto.
Qed.

Lemma s_rename_scalar_sound x y st s mu h : G st (s, mu) -> is_prog x -> is_prog y ->
  is_top (e_at (a_base st) y) = true ->
  G (s_rename [VS x] [VS y] st) (rename_store s [(x, y)] [h], mu).
Proof.
  intros HG Px Py T. unfold s_rename. cbn [combine rename_scan app].
  apply (G_base_op st s mu _ _ (fun s0 => rename_store s0 [(x, y)] [h])); auto.
  - intros s0 G0 A0. split; [apply e_rename_one_sound; auto|].
    intros k Pk. rewrite !rename_store_one. destruct (N.eqb x y); [apply A0; auto|].
    destruct (N.eqb k x); auto. destruct (N.eqb k y); apply A0; auto.
  - intros s0 a. rewrite rename_store_one. destruct (N.eqb x y); auto.
    destruct (N.eqb_spec (ghost a) x) as [E1|_]; [exfalso; apply (prog_not_ghost x a Px); auto|].
    destruct (N.eqb_spec (ghost a) y) as [E2|_]; [exfalso; apply (prog_not_ghost y a Py); auto|]. auto.
Qed.

Lemma s_rename_array_sound a b st s mu mu1 : G st (s, mu) -> same_layout b a ->
  (forall k, la_at (a_la st) b <> BConst k) -> is_top (e_at (a_base st) (ghost b)) = true ->
  (forall c i, c <> a -> c <> b -> mu1 c i = mu c i) -> (forall i, mu1 b i = mu a i) ->
  G (s_rename [VA a] [VA b] st) (s, mu1).
Proof.
  intros HG [SZ LO] FR T HM HB. pose proof HG as (L & S & (s' & Gs & A) & C).
  unfold s_rename. cbn [combine rename_scan].
  destruct (la_at (a_la st) a) as [|ka|] eqn:La.
  - apply la_at_bbot_inv in La. congruence.
  - cbn [rename_scan app].
    assert (AG : forall w h, agree w s -> agree (rename_store w [(ghost a, ghost b)] [h]) s).
    { intros w h Aw k Pk. rewrite rename_store_one. destruct (N.eqb (ghost a) (ghost b)); [apply Aw; auto|].
      destruct (N.eqb_spec k (ghost a)) as [E1|_]; [exfalso; subst; apply (ghost_not_prog a Pk)|].
      destruct (N.eqb_spec k (ghost b)) as [E2|_]; [exfalso; subst; apply (ghost_not_prog b Pk)|].
      apply Aw; auto. }
    apply G_intro.
    + apply la_set_not_bot; auto.
    + intros c k H. rewrite la_at_set in H by auto. destruct (N.eqb_spec b c); [|auto].
      inversion H; subst. rewrite SZ. apply (S a); auto.
    + exists (rename_store s' [(ghost a, ghost b)] [0]). split; [apply e_rename_one_sound; auto|].
      apply AG; auto.
    + intros c k i v Lc O M. rewrite la_at_set in Lc by auto. destruct (N.eqb_spec b c) as [E|NE].
      * (* the new array: its cells are those of a *)
        subst c. rewrite HB in M.
        exists (rename_store (upd s' (ghost a) v) [(ghost a, ghost b)] [v]). split.
        -- apply e_rename_one_sound; auto. eapply G_cell_store; eauto.
        -- rewrite rename_store_one. destruct (N.eqb_spec (ghost a) (ghost b)) as [E1|NE1].
           ++ rewrite <- E1. apply upd_same.
           ++ destruct (N.eqb_spec (ghost b) (ghost a)) as [E2|_]; [congruence|].
              rewrite N.eqb_refl. apply upd_same.
      * destruct (N.eq_dec c a) as [->|NA].
        -- (* the old name: arbitrary contents, its ghost has been renamed away *)
           exists (rename_store s' [(ghost a, ghost b)] [v]). split; [apply e_rename_one_sound; auto|].
           rewrite rename_store_one.
           destruct (N.eqb_spec (ghost a) (ghost b)) as [E|_]; [apply ghost_inj in E; congruence|].
           rewrite N.eqb_refl. auto.
        -- rewrite HM in M by auto.
           exists (rename_store (upd s' (ghost c) v) [(ghost a, ghost b)] [0]). split.
           ++ apply e_rename_one_sound; auto. eapply G_cell_store; eauto.
           ++ rewrite rename_store_one. destruct (N.eqb (ghost a) (ghost b)); [apply upd_same|].
              destruct (N.eqb_spec (ghost c) (ghost a)) as [E1|_]; [apply ghost_inj in E1; congruence|].
              destruct (N.eqb_spec (ghost c) (ghost b)) as [E2|_]; [apply ghost_inj in E2; congruence|].
              apply upd_same.
  - (* unknown size: the code does nothing *)
    cbn [rename_scan].
    assert (ER : e_rename (a_base st) [] [] = a_base st).
    { unfold e_rename. destruct (a_base st) as [|m]; auto. simpl. destruct (forallb _ _); auto. }
    rewrite ER. apply G_intro; auto.
    + exists s'. auto.
    + intros c k i v Lc O M. destruct (N.eq_dec c b) as [->|NB]; [exfalso; eapply FR; eauto|].
      destruct (N.eq_dec c a) as [->|NA]; [congruence|].
      rewrite HM in M by auto. exists (upd s' (ghost c) v). split; [|apply upd_same].
      eapply G_cell_store; eauto.
Qed.

Lemma s_array_init_sound a e val st st' s mu mu1 : G st (s, mu) -> le_prog e -> le_prog val ->
  eval_le e s = esz a -> s_array_init a e val st = Some st' ->
  same_mem_but a mu1 mu -> (forall i v, mu1 a i = Some v -> v = eval_le val s) ->
  G st' (s, mu1).
Proof.
  intros HG Pe Pv SZ H HM HA. pose proof HG as (L & S & (s' & Gs & A) & C).
  unfold s_array_init in H. destruct (check_elem_size e (a_base st)) as [k|] eqn:CK; [|discriminate].
  inversion H; subst st'. clear H.
  pose proof (check_elem_size_sound _ _ _ _ _ HG Pe CK) as EK.
  apply (G_step st s mu _ _ s mu1 (fun s0 => upd s0 (ghost a) (eval_le val s0))); auto.
  - apply la_set_not_bot; auto.
  - intros c kc H. rewrite la_at_set in H by auto. destruct (N.eqb_spec a c); [|auto].
    inversion H; subst. congruence.
  - intros s0 G0 A0. split; [apply d_assign_sound; auto|].
    apply agree_upd_nonprog; auto. apply ghost_not_prog.
  - intros c kc i v Lc O M. rewrite la_at_set in Lc by auto. destruct (N.eqb_spec a c).
    + subst c. exists s'. split; auto. split; auto. rewrite upd_same.
      rewrite (eval_le_agree val s' s) by auto. symmetry. eapply HA; eauto.
    + rewrite HM in M by auto. exists (upd s' (ghost c) v). split; [|split].
      * eapply G_cell_store; eauto.
      * apply agree_upd_nonprog; auto. apply ghost_not_prog.
      * rewrite upd_other by (intros X; apply ghost_inj in X; congruence). apply upd_same.
Qed.

Lemma s_array_load_sound lhs a e st st' s mu i v : G st (s, mu) -> is_prog lhs -> le_prog e ->
  eval_le e s = esz a -> cell_ok a i -> mu a i = Some v ->
  s_array_load lhs a e st = Some st' -> G st' (upd s lhs v, mu).
Proof.
  intros HG Pl Pe SZ O M H. pose proof HG as (L & S & (s' & Gs & A) & C).
  unfold s_array_load in H. destruct (check_elem_size e (a_base st)) as [k|] eqn:CK; [|discriminate].
  destruct (equal_size (a_la st) a k) eqn:EQ; inversion H; subst st'; clear H.
  - apply equal_size_spec in EQ.
    assert (CV : gamma (e_at (a_base st) (ghost a)) v) by (eapply (C a k i v); eauto).
    apply (G_step st s mu _ _ (upd s lhs v) mu
             (fun s0 => upd (upd (upd s0 (gcopy a) v) lhs v) (gcopy a) (s0 (gcopy a)))); auto.
    + intros s0 G0 A0. split.
      * apply e_forget_sound.
        assert (G1 : genv (d_expand (ghost a) (gcopy a) (a_base st)) (upd s0 (gcopy a) v)).
        { apply d_expand_sound; auto. exists (upd s0 (ghost a) v). split; [apply genv_upd; auto|].
          split; [intros k0 N; apply upd_other; auto|rewrite upd_same; auto]. }
        pose proof (d_assign_sound lhs (le_var (gcopy a)) _ _ G1) as G2.
        rewrite eval_le_var, upd_same in G2. exact G2.
      * intros x Px. rewrite upd_other by (apply prog_not_gcopy; auto).
        destruct (N.eq_dec x lhs) as [->|N]; [rewrite !upd_same; auto|].
        rewrite (upd_other _ lhs) by auto. rewrite (upd_other s lhs) by auto.
        rewrite upd_other by (apply prog_not_gcopy; auto). apply A0; auto.
    + intros c kc i' v' Lc O' M'. exists (upd s' (ghost c) v'). split; [|split].
      * eapply G_cell_store; eauto.
      * apply agree_upd_nonprog; auto. apply ghost_not_prog.
      * rewrite upd_other by apply ghost_not_gcopy.
        rewrite upd_other by (apply not_eq_sym; apply prog_not_ghost; auto).
        rewrite upd_other by apply ghost_not_gcopy. apply upd_same.
  - apply (G_step st s mu _ _ (upd s lhs v) mu (fun s0 => upd s0 lhs v)); auto.
    + intros s0 G0 A0. split; [apply e_forget_sound; auto|apply agree_upd; auto].
    + intros c kc i' v' Lc O' M'. exists (upd s' (ghost c) v'). split; [|split].
      * eapply G_cell_store; eauto.
      * apply agree_upd_nonprog; auto. apply ghost_not_prog.
      * rewrite upd_other by (apply not_eq_sym; apply prog_not_ghost; auto). apply upd_same.
Qed.

(* a weak update of the ghost of [a]: the cells of the other arrays and the old cells of [a]
   are kept, the new value is added *)
Lemma weak_update_sound a val st s mu mu1 k : G st (s, mu) -> le_prog val ->
  la_at (a_la st) a = BConst k ->
  same_mem_but a mu1 mu -> (forall i, mu1 a i = mu a i \/ mu1 a i = Some (eval_le val s)) ->
  G (mkA (a_la st) (d_weak_assign (ghost a) val (a_base st))) (s, mu1).
Proof.
  intros HG Pv La HM HA. pose proof HG as (L & S & (s' & Gs & A) & C).
  apply G_intro; auto.
  - exists s'. split; auto. apply d_weak_assign_sound; auto.
  - intros c kc i v Lc O M. destruct (N.eq_dec c a) as [->|N].
    + destruct (HA i) as [E|E]; rewrite E in M.
      * exists (upd s' (ghost a) v). split; [|apply upd_same].
        apply d_weak_assign_sound. eapply G_cell_store; eauto.
      * inversion M; subst v. exists (upd s' (ghost a) (eval_le val s')). split.
        -- apply d_weak_assign_sound; auto.
        -- rewrite upd_same. apply eval_le_agree; auto.
    + rewrite HM in M by auto. exists (upd s' (ghost c) v). split; [|apply upd_same].
      apply d_weak_assign_sound. eapply G_cell_store; eauto.
Qed.

(* a store that the domain ignores because the size of the array is unknown *)
Lemma ignored_update_sound a st s mu mu1 : G st (s, mu) ->
  (forall k, la_at (a_la st) a <> BConst k) -> same_mem_but a mu1 mu ->
  G (mkA (a_la st) (a_base st)) (s, mu1).
Proof.
  intros HG NC HM. pose proof HG as (L & S & (s' & Gs & A) & C).
  apply G_intro; auto.
  - exists s'. auto.
  - intros c kc i v Lc O M. destruct (N.eq_dec c a) as [->|N]; [exfalso; eapply NC; eauto|].
    rewrite HM in M by auto. exists (upd s' (ghost c) v). split; [|apply upd_same].
    eapply G_cell_store; eauto.
Qed.

Lemma s_array_store_sound a e idx val strong st st' s mu mu1 : G st (s, mu) ->
  le_prog e -> le_prog val -> eval_le e s = esz a ->
  (strong = true -> onecell a = Some idx) ->
  same_mem_but a mu1 mu ->
  (forall i, mu1 a i = if i =? idx then Some (eval_le val s) else mu a i) ->
  s_array_store a e val strong st = Some st' -> G st' (s, mu1).
Proof.
  intros HG Pe Pv SZ ST HM HA H. pose proof HG as (L & S & (s' & Gs & A) & C).
  unfold s_array_store in H. destruct (check_elem_size e (a_base st)) as [k|] eqn:CK; [|discriminate].
  pose proof (check_elem_size_sound _ _ _ _ _ HG Pe CK) as EK.
  destruct strong.
  - assert (EQ : equal_size (la_set (a_la st) a k) a k = true).
    { apply equal_size_spec. rewrite la_at_set by auto. rewrite N.eqb_refl. auto. }
    rewrite EQ in H. inversion H; subst st'; clear H.
    specialize (ST eq_refl).
    apply (G_step st s mu _ _ s mu1 (fun s0 => upd s0 (ghost a) (eval_le val s0))); auto.
    + apply la_set_not_bot; auto.
    + intros c kc Hc. rewrite la_at_set in Hc by auto. destruct (N.eqb_spec a c); [|auto].
      inversion Hc; subst. congruence.
    + intros s0 G0 A0. split; [apply d_assign_sound; auto|].
      apply agree_upd_nonprog; auto. apply ghost_not_prog.
    + intros c kc i v Lc O M. rewrite la_at_set in Lc by auto. destruct (N.eqb_spec a c).
      * subst c. unfold cell_ok in O. rewrite ST in O. subst i. rewrite HA, Z.eqb_refl in M.
        inversion M; subst v. exists s'. split; auto. split; auto. rewrite upd_same.
        apply eval_le_agree; auto.
      * rewrite HM in M by auto. exists (upd s' (ghost c) v). split; [|split].
        -- eapply G_cell_store; eauto.
        -- apply agree_upd_nonprog; auto. apply ghost_not_prog.
        -- rewrite upd_other by (intros X; apply ghost_inj in X; congruence). apply upd_same.
  - destruct (equal_size (a_la st) a k) eqn:EQ; inversion H; subst st'; clear H.
    + apply equal_size_spec in EQ. eapply weak_update_sound; eauto.
      intros i. rewrite HA. destruct (i =? idx); auto.
    + eapply ignored_update_sound; eauto. intros k' Hk.
      assert (k' = k) by (rewrite (S a k' Hk); congruence). subst k'.
      apply equal_size_spec in Hk. congruence.
Qed.

Lemma s_array_store_range_sound a e val st st' s mu mu1 : G st (s, mu) ->
  le_prog e -> le_prog val -> eval_le e s = esz a ->
  same_mem_but a mu1 mu -> (forall i, mu1 a i = mu a i \/ mu1 a i = Some (eval_le val s)) ->
  s_array_store_range a e val st = Some st' -> G st' (s, mu1).
Proof.
  intros HG Pe Pv SZ HM HA H. pose proof HG as (L & S & _).
  unfold s_array_store_range in H. destruct (check_elem_size e (a_base st)) as [k|] eqn:CK; [|discriminate].
  pose proof (check_elem_size_sound _ _ _ _ _ HG Pe CK) as EK.
  destruct (equal_size (a_la st) a k) eqn:EQ; inversion H; subst st'; clear H.
  - apply equal_size_spec in EQ. eapply weak_update_sound; eauto.
  - replace st with (mkA (a_la st) (a_base st)) by (destruct st; auto).
    eapply ignored_update_sound; eauto. intros k' Hk.
    assert (k' = k) by (rewrite (S a k' Hk); congruence). subst k'.
    apply equal_size_spec in Hk. congruence.
Qed.

Lemma s_array_assign_sound lhs rhs st s mu mu1 : G st (s, mu) -> same_layout lhs rhs ->
  same_mem_but lhs mu1 mu -> (forall i, mu1 lhs i = mu rhs i) ->
  G (s_array_assign lhs rhs st) (s, mu1).
Proof.
  intros HG [SZ LO] HM HL. pose proof HG as (L & S & (s' & Gs & A) & C).
  unfold s_array_assign. destruct (la_at (a_la st) rhs) as [|k|] eqn:La.
  - apply la_at_bbot_inv in La. congruence.
  - apply (G_step st s mu _ _ s mu1 (fun s0 => upd s0 (ghost lhs) (s0 (ghost rhs)))); auto.
    + apply la_set_not_bot; auto.
    + intros c kc H. rewrite la_at_set in H by auto. destruct (N.eqb_spec lhs c); [|auto].
      inversion H; subst. rewrite SZ. apply (S rhs); auto.
    + intros s0 G0 A0. split.
      * pose proof (d_assign_sound (ghost lhs) (le_var (ghost rhs)) _ _ G0) as G1.
        rewrite eval_le_var in G1. exact G1.
      * apply agree_upd_nonprog; auto. apply ghost_not_prog.
    + intros c kc i v Lc O M. rewrite la_at_set in Lc by auto. destruct (N.eqb_spec lhs c).
      * subst c. rewrite HL in M. exists (upd s' (ghost rhs) v). split; [|split].
        -- eapply G_cell_store; eauto.
        -- apply agree_upd_nonprog; auto. apply ghost_not_prog.
        -- rewrite upd_same. apply upd_same.
      * rewrite HM in M by auto. exists (upd s' (ghost c) v). split; [|split].
        -- eapply G_cell_store; eauto.
        -- apply agree_upd_nonprog; auto. apply ghost_not_prog.
        -- rewrite upd_other by (intros X; apply ghost_inj in X; congruence). apply upd_same.
  - apply (s_forget1_sound (VA lhs) st s mu); simpl; auto.
    intros a i N. apply HM. congruence.
Qed.

(* ---- lattice operations ---- *)
Lemma G_union (op : env -> env -> env) X Y c :
  (forall a b s, genv a s \/ genv b s -> genv (op a b) s) ->
  G X c \/ G Y c ->
  G (mkA (la_join (a_la X) (a_la Y)) (op (a_base X) (a_base Y))) c.
Proof.
  intros OP H. destruct c as [s mu]. destruct H as [HG|HG]; pose proof HG as (L & S & (s' & Gs & A) & C).
  - apply G_intro.
    + apply la_join_not_bot_l; auto.
    + intros a k H. apply S. eapply la_join_const_l; eauto.
    + exists s'. split; auto.
    + intros a k i v La O M. apply la_join_const_l in La; auto.
      exists (upd s' (ghost a) v). split; [|apply upd_same]. apply OP. left. eapply G_cell_store; eauto.
  - apply G_intro.
    + apply la_join_not_bot_r; auto.
    + intros a k H. apply S. eapply la_join_const_r; eauto.
    + exists s'. split; auto.
    + intros a k i v La O M. apply la_join_const_r in La; auto.
      exists (upd s' (ghost a) v). split; [|apply upd_same]. apply OP. right. eapply G_cell_store; eauto.
Qed.

Lemma s_join_sound X Y c : G X c \/ G Y c -> G (s_join X Y) c.
Proof. apply G_union. apply e_join_sound. Qed.
Lemma s_widen_sound X Y c : G X c \/ G Y c -> G (s_widen X Y) c.
Proof. apply G_union. apply e_widen_sound. Qed.
Lemma s_widen_thr_sound ths X Y c : G X c \/ G Y c -> G (s_widen_thr ths X Y) c.
Proof.
  apply G_union. intros a b s. apply e_widen_thr_sound.
  - intros v. apply thr_prev_le. apply mk_thresholds_wf.
  - intros v. apply thr_next_ge. apply mk_thresholds_wf.
Qed.

(* ---- one step of a history ---- *)
Lemma G_pair st c : G st (fst c, snd c) -> G st c.
Proof. destruct c; auto. Qed.

Theorem astep_sound rs cs o rs' :
  rel rs cs -> hop_ok rs o -> astep rs o = Some rs' -> rel rs' (cstep cs o).
Proof.
  intros R OK H. pose proof R as [L RR].
  destruct o; cbn [astep cstep hop_ok] in *.
  - inversion H; subst. apply rel_set; auto. intros c _. apply G_top.
  - inversion H; subst. apply rel_set; auto. intros c [].
  - inversion H; subst. apply rel_set; auto.
  - (* assign *)
    inversion H; subst. apply rel_set; auto. intros c (s & mu & C & E1 & E2). destruct OK.
    apply G_pair. rewrite E1. apply (G_mem_ext _ _ mu); auto. apply s_assign_sound; auto.
  - inversion H; subst. apply rel_set; auto. intros c (s & mu & v & C & AS & E1 & E2).
    destruct OK as (? & ? & ?).
    apply G_pair. rewrite E1. apply (G_mem_ext _ _ mu); auto. apply s_arith_sound; auto.
  - inversion H; subst. apply rel_set; auto. intros [s mu] [C S]. apply s_assume_sound; auto.
  - (* forget *)
    inversion H; subst. apply rel_set; auto. intros [s1 mu1] (s & mu & C & E1 & E2).
    apply (s_forget_sound vs (aget rs r) s mu s1 mu1); auto.
  - inversion H; subst. apply rel_set; auto. intros [s1 mu1] (s & mu & C & E1 & E2).
    apply (s_forget1_sound v (aget rs r) s mu s1 mu1); auto.
  - inversion H; subst. apply rel_set; auto. intros [s1 mu1] (s & mu & C & E1 & E2).
    apply (s_project_sound vs (aget rs r) s mu s1 mu1); auto.
  - (* expand *)
    destruct v as [x|a], nv as [y|b]; cbn [s_expand cstep hop_ok] in *; inversion H; subst; clear H.
    + apply rel_set; auto. intros c (s & mu & C & E1 & E2). destruct OK.
      apply G_pair. rewrite E1. apply (G_mem_ext _ _ mu); auto. apply s_expand_scalar_sound; auto.
    + apply rel_set; auto. intros c F. destruct F.
    + apply rel_set; auto. intros c F. destruct F.
    + apply rel_set; auto. intros [s1 mu1] (s & mu & C & E1 & E2 & E3). cbn [fst snd] in *. subst s1.
      destruct OK as [LY FR]. apply (s_expand_array_sound a b (aget rs r) s mu mu1); auto.
  - (* rename of one variable *)
    destruct from as [|[x|a] [|? ?]]; try tauto; destruct to as [|[y|b] [|? ?]]; try tauto;
      cbn [cstep hop_ok] in *; inversion H; subst; clear H.
    + apply rel_set; auto. intros c (s & mu & h & C & E1 & E2). destruct OK as (P1 & P2 & P3).
      apply G_pair. rewrite E1. apply (G_mem_ext _ _ mu); auto. apply s_rename_scalar_sound; auto.
    + apply rel_set; auto. intros [s1 mu1] (s & mu & C & E1 & E2 & E3). cbn [fst snd] in *. subst s1.
      destruct OK as (P1 & P2 & P3). apply (s_rename_array_sound a b (aget rs r) s mu mu1); auto.
  - (* array_init *)
    destruct (s_array_init a esz0 val (aget rs r)) as [st'|] eqn:E; inversion H; subst.
    apply rel_set; auto. intros [s1 mu1] (s & mu & C & SZ & E1 & E2 & E3). cbn [fst snd] in *. subst s1.
    destruct OK as [P1 P2]. apply (s_array_init_sound a esz0 val (aget rs r) st' s mu mu1); auto.
  - destruct (s_array_load lhs a esz0 (aget rs r)) as [st'|] eqn:E; inversion H; subst.
    apply rel_set; auto. intros c (s & mu & v & C & SZ & O & M & E1 & E2). destruct OK as (? & ? & ?).
    apply G_pair. rewrite E1. apply (G_mem_ext _ _ mu); auto.
    apply (s_array_load_sound lhs a esz0 (aget rs r) st' s mu (eval_le idx s) v); auto.
  - destruct (s_array_store a esz0 val strong (aget rs r)) as [st'|] eqn:E; inversion H; subst.
    apply rel_set; auto. intros [s1 mu1] (s & mu & C & SZ & ST & E1 & E2 & E3). cbn [fst snd] in *. subst s1.
    destruct OK as (P1 & P2 & P3).
    apply (s_array_store_sound a esz0 (eval_le idx s) val strong (aget rs r) st' s mu mu1); auto.
  - destruct (s_array_store_range a esz0 val (aget rs r)) as [st'|] eqn:E; inversion H; subst.
    apply rel_set; auto. intros [s1 mu1] (s & mu & C & SZ & E1 & E2 & E3). cbn [fst snd] in *. subst s1.
    destruct OK as [P1 P2]. apply (s_array_store_range_sound a esz0 val (aget rs r) st' s mu mu1); auto.
  - inversion H; subst. apply rel_set; auto. intros [s1 mu1] (s & mu & C & E1 & E2 & E3).
    cbn [fst snd] in *. subst s1. apply (s_array_assign_sound lhs rhs (aget rs r) s mu mu1); auto.
  - inversion H; subst. apply rel_set; auto. intros c [C|C]; apply s_join_sound; auto.
  - tauto.
  - inversion H; subst. apply rel_set; auto. intros c [C|C]; apply s_widen_sound; auto.
  - tauto.
  - inversion H; subst. apply rel_set; auto. intros c [C|C]; apply s_widen_thr_sound; auto.
Qed.

(* a history is admissible when each step meets its side condition in the state where it is
   applied *)
Fixpoint hist_ok (rs : list ast) (h : list ahop) : Prop :=
  match h with
  | [] => True
  | o :: r => hop_ok rs o /\ match astep rs o with Some rs' => hist_ok rs' r | None => True end
  end.

Theorem ahistory_sound h : forall rs cs rs',
  rel rs cs -> hist_ok rs h -> arun rs h = Some rs' -> rel rs' (fold_left cstep h cs).
Proof.
  induction h as [|o r IH]; simpl; intros rs cs rs' R OK H.
  - inversion H; subst; auto.
  - destruct OK as [O1 O2]. destruct (astep rs o) as [rs1|] eqn:E; [|discriminate].
    eapply IH; eauto. eapply astep_sound; eauto.
Qed.

Lemma rel_top n : rel (repeat s_top n) (repeat (fun _ => True) n).
Proof.
  split. { rewrite !repeat_length; auto. }
  intros r c _. unfold aget.
  destruct (nth_in_or_default r (repeat s_top n) s_top) as [I|E].
  - apply repeat_spec in I. rewrite I. apply G_top.
  - rewrite E. apply G_top.
Qed.

(* ---- the statements of property C14 for the smashing domain ---- *)

(* every value read from a cell is in the abstract value of the variable receiving the load *)
Theorem aload_value_sound rs cs r lhs a e idx rs' :
  rel rs cs -> hop_ok rs (ALoad r lhs a e idx) ->
  astep rs (ALoad r lhs a e idx) = Some rs' -> (r < length rs)%nat ->
  forall s mu v, cget cs r (s, mu) ->
    eval_le e s = esz a -> cell_ok a (eval_le idx s) -> mu a (eval_le idx s) = Some v ->
    gamma (s_at (aget rs' r) lhs) v.
Proof.
  intros R OK RUN LT s mu v C SZ O M.
  pose proof (astep_sound _ _ _ _ R OK RUN) as [LEN R'].
  destruct R as [L _]. destruct OK as (IS & _).
  specialize (R' r (upd s lhs v, mu)). cbn [cstep] in R'.
  rewrite cget_csetr in R' by lia. rewrite Nat.eqb_refl in R'.
  assert (GG : G (aget rs' r) (upd s lhs v, mu)).
  { apply R'. exists s, mu, v. repeat split; auto. }
  pose proof (G_at _ _ lhs GG IS) as X. cbn [fst] in X. rewrite upd_same in X. exact X.
Qed.

(* array operations never turn a reached state into bottom *)
Theorem areach_not_bottom rs cs r c : rel rs cs -> cget cs r c -> s_is_bottom (aget rs r) = false.
Proof. intros [_ R] C. eapply G_not_bottom; eauto. Qed.

Theorem areach_at_sound rs cs r s mu x : rel rs cs -> cget cs r (s, mu) -> is_prog x ->
  gamma (s_at (aget rs r) x) (s x).
Proof. intros [_ R] C P. apply (G_at _ _ x (R _ _ C) P). Qed.

End Smash.

(* ---- non-vacuity: a history whose hypotheses hold, with a reached concrete state ---- *)
Definition ex_esz : arr -> Z := fun _ => 4.
Definition ex_one : arr -> option Z := fun _ => None.
Definition ex_k (n : Z) : linexp := mkLE [] n.
Definition ex_hist : list ahop :=
  [ AInit 0%nat 0%N (ex_k 4) (ex_k 0) (ex_k 12) (ex_k 5);
    AStore 0%nat 0%N (ex_k 4) (le_var (sv 1)) (ex_k 7) false;
    ALoad 0%nat (sv 0) 0%N (ex_k 4) (ex_k 8) ].

Example ex_hist_ok : hist_ok ex_esz ex_one [s_top] ex_hist.
Proof.
  assert (K : forall n, le_prog (ex_k n)) by (intros n c v []).
  assert (V : le_prog (le_var (sv 1))).
  { intros c v [E|[]]. inversion E; subst. apply sv_prog. }
  cbn [hist_ok ex_hist hop_ok]. repeat split; auto; try apply sv_prog.
  all: vm_compute; auto.
Qed.

Example ex_hist_run :
  exists rs', arun [s_top] ex_hist = Some rs' /\
              s_at (aget rs' 0%nat) (sv 0) = mkI (Fin 5) (Fin 7).
Proof. eexists. split; vm_compute; reflexivity. Qed.

Example ex_hist_reached :
  exists c, cget (fold_left (cstep ex_esz ex_one) ex_hist [fun _ => True]) 0%nat c /\ fst c (sv 0) = 5.
Proof.
  set (s0 := fun _ : var => 0).
  set (mu1 := fun (a : arr) (i : Z) => if N.eqb a 0 then Some 5 else None).
  set (mu2 := fun (a : arr) (i : Z) => if N.eqb a 0 then (if i =? 0 then Some 7 else Some 5) else None).
  exists (upd s0 (sv 0) 5, mu2). split; [|apply upd_same].
  cbn [fold_left ex_hist cstep cget csetr nth].
  exists s0, mu2, 5. repeat split; auto.
  exists s0, mu1. repeat split; auto.
  - exists s0, (fun _ _ => None). repeat split; auto.
    + intros a i N. unfold mu1. cbn [snd]. destruct (N.eqb a 0) eqn:E; auto. apply N.eqb_eq in E. congruence.
    + intros i v H. unfold mu1 in H. cbn in H. inversion H. reflexivity.
  - discriminate.
  - intros a i N. unfold mu1, mu2. cbn [snd]. destruct (N.eqb a 0) eqn:E; auto. apply N.eqb_eq in E. congruence.
Qed.

(* ---- property C14 as a statement about an array domain given by its history machine ---- *)
Record array_domain := mkAD {
  ad_val : Type;
  ad_top : ad_val;
  ad_step : list ad_val -> ahop -> option (list ad_val);
  ad_get : list ad_val -> reg -> ad_val;
  ad_at : ad_val -> var -> itv;
  ad_is_bottom : ad_val -> bool;
  (* side conditions of an operation in a state (canonical expressions over program
     variables, fresh names, operations of the modelled fragment) *)
  ad_ok : (arr -> Z) -> (arr -> option Z) -> list ad_val -> ahop -> Prop }.

Fixpoint ad_run (D : array_domain) (rs : list (ad_val D)) (h : list ahop) : option (list (ad_val D)) :=
  match h with
  | [] => Some rs
  | o :: r => match ad_step D rs o with Some rs' => ad_run D rs' r | None => None end
  end.
Fixpoint ad_hist_ok (D : array_domain) esz onecell (rs : list (ad_val D)) (h : list ahop) : Prop :=
  match h with
  | [] => True
  | o :: r => ad_ok D esz onecell rs o /\
              match ad_step D rs o with Some rs' => ad_hist_ok D esz onecell rs' r | None => True end
  end.

(* For every element-size assignment, every set of one-cell arrays, every number of
   registers and every admissible history started from top: every state reached by the
   concrete operations is described (so the value a load has just read is in at(lhs)), and
   its register is not bottom. *)
Definition C14_statement (D : array_domain) : Prop :=
  forall esz onecell n h rs,
    ad_hist_ok D esz onecell (repeat (ad_top D) n) h ->
    ad_run D (repeat (ad_top D) n) h = Some rs ->
    forall r s mu, cget (fold_left (cstep esz onecell) h (repeat (fun _ => True) n)) r (s, mu) ->
      ad_is_bottom D (ad_get D rs r) = false /\
      forall x, is_prog x -> gamma (ad_at D (ad_get D rs r) x) (s x).

Definition smash_interval : array_domain :=
  mkAD ast s_top astep aget s_at s_is_bottom hop_ok.

Lemma ad_run_smash rs h : ad_run smash_interval rs h = arun rs h.
Proof. revert rs. induction h as [|o r IH]; simpl; auto. intros rs. destruct (astep rs o); auto. Qed.
Lemma ad_hist_ok_smash esz onecell rs h :
  ad_hist_ok smash_interval esz onecell rs h <-> hist_ok esz onecell rs h.
Proof.
  revert rs. induction h as [|o r IH]; simpl; [tauto|]. intros rs.
  destruct (astep rs o) as [rs'|]; [rewrite IH|]; tauto.
Qed.

Theorem smash_interval_C14 : C14_statement smash_interval.
Proof.
  intros esz onecell n h rs OK RUN r s mu C.
  rewrite ad_run_smash in RUN. apply ad_hist_ok_smash in OK.
  pose proof (ahistory_sound esz onecell h _ _ _ (rel_top esz onecell n) OK RUN) as R.
  split.
  - eapply areach_not_bottom; eauto.
  - intros x P. eapply areach_at_sound; eauto.
Qed.
