(* RegionCoreSound.v — property C15 on the region-domain model (Dom/RegionCore.v).

   Concrete semantics: a store (integers, booleans, addresses of references; 0 = null), a heap
   region -> address -> written value, and instrumentation that is a function of the execution:
   for every region the list of (creating variable, address) of the references created for it
   by ref_make / ref_gep, the allocation site of every allocated address, and the tags carried
   by values.  Loads and stores through a reference are only defined when the reference is
   not null and was created for that region by the analysed code (hypothesis "regions are
   allocated inside the analysed code", under which the count-zero strong update of the C++
   is sound); loads are only defined from cells written before (the property's own
   restriction).

   Theorems: after ANY finite history of the modelled operations over several registers
   (region_init, ref_make, ref_free, ref_load, ref_store, ref_gep, region_copy, ref_assume,
   select_ref, add_tag, assign, arithmetic, assume, havoc, join, meet, widening, narrowing,
   copies) every register describes every concrete state produced by the corresponding
   concrete operations: variables (hence loaded values and addresses, hence definite
   null / non-null answers) are inside their intervals, the reference-count abstraction
   describes the references created for each region (so strong updates happen on singletons
   or never-written regions only), reported allocation-site and tag sets contain the actual
   ones. *)
From Coq Require Import ZArith NArith List Bool Lia.
From CrabV Require Import Base.ZInf Scalar.Itv Scalar.ItvSound Scalar.SmallRange Scalar.Boolean
     Ir.Syntax Dom.ItvEnv Dom.ItvEnvSound Dom.ItvSolver Dom.ItvSolverSound Dom.ItvDomain
     Dom.ItvDomainSound Dom.RegionCore.
Import ListNotations.
Local Open Scope Z_scope.

Arguments d_add : simpl never.
Arguments d_assign : simpl never.
Arguments d_weak_assign : simpl never.
Arguments d_expand : simpl never.
Arguments d_apply_arith : simpl never.

(* ------------------------------------------------------------------ reference counts *)
(* the concrete counterpart of a reference count: the variables through which the references
   of the region were created, in order *)
Definition cgamma (x : sr) (L : list Z) : Prop :=
  match x with
  | RBot => False
  | RZero => L = []
  | ROne v => L = [v]
  | RZeroOrOne v => L = [] \/ L = [v]
  | RZeroOrMore => True
  | ROneOrMore => L <> []
  end.

Ltac zeqb :=
  repeat match goal with
         | |- context [?a =? ?b] => destruct (Z.eqb_spec a b); subst
         | H : context [?a =? ?b] |- _ => destruct (Z.eqb_spec a b); subst
         end.

Lemma app_one_not_nil {A} (L : list A) x : L ++ [x] <> [].
Proof. destruct L; simpl; congruence. Qed.

Lemma cg_incr c L v : cgamma c L -> cgamma (rc_incr c v) (L ++ [Z.of_N v]).
Proof.
  unfold rc_incr. destruct c; cbn; intros H; try (apply app_one_not_nil); auto.
  subst. reflexivity.
Qed.

Lemma cg_incr_phantom c L v : cgamma c L -> L <> [] -> cgamma (rc_incr c v) L.
Proof.
  unfold rc_incr. destruct c; cbn; intros H N; auto; try congruence.
Qed.

Lemma cg_join x y L : cgamma x L \/ cgamma y L -> cgamma (sr_join x y) L.
Proof.
  destruct x, y; cbn; intros [H|H]; zeqb; cbn in *; subst; auto; try tauto; try congruence;
    try (destruct H; subst; auto; congruence); try (right; congruence).
Qed.

Lemma cg_meet x y L : cgamma x L -> cgamma y L -> cgamma (sr_meet x y) L.
Proof.
  destruct x, y; cbn; intros H1 H2; zeqb; cbn in *; subst; auto; try tauto; try congruence;
    try (destruct H1; subst; auto; try congruence); try (destruct H2; subst; auto; try congruence).
Qed.

Lemma cg_singleton c L : singleton_count c = true -> cgamma c L -> L = [] \/ exists v, L = [v].
Proof. destruct c; cbn; intros E H; try discriminate; subst; eauto. Qed.

Lemma cg_top L : cgamma RZeroOrMore L. Proof. exact I. Qed.
Example cg_example : cgamma (rc_incr (rc_incr RZero 7%N) 7%N) [7; 7] /\ rc_incr (rc_incr RZero 7%N) 7%N = ROneOrMore.
Proof. split; [cbn; congruence | reflexivity]. Qed.

(* ------------------------------------------------------------------ concrete states *)
Record cstate := mkCS {
  c_st : store;                       (* integers, booleans, addresses; for a region variable: a
                                         representative of its contents (ghost, see [view]) *)
  c_hp : var -> Z -> option Z;        (* region -> address -> value written there *)
  c_made : var -> list (Z * Z);       (* region -> (creating variable, address) of its references *)
  c_asite : Z -> option Z;            (* address -> allocation site of its memory object *)
  c_vtg : var -> list Z;              (* tags carried by the value of a variable *)
  c_htg : var -> Z -> list Z          (* tags carried by the data stored in a cell *)
}.
Definition addrs (c : cstate) (g : var) : list Z := map snd (c_made c g).
Definition creators (c : cstate) (g : var) : list Z := map fst (c_made c g).
(* written cells were created *)
Definition cwf (c : cstate) : Prop := forall g a z, c_hp c g a = Some z -> In a (addrs c g).
(* a reference may be dereferenced in region g *)
Definition valid (c : cstate) (g : var) (a : Z) : Prop := a <> 0 /\ In a (addrs c g).

Definition hupd {A} (h : var -> Z -> A) (g : var) (a : Z) (v : A) : var -> Z -> A :=
  fun g' a' => if N.eqb g' g && (a' =? a) then v else h g' a'.

Lemma fupd_same {A} (f : var -> A) k v : fupd f k v k = v.
Proof. unfold fupd. rewrite N.eqb_refl. auto. Qed.
Lemma fupd_other {A} (f : var -> A) k v x : x <> k -> fupd f k v x = f x.
Proof. unfold fupd. intros H. destruct (N.eqb_spec x k); congruence. Qed.
Lemma hupd_same {A} (h : var -> Z -> A) g a v : hupd h g a v g a = v.
Proof. unfold hupd. rewrite N.eqb_refl, Z.eqb_refl. auto. Qed.
Lemma hupd_other_rgn {A} (h : var -> Z -> A) g a v g' a' : g' <> g -> hupd h g a v g' a' = h g' a'.
Proof. unfold hupd. intros H. destruct (N.eqb_spec g' g); [congruence|auto]. Qed.
Lemma hupd_other_addr {A} (h : var -> Z -> A) g a v g' a' : a' <> a -> hupd h g a v g' a' = h g' a'.
Proof. unfold hupd. intros H. destruct (Z.eqb_spec a' a); [congruence|]. rewrite andb_false_r. auto. Qed.

Lemma gmap_ext m s s' : (forall k, s k = s' k) -> gmap m s -> gmap m s'.
Proof. intros E G k. rewrite <- E. apply G. Qed.
Lemma upd_same' s x v : upd s x v x = v. Proof. apply upd_same. Qed.

Section WithKinds.
(* which variables are regions (a static property of CrabIR variables) *)
Variable is_rgn : var -> bool.

(* the stores summarised by a concrete state: every region variable stands for its
   representative or for the contents of any of its written cells *)
Definition view (c : cstate) (s : store) : Prop :=
  (forall k, is_rgn k = false -> s k = c_st c k) /\
  (forall r, is_rgn r = true -> s r = c_st c r \/ exists a, c_hp c r a = Some (s r)).

Lemma view_id c : view c (c_st c).
Proof. split; auto. Qed.


(* the "initialised" flag: False = no cell written yet, True = some cell written *)
Definition igamma (b : bv) (c : cstate) (g : var) : Prop :=
  match b with
  | BFalse => forall x, c_hp c g x = None
  | BTrue => exists x z, c_hp c g x = Some z
  | BBot => False
  | BTop => True
  end.

Lemma ig_join x y c g : igamma x c g \/ igamma y c g -> igamma (bv_join x y) c g.
Proof. destruct x, y; cbn; intros [H|H]; auto; try contradiction. Qed.
Lemma ig_meet x y c g : igamma x c g -> igamma y c g -> igamma (bv_meet x y) c g.
Proof.
  destruct x, y; cbn; intros H1 H2; auto; try contradiction.
  - destruct H2 as (a & z & E). rewrite H1 in E. discriminate.
  - destruct H1 as (a & z & E). rewrite H2 in E. discriminate.
Qed.

Record rel_core (a : rst) (c : cstate) : Prop := mkRel {
  rc_base : forall s, view c s -> gmap (r_base a) s;
  rc_count : forall g, cgamma (count a g) (creators c g);
  rc_init : forall g, igamma (rinit a g) c g;
  rc_wf : cwf c
}.

(* ---- answers ---- *)
Lemma rel_at a c x : rel_core a c -> gamma (get (r_base a) x) (c_st c x).
Proof. intros R. apply (rc_base _ _ R _ (view_id c)). Qed.

Lemma is_null_true a c p : rel_core a c -> is_null (r_base a) p = BTrue -> c_st c p = 0.
Proof.
  intros R. pose proof (rel_at a c p R) as G. unfold is_null.
  destruct (negb (ileq (iconst 0) (get (r_base a) p))); [discriminate|].
  destruct (get (r_base a) p) as [l u]; simpl in *.
  destruct l as [|l|]; try discriminate. destruct l; try discriminate.
  destruct u as [|u|]; try discriminate. destruct u; try discriminate.
  intros _. unfold gamma in G. simpl in G. unfold ble_z_l, ble_z_r in G. simpl in G.
  destruct G as [G1 G2]. apply Z.leb_le in G1, G2. lia.
Qed.

Lemma is_null_false a c p : rel_core a c -> is_null (r_base a) p = BFalse -> c_st c p <> 0.
Proof.
  intros R. pose proof (rel_at a c p R) as G. unfold is_null.
  destruct (ileq (iconst 0) (get (r_base a) p)) eqn:E; simpl.
  - destruct (lb (get (r_base a) p)) as [|l|]; try discriminate.
    destruct l; try discriminate. destruct (ub (get (r_base a) p)) as [|u|]; try discriminate.
    destruct u; discriminate.
  - intros _ Z0. rewrite Z0 in G.
    assert (X : ileq (iconst 0) (get (r_base a) p) = true); [|congruence].
    apply ileq_complete. apply wf_iconst.
    intros x Gx. apply gamma_iconst in Gx. subst. auto.
Qed.

Lemma genv_ext e s s' : (forall k, s k = s' k) -> genv e s -> genv e s'.
Proof. destruct e; simpl; auto. apply gmap_ext. Qed.

Lemma e_forget_keep e s x : genv e s -> genv (e_forget e x) s.
Proof.
  intros G. apply (genv_ext _ (upd s x (s x))).
  - intros k. destruct (N.eq_dec k x) as [->|N]; [apply upd_same | apply upd_other; auto].
  - apply e_forget_sound; auto.
Qed.

(* building a related value from its parts *)
Lemma rel_with_base e c rg al tg :
  (forall s, view c s -> genv e s) ->
  (forall g, cgamma (fst (rg g)) (creators c g)) ->
  (forall g, igamma (snd (rg g)) c g) -> cwf c ->
  exists m, e = EMap m /\ rel_core (mkR m rg al tg) c.
Proof.
  intros B C I W. destruct e as [|m].
  - elim (B _ (view_id c)).
  - exists m. split; auto. constructor; auto.
Qed.

(* ---- views under updates of the concrete state ---- *)
Lemma lift_scalar c c' x z E :
  is_rgn x = false -> c_st c' = upd (c_st c) x z -> c_hp c' = c_hp c ->
  (forall s0, view c s0 -> genv E (upd s0 x z)) ->
  forall s, view c' s -> genv E s.
Proof.
  intros Kx ES EH H s [V1 V2].
  assert (V0 : view c (upd s x (c_st c x))).
  { split.
    - intros k Kk. destruct (N.eq_dec k x) as [->|N]; [apply upd_same|].
      rewrite upd_other by auto. rewrite V1 by auto. rewrite ES. apply upd_other; auto.
    - intros r Kr. assert (N : r <> x) by (intros ->; congruence).
      rewrite upd_other by auto. destruct (V2 r Kr) as [A|A].
      + left. rewrite A, ES. apply upd_other; auto.
      + right. rewrite EH in A. auto. }
  apply (genv_ext _ (upd (upd s x (c_st c x)) x z)); [|apply H; auto].
  intros k. destruct (N.eq_dec k x) as [->|N].
  - rewrite upd_same. rewrite V1 by auto. rewrite ES. rewrite upd_same. auto.
  - rewrite !upd_other by auto. auto.
Qed.

Definition nonrgn_exp (e : linexp) : Prop := forall co v, In (co, v) (le_terms e) -> is_rgn v = false.

Lemma eval_terms_agree ts s s' :
  (forall co v, In (co, v) ts -> s v = s' v) -> eval_terms ts s = eval_terms ts s'.
Proof.
  induction ts as [|[co v] r IH]; simpl; intros H; auto.
  rewrite (H co v) by auto. rewrite IH; auto. intros; eapply H; eauto.
Qed.

Lemma eval_view e c s : nonrgn_exp e -> view c s -> eval_le e s = eval_le e (c_st c).
Proof.
  intros N [V _]. unfold eval_le. f_equal. apply eval_terms_agree.
  intros co v I. apply V. eapply N; eauto.
Qed.

Lemma eval_le_var v s : eval_le (le_var v) s = s v.
Proof. unfold eval_le, le_var. cbn [eval_terms le_terms le_cst]. ring. Qed.
Lemma eval_le_const k s : eval_le (le_const k) s = k.
Proof. unfold eval_le, le_const. cbn [eval_terms le_terms le_cst]. ring. Qed.

Lemma d_assign_var x g e : d_assign x (le_var g) e = e_set e x (e_at e g).
Proof. reflexivity. Qed.

(* ------------------------------------------------------- allocation sites and tags *)
Variable is_refrgn : var -> bool.     (* which regions hold references *)
Variable is_refv : var -> bool.       (* which variables are references *)
Variable P : rparams.

(* a finite site set describes an address that is null or belongs to an object allocated at
   one of the sites *)
Definition sgamma (c : cstate) (d : dset) (z : Z) : Prop :=
  match d with
  | None => True
  | Some ss => z = 0 \/ exists site, c_asite c z = Some site /\ In site ss
  end.
Definition tgamma (d : dset) (l : list Z) : Prop :=
  match d with None => True | Some T => incl l T end.

Lemma ds_mem_spec z l : ds_mem z l = true <-> In z l.
Proof.
  unfold ds_mem. rewrite existsb_exists. split.
  - intros (x & I & E). apply Z.eqb_eq in E. subst. auto.
  - intros I. exists z. split; auto. apply Z.eqb_refl.
Qed.

Lemma sg_join c a b z : sgamma c a z \/ sgamma c b z -> sgamma c (ds_join a b) z.
Proof.
  destruct a as [x|], b as [y|]; cbn; auto.
  intros [[H|(s & A & I)]|[H|(s & A & I)]]; auto; right; exists s; split; auto; apply in_or_app; auto.
Qed.
Lemma sg_meet c a b z : sgamma c a z -> sgamma c b z -> sgamma c (ds_meet a b) z.
Proof.
  unfold ds_meet. intros H1 H2.
  destruct (ds_is_bottom a) eqn:B1.
  { destruct a as [[|? ?]|]; try discriminate. cbn in *. destruct H1 as [H|(s & _ & [])]; auto. }
  destruct (ds_is_bottom b) eqn:B2.
  { destruct b as [[|? ?]|]; try discriminate. cbn in *. destruct H2 as [H|(s & _ & [])]; auto. }
  cbn [orb]. destruct a as [x|], b as [y|]; auto.
  cbn in *. destruct H1 as [H|(s & A & I)]; auto. destruct H2 as [H|(s' & A' & I')]; auto.
  right. exists s. split; auto. apply filter_In. split; auto. apply ds_mem_spec. congruence.
Qed.
Lemma tg_join a b l : tgamma a l \/ tgamma b l -> tgamma (ds_join a b) l.
Proof.
  destruct a as [x|], b as [y|]; cbn; auto.
  intros [H|H]; [apply incl_appl | apply incl_appr]; auto.
Qed.
Lemma tg_meet a b l : tgamma a l -> tgamma b l -> tgamma (ds_meet a b) l.
Proof.
  unfold ds_meet. intros H1 H2.
  destruct (ds_is_bottom a) eqn:B1.
  { destruct a as [[|? ?]|]; try discriminate. exact H1. }
  destruct (ds_is_bottom b) eqn:B2.
  { destruct b as [[|? ?]|]; try discriminate. exact H2. }
  cbn [orb]. destruct a as [x|], b as [y|]; auto.
  cbn in *. intros t I. apply filter_In. split; auto. apply ds_mem_spec. auto.
Qed.
Lemma tg_nil d : tgamma d []. Proof. destruct d; cbn; auto. intros ? []. Qed.
Lemma tg_app d l1 l2 : tgamma d l1 -> tgamma d l2 -> tgamma d (l1 ++ l2).
Proof. destruct d; cbn; auto. apply incl_app. Qed.

Record rel (a : rst) (c : cstate) : Prop := mkRelF {
  r_core : rel_core a c;
  r_svar : forall v, is_refv v = true -> sgamma c (r_alloc a v) (c_st c v);
  r_srgn : forall g, is_refrgn g = true -> forall x z, c_hp c g x = Some z -> sgamma c (r_alloc a g) z;
  r_soff : p_alloc P = false -> forall v, r_alloc a v = None;
  r_anull : c_asite c 0 = None;
  r_tvar : forall v, is_rgn v = false -> tgamma (r_tags a v) (c_vtg c v);
  r_trgn : forall g, is_rgn g = true -> forall x, tgamma (r_tags a g) (c_htg c g x);
  r_toff : p_tags P = false -> forall v, r_tags a v = None;
  r_tuw : forall g x, c_hp c g x = None -> c_htg c g x = []
}.

Definition relv (v : rval) (c : cstate) : Prop :=
  match v with None => False | Some a => rel a c end.

(* set_alloc / set_tags keep or establish the claims *)
Lemma set_alloc_get s v d x :
  r_alloc (set_alloc P s v d) x = if p_alloc P then (if N.eqb x v then d else r_alloc s x) else r_alloc s x.
Proof. unfold set_alloc. destruct (p_alloc P); auto. Qed.
Lemma set_tags_get s v d x :
  r_tags (set_tags P s v d) x = if p_tags P then (if N.eqb x v then d else r_tags s x) else r_tags s x.
Proof. unfold set_tags. destruct (p_tags P); auto. Qed.
Lemma set_alloc_base s v d : r_base (set_alloc P s v d) = r_base s.
Proof. unfold set_alloc. destruct (p_alloc P); auto. Qed.
Lemma set_alloc_rgn s v d : r_rgn (set_alloc P s v d) = r_rgn s.
Proof. unfold set_alloc. destruct (p_alloc P); auto. Qed.
Lemma set_alloc_tags s v d : r_tags (set_alloc P s v d) = r_tags s.
Proof. unfold set_alloc. destruct (p_alloc P); auto. Qed.
Lemma set_tags_base s v d : r_base (set_tags P s v d) = r_base s.
Proof. unfold set_tags. destruct (p_tags P); auto. Qed.
Lemma set_tags_rgn s v d : r_rgn (set_tags P s v d) = r_rgn s.
Proof. unfold set_tags. destruct (p_tags P); auto. Qed.
Lemma set_tags_alloc s v d : r_alloc (set_tags P s v d) = r_alloc s.
Proof. unfold set_tags. destruct (p_tags P); auto. Qed.

(* ------------------------------------------------------- concrete operations *)
Definition sval_val (v : sval) (s : store) : Z := eval_le (sval_exp v) s.
Definition sval_tags (v : sval) (c : cstate) : list Z :=
  match v with SVar x _ => c_vtg c x | _ => [] end.

Definition rrel_holds (r : rrel) (a b : Z) : Prop :=
  match r with REq => a = b | RNe => a <> b | RLe => a <= b | RLt => a < b | RGe => a >= b | RGt => a > b end.
Definition rcst_holds (rc : rcst) (s : store) : Prop :=
  match rc with
  | RUn r p => rrel_holds r (s p) 0
  | RBin r p q k => rrel_holds r (s p) (s q + k)
  end.

(* ref2 := ref1 + off.  [lit0]: the offset is the literal 0 *)
Definition c_gep (p2 g2 p1 g1 : var) (off : Z) (lit0 : bool) (c c' : cstate) : Prop :=
  let a1 := c_st c p1 in let a2 := a1 + off in
  (g1 = g2 -> a2 = a1 -> In a1 (addrs c g1) \/ lit0 = true) /\
  (a1 = 0 -> a2 = 0) /\ c_asite c a2 = c_asite c a1 /\
  c' = mkCS (upd (c_st c) p2 a2) (c_hp c)
            (if N.eqb g1 g2 && (a2 =? a1) then c_made c
             else fupd (c_made c) g2 (c_made c g2 ++ [(Z.of_N p2, a2)]))
            (c_asite c) (fupd (c_vtg c) p2 (c_vtg c p1)) (c_htg c).

Definition c_havoc_scalar (v : var) (c c' : cstate) : Prop :=
  exists z tl, c' = mkCS (upd (c_st c) v z) (c_hp c) (c_made c) (c_asite c) (fupd (c_vtg c) v tl) (c_htg c).

Definition c_assume_ref (rc : rcst) (c c' : cstate) : Prop :=
  rcst_holds rc (c_st c) /\
  match rc with
  | RBin REq p q k => k <> 0 -> c_asite c (c_st c p) = c_asite c (c_st c q)
  | _ => True
  end /\ c' = c.

Definition c_sel_arm (p g : var) (arm : option (var * var)) (c c' : cstate) : Prop :=
  match arm with
  | None => exists c1, c_havoc_scalar p c c1 /\ c_assume_ref (RUn REq p) c1 c'
  | Some (q, gq) => c_gep p g q gq 0 true c c'
  end.

Definition lit_zero (e : linexp) : bool :=
  match le_terms e with [] => le_cst e =? 0 | _ => false end.

(* the concrete meaning of the operations on one state *)
Definition cstep (o : rop) (c c' : cstate) : Prop :=
  match o with
  | OInit _ g =>
    c' = mkCS (c_st c) (fupd (c_hp c) g (fun _ => None)) (fupd (c_made c) g []) (c_asite c) (c_vtg c)
              (fupd (c_htg c) g (fun _ => []))
  | OMk _ p g site =>
    exists a, a <> 0 /\ c_asite c a = None /\
      c' = mkCS (upd (c_st c) p a) (c_hp c) (fupd (c_made c) g (c_made c g ++ [(Z.of_N p, a)]))
                (fun x => if x =? a then Some site else c_asite c x) (fupd (c_vtg c) p []) (c_htg c)
  | OFree _ g p => c' = c
  | OLd _ x p g _ =>
    let a := c_st c p in
    valid c g a /\ exists z, c_hp c g a = Some z /\
      c' = mkCS (upd (c_st c) x z) (c_hp c) (c_made c) (c_asite c) (fupd (c_vtg c) x (c_htg c g a)) (c_htg c)
  | OSt _ p g v =>
    let a := c_st c p in let z := sval_val v (c_st c) in
    valid c g a /\
      c' = mkCS (upd (c_st c) g z) (hupd (c_hp c) g a (Some z)) (c_made c) (c_asite c) (c_vtg c)
                (hupd (c_htg c) g a (sval_tags v c))
  | OGep _ p2 g2 p1 g1 off _ => c_gep p2 g2 p1 g1 (eval_le off (c_st c)) (lit_zero off) c c'
  | ORcopy _ l g =>
    c' = mkCS (upd (c_st c) l (c_st c g)) (fupd (c_hp c) l (c_hp c g)) (fupd (c_made c) l (c_made c g))
              (c_asite c) (c_vtg c) (fupd (c_htg c) l (c_htg c g))
  | OAssumeRef _ rc _ => c_assume_ref rc c c'
  | OSelRef _ p g a1 a2 _ => c_sel_arm p g a1 c c' \/ c_sel_arm p g a2 c c'
  | OTag _ g t =>
    exists a z, c_hp c g a = Some z /\
      c' = mkCS (c_st c) (c_hp c) (c_made c) (c_asite c) (c_vtg c) (hupd (c_htg c) g a (t :: c_htg c g a))
  | OAssign _ x e =>
    c' = mkCS (upd (c_st c) x (eval_le e (c_st c))) (c_hp c) (c_made c) (c_asite c)
              (fupd (c_vtg c) x (flat_map (fun p => c_vtg c (snd p)) (le_terms e))) (c_htg c)
  | OArith _ op x y z =>
    exists r, arith_sem op (c_st c y) (operand_val z (c_st c)) = Some r /\
      c' = mkCS (upd (c_st c) x r) (c_hp c) (c_made c) (c_asite c)
                (fupd (c_vtg c) x (c_vtg c y ++ match z with OVar v => c_vtg c v | OCst _ => [] end)) (c_htg c)
  | OAssume _ cs => (forall k, In k cs -> sat k (c_st c)) /\ c' = c
  | OHavoc _ v KRegion =>
    (forall k, k <> v -> c_st c' k = c_st c k) /\ (forall g, g <> v -> c_hp c' g = c_hp c g) /\
    (forall g, g <> v -> c_made c' g = c_made c g) /\ c_asite c' = c_asite c /\ c_vtg c' = c_vtg c /\
    (forall g, g <> v -> c_htg c' g = c_htg c g) /\ cwf c' /\ (forall x, c_hp c' v x = None -> c_htg c' v x = [])
  | OHavoc _ v _ => c_havoc_scalar v c c'
  | _ => False
  end.

Hypothesis refrgn_rgn : forall g, is_refrgn g = true -> is_rgn g = true.

Lemma sgamma_mono c c' d z :
  (forall y s, c_asite c y = Some s -> c_asite c' y = Some s) -> sgamma c d z -> sgamma c' d z.
Proof.
  intros E. destruct d as [ss|]; cbn; auto. intros [H|(s & A & I)]; auto. right. exists s. split; auto.
Qed.

Lemma igamma_eq b c c' g g' : (forall x, c_hp c' g' x = c_hp c g x) -> igamma b c g -> igamma b c' g'.
Proof.
  intros E. destruct b; cbn; auto.
  - intros H x. rewrite E. auto.
  - intros (x & z & H). exists x, z. rewrite E. auto.
Qed.
Lemma igamma_hp b c c' g : (forall x, c_hp c' g x = c_hp c g x) -> igamma b c g -> igamma b c' g.
Proof. apply igamma_eq. Qed.

(* an update of a non-region variable (and possibly more references created) *)
Lemma rel_scalar_update a c x z tl E rg' al' tg' made' asite' :
  rel a c -> is_rgn x = false ->
  (forall s0, view c s0 -> genv E (upd s0 x z)) ->
  (forall g, cgamma (fst (rg' g)) (map fst (made' g))) ->
  (forall g, snd (rg' g) = rinit a g) ->
  (forall g, incl (addrs c g) (map snd (made' g))) ->
  (forall y s, c_asite c y = Some s -> asite' y = Some s) -> asite' 0 = None ->
  (forall v, v <> x -> al' v = r_alloc a v) ->
  (is_refv x = true ->
   al' x = None \/ z = 0 \/ exists site ss, al' x = Some ss /\ asite' z = Some site /\ In site ss) ->
  (forall v, v <> x -> tg' v = r_tags a v) -> tgamma (tg' x) tl ->
  (p_alloc P = false -> al' x = None) -> (p_tags P = false -> tg' x = None) ->
  exists m, E = EMap m /\
    rel (mkR m rg' al' tg')
        (mkCS (upd (c_st c) x z) (c_hp c) made' asite' (fupd (c_vtg c) x tl) (c_htg c)).
Proof.
  intros R Kx HB HC HI HM HA HA0 Hal Hx Htg Htx Poff Toff.
  set (c' := mkCS (upd (c_st c) x z) (c_hp c) made' asite' (fupd (c_vtg c) x tl) (c_htg c)).
  assert (B : forall s, view c' s -> genv E s).
  { apply (lift_scalar c c' x z E); auto. }
  destruct E as [|m]; [elim (B _ (view_id c'))|]. exists m. split; auto.
  pose proof (r_core _ _ R) as RC.
  assert (MONO : forall d y, sgamma c d y -> sgamma c' d y).
  { intros d y. apply sgamma_mono. exact HA. }
  unfold c' in *. clear c'.
  constructor.
  - constructor; cbn [r_base r_rgn count rinit].
    + exact B.
    + intros g. apply HC.
    + intros g. unfold rinit. cbn [r_rgn]. rewrite HI. apply (igamma_hp _ c); auto. apply (rc_init _ _ RC).
    + intros g y w Hw. cbn in Hw. apply HM. apply (rc_wf _ _ RC g y w Hw).
  - intros v Kv. cbn [r_alloc c_st]. destruct (N.eq_dec v x) as [->|N].
    + rewrite upd_same. destruct (Hx Kv) as [H|[H|(site & ss & H1 & H2 & H3)]].
      * rewrite H. exact I.
      * subst. destruct (al' x); cbn; auto.
      * rewrite H1. right. exists site. split; auto.
    + rewrite upd_other by auto. rewrite Hal by auto. apply MONO. apply (r_svar _ _ R); auto.
  - intros g Kg y w Hw. cbn [r_alloc]. cbn in Hw.
    assert (N : g <> x). { intros ->. apply refrgn_rgn in Kg. congruence. }
    rewrite Hal by auto. apply MONO. eapply (r_srgn _ _ R); eauto.
  - intros Off v. cbn [r_alloc]. destruct (N.eq_dec v x) as [->|N]; auto.
    rewrite Hal by auto. apply (r_soff _ _ R); auto.
  - exact HA0.
  - intros v Kv. cbn [r_tags c_vtg]. destruct (N.eq_dec v x) as [->|N].
    + rewrite fupd_same. auto.
    + rewrite fupd_other by auto. rewrite Htg by auto. apply (r_tvar _ _ R); auto.
  - intros g Kg y. cbn [r_tags c_htg].
    assert (N : g <> x) by (intros ->; congruence).
    rewrite Htg by auto. apply (r_trgn _ _ R); auto.
  - intros Off v. cbn [r_tags]. destruct (N.eq_dec v x) as [->|N]; auto.
    rewrite Htg by auto. apply (r_toff _ _ R); auto.
  - intros g y Hy. cbn in *. apply (r_tuw _ _ R); auto.
Qed.

Lemma relv_some E m s c : E = EMap m -> rel (mkR m (r_rgn s) (r_alloc s) (r_tags s)) c -> relv (with_base s E) c.
Proof. intros -> R. exact R. Qed.

Lemma creators_app c g l : map fst (c_made c g ++ l) = creators c g ++ map fst l.
Proof. apply map_app. Qed.

(* ---- ref_make ---- *)
Lemma t_mk_sound a c c' r p g site :
  rel a c -> is_rgn p = false -> cstep (OMk r p g site) c c' -> relv (t_mk P p g site a) c'.
Proof.
  intros R Kp (a0 & A0 & AS & ->). unfold t_mk.
  set (s1 := set_rgn a g (rc_incr (count a g) p, rinit a g)).
  set (s2 := set_alloc P s1 p (Some [site])).
  assert (EB : r_base s2 = r_base a) by (unfold s2; rewrite set_alloc_base; reflexivity).
  rewrite EB.
  destruct (rel_scalar_update a c p a0 [] (e_forget (EMap (r_base a)) p) (r_rgn s2) (r_alloc s2) (r_tags s2)
              (fupd (c_made c) g (c_made c g ++ [(Z.of_N p, a0)]))
              (fun x => if x =? a0 then Some site else c_asite c x)) as (m & Em & Rm); auto.
  - intros s0 V. apply e_forget_sound. apply (rc_base _ _ (r_core _ _ R)); auto.
  - intros g'. unfold s2. rewrite set_alloc_rgn. cbn [s1 set_rgn r_rgn].
    destruct (N.eq_dec g' g) as [->|N].
    + rewrite !fupd_same. cbn [fst]. rewrite creators_app. apply cg_incr. apply (rc_count _ _ (r_core _ _ R)).
    + rewrite !fupd_other by auto. apply (rc_count _ _ (r_core _ _ R)).
  - intros g'. unfold s2. rewrite set_alloc_rgn. cbn [s1 set_rgn r_rgn].
    destruct (N.eq_dec g' g) as [->|N]; [rewrite fupd_same | rewrite fupd_other by auto]; reflexivity.
  - intros g'. unfold addrs. destruct (N.eq_dec g' g) as [->|N].
    + rewrite fupd_same. rewrite map_app. apply incl_appl. apply incl_refl.
    + rewrite fupd_other by auto. apply incl_refl.
  - intros y s E. destruct (Z.eqb_spec y a0); [congruence|auto].
  - destruct (Z.eqb_spec 0 a0); [congruence|]. apply (r_anull _ _ R).
  - intros v N. unfold s2. rewrite set_alloc_get. destruct (p_alloc P); auto.
    destruct (N.eqb_spec v p); [congruence|reflexivity].
  - intros _. unfold s2. rewrite set_alloc_get. destruct (p_alloc P) eqn:PA.
    + rewrite N.eqb_refl. right. right. exists site, [site]. repeat split; auto.
      * rewrite Z.eqb_refl. auto.
      * left; auto.
    + left. apply (r_soff _ _ R); auto.
  - intros v N. unfold s2. rewrite set_alloc_tags. reflexivity.
  - apply tg_nil.
  - intros Off. unfold s2. rewrite set_alloc_get, Off. apply (r_soff _ _ R); auto.
  - intros Off. unfold s2. rewrite set_alloc_tags. apply (r_toff _ _ R); auto.
  - eapply relv_some; eauto.
Qed.

(* ---- assign / arithmetic / havoc of a scalar or reference ---- *)
Lemma merge_tags_sound a c vs :
  rel a c -> (forall v, In v vs -> is_rgn v = false) ->
  tgamma (merge_tags a vs) (flat_map (fun v => c_vtg c v) vs).
Proof.
  intros R. unfold merge_tags.
  assert (G : forall vs acc l, tgamma acc l -> (forall v, In v vs -> is_rgn v = false) ->
              tgamma (fold_left (fun acc v => ds_join acc (r_tags a v)) vs acc) (l ++ flat_map (fun v => c_vtg c v) vs)).
  { induction vs0 as [|v r IH]; simpl; intros acc l T K.
    - rewrite app_nil_r. auto.
    - rewrite app_assoc. apply IH; auto.
      destruct (ds_join acc (r_tags a v)) eqn:J; [|exact I].
      destruct acc as [x|]; [|discriminate]. destruct (r_tags a v) as [y|] eqn:Tv; [|discriminate].
      cbn in J. inversion J; subst. cbn. apply incl_app.
      + apply incl_appl. exact T.
      + apply incl_appr. pose proof (r_tvar _ _ R v (K v (or_introl eq_refl))) as X. rewrite Tv in X. exact X. }
  intros K. apply (G vs ds_empty []); auto. cbn. intros ? [].
Qed.

Lemma flat_map_terms {A} (f : var -> list A) (ts : list (Z * var)) :
  flat_map (fun p => f (snd p)) ts = flat_map f (map snd ts).
Proof. induction ts as [|[c v] r IH]; simpl; auto. rewrite IH. auto. Qed.

Lemma t_assign_sound a c c' r x e :
  rel a c -> is_rgn x = false -> is_refv x = false -> nonrgn_exp e ->
  cstep (OAssign r x e) c c' -> relv (t_assign P x e a) c'.
Proof.
  intros R Kx Kr Ne ->. unfold t_assign.
  set (tg := merge_tags a (map snd (le_terms e))).
  destruct (rel_scalar_update a c x (eval_le e (c_st c)) (flat_map (fun p => c_vtg c (snd p)) (le_terms e))
              (d_assign x e (EMap (r_base a))) (r_rgn (set_tags P a x tg)) (r_alloc (set_tags P a x tg))
              (r_tags (set_tags P a x tg)) (c_made c) (c_asite c)) as (m & Em & Rm); auto.
  - intros s0 V. rewrite <- (eval_view e c s0 Ne V). apply d_assign_sound.
    apply (rc_base _ _ (r_core _ _ R)); auto.
  - intros g. rewrite set_tags_rgn. apply (rc_count _ _ (r_core _ _ R)).
  - intros g. rewrite set_tags_rgn. reflexivity.
  - intros g. apply incl_refl.
  - apply (r_anull _ _ R).
  - intros v N. rewrite set_tags_alloc. reflexivity.
  - congruence.
  - intros v N. rewrite set_tags_get. destruct (p_tags P); auto.
    destruct (N.eqb_spec v x); [congruence|auto].
  - rewrite set_tags_get. destruct (p_tags P) eqn:PT.
    + rewrite N.eqb_refl. rewrite flat_map_terms. apply merge_tags_sound; auto.
      intros v I. apply in_map_iff in I. destruct I as ([co w] & <- & I). eapply Ne; eauto.
    + rewrite (r_toff _ _ R PT). exact I.
  - intros Off. rewrite set_tags_alloc. apply (r_soff _ _ R); auto.
  - intros Off. rewrite set_tags_get, Off. apply (r_toff _ _ R); auto.
  - eapply relv_some; eauto.
Qed.

Ltac rcore R := pose proof (r_core _ _ R) as RC.

Lemma t_arith_sound a c c' r op x y z :
  rel a c -> is_rgn x = false -> is_refv x = false -> is_rgn y = false ->
  (forall v, z = OVar v -> is_rgn v = false) ->
  cstep (OArith r op x y z) c c' -> relv (t_arith P op x y z a) c'.
Proof.
  intros R Kx Kr Ky Kz (res & Sem & ->). unfold t_arith.
  set (tg := match z with OVar v => ds_join (r_tags a y) (r_tags a v) | OCst _ => r_tags a y end).
  destruct (rel_scalar_update a c x res (c_vtg c y ++ match z with OVar v => c_vtg c v | OCst _ => [] end)
              (d_apply_arith op x y z (EMap (r_base a))) (r_rgn (set_tags P a x tg)) (r_alloc (set_tags P a x tg))
              (r_tags (set_tags P a x tg)) (c_made c) (c_asite c)) as (m & Em & Rm); auto.
  - intros s0 V. eapply d_apply_arith_sound. apply (rc_base _ _ (r_core _ _ R)); auto.
    destruct V as [V1 V2]. rewrite (V1 y Ky).
    replace (operand_val z s0) with (operand_val z (c_st c)); auto.
    destruct z; simpl; auto. symmetry. apply V1. eapply Kz; eauto.
  - intros g. rewrite set_tags_rgn. apply (rc_count _ _ (r_core _ _ R)).
  - intros g. rewrite set_tags_rgn. reflexivity.
  - intros g. apply incl_refl.
  - apply (r_anull _ _ R).
  - intros v N. rewrite set_tags_alloc. reflexivity.
  - congruence.
  - intros v N. rewrite set_tags_get. destruct (p_tags P); auto.
    destruct (N.eqb_spec v x); [congruence|auto].
  - rewrite set_tags_get. destruct (p_tags P) eqn:PT.
    + rewrite N.eqb_refl. unfold tg. destruct z as [v|k].
      * apply tg_app; apply tg_join; [left|right]; apply (r_tvar _ _ R); auto; try (eapply Kz; eauto).
      * rewrite app_nil_r. apply (r_tvar _ _ R); auto.
    + rewrite (r_toff _ _ R PT). exact I.
  - intros Off. rewrite set_tags_alloc. apply (r_soff _ _ R); auto.
  - intros Off. rewrite set_tags_get, Off. apply (r_toff _ _ R); auto.
  - eapply relv_some; eauto.
Qed.

Lemma t_havoc_scalar_sound a c c' v k :
  rel a c -> is_rgn v = false -> k <> KRegion -> (is_refv v = true -> k = KRef) ->
  c_havoc_scalar v c c' -> relv (t_havoc P v k a) c'.
Proof.
  intros R Kv Kk Kr (z & tl & ->). unfold t_havoc.
  set (s1 := match k with KRegion => set_rgn a v ri_top | _ => a end).
  assert (E1 : s1 = a) by (unfold s1; destruct k; auto; congruence).
  rewrite E1. clear s1 E1.
  set (s2 := match k with KScalar => a | _ => set_alloc P a v ds_top end).
  set (s3 := set_tags P s2 v ds_top).
  assert (EB : r_base s3 = r_base a).
  { unfold s3, s2. rewrite set_tags_base. destruct k; auto; apply set_alloc_base. }
  assert (ER : r_rgn s3 = r_rgn a).
  { unfold s3, s2. rewrite set_tags_rgn. destruct k; auto; apply set_alloc_rgn. }
  rewrite EB.
  destruct (rel_scalar_update a c v z tl (e_forget (EMap (r_base a)) v) (r_rgn s3) (r_alloc s3) (r_tags s3)
              (c_made c) (c_asite c)) as (m & Em & Rm); auto.
  - intros s0 V. apply e_forget_sound. apply (rc_base _ _ (r_core _ _ R)); auto.
  - intros g. rewrite ER. apply (rc_count _ _ (r_core _ _ R)).
  - intros g. rewrite ER. reflexivity.
  - intros g. apply incl_refl.
  - apply (r_anull _ _ R).
  - intros w N. unfold s3, s2. rewrite set_tags_alloc. destruct k; auto; rewrite set_alloc_get;
      destruct (p_alloc P); auto; destruct (N.eqb_spec w v); congruence.
  - intros Rv. left. unfold s3, s2. rewrite (Kr Rv). rewrite set_tags_alloc, set_alloc_get.
    destruct (p_alloc P) eqn:PA; [rewrite N.eqb_refl; reflexivity | apply (r_soff _ _ R); auto].
  - intros w N. unfold s3. rewrite set_tags_get. destruct (p_tags P).
    + destruct (N.eqb_spec w v); [congruence|]. unfold s2. destruct k; auto; rewrite set_alloc_tags; auto.
    + unfold s2. destruct k; auto; rewrite set_alloc_tags; auto.
  - unfold s3. rewrite set_tags_get. destruct (p_tags P) eqn:PT.
    + rewrite N.eqb_refl. exact I.
    + assert (X : r_tags s2 v = None); [|rewrite X; exact I].
      unfold s2. destruct k; try rewrite set_alloc_tags; apply (r_toff _ _ R); auto.
  - intros Off. unfold s3, s2. rewrite set_tags_alloc.
    destruct k; try rewrite set_alloc_get, Off; apply (r_soff _ _ R); auto.
  - intros Off. unfold s3. rewrite set_tags_get, Off. unfold s2.
    destruct k; try rewrite set_alloc_tags; apply (r_toff _ _ R); auto.
  - eapply relv_some; eauto.
Qed.

(* ---- ref_load ---- *)
Lemma t_load_sound a c c' r dup x p g isr :
  rel a c -> is_rgn x = false -> is_rgn p = false -> is_rgn g = true ->
  is_rgn dup = false -> dup <> x -> (isr = true -> is_refrgn g = true) -> (is_refv x = true -> isr = true) ->
  cstep (OLd r x p g isr) c c' -> relv (t_load P dup x p g isr a) c'.
Proof.
  intros R Kx Kp Kg Kd Dx Kri Krv ((A0 & AI) & z & Hz & ->). unfold t_load. rcore R.
  destruct (bv_is_true (is_null (r_base a) p)) eqn:NL.
  { assert (X : is_null (r_base a) p = BTrue) by (destruct (is_null (r_base a) p); try discriminate; auto).
    elim A0. eapply is_null_true; eauto. }
  set (s1 := if isr then set_alloc P a x (r_alloc a g) else a).
  set (s2 := set_tags P s1 x (r_tags s1 g)).
  assert (EB : r_base s2 = r_base a).
  { unfold s2, s1. rewrite set_tags_base. destruct isr; auto. apply set_alloc_base. }
  assert (ER : r_rgn s2 = r_rgn a).
  { unfold s2, s1. rewrite set_tags_rgn. destruct isr; auto. apply set_alloc_rgn. }
  assert (ET : r_tags s1 = r_tags a).
  { unfold s1. destruct isr; auto. apply set_alloc_tags. }
  rewrite EB. unfold count. rewrite ER.
  (* the value z is described by the contents of the region *)
  assert (GZ : forall s0, view c s0 -> gamma (get (r_base a) g) z).
  { intros s0 [V1 V2].
    assert (V' : view c (upd s0 g z)).
    { split.
      - intros k Kk. rewrite upd_other by (intros ->; congruence). auto.
      - intros q Kq. destruct (N.eq_dec q g) as [->|N].
        + rewrite upd_same. right. eauto.
        + rewrite upd_other by auto. auto. }
    pose proof (rc_base _ _ RC _ V' g) as G. rewrite upd_same in G. exact G. }
  assert (FIN : forall E, (forall s0, view c s0 -> genv E (upd s0 x z)) -> relv (with_base s2 E)
                 (mkCS (upd (c_st c) x z) (c_hp c) (c_made c) (c_asite c) (fupd (c_vtg c) x (c_htg c g (c_st c p))) (c_htg c))).
  { intros E HE.
    destruct (rel_scalar_update a c x z (c_htg c g (c_st c p)) E (r_rgn s2) (r_alloc s2) (r_tags s2)
                (c_made c) (c_asite c)) as (m & Em & Rm); auto.
    - intros g'. rewrite ER. apply (rc_count _ _ RC).
    - intros g'. rewrite ER. reflexivity.
    - intros g'. apply incl_refl.
    - apply (r_anull _ _ R).
    - intros v N. unfold s2, s1. rewrite set_tags_alloc. destruct isr; auto.
      rewrite set_alloc_get. destruct (p_alloc P); auto. destruct (N.eqb_spec v x); congruence.
    - intros Rv. pose proof (Krv Rv) as Ei. unfold s2, s1. rewrite Ei in *. cbv iota. rewrite set_tags_alloc, set_alloc_get.
      destruct (p_alloc P) eqn:PA; [rewrite N.eqb_refl | left; apply (r_soff _ _ R); auto].
      pose proof (r_srgn _ _ R g (Kri eq_refl) _ _ Hz) as X.
      destruct (r_alloc a g) as [ss|]; auto. cbn in X. destruct X as [X|(site & X1 & X2)]; auto.
      right. right. exists site, ss. auto.
    - intros v N. unfold s2. rewrite set_tags_get. destruct (p_tags P); [|rewrite ET; auto].
      destruct (N.eqb_spec v x); [congruence|]. rewrite ET; auto.
    - unfold s2. rewrite set_tags_get. destruct (p_tags P) eqn:PT.
      + rewrite N.eqb_refl, ET. apply (r_trgn _ _ R); auto.
      + rewrite ET, (r_toff _ _ R PT). exact I.
    - intros Off. unfold s2, s1. rewrite set_tags_alloc. destruct isr; [rewrite set_alloc_get, Off|];
        apply (r_soff _ _ R); auto.
    - intros Off. unfold s2. rewrite set_tags_get, Off, ET. apply (r_toff _ _ R); auto.
    - eapply relv_some; eauto. }
  destruct (singleton_count (fst (r_rgn a g))).
  - (* strong read *)
    apply FIN. intros s0 V. rewrite d_assign_var. apply e_set_sound.
    + apply (rc_base _ _ RC); auto.
    + cbn [e_at]. eapply GZ; eauto.
  - (* weak read through the duplicated ghost variable *)
    apply FIN. intros s0 V.
    assert (G0 : genv (EMap (r_base a)) s0) by (apply (rc_base _ _ RC); auto).
    assert (G1 : genv (d_expand g dup (EMap (r_base a))) (upd s0 dup z)).
    { apply d_expand_sound; auto. exists (upd s0 g z). split; [|split].
      - destruct V as [V1 V2]. apply (rc_base _ _ RC). split.
        + intros k Kk. rewrite upd_other by (intros ->; congruence). auto.
        + intros q Kq. destruct (N.eq_dec q g) as [->|N].
          * rewrite upd_same. right. eauto.
          * rewrite upd_other by auto. auto.
      - intros k N. apply upd_other; auto.
      - rewrite upd_same. auto. }
    pose proof (d_assign_sound x (le_var dup) _ _ G1) as G2.
    rewrite eval_le_var, upd_same in G2.
    pose proof (e_forget_sound _ _ dup (s0 dup) G2) as G3.
    eapply genv_ext; [|exact G3]. intros k.
    destruct (N.eq_dec k dup) as [->|N1]; [rewrite upd_same, upd_other by auto; auto|].
    rewrite upd_other by auto.
    destruct (N.eq_dec k x) as [->|N2]; [rewrite !upd_same; auto|].
    rewrite !upd_other by auto. auto.
Qed.

(* ---- ref_gep ---- *)
Lemma is_zero_itv_gamma i v : is_zero_itv i = true -> gamma i v -> v = 0.
Proof.
  unfold is_zero_itv. destruct i as [l u]; simpl.
  destruct l as [|l|]; try discriminate. destruct l; try discriminate.
  destruct u as [|u|]; try discriminate. destruct u; try discriminate.
  intros _ G. unfold gamma in G. simpl in G. unfold ble_z_l, ble_z_r in G. simpl in G.
  destruct G as [G1 G2]. apply Z.leb_le in G1, G2. lia.
Qed.

Lemma lit_zero_eval off e : lit_zero off = true -> is_zero_itv (d_eval off e) = true.
Proof.
  unfold lit_zero, d_eval. destruct (le_terms off); [|discriminate]. intros E.
  apply Z.eqb_eq in E. rewrite E. reflexivity.
Qed.
Lemma lit_zero_val off s : lit_zero off = true -> eval_le off s = 0.
Proof.
  unfold lit_zero, eval_le. destruct (le_terms off); [|discriminate]. intros E.
  apply Z.eqb_eq in E. rewrite E. reflexivity.
Qed.

Lemma t_gep_sound a c c' p2 g2 p1 g1 off addr :
  rel a c -> is_rgn p2 = false -> is_rgn p1 = false ->
  nonrgn_exp off -> nonrgn_exp addr -> ~ In p2 (map snd (le_terms off)) ->
  (forall s, eval_le addr s = s p1 + eval_le off s) ->
  (is_refv p2 = true -> is_refv p1 = true) ->
  c_gep p2 g2 p1 g1 (eval_le off (c_st c)) (lit_zero off) c c' ->
  relv (t_gep P p2 g2 p1 g1 off addr a) c'.
Proof.
  intros R K2 K1 No Na Np Ea Krv (SRC & NUL & AS & ->). unfold t_gep. rcore R.
  set (a1 := c_st c p1) in *. set (ov := eval_le off (c_st c)) in *.
  set (b' := d_assign p2 addr (EMap (r_base a))).
  assert (GB : forall s0, view c s0 -> genv b' (upd s0 p2 (a1 + ov))).
  { intros s0 V. unfold b'. replace (a1 + ov) with (eval_le addr s0).
    - apply d_assign_sound. apply (rc_base _ _ RC); auto.
    - rewrite (eval_view addr c s0 Na V). rewrite Ea. reflexivity. }
  set (same := N.eqb g1 g2 && is_zero_itv (d_eval off b')).
  assert (SAME : same = true -> g1 = g2 /\ ov = 0).
  { unfold same. intros E. apply andb_true_iff in E. destruct E as [E1 E2]. split.
    - apply N.eqb_eq; auto.
    - pose proof (GB _ (view_id c)) as G.
      pose proof (d_eval_sound off b' _ G) as D.
      eapply is_zero_itv_gamma in D; eauto. rewrite <- D. unfold ov, eval_le. f_equal.
      apply eval_terms_agree. intros co v I. symmetry. apply upd_other.
      intros ->. apply Np. apply in_map_iff. exists (co, p2). auto. }
  set (s1 := if same then a else set_rgn a g2 (rc_incr (count a g2) p2, rinit a g2)).
  set (s2 := set_alloc P s1 p2 (r_alloc s1 p1)).
  set (s3 := set_tags P s2 p2 (r_tags s2 p1)).
  assert (EA : r_alloc s1 = r_alloc a) by (unfold s1; destruct same; reflexivity).
  assert (ET : r_tags s1 = r_tags a) by (unfold s1; destruct same; reflexivity).
  assert (ER : r_rgn s3 = r_rgn s1) by (unfold s3, s2; rewrite set_tags_rgn, set_alloc_rgn; reflexivity).
  assert (ET2 : r_tags s2 = r_tags a) by (unfold s2; rewrite set_alloc_tags; exact ET).
  destruct (rel_scalar_update a c p2 (a1 + ov) (c_vtg c p1) b' (r_rgn s3) (r_alloc s3) (r_tags s3)
              (if N.eqb g1 g2 && (a1 + ov =? a1) then c_made c
               else fupd (c_made c) g2 (c_made c g2 ++ [(Z.of_N p2, a1 + ov)])) (c_asite c))
    as (m & Em & Rm); auto.
  - intros g. rewrite ER. unfold s1. destruct same eqn:SM.
    + destruct (SAME eq_refl) as [-> ->]. rewrite N.eqb_refl. replace (a1 + 0 =? a1) with true.
      * cbn [andb]. apply (rc_count _ _ RC).
      * symmetry. apply Z.eqb_eq. lia.
    + cbn [set_rgn r_rgn]. destruct (N.eqb g1 g2 && (a1 + ov =? a1)) eqn:CC.
      * apply andb_true_iff in CC. destruct CC as [C1 C2]. apply N.eqb_eq in C1. apply Z.eqb_eq in C2.
        destruct (N.eq_dec g g2) as [->|N]; [|rewrite fupd_other by auto; apply (rc_count _ _ RC)].
        rewrite fupd_same. cbn [fst]. apply cg_incr_phantom. apply (rc_count _ _ RC).
        destruct (SRC C1 C2) as [I|L].
        -- subst g1. unfold creators, addrs in *. destruct (c_made c g2); [elim I|simpl; congruence].
        -- exfalso. unfold same in SM. rewrite C1, N.eqb_refl, (lit_zero_eval off b' L) in SM. discriminate.
      * destruct (N.eq_dec g g2) as [->|N].
        -- rewrite !fupd_same. cbn [fst]. rewrite map_app. apply cg_incr. apply (rc_count _ _ RC).
        -- rewrite !fupd_other by auto. apply (rc_count _ _ RC).
  - intros g. rewrite ER. unfold s1. destruct same; auto. cbn [set_rgn r_rgn].
    destruct (N.eq_dec g g2) as [->|N]; [rewrite fupd_same | rewrite fupd_other by auto]; reflexivity.
  - intros g. unfold addrs. destruct (N.eqb g1 g2 && (a1 + ov =? a1)); [apply incl_refl|].
    destruct (N.eq_dec g g2) as [->|N].
    + rewrite fupd_same, map_app. apply incl_appl, incl_refl.
    + rewrite fupd_other by auto. apply incl_refl.
  - apply (r_anull _ _ R).
  - intros v N. unfold s3, s2. rewrite set_tags_alloc, set_alloc_get, EA. destruct (p_alloc P); auto.
    destruct (N.eqb_spec v p2); congruence.
  - intros Rv. unfold s3, s2. rewrite set_tags_alloc, set_alloc_get, EA.
    destruct (p_alloc P) eqn:PA; [rewrite N.eqb_refl | left; apply (r_soff _ _ R); auto].
    pose proof (r_svar _ _ R p1 (Krv Rv)) as X. fold a1 in X.
    destruct (r_alloc a p1) as [ss|]; auto. cbn in X. destruct X as [X|(site & X1 & X2)].
    + right. left. apply NUL. exact X.
    + right. right. exists site, ss. repeat split; auto. rewrite AS. exact X1.
  - intros v N. unfold s3. rewrite set_tags_get, ET2.
    destruct (p_tags P); auto. destruct (N.eqb_spec v p2); congruence.
  - unfold s3. rewrite set_tags_get, ET2. destruct (p_tags P) eqn:PT.
    + rewrite N.eqb_refl. apply (r_tvar _ _ R); auto.
    + rewrite (r_toff _ _ R PT). exact I.
  - intros Off. unfold s3, s2. rewrite set_tags_alloc, set_alloc_get, Off, EA. apply (r_soff _ _ R); auto.
  - intros Off. unfold s3. rewrite set_tags_get, Off, ET2. apply (r_toff _ _ R); auto.
  - eapply relv_some; eauto.
Qed.

Hypothesis refv_nonrgn : forall v, is_refv v = true -> is_rgn v = false.

Lemma sgamma_zero c d : sgamma c d 0.
Proof. destruct d; cbn; auto. Qed.

(* ---- ref_store ---- *)
Definition sval_ok (g : var) (v : sval) : Prop :=
  match v with
  | SVar x isr => is_rgn x = false /\ (is_refrgn g = true -> isr = true /\ is_refv x = true)
  | SCst _ => is_refrgn g = false
  | SNull => True
  end.

Lemma sval_val_view v g c s0 : sval_ok g v -> view c s0 -> eval_le (sval_exp v) s0 = sval_val v (c_st c).
Proof.
  intros OK V. unfold sval_val. apply eval_view; auto.
  destruct v; cbn; intros co w I; try contradiction.
  destruct I as [I|[]]. inversion I; subst. apply OK.
Qed.

Lemma t_store_sound a c c' r p g v :
  rel a c -> is_rgn p = false -> is_rgn g = true -> sval_ok g v ->
  cstep (OSt r p g v) c c' -> relv (t_store P p g v a) c'.
Proof.
  intros R Kp Kg OK ((A0 & AI) & ->). unfold t_store. rcore R.
  destruct (bv_is_true (is_null (r_base a) p)) eqn:NL.
  { assert (X : is_null (r_base a) p = BTrue) by (destruct (is_null (r_base a) p); try discriminate; auto).
    elim A0. eapply is_null_true; eauto. }
  set (a0 := c_st c p) in *. set (z := sval_val v (c_st c)).
  set (cnt := count a g). set (strong := bv_is_false (rinit a g) || singleton_count cnt).
  (* a strong update happens only when a0 is the only cell that may have been written *)
  assert (EXCL : strong = true -> forall x w, c_hp c g x = Some w -> x = a0).
  { unfold strong. intros S x w Hx. apply orb_true_iff in S. destruct S as [S|S].
    - pose proof (rc_init _ _ RC g) as Ig. destruct (rinit a g); try discriminate. cbn in Ig.
      rewrite Ig in Hx. discriminate.
    - pose proof (cg_singleton _ _ S (rc_count _ _ RC g)) as SG.
      pose proof (rc_wf _ _ RC g x w Hx) as Ix. unfold creators, addrs in *.
      destruct (c_made c g) as [|[v1 x1] [|? ?]]; simpl in *.
      + contradiction.
      + destruct AI as [<-|[]]. destruct Ix as [<-|[]]. reflexivity.
      + destruct SG as [SG|(w0 & SG)]; discriminate. }
  set (c' := mkCS (upd (c_st c) g z) (hupd (c_hp c) g a0 (Some z)) (c_made c) (c_asite c) (c_vtg c)
                  (hupd (c_htg c) g a0 (sval_tags v c))).
  (* views of the new state *)
  assert (VW : forall s, view c' s ->
            view c (upd s g (c_st c g)) /\ (s g = z \/ (exists x, x <> a0 /\ c_hp c g x = Some (s g)))).
  { intros s [V1 V2]. split.
    - split.
      + intros k Kk. assert (N : k <> g) by (intros ->; congruence).
        rewrite upd_other by auto. rewrite (V1 k Kk). cbn. apply upd_other; auto.
      + intros q Kq. destruct (N.eq_dec q g) as [->|N].
        * left. apply upd_same.
        * rewrite upd_other by auto. destruct (V2 q Kq) as [E|(x & E)].
          -- left. rewrite E. cbn. apply upd_other; auto.
          -- right. exists x. cbn in E. rewrite hupd_other_rgn in E by auto. auto.
    - destruct (V2 g Kg) as [E|(x & E)].
      + left. rewrite E. cbn. apply upd_same.
      + cbn in E. destruct (Z.eq_dec x a0) as [->|N].
        * rewrite hupd_same in E. left. congruence.
        * rewrite hupd_other_addr in E by auto. right. eauto. }
  set (b := EMap (r_base a)).
  assert (EV : forall s0, view c s0 -> eval_le (sval_exp v) s0 = z).
  { intros s0 V. eapply sval_val_view; eauto. }
  (* the abstract state of everything but the base domain after the store *)
  set (sS := let s1 := match v with
                       | SNull => set_alloc P a g ds_empty
                       | SVar x true => set_alloc P a g (r_alloc a x)
                       | _ => a
                       end in
             match v with SVar x _ => set_tags P s1 g (r_tags s1 x) | _ => s1 end).
  set (sW := let s1 := match v with
                       | SVar x true => set_alloc P a g (ds_join (r_alloc a g) (r_alloc a x))
                       | _ => a
                       end in
             match v with
             | SVar x _ => set_tags P s1 g (ds_join (r_tags s1 g) (r_tags s1 x))
             | _ => s1
             end).
  set (res := if strong then (sS, d_assign g (sval_exp v) b) else (sW, d_weak_assign g (sval_exp v) b)).
  change (relv (with_base (set_rgn (fst res) g (cnt, BTop)) (snd res)) c').
  assert (SB : r_base sS = r_base a /\ r_rgn sS = r_rgn a /\ r_base sW = r_base a /\ r_rgn sW = r_rgn a).
  { unfold sS, sW. destruct v as [x [|]| |]; cbn zeta;
      rewrite ?set_tags_base, ?set_tags_rgn, ?set_alloc_base, ?set_alloc_rgn; auto. }
  destruct SB as (SB1 & SR1 & SB2 & SR2).
  (* base domain *)
  assert (GB : forall s, view c' s -> genv (snd res) s).
  { intros s V. destruct (VW s V) as [V0 HS]. pose proof (rc_base _ _ RC _ V0) as G0.
    unfold res. destruct strong eqn:ST; cbn [snd].
    - assert (E : s g = z).
      { destruct HS as [E|(x & N & E)]; auto. elim N. eapply EXCL; eauto. }
      eapply genv_ext; [|apply (d_assign_sound g (sval_exp v) b _ G0)].
      intros k. rewrite (EV _ V0). destruct (N.eq_dec k g) as [->|N].
      + rewrite upd_same. auto.
      + rewrite !upd_other by auto. auto.
    - destruct (d_weak_assign_sound g (sval_exp v) b _ G0) as [W1 W2].
      destruct HS as [E|(x & N & E)].
      + eapply genv_ext; [|exact W2]. intros k. rewrite (EV _ V0).
        destruct (N.eq_dec k g) as [->|N]; [rewrite upd_same; auto | rewrite !upd_other by auto; auto].
      + (* the old cell x keeps its value: s is also a view of the old state *)
        assert (Vs : view c s).
        { destruct V0 as [U1 U2]. split.
          - intros k Kk. rewrite <- (U1 k Kk). symmetry. apply upd_other. intros ->; congruence.
          - intros q Kq. destruct (N.eq_dec q g) as [->|Nq]; [right; eauto|].
            specialize (U2 q Kq). rewrite upd_other in U2 by auto. auto. }
        destruct (d_weak_assign_sound g (sval_exp v) b _ (rc_base _ _ RC _ Vs)) as [W3 _]. exact W3. }
  destruct (snd res) as [|m] eqn:ES; [elim (GB _ (view_id c'))|].
  cbn [with_base relv].
  assert (RG : r_rgn (fst res) = r_rgn a) by (unfold res; destruct strong; cbn [fst]; auto).
  assert (HPO : forall g' x, g' <> g -> c_hp c' g' x = c_hp c g' x).
  { intros. cbn. apply hupd_other_rgn; auto. }
  assert (ALO : forall w, w <> g -> r_alloc (fst res) w = r_alloc a w).
  { intros w N. unfold res, sS, sW. destruct strong, v as [x0 [|]| |]; cbn [fst];
      rewrite ?set_tags_alloc, ?set_alloc_get; auto; destruct (p_alloc P); auto;
      destruct (N.eqb_spec w g); congruence. }
  assert (ALOFF : p_alloc P = false -> forall w, r_alloc (fst res) w = r_alloc a w).
  { intros Off w. unfold res, sS, sW. destruct strong, v as [x0 [|]| |]; cbn [fst];
      rewrite ?set_tags_alloc, ?set_alloc_get, ?Off; auto. }
  assert (TGO : forall w, w <> g -> r_tags (fst res) w = r_tags a w).
  { intros w N. unfold res, sS, sW. destruct strong, v as [x0 [|]| |]; cbn [fst];
      rewrite ?set_tags_get, ?set_alloc_tags; auto; destruct (p_tags P); auto;
      destruct (N.eqb_spec w g); congruence. }
  assert (TGOFF : p_tags P = false -> forall w, r_tags (fst res) w = r_tags a w).
  { intros Off w. unfold res, sS, sW. destruct strong, v as [x0 [|]| |]; cbn [fst];
      rewrite ?set_tags_get, ?set_alloc_tags, ?Off, ?set_alloc_tags; auto. }
  unfold c' in *. clear c'.
  constructor.
  - constructor; cbn [r_base r_rgn set_rgn].
    + exact GB.
    + intros g'. unfold count. cbn [r_rgn]. rewrite RG. destruct (N.eq_dec g' g) as [->|N].
      * rewrite fupd_same. apply (rc_count _ _ RC).
      * rewrite fupd_other by auto. apply (rc_count _ _ RC).
    + intros g'. unfold rinit. cbn [r_rgn]. rewrite RG. destruct (N.eq_dec g' g) as [->|N].
      * rewrite fupd_same. exact I.
      * rewrite fupd_other by auto. apply (igamma_hp _ c).
        -- intros x. apply HPO; auto.
        -- apply (rc_init _ _ RC).
    + intros g' x w Hw. cbn in Hw. change (In x (addrs c g')).
      destruct (N.eq_dec g' g) as [->|N]; [|rewrite hupd_other_rgn in Hw by auto; eapply (rc_wf _ _ RC); eauto].
      destruct (Z.eq_dec x a0) as [->|N]; auto.
      rewrite hupd_other_addr in Hw by auto. eapply (rc_wf _ _ RC); eauto.
  - intros w Kw. assert (N : w <> g) by (intros ->; apply refv_nonrgn in Kw; congruence).
    cbn [r_alloc set_rgn c_st]. rewrite upd_other by auto. rewrite ALO by auto.
    change (sgamma c (r_alloc a w) (c_st c w)). apply (r_svar _ _ R); auto.
  - intros g' Kg' x w Hw. cbn [r_alloc set_rgn]. cbn in Hw.
    destruct (N.eq_dec g' g) as [->|N].
    2:{ rewrite hupd_other_rgn in Hw by auto. rewrite ALO by auto.
        change (sgamma c (r_alloc a g') w). eapply (r_srgn _ _ R); eauto. }
    destruct (p_alloc P) eqn:PA; [|rewrite ALOFF by auto; rewrite (r_soff _ _ R PA); exact I].
    match goal with |- sgamma ?cc ?d ?y => change (sgamma c d y) end.
    destruct (Z.eq_dec x a0) as [->|Nx].
    + rewrite hupd_same in Hw. inversion Hw; subst w. clear Hw.
      unfold res, sS, sW. destruct v as [x0 isr| |].
      * destruct OK as [K0 K1]. destruct (K1 Kg') as [-> Kr0].
        pose proof (r_svar _ _ R x0 Kr0) as X.
        assert (Z0 : z = c_st c x0) by (unfold z, sval_val; apply eval_le_var). rewrite Z0.
        destruct strong; cbn [fst]; rewrite set_tags_alloc, set_alloc_get, PA, N.eqb_refl; auto.
        apply sg_join; auto.
      * cbn in OK. congruence.
      * assert (Z0 : z = 0) by (unfold z, sval_val; apply eval_le_const). rewrite Z0. apply sgamma_zero.
    + rewrite hupd_other_addr in Hw by auto.
      pose proof (r_srgn _ _ R g Kg' _ _ Hw) as X.
      unfold res. destruct strong eqn:ST; [elim Nx; eapply EXCL; eauto|]. cbn [fst]. unfold sW.
      destruct v as [x0 isr| |]; auto.
      destruct OK as [K0 K1]. destruct (K1 Kg') as [-> Kr0].
      rewrite set_tags_alloc, set_alloc_get, PA, N.eqb_refl. apply sg_join; auto.
  - intros Off w. cbn [r_alloc set_rgn]. rewrite ALOFF by auto. apply (r_soff _ _ R); auto.
  - cbn. apply (r_anull _ _ R).
  - intros w Kw. assert (N : w <> g) by (intros ->; congruence).
    cbn [r_tags set_rgn c_vtg]. rewrite TGO by auto. apply (r_tvar _ _ R); auto.
  - intros g' Kg' x. cbn [r_tags set_rgn c_htg].
    destruct (N.eq_dec g' g) as [->|N].
    2:{ rewrite hupd_other_rgn by auto. rewrite TGO by auto. apply (r_trgn _ _ R); auto. }
    destruct (p_tags P) eqn:PT; [|rewrite TGOFF by auto; rewrite (r_toff _ _ R PT); exact I].
    destruct (Z.eq_dec x a0) as [->|Nx].
    + rewrite hupd_same. unfold res, sS, sW. destruct v as [x0 isr| |]; cbn [sval_tags].
      * destruct OK as [K0 K1]. pose proof (r_tvar _ _ R x0 K0) as X.
        destruct strong; cbn [fst]; destruct isr; rewrite set_tags_get, PT, N.eqb_refl, ?set_alloc_tags; auto;
          apply tg_join; auto.
      * apply tg_nil.
      * apply tg_nil.
    + rewrite hupd_other_addr by auto.
      pose proof (r_trgn _ _ R g Kg' x) as X.
      unfold res. destruct strong eqn:ST; cbn [fst].
      * destruct (c_hp c g x) as [w|] eqn:Hx; [elim Nx; eapply EXCL; eauto|].
        rewrite (r_tuw _ _ R _ _ Hx). apply tg_nil.
      * unfold sW. destruct v as [x0 isr| |]; auto; try (destruct isr); rewrite ?set_alloc_tags; auto;
          rewrite set_tags_get, PT, N.eqb_refl, ?set_alloc_tags; apply tg_join; auto.
  - intros Off w. cbn [r_tags set_rgn]. rewrite TGOFF by auto. apply (r_toff _ _ R); auto.
  - intros g' x Hx. cbn [c_hp c_htg] in *.
    destruct (N.eq_dec g' g) as [->|N].
    + destruct (Z.eq_dec x a0) as [->|Nx]; [rewrite hupd_same in Hx; discriminate|].
      rewrite hupd_other_addr in Hx by auto. rewrite hupd_other_addr by auto. apply (r_tuw _ _ R); auto.
    + rewrite hupd_other_rgn in Hx by auto. rewrite hupd_other_rgn by auto. apply (r_tuw _ _ R); auto.
Qed.

(* ---- region_copy ---- *)
Lemma t_rcopy_sound a c c' r l g :
  rel a c -> is_rgn l = true -> is_rgn g = true -> l <> g -> is_refrgn l = is_refrgn g ->
  cstep (ORcopy r l g) c c' -> relv (t_rcopy P l g a) c'.
Proof.
  intros R Kl Kg Nlg Krr ->. unfold t_rcopy. rcore R.
  set (info := r_rgn a g).
  set (s1 := set_rgn a l info). set (s2 := set_alloc P s1 l (r_alloc s1 g)).
  set (s3 := set_tags P s2 l (r_tags s2 g)).
  assert (EB : r_base s3 = r_base a) by (unfold s3, s2; rewrite set_tags_base, set_alloc_base; reflexivity).
  assert (ER : r_rgn s3 = fupd (r_rgn a) l info) by (unfold s3, s2; rewrite set_tags_rgn, set_alloc_rgn; reflexivity).
  assert (EAL : forall w, r_alloc s3 w = if p_alloc P then (if N.eqb w l then r_alloc a g else r_alloc a w) else r_alloc a w).
  { intros w. unfold s3, s2. rewrite set_tags_alloc, set_alloc_get. reflexivity. }
  assert (ETG : forall w, r_tags s3 w = if p_tags P then (if N.eqb w l then r_tags a g else r_tags a w) else r_tags a w).
  { intros w. unfold s3. rewrite set_tags_get. unfold s2. rewrite !set_alloc_tags. reflexivity. }
  rewrite EB. set (b := EMap (r_base a)).
  set (c' := mkCS (upd (c_st c) l (c_st c g)) (fupd (c_hp c) l (c_hp c g)) (fupd (c_made c) l (c_made c g))
                  (c_asite c) (c_vtg c) (fupd (c_htg c) l (c_htg c g))).
  assert (VW : forall s, view c' s -> view c (upd s l (c_st c l)) /\ view c (upd (upd s l (c_st c l)) g (s l))).
  { intros s [V1 V2].
    assert (V0 : view c (upd s l (c_st c l))).
    { split.
      - intros k Kk. assert (N : k <> l) by (intros ->; congruence).
        rewrite upd_other by auto. rewrite (V1 k Kk). cbn. apply upd_other; auto.
      - intros q Kq. destruct (N.eq_dec q l) as [->|N]; [left; apply upd_same|].
        rewrite upd_other by auto. destruct (V2 q Kq) as [E|(x & E)].
        + left. rewrite E. cbn. apply upd_other; auto.
        + right. exists x. cbn in E. rewrite fupd_other in E by auto. auto. }
    split; auto. destruct V0 as [U1 U2]. split.
    - intros k Kk. rewrite upd_other by (intros ->; congruence). auto.
    - intros q Kq. destruct (N.eq_dec q g) as [->|N]; [|rewrite upd_other by auto; auto].
      rewrite upd_same. destruct (V2 l Kl) as [E|(x & E)].
      + left. rewrite E. cbn. rewrite upd_same. reflexivity.
      + right. exists x. cbn in E. rewrite fupd_same in E. auto. }
  assert (GB : forall s, view c' s ->
            genv (if singleton_count (fst info) then d_assign l (le_var g) b else d_expand g l (e_forget b l)) s).
  { intros s V. destruct (VW s V) as [V0 V1].
    pose proof (rc_base _ _ RC _ V0) as G0. pose proof (rc_base _ _ RC _ V1) as G1.
    assert (EXT : forall k, upd (upd s l (c_st c l)) l (s l) k = s k).
    { intros k. destruct (N.eq_dec k l) as [->|N]; [apply upd_same | rewrite !upd_other by auto; auto]. }
    destruct (singleton_count (fst info)).
    - rewrite d_assign_var. eapply genv_ext; [exact EXT|]. apply e_set_sound; auto.
      pose proof (e_at_sound b _ g G1) as X. rewrite upd_same in X. exact X.
    - eapply genv_ext; [exact EXT|]. apply d_expand_sound.
      + apply e_forget_keep; auto.
      + exists (upd (upd s l (c_st c l)) g (s l)). split; [apply e_forget_keep; auto|]. split.
        * intros k N. apply upd_other; auto.
        * rewrite upd_same. auto. }
  match goal with |- relv (if ?x then with_base s3 ?e1 else with_base s3 ?e2) _ =>
    replace (if x then with_base s3 e1 else with_base s3 e2) with (with_base s3 (if x then e1 else e2)) by (destruct x; auto)
  end.
  destruct (if singleton_count (fst info) then _ else _) as [|m] eqn:ES; [elim (GB _ (view_id c'))|].
  cbn [with_base relv]. unfold c' in *. clear c'.
  constructor.
  - constructor; cbn [r_base r_rgn].
    + exact GB.
    + intros q. unfold count. cbn [r_rgn]. rewrite ER. unfold creators. cbn [c_made].
      destruct (N.eq_dec q l) as [->|N]; [rewrite !fupd_same | rewrite !fupd_other by auto]; apply (rc_count _ _ RC).
    + intros q. unfold rinit. cbn [r_rgn]. rewrite ER.
      destruct (N.eq_dec q l) as [->|N]; [rewrite fupd_same | rewrite fupd_other by auto].
      * apply (igamma_eq _ c _ g); [|apply (rc_init _ _ RC)]. intros x. cbn. rewrite fupd_same. auto.
      * apply (igamma_hp _ c); [|apply (rc_init _ _ RC)]. intros x. cbn. rewrite fupd_other by auto. auto.
    + intros q x w Hw. cbn [c_hp] in Hw. unfold addrs. cbn [c_made].
      destruct (N.eq_dec q l) as [->|N].
      * rewrite fupd_same in Hw. rewrite fupd_same. eapply (rc_wf _ _ RC); eauto.
      * rewrite fupd_other in Hw by auto. rewrite fupd_other by auto. eapply (rc_wf _ _ RC); eauto.
  - intros w Kw. assert (N : w <> l) by (intros ->; apply refv_nonrgn in Kw; congruence).
    cbn [r_alloc c_st]. rewrite upd_other by auto. rewrite EAL.
    replace (if p_alloc P then if N.eqb w l then r_alloc a g else r_alloc a w else r_alloc a w) with (r_alloc a w).
    + change (sgamma c (r_alloc a w) (c_st c w)). apply (r_svar _ _ R); auto.
    + destruct (p_alloc P); auto. destruct (N.eqb_spec w l); congruence.
  - intros q Kq x w Hw. cbn [r_alloc]. cbn [c_hp] in Hw. rewrite EAL.
    match goal with |- sgamma ?cc ?d ?y => change (sgamma c d y) end.
    destruct (N.eq_dec q l) as [->|N].
    + rewrite fupd_same in Hw. rewrite N.eqb_refl.
      destruct (p_alloc P) eqn:PA; [|rewrite (r_soff _ _ R PA); exact I].
      eapply (r_srgn _ _ R g); eauto; congruence.
    + rewrite fupd_other in Hw by auto.
      replace (if p_alloc P then if N.eqb q l then r_alloc a g else r_alloc a q else r_alloc a q) with (r_alloc a q).
      * eapply (r_srgn _ _ R); eauto.
      * destruct (p_alloc P); auto. destruct (N.eqb_spec q l); congruence.
  - intros Off w. cbn [r_alloc]. rewrite EAL, Off. apply (r_soff _ _ R); auto.
  - cbn. apply (r_anull _ _ R).
  - intros w Kw. assert (N : w <> l) by (intros ->; congruence).
    cbn [r_tags c_vtg]. rewrite ETG.
    replace (if p_tags P then if N.eqb w l then r_tags a g else r_tags a w else r_tags a w) with (r_tags a w).
    + apply (r_tvar _ _ R); auto.
    + destruct (p_tags P); auto. destruct (N.eqb_spec w l); congruence.
  - intros q Kq x. cbn [r_tags c_htg]. rewrite ETG.
    destruct (N.eq_dec q l) as [->|N].
    + rewrite fupd_same, N.eqb_refl. destruct (p_tags P) eqn:PT; [|rewrite (r_toff _ _ R PT); exact I].
      apply (r_trgn _ _ R); auto.
    + rewrite fupd_other by auto.
      replace (if p_tags P then if N.eqb q l then r_tags a g else r_tags a q else r_tags a q) with (r_tags a q).
      * apply (r_trgn _ _ R); auto.
      * destruct (p_tags P); auto. destruct (N.eqb_spec q l); congruence.
  - intros Off w. cbn [r_tags]. rewrite ETG, Off. apply (r_toff _ _ R); auto.
  - intros q x Hx. cbn [c_hp c_htg] in *. destruct (N.eq_dec q l) as [->|N].
    + rewrite fupd_same in Hx. rewrite fupd_same. apply (r_tuw _ _ R); auto.
    + rewrite fupd_other in Hx by auto. rewrite fupd_other by auto. apply (r_tuw _ _ R); auto.
Qed.

(* ---- region_init ---- *)
Lemma t_init_sound a a' c c' r g :
  rel a c -> is_rgn g = true -> t_init P g a = Some a' -> cstep (OInit r g) c c' -> rel a' c'.
Proof.
  intros R Kg T ->. unfold t_init in T. destruct (sr_leq (count a g) ROneOrMore); [discriminate|].
  inversion T; subst a'. clear T. rcore R.
  set (s1 := set_rgn a g (RZero, BFalse)). set (s2 := set_alloc P s1 g ds_empty).
  assert (EAL : forall w, r_alloc (set_tags P s2 g ds_empty) w = if p_alloc P then (if N.eqb w g then ds_empty else r_alloc a w) else r_alloc a w).
  { intros w. unfold s2. rewrite set_tags_alloc, set_alloc_get. reflexivity. }
  assert (ETG : forall w, r_tags (set_tags P s2 g ds_empty) w = if p_tags P then (if N.eqb w g then ds_empty else r_tags a w) else r_tags a w).
  { intros w. rewrite set_tags_get. unfold s2. rewrite set_alloc_tags. reflexivity. }
  assert (ER : r_rgn (set_tags P s2 g ds_empty) = fupd (r_rgn a) g (RZero, BFalse)).
  { unfold s2. rewrite set_tags_rgn, set_alloc_rgn. reflexivity. }
  assert (EB : r_base (set_tags P s2 g ds_empty) = r_base a).
  { unfold s2. rewrite set_tags_base, set_alloc_base. reflexivity. }
  constructor.
  - constructor.
    + intros s [V1 V2]. rewrite EB. apply (rc_base _ _ RC). split; auto.
      intros q Kq. destruct (V2 q Kq) as [E|(x & E)]; auto. cbn in E.
      destruct (N.eq_dec q g) as [->|N]; [rewrite fupd_same in E; discriminate|].
      rewrite fupd_other in E by auto. eauto.
    + intros q. unfold count, creators. rewrite ER. cbn [c_made].
      destruct (N.eq_dec q g) as [->|N]; [rewrite !fupd_same; reflexivity|].
      rewrite !fupd_other by auto. apply (rc_count _ _ RC).
    + intros q. unfold rinit. rewrite ER.
      destruct (N.eq_dec q g) as [->|N]; [rewrite fupd_same; intros x; cbn; rewrite fupd_same; auto|].
      rewrite fupd_other by auto. apply (igamma_hp _ c); [|apply (rc_init _ _ RC)].
      intros x. cbn. rewrite fupd_other by auto. auto.
    + intros q x w Hw. cbn [c_hp] in Hw. unfold addrs. cbn [c_made].
      destruct (N.eq_dec q g) as [->|N]; [rewrite fupd_same in Hw; discriminate|].
      rewrite fupd_other in Hw by auto. rewrite fupd_other by auto. eapply (rc_wf _ _ RC); eauto.
  - intros w Kw. assert (N : w <> g) by (intros ->; apply refv_nonrgn in Kw; congruence).
    rewrite EAL. cbn [c_st].
    replace (if p_alloc P then if N.eqb w g then ds_empty else r_alloc a w else r_alloc a w) with (r_alloc a w).
    + apply (r_svar _ _ R); auto.
    + destruct (p_alloc P); auto. destruct (N.eqb_spec w g); congruence.
  - intros q Kq x w Hw. cbn [c_hp] in Hw. rewrite EAL.
    destruct (N.eq_dec q g) as [->|N]; [rewrite fupd_same in Hw; discriminate|].
    rewrite fupd_other in Hw by auto.
    replace (if p_alloc P then if N.eqb q g then ds_empty else r_alloc a q else r_alloc a q) with (r_alloc a q).
    + eapply (r_srgn _ _ R); eauto.
    + destruct (p_alloc P); auto. destruct (N.eqb_spec q g); congruence.
  - intros Off w. rewrite EAL, Off. apply (r_soff _ _ R); auto.
  - apply (r_anull _ _ R).
  - intros w Kw. assert (N : w <> g) by (intros ->; congruence). rewrite ETG. cbn [c_vtg].
    replace (if p_tags P then if N.eqb w g then ds_empty else r_tags a w else r_tags a w) with (r_tags a w).
    + apply (r_tvar _ _ R); auto.
    + destruct (p_tags P); auto. destruct (N.eqb_spec w g); congruence.
  - intros q Kq x. rewrite ETG. cbn [c_htg].
    destruct (N.eq_dec q g) as [->|N]; [rewrite fupd_same; apply tg_nil|].
    rewrite fupd_other by auto.
    replace (if p_tags P then if N.eqb q g then ds_empty else r_tags a q else r_tags a q) with (r_tags a q).
    + apply (r_trgn _ _ R); auto.
    + destruct (p_tags P); auto. destruct (N.eqb_spec q g); congruence.
  - intros Off w. rewrite ETG, Off. apply (r_toff _ _ R); auto.
  - intros q x Hx. cbn [c_hp c_htg] in *. destruct (N.eq_dec q g) as [->|N]; [rewrite fupd_same; auto|].
    rewrite fupd_other in Hx by auto. rewrite fupd_other by auto. apply (r_tuw _ _ R); auto.
Qed.

(* ---- operator-= on a region ---- *)
Lemma t_havoc_region_sound a c c' r v :
  rel a c -> is_rgn v = true -> cstep (OHavoc r v KRegion) c c' -> relv (t_havoc P v KRegion a) c'.
Proof.
  intros R Kv (HS & HH & HM & HA & HV & HT & HW & HU). unfold t_havoc. rcore R.
  set (s1 := set_rgn a v ri_top). set (s2 := set_alloc P s1 v ds_top). set (s3 := set_tags P s2 v ds_top).
  assert (EB : r_base s3 = r_base a) by (unfold s3, s2; rewrite set_tags_base, set_alloc_base; reflexivity).
  assert (ER : r_rgn s3 = fupd (r_rgn a) v ri_top) by (unfold s3, s2; rewrite set_tags_rgn, set_alloc_rgn; reflexivity).
  assert (EAL : forall w, r_alloc s3 w = if p_alloc P then (if N.eqb w v then ds_top else r_alloc a w) else r_alloc a w).
  { intros w. unfold s3, s2. rewrite set_tags_alloc, set_alloc_get. reflexivity. }
  assert (ETG : forall w, r_tags s3 w = if p_tags P then (if N.eqb w v then ds_top else r_tags a w) else r_tags a w).
  { intros w. unfold s3. rewrite set_tags_get. unfold s2. rewrite set_alloc_tags. reflexivity. }
  rewrite EB.
  assert (GB : forall s, view c' s -> genv (e_forget (EMap (r_base a)) v) s).
  { intros s [V1 V2].
    assert (V0 : view c (upd s v (c_st c v))).
    { split.
      - intros k Kk. assert (N : k <> v) by (intros ->; congruence).
        rewrite upd_other by auto. rewrite (V1 k Kk). auto.
      - intros q Kq. destruct (N.eq_dec q v) as [->|N]; [left; apply upd_same|].
        rewrite upd_other by auto. destruct (V2 q Kq) as [E|(x & E)].
        + left. rewrite E. auto.
        + right. exists x. rewrite HH in E by auto. auto. }
    eapply genv_ext; [|apply (e_forget_sound (EMap (r_base a)) _ v (s v) (rc_base _ _ RC _ V0))].
    intros k. destruct (N.eq_dec k v) as [->|N]; [apply upd_same | rewrite !upd_other by auto; auto]. }
  destruct (e_forget (EMap (r_base a)) v) as [|m] eqn:ES; [elim (GB _ (view_id c'))|].
  cbn [with_base relv].
  assert (MONO : forall d y, sgamma c d y -> sgamma c' d y).
  { intros d y. apply sgamma_mono. intros ? ? E. rewrite HA. auto. }
  constructor.
  - constructor; cbn [r_base r_rgn].
    + exact GB.
    + intros q. unfold count, creators. cbn [r_rgn]. rewrite ER.
      destruct (N.eq_dec q v) as [->|N]; [rewrite fupd_same; exact I|].
      rewrite fupd_other by auto. rewrite HM by auto. apply (rc_count _ _ RC).
    + intros q. unfold rinit. cbn [r_rgn]. rewrite ER.
      destruct (N.eq_dec q v) as [->|N]; [rewrite fupd_same; exact I|].
      rewrite fupd_other by auto. apply (igamma_hp _ c); [|apply (rc_init _ _ RC)].
      intros x. rewrite HH by auto. auto.
    + exact HW.
  - intros w Kw. assert (N : w <> v) by (intros ->; apply refv_nonrgn in Kw; congruence).
    cbn [r_alloc]. rewrite EAL, HS by auto.
    replace (if p_alloc P then if N.eqb w v then ds_top else r_alloc a w else r_alloc a w) with (r_alloc a w).
    + apply MONO. apply (r_svar _ _ R); auto.
    + destruct (p_alloc P); auto. destruct (N.eqb_spec w v); congruence.
  - intros q Kq x w Hw. cbn [r_alloc]. rewrite EAL.
    destruct (N.eq_dec q v) as [->|N].
    + rewrite N.eqb_refl. destruct (p_alloc P) eqn:PA; [exact I|]. rewrite (r_soff _ _ R PA). exact I.
    + rewrite HH in Hw by auto.
      replace (if p_alloc P then if N.eqb q v then ds_top else r_alloc a q else r_alloc a q) with (r_alloc a q).
      * apply MONO. eapply (r_srgn _ _ R); eauto.
      * destruct (p_alloc P); auto. destruct (N.eqb_spec q v); congruence.
  - intros Off w. cbn [r_alloc]. rewrite EAL, Off. apply (r_soff _ _ R); auto.
  - rewrite HA. apply (r_anull _ _ R).
  - intros w Kw. assert (N : w <> v) by (intros ->; congruence). cbn [r_tags]. rewrite ETG, HV.
    replace (if p_tags P then if N.eqb w v then ds_top else r_tags a w else r_tags a w) with (r_tags a w).
    + apply (r_tvar _ _ R); auto.
    + destruct (p_tags P); auto. destruct (N.eqb_spec w v); congruence.
  - intros q Kq x. cbn [r_tags]. rewrite ETG.
    destruct (N.eq_dec q v) as [->|N].
    + rewrite N.eqb_refl. destruct (p_tags P) eqn:PT; [exact I|]. rewrite (r_toff _ _ R PT). exact I.
    + rewrite HT by auto.
      replace (if p_tags P then if N.eqb q v then ds_top else r_tags a q else r_tags a q) with (r_tags a q).
      * apply (r_trgn _ _ R); auto.
      * destruct (p_tags P); auto. destruct (N.eqb_spec q v); congruence.
  - intros Off w. cbn [r_tags]. rewrite ETG, Off. apply (r_toff _ _ R); auto.
  - intros q x Hx. destruct (N.eq_dec q v) as [->|N]; auto.
    rewrite HH in Hx by auto. rewrite HT by auto. apply (r_tuw _ _ R); auto.
Qed.

(* ---- add_tag, ref_free ---- *)
Lemma t_tag_sound a c c' r g t :
  rel a c -> is_rgn g = true -> cstep (OTag r g t) c c' -> rel (t_tag P g t a) c'.
Proof.
  intros R Kg (x0 & z0 & Hz & ->). unfold t_tag. rcore R.
  constructor.
  - destruct RC as [B C I W]. constructor; rewrite ?set_tags_base; unfold count, rinit; rewrite ?set_tags_rgn; auto.
  - intros w Kw. rewrite set_tags_alloc. apply (r_svar _ _ R); auto.
  - intros q Kq x w Hw. rewrite set_tags_alloc. eapply (r_srgn _ _ R); eauto.
  - intros Off w. rewrite set_tags_alloc. apply (r_soff _ _ R); auto.
  - apply (r_anull _ _ R).
  - intros w Kw. assert (N : w <> g) by (intros ->; congruence). rewrite set_tags_get.
    replace (if p_tags P then if N.eqb w g then ds_join (r_tags a g) (Some [t]) else r_tags a w else r_tags a w) with (r_tags a w).
    + apply (r_tvar _ _ R); auto.
    + destruct (p_tags P); auto. destruct (N.eqb_spec w g); congruence.
  - intros q Kq x. rewrite set_tags_get. cbn [c_htg].
    destruct (p_tags P) eqn:PT; [|rewrite (r_toff _ _ R PT); exact I].
    destruct (N.eq_dec q g) as [->|N].
    + rewrite N.eqb_refl. pose proof (r_trgn _ _ R g Kg) as X.
      destruct (Z.eq_dec x x0) as [->|Nx].
      * rewrite hupd_same. specialize (X x0). destruct (r_tags a g) as [T|]; [|exact I].
        cbn in *. intros y [<-|Iy]; apply in_or_app; [right; left; auto | left; auto].
      * rewrite hupd_other_addr by auto. apply tg_join. left. apply X.
    + destruct (N.eqb_spec q g); [congruence|]. rewrite hupd_other_rgn by auto. apply (r_trgn _ _ R); auto.
  - intros Off w. rewrite set_tags_get, Off. apply (r_toff _ _ R); auto.
  - intros q x Hx. cbn [c_hp c_htg] in *.
    destruct (N.eq_dec q g) as [->|N]; [|rewrite hupd_other_rgn by auto; apply (r_tuw _ _ R); auto].
    destruct (Z.eq_dec x x0) as [->|Nx]; [congruence|]. rewrite hupd_other_addr by auto. apply (r_tuw _ _ R); auto.
Qed.

Lemma t_free_sound a c g p : rel a c -> rel (t_free P g p a) c.
Proof.
  intros R. unfold t_free. rcore R.
  constructor.
  - destruct RC as [B C I W]. constructor; rewrite ?set_alloc_base; unfold count, rinit; rewrite ?set_alloc_rgn; auto.
  - intros w Kw. rewrite set_alloc_get. destruct (p_alloc P); [|apply (r_svar _ _ R); auto].
    destruct (N.eqb w p); [exact I | apply (r_svar _ _ R); auto].
  - intros q Kq x w Hw. rewrite set_alloc_get. destruct (p_alloc P); [|eapply (r_srgn _ _ R); eauto].
    destruct (N.eqb q p); [exact I | eapply (r_srgn _ _ R); eauto].
  - intros Off w. rewrite set_alloc_get, Off. apply (r_soff _ _ R); auto.
  - apply (r_anull _ _ R).
  - intros w Kw. rewrite set_alloc_tags. apply (r_tvar _ _ R); auto.
  - intros q Kq x. rewrite set_alloc_tags. apply (r_trgn _ _ R); auto.
  - intros Off w. rewrite set_alloc_tags. apply (r_toff _ _ R); auto.
  - apply (r_tuw _ _ R).
Qed.

(* ---- constraints: the base domain is refined, everything else is kept ---- *)
Lemma rel_refine_base a c E :
  rel a c -> (forall s, view c s -> genv E s) -> relv (with_base a E) c.
Proof.
  intros R H. destruct E as [|m]; [elim (H _ (view_id c))|]. cbn [with_base relv].
  destruct R as [RC S1 S2 S3 S4 T1 T2 T3 T4]. constructor; auto.
  destruct RC as [B C I W]. constructor; auto.
Qed.

Lemma sat_view k c s : nonrgn_exp (lc_exp k) -> view c s -> sat k s <-> sat k (c_st c).
Proof. intros N V. unfold sat. rewrite (eval_view _ c s N V). tauto. Qed.

Lemma t_assume_sound a c c' r cs :
  rel a c -> (forall k, In k cs -> wf_lc k /\ nonrgn_exp (lc_exp k)) ->
  cstep (OAssume r cs) c c' -> relv (t_assume cs a) c'.
Proof.
  intros R OK [S ->]. unfold t_assume. apply rel_refine_base; auto.
  intros s V. apply d_add_sound; [|apply (rc_base _ _ (r_core _ _ R)); auto].
  intros k I. destruct (OK k I) as [W N]. split; auto. apply (sat_view k c s N V). auto.
Qed.

(* ---- ref_assume ---- *)
Definition rcst_ok (rc : rcst) (e : linexp) : Prop :=
  nonrgn_exp e /\ wf_le e /\
  (forall s, sat (mkLC (rrel_kind (rcst_rel rc)) e) s <-> rcst_holds rc s) /\
  match rc with RBin REq p q _ => is_refv p = true /\ is_refv q = true | _ => True end.

Lemma t_assume_ref_sound a c c' rc e :
  rel a c -> rcst_ok rc e -> c_assume_ref rc c c' -> relv (t_assume_ref P rc e a) c'.
Proof.
  intros R (Ne & We & Sem & Kr) (Hold & Site & ->). unfold t_assume_ref. rcore R.
  match goal with |- relv (if ?x then _ else _) _ => destruct x eqn:SD end.
  - (* the allocation sites cannot be disjoint *)
    exfalso. destruct rc as [rl p|rl p q k]; [discriminate|]. destruct rl; try discriminate.
    destruct Kr as [Kp Kq].
    apply andb_true_iff in SD. destruct SD as [PA SD]. cbv zeta in SD.
    apply andb_true_iff in SD. destruct SD as [SD D4].
    apply andb_true_iff in SD. destruct SD as [SD D3].
    apply andb_true_iff in SD. destruct SD as [D1 D2].
    cbn in Hold. pose proof (r_svar _ _ R p Kp) as Xp. pose proof (r_svar _ _ R q Kq) as Xq.
    rewrite negb_true_iff in D1, D2. unfold ds_meet in D4. rewrite D1, D2 in D4. cbn [orb] in D4.
    destruct (r_alloc a p) as [sp|] eqn:Ap; [|congruence].
    destruct (r_alloc a q) as [sq|] eqn:Aq; [|congruence].
    cbn in Xp, Xq.
    assert (NP : c_st c p <> 0 \/ c_st c q <> 0).
    { apply orb_true_iff in D3. destruct D3 as [D|D]; [left|right]; eapply is_null_false; eauto.
      - destruct (is_null (r_base a) p); try discriminate; auto.
      - destruct (is_null (r_base a) q); try discriminate; auto. }
    pose proof (r_anull _ _ R) as A0.
    assert (NN : c_st c p <> 0 /\ c_st c q <> 0 /\ c_asite c (c_st c p) = c_asite c (c_st c q)).
    { destruct (Z.eq_dec k 0) as [->|Nk].
      - assert (E : c_st c p = c_st c q) by lia. rewrite E in *. destruct NP; auto.
      - specialize (Site Nk). repeat split; auto.
        + intros Z0. destruct NP as [A1|A1]; [contradiction|].
          destruct Xq as [X|(s & X & _)]; [contradiction|]. rewrite Z0, A0 in Site. congruence.
        + intros Z0. destruct NP as [A1|A1]; [|contradiction].
          destruct Xp as [X|(s & X & _)]; [contradiction|]. rewrite Z0, A0 in Site. congruence. }
    destruct NN as (Np & Nq & AS).
    destruct Xp as [X|(s1 & X1 & I1)]; [contradiction|]. destruct Xq as [X|(s2 & X2 & I2)]; [contradiction|].
    assert (s1 = s2) by congruence. subst s2.
    assert (F : In s1 (filter (fun z => ds_mem z sq) sp)) by (apply filter_In; split; auto; apply ds_mem_spec; auto).
    destruct (filter (fun z => ds_mem z sq) sp); [elim F | discriminate].
  - apply rel_refine_base; auto. intros s V. apply d_add_sound; [|apply (rc_base _ _ RC); auto].
    intros k0 [<-|[]]. split; [exact We|].
    apply (sat_view (mkLC (rrel_kind (rcst_rel rc)) e) c s Ne V). apply Sem. exact Hold.
Qed.

(* ---- select_ref ---- *)
Lemma wf_le_var v : wf_le (le_var v).
Proof.
  split; cbn.
  - constructor; [intros []|constructor].
  - intros co w [E|[]]. inversion E. lia.
Qed.

Definition arm_ok (p : var) (arm : option (var * var)) : Prop :=
  match arm with
  | None => True
  | Some (q, gq) => is_rgn q = false /\ (is_refv p = true -> is_refv q = true)
  end.

Lemma sel_arm_sound a c c' p g arm :
  rel a c -> is_rgn p = false -> arm_ok p arm -> c_sel_arm p g arm c c' ->
  relv (sel_arm P p g arm (le_var p) a) c'.
Proof.
  intros R Kp OK CS. destruct arm as [[q gq]|]; cbn [sel_arm c_sel_arm] in *.
  - destruct OK as [Kq Kr]. apply (t_gep_sound a c c' p g q gq (le_const 0) (le_var q)); auto.
    + intros co w [].
    + intros co w [E|[]]. inversion E; subst. auto.
    + intros s. rewrite eval_le_var, eval_le_const. lia.
  - destruct CS as (c1 & H1 & H2).
    pose proof (t_havoc_scalar_sound a c c1 p KRef R Kp) as X.
    destruct (t_havoc P p KRef a) as [s1|]; [|apply X; auto; congruence].
    assert (R1 : rel s1 c1) by (apply X; auto; congruence).
    apply (t_assume_ref_sound s1 c1 c' (RUn REq p) (le_var p)); auto.
    unfold rcst_ok. split; [|split; [|split]]; auto.
    + intros co w [E|[]]. inversion E; subst. auto.
    + apply wf_le_var.
    + intros s. unfold sat. cbn [lc_kind lc_exp rrel_kind rcst_rel]. rewrite eval_le_var. cbn. tauto.
Qed.

(* ---- lattice operations ---- *)
Lemma ds_join_none_l b : ds_join None b = None. Proof. reflexivity. Qed.
Lemma ds_join_none_r a : ds_join a None = None. Proof. destruct a; reflexivity. Qed.

Lemma comb_union fb a b c :
  (forall x y s, genv x s \/ genv y s -> genv (fb x y) s) ->
  rel a c \/ rel b c -> relv (comb_val fb ri_join ds_join a b) c.
Proof.
  intros FB H. unfold comb_val.
  assert (GB : forall s, view c s -> genv (fb (EMap (r_base a)) (EMap (r_base b))) s).
  { intros s V. apply FB. destruct H as [R|R]; [left|right]; apply (rc_base _ _ (r_core _ _ R)); auto. }
  destruct (fb (EMap (r_base a)) (EMap (r_base b))) as [|m]; [elim (GB _ (view_id c))|].
  cbn [with_base relv].
  constructor.
  - constructor; cbn [r_base r_rgn]; auto.
    + intros g. unfold count. cbn [r_rgn ri_join fst]. apply cg_join.
      destruct H as [R|R]; [left|right]; apply (rc_count _ _ (r_core _ _ R)).
    + intros g. unfold rinit. cbn [r_rgn ri_join snd]. apply ig_join.
      destruct H as [R|R]; [left|right]; apply (rc_init _ _ (r_core _ _ R)).
    + destruct H as [R|R]; apply (rc_wf _ _ (r_core _ _ R)).
  - intros v Kv. cbn [r_alloc]. apply sg_join. destruct H as [R|R]; [left|right]; apply (r_svar _ _ R); auto.
  - intros g Kg x z Hz. cbn [r_alloc]. apply sg_join. destruct H as [R|R]; [left|right]; eapply (r_srgn _ _ R); eauto.
  - intros Off v. cbn [r_alloc]. destruct H as [R|R]; rewrite (r_soff _ _ R Off);
      [apply ds_join_none_l | apply ds_join_none_r].
  - destruct H as [R|R]; apply (r_anull _ _ R).
  - intros v Kv. cbn [r_tags]. apply tg_join. destruct H as [R|R]; [left|right]; apply (r_tvar _ _ R); auto.
  - intros g Kg x. cbn [r_tags]. apply tg_join. destruct H as [R|R]; [left|right]; apply (r_trgn _ _ R); auto.
  - intros Off v. cbn [r_tags]. destruct H as [R|R]; rewrite (r_toff _ _ R Off);
      [apply ds_join_none_l | apply ds_join_none_r].
  - destruct H as [R|R]; apply (r_tuw _ _ R).
Qed.

Lemma v_join_sound x y c : relv x c \/ relv y c -> relv (v_join x y) c.
Proof.
  destruct x as [a|], y as [b|]; cbn [v_join relv]; try tauto.
  apply comb_union. intros; apply e_join_sound; auto.
Qed.
Lemma v_widen_sound x y c : relv x c \/ relv y c -> relv (v_widen x y) c.
Proof.
  destruct x as [a|], y as [b|]; cbn [v_widen relv]; try tauto.
  apply comb_union. intros; apply e_widen_sound; auto.
Qed.

Lemma v_meet_gen_sound fb univ x y c :
  (forall e1 e2 s, genv e1 s -> genv e2 s -> genv (fb e1 e2) s) ->
  relv x c -> relv y c -> relv (v_meet_gen fb univ x y) c.
Proof.
  intros FB. destruct x as [a|], y as [b|]; cbn [v_meet_gen relv]; try tauto.
  intros Ra Rb.
  assert (CM : forall g, cgamma (sr_meet (count a g) (count b g)) (creators c g)).
  { intros g. apply cg_meet; [apply (rc_count _ _ (r_core _ _ Ra)) | apply (rc_count _ _ (r_core _ _ Rb))]. }
  assert (IM : forall g, igamma (bv_meet (rinit a g) (rinit b g)) c g).
  { intros g. apply ig_meet; [apply (rc_init _ _ (r_core _ _ Ra)) | apply (rc_init _ _ (r_core _ _ Rb))]. }
  destruct (existsb _ univ) eqn:EX.
  { apply existsb_exists in EX. destruct EX as (g & _ & B). unfold ri_is_bot, ri_meet in B. cbn [fst snd] in B.
    apply orb_true_iff in B. destruct B as [B|B].
    - specialize (CM g). unfold count in CM. destruct (sr_meet (fst (r_rgn a g)) (fst (r_rgn b g))); try discriminate. exact CM.
    - specialize (IM g). unfold rinit in IM. destruct (bv_meet (snd (r_rgn a g)) (snd (r_rgn b g))); try discriminate. exact IM. }
  unfold comb_val.
  assert (GB : forall s, view c s -> genv (fb (EMap (r_base a)) (EMap (r_base b))) s).
  { intros s V. apply FB; [apply (rc_base _ _ (r_core _ _ Ra)) | apply (rc_base _ _ (r_core _ _ Rb))]; auto. }
  destruct (fb (EMap (r_base a)) (EMap (r_base b))) as [|m]; [elim (GB _ (view_id c))|].
  cbn [with_base relv].
  constructor.
  - constructor; cbn [r_base r_rgn]; [exact GB | exact CM | exact IM | apply (rc_wf _ _ (r_core _ _ Ra))].
  - intros v Kv. cbn [r_alloc]. apply sg_meet; [apply (r_svar _ _ Ra) | apply (r_svar _ _ Rb)]; auto.
  - intros g Kg x z Hz. cbn [r_alloc]. apply sg_meet; [eapply (r_srgn _ _ Ra) | eapply (r_srgn _ _ Rb)]; eauto.
  - intros Off v. cbn [r_alloc]. rewrite (r_soff _ _ Ra Off), (r_soff _ _ Rb Off). reflexivity.
  - apply (r_anull _ _ Ra).
  - intros v Kv. cbn [r_tags]. apply tg_meet; [apply (r_tvar _ _ Ra) | apply (r_tvar _ _ Rb)]; auto.
  - intros g Kg x. cbn [r_tags]. apply tg_meet; [apply (r_trgn _ _ Ra) | apply (r_trgn _ _ Rb)]; auto.
  - intros Off v. cbn [r_tags]. rewrite (r_toff _ _ Ra Off), (r_toff _ _ Rb Off). reflexivity.
  - apply (r_tuw _ _ Ra).
Qed.

(* the top value describes every well-formed concrete state *)
Definition cinit (c : cstate) : Prop :=
  cwf c /\ c_asite c 0 = None /\ (forall g x, c_hp c g x = None -> c_htg c g x = []).
Lemma rel_top c : cinit c -> rel r_top c.
Proof.
  intros (W & A & U). constructor; cbn; auto.
  - constructor; cbn; auto. intros s _ k. apply gamma_top.
Qed.

(* ------------------------------------------------------------ the register machine *)
Variable dupf : var -> var.
Variable univ : list var.
Definition CF : rconf := mkC P dupf univ.

Definition cset := cstate -> Prop.
Definition cget (cs : list cset) (r : reg) : cset := nth r cs (fun _ => False).
Fixpoint csetr (cs : list cset) (r : reg) (v : cset) : list cset :=
  match cs, r with
  | [], _ => []
  | _ :: t, O => v :: t
  | h :: t, S r' => h :: csetr t r' v
  end.

Definition reg_of (o : rop) : reg :=
  match o with
  | OTop r | OBot r | OCopy r _ | OInit r _ | OMk r _ _ _ | OFree r _ _ | OLd r _ _ _ _ | OSt r _ _ _
  | OGep r _ _ _ _ _ _ | ORcopy r _ _ | OAssumeRef r _ _ | OSelRef r _ _ _ _ _ | OTag r _ _
  | OAssign r _ _ | OArith r _ _ _ _ | OAssume r _ | OHavoc r _ _
  | OJoin r _ _ | OMeet r _ _ | OWiden r _ _ | ONarrow r _ _ => r
  end.

(* the concrete operation on sets of states corresponding to each abstract one *)
Definition cstepS (cs : list cset) (o : rop) : list cset :=
  match o with
  | OTop r => csetr cs r cinit
  | OBot r => csetr cs r (fun _ => False)
  | OCopy r s => csetr cs r (cget cs s)
  | OJoin r s t | OWiden r s t => csetr cs r (fun c => cget cs s c \/ cget cs t c)
  | OMeet r s t | ONarrow r s t => csetr cs r (fun c => cget cs s c /\ cget cs t c)
  | _ => csetr cs (reg_of o) (fun c' => exists c, cget cs (reg_of o) c /\ cstep o c c')
  end.

(* side conditions: well-typed CrabIR (kinds of the operands) and the canonical form of the
   expressions handed over by the front end *)
Definition op_ok (o : rop) : Prop :=
  match o with
  | OInit _ g => is_rgn g = true
  | OMk _ p g _ => is_rgn p = false
  | OLd _ x p g isr =>
    is_rgn x = false /\ is_rgn p = false /\ is_rgn g = true /\ is_rgn (dupf g) = false /\ dupf g <> x /\
    (isr = true -> is_refrgn g = true) /\ (is_refv x = true -> isr = true)
  | OSt _ p g v => is_rgn p = false /\ is_rgn g = true /\ sval_ok g v
  | OGep _ p2 g2 p1 g1 off addr =>
    is_rgn p2 = false /\ is_rgn p1 = false /\ nonrgn_exp off /\ nonrgn_exp addr /\
    ~ In p2 (map snd (le_terms off)) /\ (forall s, eval_le addr s = s p1 + eval_le off s) /\
    (is_refv p2 = true -> is_refv p1 = true)
  | ORcopy _ l g => is_rgn l = true /\ is_rgn g = true /\ l <> g /\ is_refrgn l = is_refrgn g
  | OAssumeRef _ rc e => rcst_ok rc e
  | OSelRef _ p g a1 a2 ne => is_rgn p = false /\ ne = le_var p /\ arm_ok p a1 /\ arm_ok p a2
  | OTag _ g _ => is_rgn g = true
  | OAssign _ x e => is_rgn x = false /\ is_refv x = false /\ nonrgn_exp e
  | OArith _ _ x y z =>
    is_rgn x = false /\ is_refv x = false /\ is_rgn y = false /\ (forall v, z = OVar v -> is_rgn v = false)
  | OAssume _ cs => forall k, In k cs -> wf_lc k /\ nonrgn_exp (lc_exp k)
  | OHavoc _ v k =>
    match k with
    | KRegion => is_rgn v = true
    | KRef => is_rgn v = false
    | KScalar => is_rgn v = false /\ is_refv v = false
    end
  | _ => True
  end.

Definition rels (rs : list rval) (cs : list cset) : Prop :=
  length rs = length cs /\ forall r c, cget cs r c -> relv (vget rs r) c.

Lemma vget_vset rs r v r' : (r < length rs)%nat ->
  vget (vset rs r v) r' = if Nat.eqb r' r then v else vget rs r'.
Proof.
  revert r r'. induction rs as [|h t IH]; simpl; intros r r' L; [lia|].
  destruct r, r'; simpl; auto. apply IH. lia.
Qed.
Lemma vset_oob rs r v : (length rs <= r)%nat -> vset rs r v = rs.
Proof. revert r. induction rs as [|h t IH]; simpl; intros r L; auto. destruct r; [lia|]. f_equal. apply IH. lia. Qed.
Lemma cget_csetr cs r v r' : (r < length cs)%nat ->
  cget (csetr cs r v) r' = if Nat.eqb r' r then v else cget cs r'.
Proof.
  revert r r'. induction cs as [|h t IH]; simpl; intros r r' L; [lia|].
  destruct r, r'; simpl; auto. apply IH. lia.
Qed.
Lemma csetr_oob cs r v : (length cs <= r)%nat -> csetr cs r v = cs.
Proof. revert r. induction cs as [|h t IH]; simpl; intros r L; auto. destruct r; [lia|]. f_equal. apply IH. lia. Qed.
Lemma vset_length rs r v : length (vset rs r v) = length rs.
Proof. revert r. induction rs as [|h t IH]; simpl; intros r; auto. destruct r; simpl; auto. Qed.
Lemma csetr_length cs r v : length (csetr cs r v) = length cs.
Proof. revert r. induction cs as [|h t IH]; simpl; intros r; auto. destruct r; simpl; auto. Qed.

Lemma rels_set rs cs r (a : rval) (cv : cset) :
  rels rs cs -> (forall c, cv c -> relv a c) -> rels (vset rs r a) (csetr cs r cv).
Proof.
  intros [L R] H. split. { rewrite vset_length, csetr_length; auto. }
  intros r' c. destruct (Nat.lt_ge_cases r (length rs)) as [I|O].
  - rewrite vget_vset by auto. rewrite cget_csetr by lia. destruct (Nat.eqb r' r); auto.
  - rewrite vset_oob by auto. rewrite csetr_oob by lia. auto.
Qed.

Lemma rels_unary rs cs o f :
  rels rs cs ->
  (forall a c c', rel a c -> cstep o c c' -> relv (f a) c') ->
  rels (vset rs (reg_of o) (lift f (vget rs (reg_of o))))
       (csetr cs (reg_of o) (fun c' => exists c, cget cs (reg_of o) c /\ cstep o c c')).
Proof.
  intros R H. apply rels_set; auto. intros c' (c & G & S).
  destruct R as [_ R]. specialize (R _ _ G). destruct (vget rs (reg_of o)) as [a|]; [|elim R].
  cbn [lift]. eapply H; eauto.
Qed.

Theorem rstep_sound rs cs o rs' :
  rels rs cs -> op_ok o -> rstep CF rs o = Some rs' -> rels rs' (cstepS cs o).
Proof.
  intros R OK ST. pose proof R as [L RR].
  destruct o; cbn [rstep cstepS c_params c_dup c_univ CF reg_of] in *;
    try (inversion ST; subst rs'; clear ST).
  - (* top *) apply rels_set; auto. intros c. apply rel_top.
  - (* bot *) apply rels_set; auto.
  - (* copy *) apply rels_set; auto.
  - (* init *)
    destruct (vget rs r) as [a|] eqn:V.
    + destruct (t_init P g a) as [a'|] eqn:T; [|discriminate]. inversion ST; subst rs'.
      apply rels_set; auto. intros c' (c & G & S). specialize (RR _ _ G). rewrite V in RR.
      eapply t_init_sound; eauto.
    + inversion ST; subst rs'. split; [rewrite csetr_length; auto|].
      intros r' c. destruct (Nat.lt_ge_cases r (length cs)) as [I|O].
      * rewrite cget_csetr by auto. destruct (Nat.eqb_spec r' r) as [->|N]; auto.
        intros H. destruct H as (c0 & G & _). specialize (RR _ _ G). rewrite V in RR. elim RR.
      * rewrite csetr_oob by auto. auto.
  - (* mk *) apply (rels_unary rs cs (OMk r p g site)); auto. intros. eapply t_mk_sound; eauto.
  - (* free *) apply (rels_unary rs cs (OFree r g p)); auto. intros a c c' Ra S. cbn in S. subst. apply t_free_sound; auto.
  - (* load *) destruct OK as (K1 & K2 & K3 & K4 & K5 & K6 & K7).
    apply (rels_unary rs cs (OLd r x p g x_is_ref)); auto. intros. eapply t_load_sound; eauto.
  - (* store *) destruct OK as (K1 & K2 & K3).
    apply (rels_unary rs cs (OSt r p g v)); auto. intros. eapply t_store_sound; eauto.
  - (* gep *) destruct OK as (K1 & K2 & K3 & K4 & K5 & K6 & K7).
    apply (rels_unary rs cs (OGep r p2 g2 p1 g1 offset addr)); auto. intros a c c' Ra S. cbn in S.
    eapply t_gep_sound; eauto.
  - (* region_copy *) destruct OK as (K1 & K2 & K3 & K4).
    apply (rels_unary rs cs (ORcopy r l g)); auto. intros. eapply t_rcopy_sound; eauto.
  - (* ref_assume *)
    apply (rels_unary rs cs (OAssumeRef r c addr_exp)); auto. intros a c0 c' Ra S. cbn in S.
    eapply t_assume_ref_sound; eauto.
  - (* select_ref *) destruct OK as (K1 & -> & K3 & K4).
    apply (rels_unary rs cs (OSelRef r p g a1 a2 (le_var p))); auto. intros a c c' Ra S. cbn in S.
    unfold t_selref. apply v_join_sound. destruct S as [S|S]; [left|right]; eapply sel_arm_sound; eauto.
  - (* add_tag *) apply (rels_unary rs cs (OTag r g t)); auto. intros. cbn [relv]. eapply t_tag_sound; eauto.
  - (* assign *) destruct OK as (K1 & K2 & K3).
    apply (rels_unary rs cs (OAssign r x e)); auto. intros. eapply t_assign_sound; eauto.
  - (* arith *) destruct OK as (K1 & K2 & K3 & K4).
    apply (rels_unary rs cs (OArith r op x y z)); auto. intros. eapply t_arith_sound; eauto.
  - (* assume *) apply (rels_unary rs cs (OAssume r cs0)); auto. intros. eapply t_assume_sound; eauto.
  - (* havoc *) apply (rels_unary rs cs (OHavoc r v k)); auto. intros a c c' Ra S.
    destruct k; cbn in S.
    + destruct OK as [K1 K2]. apply (t_havoc_scalar_sound a c c' v KScalar); auto; congruence.
    + apply (t_havoc_scalar_sound a c c' v KRef); auto; congruence.
    + apply (t_havoc_region_sound a c c' r v); auto.
  - (* join *) apply rels_set; auto. intros c [G|G]; apply v_join_sound; [left|right]; apply RR; auto.
  - (* meet *) apply rels_set; auto. intros c [G1 G2]. unfold v_meet. apply v_meet_gen_sound.
    + intros; apply e_meet_sound; auto.
    + apply RR; auto.
    + apply RR; auto.
  - (* widen *) apply rels_set; auto. intros c [G|G]; apply v_widen_sound; [left|right]; apply RR; auto.
  - (* narrow *) apply rels_set; auto. intros c [G1 G2]. unfold v_narrow. apply v_meet_gen_sound.
    + intros; apply e_narrow_sound; auto.
    + apply RR; auto.
    + apply RR; auto.
Qed.

Theorem region_history_sound h : Forall op_ok h -> forall rs cs rs',
  rels rs cs -> rrun CF rs h = Some rs' -> rels rs' (fold_left cstepS h cs).
Proof.
  induction h as [|o t IH]; simpl; intros OK rs cs rs' R RUN.
  - inversion RUN; subst; auto.
  - inversion OK; subst. destruct (rstep CF rs o) as [rs1|] eqn:ST; [|discriminate].
    eapply IH; eauto. eapply rstep_sound; eauto.
Qed.

Lemma rels_top n : rels (repeat (Some r_top) n) (repeat cinit n).
Proof.
  split. { rewrite !repeat_length; auto. }
  intros r c G. unfold vget, cget in *.
  destruct (Nat.lt_ge_cases r n) as [I|O].
  - rewrite nth_indep with (d' := Some r_top) by (rewrite repeat_length; auto).
    rewrite nth_repeat. apply rel_top. rewrite nth_indep with (d' := cinit) in G by (rewrite repeat_length; auto).
    rewrite nth_repeat in G. exact G.
  - rewrite nth_overflow in G by (rewrite repeat_length; auto). elim G.
Qed.

(* ---- soundness of the answers ---- *)
Theorem q_at_sound rs cs r c x : rels rs cs -> cget cs r c -> gamma (q_at (vget rs r) x) (c_st c x).
Proof.
  intros [_ R] G. specialize (R _ _ G). destruct (vget rs r) as [a|]; [|elim R].
  cbn [q_at]. apply rel_at. apply (r_core _ _ R).
Qed.

Theorem q_null_sound rs cs r c p : rels rs cs -> cget cs r c ->
  (q_null (vget rs r) p = BTrue -> c_st c p = 0) /\ (q_null (vget rs r) p = BFalse -> c_st c p <> 0) /\
  q_null (vget rs r) p <> BBot.
Proof.
  intros [_ R] G. specialize (R _ _ G). destruct (vget rs r) as [a|]; [|elim R].
  cbn [q_null]. pose proof (r_core _ _ R) as RC. repeat split.
  - eapply is_null_true; eauto.
  - eapply is_null_false; eauto.
  - unfold is_null. destruct (negb _); [discriminate|].
    destruct (lb (get (r_base a) p)) as [|[| |]|]; try discriminate;
      destruct (ub (get (r_base a) p)) as [|[| |]|]; discriminate.
Qed.

Theorem q_sites_sound rs cs r c p ss : rels rs cs -> cget cs r c -> is_refv p = true ->
  q_sites (vget rs r) p = Some ss ->
  c_st c p = 0 \/ exists site, c_asite c (c_st c p) = Some site /\ In site ss.
Proof.
  intros [_ R] G K Q. specialize (R _ _ G). destruct (vget rs r) as [a|]; [|elim R].
  cbn [q_sites] in Q. pose proof (r_svar _ _ R p K) as X. rewrite Q in X. exact X.
Qed.

Theorem q_tags_sound rs cs r c g T : rels rs cs -> cget cs r c -> is_rgn g = true ->
  q_tags (vget rs r) g = Some T -> forall x t, In t (c_htg c g x) -> In t T.
Proof.
  intros [_ R] G K Q x t I. specialize (R _ _ G). destruct (vget rs r) as [a|]; [|elim R].
  cbn [q_tags] in Q. pose proof (r_trgn _ _ R g K x) as X. rewrite Q in X. apply X. exact I.
Qed.

Theorem q_count_sound rs cs r c g : rels rs cs -> cget cs r c ->
  cgamma (fst (q_count (vget rs r) g)) (creators c g) /\
  (singleton_count (fst (q_count (vget rs r) g)) = true ->
   forall a1 a2, In a1 (addrs c g) -> In a2 (addrs c g) -> a1 = a2).
Proof.
  intros [_ R] G. specialize (R _ _ G). destruct (vget rs r) as [a|]; [|elim R].
  cbn [q_count]. pose proof (rc_count _ _ (r_core _ _ R) g) as CG. split; auto.
  intros S a1 a2 I1 I2. destruct (cg_singleton _ _ S CG) as [E|(v & E)]; unfold creators, addrs in *.
  - destruct (c_made c g); [elim I1 | discriminate].
  - destruct (c_made c g) as [|[v1 x1] [|? ?]]; try discriminate. simpl in *.
    destruct I1 as [<-|[]]. destruct I2 as [<-|[]]. reflexivity.
Qed.

(* loads: the variable loaded through a reference describes the value of the cell *)
Theorem load_sound rs cs rs' r x p g isr c z :
  rels rs cs -> op_ok (OLd r x p g isr) -> rstep CF rs (OLd r x p g isr) = Some rs' ->
  cget cs r c -> (r < length cs)%nat -> valid c g (c_st c p) -> c_hp c g (c_st c p) = Some z ->
  gamma (q_at (vget rs' r) x) z.
Proof.
  intros R OK ST G L V H.
  pose proof (rstep_sound _ _ _ _ R OK ST) as R'.
  set (c' := mkCS (upd (c_st c) x z) (c_hp c) (c_made c) (c_asite c)
                  (fupd (c_vtg c) x (c_htg c g (c_st c p))) (c_htg c)).
  assert (G' : cget (cstepS cs (OLd r x p g isr)) r c').
  { cbn [cstepS reg_of]. rewrite cget_csetr by auto. rewrite Nat.eqb_refl.
    exists c. split; auto. cbn. split; auto. exists z. split; auto. }
  pose proof (q_at_sound _ _ r c' x R' G') as X. cbn in X. rewrite upd_same in X. exact X.
Qed.

(* ---- the property as a predicate on an arbitrary implementation ----
   An implementation of a region analysis over some statement language [Op]: abstract values,
   a (partial: it may abort) transfer function on registers, and the four kinds of answers. *)
Record rmachine (Op : Type) := mkM {
  m_val : Type;
  m_top : m_val;
  m_step : list m_val -> Op -> option (list m_val);
  m_at : m_val -> var -> itv;
  m_null : m_val -> var -> bv;
  m_sites : m_val -> var -> dset;
  m_tags : m_val -> var -> dset
}.
Fixpoint m_run {Op} (M : rmachine Op) (vs : list (m_val Op M)) (h : list Op) : option (list (m_val Op M)) :=
  match h with
  | [] => Some vs
  | o :: t => match m_step Op M vs o with None => None | Some vs' => m_run M vs' t end
  end.

(* Property C15 for an implementation M, a concrete semantics of its statements on sets of
   states and an admissibility predicate on statements (well-typed CrabIR): after every
   admissible history from top, for every concrete state reached by the same operations,
   every variable (in particular every variable loaded through a reference from a cell
   written before, and every address) is inside its abstract value, definite null / non-null
   answers are right, reported allocation sites and tags contain the actual ones. *)
Definition C15_statement (Op : Type) (M : rmachine Op) (csem : list cset -> Op -> list cset)
           (ok : Op -> Prop) : Prop :=
  forall h n vs, Forall ok h -> m_run M (repeat (m_top Op M) n) h = Some vs ->
  forall r c, cget (fold_left csem h (repeat cinit n)) r c ->
  forall v, nth_error vs r = Some v ->
    (forall x, gamma (m_at Op M v x) (c_st c x)) /\
    (forall p, (m_null Op M v p = BTrue -> c_st c p = 0) /\ (m_null Op M v p = BFalse -> c_st c p <> 0)) /\
    (forall p ss, is_refv p = true -> m_sites Op M v p = Some ss ->
       c_st c p = 0 \/ exists site, c_asite c (c_st c p) = Some site /\ In site ss) /\
    (forall g T, is_rgn g = true -> m_tags Op M v g = Some T -> forall x t, In t (c_htg c g x) -> In t T).

(* the model: RegionCore over the interval domain, the modelled statements *)
Definition core_machine : rmachine rop :=
  mkM rop rval (Some r_top) (rstep CF) q_at q_null q_sites q_tags.

Lemma m_run_core vs h : m_run core_machine vs h = rrun CF vs h.
Proof. revert vs. induction h as [|o t IH]; simpl; intros vs; auto. destruct (rstep CF vs o); auto. Qed.

Lemma vget_nth_error vs r v : nth_error vs r = Some v -> vget vs r = v.
Proof. intros H. unfold vget. apply nth_error_nth. exact H. Qed.

Theorem core_machine_sound : C15_statement rop core_machine cstepS op_ok.
Proof.
  intros h n vs OK RUN r c G v NV. rewrite m_run_core in RUN.
  pose proof (region_history_sound h OK _ _ _ (rels_top n) RUN) as R.
  apply vget_nth_error in NV. cbn [m_at m_null m_sites m_tags core_machine]. rewrite <- NV.
  split; [|split; [|split]].
  - intros x. eapply q_at_sound; eauto.
  - intros p. destruct (q_null_sound _ _ r c p R G) as (A & B & _). split; auto.
  - intros p ss K Q. eapply q_sites_sound; eauto.
  - intros g T K Q. eapply q_tags_sound; eauto.
Qed.
End WithKinds.

(* ---- non-vacuity: a concrete run of  region_init; p := make_ref; store 5; x := load
   (variables: x = 1, p = 2, dup = 9, region = 10) ---- *)
Definition ex_is_rgn (v : var) : bool := N.eqb v 10.
Definition ex_is_refv (v : var) : bool := N.eqb v 2.
Definition ex_P : rparams := mkP true true.
Definition ex_hist : list rop :=
  [OInit 0%nat 10%N; OMk 0%nat 2%N 10%N 7; OSt 0%nat 2%N 10%N (SCst 5); OLd 0%nat 1%N 2%N 10%N false].

Example ex_ok : Forall (op_ok ex_is_rgn (fun _ => false) ex_is_refv (fun _ => 9%N)) ex_hist.
Proof.
  repeat constructor; cbn; auto; try discriminate.
Qed.

Example ex_abstract :
  exists s, rrun (CF ex_P (fun _ => 9%N) [10%N]) [Some r_top] ex_hist = Some [Some s] /\
            get (r_base s) 1%N = iconst 5 /\ count s 10%N = ROne 2 /\ r_alloc s 2%N = Some [7].
Proof. eexists. vm_compute. repeat split. Qed.

Definition ex_c0 : cstate := mkCS (fun _ => 0) (fun _ _ => None) (fun _ => []) (fun _ => None) (fun _ => []) (fun _ _ => []).
Example ex_concrete :
  exists c, cget (fold_left cstepS ex_hist [cinit]) 0%nat c /\ c_st c 1%N = 5 /\ c_st c 2%N = 1000.
Proof.
  cbn [ex_hist fold_left cstepS csetr cget nth reg_of].
  eexists. split.
  - eexists. split.
    + eexists. split.
      * eexists. split.
        -- exists ex_c0. split.
           ++ repeat split; cbn; auto. intros g a z H. discriminate.
           ++ cbn. reflexivity.
        -- cbn. exists 1000. repeat split; try discriminate; reflexivity.
      * cbn. split; [split; [discriminate | left; reflexivity] | reflexivity].
    + cbn. split; [split; [discriminate | left; reflexivity]|].
      exists 5. split; reflexivity.
  - cbn. split; reflexivity.
Qed.

(* why fixes/regions-1 is needed: with small_range::increment itself a second reference
   created through the same variable leaves the count at "exactly one" *)
Lemma unrepaired_increment_refuted :
  exists c L v, cgamma c L /\ ~ cgamma (sr_incr c (Z.of_N v)) (L ++ [Z.of_N v]).
Proof. exists (ROne 7), [7], 7%N. split; [reflexivity|]. cbn. discriminate. Qed.
