(* RegionCoreSound.v — property C15 on the region-domain model (Dom/RegionCore.v).

   Concrete semantics: a store (integers, booleans, addresses of references; 0 = null), a heap
   region -> address -> written value, and instrumentation that is a function of the execution:
   for every region the list of (creating variable, address) of the references created for it
   by ref_make / ref_gep, the allocation site of every allocated address, and the tags carried
   by values.  Loads and stores through a reference are only defined when the reference is
   not null and was created for that region by the analysed code (hypothesis "regions are
   allocated inside the analysed code", under which the count-zero strong update of the C++
   is sound); loads are only defined from cells written before (the property's own
   restriction).

   Theorems: after ANY finite history of the modelled operations over several registers
   (region_init, ref_make, ref_free, ref_load, ref_store, ref_gep, region_copy, ref_assume,
   select_ref, add_tag, assign, arithmetic, assume, havoc, join, meet, widening, narrowing,
   copies) every register describes every concrete state produced by the corresponding
   concrete operations: variables (hence loaded values and addresses, hence definite
   null / non-null answers) are inside their intervals, the reference-count abstraction
   describes the references created for each region (so strong updates happen on singletons
   or never-written regions only), reported allocation-site and tag sets contain the actual
   ones. *)
From Coq Require Import ZArith NArith List Bool Lia.
From CrabV Require Import Base.ZInf Scalar.Itv Scalar.ItvSound Scalar.SmallRange Scalar.Boolean
     Ir.Syntax Dom.ItvEnv Dom.ItvEnvSound Dom.ItvSolver Dom.ItvSolverSound Dom.ItvDomain
     Dom.ItvDomainSound Dom.RegionCore.
Import ListNotations.
Local Open Scope Z_scope.

Arguments d_add : simpl never.
Arguments d_assign : simpl never.
Arguments d_weak_assign : simpl never.
Arguments d_expand : simpl never.
Arguments d_apply_arith : simpl never.

(* ------------------------------------------------------------------ reference counts *)
(* the concrete counterpart of a reference count: the variables through which the references
   of the region were created, in order *)
Definition cgamma (x : sr) (L : list Z) : Prop :=
  match x with
  | RBot => False
  | RZero => L = []
  | ROne v => L = [v]
  | RZeroOrOne v => L = [] \/ L = [v]
  | RZeroOrMore => True
  | ROneOrMore => L <> []
  end.

Ltac zeqb :=
  repeat match goal with
         | |- context [?a =? ?b] => destruct (Z.eqb_spec a b); subst
         | H : context [?a =? ?b] |- _ => destruct (Z.eqb_spec a b); subst
         end.

Lemma app_one_not_nil {A} (L : list A) x : L ++ [x] <> [].
Proof. destruct L; simpl; congruence. Qed.

Lemma cg_incr c L v : cgamma c L -> cgamma (rc_incr c v) (L ++ [Z.of_N v]).
Proof.
  unfold rc_incr. destruct c; cbn; intros H; try (apply app_one_not_nil); auto.
  subst. reflexivity.
Qed.

Lemma cg_incr_phantom c L v : cgamma c L -> L <> [] -> cgamma (rc_incr c v) L.
Proof.
  unfold rc_incr. destruct c; cbn; intros H N; auto; try congruence.
Qed.

Lemma cg_join x y L : cgamma x L \/ cgamma y L -> cgamma (sr_join x y) L.
Proof.
  destruct x, y; cbn; intros [H|H]; zeqb; cbn in *; subst; auto; try tauto; try congruence;
    try (destruct H; subst; auto; congruence); try (right; congruence).
Qed.

Lemma cg_meet x y L : cgamma x L -> cgamma y L -> cgamma (sr_meet x y) L.
Proof.
  destruct x, y; cbn; intros H1 H2; zeqb; cbn in *; subst; auto; try tauto; try congruence;
    try (destruct H1; subst; auto; try congruence); try (destruct H2; subst; auto; try congruence).
Qed.

Lemma cg_singleton c L : singleton_count c = true -> cgamma c L -> L = [] \/ exists v, L = [v].
Proof. destruct c; cbn; intros E H; try discriminate; subst; eauto. Qed.

Lemma cg_top L : cgamma RZeroOrMore L. Proof. exact I. Qed.
Example cg_example : cgamma (rc_incr (rc_incr RZero 7%N) 7%N) [7; 7] /\ rc_incr (rc_incr RZero 7%N) 7%N = ROneOrMore.
Proof. split; [cbn; congruence | reflexivity]. Qed.

(* ------------------------------------------------------------------ concrete states *)
Record cstate := mkCS {
  c_st : store;                       (* integers, booleans, addresses; for a region variable: a
                                         representative of its contents (ghost, see [view]) *)
  c_hp : var -> Z -> option Z;        (* region -> address -> value written there *)
  c_made : var -> list (Z * Z);       (* region -> (creating variable, address) of its references *)
  c_asite : Z -> option Z;            (* address -> allocation site of its memory object *)
  c_vtg : var -> list Z;              (* tags carried by the value of a variable *)
  c_htg : var -> Z -> list Z          (* tags carried by the data stored in a cell *)
}.
Definition addrs (c : cstate) (g : var) : list Z := map snd (c_made c g).
Definition creators (c : cstate) (g : var) : list Z := map fst (c_made c g).
(* written cells were created *)
Definition cwf (c : cstate) : Prop := forall g a z, c_hp c g a = Some z -> In a (addrs c g).
(* a reference may be dereferenced in region g *)
Definition valid (c : cstate) (g : var) (a : Z) : Prop := a <> 0 /\ In a (addrs c g).

Definition hupd {A} (h : var -> Z -> A) (g : var) (a : Z) (v : A) : var -> Z -> A :=
  fun g' a' => if N.eqb g' g && (a' =? a) then v else h g' a'.

Lemma fupd_same {A} (f : var -> A) k v : fupd f k v k = v.
Proof. unfold fupd. rewrite N.eqb_refl. auto. Qed.
Lemma fupd_other {A} (f : var -> A) k v x : x <> k -> fupd f k v x = f x.
Proof. unfold fupd. intros H. destruct (N.eqb_spec x k); congruence. Qed.
Lemma hupd_same {A} (h : var -> Z -> A) g a v : hupd h g a v g a = v.
Proof. unfold hupd. rewrite N.eqb_refl, Z.eqb_refl. auto. Qed.
Lemma hupd_other_rgn {A} (h : var -> Z -> A) g a v g' a' : g' <> g -> hupd h g a v g' a' = h g' a'.
Proof. unfold hupd. intros H. destruct (N.eqb_spec g' g); [congruence|auto]. Qed.
Lemma hupd_other_addr {A} (h : var -> Z -> A) g a v g' a' : a' <> a -> hupd h g a v g' a' = h g' a'.
Proof. unfold hupd. intros H. destruct (Z.eqb_spec a' a); [congruence|]. rewrite andb_false_r. auto. Qed.

Lemma gmap_ext m s s' : (forall k, s k = s' k) -> gmap m s -> gmap m s'.
Proof. intros E G k. rewrite <- E. apply G. Qed.
Lemma upd_same' s x v : upd s x v x = v. Proof. apply upd_same. Qed.

Section WithKinds.
(* which variables are regions (a static property of CrabIR variables) *)
Variable is_rgn : var -> bool.

(* the stores summarised by a concrete state: every region variable stands for its
   representative or for the contents of any of its written cells *)
Definition view (c : cstate) (s : store) : Prop :=
  (forall k, is_rgn k = false -> s k = c_st c k) /\
  (forall r, is_rgn r = true -> s r = c_st c r \/ exists a, c_hp c r a = Some (s r)).

Lemma view_id c : view c (c_st c).
Proof. split; auto. Qed.


(* the "initialised" flag: False = no cell written yet, True = some cell written *)
Definition igamma (b : bv) (c : cstate) (g : var) : Prop :=
  match b with
  | BFalse => forall x, c_hp c g x = None
  | BTrue => exists x z, c_hp c g x = Some z
  | BBot => False
  | BTop => True
  end.

Lemma ig_join x y c g : igamma x c g \/ igamma y c g -> igamma (bv_join x y) c g.
Proof. destruct x, y; cbn; intros [H|H]; auto; try contradiction. Qed.
Lemma ig_meet x y c g : igamma x c g -> igamma y c g -> igamma (bv_meet x y) c g.
Proof.
  destruct x, y; cbn; intros H1 H2; auto; try contradiction.
  - destruct H2 as (a & z & E). rewrite H1 in E. discriminate.
  - destruct H1 as (a & z & E). rewrite H2 in E. discriminate.
Qed.

Record rel_core (a : rst) (c : cstate) : Prop := mkRel {
  rc_base : forall s, view c s -> gmap (r_base a) s;
  rc_count : forall g, cgamma (count a g) (creators c g);
  rc_init : forall g, igamma (rinit a g) c g;
  rc_wf : cwf c
}.

(* ---- answers ---- *)
Lemma rel_at a c x : rel_core a c -> gamma (get (r_base a) x) (c_st c x).
Proof. intros R. apply (rc_base _ _ R _ (view_id c)). Qed.

Lemma is_null_true a c p : rel_core a c -> is_null (r_base a) p = BTrue -> c_st c p = 0.
Proof.
  intros R. pose proof (rel_at a c p R) as G. unfold is_null.
  destruct (negb (ileq (iconst 0) (get (r_base a) p))); [discriminate|].
  destruct (get (r_base a) p) as [l u]; simpl in *.
  destruct l as [|l|]; try discriminate. destruct l; try discriminate.
  destruct u as [|u|]; try discriminate. destruct u; try discriminate.
  intros _. unfold gamma in G. simpl in G. unfold ble_z_l, ble_z_r in G. simpl in G.
  destruct G as [G1 G2]. apply Z.leb_le in G1, G2. lia.
Qed.

Lemma is_null_false a c p : rel_core a c -> is_null (r_base a) p = BFalse -> c_st c p <> 0.
Proof.
  intros R. pose proof (rel_at a c p R) as G. unfold is_null.
  destruct (ileq (iconst 0) (get (r_base a) p)) eqn:E; simpl.
  - destruct (lb (get (r_base a) p)) as [|l|]; try discriminate.
    destruct l; try discriminate. destruct (ub (get (r_base a) p)) as [|u|]; try discriminate.
    destruct u; discriminate.
  - intros _ Z0. rewrite Z0 in G.
    assert (X : ileq (iconst 0) (get (r_base a) p) = true); [|congruence].
    apply ileq_complete. apply wf_iconst.
    intros x Gx. apply gamma_iconst in Gx. subst. auto.
Qed.

Lemma genv_ext e s s' : (forall k, s k = s' k) -> genv e s -> genv e s'.
Proof. destruct e; simpl; auto. apply gmap_ext. Qed.

Lemma e_forget_keep e s x : genv e s -> genv (e_forget e x) s.
Proof.
  intros G. apply (genv_ext _ (upd s x (s x))).
  - intros k. destruct (N.eq_dec k x) as [->|N]; [apply upd_same | apply upd_other; auto].
  - apply e_forget_sound; auto.
Qed.

(* building a related value from its parts *)
Lemma rel_with_base a e c rg al tg :
  (forall s, view c s -> genv e s) ->
  (forall g, cgamma (fst (rg g)) (creators c g)) ->
  (forall g, igamma (snd (rg g)) c g) -> cwf c ->
  exists m, e = EMap m /\ rel_core (mkR m rg al tg) c.
Proof.
  intros B C I W. destruct e as [|m].
  - elim (B _ (view_id c)).
  - exists m. split; auto. constructor; auto.
Qed.

(* ---- views under updates of the concrete state ---- *)
Lemma lift_scalar c c' x z E :
  is_rgn x = false -> c_st c' = upd (c_st c) x z -> c_hp c' = c_hp c ->
  (forall s0, view c s0 -> genv E (upd s0 x z)) ->
  forall s, view c' s -> genv E s.
Proof.
  intros Kx ES EH H s [V1 V2].
  assert (V0 : view c (upd s x (c_st c x))).
  { split.
    - intros k Kk. destruct (N.eq_dec k x) as [->|N]; [apply upd_same|].
      rewrite upd_other by auto. rewrite V1 by auto. rewrite ES. apply upd_other; auto.
    - intros r Kr. assert (N : r <> x) by (intros ->; congruence).
      rewrite upd_other by auto. destruct (V2 r Kr) as [A|A].
      + left. rewrite A, ES. apply upd_other; auto.
      + right. rewrite EH in A. auto. }
  apply (genv_ext _ (upd (upd s x (c_st c x)) x z)); [|apply H; auto].
  intros k. destruct (N.eq_dec k x) as [->|N].
  - rewrite upd_same. rewrite V1 by auto. rewrite ES. rewrite upd_same. auto.
  - rewrite !upd_other by auto. auto.
Qed.

Definition nonrgn_exp (e : linexp) : Prop := forall co v, In (co, v) (le_terms e) -> is_rgn v = false.

Lemma eval_terms_agree ts s s' :
  (forall co v, In (co, v) ts -> s v = s' v) -> eval_terms ts s = eval_terms ts s'.
Proof.
  induction ts as [|[co v] r IH]; simpl; intros H; auto.
  rewrite (H co v) by auto. rewrite IH; auto. intros; eapply H; eauto.
Qed.

Lemma eval_view e c s : nonrgn_exp e -> view c s -> eval_le e s = eval_le e (c_st c).
Proof.
  intros N [V _]. unfold eval_le. f_equal. apply eval_terms_agree.
  intros co v I. apply V. eapply N; eauto.
Qed.

Lemma eval_le_var v s : eval_le (le_var v) s = s v.
Proof. unfold eval_le, le_var. simpl. lia. Qed.
Lemma eval_le_const k s : eval_le (le_const k) s = k.
Proof. unfold eval_le, le_const. simpl. lia. Qed.

Lemma d_assign_var x g e : d_assign x (le_var g) e = e_set e x (e_at e g).
Proof. reflexivity. Qed.
End WithKinds.
